#!/usr/bin/env python3
"""run every claimed check (quick tier) on the current tree; print a summary; validate evidence"""
import json, subprocess, sys, time, os
ROOT = os.path.dirname(os.path.dirname(os.path.abspath(__file__)))
m = json.load(open(os.path.join(ROOT, "MANIFEST.json")))
tier = sys.argv[1] if len(sys.argv) > 1 else "quick"
bad = 0
for c in m["checks"]:
    p = c["property_id"]
    t = time.time()
    cmd = c["quick_cmd"] if tier == "quick" else c["thorough_cmd"]
    r = subprocess.run(cmd, shell=True, cwd=ROOT, capture_output=True, text=True)
    viol = [l for l in r.stdout.splitlines() if l.startswith("VIOLATION")]
    known = [l for l in r.stdout.splitlines() if l.startswith("KNOWN-FINDING")]
    ok = r.returncode == 0 and not viol
    bad += 0 if ok else 1
    print(f"{p} rc={r.returncode} viol={len(viol)} known={len(known)} {time.time()-t:.0f}s {'OK' if ok else 'FAIL'}", flush=True)
    if not ok:
        print("   ", (r.stdout + r.stderr)[-600:].replace("\n", "\n    "))
sys.exit(1 if bad else 0)
