"""Effect-dominance skeleton translator: C function -> `Nice.Flow.Stmt` (deep embedding, lean/Nice/Model/Flow.lean).

Tracked: a few locals / pure calls named in the SPEC (registers).  Everything else is abstracted:
  * a condition over untracked data            -> Cond.orc site          (both outcomes possible)
  * a call to a function not listed as pure    -> Stmt.ev site kind      (kind 0 = may change agent state,
                                                                          kind 1 = only builds / sends a reply)
  * a store through a pointer / into non-local -> Stmt.ev site 0
  * `tracked = f(..)` for a listed call        -> ghost register update + Stmt.havoc
  * for / while                                -> Stmt.loop (zero or more iterations)
Anything the translator does not understand raises Unsupported: the translation is reported broken, never guessed.
A call inside a short-circuited sub-expression is emitted unconditionally (an over-approximation: the theorems
are of the form "every event satisfies P")."""
import re

NORETURN = {"g_assertion_message_expr", "g_assertion_message", "abort", "g_assert_warning", "g_error", "g_assertion_message_cmpnum"}

SPEC_INBOUND = {
    "lean_ns": "InboundStun",
    "file": "agent/conncheck.c",
    "fn": "conn_check_handle_inbound_stun",
    # register 0: the local holding the last validation status (found structurally: the local assigned from the havoc call)
    "havoc_call": "stun_agent_validate",
    "havoc_reg": 0,
    # register 1 (ghost): which STUN agent produced that status, by the struct type owning the `stun_agent` member
    "who_reg": 1,
    "who_by_type": {"NiceComponent": 0, "CandidateDiscovery": 1, "CandidateRefresh": 2},
    # register 3: a pure call on the message being validated, read like a variable
    "pure_reg_calls": {"stun_message_get_class": 3},
    "pure": {
        "nice_address_copy_to_sockaddr", "nice_debug_is_enabled", "nice_address_to_string", "nice_debug",
        "nice_debug_verbose", "nice_address_get_port", "stun_message_get_class", "g_free", "stun_message_find",
        "nice_address_equal", "local_candidate_and_socket_compatible", "remote_candidate_and_socket_compatible",
        "priv_create_username", "stun_debug", "stun_debug_bytes", "memcmp", "memcpy", "g_base64_decode",
        "agent_to_ice_compatibility", "stun_usage_ice_conncheck_use_candidate", "stun_usage_ice_conncheck_priority",
        "strerror", "priv_print_conn_check_lists", "__errno_location", "nice_address_equal_no_port",
    },
    "reply": {
        "stun_agent_build_unknown_attributes_error", "agent_socket_send", "stun_agent_init_error",
        "stun_agent_finish_message", "stun_usage_ice_conncheck_create_reply",
    },
}


def strip(e):
    while e.get("kind") in ("ImplicitCastExpr", "ParenExpr", "CStyleCastExpr", "ConstantExpr"):
        e = e["inner"][0]
    return e


def kids(n):
    return [c for c in n.get("inner", []) if isinstance(c, dict)]


class T:
    def __init__(self, spec, fdecl, src, consts, U):
        self.spec, self.src, self.consts, self.U = spec, src, consts, U
        self.sites = []
        self.by_id = {}
        self.locals = set()
        self.tracked = None          # name of the local holding the havoc result
        for p in kids(fdecl):
            if p.get("kind") == "ParmVarDecl":
                self.locals.add(p.get("id"))
        self.body = [c for c in kids(fdecl) if c.get("kind") == "CompoundStmt"][0]
        self._collect_locals(self.body)
        self._find_tracked(self.body)
        if self.tracked is None:
            raise U(f"no local is assigned from {spec['havoc_call']}")

    # ---- helpers -------------------------------------------------------------------------------------------
    def _collect_locals(self, n):
        if n.get("kind") == "VarDecl":
            self.locals.add(n.get("id"))
        for c in kids(n):
            self._collect_locals(c)

    def _find_tracked(self, n):
        e = n
        if e.get("kind") == "BinaryOperator" and e.get("opcode") == "=":
            l, r = strip(e["inner"][0]), strip(e["inner"][1])
            if r.get("kind") == "CallExpr" and self.callee(r) == self.spec["havoc_call"]:
                if l.get("kind") != "DeclRefExpr":
                    raise self.U("result of the validation call is not stored in a plain local")
                name = l["referencedDecl"]["name"]
                if self.tracked not in (None, name):
                    raise self.U("results of the validation call are stored in two different locals")
                self.tracked = name
        for c in kids(n):
            self._find_tracked(c)

    def text(self, node, maxlen=100):
        rng = node.get("range", {})
        b, e = rng.get("begin", {}), rng.get("end", {})
        try:
            o1 = b.get("offset", b.get("expansionLoc", {}).get("offset"))
            o2 = e.get("offset", e.get("expansionLoc", {}).get("offset")) + e.get("tokLen", e.get("expansionLoc", {}).get("tokLen", 1))
            piece = self.src[o1:o2]
            if isinstance(piece, bytes):          # clang's offsets are byte offsets
                piece = piece.decode("utf-8", "replace")
            return re.sub(r"\s+", " ", piece)[:maxlen]
        except Exception:
            return ""

    def site(self, node, what):
        key = node.get("id")
        if key is not None and key in self.by_id:
            return self.by_id[key]
        self.sites.append(f"{what}: {self.text(node)}")
        if key is not None:
            self.by_id[key] = len(self.sites) - 1
        return len(self.sites) - 1

    def callee(self, call):
        c = strip(call["inner"][0])
        if c.get("kind") == "DeclRefExpr":
            return c["referencedDecl"]["name"]
        return None

    def enum_const(self, e):
        e = strip(e)
        if e.get("kind") == "DeclRefExpr" and e.get("referencedDecl", {}).get("kind") == "EnumConstantDecl":
            n = e["referencedDecl"]["name"]
            if n not in self.consts:
                raise self.U(f"enum constant {n} not among the extracted constants")
            return self.consts[n]
        if e.get("kind") == "IntegerLiteral":
            return int(e["value"])
        if e.get("kind") == "UnaryOperator" and e.get("opcode") == "!":
            v = self.enum_const(e["inner"][0])
            return None if v is None else int(not v)
        if e.get("kind") == "UnaryOperator" and e.get("opcode") == "-":
            v = self.enum_const(e["inner"][0])
            return None if v is None else -v
        return None

    def reg_of(self, e):
        """register read by the expression, or None"""
        e = strip(e)
        if e.get("kind") == "DeclRefExpr" and e["referencedDecl"]["name"] == self.tracked and \
                e["referencedDecl"].get("id") in self.locals:
            return self.spec["havoc_reg"]
        if e.get("kind") == "CallExpr" and self.callee(e) in self.spec["pure_reg_calls"]:
            args = e["inner"][1:]
            if len(args) != 1 or self.text(strip(args[0])) != self.msg_arg:
                raise self.U(f"{self.callee(e)} applied to something other than the validated message {self.msg_arg}")
            return self.spec["pure_reg_calls"][self.callee(e)]
        return None

    def mentions_reg(self, e):
        if self.reg_of(e) is not None:
            return True
        s = strip(e)
        if s.get("kind") == "CallExpr" and self.callee(s) in self.spec["pure_reg_calls"]:
            return True
        return any(self.mentions_reg(c) for c in kids(s))

    def is_local_lvalue(self, e):
        e = strip(e)
        k = e.get("kind")
        if k == "DeclRefExpr":
            return e["referencedDecl"].get("id") in self.locals
        if k == "MemberExpr":
            return (not e.get("isArrow")) and self.is_local_lvalue(e["inner"][0])
        if k == "ArraySubscriptExpr":
            base = strip(e["inner"][0])
            return base.get("kind") == "DeclRefExpr" and base["referencedDecl"].get("id") in self.locals and \
                "[" in base.get("type", {}).get("qualType", "")
        return False

    # ---- expressions: the events an evaluation may cause ---------------------------------------------------
    def scan(self, e):
        """list of Lean `Stmt.ev` terms for every call / non-local store inside e (evaluation order irrelevant)"""
        out = []
        k = e.get("kind")
        if k in ("ReturnStmt", "GotoStmt", "BreakStmt", "ContinueStmt", "IfStmt", "ForStmt", "WhileStmt", "DoStmt", "SwitchStmt"):
            raise self.U("control flow inside an expression")
        if k == "CallExpr":
            name = self.callee(e)
            for a in e["inner"][1:]:
                a0 = strip(a)
                if a0.get("kind") == "UnaryOperator" and a0.get("opcode") == "&":
                    t = strip(a0["inner"][0])
                    if t.get("kind") == "DeclRefExpr" and t["referencedDecl"]["name"] == self.tracked:
                        raise self.U("address of the tracked status passed to a function")
            if name == self.spec["havoc_call"]:
                raise self.U("validation call whose result is not stored in the tracked local")
            if name in NORETURN:
                out.append(".abort")
            elif name in self.spec["pure"]:
                pass
            elif name in self.spec["reply"]:
                out.append(f"(.ev {self.site(e, 'reply ' + name)} 1)")
            else:
                out.append(f"(.ev {self.site(e, 'call ' + str(name))} 0)")
        elif k in ("BinaryOperator", "CompoundAssignOperator") and e.get("opcode", "").endswith("=") and \
                e.get("opcode") not in ("==", "!=", "<=", ">="):
            l = strip(e["inner"][0])
            if l.get("kind") == "DeclRefExpr" and l["referencedDecl"]["name"] == self.tracked:
                raise self.U("tracked status assigned inside an expression")
            if not self.is_local_lvalue(l):
                out.append(f"(.ev {self.site(e, 'store')} 0)")
        elif k == "UnaryOperator" and e.get("opcode") in ("++", "--"):
            l = strip(e["inner"][0])
            if not self.is_local_lvalue(l):
                out.append(f"(.ev {self.site(e, 'store')} 0)")
        for c in kids(e):
            out += self.scan(c)
        return out

    # ---- conditions --------------------------------------------------------------------------------------
    def cond(self, e):
        """(events, Lean Cond term)"""
        e0 = strip(e)
        k = e0.get("kind")
        if not self.mentions_reg(e0):
            return self.scan(e0), f"(.orc {self.site(e0, 'cond')})"
        if k == "UnaryOperator" and e0.get("opcode") == "!":
            ev, c = self.cond(e0["inner"][0])
            return ev, f"(.not {c})"
        if k == "BinaryOperator" and e0.get("opcode") in ("&&", "||"):
            ev1, c1 = self.cond(e0["inner"][0])
            ev2, c2 = self.cond(e0["inner"][1])
            return ev1 + ev2, f"(.{'and' if e0['opcode'] == '&&' else 'or'} {c1} {c2})"
        if k == "BinaryOperator" and e0.get("opcode") in ("==", "!="):
            l, r = e0["inner"]
            rl, rr = self.reg_of(l), self.reg_of(r)
            if rl is not None and rr is None:
                reg, other = rl, r
            elif rr is not None and rl is None:
                reg, other = rr, l
            else:
                raise self.U("comparison of two tracked values")
            v = self.enum_const(other)
            if v is None:
                raise self.U("tracked value compared with a non-constant: " + self.text(e0))
            c = f"(.eq {reg} {v})"
            return [], (c if e0["opcode"] == "==" else f"(.not {c})")
        raise self.U("condition mixes tracked and untracked data in a way the translator does not understand: " + self.text(e0))

    # ---- statements --------------------------------------------------------------------------------------
    def seq(self, parts):
        parts = [p for p in parts if p != ".skip"]
        if not parts:
            return ".skip"
        t = parts[-1]
        for p in reversed(parts[:-1]):
            t = f"(.seq {p}\n {t})"
        return t

    def stmts(self, ss):
        return self.seq([self.stmt(s) for s in ss])

    def stmt(self, n):
        k = n.get("kind")
        if k == "NullStmt":
            return ".skip"
        if k == "CompoundStmt":
            return self.stmts(kids(n))
        if k == "DeclStmt":
            parts = []
            for d in kids(n):
                if d.get("kind") != "VarDecl":
                    continue
                if d.get("name") == self.tracked and kids(d):
                    raise self.U("tracked status has an initialiser")
                for c in kids(d):
                    parts += self.scan(c)
            return self.seq(parts)
        if k == "IfStmt":
            inner = kids(n)
            ev, c = self.cond(inner[0])
            t = self.stmt(inner[1])
            e = self.stmt(inner[2]) if len(inner) > 2 else ".skip"
            if t == ".skip" and e == ".skip":
                return self.seq(ev)
            return self.seq(ev + [f"(.ite {c}\n {t}\n {e})"])
        if k in ("ForStmt", "WhileStmt"):
            inner = n["inner"]
            if k == "ForStmt":
                init, cnd, inc, body = inner[0], inner[2], inner[3], inner[4]
            else:
                init, cnd, inc, body = None, inner[0], None, inner[1]
            pre = self.scan(init) if isinstance(init, dict) and init else []
            if isinstance(cnd, dict) and cnd:
                if self.mentions_reg(cnd):
                    raise self.U("loop condition reads tracked state")
                cev = self.scan(cnd)
            else:
                cev = []
            if isinstance(inc, dict) and inc and self.scan(inc):
                raise self.U("loop increment with a side effect")
            b = self.seq(cev + [self.stmt(body)])
            if b == ".skip":
                return self.seq(pre + cev)
            return self.seq(pre + cev + [f"(.loop {b})"])
        if k == "DoStmt":
            body, c = kids(n)
            c0 = strip(c)
            if not (c0.get("kind") == "IntegerLiteral" and int(c0["value"]) == 0):
                raise self.U("do-while loop that is not the do { } while (0) idiom")
            if self.has_jump(body):
                raise self.U("break/continue inside do { } while (0)")
            return self.stmt(body)
        if k == "BreakStmt":
            return ".brk"
        if k == "ContinueStmt":
            return ".cont"
        if k == "ReturnStmt":
            ev, v = [], 2
            if kids(n):
                ev = self.scan(kids(n)[0])
                c = self.enum_const(kids(n)[0])
                if c in (0, 1):
                    v = c
            return self.seq(ev + [f"(.ret {v})"])
        if k in ("SwitchStmt", "GotoStmt", "LabelStmt"):
            raise self.U(f"{k} not supported by the flow translator")
        # expression statement
        e = strip(n)
        if e.get("kind") == "BinaryOperator" and e.get("opcode") == "=":
            l, r = strip(e["inner"][0]), strip(e["inner"][1])
            if l.get("kind") == "DeclRefExpr" and l["referencedDecl"]["name"] == self.tracked and \
                    l["referencedDecl"].get("id") in self.locals:
                if not (r.get("kind") == "CallExpr" and self.callee(r) == self.spec["havoc_call"]):
                    raise self.U("tracked status assigned from something other than the validation call")
                args = r["inner"][1:]
                who = self.who_of(args[0])
                msg = self.text(strip(args[1]))
                if self.msg_arg not in (None, msg):
                    raise self.U("validation calls parse into different message objects")
                self.msg_arg = msg
                ev = []
                for a in args:
                    ev += self.scan(a)
                return self.seq(ev + [f"(.set {self.spec['who_reg']} {who})",
                                      f"(.havoc {self.spec['havoc_reg']} {self.site(r, 'validate[' + str(who) + ']')})"])
        return self.seq(self.scan(n))

    def has_jump(self, n):
        if n.get("kind") in ("BreakStmt", "ContinueStmt"):
            return True
        if n.get("kind") in ("ForStmt", "WhileStmt", "DoStmt", "SwitchStmt"):
            return False
        return any(self.has_jump(c) for c in kids(n))

    def who_of(self, arg):
        """`&X->stun_agent`: the struct type that owns the STUN agent"""
        a = strip(arg)
        if not (a.get("kind") == "UnaryOperator" and a.get("opcode") == "&"):
            raise self.U("validation call on something other than &<owner>->stun_agent")
        m = strip(a["inner"][0])
        if m.get("kind") != "MemberExpr" or m.get("name") != "stun_agent":
            raise self.U("validation call on something other than &<owner>->stun_agent")
        base = strip(m["inner"][0])
        ty = base.get("type", {}).get("qualType", "").replace("*", "").replace("struct", "").replace("_", "").strip()
        for name, w in self.spec["who_by_type"].items():
            if ty == name or ty == name.replace("_", ""):
                return w
        raise self.U(f"validation by the STUN agent of an unknown owner type `{ty}`")


def first_msg_arg(t, n):
    """the message argument of the first validation call (needed before conditions are translated)"""
    if n.get("kind") == "CallExpr" and t.callee(n) == t.spec["havoc_call"]:
        return t.text(strip(n["inner"][2]))
    for c in kids(n):
        r = first_msg_arg(t, c)
        if r:
            return r
    return None


def enum_values(root, tname, consts, U):
    import glob, os
    for h in sorted(glob.glob(os.path.join(root, "**", "*.h"), recursive=True)):
        rel = h[len(root):]
        if "/_build" in rel or "/build" in rel:
            continue
        txt = open(h, errors="replace").read()
        m = re.search(r"typedef\s+enum\s*\{([^}]*)\}\s*" + re.escape(tname) + r"\s*;", txt)
        if m:
            body = re.sub(r"/\*.*?\*/", "", m.group(1), flags=re.S)
            names = [x.split("=")[0].strip() for x in body.split(",") if x.strip()]
            if not all(n in consts for n in names):
                raise U(f"enumerator of {tname} missing from the extracted constants: {names}")
            return [(n, consts[n]) for n in names]
    raise U(f"enum {tname} not found")


def translate(spec, fdecl, src, consts, U, root):
    t = T(spec, fdecl, src, consts, U)
    t.msg_arg = first_msg_arg(t, t.body)
    prog = t.stmts(kids(t.body))
    vals = enum_values(root, "StunValidationStatus", consts, U)
    classes = enum_values(root, "StunClass", consts, U)
    out = [f"/- GENERATED by tools/extract_flow.py from {spec['file']} {spec['fn']} — do not edit.",
           "   Effect-dominance skeleton (see lean/Nice/Model/Flow.lean).  Registers:",
           f"     r{spec['havoc_reg']} = `{t.tracked}`, the status returned by the last {spec['havoc_call']} call",
           f"     r{spec['who_reg']} = (ghost) owner of the STUN agent that produced it: " +
           ", ".join(f"{k}={v}" for k, v in spec["who_by_type"].items()),
           "     " + ", ".join(f"r{r} = {c} ({t.msg_arg})" for c, r in spec["pure_reg_calls"].items()) +
           " — a pure function of the received bytes, the same at every call",
           "   Event kinds: 0 = call or non-local store that may change agent state, 1 = builds/sends a reply only.",
           "   Calls treated as pure (no event): " + ", ".join(sorted(spec["pure"])),
           "   Sites:"]
    for i, d in enumerate(t.sites):
        out.append(f"     {i} — {d}".replace("/-", "/ -").replace("-/", "- /"))
    out += ["-/", "import Nice.Model.Flow", "namespace Nice.Gen." + spec["lean_ns"], "open Nice.Flow", "",
            "def prog : Stmt :=", prog, "",
            "/-- enumerators of StunValidationStatus -/",
            f"def statusValues : List Nat := [{', '.join(str(v) for _, v in vals)}]",
            "/-- enumerators of StunClass -/",
            f"def classValues : List Nat := [{', '.join(str(v) for _, v in classes)}]",
            f"def nSites : Nat := {len(t.sites)}",
            "", "end Nice.Gen." + spec["lean_ns"], ""]
    nev = sum(1 for s in t.sites if s.startswith(("call", "store")))
    return "\n".join(out), {"sites": len(t.sites), "effect_sites": nev,
                            "reply_sites": sum(1 for s in t.sites if s.startswith("reply"))}


# ---------------------------------------------------------------------------------------------------------------------
# second skeleton: the receive path agent/agent.c agent_recv_message_unlocked (C03 data gate, C02 demultiplexer)
# ---------------------------------------------------------------------------------------------------------------------
SPEC_RECV = {
    "lean_ns": "RecvMessage",
    "file": "agent/agent.c",
    "fn": "agent_recv_message_unlocked",
    # tracked locals: name -> register.  r0 = retval (RecvStatus, stored + 2 so that RECV_ERROR = -2 becomes 0)
    "locals": {"retval": 0, "handled": 2},
    "enum_of_reg": {0: "RecvStatus"},
    "offset": {0: 2},
    # calls whose boolean result is tested in a condition and remembered in a ghost register
    "cond_calls": {"nice_component_verify_remote_candidate": 1},
    "bool_result_calls": {"conn_check_handle_inbound_stun"},
    "pure": set(), "reply": set(),     # every call is an event here
    # kind 5 = the datagram's payload is handed on as the peer's data without being returned: queued for pseudo-TCP, or fed to it
    "marked": {"g_queue_push_tail": 5, "pseudo_tcp_socket_notify_message": 5},
}


def unexpect(e):
    """G_LIKELY (x) = __builtin_expect (({ int v; if (x) v = 1; else v = 0; v; }), 1)  ->  x"""
    e0 = strip(e)
    if e0.get("kind") == "CallExpr":
        c = strip(e0["inner"][0])
        if c.get("kind") == "DeclRefExpr" and c["referencedDecl"]["name"] == "__builtin_expect":
            a = strip(e0["inner"][1])
            if a.get("kind") == "StmtExpr":
                for n in walk(a):
                    if n.get("kind") == "IfStmt":
                        return kids(n)[0]
            return e0["inner"][1]
    return e


def walk(n):
    yield n
    for c in kids(n):
        yield from walk(c)


class T2(T):
    def __init__(self, spec, fdecl, src, consts, U, enums):
        self.spec, self.src, self.consts, self.U = spec, src, consts, U
        self.sites, self.by_id, self.locals = [], {}, set()
        self.enums = enums                      # enum type -> {name: signed value}
        self.tracked = None
        self.msg_arg = None
        self.bool_sites = []
        for p in kids(fdecl):
            if p.get("kind") == "ParmVarDecl":
                self.locals.add(p.get("id"))
        self.body = [c for c in kids(fdecl) if c.get("kind") == "CompoundStmt"][0]
        self._collect_locals(self.body)
        self.label = None

    # registers ---------------------------------------------------------------------------------------------------
    def local_reg(self, e):
        e = strip(e)
        if e.get("kind") == "DeclRefExpr" and e["referencedDecl"].get("id") in self.locals and \
                e["referencedDecl"]["name"] in self.spec["locals"]:
            return self.spec["locals"][e["referencedDecl"]["name"]]
        if e.get("kind") == "MemberExpr" and self.spec.get("mem_regs"):
            # a memory location read like a variable (0 = FALSE / NULL, 1 = anything else); it is not written in this
            # function (checked) and every call outside the spec's `pure` list is followed by a havoc of it
            t = re.sub(r"\s+", "", self.text(e, 400))
            if t in self.spec["mem_regs"]:
                return self.spec["mem_regs"][t]
        return None

    def is_mem(self, reg):
        return reg in (self.spec.get("mem_regs") or {}).values()

    def reg_of(self, e):
        return self.local_reg(e)

    def mentions_reg(self, e):
        e = unexpect(e)
        s = strip(e)
        if self.local_reg(s) is not None:
            return True
        if s.get("kind") == "CallExpr" and self.callee(s) in self.spec["cond_calls"]:
            return True
        if s.get("kind") == "MemberExpr":
            b = self.local_reg(s["inner"][0])
            if b is not None and self.is_mem(b):
                return False        # a read THROUGH the tracked pointer is untracked data
        if s.get("kind") == "UnaryOperator" and s.get("opcode") == "&" and self.local_reg(s["inner"][0]) is not None:
            return False            # an out-parameter: handled as a havoc after the call
        return any(self.mentions_reg(c) for c in kids(s))

    def const_for(self, reg, e):
        e = strip(e)
        if e.get("kind") == "DeclRefExpr" and e.get("referencedDecl", {}).get("kind") == "EnumConstantDecl":
            n = e["referencedDecl"]["name"]
            for tname, vals in self.enums.items():
                if n in vals:
                    return vals[n] + self.spec["offset"].get(reg, 0)
            if n in self.consts:
                return self.consts[n] + self.spec["offset"].get(reg, 0)
            return None
        if e.get("kind") in ("GNUNullExpr",):
            return 0
        v = T.enum_const(self, e)
        return None if v is None else v + self.spec["offset"].get(reg, 0)

    # expressions ---------------------------------------------------------------------------------------------------
    def scan(self, e):
        out = []
        k = e.get("kind")
        if k in ("ReturnStmt", "GotoStmt", "BreakStmt", "ContinueStmt", "ForStmt", "WhileStmt", "DoStmt", "SwitchStmt"):
            raise self.U("control flow inside an expression")
        after = []
        if k == "CallExpr":
            name = self.callee(e)
            if name in NORETURN:
                out.append(".abort")
            elif name in self.spec["cond_calls"]:
                raise self.U(f"{name} called outside a condition")
            elif name in self.spec.get("oblige_calls", {}):
                # a call the function is obliged to make: (argument index, {argument text: register}) or a plain register
                ob = self.spec["oblige_calls"][name]
                if isinstance(ob, tuple):
                    a_txt = re.sub(r"\s+", "", self.text(strip(e["inner"][1 + ob[0]]), 200))
                    reg_ = ob[1].get(a_txt)
                else:
                    reg_ = ob
                out.append(f"(.ev {self.site(e, 'obliged ' + str(name))} 0)")
                if reg_ is not None:
                    after.append(f"(.set {reg_} 1)")
            elif name in self.spec.get("marked_by_arg", {}):
                idx, table = self.spec["marked_by_arg"][name]
                a_txt = re.sub(r"\s+", "", self.text(strip(e["inner"][1 + idx]), 200))
                if a_txt not in table:
                    raise self.U(f"{name} called with an unexpected argument `{a_txt}`")
                out.append(f"(.ev {self.site(e, 'marked ' + str(name) + ' -> ' + a_txt)} {table[a_txt]})")
            elif name in self.spec.get("marked", {}):
                out.append(f"(.ev {self.site(e, 'marked ' + str(name))} {self.spec['marked'][name]})")
            elif name != "__builtin_expect" and name not in self.spec.get("pure", ()):
                st_ = self.site(e, 'call ' + str(name))
                out.append(f"(.ev {st_} 0)")
                if not self.spec.get("mem_stable"):
                    for r_ in sorted(set((self.spec.get("mem_regs") or {}).values())):
                        after.append(f"(.havoc {r_} {st_})")
            for a in e["inner"][1:]:
                a0 = strip(a)
                if a0.get("kind") == "UnaryOperator" and a0.get("opcode") == "&":
                    r = self.local_reg(a0["inner"][0])
                    if r is not None:      # the callee may store any value of the type
                        after.append(f"(.havoc {r} {self.site(a0, 'out-parameter of ' + str(name))})")
        elif k in ("BinaryOperator", "CompoundAssignOperator") and e.get("opcode", "").endswith("=") and \
                e.get("opcode") not in ("==", "!=", "<=", ">="):
            l = strip(e["inner"][0])
            if self.local_reg(l) is not None:
                r_ = self.local_reg(l)
                if self.is_mem(r_) and self.spec.get("mem_assign_havoc"):
                    st_ = self.site(e, "store to tracked memory")
                    out.append(f"(.ev {st_} 0)")
                    after.append(f"(.havoc {r_} {st_})")
                    for c in kids(e)[1:]:
                        out += self.scan(c)
                    return out + after
                raise self.U("tracked local / memory location assigned inside an expression: " + self.text(e))
            if not self.is_local_lvalue(l):
                kind_ = (self.spec.get("marked_stores") or {}).get(re.sub(r"\s+", "", self.text(e, 200)), 0)
                kind_ = getattr(self, "kind_by_id", {}).get(e.get("id"), kind_)
                out.append(f"(.ev {self.site(e, 'store')} {kind_})")
                reg_ = (self.spec.get("oblige_stores") or {}).get(re.sub(r"\s+", "", self.text(e, 200)))
                if reg_ is not None:
                    after.append(f"(.set {reg_} 1)")
        elif k == "UnaryOperator" and e.get("opcode") in ("++", "--"):
            l = strip(e["inner"][0])
            if self.local_reg(l) is not None:
                raise self.U("tracked local incremented")
            if not self.is_local_lvalue(l):
                out.append(f"(.ev {self.site(e, 'store')} 0)")
        for c in kids(e):
            out += self.scan(c)
        return out + after

    def truth(self, e):
        """(events, Cond) for a tracked value used as a truth value"""
        e0 = strip(e)
        r = self.local_reg(e0)
        if r is not None:
            return [], f"(.not (.eq {r} {self.spec['offset'].get(r, 0)}))"
        if e0.get("kind") == "CallExpr" and self.callee(e0) in self.spec["cond_calls"]:
            reg = self.spec["cond_calls"][self.callee(e0)]
            ev = []
            for a in e0["inner"][1:]:
                ev += self.scan(a)
            st = self.site(e0, "gate " + self.callee(e0))
            self.bool_sites.append(st)
            ev = ev + [f"(.havoc {reg} {st})"]
            sticky = (self.spec.get("sticky") or {}).get(self.callee(e0))
            if sticky is not None:      # ghost: "this call has answered TRUE at least once"
                ev.append(f"(.ite (.not (.eq {reg} 0)) (.set {sticky} 1) .skip)")
            return ev, f"(.not (.eq {reg} 0))"
        return None

    def cond(self, e):
        e = unexpect(e)
        e0 = strip(e)
        k = e0.get("kind")
        if not self.mentions_reg(e0):
            return self.scan(e0), f"(.orc {self.site(e0, 'cond')})"
        t = self.truth(e0)
        if t:
            return t
        if k == "UnaryOperator" and e0.get("opcode") == "!":
            ev, c = self.cond(e0["inner"][0])
            return ev, f"(.not {c})"
        if k == "BinaryOperator" and e0.get("opcode") in ("&&", "||"):
            ev1, c1 = self.cond(e0["inner"][0])
            ev2, c2 = self.cond(e0["inner"][1])
            if any(".havoc" in x for x in ev2) and not self.spec.get("gate_in_rhs_ok"):
                raise self.U("gate call in the right operand of && / ||")
            return ev1 + ev2, f"(.{'and' if e0['opcode'] == '&&' else 'or'} {c1} {c2})"
        if k == "BinaryOperator" and e0.get("opcode") in ("==", "!="):
            l, r = e0["inner"]
            rl, rr = self.local_reg(l), self.local_reg(r)
            if rl is not None and rr is None:
                reg, other = rl, r
            elif rr is not None and rl is None:
                reg, other = rr, l
            else:
                raise self.U("comparison of two tracked values")
            v = self.const_for(reg, other)
            if v is None or v < 0:
                raise self.U("tracked value compared with a non-constant: " + self.text(e0))
            c = f"(.eq {reg} {v})"
            return [], (c if e0["opcode"] == "==" else f"(.not {c})")
        raise self.U("condition mixes tracked and untracked data in a way the translator does not understand: " + self.text(e0))

    # statements ----------------------------------------------------------------------------------------------------
    def assign(self, reg, rhs, node):
        r = strip(rhs)
        v = self.const_for(reg, r)
        if v is not None:
            if v < 0:
                raise self.U("constant outside the register's range")
            return [f"(.set {reg} {v})"]
        ev = self.scan(r)
        st = self.site(node, "assigned from untracked data")
        if r.get("kind") == "CallExpr" and self.callee(r) in self.spec["bool_result_calls"]:
            self.bool_sites.append(st)
        return ev + [f"(.havoc {reg} {st})"]

    def stmt(self, n):
        k = n.get("kind")
        if k == "DeclStmt":
            parts = []
            for d in kids(n):
                if d.get("kind") != "VarDecl":
                    continue
                if d.get("name") in self.spec["locals"] and d.get("id") in self.locals and kids(d):
                    parts += self.assign(self.spec["locals"][d["name"]], kids(d)[-1], d)
                else:
                    for c in kids(d):
                        parts += self.scan(c)
            return self.seq(parts)
        if k == "GotoStmt":
            if self.label is None or n.get("targetLabelDeclId") != self.label:
                raise self.U("goto to a label other than the one closing the innermost labelled block")
            return ".jmp"
        if k == "CompoundStmt":
            ss = kids(n)
            if ss and ss[-1].get("kind") == "LabelStmt" and not any(x.get("kind") == "LabelStmt" for x in ss[:-1]):
                # `{ ...; L: tail }` (e.g. a loop body ending in `next: k = next;`): the statements before the label form a
                # block that `goto L` leaves; a goto to any OTHER label from inside it is refused above
                prev, self.label = self.label, ss[-1].get("declId")
                before = self.stmts(ss[:-1])
                self.label = prev
                return self.seq([f"(.block {before})", self.stmts(kids(ss[-1]))])
        if k == "LabelStmt":
            raise self.U("label that is neither at the top level of the function body nor the last statement of a block")
        if k == "ReturnStmt":
            if not kids(n):
                return "(.ret 2)"
            e = strip(kids(n)[0])
            reg = self.spec["locals"].get("retval")
            if reg is None:
                c = T.enum_const(self, e)
                return self.seq(self.scan(e) + [f"(.ret {c if c in (0, 1) else 2})"])
            if self.local_reg(e) == reg:
                return "(.ret 2)"
            v = self.const_for(reg, e)
            if v is None or v < 0:
                raise self.U("return of something that is neither the tracked status nor a constant")
            return self.seq([f"(.set {reg} {v})", "(.ret 2)"])
        if k in ("ImplicitCastExpr", "ParenExpr", "CStyleCastExpr") or k in ("BinaryOperator",):
            e = strip(n)
            if e.get("kind") == "BinaryOperator" and e.get("opcode") == "=":
                reg = self.local_reg(e["inner"][0])
                if reg is not None and not self.is_mem(reg):
                    return self.seq(self.assign(reg, e["inner"][1], e))
        if k in ("ForStmt", "WhileStmt"):
            inner = n["inner"]
            cnd = inner[2] if k == "ForStmt" else inner[0]
            if isinstance(cnd, dict) and cnd and self.mentions_reg(cnd):
                # `for (..; c; ..) body` with a condition over tracked state: each iteration tests c first
                init, inc, body = (inner[0], inner[3], inner[4]) if k == "ForStmt" else (None, None, inner[1])
                pre = self.scan(init) if isinstance(init, dict) and init else []
                if isinstance(inc, dict) and inc and self.scan(inc):
                    raise self.U("loop increment with a side effect")
                cev, c = self.cond(cnd)
                if any(".havoc" in x for x in cev):
                    raise self.U("gate call in a loop condition")
                return self.seq(pre + [f"(.loop {self.seq(cev + [f'(.ite {c} {self.stmt(body)} .brk)'])})"])
        return T.stmt(self, n)

    def top(self):
        ss = kids(self.body)
        idx = [i for i, x in enumerate(ss) if x.get("kind") == "LabelStmt"]
        if len(idx) > 1:
            raise self.U("more than one label")
        if not idx:
            return self.stmts(ss)
        i = idx[0]
        self.label = ss[i].get("declId")
        before = self.stmts(ss[:i])
        after = self.stmts(kids(ss[i]) + ss[i + 1:])
        return self.seq([f"(.block {before})", after])


def enum_signed(root, tname, U, extra=()):
    import glob, os
    for h in list(extra) + sorted(glob.glob(os.path.join(root, "**", "*.h"), recursive=True)):
        rel = h[len(root):]
        if "/_build" in rel or "/build" in rel:
            continue
        txt = open(h, errors="replace").read()
        m = re.search(r"typedef\s+enum\s*\{([^}]*)\}\s*" + re.escape(tname) + r"\s*;", txt)
        if m:
            body = re.sub(r"/\*.*?\*/", "", m.group(1), flags=re.S)
            out, nxt = {}, 0
            for x in body.split(","):
                x = x.strip()
                if not x:
                    continue
                if "=" in x:
                    n, v = x.split("=")
                    try:
                        nxt = int(v.strip(), 0)
                    except ValueError:
                        raise U(f"enumerator {x} of {tname} has a non-literal value")
                    n = n.strip()
                else:
                    n = x
                out[n] = nxt
                nxt += 1
            return out
    raise U(f"enum {tname} not found")


def find_calls(n, name, out, t):
    if n.get("kind") == "CallExpr" and t.callee(n) == name:
        out.append(n)
    for c in kids(n):
        find_calls(c, name, out, t)
    return out


def translate_recv(spec, fdecl, src, consts, U, root):
    import os
    enums = {"RecvStatus": enum_signed(root, "RecvStatus", U, extra=[os.path.join(root, spec["file"])])}
    t = T2(spec, fdecl, src, consts, U, enums)
    prog = t.top()
    rs = enums["RecvStatus"]
    off = spec["offset"][0]
    # the two length checks the demultiplexer relies on must be asked with the same padding rule
    fast = find_calls(t.body, "stun_message_validate_buffer_length_fast", [], t)
    full = find_calls(t.body, "stun_message_validate_buffer_length", [], t)
    if len(fast) != 1 or len(full) != 1:
        raise U("expected exactly one vectored and one contiguous length check")
    norm = lambda e: re.sub(r"\s+", "", t.text(strip(e), 4000))
    fast_pad, full_pad = norm(fast[0]["inner"][-1]), norm(full[0]["inner"][-1])
    esc = lambda x: x.replace("\\", "\\\\").replace('"', '\\"')
    out = [f"/- GENERATED by tools/extract_flow.py from {spec['file']} {spec['fn']} — do not edit.",
           "   Skeleton of the receive path (see lean/Nice/Model/Flow.lean).  Registers:",
           f"     r0 = `retval` + {off} (RecvStatus: " + ", ".join(f"{n}={v}" for n, v in rs.items()) + ")",
           "     r1 = (ghost) result of nice_component_verify_remote_candidate for this datagram (2 = not asked)",
           "     r2 = `handled`, the result of conn_check_handle_inbound_stun (2 = not asked)",
           "   `goto done` = .jmp, closed by the .block that ends at the label.  Every call / non-local store is an event.",
           "   Sites:"]
    for i, d in enumerate(t.sites):
        out.append(f"     {i} — {d}".replace("/-", "/ -").replace("-/", "- /"))
    out += ["-/", "import Nice.Model.Flow", "namespace Nice.Gen." + spec["lean_ns"], "open Nice.Flow", "",
            "def prog : Stmt :=", prog, "",
            "/-- sites whose stored value is a gboolean (0 / 1) -/",
            f"def boolSites : List Nat := [{', '.join(map(str, sorted(set(t.bool_sites))))}]",
            f"def statusValues : List Nat := [{', '.join(str(v + off) for v in sorted(rs.values()))}]"]
    for n, v in rs.items():
        out.append(f"def {n} : Nat := {v + off}")
    out += ["/-- the padding argument of the vectored pre-check and of the contiguous check (source text, blanks removed) -/",
            f'def fastPadArg : String := "{esc(fast_pad)}"', f'def fullPadArg : String := "{esc(full_pad)}"',
            "", "end Nice.Gen." + spec["lean_ns"], ""]
    return "\n".join(out), {"sites": len(t.sites)}


# ---------------------------------------------------------------------------------------------------------------------
# third skeleton: the send path agent/agent.c nice_agent_send_messages_nonblocking_internal (C13 consent gate)
# ---------------------------------------------------------------------------------------------------------------------
SPEC_SEND = {
    "lean_ns": "SendMessages",
    "file": "agent/agent.c",
    "fn": "nice_agent_send_messages_nonblocking_internal",
    "locals": {},
    "offset": {},
    "cond_calls": {},
    "bool_result_calls": set(),
    # memory read like variables (under the agent lock)
    "mem_regs": {"component->selected_pair.local": 0, "component->selected_pair.remote_consent.have": 1},
    # event kind 3 = hands application data to a transport
    "marked": {"pseudo_tcp_socket_send_messages": 3, "nice_socket_send_messages": 3, "nice_socket_send_messages_reliable": 3},
    # calls assumed not to change the two memory locations (everything else havocs them)
    "pure": {"agent_lock", "agent_find_component", "g_set_error", "g_set_error_literal", "nice_debug_is_enabled",
             "nice_address_to_string", "nice_debug_verbose", "nice_debug", "nice_address_get_port", "nice_socket_is_reliable",
             "pseudo_tcp_socket_is_closed", "output_message_get_size", "g_malloc_n", "g_free", "htons", "__bswap_16",
             "nice_socket_can_send", "g_cancellable_reset", "g_strerror", "__errno_location", "adjust_tcp_clock",
             "pseudo_tcp_socket_can_send", "g_error_matches", "g_io_error_quark"},
}


def translate_send(spec, fdecl, src, consts, U, root):
    t = T2(spec, fdecl, src, consts, U, {})
    prog = t.top()
    out = [f"/- GENERATED by tools/extract_flow.py from {spec['file']} {spec['fn']} — do not edit.",
           "   Skeleton of the send path (see lean/Nice/Model/Flow.lean).  Registers (memory read under the agent lock,",
           "   0 = NULL / FALSE, 1 = anything else; not written in this function; havocked after every call that is not",
           "   on the list below):"]
    for k, v in spec["mem_regs"].items():
        out.append(f"     r{v} = {k}")
    out += ["   Event kinds: 3 = application data handed to a transport (" + ", ".join(sorted(spec["marked"])) + "), 0 = other call / store.",
            "   Calls assumed not to change the registers: " + ", ".join(sorted(spec["pure"])),
            "   Sites:"]
    for i, d in enumerate(t.sites):
        out.append(f"     {i} — {d}".replace("/-", "/ -").replace("-/", "- /"))
    out += ["-/", "import Nice.Model.Flow", "namespace Nice.Gen." + spec["lean_ns"], "open Nice.Flow", "",
            "def prog : Stmt :=", prog, "", "end Nice.Gen." + spec["lean_ns"], ""]
    return "\n".join(out), {"sites": len(t.sites), "send_sites": sum(1 for x in t.sites if x.startswith("marked"))}


# ---------------------------------------------------------------------------------------------------------------------
# fourth skeleton: the pacing timer agent/conncheck.c priv_conn_check_tick_agent_locked (C19 / C01: the Ta timer is not
# stopped while any stream still has work)
# ---------------------------------------------------------------------------------------------------------------------
SPEC_TICK = {
    "lean_ns": "ConnCheckTick",
    "file": "agent/conncheck.c",
    "fn": "priv_conn_check_tick_agent_locked",
    "locals": {"keep_timer_going": 0, "stun_sent": 1},
    "offset": {},
    "cond_calls": {"priv_conn_check_tick_stream_nominate": 2},
    "sticky": {"priv_conn_check_tick_stream_nominate": 3},
    "bool_result_calls": {"priv_conn_check_triggered_check", "priv_conn_check_tick_stream", "priv_conn_check_ordinary_check"},
    "marked": {"conn_check_stop": 4},
    "pure": set(),
}


def translate_tick_flow(spec, fdecl, src, consts, U, root):
    t = T2(spec, fdecl, src, consts, U, {})
    prog = t.top()
    out = [f"/- GENERATED by tools/extract_flow.py from {spec['file']} {spec['fn']} — do not edit.",
           "   Skeleton of the pacing-timer callback (see lean/Nice/Model/Flow.lean).  Registers:",
           "     r0 = `keep_timer_going`, r1 = `stun_sent` (locals), r2 = (ghost) last answer of priv_conn_check_tick_stream_nominate,",
           "     r3 = (ghost) 1 once that call has answered TRUE for some stream in this tick.",
           "   Event kind 4 = conn_check_stop (the timer source is destroyed), 0 = other call / store.  Sites:"]
    for i, d in enumerate(t.sites):
        out.append(f"     {i} — {d}".replace("/-", "/ -").replace("-/", "- /"))
    out += ["-/", "import Nice.Model.Flow", "namespace Nice.Gen." + spec["lean_ns"], "open Nice.Flow", "",
            "def prog : Stmt :=", prog, "",
            f"def boolSites : List Nat := [{', '.join(map(str, sorted(set(t.bool_sites))))}]",
            "", "end Nice.Gen." + spec["lean_ns"], ""]
    return "\n".join(out), {"sites": len(t.sites)}


# ---------------------------------------------------------------------------------------------------------------------
# fifth skeleton: agent/conncheck.c priv_map_reply_to_relay_request (C20: what ends a TURN discovery item)
# ---------------------------------------------------------------------------------------------------------------------
SPEC_RELAY = {
    "lean_ns": "RelayReply",
    "file": "agent/conncheck.c",
    "fn": "priv_map_reply_to_relay_request",
    "locals": {"code": 0, "trans_found": 1},
    "offset": {0: 1},                       # `int code = -1`
    "cond_calls": {}, "bool_result_calls": set(), "pure": set(),
    "marked_stores": {"d->done=TRUE": 5, "d->pending=FALSE": 6},
}


def translate_relay(spec, fdecl, src, consts, U, root):
    t = T2(spec, fdecl, src, consts, U, {})
    # the `if` that decides between "send the request again" (then-branch re-arms the item: d->pending = FALSE) and
    # "a real error" (else-branch ends it: d->done = TRUE): the ending store of THAT else-branch is event kind 7
    norm = lambda n: re.sub(r"\s+", "", t.text(n, 200))
    def stores(n, txt):
        return [x for x in walk(n) if x.get("kind") == "BinaryOperator" and x.get("opcode") == "=" and norm(x) == txt]
    t.kind_by_id = {}
    deciding = [n for n in walk(t.body) if n.get("kind") == "IfStmt" and len(kids(n)) == 3 and
                stores(kids(n)[1], "d->pending=FALSE") and not stores(kids(n)[1], "d->done=TRUE")]
    if len(deciding) != 1:
        raise U(f"expected exactly one if that re-arms the item in its then-branch, found {len(deciding)}")
    ends = stores(kids(deciding[0])[2], "d->done=TRUE")
    if len(ends) != 1:
        raise U("the else-branch of the re-arming if does not end the item exactly once")
    t.kind_by_id[ends[0].get("id")] = 7
    prog = t.top()
    need = ("STUN_ERROR_STALE_NONCE", "STUN_ERROR_UNAUTHORIZED")
    for n in need:
        if n not in consts:
            raise U(f"{n} not among the extracted constants")
    out = [f"/- GENERATED by tools/extract_flow.py from {spec['file']} {spec['fn']} — do not edit.",
           "   Skeleton (see lean/Nice/Model/Flow.lean).  Registers: r0 = `code` + 1 (the ERROR-CODE of the answer, -1 = none),",
           "   r1 = `trans_found`.  Event kinds: 5 = `d->done = TRUE` (the discovery item is finished), 6 = `d->pending = FALSE`",
           "   (the item is re-armed: the request will be sent again with the new nonce / realm), 7 = the `d->done = TRUE` in the",
           "   else-branch of the if whose then-branch re-arms (\"a real unauthorized error\"), 0 = other call / store.  Sites:"]
    for i, d in enumerate(t.sites):
        out.append(f"     {i} — {d}".replace("/-", "/ -").replace("-/", "- /"))
    out += ["-/", "import Nice.Model.Flow", "namespace Nice.Gen." + spec["lean_ns"], "open Nice.Flow", "",
            "def prog : Stmt :=", prog, "",
            f"def codeStaleNonce : Nat := {consts['STUN_ERROR_STALE_NONCE'] + 1}",
            f"def codeUnauthorized : Nat := {consts['STUN_ERROR_UNAUTHORIZED'] + 1}",
            f"def nDone : Nat := {sum(1 for x in t.sites if 'd->done = TRUE' in x)}",
            f"def nRearm : Nat := {sum(1 for x in t.sites if 'd->pending = FALSE' in x)}",
            "", "end Nice.Gen." + spec["lean_ns"], ""]
    return "\n".join(out), {"sites": len(t.sites)}


# ---------------------------------------------------------------------------------------------------------------------
# a decision guard as a Lean Bool function: the `if` of stun/usages/ice.c stun_usage_ice_conncheck_create_reply whose
# then-branch switches the role (`*control = !*control`) — C01's role-conflict rule
# ---------------------------------------------------------------------------------------------------------------------
def translate_role_guard(fdecl, src, U):
    class X(T):
        def __init__(self):
            self.src = src
    x = X()
    norm = lambda n: re.sub(r"\s+", "", x.text(n, 300))
    body = [c for c in kids(fdecl) if c.get("kind") == "CompoundStmt"][0]
    cands = []
    for n in walk(body):
        if n.get("kind") == "IfStmt" and len(kids(n)) >= 2:
            sw = [y for y in walk(kids(n)[1]) if y.get("kind") == "BinaryOperator" and y.get("opcode") == "=" and norm(y) == "*control=!*control"]
            inner_ifs = [y for y in walk(kids(n)[1]) if y.get("kind") == "IfStmt"]
            if sw and not inner_ifs:
                cands.append(n)
    if len(cands) != 1:
        raise U(f"expected exactly one `if` whose then-branch switches the role, found {len(cands)}")
    the_if = cands[0]
    if len(kids(the_if)) != 3:
        raise U("the role-switching if has no else branch")
    atoms = {"tie": "tie", "q": "q"}

    def ex(e):
        e = strip(e)
        k = e.get("kind")
        if k == "BinaryOperator" and e.get("opcode") in ("&&", "||"):
            return f"({ex(e['inner'][0])} {e['opcode']} {ex(e['inner'][1])})"
        if k == "BinaryOperator" and e.get("opcode") in ("<", "<=", ">", ">=", "==", "!="):
            op = {"<": "<", "<=": "≤", ">": ">", ">=": "≥", "==": "=", "!=": "≠"}[e["opcode"]]
            return f"decide ({val(e['inner'][0])} {op} {val(e['inner'][1])})"
        if k == "UnaryOperator" and e.get("opcode") == "!":
            return f"(!{ex(e['inner'][0])})"
        if k == "UnaryOperator" and e.get("opcode") == "*" and norm(e) == "*control":
            return "control"
        raise U("role guard: expression not understood: " + x.text(e))

    def val(e):
        e = strip(e)
        if e.get("kind") == "DeclRefExpr" and e["referencedDecl"]["name"] in atoms:
            if "long" not in e.get("type", {}).get("qualType", "") and "uint64" not in e.get("type", {}).get("qualType", ""):
                raise U("role guard: tie-breakers are not 64-bit unsigned")
            return atoms[e["referencedDecl"]["name"]]
        raise U("role guard: operand not understood: " + x.text(e))
    # what the else-branch does: must return the role-conflict status after building a 487 (no role change)
    els = kids(the_if)[2]
    if any(norm(y).startswith("*control=") for y in walk(els) if y.get("kind") == "BinaryOperator" and y.get("opcode") == "="):
        raise U("the else-branch of the role-switching if also writes the role")
    if not any(y.get("kind") == "ReturnStmt" for y in walk(els)):
        raise U("the else-branch of the role-switching if does not return")
    return ("/- GENERATED by tools/extract_flow.py from stun/usages/ice.c stun_usage_ice_conncheck_create_reply — do not edit.\n"
            "   The guard of the `if` whose then-branch switches the role (`*control = !*control`); its else-branch keeps the role\n"
            "   and returns after building the 487 answer (checked by the translator).  tie = our tie-breaker, q = the peer's. -/\n"
            "namespace Nice.Gen.RoleConflict\n\n"
            f"def switches (tie q : UInt64) (control : Bool) : Bool :=\n  {ex(kids(the_if)[0])}\n\n"
            "end Nice.Gen.RoleConflict\n")


# ---------------------------------------------------------------------------------------------------------------------
# sixth skeleton: socket/udp-turn.c socket_send_message (C16: data for a peer without a permission is held, not sent)
# ---------------------------------------------------------------------------------------------------------------------
SPEC_TURNSEND = {
    "lean_ns": "TurnSend",
    "file": "socket/udp-turn.c",
    "fn": "socket_send_message",
    "locals": {}, "offset": {}, "bool_result_calls": set(), "pure": set(),
    "mem_regs": {"priv->compatibility": 0},
    "mem_stable": True,          # the compatibility mode of a TURN socket is fixed when it is created
    "cond_calls": {"priv_has_permission_for_peer": 1},
    # `c && !gate (..)`: the ghost register then holds the answer the gate WOULD give (asked or not): an over-approximation
    "gate_in_rhs_ok": True,
    # what leaves through the base socket: kind 3 = towards the relay, kind 8 = the unwrapped message straight to the peer
    "marked_by_arg": {"_socket_send_messages_wrapped": (1, {"&priv->server_addr": 3, "to": 8})},
    "marked": {"socket_enqueue_data": 9},
}


def translate_turnsend(spec, fdecl, src, consts, U, root):
    import os
    en = enum_signed(root, "NiceTurnSocketCompatibility", U, extra=[os.path.join(root, "socket/udp-turn.h")])
    t = T2(spec, fdecl, src, consts, U, {"NiceTurnSocketCompatibility": en})
    prog = t.top()
    out = [f"/- GENERATED by tools/extract_flow.py from {spec['file']} {spec['fn']} — do not edit.",
           "   Skeleton (see lean/Nice/Model/Flow.lean).  Registers: r0 = priv->compatibility (fixed when the socket is created),",
           "   r1 = (ghost) answer of priv_has_permission_for_peer for this destination (2 = not asked).",
           "   Event kinds: 3 = a wrapped message leaves towards the relay (&priv->server_addr), 8 = the unwrapped message is passed",
           "   to the base socket for the peer itself, 9 = the wrapped message is queued (socket_enqueue_data), 0 = other.  Sites:"]
    for i, d in enumerate(t.sites):
        out.append(f"     {i} — {d}".replace("/-", "/ -").replace("-/", "- /"))
    out += ["-/", "import Nice.Model.Flow", "namespace Nice.Gen." + spec["lean_ns"], "open Nice.Flow", "",
            "def prog : Stmt :=", prog, ""]
    for n, v in en.items():
        out.append(f"def {n} : Nat := {v}")
    out += [f"def compatValues : List Nat := [{', '.join(str(v) for v in sorted(en.values()))}]",
            "", "end Nice.Gen." + spec["lean_ns"], ""]
    return "\n".join(out), {"sites": len(t.sites)}


# ---------------------------------------------------------------------------------------------------------------------
# obligations (C14): what a restart must have done by the time it returns.  A register is set to 1 when the obliged call /
# store is executed; the theorems say every return is reached with all of them set.
# ---------------------------------------------------------------------------------------------------------------------
SPEC_CREDS = {
    "lean_ns": "InitCredentials", "file": "agent/stream.c", "fn": "nice_stream_initialize_credentials",
    "locals": {}, "offset": {}, "cond_calls": {}, "bool_result_calls": set(), "pure": set(),
    "oblige_calls": {"nice_rng_generate_bytes_print": (2, {"stream->local_ufrag": 0, "stream->local_password": 1})},
    "oblige_stores": {"stream->remote_ufrag[0]=0": 2, "stream->remote_password[0]=0": 3},
}
SPEC_RESTART = {
    "lean_ns": "StreamRestart", "file": "agent/stream.c", "fn": "nice_stream_restart",
    "locals": {}, "offset": {}, "cond_calls": {}, "bool_result_calls": set(), "pure": set(),
    "oblige_calls": {"conn_check_prune_stream": 0, "nice_stream_initialize_credentials": 1,
                     "nice_component_restart": 2,
                     "agent_signal_component_state_change": (3, {"NICE_COMPONENT_STATE_GATHERING": 3})},
}


def translate_oblige(spec, fdecl, src, consts, U, root, with_loop_body=False):
    t = T2(spec, fdecl, src, consts, U, {})
    prog = t.top()
    out = [f"/- GENERATED by tools/extract_flow.py from {spec['file']} {spec['fn']} — do not edit.",
           "   Obligation skeleton (see lean/Nice/Model/Flow.lean): register k is set to 1 when the k-th obliged call / store executes:"]
    for name, ob in spec.get("oblige_calls", {}).items():
        if isinstance(ob, tuple):
            for a, r in ob[1].items():
                out.append(f"     r{r} = call {name} (.. {a} ..)")
        else:
            out.append(f"     r{ob} = call {name}")
    for a, r in (spec.get("oblige_stores") or {}).items():
        out.append(f"     r{r} = store {a}")
    out.append("   Sites:")
    body_prog = None
    if with_loop_body:
        loops = [n for n in walk(t.body) if n.get("kind") in ("ForStmt", "WhileStmt")]
        if len(loops) != 1:
            raise U(f"expected exactly one loop, found {len(loops)}")
        lb = loops[0]["inner"][4] if loops[0]["kind"] == "ForStmt" else loops[0]["inner"][1]
        body_prog = t.stmt(lb)
    for i, d in enumerate(t.sites):
        out.append(f"     {i} — {d}".replace("/-", "/ -").replace("-/", "- /"))
    out += ["-/", "import Nice.Model.Flow", "namespace Nice.Gen." + spec["lean_ns"], "open Nice.Flow", "",
            "def prog : Stmt :=", prog, ""]
    if body_prog is not None:
        out += ["/-- one iteration of the function's only loop -/", "def loopBody : Stmt :=", body_prog, ""]
    out += ["end Nice.Gen." + spec["lean_ns"], ""]
    return "\n".join(out), {"sites": len(t.sites)}


# ---------------------------------------------------------------------------------------------------------------------
# agent/agent.c nice_agent_remove_stream (C13 / C12): the agent-wide keepalive timer goes only with the LAST stream
# ---------------------------------------------------------------------------------------------------------------------
SPEC_RMSTREAM = {
    "lean_ns": "RemoveStream", "file": "agent/agent.c", "fn": "nice_agent_remove_stream",
    "locals": {}, "offset": {}, "cond_calls": {}, "bool_result_calls": set(),
    "mem_regs": {"agent->streams": 0},
    "mem_assign_havoc": True,        # `agent->streams = g_slist_remove (..)`: NULL or not afterwards
    "mem_stable": True,              # (no callee changes the list head behind the function's back: it holds the agent lock)
    "pure": set(),
    "marked": {"priv_remove_keepalive_timer": 6},
}


SPEC_GATHERDONE = {
    "lean_ns": "GatheringDone", "file": "agent/agent.c", "fn": "agent_gathering_done",
    "locals": {}, "offset": {}, "cond_calls": {}, "bool_result_calls": set(),
    "mem_regs": {"agent->discovery_timer_source": 0},
    "mem_stable": True,              # (nothing the function calls before the announcement creates or destroys the discovery timer)
    "pure": set(),
    "marked": {"agent_signal_gathering_done": 7},
    "header": ["   r0 = agent->discovery_timer_source (0 = NULL: no discovery item is scheduled or waiting for an answer).",
               "   Event kind 7 = agent_signal_gathering_done (announces completion for every stream whose run is open)."],
}


def translate_simple(spec, fdecl, src, consts, U, root):
    """a T2 skeleton with the spec's own header lines"""
    t = T2(spec, fdecl, src, consts, U, {})
    prog = t.top()
    out = [f"/- GENERATED by tools/extract_flow.py from {spec['file']} {spec['fn']} — do not edit.",
           "   Skeleton (see lean/Nice/Model/Flow.lean)."] + spec.get("header", []) + ["   Sites:"]
    for i, d in enumerate(t.sites):
        out.append(f"     {i} — {d}".replace("/-", "/ -").replace("-/", "- /"))
    out += ["-/", "import Nice.Model.Flow", "namespace Nice.Gen." + spec["lean_ns"], "open Nice.Flow", "",
            "def prog : Stmt :=", prog, "", "end Nice.Gen." + spec["lean_ns"], ""]
    return "\n".join(out), {"sites": len(t.sites)}


def translate_rmstream(spec, fdecl, src, consts, U, root):
    t = T2(spec, fdecl, src, consts, U, {})
    prog = t.top()
    out = [f"/- GENERATED by tools/extract_flow.py from {spec['file']} {spec['fn']} — do not edit.",
           "   Skeleton (see lean/Nice/Model/Flow.lean).  r0 = agent->streams (0 = NULL: no stream left; havocked by the assignment",
           "   `agent->streams = g_slist_remove (..)`).  Event kind 6 = priv_remove_keepalive_timer.  Sites:"]
    for i, d in enumerate(t.sites):
        out.append(f"     {i} — {d}".replace("/-", "/ -").replace("-/", "- /"))
    out += ["-/", "import Nice.Model.Flow", "namespace Nice.Gen." + spec["lean_ns"], "open Nice.Flow", "",
            "def prog : Stmt :=", prog, "", "end Nice.Gen." + spec["lean_ns"], ""]
    return "\n".join(out), {"sites": len(t.sites)}
