#!/usr/bin/env python3
"""writes MANIFEST.json from the table below (kept in one place so it stays valid)"""
import json, os
ROOT = os.path.dirname(os.path.dirname(os.path.abspath(__file__)))
PROPS = [json.loads(l)["id"] for l in open(os.path.join(ROOT, "properties.jsonl"))]

CLAIMED = {
    "C19": dict(
        text="Machine-checked Lean 4 theorems over a model of stun/usages/timer.c: for every T, N and every polling "
             "pattern (unbounded) the timer requests at most max(N,1)-1 retransmissions, reports timeout only after "
             "exactly that many and never retransmits afterwards, follows the T,2T,..,half schedule, reports a remainder "
             "<= the wait in force and 0 from the deadline on. The model is tied to the current source by a differential "
             "run of the real stun_timer_* functions under an interposed clock, and the property predicate is also "
             "evaluated directly on the implementation's outputs. Agent-level abandonment count is tied by simulation only. Additionally, theorems about an effect-dominance skeleton of the pacing-timer callback priv_conn_check_tick_agent_locked that tools/extract_flow.py REGENERATES from the source on every run (deep embedding + verified reachability analysis in Nice/Model/Flow.lean, evaluated by the kernel): the timer is stopped only in a tick in which no request was sent and no stream reported work.",
        note="Trusted: Lean kernel (+propext, Classical.choice, Quot.sound), the hand-written Timer model and the "
             "kern_drv correspondence harness, clang/ASan/UBSan build of /repo. Hypothesis: T*2^(N-1) < 2^32.",
        technique="Lean 4 proof (induction over poll sequences) + differential correspondence of model vs real timer.c",
        design="5/C19"),
    "C15": dict(
        text="Lean 4 theorems about the priority formulas REGENERATED from candidate.c's typed AST on every run: candidate "
             "priority = 2^24*type + 2^8*local + (256-component) without wrap for the documented ranges; every type preference "
             "the code can produce is <= 126 and local preferences pack without overlap; type rank host > prflx > srflx > relay "
             "dominates all other terms; pair priority = 2^32*min + 2*max + (G>D) for all 32-bit pairs (one pair whose value "
             "exceeds 64 bits excluded and exhibited); role symmetry; the check list stays in descending order under every "
             "history of insertions and role switches. A source change to a formula or constant changes the generated Lean "
             "definitions and breaks the proof at lake build; hand-modelled switches and list operations are tied by a "
             "differential run against the real functions; the RFC formulas are also evaluated directly on the C outputs. The type-preference switch nice_candidate_ice_type_preference is regenerated from agent/candidate.c as well and the model's version is proved equal to it (Props/C15TypePref).",
        note="Trusted: Lean kernel, tools/extract.py C-subset semantics (also differential-tested), kern_drv harness, "
             "scripted nice_interfaces_get_local_ips. In-agent list order at role switch / renomination is tied by simulation only.",
        technique="Lean 4 proof over source-regenerated definitions (translator) + differential correspondence",
        design="5/C15"),
    "C18": dict(
        text="Lean 4 theorems: private/link-local classification of ALL 2^32 IPv4 addresses (and the IPv6 prefixes) equals the "
             "RFC 1918/3927/4193/loopback ranges, proved over the kernels regenerated from address.c's typed AST; equality is "
             "reflexive (valid addresses), symmetric, transitive for compatible scope ids (the scope-id wildcard breaks "
             "transitivity by design: exhibited and recorded as a known finding); candidate SDP generate->parse round trip "
             "for every well-formed candidate incl. priorities >= 2^31 (printed with %d), port 0 -> 9, raddr/rport, tcptype; "
             "parsing is total and yields none or a candidate whose address came from a successful pton. Hand-written "
             "Addr/Sdp models are tied line by line to the real nice_address_* / nice_agent_generate/parse_*_sdp functions "
             "(two real agents), libc text conversions validated on every run; thorough tier sweeps all 2^32 addresses in C.",
        note="Trusted: Lean kernel, extract.py translator, misc_drv harness, libc inet_ntop/getaddrinfo behaviour stated as "
             "hypothesis LibcOK (validated by the harness), multi-stream parse path tied by differential run only "
             "(C18_stream_roundtrip_partial). 'Never crashes' is sanitizer-observed on explored inputs.",
        technique="Lean 4 proof (bit-vector ranges, round-trip) over regenerated kernels + differential correspondence",
        design="5/C18"),
    "C01": dict(
        text="PARTIAL. Lean 4 theorems decide the role-resolution part for every schedule: in the abstract two-agent system "
             "over a monotone message history (any loss/duplication/delay/reordering/stale delivery) roles never change when "
             "they differ initially; when equal, only the tie-break-designated agent ever changes, only once, 487s are only "
             "ever addressed to it, and any delivered request or 487 settles the roles (exactly one controller afterwards). "
             "The kernels mirror create_reply's conflict block and conncheck.c's 487 rule and are tied on every run by "
             "replaying every connectivity check a real agent receives in simulation through the Lean kernel. Convergence to "
             "READY on mirrored pairs is NOT proved: it is explored by simulating two real NiceAgents (virtual clock and UDP "
             "network, loss respecting the property's hypothesis, random signalling interleavings). Two genuine deviations of "
             "libnice are recorded as known findings (K1 candidates-before-credentials, K2 aggressive nomination + peer-reflexive). The tie-breaker guard of the role-conflict decision is REGENERATED from stun/usages/ice.c on every run (Gen.RoleConflict.switches) and used by the model the convergence theorems are proved about.",
        note="Trusted: Lean kernel, hand-written IceRole kernels + role monitor, sim_drv (interposed clock/sendmsg/recvmsg/poll, "
             "scripted interface list, deterministic RNG), UDP host candidates only.",
        technique="Lean 4 proof of role-resolution invariants (message-history system) + trace monitor + simulation of real agents",
        design="5/C01"),
    "C11": dict(
        text="PARTIAL. Lean 4 theorems: (1) the transition whitelist — regenerated on every run by compiling the g_assert expression "
             "of agent_signal_component_state_change and evaluating it on all 36 pairs — equals the documented machine (states.gv, "
             "re-parsed, plus the two families the source comments document), by `decide`; (2) for EVERY sequence of requested "
             "states the choke point announces no state twice in a row, only whitelisted steps, and the getter equals the last "
             "announcement (or the run stops on the assertion). Call-site claims (selected pair announced before CONNECTED/READY, "
             "gathering-done once per run, silence after remove_stream) are not proved: they are evaluated on simulated API "
             "histories of two real agents (restart, stream restart, remove/re-add, consent loss, blackouts) and every announced "
             "sequence is replayed through the Lean choke-point model. One call-site claim IS proved on code regenerated from the "
             "source on every run: in agent_gathering_done completion is announced only when the discovery timer is gone, i.e. no "
             "discovery item of any stream is scheduled or in flight (C11_completion_needs_no_pending_discovery, skeleton "
             "Nice/Gen/GatheringDone.lean).",
        note="Trusted: Lean kernel, extract.py table regeneration, extract_flow.py skeleton translator, hand-written choke-point model, sim_drv harness.",
        technique="Lean 4 proof over source-regenerated transition table + trace replay through the model + simulation",
        design="5/C11"),
    "C13": dict(
        text="PARTIAL. Lean 4 theorems on the consent timing kernels: constants pinned to 30 s / 25 s / 4-6 s (regenerated), a tick "
             "never fails before last-answer + timeout, any tick after it fails and closes the send gate, along every timer "
             "schedule with lateness <= delta failure is declared in (L+T, L+T+delta] when answers stop, answers within the timeout "
             "keep the pair alive for ever, a 403 closes the gate at once, consent checks are spaced 4-6 s for every RNG output. "
             "Tied by virtual-time simulation of real agents: blackouts of every direction/duration, revocation before selection / "
             "during signalling / at READY, lossy consent checks, idle sessions; observed failure instants must lie in the proved "
             "window, the send API must return PERMISSION_DENIED exactly then, revocation must produce 403s; the keepalive gap "
             "(25 s / ~6 s) is observed, not proved. Additionally, theorems about an effect-dominance skeleton of nice_agent_send_messages_nonblocking_internal that tools/extract_flow.py REGENERATES from the source on every run (deep embedding + verified reachability analysis in Nice/Model/Flow.lean, evaluated by the kernel): on every path (datagram, RFC 4571 frames, pseudo-TCP) data reaches a transport only with a selected pair and the consent flag set.",
        note="Trusted: Lean kernel, hand-written Consent kernels, sim_drv virtual clock/network; timers assumed to fire at or "
             "after their due time with small lateness.",
        technique="Lean 4 proof of timing kernels + virtual-time simulation oracle against the proved window",
        design="5/C13"),
    "C06": dict(
        text="Lean 4 theorems over a line-by-line model of stun_message_validate_buffer_length(_fast)/stun_message_find: the length "
             "check returns L exactly when the first L bytes satisfy an independent RFC 5389 grammar (Tiles/parseAttrs written "
             "from the RFC), 'incomplete' exactly when the first two bits are zero and an acceptable header announces more bytes, "
             "the vectored pre-check is independent of how the bytes are split over buffers (also with empty buffers), agrees "
             "with the full check, lookups return the reference parser's first match honouring the M-I/FINGERPRINT rule; walks "
             "terminate without fault. Model tied line by line to the real functions (all 2^(n-1) splits of short messages, "
             "prefixes, mutants) and an independent Python parser evaluates the property on the C outputs.",
        note="Trusted: Lean kernel, hand-written Stun model + StunGrammar spec, stun_drv harness, extract.py constants/kernels "
             "(stun_padding, stun_align, stun_getw, class/method). Sizes <= 65535 (16-bit length field).",
        technique="Lean 4 proof (grammar equivalence, split independence by refinement) + differential correspondence",
        design="5/C06"),
    "C07": dict(
        text="Lean 4 theorems over the builder model (stun_message_init/append*/finish): every append fits or leaves buffer and length "
             "unchanged, no byte outside the caller's buffer is written for any capacity, finish yields 0 or a length within the "
             "buffer, finished messages are well-formed for the RFC grammar, 32/64-bit values, flags, byte strings, plain and "
             "XOR-mapped IPv4/IPv6 addresses and error codes 300..699 read back equal (XOR is an involution). Tied to the real "
             "builder with random op sequences into exactly-sized buffers of 0..2048 bytes with guard blocks under ASan; the "
             "property is also evaluated on the C outputs with an independent parser and the library's own validation.",
        note="Trusted: Lean kernel, Stun model, stun_drv harness; capacity <= 65535; HMAC length 20 assumed for finish_len; "
             "usage builders and C07_usage_builders_propagate are tied by the differential run only.",
        technique="Lean 4 proof (bounded writes, round trips) + differential correspondence under ASan",
        design="5/C07"),
    "C04": dict(
        text="Lean 4 theorems over the stun_agent_validate / finish model with HMAC and MD5 as parameters: SUCCESS under a "
             "credential-using agent implies MESSAGE-INTEGRITY = hmac(key)(RFC-defined prefix) for the key bound to USERNAME or to "
             "the matching request (exemptions spelled out), FINGERPRINT = CRC-32 xor 0x5354554e where in use (CRC table "
             "regenerated from stuncrc32.c and proved equal to the polynomial definition by decide +kernel), a response passes "
             "only with an outstanding request of the same id and method and at most once; the default validater hands out a key only "
             "for a table entry whose name IS the message's USERNAME (C04_default_validater_exact_name). Model incl. executable SHA-1/HMAC/MD5 "
             "is tied byte for byte to the real library and GnuTLS; an independent Python HMAC/CRC oracle checks every SUCCESS "
             "on the C side, with single/multi-byte corruptions and replay/reorder scripts.",
        note="Trusted: Lean kernel, Stun agent model, stun_drv, GnuTLS as reference for the executable hashes; "
             "C04_finish_then_validate is tied by the differential `valm` op (theorem pending); cryptographic strength of HMAC is outside scope.",
        technique="Lean 4 proof of validation soundness + differential correspondence + independent MAC/CRC oracle",
        design="5/C04"),
    "C05": dict(
        text="Lean 4 no-fault theorems over the faulting form of the STUN model (every packet read bounds-checked): for every byte "
             "string (< 65536 bytes), every split into buffers, every configuration, validate_buffer_length(_fast), every find*/"
             "accessor, the unknown-attribute scan, append and stun_agent_validate return a status without an out-of-bounds access, "
             "and whatever an accessor returns lies inside the packet. Runtime conjunct (no UB/abort in the compiled C) is PARTIAL: "
             "observed under ASan/UBSan on exactly-sized heap blocks for all lengths 0..64 x layouts, random/mutated packets, reply "
             "capacities 0..1300; nine genuine defects found this way were fixed in /repo and stay as corpus witnesses.",
        note="Trusted: Lean kernel, Stun model, stun_drv harness, sanitizers for the runtime half; no-fault of finish/create_reply/"
             "usage builders is tied by the differential run only; TURN usages not yet modelled.",
        technique="Lean 4 proof of no-fault / in-bounds on the model + sanitizer-instrumented differential correspondence",
        design="5/C05"),
    "C14": dict(
        text="PARTIAL. Lean 4 theorems: for every RNG output the new local credentials have length 4/22 over ice-char (alphabet and "
             "lengths regenerated from random.c / stream.h), credentials are an injective image of the draws (freshness = RNG "
             "freshness), a restart leaves no remote candidate, check or remote credential and puts every component in GATHERING. "
             "Re-convergence, freshness in practice and rejection of pre-restart checks are explored on real agents: restarts "
             "during gathering / mid-check / at READY / with data flowing, one side or both, up to 5 rounds, captured pre-restart "
             "requests replayed (must get no success answer and change nothing), then new signalling and C01's oracles.",
        note="Trusted: Lean kernel, Creds model, sim_drv; convergence after restart inherits C01's known findings K1/K2.",
        technique="Lean 4 proof of credential grammar/injectivity/forgetting + simulation of real agents",
        design="5/C14"),
    "C20": dict(
        text="PARTIAL. Lean 4 theorems on the per-item gathering abstraction: with at most K re-authentication/redirect answers an "
             "item is done after K+1 rounds (each bounded by the C19 timer), candidates come only from success answers and are "
             "never duplicated, the completion signal fires once per gathering run; and the NEGATIVE result that no bound exists "
             "without the cap (for every n, n stale-nonce answers leave the item pending) — reproduced on the real agent and "
             "recorded as known finding K3. Tied by simulation: a real agent gathers against scripted STUN/TURN servers (drop, "
             "duplicate, late, errors, garbage, foreign txid, IPv6, 401-then-auth, unauthenticated success, 438, 300) with loss; "
             "oracles: one gathering-done, within the bound for finite scripts, host candidate per address, every reflexive/relayed "
             "candidate supplied by a matched success answer, each announced once. Additionally theorems about skeletons REGENERATED from "
             "the source on every run: the accounting skeleton of priv_discovery_tick_unlocked (completion only when every item is done) "
             "and the effect-dominance skeleton of priv_map_reply_to_relay_request (a 438 answer never ends an item).",
        note="Trusted: Lean kernel, Gather abstraction (coarser than discovery.c), sim_drv scripted servers built with libnice's STUN code.",
        technique="Lean 4 proof on the gathering abstraction (incl. proved negation) + simulation against scripted servers",
        design="5/C20"),
    "C03": dict(
        text="PARTIAL. Lean 4 theorems on the inbound decision kernels: agent state may be touched only after validation status "
             "SUCCESS or FORBIDDEN (both require a correct MESSAGE-INTEGRITY by C04), every other status is a stutter step (400/401/"
             "420 reply, drop, or not-control), a datagram reaches the application only if its source is in the valid set, and is "
             "consumed as control traffic only if both length checks accept it at full length and the handler claims it. Tied by "
             "paired simulations of real agents with the same seed, with and without an off-path attacker injecting 40-80 forged "
             "datagrams (all STUN classes/methods, missing/truncated/empty/over-long/wrong-key M-I, forged responses/487/403, role "
             "flipping, RTP, spoofed and foreign sources) from gathering to READY: per-component application traces must be equal, "
             "replies to the attacker limited to 400/401/420, attacker payloads from unvalidated sources never delivered. Additionally, theorems about an effect-dominance skeleton of conn_check_handle_inbound_stun and of agent_recv_message_unlocked that tools/extract_flow.py REGENERATES from the source on every run (deep embedding + verified reachability analysis in Nice/Model/Flow.lean, evaluated by the kernel): state-changing calls only under SUCCESS/FORBIDDEN, discovery/refresh agents only validate responses, control traffic is consumed, RECV_SUCCESS only after the source gate said yes.",
        note="Trusted: Lean kernel, Gate table model, C04's validation theorems, sim_drv; cryptographic unforgeability is assumed.",
        technique="Lean 4 proof of gate kernels + paired non-interference simulation of real agents",
        design="5/C03"),
    "C02": dict(
        text="PARTIAL. Lean 4 theorems: the scatter/gather copy helpers are exact for every buffer layout (compact = prefix of the "
             "concatenation, scatter writes a prefix and reports its length, round trip), the ICE-TCP split of a message given as any "
             "number of buffers (empty ones included) yields non-empty frames of at most 0xF800 bytes whose concatenation in order is "
             "the message, and the demultiplexer delivers everything that is not claimed by the STUN handler at full validated length "
             "(lookalike payloads are not swallowed). Tied to the real helpers on exactly-sized heap blocks, and end to end by "
             "simulating two real agents per transport (UDP with loss, ICE-TCP over loopback TCP, pseudo-TCP reliable mode) with "
             "messages of 1..65535 bytes (TCP up to 3*0xF800) split over 1..8 buffers, random / STUN-lookalike / RTP payloads: "
             "bytes, boundaries, order and piece lengths are compared. One genuine defect found this way was fixed (a5ed163). "
             "RFC 4571 reassembly is C17's theorem, the reliable byte stream is C08's. The receive iterator's bookkeeping "
             "(nice_input_message_iter_get_n_valid_messages / _is_at_end) is REGENERATED from agent/agent.c on every run and proved to "
             "count every message that holds a byte. Pull-mode receivers (nice_agent_recv_messages_nonblocking into random scatter "
             "layouts, empty buffers included) run over ICE-TCP bytestream mode and over pseudo-TCP.",
        note="Trusted: Lean kernel, Copy/Gate models, kern_drv + sim_drv harnesses, kernel TCP/UDP semantics; the bytestream-TCP transport "
             "is exercised on the real code only (not in the copy model).",
        technique="Lean 4 proof of copy/split kernels + differential correspondence + per-transport simulation",
        design="5/C02"),
    "C08": dict(
        text="PARTIAL. A field-by-field Lean 4 model of agent/pseudotcp.c (fifos, segment lists, every timer, options, state machine) is "
             "tied to the real PseudoTcpSocket by comparing the whole private state and every emitted packet byte for byte after every "
             "operation of generated single- and two-socket schedules (loss, duplication, delay, reordering, clock ticks, shutdown/close, "
             "MTU changes, WritePacket failures). Theorems proved on the model: fifo write/read/round-trip exactness, every transmitted "
             "payload is the ring content at its sequence position (S), out-of-order storage and in-order commit keep committed bytes "
             "(first half of R), end-of-stream requires an in-sequence FIN. The two-socket statements — delivered bytes are a prefix of "
             "written bytes in both directions (N) and EOS only after all data (E) — are NOT proved; they are decided on the real code "
             "by the stream oracle over the generated schedules. Three genuine defects found (early EOS x2, data corruption when data "
             "overtakes the connect message) were fixed in /repo and stay as corpus witnesses.",
        note="Trusted: Lean kernel, hand-written PTcp model + ptcp_drv harness (includes pseudotcp.c to read private state; rings "
             "zero-filled), translated kernels (time_diff, bound, LARGER...). Streams < 2^31 bytes.",
        technique="Lean 4 lemmas on a full executable model + whole-state differential correspondence + prefix/EOS oracle on the real code",
        design="5/C08"),
    "C09": dict(
        text="PARTIAL. Theorems on the PTcp model: MIN_RTO <= rx_rto <= MAX_RTO in every reachable state, back-off doubles up to the "
             "ceiling, transmit gives up with an error after the retransmission limit and closing reports to the owner, while not "
             "closed get_next_clock names a finite deadline (<= now + 4000 ms absent the 32-bit wrap). The end-to-end dichotomy "
             "(all data readable and both closed, or an error callback) and the completion bound after healing are NOT proved: they are "
             "decided on the real code by a healing driver (lossy/duplicating/reordering schedules up to a healing time in 0..120 s, "
             "buffers 1 KiB..1 MiB, Nagle, ack-delay, MTU, FIN-ACK support on either side, clock origins at the 32-bit wrap). Two "
             "genuine defects (silent hang when a timer is armed at clock value 0; assertion when WritePacket fails inside shutdown) "
             "were fixed in /repo, and a third found late (3fc62b4: with window scaling a window below 2^scale is advertised as 0 but the "
             "window update was only sent when rcv_wnd was exactly 0: abort after a 16 s reader stall on a loss-free network). Kernel "
             "theorems about the window as the peer sees it (Props/C09Window): the scaled buffer size always fits the 16-bit field, an "
             "empty buffer of any configured size advertises a non-zero window, recv's closed test equals the advertised field.",
        note="Trusted: Lean kernel, PTcp model + ptcp_drv; liveness is a simulation claim, not a theorem.",
        technique="Lean 4 invariants on the executable model + differential correspondence + healing-schedule oracle",
        design="5/C09"),
    "C10": dict(
        text="Lean 4 theorems on the PTcp model for ALL byte strings: a packet with another conversation number (or too short / too "
             "long) changes nothing and emits nothing, option parsing never faults and terminates, only a well-formed window-scale option "
             "changes the peer's scale factor, the accepted window scale is <= 14 so "
             "the shift never faults, fifo bounds are preserved by every fifo operation, undelivered data never exceeds the receive "
             "buffer, and the invariant Inv0 (fifo, scale and RTO bounds) is preserved by every public operation over every history "
             "(C10_inv_preserved_partial: tiling/rlist/state pieces of the full invariant are not proved). The window property holds "
             "per round outside FIN/RST flushes (C10_respects_window_partial); the full statement is FALSE for this code — proved by a "
             "kernel-checked counterexample and recorded as a known finding (shutdown/close flush the whole queue). Runtime conjunct: "
             "~12 000 hostile packets per quick run (boundary seq/ack, any flags/window/options incl. scale 0..255) in every state under "
             "ASan/UBSan with whole-state comparison; five genuine assertion/UB defects found this way were fixed in /repo. A hand-made "
             "peer whose every ACK we build gives the advertised window independently of the socket's belief (W16 << advertised scale). "
             "The FIN / FIN-ACK state predicates and the ring's buffered/room accessors are REGENERATED from agent/pseudotcp.c on every "
             "run and the model's versions are proved equal to them for every state and ring (Props/C10Kernels), together with "
             "'FIN-ACK seen implies both FINs' for every 32-bit state value and 'buffered + room = capacity' under the ring invariant.",
        note="Trusted: Lean kernel, PTcp model + ptcp_drv, sanitizers for the compiled C.",
        technique="Lean 4 proof of no-op/no-fault/bounds invariants over all inputs + hostile-packet differential correspondence",
        design="5/C10"),
    "C17": dict(
        text="Lean 4 theorems per stream layer, each model tied line by line to the real socket code stacked on a scripted base socket "
             "(and a real tcp-bsd socket over a socketpair with interposed sendmsg): TURN-over-TCP (all framing modes) and the agent's "
             "RFC 4571 reassembly deliver the same messages for EVERY segmentation of EVERY stream and never index outside their "
             "buffers; the send side frames any number of buffers correctly and the send queue keeps frames contiguous under every "
             "partial-write pattern; once a proxy/pseudo-SSL tunnel is up bytes pass unchanged. For SOCKS5, pseudo-SSL and HTTP the "
             "segmentation-independence statement is FALSE on this code: proved by kernel-checked witnesses, reproduced on the real "
             "code and recorded as five known findings, with `_partial` theorems under 'each reply arrives whole'. Exhaustive 2^(n-1) "
             "splits (n <= 12 quick, 18 thorough) and random segmentations up to 200 KiB drive the tie. Four genuine defects were fixed.",
        note="Trusted: Lean kernel, per-layer models + sock_drv harness (scripted base mirrors tcp-bsd over a kernel stream).",
        technique="Lean 4 proof by refinement to the unconsumed byte list (or proved negation + partial) + exhaustive-split differential correspondence",
        design="5/C17"),
    "C16": dict(
        text="PARTIAL. Lean 4 theorems on the TURN client model (DRAFT9/RFC5766 over UDP, plus the GOOGLE send encoding): a Send "
             "indication / ChannelData produced for (peer, payload) decodes at an independent RFC 5766 reference relay to exactly that "
             "peer and payload (IPv4/IPv6, any transaction id, any accepted length), what the relay forwards is handed up with the "
             "same payload and peer for a general channel table, data for a peer without permission is queued FIFO and flushed "
             "completely when the permission answer arrives or times out, a 438 Stale Nonce answer is a re-authentication round and never an "
             "answer (the request is repeated, nothing is released), and no relay byte string makes the receive path fault. "
             "Tied to the real nice_udp_turn_socket over a scripted base with request timers on the virtual clock, 401/438 rounds, "
             "orders of permission/channel-bind completion, hostile relay datagrams in exactly-sized buffers. Two genuine defects "
             "were fixed; one (RFC 3489-style padding counted in the DATA length in GOOGLE/MSN mode) is a known finding. Additionally a theorem about the skeleton of socket/udp-turn.c socket_send_message that tools/extract_flow.py REGENERATES from the source on every run: on an RFC 5766 socket a wrapped message leaves towards the relay only with a permission for that peer (C16_no_send_without_permission).",
        note="Trusted: Lean kernel, Turn model + Relay spec + sock_drv; MSN/OC2007 encodings, the reliable re-framing and refresh "
             "timers are outside the model; STUN encodings rely on C04-C07.",
        technique="Lean 4 round-trip proof against a reference relay + differential correspondence with scripted relay",
        design="5/C16"),
    "C12": dict(
        text="PARTIAL (weakest fit). Lean 4 theorems cover what a model can carry: a lifecycle state machine (add/remove stream, "
             "gather, TURN allocation, forget_relays, asynchronous de-allocation completions, check lists, triggered queue, keepalive) "
             "with the invariant WF proved for EVERY operation sequence (C12_reachable_wf): each resource is owned by a stream object "
             "that still exists (live, or parked on pruning_streams while its refreshes are disposed), no parked stream is stranded, "
             "the keepalive timer is armed only while a stream is left; after remove_stream no live container mentions the id (stale "
             "ids included), other streams' resources are untouched, the last freed refresh closes the parked stream; the keepalive and "
             "consent timers are re-armed for the whole remaining time (never longer than their period, at least 1 ms when 1 ms "
             "remains) — the no-spin arithmetic. Tie: snapshots of the real agent's private containers around every add_stream / "
             "remove_stream are pushed through the model's transition (post-states must be equal) and the executable invariant is "
             "evaluated on every snapshot. Memory safety, use-after-free, assertions and leaks of the C code CANNOT be expressed in "
             "the model: they are observed by running generated API programs (<= 60 calls over the public API with valid and stale "
             "ids, main-loop time and peer traffic interleaved, optional TURN server / consent freshness / reliable mode) on real "
             "agents under ASan+UBSan+LSan, counting sockets before/after and main-loop dispatches per idle second.",
        note="Trusted: Lean kernel, Lifecycle bookkeeping model (refresh pruning is asynchronous in the code and modelled so), "
             "sim_drv harness, sanitizers; single-threaded use only.",
        technique="Lean 4 proof of bookkeeping/timer kernels + sanitizer-instrumented API-program exploration",
        design="5/C12"),
}

NA_REASON = "not yet decided by the framework at this commit (model/theorems under construction); not claimed"

PENDING = {}


def main():
    for k in PENDING:
        CLAIMED.pop(k, None)
    checks = []
    for p in PROPS:
        if p in CLAIMED:
            c = CLAIMED[p]
            checks.append({
                "property_id": p,
                "quick_cmd": f"./check {p} --tier quick",
                "thorough_cmd": f"./check {p} --tier thorough",
                "evidence_file": f"/verif/evidence/{p}.json",
                "replay_cmd_template": f"./check {p} --replay {{path}}",
                "engine": "lean-nice",
                "level_claimed": {"category": c.get("category", "proof"), "text": c["text"],
                                  "design_ref": "DESIGN.md section " + c["design"]},
                "level_note": c["note"],
                "technique": c["technique"],
            })
    m = {
        "version": 1,
        "setup_cmd": "./check --setup",
        "hooks": {"guard": "LIBNICE_VERIF",
                  "enable": "harness and sanitised library builds pass -DLIBNICE_VERIF (meson -Dc_args); no source hook is currently needed",
                  "baseline_off_cmd": "meson test -C /repo/_build",
                  "source_commits": [], "add_only": True},
        "engines": [
            {"name": "lean-nice", "path": "lean/", "serves_properties": sorted(CLAIMED),
             "kind_free_text": "Lean 4 package: Nice/Gen (regenerated from source), Nice/Model (executable models), Nice/Props (theorems), nicemodel line-protocol driver"},
            {"name": "extract", "path": "tools/extract.py", "serves_properties": sorted(CLAIMED),
             "kind_free_text": "translator: clang typed AST / compiled stubs -> Lean definitions, run on every check"},
            {"name": "harness", "path": "harness/", "serves_properties": sorted(CLAIMED),
             "kind_free_text": "C line-protocol drivers linked against ASan/UBSan static libs built from /repo's working tree"},
        ],
        "checks": checks,
        "not_applicable": [{"property_id": p, "reason": PENDING.get(p, NA_REASON)} for p in PROPS if p not in CLAIMED],
        "notes": "See DESIGN.md. KNOWN_FINDINGS.jsonl lists fixed/known defects.",
    }
    json.dump(m, open(os.path.join(ROOT, "MANIFEST.json"), "w"), indent=1)

if __name__ == "__main__":
    main()
