#!/usr/bin/env python3
"""writes MANIFEST.json from the table below (kept in one place so it stays valid)"""
import json, os
ROOT = os.path.dirname(os.path.dirname(os.path.abspath(__file__)))
PROPS = [json.loads(l)["id"] for l in open(os.path.join(ROOT, "properties.jsonl"))]

CLAIMED = {
    "C19": dict(
        text="Machine-checked Lean 4 theorems over a model of stun/usages/timer.c: for every T, N and every polling "
             "pattern (unbounded) the timer requests at most max(N,1)-1 retransmissions, reports timeout only after "
             "exactly that many and never retransmits afterwards, follows the T,2T,..,half schedule, reports a remainder "
             "<= the wait in force and 0 from the deadline on. The model is tied to the current source by a differential "
             "run of the real stun_timer_* functions under an interposed clock, and the property predicate is also "
             "evaluated directly on the implementation's outputs. Agent-level abandonment count is tied by simulation only.",
        note="Trusted: Lean kernel (+propext, Classical.choice, Quot.sound), the hand-written Timer model and the "
             "kern_drv correspondence harness, clang/ASan/UBSan build of /repo. Hypothesis: T*2^(N-1) < 2^32.",
        technique="Lean 4 proof (induction over poll sequences) + differential correspondence of model vs real timer.c",
        design="5/C19"),
    "C15": dict(
        text="Lean 4 theorems about the priority formulas REGENERATED from candidate.c's typed AST on every run: candidate "
             "priority = 2^24*type + 2^8*local + (256-component) without wrap for the documented ranges; every type preference "
             "the code can produce is <= 126 and local preferences pack without overlap; type rank host > prflx > srflx > relay "
             "dominates all other terms; pair priority = 2^32*min + 2*max + (G>D) for all 32-bit pairs (one pair whose value "
             "exceeds 64 bits excluded and exhibited); role symmetry; the check list stays in descending order under every "
             "history of insertions and role switches. A source change to a formula or constant changes the generated Lean "
             "definitions and breaks the proof at lake build; hand-modelled switches and list operations are tied by a "
             "differential run against the real functions; the RFC formulas are also evaluated directly on the C outputs.",
        note="Trusted: Lean kernel, tools/extract.py C-subset semantics (also differential-tested), kern_drv harness, "
             "scripted nice_interfaces_get_local_ips. In-agent list order at role switch / renomination is tied by simulation only.",
        technique="Lean 4 proof over source-regenerated definitions (translator) + differential correspondence",
        design="5/C15"),
}

NA_REASON = "not yet decided by the framework at this commit (model/theorems under construction); not claimed"

def main():
    checks = []
    for p in PROPS:
        if p in CLAIMED:
            c = CLAIMED[p]
            checks.append({
                "property_id": p,
                "quick_cmd": f"./check {p} --tier quick",
                "thorough_cmd": f"./check {p} --tier thorough",
                "evidence_file": f"/verif/evidence/{p}.json",
                "replay_cmd_template": f"./check {p} --replay {{path}}",
                "engine": "lean-nice",
                "level_claimed": {"category": c.get("category", "proof"), "text": c["text"],
                                  "design_ref": "DESIGN.md section " + c["design"]},
                "level_note": c["note"],
                "technique": c["technique"],
            })
    m = {
        "version": 1,
        "setup_cmd": "./check --setup",
        "hooks": {"guard": "LIBNICE_VERIF",
                  "enable": "harness and sanitised library builds pass -DLIBNICE_VERIF (meson -Dc_args); no source hook is currently needed",
                  "baseline_off_cmd": "meson test -C /repo/_build",
                  "source_commits": [], "add_only": True},
        "engines": [
            {"name": "lean-nice", "path": "lean/", "serves_properties": sorted(CLAIMED),
             "kind_free_text": "Lean 4 package: Nice/Gen (regenerated from source), Nice/Model (executable models), Nice/Props (theorems), nicemodel line-protocol driver"},
            {"name": "extract", "path": "tools/extract.py", "serves_properties": sorted(CLAIMED),
             "kind_free_text": "translator: clang typed AST / compiled stubs -> Lean definitions, run on every check"},
            {"name": "harness", "path": "harness/", "serves_properties": sorted(CLAIMED),
             "kind_free_text": "C line-protocol drivers linked against ASan/UBSan static libs built from /repo's working tree"},
        ],
        "checks": checks,
        "not_applicable": [{"property_id": p, "reason": NA_REASON} for p in PROPS if p not in CLAIMED],
        "notes": "See DESIGN.md. KNOWN_FINDINGS.jsonl lists fixed/known defects.",
    }
    json.dump(m, open(os.path.join(ROOT, "MANIFEST.json"), "w"), indent=1)

if __name__ == "__main__":
    main()
