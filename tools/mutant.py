#!/usr/bin/env python3
"""Evaluate a seeded change (from /tmp/mut/<ID>/out) against the checks, in isolation.

  mutant.py detect <ID> [<prop> ...]   copy /verif to /tmp/vmut/<ID>, point it at the mutated worktree
                                       /tmp/mut/<ID> (VERIF_REPO) and run the quick checks there
  mutant.py confirm <ID>               in the mutated worktree: build, run the 41 tests, run the demo with
                                       and without the change
  mutant.py keep <ID>                  copy patch.diff + demo + meta.json to /verif/seeded/<ID>/
Nothing touches /repo or the live /verif build.
"""
import json, os, shutil, subprocess, sys, time

VERIF = os.path.dirname(os.path.dirname(os.path.abspath(__file__)))


def sh(cmd, cwd=None, env=None, timeout=3600):
    r = subprocess.run(cmd, shell=True, cwd=cwd, env=env, capture_output=True, text=True, timeout=timeout)
    return r.returncode, r.stdout + r.stderr


def detect(mid, props):
    wt = f"/tmp/mut/{mid}"
    copy = f"/tmp/vmut/{mid}"
    shutil.rmtree(copy, ignore_errors=True)
    os.makedirs("/tmp/vmut", exist_ok=True)
    rc, out = sh(f"rsync -a --exclude .git --exclude replays --exclude build/meson-asan --exclude build/bin --exclude build/audit {VERIF}/ {copy}/")
    assert rc == 0, out
    env = dict(os.environ, VERIF_REPO=wt)
    res = {}
    for p in props:
        t = time.time()
        rc, out = sh(f"./check {p} --tier quick", cwd=copy, env=env, timeout=1800)
        viol = [l for l in out.splitlines() if l.startswith("VIOLATION")]
        kinds = []
        for v in viol[:3]:
            try:
                path = v.split("replay=")[1].split()[0]
                r = json.load(open(path))
                kinds.append((r.get("kind"), (r.get("why") or str(r.get("broken")))[:300]))
            except Exception as e:
                kinds.append(("?", str(e)))
        res[p] = {"rc": rc, "violations": len(viol), "no_failing_input": any("no-failing-input-found" in v for v in viol),
                  "first": kinds[:2], "wall_s": round(time.time() - t, 1)}
        print(p, json.dumps(res[p])[:900], flush=True)
    json.dump(res, open(f"/tmp/mut/{mid}/out/detect.json", "w"), indent=1)
    shutil.rmtree(copy, ignore_errors=True)
    return res


def confirm(mid):
    wt = f"/tmp/mut/{mid}"
    meta = json.load(open(f"{wt}/out/meta.json"))
    log = {}
    rc, out = sh("rm -rf _b && meson setup _b -Dgstreamer=disabled -Dgupnp=disabled -Dintrospection=disabled -Dgtk_doc=disabled >/dev/null 2>&1 && ninja -C _b 2>&1 | tail -2", cwd=wt)
    log["build_rc"] = rc
    rc, out = sh("meson test -C _b --num-processes 6 2>&1 | tail -12", cwd=wt, timeout=2400)
    log["tests"] = out[-700:]
    log["tests_ok"] = "Fail:               0" in out and "Ok:                 41" in out
    demo = meta.get("demo_cmd", "")
    log["demo_cmd"] = demo
    rc, out = sh(demo, cwd=wt, timeout=1200)
    log["with_change"] = {"rc": rc, "tail": out[-500:]}
    # without the change
    # (never `git stash`: the stash is shared by all worktrees of /repo)
    sh(f"git apply -R out/patch.diff", cwd=wt)
    sh("ninja -C _b 2>&1 | tail -1", cwd=wt)
    rc2, out2 = sh(demo, cwd=wt, timeout=1200)
    log["without_change"] = {"rc": rc2, "tail": out2[-500:]}
    sh(f"git apply out/patch.diff", cwd=wt)
    sh("rm -rf _b", cwd=wt)
    log["confirmed"] = bool(log["tests_ok"] and rc != 0 and rc2 == 0)
    json.dump(log, open(f"{wt}/out/confirm.json", "w"), indent=1)
    print(mid, "confirmed" if log["confirmed"] else "NOT CONFIRMED", json.dumps(log)[:1500])
    return log


def keep(mid):
    src = f"/tmp/mut/{mid}/out"
    dst = os.path.join(VERIF, "seeded", mid)
    shutil.rmtree(dst, ignore_errors=True)
    os.makedirs(dst)
    shutil.copy(f"{src}/patch.diff", dst)
    if os.path.isdir(f"{src}/demo"):
        shutil.copytree(f"{src}/demo", f"{dst}/demo")
    meta = json.load(open(f"{src}/meta.json"))
    for extra in ("confirm.json", "detect.json"):
        if os.path.exists(f"{src}/{extra}"):
            meta[extra.split(".")[0]] = json.load(open(f"{src}/{extra}"))
    json.dump(meta, open(f"{dst}/meta.json", "w"), indent=1)
    print("kept", dst)


def redetect(mid, props):
    """re-create the mutated worktree from /verif/seeded/<ID>/patch.diff on /repo's HEAD, run detect, remove it"""
    wt = f"/tmp/mut/{mid}"
    src = os.path.join(VERIF, "seeded", mid)
    sh(f"git -C /repo worktree remove --force {wt}")
    shutil.rmtree(wt, ignore_errors=True)
    rc, out = sh(f"git -C /repo worktree add --detach {wt} HEAD")
    assert rc == 0, out
    try:
        rc, out = sh(f"git apply {src}/patch.diff", cwd=wt)
        if rc != 0:
            rc, out = sh(f"git apply -3 {src}/patch.diff", cwd=wt)
        if rc != 0:
            print(mid, "PATCH-DOES-NOT-APPLY", out[-300:])
            return None
        os.makedirs(f"{wt}/out", exist_ok=True)
        res = detect(mid, props)
        json.dump(res, open(os.path.join(src, "redetect.json"), "w"), indent=1)
        return res
    finally:
        sh(f"git -C /repo worktree remove --force {wt}")
        sh("git -C /repo worktree prune")


if __name__ == "__main__":
    cmd, mid = sys.argv[1], sys.argv[2]
    if cmd == "detect":
        detect(mid, sys.argv[3:] or [mid[:3]])
    elif cmd == "confirm":
        confirm(mid)
    elif cmd == "keep":
        keep(mid)
    elif cmd == "redetect":
        redetect(mid, sys.argv[3:] or [mid[:3]])
