"""Accounting-skeleton translator: C function with a list-walking loop  ->  Lean term over Nice.Ctl combinators.

Only the state named in MODEL is tracked (two counters and three item fields); every condition that does not read
tracked state only becomes an oracle value `o <site>`, every statement that does not write tracked state is dropped.
Anything the translator does not understand raises Unsupported: the translation is then reported broken, never guessed.

Used for agent/discovery.c priv_discovery_tick_unlocked (property C20: completion is announced only when every
discovery item is done)."""
import re

COUNTERS = {"not_done": "not_done", "need_pacing": "need_pacing"}   # C name -> Lean field (roles found structurally)
ITEM_VAR = "cand"
ITEM_FIELDS = {("pending",): "pending", ("done",): "done", ("stun_message", "buffer"): "hasMsg"}
NORETURN = {"g_assertion_message_expr", "g_assertion_message", "abort", "g_assert_warning", "g_error"}


class Ctx:
    def __init__(self, U, src):
        self.U = U
        self.src = src
        self.sites = []          # description of every oracle site
        self.by_id = {}
        self.notes = []

    def site(self, node, what):
        rng = node.get("range", {})
        b, e = rng.get("begin", {}), rng.get("end", {})
        txt = ""
        try:
            o1 = b.get("offset", b.get("expansionLoc", {}).get("offset"))
            o2 = e.get("offset", e.get("expansionLoc", {}).get("offset")) + e.get("tokLen", e.get("expansionLoc", {}).get("tokLen", 1))
            txt = re.sub(r"\s+", " ", self.src[o1:o2])[:90]
        except Exception:
            pass
        key = node.get("id")
        if key is not None and key in self.by_id:
            return self.by_id[key]          # the same source site duplicated into several branches keeps its number
        self.sites.append(f"{what}: {txt}")
        if key is not None:
            self.by_id[key] = len(self.sites) - 1
        return len(self.sites) - 1


def strip(e):
    while e.get("kind") in ("ImplicitCastExpr", "ParenExpr", "CStyleCastExpr", "ConstantExpr"):
        e = e["inner"][0]
    return e


def const_val(e):
    """integer value of a constant expression, or None"""
    e = strip(e)
    k = e.get("kind")
    if k == "IntegerLiteral":
        return int(e["value"])
    if k == "UnaryOperator" and e.get("opcode") == "!":
        v = const_val(e["inner"][0])
        return None if v is None else int(not v)
    if k == "UnaryOperator" and e.get("opcode") == "-":
        v = const_val(e["inner"][0])
        return None if v is None else -v
    if k == "DeclRefExpr" and e.get("referencedDecl", {}).get("kind") == "EnumConstantDecl":
        return ("enum", e["referencedDecl"]["name"])
    if k == "GNUNullExpr" or k == "CXXNullPtrLiteralExpr":
        return 0
    return None


def tracked_atom(e):
    """('counter', name) | ('field', leanfield) | None"""
    e = strip(e)
    if e.get("kind") == "DeclRefExpr" and e["referencedDecl"]["name"] in COUNTERS:
        return ("counter", COUNTERS[e["referencedDecl"]["name"]])
    path = []
    cur = e
    while cur.get("kind") == "MemberExpr":
        path.append(cur["name"])
        cur = strip(cur["inner"][0])
    if path and cur.get("kind") == "DeclRefExpr" and cur["referencedDecl"]["name"] == ITEM_VAR:
        key = tuple(reversed(path))
        if key in ITEM_FIELDS:
            return ("field", ITEM_FIELDS[key])
    return None


def mentions_tracked(e):
    if tracked_atom(e):
        return True
    return any(mentions_tracked(c) for c in e.get("inner", []) if isinstance(c, dict))


def cond(ctx, e, st):
    """Lean Bool expression over the symbolic state `st` (field -> Lean term over the initial `s`) and oracle `o`"""
    e0 = strip(e)
    k = e0.get("kind")
    at = tracked_atom(e0)
    if at:
        if at[0] == "counter":
            return f"({st[at[1]]} != 0)"
        return f"{st[at[1]]}"
    if k == "UnaryOperator" and e0.get("opcode") == "!" and mentions_tracked(e0):
        return f"(!{cond(ctx, e0['inner'][0], st)})"
    if k == "BinaryOperator" and e0.get("opcode") in ("==", "!=") and mentions_tracked(e0):
        l, r = e0["inner"]
        la, ra = tracked_atom(l), tracked_atom(r)
        if la and not ra:
            at, other = la, r
        elif ra and not la:
            at, other = ra, l
        else:
            raise ctx.U("comparison of two tracked values")
        v = const_val(other)
        if v is None or isinstance(v, tuple):
            raise ctx.U("tracked value compared with a non-constant")
        if at[0] == "counter":
            t = f"({st[at[1]]} == {v})"
        elif at[1] == "hasMsg":
            if v != 0:
                raise ctx.U("buffer pointer compared with non-NULL constant")
            t = f"(!{st['hasMsg']})"
        else:
            if v not in (0, 1):
                raise ctx.U("boolean field compared with a constant other than TRUE/FALSE")
            t = f"({st[at[1]]} == {'true' if v else 'false'})"
        return t if e0["opcode"] == "==" else f"(!{t})"
    if k == "BinaryOperator" and e0.get("opcode") in ("&&", "||") and mentions_tracked(e0):
        op = "&&" if e0["opcode"] == "&&" else "||"
        return f"({cond(ctx, e0['inner'][0], st)} {op} {cond(ctx, e0['inner'][1], st)})"
    if mentions_tracked(e0):
        raise ctx.U("condition mixes tracked and untracked state in a way the translator does not understand")
    return f"(o {ctx.site(e0, 'cond')} != 0)"


def block(ctx, stmts, k, ind, st):
    """Lean text (direct style, continuation duplicated at every join) for executing `stmts` and then the
    continuation k['norm'].  k maps 'norm' / 'brk' / 'sbrk' / 'cont' to functions ind -> Lean text."""
    if not stmts:
        return k["norm"](ind, st)
    n, rest = stmts[0], stmts[1:]
    sp = "  " * ind
    after = dict(k, norm=lambda ind2, st2: block(ctx, rest, k, ind2, st2))
    kind = n.get("kind")
    if kind == "NullStmt":
        return block(ctx, rest, k, ind, st)
    if kind == "CompoundStmt":
        return block(ctx, n.get("inner", []), after, ind, st)
    if kind == "DeclStmt":
        for d in n.get("inner", []):
            if d.get("kind") == "VarDecl" and d.get("name") in COUNTERS:
                raise ctx.U("tracked counter declared inside the translated region")
        return block(ctx, rest, k, ind, st)
    if kind == "IfStmt":
        inner = n["inner"]
        if not touches(inner[1]) and (len(inner) < 3 or not touches(inner[2])):
            if mentions_tracked_write(inner[0]):
                raise ctx.U("condition with a side effect on tracked state")
            return block(ctx, rest, k, ind, st)       # nothing tracked happens in either branch
        c = cond(ctx, inner[0], st)
        a = block(ctx, [inner[1]], after, ind + 1, st)
        b = block(ctx, [inner[2]], after, ind + 1, st) if len(inner) > 2 else after["norm"](ind + 1, st)
        return f"{sp}if {c} then\n{a}\n{sp}else\n{b}"
    if kind == "DoStmt":
        body, c = n["inner"]
        if const_val(c) != 0:
            raise ctx.U("do-while loop that is not the do { } while (0) idiom")
        return block(ctx, [body], after, ind, st)
    if kind == "BreakStmt":
        return (k["sbrk"] if "sbrk" in k else k["brk"])(ind, st)
    if kind == "ContinueStmt":
        return k["cont"](ind, st)
    if kind == "ReturnStmt":
        v = const_val(n["inner"][0]) if n.get("inner") else None
        if v not in (0, 1):
            raise ctx.U("return of a non-constant")
        return f"{sp}({show(st)}, .ret {'true' if v else 'false'})"
    if kind == "SwitchStmt":
        inner = n["inner"]
        sel, body = inner[0], inner[-1]
        if mentions_tracked(sel):
            raise ctx.U("switch on tracked state")
        site = ctx.site(strip(sel), "switch")
        cases, cur = [], None
        for c in body.get("inner", []):
            while c.get("kind") in ("CaseStmt", "DefaultStmt"):
                if cur is not None and cur[1] and not ends_flow(cur[1][-1]):
                    raise ctx.U("switch case falls through")
                if c["kind"] == "CaseStmt":
                    v = const_val(c["inner"][0])
                    if v is None:
                        raise ctx.U("non-constant case label")
                    cur = (v, [])
                else:
                    cur = ("default", [])
                cases.append(cur)
                c = c["inner"][-1]
            if cur is None:
                raise ctx.U("statement before the first case label")
            cur[1].append(c)
        inside = dict(after, sbrk=after["norm"])
        default = [c for c in cases if c[0] == "default"]
        labelled = [c for c in cases if c[0] != "default"]
        # a switch over a value of an enum type whose enumerators are ALL handled by case labels: the default
        # branch is reachable only if the callee returns something that is not an enumerator of its return type
        exhaustive = False
        tname = strip(sel).get("type", {}).get("qualType")
        enums = ctx.enum_values(tname) if tname else None
        if enums is not None:
            labels = {ctx.enum(v[1]) if isinstance(v, tuple) else v for v, _ in labelled}
            exhaustive = set(enums) <= labels
            ctx.notes.append(f"switch at site {site} over {tname} {sorted(enums)}: case labels {sorted(labels)} -> "
                             + ("exhaustive, default branch emitted as unreachable (.abort)" if exhaustive else "NOT exhaustive"))

        def chain(idx, ind2):
            sp2 = "  " * ind2
            if idx == len(labelled):
                if exhaustive:
                    return sp2 + f"({show(st)}, .abort)"
                return block(ctx, default[0][1], inside, ind2, st) if default else after["norm"](ind2, st)
            v, ss = labelled[idx]
            lbl = f"{ctx.enum(v[1])}" if isinstance(v, tuple) else str(v)
            return (f"{sp2}if o {site} = {lbl} then\n{block(ctx, ss, inside, ind2 + 1, st)}\n{sp2}else\n{chain(idx + 1, ind2 + 1)}")
        return chain(0, ind)
    if kind in ("ForStmt", "WhileStmt"):
        raise ctx.U("nested loop")
    # expression statements
    e = strip(n)
    ek = e.get("kind")
    upd = None
    if ek == "UnaryOperator" and e.get("opcode") in ("++", "--"):
        at = tracked_atom(e["inner"][0])
        if at:
            if at[0] != "counter":
                raise ctx.U("increment of a tracked field")
            upd = (at[1], f"{st[at[1]]} {'-' if e['opcode'] == '--' else '+'} 1")
    elif ek in ("BinaryOperator", "CompoundAssignOperator") and e.get("opcode", "").endswith("=") and \
            e.get("opcode") not in ("==", "!=", "<=", ">="):
        at = tracked_atom(e["inner"][0])
        if at:
            if e["opcode"] != "=":
                raise ctx.U("compound assignment to tracked state")
            v = const_val(e["inner"][1])
            if v is None or isinstance(v, tuple):
                raise ctx.U("tracked state assigned a non-constant")
            if at[0] == "counter":
                upd = (at[1], str(v))
            elif at[1] == "hasMsg":
                if v != 0:
                    raise ctx.U("buffer pointer assigned a non-NULL constant")
                upd = ("hasMsg", "false")
            else:
                upd = (at[1], "true" if v else "false")
        elif mentions_tracked(e["inner"][0]):
            raise ctx.U("assignment through a tracked value")
    elif ek == "CallExpr":
        callee = strip(e["inner"][0])
        name = callee.get("referencedDecl", {}).get("name") if callee.get("kind") == "DeclRefExpr" else None
        if name in NORETURN:
            return f"{sp}({show(st)}, .abort)"
        for a in e["inner"][1:]:
            a0 = strip(a)
            if a0.get("kind") == "UnaryOperator" and a0.get("opcode") == "&" and tracked_atom(a0["inner"][0]):
                raise ctx.U("address of tracked state passed to a function")
    elif ek in ("DeclRefExpr", "IntegerLiteral", "MemberExpr", "ConditionalOperator", "StmtExpr"):
        if mentions_tracked(e):
            raise ctx.U("expression statement over tracked state")
    else:
        raise ctx.U(f"statement kind {kind}/{ek} not understood by the skeleton translator")
    if upd:
        st = dict(st)
        st[upd[0]] = upd[1] if re.fullmatch(r"[\w.]+", upd[1]) else f"({upd[1]})"
    return block(ctx, rest, k, ind, st)


def show(st):
    """Lean structure literal of the symbolic state"""
    return (f"{{ not_done := {st['not_done']}, need_pacing := {st['need_pacing']}, "
            f"c := {{ pending := {st['pending']}, done := {st['done']}, hasMsg := {st['hasMsg']} }} }}")


INIT_ST = {"not_done": "s.not_done", "need_pacing": "s.need_pacing", "pending": "s.c.pending", "done": "s.c.done",
           "hasMsg": "s.c.hasMsg"}


def touches(n):
    """does the statement (tree) write tracked state or change control flow?"""
    k = n.get("kind")
    if k in ("BreakStmt", "ContinueStmt", "ReturnStmt", "GotoStmt"):
        return True
    e = strip(n) if k in ("ImplicitCastExpr", "ParenExpr") else n
    if e.get("kind") == "UnaryOperator" and e.get("opcode") in ("++", "--") and tracked_atom(e["inner"][0]):
        return True
    if e.get("kind") in ("BinaryOperator", "CompoundAssignOperator") and e.get("opcode", "").endswith("=") and \
            e.get("opcode") not in ("==", "!=", "<=", ">=") and mentions_tracked(e["inner"][0]):
        return True
    if e.get("kind") == "CallExpr":
        callee = strip(e["inner"][0])
        if callee.get("kind") == "DeclRefExpr" and callee.get("referencedDecl", {}).get("name") in NORETURN:
            return True
        for a in e["inner"][1:]:
            a0 = strip(a)
            if a0.get("kind") == "UnaryOperator" and a0.get("opcode") == "&" and tracked_atom(a0["inner"][0]):
                return True
    return any(touches(c) for c in n.get("inner", []) if isinstance(c, dict))


def mentions_tracked_write(e):
    return touches(e)


def ends_flow(n):
    k = n.get("kind")
    if k in ("BreakStmt", "ContinueStmt", "ReturnStmt"):
        return True
    if k == "CompoundStmt" and n.get("inner"):
        return ends_flow(n["inner"][-1])
    return False


def translate_tick(fdecl, src, consts, U):
    """returns Lean source of Nice.Gen.DiscoveryTick"""
    ctx = Ctx(U, src)

    def enum(name):
        if name not in consts:
            raise U(f"enum constant {name} not among the extracted constants")
        return consts[name]
    ctx.enum = enum

    def enum_values(tname):
        """values of all enumerators of `typedef enum { .. } tname;` found in the repository headers, or None"""
        import glob, os
        root = os.environ.get("VERIF_REPO", "/repo")
        for h in sorted(glob.glob(os.path.join(root, "**", "*.h"), recursive=True)):
            if "/_build" in h or "/build" in h.replace(root, ""):
                continue
            txt = open(h, errors="replace").read()
            m = re.search(r"typedef\s+enum\s*\{([^}]*)\}\s*" + re.escape(tname) + r"\s*;", txt)
            if m:
                body = re.sub(r"/\*.*?\*/", "", m.group(1), flags=re.S)
                names = [x.split("=")[0].strip() for x in body.split(",") if x.strip()]
                if not all(n in consts for n in names):
                    raise U(f"enumerator of {tname} missing from the extracted constants: {names}")
                return [consts[n] for n in names]
        return None
    ctx.enum_values = enum_values
    body = [c for c in fdecl["inner"] if c.get("kind") == "CompoundStmt"][0]
    pre, loop, post = [], None, []
    for c in body["inner"]:
        if c.get("kind") == "ForStmt" and loop is None:
            loop = c
        elif loop is None:
            pre.append(c)
        else:
            post.append(c)
    if loop is None:
        raise U("no list-walking for loop found")
    # roles are found structurally, so renaming the locals is harmless:
    #   item variable  = the variable assigned `<iterator>->data` by the first statement of the loop body
    #   done counter   = the local tested `== 0` by the first `if` after the loop
    #   pacing counter = the local whose truth guards a bare `break` inside the loop body
    global COUNTERS, ITEM_VAR
    fb = loop["inner"][4]
    fstmts = fb.get("inner", []) if fb.get("kind") == "CompoundStmt" else [fb]
    f0 = strip(fstmts[0]) if fstmts else {}
    if f0.get("kind") == "BinaryOperator" and f0.get("opcode") == "=" and strip(f0["inner"][0]).get("kind") == "DeclRefExpr":
        ITEM_VAR = strip(f0["inner"][0])["referencedDecl"]["name"]
    done_name = pace_name = None
    for c in post:
        if c.get("kind") == "IfStmt":
            c0 = strip(c["inner"][0])
            if c0.get("kind") == "BinaryOperator" and c0.get("opcode") == "==" and const_val(c0["inner"][1]) == 0 and \
                    strip(c0["inner"][0]).get("kind") == "DeclRefExpr":
                done_name = strip(c0["inner"][0])["referencedDecl"]["name"]
            break
    for st_ in find_all(fb, "IfStmt"):
        c0 = strip(st_["inner"][0])
        body1 = st_["inner"][1]
        while body1.get("kind") == "CompoundStmt" and len(body1.get("inner", [])) == 1:
            body1 = body1["inner"][0]
        if c0.get("kind") == "DeclRefExpr" and body1.get("kind") == "BreakStmt" and len(st_["inner"]) == 2:
            pace_name = c0["referencedDecl"]["name"]
            break
    if not done_name or not pace_name or done_name == pace_name:
        raise U("could not identify the outstanding-items counter and the pacing counter of the loop")
    COUNTERS = {done_name: "not_done", pace_name: "need_pacing"}
    # locals: the tracked counters must be initialised to 0 before the loop
    inits = {}
    for c in pre:
        if c.get("kind") == "DeclStmt":
            for d in c.get("inner", []):
                if d.get("kind") == "VarDecl" and d.get("name") in COUNTERS:
                    v = const_val(d["inner"][0]) if d.get("inner") else None
                    if v is None:
                        raise U(f"counter {d['name']} has no constant initialiser")
                    inits[COUNTERS[d["name"]]] = v
        elif touches(c):
            raise U("statement before the loop touches tracked state or leaves the function")
    if set(inits) != set(COUNTERS.values()):
        raise U("tracked counters not all declared before the loop")
    finit, fcond, finc, fbody = loop["inner"][0], loop["inner"][2], loop["inner"][3], loop["inner"][4]
    # shape check: i = <list>; i; i = i->next
    ivar = strip(fcond)
    if ivar.get("kind") != "DeclRefExpr":
        raise U("loop condition is not the bare iterator")
    iname = ivar["referencedDecl"]["name"]
    inc = strip(finc)
    ok = (inc.get("kind") == "BinaryOperator" and inc.get("opcode") == "=" and
          strip(inc["inner"][0]).get("referencedDecl", {}).get("name") == iname and
          strip(inc["inner"][1]).get("kind") == "MemberExpr" and strip(inc["inner"][1]).get("name") == "next")
    if not ok:
        raise U("loop increment is not `i = i->next`")
    stmts = fbody.get("inner", []) if fbody.get("kind") == "CompoundStmt" else [fbody]
    first = strip(stmts[0]) if stmts else {}
    ok = (first.get("kind") == "BinaryOperator" and first.get("opcode") == "=" and
          strip(first["inner"][0]).get("referencedDecl", {}).get("name") == ITEM_VAR and
          strip(first["inner"][1]).get("kind") == "MemberExpr" and strip(first["inner"][1]).get("name") == "data")
    if not ok:
        raise U("loop body does not start with `cand = i->data`")
    for s_ in stmts[1:]:
        if reassigns_item(s_):
            raise U("item variable reassigned inside the loop body")
    leaf = lambda f: (lambda ind, st: "  " * ind + f"({show(st)}, {f})")
    body_t = block(ctx, stmts[1:], {"norm": leaf(".norm"), "brk": leaf(".brk"), "cont": leaf(".cont")}, 1, INIT_ST)
    nbody = len(ctx.sites)

    def no_loop(ind, st):
        raise U("break/continue outside the loop")
    tail_t = block(ctx, post, {"norm": leaf(".norm"), "brk": no_loop, "cont": no_loop}, 1, INIT_ST)
    out = ["/- GENERATED by tools/extract_ctl.py from agent/discovery.c priv_discovery_tick_unlocked — do not edit.",
           "   Accounting skeleton: tracked = not_done, need_pacing, cand->pending, cand->done, cand->stun_message.buffer;",
           "   every other condition is an oracle value `o site`; statements that touch no tracked state are dropped;",
           "   the code after a join is duplicated into both branches and tracked assignments are substituted (direct style,",
           "   conditions and results are terms over the state `s` at the start of the iteration).  Oracle sites:"]
    for i, d in enumerate(ctx.sites):
        out.append(f"     o {i} — {d}")
    for nt in dict.fromkeys(ctx.notes):
        out.append("   " + nt)
    out += ["-/", "import Nice.Model.Ctl", "set_option linter.unusedVariables false", "namespace Nice.Gen", "open Nice.Ctl", "",
            "def discovery_tick_body (o : Nat → Nat) (s : S) : S × Flow :=", body_t, "",
            "def discovery_tick_tail (o : Nat → Nat) (s : S) : S × Flow :=", tail_t, "",
            f"def discovery_tick_init : S := {{ not_done := {inits['not_done']}, need_pacing := {inits['need_pacing']} }}", "",
            "/-- the whole function: returns the tracked state, the items as left by the loop, and how the function ended",
            "    (`.ret false` = \"no more pending timers\": the discovery list was freed and gathering-done announced) -/",
            "def discovery_tick (o : Nat → Nat → Nat) (items : List Item) : S × List Item × Flow :=",
            "  match forEach discovery_tick_body o 0 discovery_tick_init items with",
            "  | (s, its, .norm) => let r := discovery_tick_tail (o items.length) s; (r.1, its, r.2)",
            "  | r => r", "", "end Nice.Gen", ""]
    return "\n".join(out), {"oracle_sites": len(ctx.sites), "body_sites": nbody}


def reassigns_item(n):
    e = strip(n) if n.get("kind", "").endswith("Expr") or n.get("kind") in ("BinaryOperator",) else n
    if e.get("kind") == "BinaryOperator" and e.get("opcode") == "=":
        l = strip(e["inner"][0])
        if l.get("kind") == "DeclRefExpr" and l["referencedDecl"]["name"] == ITEM_VAR:
            return True
    return any(reassigns_item(c) for c in n.get("inner", []) if isinstance(c, dict))


# ----------------------------------------------------------------------------
# small pattern translators used by C01 (selection kernel)
# ----------------------------------------------------------------------------
def chain(e):
    """textual access path of a DeclRefExpr/MemberExpr chain, e.g. component->selected_pair.priority"""
    e = strip(e)
    if e.get("kind") == "DeclRefExpr":
        return e["referencedDecl"]["name"]
    if e.get("kind") == "MemberExpr":
        return chain(e["inner"][0]) + ("->" if e.get("isArrow") else ".") + e["name"]
    return None


def find_all(n, kind):
    if n.get("kind") == kind:
        yield n
    for c in n.get("inner", []):
        if isinstance(c, dict):
            yield from find_all(c, kind)


def translate_guard(fdecl, lhs, rhs, lean_name, U):
    """the first `if (<lhs> OP <rhs>)` of the function, as a Lean predicate over two naturals"""
    for st in find_all(fdecl, "IfStmt"):
        c = strip(st["inner"][0])
        if c.get("kind") == "BinaryOperator" and c.get("opcode") in (">", ">=", "<", "<=", "==", "!="):
            a, b = chain(c["inner"][0]), chain(c["inner"][1])
            op = {">": ">", ">=": "≥", "<": "<", "<=": "≤", "==": "=", "!=": "≠"}[c["opcode"]]
            if a == lhs and b == rhs:
                return f"def {lean_name} (a b : Nat) : Bool := decide (a {op} b)"
            if a == rhs and b == lhs:
                return f"def {lean_name} (a b : Nat) : Bool := decide (b {op} a)"
    raise U(f"guard `{lhs} <op> {rhs}` not found")


def translate_pair_priority_dispatch(fdecl, U):
    """agent_candidate_pair_priority: if (agent->controlling_mode) return f (x->priority, y->priority); else return f (..)"""
    ifs = list(find_all(fdecl, "IfStmt"))
    if len(ifs) != 1 or chain(ifs[0]["inner"][0]) != "agent->controlling_mode" or len(ifs[0]["inner"]) != 3:
        raise U("agent_candidate_pair_priority is not `if (agent->controlling_mode) .. else ..`")

    def branch(n):
        rets = list(find_all(n, "ReturnStmt"))
        if len(rets) != 1:
            raise U("branch without a single return")
        call = strip(rets[0]["inner"][0])
        if call.get("kind") != "CallExpr" or chain(call["inner"][0]) != "nice_candidate_pair_priority" or len(call["inner"]) != 3:
            raise U("branch does not return nice_candidate_pair_priority (a, b)")
        names = {"local->priority": "lp", "remote->priority": "rp"}
        args = [names.get(chain(a)) for a in call["inner"][1:]]
        if None in args:
            raise U("unexpected argument of nice_candidate_pair_priority")
        return f"nice_candidate_pair_priority {args[0]} {args[1]}"
    return ("def agent_candidate_pair_priority (controlling : Bool) (lp rp : UInt32) : UInt64 :=\n"
            f"  if controlling then {branch(ifs[0]['inner'][1])} else {branch(ifs[0]['inner'][2])}")
