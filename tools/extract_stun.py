"""STUN message layer additions to tools/extract.py (constants, tables needing the headers).
Imported by extract.py; kept separate so that concurrent edits of extract.py do not collide."""
import os, subprocess, tempfile
from collections import Counter

CONSTS = [
    # sizes, error / status codes, methods, ICE usage enums
    ("stun/usages/ice.h", [
        "STUN_ATTRIBUTE_HEADER_LENGTH", "STUN_ATTRIBUTE_TYPE_POS", "STUN_ATTRIBUTE_LENGTH_POS",
        "STUN_ERROR_FORBIDDEN", "STUN_ERROR_MAX", "STUN_VALIDATION_FORBIDDEN",
        "STUN_SHARED_SECRET", "STUN_ALLOCATE", "STUN_REFRESH", "STUN_SEND", "STUN_CONNECT",
        "STUN_IND_SEND", "STUN_IND_DATA", "STUN_CREATEPERMISSION", "STUN_CHANNELBIND",
        "STUN_ATTRIBUTE_LIFETIME", "STUN_ATTRIBUTE_DATA", "STUN_ATTRIBUTE_ALTERNATE_SERVER",
        "STUN_ATTRIBUTE_MS_ALTERNATE_SERVER", "STUN_ATTRIBUTE_MS_VERSION",
        "STUN_ATTRIBUTE_MS_XOR_MAPPED_ADDRESS", "STUN_ATTRIBUTE_XOR_PEER_ADDRESS",
        "STUN_ATTRIBUTE_XOR_RELAYED_ADDRESS", "STUN_ATTRIBUTE_RELAY_ADDRESS",
        "STUN_ATTRIBUTE_REQUESTED_TRANSPORT", "STUN_ATTRIBUTE_REQUESTED_PORT_PROPS",
        "STUN_ATTRIBUTE_RESERVATION_TOKEN", "STUN_ATTRIBUTE_BANDWIDTH",
        "STUN_ATTRIBUTE_CHANNEL_NUMBER", "STUN_ATTRIBUTE_MAGIC_COOKIE",
        "STUN_ATTRIBUTE_DESTINATION_ADDRESS", "STUN_ATTRIBUTE_OPTIONS",
        "STUN_ATTRIBUTE_DONT_FRAGMENT", "STUN_ATTRIBUTE_REQUESTED_ADDRESS_TYPE",
        "STUN_USAGE_ICE_COMPATIBILITY_RFC5245", "STUN_USAGE_ICE_COMPATIBILITY_GOOGLE",
        "STUN_USAGE_ICE_COMPATIBILITY_MSN", "STUN_USAGE_ICE_COMPATIBILITY_MSICE2",
        "STUN_USAGE_ICE_RETURN_SUCCESS", "STUN_USAGE_ICE_RETURN_ERROR",
        "STUN_USAGE_ICE_RETURN_INVALID", "STUN_USAGE_ICE_RETURN_ROLE_CONFLICT",
        "STUN_USAGE_ICE_RETURN_INVALID_REQUEST", "STUN_USAGE_ICE_RETURN_INVALID_METHOD",
        "STUN_USAGE_ICE_RETURN_MEMORY_ERROR", "STUN_USAGE_ICE_RETURN_INVALID_ADDRESS",
        "STUN_USAGE_ICE_RETURN_NO_MAPPED_ADDRESS",
    ]),
]

CONSTS.append(("stun/usages/turn.h", [
    "TURN_MAGIC_COOKIE",
    "STUN_USAGE_TURN_COMPATIBILITY_DRAFT9", "STUN_USAGE_TURN_COMPATIBILITY_GOOGLE",
    "STUN_USAGE_TURN_COMPATIBILITY_MSN", "STUN_USAGE_TURN_COMPATIBILITY_OC2007",
    "STUN_USAGE_TURN_COMPATIBILITY_RFC5766",
    "STUN_USAGE_TURN_RETURN_RELAY_SUCCESS", "STUN_USAGE_TURN_RETURN_MAPPED_SUCCESS",
    "STUN_USAGE_TURN_RETURN_ERROR", "STUN_USAGE_TURN_RETURN_INVALID",
    "STUN_USAGE_TURN_RETURN_ALTERNATE_SERVER",
    "STUN_USAGE_TURN_REQUEST_PORT_NORMAL", "STUN_USAGE_TURN_REQUEST_PORT_EVEN",
    "STUN_USAGE_TURN_REQUEST_PORT_EVEN_AND_RESERVE",
    "STUN_ATTRIBUTE_CHANNEL_NUMBER",
]))

# #define lines of stun/usages/turn.c
CDEFS = [
    ("stun/usages/turn.c", ["REQUESTED_PROPS_E", "REQUESTED_PROPS_R", "STUN_ATTRIBUTE_MSN_MAPPED_ADDRESS",
                            "TURN_REQUESTED_TRANSPORT_UDP"]),
]

TABLES = [
    ("stun/stun5389.c", "utf8_skip_data", "UInt8"),
]


def write_tables(f, report, X):
    """known-attribute lists, stun_strerror() phrases (the function's current source text is
    compiled into a stub and called for every code 0..1023), PACKAGE_STRING.  X = extract module."""
    txt = open(os.path.join(X.REPO, "stun/stunmessage.c")).read()
    body = X.function_text(txt, "stun_strerror", "stun/stunmessage.c")
    src = ('#include <stdio.h>\n#include <string.h>\n#include "config.h"\n#include "stun/stunagent.h"\n'
           + body.replace("stun_strerror", "verif_strerror", 1) + r"""
int main(void){ unsigned i; const uint16_t *p;
  for (p = STUN_ALL_KNOWN_ATTRIBUTES; *p; p++) printf("ALL %u\n", *p);
  for (p = STUN_MSOC_KNOWN_ATTRIBUTES; *p; p++) printf("MSOC %u\n", *p);
  for (i = 0; i < 1024; i++) { const char *s = verif_strerror (i); size_t k;
    printf("ERR %u", i); for (k = 0; k < strlen (s); k++) printf(" %u", (unsigned char) s[k]); printf("\n"); }
  { const char *s = PACKAGE_STRING; size_t k; printf("PKG"); for (k = 0; k < strlen (s); k++) printf(" %u", (unsigned char) s[k]); printf("\n"); }
  return 0; }
""")
    with tempfile.TemporaryDirectory(dir=X.BUILD) as td:
        c = os.path.join(td, "st.c")
        open(c, "w").write(src)
        exe = os.path.join(td, "st")
        r = subprocess.run(["clang-14", "-w", "-o", exe, c] + X.cflags(), capture_output=True, text=True)
        if r.returncode != 0:
            raise X.Unsupported("stun table stub does not compile: " + r.stderr[-800:])
        out = subprocess.check_output([exe], text=True)
    allk, msoc, errs, pkg = [], [], {}, []
    for line in out.splitlines():
        w = line.split()
        if w[0] == "ALL":
            allk.append(int(w[1]))
        elif w[0] == "MSOC":
            msoc.append(int(w[1]))
        elif w[0] == "ERR":
            errs[int(w[1])] = [int(x) for x in w[2:]]
        elif w[0] == "PKG":
            pkg = [int(x) for x in w[1:]]
    default = Counter(tuple(v) for v in errs.values()).most_common(1)[0][0]
    special = [(k, v) for k, v in sorted(errs.items()) if tuple(v) != default]
    f.write("/-- STUN_ALL_KNOWN_ATTRIBUTES (stun/stunmessage.h), without the 0 terminator -/\n")
    f.write("def STUN_ALL_KNOWN_ATTRIBUTES : List UInt16 := [" + ", ".join(map(str, allk)) + "]\n\n")
    f.write("/-- STUN_MSOC_KNOWN_ATTRIBUTES (stun/stunmessage.h), without the 0 terminator -/\n")
    f.write("def STUN_MSOC_KNOWN_ATTRIBUTES : List UInt16 := [" + ", ".join(map(str, msoc)) + "]\n\n")
    f.write("/-- stun_strerror(): (code, phrase bytes) for the codes 0..1023 that have their own phrase -/\n")
    f.write("def stun_strerror_tab : List (Nat × List UInt8) := [\n  " +
            ",\n  ".join(f"({k}, [{', '.join(map(str, v))}])" for k, v in special) + "]\n\n")
    f.write("/-- stun_strerror(): phrase for every other code -/\n")
    f.write("def stun_strerror_default : List UInt8 := [" + ", ".join(map(str, default)) + "]\n\n")
    f.write("/-- PACKAGE_STRING of the build (config.h) -/\n")
    f.write("def PACKAGE_STRING : List UInt8 := [" + ", ".join(map(str, pkg)) + "]\n\n")
    report["tables"]["stun_known_attributes"] = len(allk) + len(msoc)
    report["tables"]["stun_strerror_tab"] = len(special)
