#!/usr/bin/env python3
"""Translator: /repo C sources -> lean/Nice/Gen/*.lean  (run on every check).

Three kinds of output, all regenerated from /repo's *current* working tree:
  Consts.lean   #define / enum constants, evaluated by compiling and running a stub
  Tables.lean   static const tables (crc32_tab, PACKET_MAXIMUMS, TRANSITION whitelist ...)
  Kernels.lean  pure integer kernels, translated from clang's *typed* AST (so C's usual
                arithmetic conversions are read off clang, not re-implemented here)

Anything outside the supported C subset aborts the extraction (fail closed):
the caller then reports the property as no longer shown.
"""
import json, os, re, subprocess, sys, hashlib, tempfile, shutil

REPO = os.environ.get("VERIF_REPO", "/repo")
HERE = os.path.dirname(os.path.abspath(__file__))
ROOT = os.path.dirname(HERE)
BUILD = os.environ.get("VERIF_BUILD", os.path.join(ROOT, "build"))
MESON = os.path.join(BUILD, "meson-asan")
GEN = os.path.join(ROOT, "lean", "Nice", "Gen")
GEN_FINAL = GEN


class Unsupported(Exception):
    pass


def cflags():
    pc = subprocess.check_output(
        ["pkg-config", "--cflags", "glib-2.0", "gio-2.0", "gobject-2.0"], text=True).split()
    inc = ["-DHAVE_CONFIG_H", "-I" + MESON, "-I" + REPO]
    for d in ("agent", "random", "socket", "stun", "stun/usages", "nice"):
        inc.append("-I" + os.path.join(REPO, d))
    return inc + pc


# ----------------------------------------------------------------------------
# type mapping
# ----------------------------------------------------------------------------
UNSIGNED = {
    "unsigned char": 8, "unsigned short": 16, "unsigned int": 32,
    "unsigned long": 64, "unsigned long long": 64, "_Bool": 8, "bool": 8,
}
SIGNED = {
    "signed char": 8, "char": 8, "short": 16, "int": 32, "long": 64, "long long": 64,
}


class Ty:
    def __init__(self, signed, bits, ptr=False, enum=False):
        self.signed, self.bits, self.ptr = signed, bits, ptr

    @property
    def lean(self):
        if self.ptr:
            return "(Nat → UInt8)"
        return ("Int%d" if self.signed else "UInt%d") % self.bits

    def __eq__(self, o):
        return (self.signed, self.bits, self.ptr) == (o.signed, o.bits, o.ptr)


def canon(tnode):
    t = tnode.get("desugaredQualType") or tnode.get("qualType")
    t = t.replace("const ", "").replace("volatile ", "").strip()
    t = re.sub(r"\*\s*const$", "*", t).strip()
    if t.endswith(" const"):
        t = t[:-6].strip()
    return t


def ty_of(tnode):
    t = canon(tnode)
    if t.endswith("*"):
        base = t[:-1].strip()
        if base in ("unsigned char", "uint8_t", "guint8", "char", "guchar"):
            return Ty(False, 8, ptr=True)
        raise Unsupported("pointer type " + t)
    if t in UNSIGNED:
        return Ty(False, UNSIGNED[t])
    if t in SIGNED:
        return Ty(True, SIGNED[t])
    if t.startswith("enum ") or t in ENUM_TYPES:
        return Ty(False, 32)
    if t in TYPEDEFS:
        return ty_of({"qualType": TYPEDEFS[t]})
    raise Unsupported("type " + t)


ENUM_TYPES = {"PseudoTcpState", "NiceCandidateType", "NiceCandidateTransport"}   # typedef enum with non-negative values: clang's underlying type is unsigned int


def conv(src, dst, term):
    """C integral conversion src -> dst of a Lean term."""
    if src == dst:
        return term
    if src.ptr or dst.ptr:
        raise Unsupported("pointer conversion")
    if not src.signed and not dst.signed:
        return f"({term}).to{dst.lean}"
    if not src.signed and dst.signed:
        return f"({dst.lean}.ofNat ({term}).toNat)"
    return f"({dst.lean}.ofInt ({term}).toInt)"


# ----------------------------------------------------------------------------
# expression / statement translation
# ----------------------------------------------------------------------------
class Fn:
    def __init__(self, decl, known, enums, src):
        self.decl, self.known, self.enums, self.src = decl, known, enums, src
        self.name = decl["name"]
        self.asserts = []
        self.loc = {}      # const locals with foldable initialisers
        self.members = []  # (lean name, Ty) for p->field accesses on struct-pointer params

    def lit(self, v, ty):
        v = int(v)
        if v < 0:
            return f"(Int{ty.bits}.ofInt ({v}))" if ty.signed else f"((0 : {ty.lean}) - {-v})"
        return f"({v} : {ty.lean})"

    def cfold(self, e):
        """python int (wrapped to the C type) if e is a compile-time constant, else None"""
        k = e["kind"]
        try:
            if k in ("ParenExpr", "ConstantExpr"):
                return self.cfold(e["inner"][0])
            ty = ty_of(e["type"])
            if ty.ptr:
                return None
            def wrap(v):
                v &= (1 << ty.bits) - 1
                if ty.signed and v >= 1 << (ty.bits - 1):
                    v -= 1 << ty.bits
                return v
            if k in ("IntegerLiteral", "CharacterLiteral"):
                return wrap(int(e["value"]))
            if k == "DeclRefExpr" and e["referencedDecl"]["kind"] == "EnumConstantDecl":
                return wrap(self.enums[e["referencedDecl"]["name"]])
            if k == "DeclRefExpr" and e["referencedDecl"]["name"] in self.loc:
                return wrap(self.loc[e["referencedDecl"]["name"]])
            if k == "ImplicitCastExpr" and e["castKind"] == "LValueToRValue":
                return self.cfold(e["inner"][0])
            if k in ("ImplicitCastExpr", "CStyleCastExpr") and e["castKind"] in ("IntegralCast", "NoOp"):
                v = self.cfold(e["inner"][0])
                return None if v is None else wrap(v)
            if k == "UnaryOperator" and e["opcode"] in ("~", "-", "+"):
                v = self.cfold(e["inner"][0])
                if v is None:
                    return None
                return wrap({"~": ~v, "-": -v, "+": v}[e["opcode"]])
            if k == "BinaryOperator" and e["opcode"] in ("+", "-", "*", "&", "|", "^", "<<", ">>"):
                a, b = self.cfold(e["inner"][0]), self.cfold(e["inner"][1])
                if a is None or b is None:
                    return None
                op = e["opcode"]
                if op in ("<<", ">>") and not (0 <= b < ty.bits):
                    return None
                return wrap({"+": a + b, "-": a - b, "*": a * b, "&": a & b, "|": a | b, "^": a ^ b,
                             "<<": a << b if op == "<<" else 0, ">>": a >> b if op == ">>" else 0}[op])
        except (Unsupported, KeyError):
            return None
        return None

    # value mode: Lean term of the C expression's type
    def val(self, e):
        k = e["kind"]
        if k not in ("IntegerLiteral",):
            cv = self.cfold(e)
            if cv is not None:
                return self.lit(cv, ty_of(e["type"]))
        if k in ("ParenExpr", "ConstantExpr"):
            return self.val(e["inner"][0])
        ty = ty_of(e["type"]) if "type" in e else None
        if k == "IntegerLiteral":
            return self.lit(e["value"], ty)
        if k == "CharacterLiteral":
            return self.lit(e["value"], ty)
        if k == "DeclRefExpr":
            rd = e["referencedDecl"]
            if rd["kind"] == "EnumConstantDecl":
                if rd["name"] not in self.enums:
                    raise Unsupported("enum constant %s not evaluated" % rd["name"])
                return self.lit(self.enums[rd["name"]], ty)
            if rd["kind"] in ("ParmVarDecl", "VarDecl"):
                return nm(rd["name"])
            raise Unsupported("DeclRefExpr to " + rd["kind"])
        if k in ("ImplicitCastExpr", "CStyleCastExpr"):
            ck = e["castKind"]
            inner = e["inner"][0]
            if ck in ("LValueToRValue", "NoOp", "FunctionToPointerDecay", "ArrayToPointerDecay"):
                return self.val(inner)
            if ck == "IntegralCast":
                return conv(ty_of(inner["type"]), ty, self.val(inner))
            if ck == "IntegralToBoolean":
                return f"(if {self.cond(inner)} then 1 else 0 : {ty.lean})"
            raise Unsupported("cast kind " + ck)
        if k == "UnaryOperator":
            op = e["opcode"]
            inner = e["inner"][0]
            if op == "!":
                return f"(if {self.cond(inner)} then 0 else 1 : {ty.lean})"
            if op == "~":
                return f"(~~~ {self.val(inner)})"
            if op == "-":
                return f"(0 - {self.val(inner)})"
            if op == "+":
                return self.val(inner)
            raise Unsupported("unary " + op)
        if k == "BinaryOperator":
            op = e["opcode"]
            a, b = e["inner"]
            if op in ("<", ">", "<=", ">=", "==", "!=", "&&", "||"):
                return f"(if {self.cond(e)} then 1 else 0 : {ty.lean})"
            if op in ("+", "-", "*", "&", "|", "^"):
                lop = {"&": "&&&", "|": "|||", "^": "^^^"}.get(op, op)
                if ty.signed and op in "+-*":
                    # signed overflow is UB in C; Lean's IntN wraps.  Recorded in the trusted base.
                    pass
                return f"({self.val(a)} {lop} {self.val(b)})"
            if op in ("<<", ">>"):
                amt = self.cfold(b)
                if amt is None or not (0 <= amt < ty.bits):
                    raise Unsupported(f"shift by non-literal or out-of-range amount in {self.name}")
                if ty.signed and op == "<<":
                    # only when the operand was promoted from a narrow unsigned type and cannot overflow
                    src = a
                    while src["kind"] == "ParenExpr":
                        src = src["inner"][0]
                    ok = False
                    if src["kind"] == "ImplicitCastExpr" and src["castKind"] == "IntegralCast":
                        st = ty_of(src["inner"][0]["type"])
                        ok = (not st.signed) and st.bits + amt < ty.bits
                    if not ok:
                        raise Unsupported("signed left shift that may overflow")
                lop = "<<<" if op == "<<" else ">>>"
                return f"({self.val(a)} {lop} {self.lit(amt, ty)})"
            if op in ("/", "%"):
                d = const_int(b)
                if d is None or d == 0:
                    raise Unsupported(f"division by non-literal in {self.name}")
                return f"({self.val(a)} {op} {self.val(b)})"
            if op == ",":
                raise Unsupported("comma")
            raise Unsupported("binary " + op)
        if k == "ConditionalOperator":
            c, a, b = e["inner"]
            return f"(if {self.cond(c)} then {self.val(a)} else {self.val(b)})"
        if k == "MemberExpr":
            base = e["inner"][0]
            while base["kind"] in ("ImplicitCastExpr", "ParenExpr"):
                base = base["inner"][0]
            if e.get("isArrow") and base["kind"] == "DeclRefExpr" and \
                    base["referencedDecl"]["kind"] == "ParmVarDecl":
                mnm = base["referencedDecl"]["name"] + "_" + e["name"]
                t = e["type"]
                mt = Ty(False, 8, ptr=True) if re.match(r"^(const )?(uint8_t|unsigned char|guint8) ?(\*|\[)", canon(t)) else ty_of(t)
                if (mnm, mt) not in self.members:
                    self.members.append((mnm, mt))
                return mnm
            raise Unsupported("member access")
        if k == "ArraySubscriptExpr":
            base, idx = e["inner"]
            bt = ty_of(base["type"])
            if not bt.ptr:
                raise Unsupported("subscript of non-pointer")
            ci = self.cfold(idx)
            if ci is not None and ci >= 0:
                return f"({self.val(base)} {ci})"
            it = ty_of(idx["type"])
            return f"({self.val(base)} ({self.val(idx)}).toInt.toNat)" if it.signed else \
                f"({self.val(base)} ({self.val(idx)}).toNat)"
        if k == "CallExpr":
            callee = e["inner"][0]
            while callee["kind"] in ("ImplicitCastExpr", "ParenExpr"):
                callee = callee["inner"][0]
            fn = callee.get("referencedDecl", {}).get("name")
            if fn == "memcmp":
                a0, a1, a2 = e["inner"][1:4]
                lit = a1
                while lit["kind"] in ("ImplicitCastExpr", "ParenExpr"):
                    lit = lit["inner"][0]
                n = self.cfold(a2)
                while a0["kind"] in ("ImplicitCastExpr", "ParenExpr") and a0.get("castKind") != "LValueToRValue":
                    a0 = a0["inner"][0]
                if lit["kind"] != "StringLiteral" or n is None:
                    raise Unsupported("memcmp with non-literal operand")
                bs = (c_string_bytes(lit["value"]) + [0])[:n]
                if len(bs) != n:
                    raise Unsupported("memcmp literal shorter than n")
                return f"(memcmp_lit {self.val(a0)} [{', '.join(map(str, bs))}])"
            args = [self.val(x) for x in e["inner"][1:]]
            if fn in ("ntohl", "htonl", "__bswap_32", "__builtin_bswap32"):
                return f"(bswap32 {args[0]})"
            if fn in ("ntohs", "htons", "__bswap_16", "__builtin_bswap16"):
                return f"(bswap16 {args[0]})"
            if fn in self.known:
                extra = []
                for (mn, mt) in self.known[fn]:
                    # callee expanded a struct pointer: pass our own expansion of the same field
                    arg0 = e["inner"][1]
                    while arg0["kind"] in ("ImplicitCastExpr", "ParenExpr"):
                        arg0 = arg0["inner"][0]
                    if arg0["kind"] != "DeclRefExpr":
                        raise Unsupported("struct argument")
                    anm = arg0["referencedDecl"]["name"] + "_" + mn.split("_", 1)[1]
                    if (anm, mt) not in self.members:
                        self.members.append((anm, mt))
                    extra.append(anm)
                if self.known[fn]:
                    args = extra
                return "(" + " ".join([fn] + args) + ")"
            raise Unsupported("call to " + str(fn))
        raise Unsupported("expr kind " + k)

    # condition mode: Lean Bool term
    def cond(self, e):
        k = e["kind"]
        if k in ("ParenExpr", "ConstantExpr"):
            return self.cond(e["inner"][0])
        if k == "BinaryOperator":
            op = e["opcode"]
            a, b = e["inner"]
            if op in ("<", ">", "<=", ">=", "==", "!="):
                lop = {"==": "==", "!=": "!="}.get(op, op)
                ta, tb = ty_of(a["type"]), ty_of(b["type"])
                if not ta == tb:
                    raise Unsupported("comparison of different types")
                return f"(decide ({self.val(a)} {lop} {self.val(b)}))" if op in ("<", ">", "<=", ">=") \
                    else f"({self.val(a)} {lop} {self.val(b)})"
            if op == "&&":
                return f"({self.cond(a)} && {self.cond(b)})"
            if op == "||":
                return f"({self.cond(a)} || {self.cond(b)})"
        if k == "UnaryOperator" and e["opcode"] == "!":
            return f"(!{self.cond(e['inner'][0])})"
        if k == "ImplicitCastExpr" and e["castKind"] in ("IntegralToBoolean",):
            return self.cond(e["inner"][0])
        if k == "CallExpr":
            callee = e["inner"][0]
            while callee["kind"] in ("ImplicitCastExpr", "ParenExpr"):
                callee = callee["inner"][0]
            if callee.get("referencedDecl", {}).get("name") == "__builtin_expect":
                return self.cond(e["inner"][1])
        if k == "ImplicitCastExpr" and e["castKind"] in ("IntegralCast", "LValueToRValue", "NoOp"):
            # e.g. (long) !!(expr) inside G_LIKELY
            inner = e["inner"][0]
            if inner["kind"] in ("UnaryOperator", "BinaryOperator", "ParenExpr", "CallExpr") and \
                    e["castKind"] == "IntegralCast":
                return self.cond(inner)
        return f"({self.val(e)} != 0)"

    # statements: returns a Lean term for "run these statements then `rest`"
    def stmts(self, ss, rest=None):
        if not ss:
            if rest is None:
                raise Unsupported(f"control reaches end of non-void function {self.name}")
            return rest
        s, tail = ss[0], ss[1:]
        k = s["kind"]
        if k == "NullStmt":
            return self.stmts(tail, rest)
        if k == "CompoundStmt":
            return self.stmts(s.get("inner", []) + tail, rest)
        if k == "ReturnStmt":
            return self.val(s["inner"][0])
        if k == "DeclStmt":
            out = []
            for d in s["inner"]:
                if d["kind"] != "VarDecl":
                    raise Unsupported("decl " + d["kind"])
                ty = ty_of(d["type"])
                if "inner" in d and "const" in d["type"]["qualType"]:
                    cv = self.cfold(d["inner"][0])
                    if cv is not None:
                        self.loc[d["name"]] = cv
                if "inner" not in d:
                    out.append(f"let {nm(d['name'])} : {ty.lean} := 0")  # uninitialised; must be assigned
                else:
                    out.append(f"let {nm(d['name'])} : {ty.lean} := {self.val(d['inner'][0])}")
            return "\n  ".join(out) + "\n  " + self.stmts(tail, rest)
        if k == "BinaryOperator" and s["opcode"] == "=":
            lhs, rhs = s["inner"]
            if lhs["kind"] != "DeclRefExpr":
                raise Unsupported("assignment to non-variable")
            n = nm(lhs["referencedDecl"]["name"])
            return f"let {n} : {ty_of(lhs['type']).lean} := {self.val(rhs)}\n  " + self.stmts(tail, rest)
        if k == "CompoundAssignOperator":
            lhs, rhs = s["inner"]
            if lhs["kind"] != "DeclRefExpr":
                raise Unsupported("assignment to non-variable")
            n = nm(lhs["referencedDecl"]["name"])
            lt = ty_of(lhs["type"])
            ct = ty_of(s["computeResultType"])
            op = s["opcode"][:-1]
            lop = {"&": "&&&", "|": "|||", "^": "^^^", "<<": "<<<", ">>": ">>>"}.get(op, op)
            if op in ("<<", ">>", "/", "%"):
                amt = const_int(rhs)
                if amt is None or amt == 0 or (op in ("<<", ">>") and amt >= ct.bits):
                    raise Unsupported("compound shift/div by non-literal")
            l = conv(lt, ct, n)
            r = self.val(rhs)
            rt = ty_of(rhs["type"])
            if op in ("<<", ">>"):
                r = self.lit(const_int(rhs), ct)
            elif not rt == ct:
                r = conv(rt, ct, r)
            return f"let {n} : {lt.lean} := {conv(ct, lt, f'({l} {lop} {r})')}\n  " + self.stmts(tail, rest)
        if k == "DoStmt":
            a = self.as_assert(s)
            if a is not None:
                self.asserts.append(a)
                return self.stmts(tail, rest)
            raise Unsupported("do-while")
        if k == "IfStmt":
            inner = s["inner"]
            c = self.cond(inner[0])
            then = [inner[1]]
            els = [inner[2]] if len(inner) > 2 else []
            if always_returns(then) and (not els or always_returns(els)):
                t = self.stmts(then)
                e = self.stmts(els) if els else self.stmts(tail, rest)
                return f"if {c} then\n  ({t})\n  else\n  ({e})"
            if always_returns(els) and els:
                e = self.stmts(els)
                t = self.stmts(then + tail, rest)
                return f"if {c} then\n  ({t})\n  else\n  ({e})"
            # join: both branches fall through; thread assigned variables
            av = sorted(nm(x) for x in (assigned(then) | assigned(els)))
            if not av:
                return self.stmts(tail, rest)
            tup = "(" + ", ".join(av) + ")" if len(av) > 1 else av[0]
            t = self.stmts(then, tup)
            e = self.stmts(els, tup) if els else tup
            return f"let {tup} := (if {c} then\n  ({t})\n  else\n  ({e}))\n  " + self.stmts(tail, rest)
        if k == "SwitchStmt":
            return self.switch(s, tail, rest)
        raise Unsupported("statement kind " + k)

    def switch(self, s, tail, rest):
        scrut, body = s["inner"][0], s["inner"][1]
        sv = self.val(scrut)
        sty = ty_of(scrut["type"])
        # flatten case labels: each group = (labels, stmts); only groups that end in return / break
        groups, cur_labels, cur = [], [], []

        def flush():
            nonlocal cur_labels, cur
            if cur_labels:
                groups.append((cur_labels, cur))
            cur_labels, cur = [], []

        def walk(n):
            nonlocal cur_labels, cur
            if n["kind"] == "CaseStmt":
                if cur:
                    if not (always_returns(cur) or cur[-1]["kind"] == "BreakStmt"):
                        raise Unsupported("switch fall-through")
                    flush()
                cur_labels.append(const_int_enum(n["inner"][0], self.enums))
                walk(n["inner"][-1])
            elif n["kind"] == "DefaultStmt":
                if cur:
                    if not (always_returns(cur) or cur[-1]["kind"] == "BreakStmt"):
                        raise Unsupported("switch fall-through")
                    flush()
                cur_labels.append(None)
                walk(n["inner"][-1])
            else:
                cur.append(n)
        for n in body.get("inner", []):
            walk(n)
        flush()
        default = None
        arms = []
        for labels, st in groups:
            brk = st and st[-1]["kind"] == "BreakStmt"
            st2 = st[:-1] if brk else st
            if brk:
                # `break` = go on with the statements after the switch: the continuation is inlined into the arm, so
                # assignments made in the arm are ordinary sequential `let`s in front of it (the tail is duplicated per arm)
                term = self.stmts(st2 + tail, rest)
            else:
                term = self.stmts(st2)
            if None in labels:
                default = term
            ls = [l for l in labels if l is not None]
            if ls:
                arms.append((ls, term))
        if default is None:
            default = self.stmts(tail, rest)
        out = default
        for ls, term in reversed(arms):
            c = " || ".join(f"{sv} == {self.lit(l, sty)}" for l in ls)
            out = f"if {c} then\n  ({term})\n  else\n  ({out})"
        return out

    def as_assert(self, s):
        try:
            body = s["inner"][0]
            if body["kind"] != "CompoundStmt":
                return None
            stmts = body.get("inner", [])
            if len(stmts) != 1 or stmts[0]["kind"] != "IfStmt":
                return None
            iff = stmts[0]["inner"]
            call = iff[2]
            name = call["inner"][0]["inner"][0]["referencedDecl"]["name"]
            if name not in ("g_assertion_message_expr", "__assert_fail"):
                return None
            return self.cond(iff[0])
        except (KeyError, IndexError):
            return None

    def emit(self):
        params, body = [], None
        structp = set()
        for n in self.decl.get("inner", []):
            if n["kind"] == "ParmVarDecl":
                try:
                    params.append((n["name"], ty_of(n["type"])))
                except Unsupported:
                    if canon(n["type"]).endswith("*"):
                        structp.add(n["name"])
                    else:
                        raise
            elif n["kind"] == "CompoundStmt":
                body = n
        rt = self.decl["type"]["qualType"].split("(")[0].strip()
        rty = ty_of({"qualType": TYPEDEFS.get(rt, rt)})
        term = self.stmts(body.get("inner", []))
        params += self.members
        ps = " ".join(f"({nm(n)} : {t.lean})" for n, t in params)
        out = f"/-- translated from `{self.src}` : `{self.name}` -/\n"
        out += f"def {self.name} {ps} : {rty.lean} :=\n  {term}\n"
        if self.asserts:
            out += f"\n/-- conjunction of the `g_assert`s at the head of `{self.name}` -/\n"
            out += f"def {self.name}_pre {ps} : Bool :=\n  " + " && ".join(self.asserts) + "\n"
        return out


def nm(n):
    return n + "'" if n in LEAN_KW else n


def c_string_bytes(v):
    """bytes of a C string literal as clang prints it (with quotes and escapes)"""
    assert v[0] == '"' and v[-1] == '"'
    v = v[1:-1]
    out, i = [], 0
    while i < len(v):
        c = v[i]
        if c != "\\":
            out.append(ord(c)); i += 1; continue
        i += 1
        c = v[i]
        if c == "x":
            j = i + 1
            while j < len(v) and v[j] in "0123456789abcdefABCDEF":
                j += 1
            out.append(int(v[i + 1:j], 16) & 0xff); i = j
        elif c in "01234567":
            j = i
            while j < len(v) and j < i + 3 and v[j] in "01234567":
                j += 1
            out.append(int(v[i:j], 8) & 0xff); i = j
        else:
            out.append({"n": 10, "r": 13, "t": 9, "0": 0, "\\": 92, '"': 34, "'": 39, "a": 7}[c]); i += 1
    return out


LEAN_KW = {"max", "min", "end", "from", "at", "have", "show", "then", "do", "in", "fun", "open"}
TYPEDEFS = {
    "guint": "unsigned int", "guint8": "unsigned char", "guint16": "unsigned short",
    "guint32": "unsigned int", "guint64": "unsigned long", "gboolean": "int", "gint": "int",
    "uint8_t": "unsigned char", "uint16_t": "unsigned short", "uint32_t": "unsigned int",
    "uint64_t": "unsigned long", "size_t": "unsigned long", "gsize": "unsigned long",
    "bool": "_Bool", "gint32": "int", "gint64": "long", "unsigned": "unsigned int",
    "StunClass": "unsigned int", "StunMethod": "unsigned int", "gssize": "long", "ssize_t": "long",
}


def const_int(e):
    while e["kind"] in ("ParenExpr", "ImplicitCastExpr", "ConstantExpr", "CStyleCastExpr"):
        e = e["inner"][0]
    if e["kind"] == "IntegerLiteral":
        return int(e["value"])
    return None


def const_int_enum(e, enums):
    while e["kind"] in ("ParenExpr", "ImplicitCastExpr", "ConstantExpr", "CStyleCastExpr"):
        if e["kind"] == "ConstantExpr" and "value" in e:
            return int(e["value"])
        e = e["inner"][0]
    if e["kind"] == "IntegerLiteral":
        return int(e["value"])
    if e["kind"] == "DeclRefExpr" and e["referencedDecl"]["name"] in enums:
        return enums[e["referencedDecl"]["name"]]
    raise Unsupported("case label")


def always_returns(ss):
    if not ss:
        return False
    s = ss[-1]
    if s["kind"] == "ReturnStmt":
        return True
    if s["kind"] == "CompoundStmt":
        return always_returns(s.get("inner", []))
    if s["kind"] == "IfStmt":
        i = s["inner"]
        return len(i) > 2 and always_returns([i[1]]) and always_returns([i[2]])
    return False


def assigned(ss):
    out = set()
    for s in ss:
        k = s["kind"]
        if k in ("BinaryOperator",) and s.get("opcode") == "=" and s["inner"][0]["kind"] == "DeclRefExpr":
            out.add(s["inner"][0]["referencedDecl"]["name"])
        elif k == "CompoundAssignOperator" and s["inner"][0]["kind"] == "DeclRefExpr":
            out.add(s["inner"][0]["referencedDecl"]["name"])
        elif k in ("CompoundStmt",):
            out |= assigned(s.get("inner", []))
        elif k == "IfStmt":
            out |= assigned(s["inner"][1:])
    return out


def parse_docs(s):
    dec = json.JSONDecoder()
    i, docs = 0, []
    while i < len(s):
        while i < len(s) and s[i].isspace():
            i += 1
        if i >= len(s):
            break
        d, i = dec.raw_decode(s, i)
        docs.append(d)
    return docs


def ast_of(path, fn, extra=()):
    cmd = ["clang-14", "-fsyntax-only", "-Xclang", "-ast-dump=json", "-Xclang",
           "-ast-dump-filter=" + fn] + cflags() + list(extra) + [path]
    r = subprocess.run(cmd, capture_output=True, text=True)
    for d in parse_docs(r.stdout):
        if d.get("kind") == "FunctionDecl" and d.get("name") == fn and \
                any(c.get("kind") == "CompoundStmt" for c in d.get("inner", [])):
            return d
    raise Unsupported(f"function {fn} not found in {path} ({r.stderr[-300:]})")


# ----------------------------------------------------------------------------
# what to extract
# ----------------------------------------------------------------------------
KERNELS = [
    # (source file relative to repo, function, group)
    ("agent/candidate.c", "nice_candidate_ice_priority_full"),
    ("agent/candidate.c", "nice_candidate_ice_local_preference_full"),
    ("agent/candidate.c", "nice_candidate_ms_ice_local_preference_full"),
    ("agent/candidate.c", "nice_candidate_pair_priority"),
    ("agent/address.c", "ipv4_address_is_private"),
    ("agent/address.c", "ipv4_address_is_linklocal"),
    ("agent/address.c", "ipv6_address_is_private"),
    ("agent/address.c", "ipv6_address_is_linklocal"),
    ("stun/utils.c", "stun_padding"),
    ("stun/utils.c", "stun_align"),
    ("stun/utils.c", "stun_getw"),
    ("stun/stunmessage.c", "stun_message_get_class"),
    ("stun/stunmessage.c", "stun_message_get_method"),
    ("stun/stunmessage.c", "stun_optional"),
    ("agent/pseudotcp.c", "time_is_between"),
    ("agent/pseudotcp.c", "time_diff"),
    ("agent/pseudotcp.c", "bound"),
    ("agent/pseudotcp.c", "pseudo_tcp_state_has_sent_fin"),
    ("agent/pseudotcp.c", "pseudo_tcp_state_has_received_fin"),
    ("agent/pseudotcp.c", "pseudo_tcp_state_has_received_fin_ack"),
]

# (include, [names]) : printed as unsigned long long by a compiled stub
CONSTS = [
    ("agent/candidate-priv.h", [
        "NICE_CANDIDATE_TYPE_PREF_HOST", "NICE_CANDIDATE_TYPE_PREF_PEER_REFLEXIVE",
        "NICE_CANDIDATE_TYPE_PREF_NAT_ASSISTED", "NICE_CANDIDATE_TYPE_PREF_SERVER_REFLEXIVE",
        "NICE_CANDIDATE_TYPE_PREF_RELAYED_UDP", "NICE_CANDIDATE_TYPE_PREF_RELAYED",
        "NICE_CANDIDATE_TRANSPORT_MS_PREF_UDP", "NICE_CANDIDATE_TRANSPORT_MS_PREF_TCP",
        "NICE_CANDIDATE_DIRECTION_MS_PREF_PASSIVE", "NICE_CANDIDATE_DIRECTION_MS_PREF_ACTIVE",
        "NICE_CANDIDATE_MAX_TURN_SERVERS", "NICE_CANDIDATE_MAX_LOCAL_ADDRESSES",
        "NICE_CANDIDATE_TYPE_HOST", "NICE_CANDIDATE_TYPE_SERVER_REFLEXIVE",
        "NICE_CANDIDATE_TYPE_PEER_REFLEXIVE", "NICE_CANDIDATE_TYPE_RELAYED",
        "NICE_CANDIDATE_TRANSPORT_UDP", "NICE_CANDIDATE_TRANSPORT_TCP_ACTIVE",
        "NICE_CANDIDATE_TRANSPORT_TCP_PASSIVE", "NICE_CANDIDATE_TRANSPORT_TCP_SO",
        "NICE_CANDIDATE_MAX_FOUNDATION",
    ]),
    ("stun/usages/timer.h", [
        "STUN_TIMER_DEFAULT_TIMEOUT", "STUN_TIMER_DEFAULT_MAX_RETRANSMISSIONS",
        "STUN_TIMER_DEFAULT_RELIABLE_TIMEOUT", "STUN_USAGE_TIMER_RETURN_SUCCESS",
        "STUN_USAGE_TIMER_RETURN_RETRANSMIT", "STUN_USAGE_TIMER_RETURN_TIMEOUT",
    ]),
    ("stun/stunmessage.h", [
        "STUN_MESSAGE_BUFFER_INCOMPLETE", "STUN_MESSAGE_BUFFER_INVALID",
        "STUN_MESSAGE_TYPE_POS", "STUN_MESSAGE_TYPE_LEN", "STUN_MESSAGE_LENGTH_POS",
        "STUN_MESSAGE_LENGTH_LEN", "STUN_MESSAGE_TRANS_ID_POS", "STUN_MESSAGE_TRANS_ID_LEN",
        "STUN_MESSAGE_ATTRIBUTES_POS", "STUN_MESSAGE_HEADER_LENGTH",
        "STUN_ATTRIBUTE_TYPE_LEN", "STUN_ATTRIBUTE_VALUE_POS", "STUN_ATTRIBUTE_HEADER_LENGTH" if False else "STUN_ATTRIBUTE_LENGTH_LEN",
        "STUN_MAX_MESSAGE_SIZE", "STUN_MAGIC_COOKIE", "STUN_ID_LEN",
        "STUN_ATTRIBUTE_MESSAGE_INTEGRITY", "STUN_ATTRIBUTE_FINGERPRINT",
        "STUN_ATTRIBUTE_USERNAME", "STUN_ATTRIBUTE_REALM", "STUN_ATTRIBUTE_NONCE",
        "STUN_ATTRIBUTE_ERROR_CODE", "STUN_ATTRIBUTE_UNKNOWN_ATTRIBUTES",
        "STUN_ATTRIBUTE_MAPPED_ADDRESS", "STUN_ATTRIBUTE_XOR_MAPPED_ADDRESS",
        "STUN_ATTRIBUTE_PRIORITY", "STUN_ATTRIBUTE_USE_CANDIDATE",
        "STUN_ATTRIBUTE_ICE_CONTROLLED", "STUN_ATTRIBUTE_ICE_CONTROLLING",
        "STUN_ATTRIBUTE_SOFTWARE", "STUN_ATTRIBUTE_MS_IMPLEMENTATION_VERSION",
        "STUN_ATTRIBUTE_NOMINATION", "STUN_ATTRIBUTE_CANDIDATE_IDENTIFIER",
        "STUN_ATTRIBUTE_MS_SEQUENCE_NUMBER",
        "STUN_REQUEST", "STUN_INDICATION", "STUN_RESPONSE", "STUN_ERROR",
        "STUN_BINDING", "STUN_MESSAGE_RETURN_SUCCESS", "STUN_MESSAGE_RETURN_NOT_FOUND",
        "STUN_MESSAGE_RETURN_INVALID", "STUN_MESSAGE_RETURN_NOT_ENOUGH_SPACE",
        "STUN_MESSAGE_RETURN_UNSUPPORTED_ADDRESS",
        "STUN_ERROR_ROLE_CONFLICT", "STUN_ERROR_UNAUTHORIZED", "STUN_ERROR_BAD_REQUEST",
        "STUN_ERROR_STALE_NONCE", "STUN_ERROR_TRY_ALTERNATE", "STUN_ERROR_FORBIDDEN" if False else "STUN_ERROR_UNKNOWN_ATTRIBUTE",
    ]),
    ("stun/stunagent.h", [
        "STUN_AGENT_MAX_SAVED_IDS", "STUN_AGENT_MAX_UNKNOWN_ATTRIBUTES",
        "STUN_COMPATIBILITY_RFC3489", "STUN_COMPATIBILITY_RFC5389", "STUN_COMPATIBILITY_MSICE2",
        "STUN_COMPATIBILITY_OC2007",
        "STUN_VALIDATION_SUCCESS", "STUN_VALIDATION_NOT_STUN", "STUN_VALIDATION_INCOMPLETE_STUN",
        "STUN_VALIDATION_BAD_REQUEST", "STUN_VALIDATION_UNAUTHORIZED_BAD_REQUEST",
        "STUN_VALIDATION_UNAUTHORIZED", "STUN_VALIDATION_UNMATCHED_RESPONSE",
        "STUN_VALIDATION_UNKNOWN_REQUEST_ATTRIBUTE", "STUN_VALIDATION_UNKNOWN_ATTRIBUTE",
        "STUN_AGENT_USAGE_SHORT_TERM_CREDENTIALS", "STUN_AGENT_USAGE_LONG_TERM_CREDENTIALS",
        "STUN_AGENT_USAGE_USE_FINGERPRINT", "STUN_AGENT_USAGE_ADD_SOFTWARE",
        "STUN_AGENT_USAGE_IGNORE_CREDENTIALS", "STUN_AGENT_USAGE_NO_INDICATION_AUTH",
        "STUN_AGENT_USAGE_FORCE_VALIDATER", "STUN_AGENT_USAGE_NO_ALIGNED_ATTRIBUTES",
        "STUN_AGENT_USAGE_CONSENT_FRESHNESS",
    ]),
    ("agent/agent-priv.h", [
        "NICE_AGENT_TIMER_TA_DEFAULT", "NICE_AGENT_TIMER_TR_DEFAULT",
        "NICE_AGENT_TIMER_CONSENT_DEFAULT", "NICE_AGENT_TIMER_CONSENT_TIMEOUT",
        "NICE_AGENT_TIMER_MIN_CONSENT_INTERVAL",
        "NICE_AGENT_MAX_CONNECTIVITY_CHECKS_DEFAULT", "NICE_AGENT_TIMER_KEEPALIVE_TIMEOUT",
        "MAX_STUN_DATAGRAM_PAYLOAD", "NICE_AGENT_MAX_REMOTE_CANDIDATES",
        "NICE_COMPONENT_STATE_DISCONNECTED", "NICE_COMPONENT_STATE_GATHERING",
        "NICE_COMPONENT_STATE_CONNECTING", "NICE_COMPONENT_STATE_CONNECTED",
        "NICE_COMPONENT_STATE_READY", "NICE_COMPONENT_STATE_FAILED", "NICE_COMPONENT_STATE_LAST",
    ]),
    ("agent/stream.h", [  # C18 (SDP credentials / default candidates)
        "NICE_STREAM_MAX_UFRAG", "NICE_STREAM_MAX_PWD", "NICE_STREAM_DEF_UFRAG", "NICE_STREAM_DEF_PWD", "NICE_COMPONENT_TYPE_RTP", "NICE_COMPONENT_TYPE_RTCP",
    ]),
    ("agent/pseudotcp.h", [
        "PSEUDO_TCP_LISTEN", "PSEUDO_TCP_SYN_SENT", "PSEUDO_TCP_SYN_RECEIVED", "PSEUDO_TCP_ESTABLISHED",
        "PSEUDO_TCP_CLOSED", "PSEUDO_TCP_FIN_WAIT_1", "PSEUDO_TCP_FIN_WAIT_2", "PSEUDO_TCP_CLOSING",
        "PSEUDO_TCP_TIME_WAIT", "PSEUDO_TCP_CLOSE_WAIT", "PSEUDO_TCP_LAST_ACK",
        "WR_SUCCESS", "WR_TOO_LARGE", "WR_FAIL",
        "PSEUDO_TCP_SHUTDOWN_RD", "PSEUDO_TCP_SHUTDOWN_WR", "PSEUDO_TCP_SHUTDOWN_RDWR",
    ]),
]


# #define lines that live in .c files: the line is copied into the stub and evaluated there
CDEFS = [
    ("agent/agent.c", ["MAX_TCP_MTU", "TCP_HEADER_SIZE"]),
    ("agent/component.c", ["MAX_BUFFER_SIZE"]),
    # pseudo-TCP (order matters: PACKET_OVERHEAD uses the four header sizes)
    ("agent/pseudotcp.c", ["DEF_MTU", "MAX_PACKET", "MIN_PACKET", "IP_HEADER_SIZE", "UDP_HEADER_SIZE",
                           "JINGLE_HEADER_SIZE", "HEADER_SIZE", "PACKET_OVERHEAD", "MIN_RTO", "DEF_RTO",
                           "MAX_RTO", "DEFAULT_ACK_DELAY", "DEFAULT_NO_DELAY", "DEFAULT_RCV_BUF_SIZE",
                           "DEFAULT_SND_BUF_SIZE", "CTL_CONNECT", "TCP_MSL", "DEFAULT_TIMEOUT",
                           "CLOSED_TIMEOUT", "TIME_WAIT_TIMEOUT"]),
]

# `typedef enum { ... } Name;` blocks that live in .c files: copied into the stub, members evaluated there
CENUMS = [
    ("agent/pseudotcp.c", "TcpOption", ["TCP_OPT_EOL", "TCP_OPT_NOOP", "TCP_OPT_MSS", "TCP_OPT_WND_SCALE",
                                        "TCP_OPT_FIN_ACK"]),
    ("agent/pseudotcp.c", "TcpFlags", ["FLAG_NONE", "FLAG_FIN", "FLAG_CTL", "FLAG_RST"]),
]


def cdef_lines():
    out, names = [], []
    for file, ns in CDEFS:
        txt = open(os.path.join(REPO, file)).read()
        for n in dict.fromkeys(ns):
            m = re.search(r"^#\s*define\s+" + n + r"\b((?:.*\\\n)*.*)$", txt, re.M)
            if not m:
                raise Unsupported(f"#define {n} not found in {file}")
            out.append(f"#define {n} {m.group(1)}")
            names.append(n)
    for file, tname, ns in CENUMS:
        txt = open(os.path.join(REPO, file)).read()
        m = re.search(r"typedef\s+enum\s*\{[^}]*\}\s*" + tname + r"\s*;", txt)
        if not m:
            raise Unsupported(f"typedef enum {tname} not found in {file}")
        out.append(m.group(0))
        names += ns
    return out, names


def eval_consts():
    """compile and run a stub that prints each constant"""
    src = ['#include <stdio.h>', '#include "config.h"']
    seen = []
    for inc, names in CONSTS:
        if inc:
            src.append(f'#include "{inc}"')
    dl, dn = cdef_lines()
    src += dl
    CONSTS.append(("", dn))
    src.append("int main(void){")
    for inc, names in CONSTS:
        for n in names:
            src.append(f'#ifdef {n}\n printf("{n} %llu\\n", (unsigned long long)({n}));\n#else\n'
                       f' printf("{n} %llu\\n", (unsigned long long)({n}));\n#endif')
            seen.append(n)
    src.append("return 0;}")
    with tempfile.TemporaryDirectory(dir=BUILD) as td:
        c = os.path.join(td, "consts.c")
        open(c, "w").write("\n".join(src))
        exe = os.path.join(td, "consts")
        r = subprocess.run(["clang-14", "-w", "-o", exe, c] + cflags(), capture_output=True, text=True)
        if r.returncode != 0:
            raise Unsupported("constant stub does not compile: " + r.stderr[-800:])
        out = subprocess.check_output([exe], text=True)
    vals = {}
    for line in out.splitlines():
        n, v = line.split()
        vals[n] = int(v)
    return vals


TABLE_STUB = r'''
#include <stdio.h>
#include <stdint.h>
#include <glib.h>
%(text)s
int main(void){ unsigned i; for(i=0;i<sizeof(%(name)s)/sizeof(%(name)s[0]);i++) printf("%%llu\n",(unsigned long long)%(name)s[i]); return 0; }
'''
TABLES = [
    ("stun/stuncrc32.c", "crc32_tab", "UInt32"),
    ("agent/pseudotcp.c", "PACKET_MAXIMUMS", "UInt32"),
]

import extract_stun  # STUN message layer additions (tools/extract_stun.py)
CONSTS += extract_stun.CONSTS
TABLES += extract_stun.TABLES
CDEFS += extract_stun.CDEFS


def eval_table(file, name):
    with tempfile.TemporaryDirectory(dir=BUILD) as td:
        c = os.path.join(td, "t.c")
        txt = open(os.path.join(REPO, file)).read()
        m = re.search(r"^[^\n;{}()]*\b" + name + r"\s*\[[^\]]*\]\s*=\s*\{.*?\};", txt, re.S | re.M)
        if not m:
            raise Unsupported(f"table {name} not found in {file}")
        open(c, "w").write(TABLE_STUB % {"text": m.group(0), "name": name})
        exe = os.path.join(td, "t")
        r = subprocess.run(["clang-14", "-w", "-o", exe, c] + cflags(), capture_output=True, text=True)
        if r.returncode != 0:
            raise Unsupported(f"table stub for {name} does not compile: " + r.stderr[-800:])
        return [int(x) for x in subprocess.check_output([exe], text=True).split()]


def transitions():
    """the whitelist asserted in agent.c's agent_signal_component_state_change: the text between
    `#define TRANSITION` and `#undef TRANSITION` is compiled into a stub, `g_assert (` replaced by
    `return (`, and evaluated on all (old,new) pairs."""
    txt = open(os.path.join(REPO, "agent/agent.c")).read()
    m = re.search(r"#define TRANSITION\(.*?#undef TRANSITION", txt, re.S)
    if not m:
        raise Unsupported("TRANSITION whitelist not found in agent.c")
    body = m.group(0)
    if body.count("g_assert") != 1:
        raise Unsupported("TRANSITION block does not contain exactly one g_assert")
    body = body.replace("g_assert", "return")
    src = ('#include <stdio.h>\n#include "config.h"\n#include "agent.h"\n'
           "static int allowed (NiceComponentState old_state, NiceComponentState new_state) {\n" + body +
           "\n}\nint main(void){int o,n;for(o=0;o<NICE_COMPONENT_STATE_LAST;o++)for(n=0;n<NICE_COMPONENT_STATE_LAST;n++)"
           'if(o!=n && allowed(o,n)) printf("%d %d\\n",o,n);return 0;}\n')
    with tempfile.TemporaryDirectory(dir=BUILD) as td:
        c = os.path.join(td, "tr.c")
        open(c, "w").write(src)
        exe = os.path.join(td, "tr")
        r = subprocess.run(["clang-14", "-w", "-o", exe, c] + cflags(), capture_output=True, text=True)
        if r.returncode != 0:
            raise Unsupported("transition stub does not compile: " + r.stderr[-800:])
        out = subprocess.check_output([exe], text=True)
    return [tuple(int(x) for x in l.split()) for l in out.splitlines()]


def ptcp_transitions():
    """the whitelist asserted in pseudotcp.c's set_state, evaluated on all (old,new) state pairs"""
    txt = open(os.path.join(REPO, "agent/pseudotcp.c")).read()
    m = re.search(r"#define TRANSITION\(.*?#undef TRANSITION", txt, re.S)
    if not m:
        raise Unsupported("TRANSITION whitelist not found in pseudotcp.c")
    body = m.group(0)
    if body.count("g_assert") != 1:
        raise Unsupported("pseudotcp.c TRANSITION block does not contain exactly one g_assert")
    body = body.replace("g_assert", "return")
    src = ('#include <stdio.h>\n#include "config.h"\n#include "agent/pseudotcp.h"\n'
           "static int allowed (PseudoTcpState old_state, PseudoTcpState new_state) {\n" + body +
           "\n}\nint main(void){int o,n;for(o=0;o<=PSEUDO_TCP_LAST_ACK;o++)for(n=0;n<=PSEUDO_TCP_LAST_ACK;n++)"
           'if(o!=n && allowed(o,n)) printf("%d %d\\n",o,n);return 0;}\n')
    with tempfile.TemporaryDirectory(dir=BUILD) as td:
        c = os.path.join(td, "ptr.c")
        open(c, "w").write(src)
        exe = os.path.join(td, "ptr")
        r = subprocess.run(["clang-14", "-w", "-o", exe, c] + cflags(), capture_output=True, text=True)
        if r.returncode != 0:
            raise Unsupported("pseudotcp transition stub does not compile: " + r.stderr[-800:])
        out = subprocess.check_output([exe], text=True)
    return [tuple(int(x) for x in l.split()) for l in out.splitlines()]


def states_gv():
    p = os.path.join(REPO, "docs/reference/libnice/states.gv")
    txt = open(p).read()
    edges = re.findall(r"(\w+)\s*->\s*(\w+)", txt)
    return edges


# macros translated through generated wrapper functions: (file, macro names, wrapper source)
MACRO_KERNELS = [
    ("agent/pseudotcp.c", ["LARGER", "LARGER_OR_EQUAL", "SMALLER", "SMALLER_OR_EQUAL"], [
        ("ptcp_larger", "int ptcp_larger (guint32 a, guint32 b) { return LARGER (a, b); }"),
        ("ptcp_larger_or_equal", "int ptcp_larger_or_equal (guint32 a, guint32 b) { return LARGER_OR_EQUAL (a, b); }"),
        ("ptcp_smaller", "int ptcp_smaller (guint32 a, guint32 b) { return SMALLER (a, b); }"),
        ("ptcp_smaller_or_equal", "int ptcp_smaller_or_equal (guint32 a, guint32 b) { return SMALLER_OR_EQUAL (a, b); }"),
    ]),
]


# functions over ONE struct passed by pointer and read only through `p->field`: translated with the fields as parameters
# (file, function, pointer parameter, [(field, C type)], [(other scalar parameter, C type)], Lean name, return type)
FIELD_KERNELS = [
    ("agent/agent.c", "nice_input_message_iter_get_n_valid_messages", "iter",
     [("message", "guint"), ("buffer", "guint"), ("offset", "gsize")], [], "iter_n_valid_messages", "guint"),
    ("agent/agent.c", "nice_input_message_iter_is_at_end", "iter",
     [("message", "guint"), ("buffer", "guint"), ("offset", "gsize")], [("n_messages", "guint")], "iter_is_at_end", "gboolean"),
    # pseudo-TCP ring accounting: how much is buffered / how much room is left (the quantities every window computation starts from)
    ("agent/pseudotcp.c", "pseudo_tcp_fifo_get_buffered", "b",
     [("data_length", "gsize")], [], "fifo_get_buffered", "gsize"),
    ("agent/pseudotcp.c", "pseudo_tcp_fifo_get_write_remaining", "b",
     [("buffer_length", "gsize"), ("data_length", "gsize")], [], "fifo_get_write_remaining", "gsize"),
    # the candidate type-preference switch (it reads candidate->type, candidate->transport and c->turn->type): see FIELD_SUBST
    ("agent/candidate.c", "nice_candidate_ice_type_preference", "candidate", [],
     [("cand_type", "NiceCandidateType"), ("cand_transport", "NiceCandidateTransport"), ("reliable", "gboolean"),
      ("nat_assisted", "gboolean"), ("turn_is_udp", "gboolean")], "ice_type_preference", "guint8"),
]

# textual substitutions applied to a FIELD_KERNELS body before it is checked and parsed; each pattern must match the
# current source exactly `count` times or the extraction fails closed.  They name what the body reads through a second
# pointer as a parameter (trusted: listed in the evidence of the property that uses the kernel).
FIELD_SUBST = {
    "nice_candidate_ice_type_preference": dict(
        prelude='#include <glib.h>\n#include "agent.h"\n#include "candidate-priv.h"\n',
        subst=[(r"const\s+NiceCandidateImpl\s*\*\s*c\s*=\s*\(NiceCandidateImpl\s*\*\)\s*candidate\s*;", "", 1),
               (r"\bc\s*->\s*turn\s*->\s*type\s*==\s*NICE_RELAY_TYPE_TURN_UDP", "turn_is_udp", 1),
               (r"\bcandidate\s*->\s*type\b", "cand_type", 1),
               (r"\bcandidate\s*->\s*transport\b", "cand_transport", 2)]),
}


def field_kernel_source(file, fn, ptr, fields, extra, stub, rty):
    """the function's own body, from the current source, with `ptr->field` spelled `field` and the fields (plus the other
    scalar parameters that the body uses) as parameters.  Refuses a body that uses the pointer in any other way, reads a
    field that is not listed, or assigns to one."""
    txt = open(os.path.join(REPO, file)).read()
    ft = function_text(txt, fn, file)
    body = ft[ft.index("{"):]
    body = re.sub(r"/\*.*?\*/", "", body, flags=re.S)
    fs = FIELD_SUBST.get(fn, {})
    for pat, rep, count in fs.get("subst", []):
        body, k = re.subn(pat, rep, body)
        if k != count:
            raise Unsupported(f"{fn}: pattern {pat!r} matched {k} times, expected {count}")
    used = set(re.findall(r"\b" + ptr + r"\s*->\s*(\w+)", body))
    if not used <= {f for f, _ in fields}:
        raise Unsupported(f"{fn}: reads fields {sorted(used - {f for f, _ in fields})} that are not listed")
    if re.search(r"\b" + ptr + r"\s*->\s*\w+\s*(=[^=]|\+\+|--|[-+*/|&^]=)", body):
        raise Unsupported(f"{fn}: writes through {ptr}")
    body = re.sub(r"\b" + ptr + r"\s*->\s*(\w+)", r"\1", body)
    if ptr in re.findall(r"\w+", body):
        raise Unsupported(f"{fn}: uses {ptr} other than through ->")
    return fs.get("prelude", "#include <glib.h>\n") + f"{rty} {stub} (" + ", ".join(f"{t} {f}" for f, t in fields + extra) + ")\n" + body + "\n"


def define_text(txt, n, file):
    m = re.search(r"^#\s*define\s+" + n + r"\b((?:.*\\\n)*.*)$", txt, re.M)
    if not m:
        raise Unsupported(f"#define {n} not found in {file}")
    return f"#define {n}{m.group(1)}"


def function_text(txt, name, file):
    """source text of a top-level function definition `name` (K&R-style split header allowed)"""
    m = re.search(r"^(?:static\s+)?[A-Za-z_][\w \*]*\n?" + name + r"\s*\([^)]*\)\s*\{", txt, re.M)
    if not m:
        raise Unsupported(f"function {name} not found in {file}")
    i = m.end() - 1
    depth = 0
    j = i
    while j < len(txt):
        if txt[j] == "{":
            depth += 1
        elif txt[j] == "}":
            depth -= 1
            if depth == 0:
                return txt[m.start():j + 1]
        j += 1
    raise Unsupported(f"unbalanced braces in {name}")


def write_ptcp_statics():
    """harness include: the static helpers of pseudotcp.c, copied verbatim from the current source"""
    txt = open(os.path.join(REPO, "agent/pseudotcp.c")).read()
    parts = ["/* GENERATED by tools/extract.py from agent/pseudotcp.c */"]
    for mname in ("min", "max"):
        m = re.search(r"^#\s*define\s+" + mname + r"\(.*$", txt, re.M)
        if m:
            parts.append("#ifndef " + mname + "\n" + m.group(0) + "\n#endif")
    for fn in ("bound", "time_is_between", "time_diff"):
        parts.append(function_text(txt, fn, "agent/pseudotcp.c"))
    for mac in ("LARGER", "LARGER_OR_EQUAL", "SMALLER", "SMALLER_OR_EQUAL"):
        parts.append(define_text(txt, mac, "agent/pseudotcp.c"))
    os.makedirs(os.path.join(BUILD, "gen"), exist_ok=True)
    open(os.path.join(BUILD, "gen", "ptcp_statics.inc"), "w").write("\n\n".join(parts) + "\n")


PRELUDE = '''/-
  GENERATED by tools/extract.py from /repo's working tree — do not edit.
-/
namespace Nice.Gen

set_option linter.unusedVariables false

def bswap32 (x : UInt32) : UInt32 :=
  ((x &&& (0xff : UInt32)) <<< (24 : UInt32)) ||| ((x &&& (0xff00 : UInt32)) <<< (8 : UInt32)) |||
  ((x >>> (8 : UInt32)) &&& (0xff00 : UInt32)) ||| ((x >>> (24 : UInt32)) &&& (0xff : UInt32))
/-- `memcmp (p, literal, n)`: 0 iff equal, otherwise the sign of the first difference -/
def memcmp_lit (p : Nat → UInt8) (lit : List UInt8) : Int32 :=
  let rec go (i : Nat) : List UInt8 → Int32
    | [] => 0
    | b :: bs => if p i == b then go (i + 1) bs else if p i < b then -1 else 1
  go 0 lit
def bswap16 (x : UInt16) : UInt16 :=
  ((x &&& (0xff : UInt16)) <<< (8 : UInt16)) ||| ((x >>> (8 : UInt16)) &&& (0xff : UInt16))

'''


def publish():
    """move the freshly generated files into place atomically, only when their content changed
    (a concurrent `lake build` never sees a half-written file, and unchanged files keep their mtime)"""
    for f in os.listdir(GEN):
        src, dst = os.path.join(GEN, f), os.path.join(GEN_FINAL, f)
        new = open(src).read()
        if not os.path.exists(dst) or open(dst).read() != new:
            tmp = dst + ".tmp%d" % os.getpid()
            open(tmp, "w").write(new)
            os.replace(tmp, dst)
    shutil.rmtree(GEN, ignore_errors=True)


def main():
    global GEN
    os.makedirs(GEN_FINAL, exist_ok=True)
    GEN = tempfile.mkdtemp(prefix="gen", dir=BUILD)
    try:
        return main2()
    finally:
        if os.path.isdir(GEN):
            publish()


def main2():
    os.makedirs(GEN, exist_ok=True)
    report = {"kernels": {}, "consts": 0, "tables": {}, "errors": []}
    consts = eval_consts()
    report["consts"] = len(consts)
    with open(os.path.join(GEN, "Consts.lean"), "w") as f:
        f.write("/- GENERATED by tools/extract.py — constants evaluated by a compiled stub -/\nnamespace Nice.Gen\n\n")
        for n, v in consts.items():
            f.write(f"def {n} : Nat := {v}\n")
        f.write("\nend Nice.Gen\n")
    known = {}
    out = [PRELUDE]
    for file, fn in KERNELS:
        path = os.path.join(REPO, file)
        try:
            d = ast_of(path, fn)
            F = Fn(d, known, consts, file)
            out.append(F.emit())
            known[fn] = list(F.members)
            h = hashlib.sha256(json.dumps(d, sort_keys=True).encode()).hexdigest()[:12]
            report["kernels"][fn] = {"file": file, "ast_hash": h}
        except Unsupported as e:
            report["errors"].append(f"{file}:{fn}: {e}")
    for file, macros, wrappers in MACRO_KERNELS:
        try:
            txt = open(os.path.join(REPO, file)).read()
            src = "#include <glib.h>\n" + "\n".join(define_text(txt, m, file) for m in macros) + "\n" + \
                "\n".join(w for _, w in wrappers) + "\n"
            with tempfile.TemporaryDirectory(dir=BUILD) as td:
                c = os.path.join(td, "macros.c")
                open(c, "w").write(src)
                for fn, _ in wrappers:
                    d = ast_of(c, fn)
                    F = Fn(d, known, consts, file + " (macro)")
                    out.append(F.emit())
                    known[fn] = []
                    report["kernels"][fn] = {"file": file, "ast_hash":
                                             hashlib.sha256(json.dumps(d["inner"][-1], sort_keys=True).encode()).hexdigest()[:12]}
        except Unsupported as e:
            report["errors"].append(f"{file}: macros: {e}")
    for file, fn, ptr, fields, extra, stub, rty in FIELD_KERNELS:
        try:
            src = field_kernel_source(file, fn, ptr, fields, extra, stub, rty)
            with tempfile.TemporaryDirectory(dir=BUILD) as td:
                c = os.path.join(td, "fields.c")
                open(c, "w").write(src)
                d = ast_of(c, stub)
                F = Fn(d, known, consts, f"{file} {fn} (fields of *{ptr} as parameters)")
                out.append(F.emit())
                known[stub] = []
                report["kernels"][stub] = {"file": file, "function": fn, "ast_hash":
                                           hashlib.sha256(json.dumps(d["inner"][-1], sort_keys=True).encode()).hexdigest()[:12]}
        except Unsupported as e:
            report["errors"].append(f"{file}:{fn}: {e}")
    try:
        write_ptcp_statics()
    except Unsupported as e:
        report["errors"].append(str(e))
    try:
        import extract_ctl
        dpath = os.path.join(REPO, "agent/discovery.c")
        d = ast_of(dpath, "priv_discovery_tick_unlocked")
        txt, info = extract_ctl.translate_tick(d, open(dpath).read(), consts, Unsupported)
        open(os.path.join(GEN, "DiscoveryTick.lean"), "w").write(txt)
        report["kernels"]["priv_discovery_tick_unlocked(skeleton)"] = {"file": "agent/discovery.c", "oracle_sites": info["oracle_sites"]}
    except Unsupported as e:
        report["errors"].append(f"agent/discovery.c:priv_discovery_tick_unlocked: {e}")
    try:
        import extract_ctl
        d1 = ast_of(os.path.join(REPO, "agent/conncheck.c"), "conn_check_update_selected_pair")
        g = extract_ctl.translate_guard(d1, "pair->priority", "component->selected_pair.priority", "selected_pair_replaces", Unsupported)
        d2 = ast_of(os.path.join(REPO, "agent/agent.c"), "agent_candidate_pair_priority")
        f2 = extract_ctl.translate_pair_priority_dispatch(d2, Unsupported)
        with open(os.path.join(GEN, "Select.lean"), "w") as f:
            f.write("/- GENERATED by tools/extract_ctl.py — do not edit.\n"
                    "   selected_pair_replaces: the guard of agent/conncheck.c conn_check_update_selected_pair\n"
                    "   (a = pair->priority, b = component->selected_pair.priority);\n"
                    "   agent_candidate_pair_priority: agent/agent.c, the role-dependent argument order -/\n"
                    "import Nice.Gen.Kernels\nnamespace Nice.Gen\n\n" + g + "\n\n" + f2 + "\n\nend Nice.Gen\n")
        report["kernels"]["conn_check_update_selected_pair(guard)"] = {"file": "agent/conncheck.c"}
        report["kernels"]["agent_candidate_pair_priority"] = {"file": "agent/agent.c"}
    except Unsupported as e:
        report["errors"].append(f"selection kernel: {e}")
    try:
        import extract_flow
        sp = extract_flow.SPEC_INBOUND
        fpath = os.path.join(REPO, sp["file"])
        d = ast_of(fpath, sp["fn"])
        txt, info = extract_flow.translate(sp, d, open(fpath, "rb").read(), consts, Unsupported, REPO)
        open(os.path.join(GEN, "InboundStun.lean"), "w").write(txt)
        report["kernels"][sp["fn"] + "(flow skeleton)"] = dict(info, file=sp["file"])
    except Unsupported as e:
        report["errors"].append(f"agent/conncheck.c:conn_check_handle_inbound_stun: {e}")
    try:
        import extract_flow
        sp = extract_flow.SPEC_RECV
        fpath = os.path.join(REPO, sp["file"])
        d = ast_of(fpath, sp["fn"])
        txt, info = extract_flow.translate_recv(sp, d, open(fpath, "rb").read(), consts, Unsupported, REPO)
        open(os.path.join(GEN, "RecvMessage.lean"), "w").write(txt)
        report["kernels"][sp["fn"] + "(flow skeleton)"] = dict(info, file=sp["file"])
    except Unsupported as e:
        report["errors"].append(f"agent/agent.c:agent_recv_message_unlocked: {e}")
    try:
        import extract_flow
        sp = extract_flow.SPEC_SEND
        fpath = os.path.join(REPO, sp["file"])
        d = ast_of(fpath, sp["fn"])
        txt, info = extract_flow.translate_send(sp, d, open(fpath, "rb").read(), consts, Unsupported, REPO)
        open(os.path.join(GEN, "SendMessages.lean"), "w").write(txt)
        report["kernels"][sp["fn"] + "(flow skeleton)"] = dict(info, file=sp["file"])
    except Unsupported as e:
        report["errors"].append(f"agent/agent.c:nice_agent_send_messages_nonblocking_internal: {e}")
    try:
        import extract_flow
        sp = extract_flow.SPEC_TICK
        fpath = os.path.join(REPO, sp["file"])
        d = ast_of(fpath, sp["fn"])
        txt, info = extract_flow.translate_tick_flow(sp, d, open(fpath, "rb").read(), consts, Unsupported, REPO)
        open(os.path.join(GEN, "ConnCheckTick.lean"), "w").write(txt)
        report["kernels"][sp["fn"] + "(flow skeleton)"] = dict(info, file=sp["file"])
    except Unsupported as e:
        report["errors"].append(f"agent/conncheck.c:priv_conn_check_tick_agent_locked: {e}")
    try:
        import extract_flow
        sp = extract_flow.SPEC_RELAY
        fpath = os.path.join(REPO, sp["file"])
        d = ast_of(fpath, sp["fn"])
        txt, info = extract_flow.translate_relay(sp, d, open(fpath, "rb").read(), consts, Unsupported, REPO)
        open(os.path.join(GEN, "RelayReply.lean"), "w").write(txt)
        report["kernels"][sp["fn"] + "(flow skeleton)"] = dict(info, file=sp["file"])
    except Unsupported as e:
        report["errors"].append(f"agent/conncheck.c:priv_map_reply_to_relay_request: {e}")
    try:
        import extract_flow
        fpath = os.path.join(REPO, "stun/usages/ice.c")
        d = ast_of(fpath, "stun_usage_ice_conncheck_create_reply")
        open(os.path.join(GEN, "RoleConflict.lean"), "w").write(extract_flow.translate_role_guard(d, open(fpath, "rb").read(), Unsupported))
        report["kernels"]["stun_usage_ice_conncheck_create_reply(role guard)"] = {"file": "stun/usages/ice.c"}
    except Unsupported as e:
        report["errors"].append(f"stun/usages/ice.c:role guard: {e}")
    try:
        import extract_flow
        sp = extract_flow.SPEC_TURNSEND
        fpath = os.path.join(REPO, sp["file"])
        d = ast_of(fpath, sp["fn"])
        txt, info = extract_flow.translate_turnsend(sp, d, open(fpath, "rb").read(), consts, Unsupported, REPO)
        open(os.path.join(GEN, "TurnSend.lean"), "w").write(txt)
        report["kernels"][sp["fn"] + "(flow skeleton)"] = dict(info, file=sp["file"])
    except Unsupported as e:
        report["errors"].append(f"socket/udp-turn.c:socket_send_message: {e}")
    try:
        import extract_flow
        for sp, body, fname in ((extract_flow.SPEC_CREDS, False, "InitCredentials.lean"), (extract_flow.SPEC_RESTART, True, "StreamRestart.lean")):
            fpath = os.path.join(REPO, sp["file"])
            d = ast_of(fpath, sp["fn"])
            txt, info = extract_flow.translate_oblige(sp, d, open(fpath, "rb").read(), consts, Unsupported, REPO, with_loop_body=body)
            open(os.path.join(GEN, fname), "w").write(txt)
            report["kernels"][sp["fn"] + "(obligation skeleton)"] = dict(info, file=sp["file"])
    except Unsupported as e:
        report["errors"].append(f"agent/stream.c: restart obligations: {e}")
    try:
        import extract_flow
        sp = extract_flow.SPEC_RMSTREAM
        fpath = os.path.join(REPO, sp["file"])
        d = ast_of(fpath, sp["fn"])
        txt, info = extract_flow.translate_rmstream(sp, d, open(fpath, "rb").read(), consts, Unsupported, REPO)
        open(os.path.join(GEN, "RemoveStream.lean"), "w").write(txt)
        report["kernels"][sp["fn"] + "(flow skeleton)"] = dict(info, file=sp["file"])
    except Unsupported as e:
        report["errors"].append(f"agent/agent.c:nice_agent_remove_stream: {e}")
    try:
        import extract_flow
        sp = extract_flow.SPEC_GATHERDONE
        fpath = os.path.join(REPO, sp["file"])
        d = ast_of(fpath, sp["fn"])
        txt, info = extract_flow.translate_simple(sp, d, open(fpath, "rb").read(), consts, Unsupported, REPO)
        open(os.path.join(GEN, "GatheringDone.lean"), "w").write(txt)
        report["kernels"][sp["fn"] + "(flow skeleton)"] = dict(info, file=sp["file"])
    except Unsupported as e:
        report["errors"].append(f"agent/agent.c:agent_gathering_done: {e}")
    out.append("end Nice.Gen\n")
    open(os.path.join(GEN, "Kernels.lean"), "w").write("\n".join(out))
    with open(os.path.join(GEN, "Tables.lean"), "w") as f:
        f.write("/- GENERATED by tools/extract.py — tables printed by a compiled stub / parsed from source -/\nnamespace Nice.Gen\n\n")
        for file, name, lty in TABLES:
            try:
                vals = eval_table(file, name)
                f.write(f"def {name} : List {lty} := [\n  " +
                        ",\n  ".join(", ".join(str(v) for v in vals[i:i + 8]) for i in range(0, len(vals), 8)) + "]\n\n")
                report["tables"][name] = len(vals)
            except Unsupported as e:
                report["errors"].append(str(e))
        try:
            tr = transitions()
            sn = lambda s: consts["NICE_COMPONENT_STATE_" + s]
            f.write("/-- (old,new) pairs allowed by agent_signal_component_state_change -/\n")
            f.write("def stateTransitions : List (Nat × Nat) := [\n  " +
                    ", ".join(f"({a}, {b})" for a, b in tr) + "]\n\n")
            report["tables"]["stateTransitions"] = len(tr)
            ed = states_gv()
            names = {"DISCONNECTED", "GATHERING", "CONNECTING", "CONNECTED", "READY", "FAILED"}
            ed = [(a, b) for a, b in ed if a in names and b in names]
            f.write("/-- edges of docs/reference/libnice/states.gv -/\n")
            f.write("def documentedEdges : List (Nat × Nat) := [\n  " +
                    ", ".join(f"({sn(a)}, {sn(b)})" for a, b in ed) + "]\n\n")
            report["tables"]["documentedEdges"] = len(ed)
        except (Unsupported, KeyError) as e:
            report["errors"].append("transitions: %s" % e)
        try:
            ptr = ptcp_transitions()
            f.write("/-- (old,new) PseudoTcpState pairs allowed by pseudotcp.c set_state -/\n")
            f.write("def ptcpTransitions : List (Nat × Nat) := [\n  " +
                    ", ".join(f"({a}, {b})" for a, b in ptr) + "]\n\n")
            report["tables"]["ptcpTransitions"] = len(ptr)
        except Unsupported as e:
            report["errors"].append("ptcp transitions: %s" % e)
        try:
            extract_stun.write_tables(f, report, sys.modules[__name__])
        except Unsupported as e:
            report["errors"].append("stun tables: %s" % e)
        try:
            txt = open(os.path.join(REPO, "random/random.c")).read()
            m = re.search(r"const\s+gchar\s*\*\s*chars\s*=\s*((?:\s*\"[^\"]*\")+)\s*;", txt)
            if not m:
                raise Unsupported("alphabet of nice_rng_generate_bytes_print not found in random/random.c")
            alpha = "".join(re.findall(r"\"([^\"]*)\"", m.group(1)))
            if "\\" in alpha:
                raise Unsupported("escape sequence in the credential alphabet")
            f.write("/-- alphabet of nice_rng_generate_bytes_print (random/random.c) -/\n")
            f.write(f"def rng_print_chars : String := \"{alpha}\"\n\n")
            report["tables"]["rng_print_chars"] = len(alpha)
        except Unsupported as e:
            report["errors"].append(str(e))
        f.write("end Nice.Gen\n")
    json.dump(report, open(os.path.join(BUILD, "extract_report.json"), "w"), indent=1)
    if report["errors"]:
        for e in report["errors"]:
            print("EXTRACT-ERROR", e)
        return 2
    print("extract ok: %d consts, %d kernels, %d tables" %
          (len(consts), len(report["kernels"]), len(report["tables"])))
    return 0


if __name__ == "__main__":
    sys.exit(main())
