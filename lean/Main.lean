import Nice.Drv.Timer
import Nice.Drv.Kern
import Nice.Drv.PTcp
import Nice.Drv.Prio
import Nice.Drv.Role
import Nice.Drv.CState
import Nice.Drv.Copy
import Nice.Drv.Addr
import Nice.Drv.Stun
import Nice.Drv.Sock
import Nice.Drv.Lifecycle
import Nice.Drv.Gather
open Nice.Drv

structure St where
  ptcp : PTcpSt := {}
  stun : StunSt := {}
  timer : Nice.Timer.Timer := { dlSec := 0, dlUsec := 0, delay := 0, retrans := 0, maxRetrans := 0 }
  prio : PrioSt := {}
  addr : AddrSt := {}
  sock : SockSt := {}

def step (s : St) (line : String) : St × String :=
  match words line with
  | "timer" :: ws => let (t, o) := timerStep s.timer ws; ({ s with timer := t }, o)
  | ["reset"] => ({}, "reset")
  | "ptcp" :: ws => let p := s.ptcp; let s := { s with ptcp := {} }; let (t, o) := ptcpStep p ws; ({ s with ptcp := t }, o)
  | "stun" :: ws => let (t, o) := stunStep s.stun ws; ({ s with stun := t }, o)
  | "sock" :: ws => let k := s.sock; let s := { s with sock := {} }; let (t, o) := sockStep k ws; ({ s with sock := t }, o)
  | "k" :: ws => (s, kernStep ws)
  | "prio" :: ws => (s, prioStep ws)
  | "role" :: ws => (s, roleStep ws)
  | "cstate" :: ws => (s, cstateStep ws)
  | "copy" :: ws => (s, copyStep ws)
  | "plist" :: ws => let (p, o) := plistStep s.prio ws; ({ s with prio := p }, o)
  | "addr" :: ws => (s, addrStep ws)
  | "lc" :: ws => (s, lcStep ws)
  | "gather" :: ws => (s, gatherStep ws)
  | "sdp" :: ws => let (t, o) := sdpStep s.addr ws; ({ s with addr := t }, o)
  | _ => (s, "bad-op")

partial def loop (h : IO.FS.Stream) (out : IO.FS.Stream) (s : St) : IO Unit := do
  let line ← h.getLine
  if line.isEmpty then return ()
  if line.trimAscii.toString.isEmpty || line.startsWith "#" then
    loop h out s
  else
    let (s', o) := step s line
    out.putStrLn o
    loop h out s'

def main : IO Unit := do
  let out ← IO.getStdout
  loop (← IO.getStdin) out {}
  out.flush
