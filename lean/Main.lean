import Nice.Drv.Timer
import Nice.Drv.Kern
import Nice.Drv.Prio
open Nice.Drv

structure St where
  timer : Nice.Timer.Timer := { dlSec := 0, dlUsec := 0, delay := 0, retrans := 0, maxRetrans := 0 }
  prio : PrioSt := {}

def step (s : St) (line : String) : St × String :=
  match words line with
  | "timer" :: ws => let (t, o) := timerStep s.timer ws; ({ s with timer := t }, o)
  | ["reset"] => ({}, "reset")
  | "k" :: ws => (s, kernStep ws)
  | "prio" :: ws => (s, prioStep ws)
  | "plist" :: ws => let (p, o) := plistStep s.prio ws; ({ s with prio := p }, o)
  | _ => (s, "bad-op")

partial def loop (h : IO.FS.Stream) (out : IO.FS.Stream) (s : St) : IO Unit := do
  let line ← h.getLine
  if line.isEmpty then return ()
  if line.trimAscii.toString.isEmpty || line.startsWith "#" then
    loop h out s
  else
    let (s', o) := step s line
    out.putStrLn o
    loop h out s'

def main : IO Unit := do
  let out ← IO.getStdout
  loop (← IO.getStdin) out {}
  out.flush
