import Nice.Gen.Consts
import Nice.Gen.Tables
import Nice.Gen.Kernels
import Nice.Model.Timer
