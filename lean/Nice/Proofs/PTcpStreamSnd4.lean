/-
  C08 end-to-end (send side), part 4: option parsing, the connect message, `process`, `notify_packet` and the other
  public operations; the ghost stream grows only by the connect message (queued once, in LISTEN) and by what `send`
  accepts.
-/
import Nice.Proofs.PTcpStreamSnd3
namespace Nice.Proofs.PTcpStream
open Nice.PTcp Nice.Gen Nice.Proofs.PTcp Std.Do

set_option mvcgen.warning false
set_option maxRecDepth 16000
set_option linter.unusedSimpArgs false

/-- `processBody` after the bookkeeping of the arrival time -/
def processBody0 (s : Sock) (now : UInt32) (seg : Segment) (p : Array UInt8) (clk : UInt32) : R (Bool × Sock) :=
  if s.state = .closed || (hasReceivedFinAck s.state && seg.len > 0) then
    if (seg.flags &&& cFLAG_RST) == 0 then do
      let s ← closedown s .none .loc clk
      pure (false, s)
    else pure (false, s)
  else if (seg.flags &&& cFLAG_RST) != 0 then do
    let s ← closedown s .ECONNRESET .remote clk
    pure (false, s)
  else if (seg.flags &&& cFLAG_CTL) != 0 then
    if seg.len == 0 then pure (false, s)
    else do
      let c ← rd p seg.dataOff
      if c.toNat = CTL_CONNECT then do
        let s ← (if s.state = .listen || s.state = .synSent then
            parseOptions s p (seg.dataOff + 1) (seg.len - 1).toNat else pure s : R Sock)
        let s ← (if s.state = .listen then do
            let s ← setState s .synReceived
            queueConnectMessage s
          else if s.state = .synSent then setStateEstablished s
          else pure s : R Sock)
        processAck s seg p true now clk
      else pure (false, s)
  else processAck s seg p false now clk

theorem processBody_eq0 (s : Sock) (seg : Segment) (p : Array UInt8) (clk : UInt32) :
    processBody s seg p clk =
      processBody0 { s with last_traffic := getCurrentTime s clk, lastrecv := getCurrentTime s clk, bOutgoing := false }
        (getCurrentTime s clk) seg p clk := rfl

section
variable (Q : List UInt8)

/-- frame + state: the function keeps the invariant and the state -/
def SKeep (Q : List UInt8) (st : TcpState) (s : Sock) : Prop := SInvE Q s ∧ s.state = st

macro "skeep" : tactic => `(tactic| (
  first
  | assumption
  | (have hk := ‹SKeep _ _ _›
     exact ⟨by (have hh := hk.1; sinv), hk.2⟩)
  | skip))

theorem setCapacity_tspec (b : Fifo) (k : Nat) : ⦃⌜True⌝⦄ b.setCapacity k ⦃⇓? _ => ⌜True⌝⦄ := triv_spec _

theorem resizeReceiveBuffer_sspec (st : TcpState) (s : Sock) (v : UInt32) :
    ⦃⌜SKeep Q st s⌝⦄ resizeReceiveBuffer s v ⦃⇓? s' => ⌜SKeep Q st s'⌝⦄ := by
  mvcgen [resizeReceiveBuffer, setCapacity_tspec] <;> skeep

theorem applyOption_sspec (st : TcpState) (s : Sock) (k : UInt8) (p : Array UInt8) (off len : Nat) :
    ⦃⌜SKeep Q st s⌝⦄ applyOption s k p off len ⦃⇓? s' => ⌜SKeep Q st s'⌝⦄ := by
  mvcgen [applyOption, rd_spec] <;> skeep

theorem parseOptionsLoop_sspec (st : TcpState) (s : Sock) (p : Array UInt8) (base len pos : Nat) (w f : Bool) :
    ⦃⌜SKeep Q st s⌝⦄ parseOptionsLoop s p base len pos w f ⦃⇓? r => ⌜SKeep Q st r.1⌝⦄ := by
  induction h : len - pos using Nat.strongRecOn generalizing s pos w f with
  | _ n ih =>
    unfold parseOptionsLoop
    have h1 := applyOption_sspec Q st
    mvcgen [rd_spec, h1] <;> skeep
    · rename_i hlt _ hi _ _ _ _
      exact ih _ (by omega) s _ w f rfl hi
    · intro hi
      exact ih _ (by omega) _ _ _ _ rfl hi

theorem parseOptions_sspec (st : TcpState) (s : Sock) (p : Array UInt8) (base len : Nat) :
    ⦃⌜SKeep Q st s⌝⦄ parseOptions s p base len ⦃⇓? s' => ⌜SKeep Q st s'⌝⦄ := by
  have h1 := parseOptionsLoop_sspec Q st
  have h2 := resizeReceiveBuffer_sspec Q st
  mvcgen [parseOptions, h1, h2] <;> skeep

theorem sinvE_nil {s : Sock} (hi : SInvE Q s) : SInvE (Q ++ []) s := by rw [List.append_nil]; exact hi

theorem queueConnectMessage_sinv (s s' : Sock) (hi : SInvE Q s) (hst : hasSentFin s.state = false ∧ s.state ≠ .listen)
    (h : queueConnectMessage s = .ok s') : ∃ X, SInvE (Q ++ X) s' ∧ s'.state = s.state := by
  unfold queueConnectMessage at h
  simp only at h
  obtain ⟨⟨w, s1⟩, hq, h⟩ := bind_ok h
  simp only [pure, Except.pure] at h
  cases h
  obtain ⟨a, f, hi⟩ := hi
  have ⟨k1, _, k3⟩ := queue_sinv Q (a := a) (f := f) _ _ _ _ _
    (by exact ⟨hi.fok, hi.len, hi.com, hi.una, hi.fz, hi.lq, hi.out⟩) (by exact Or.inl hst) hq
  exact ⟨_, ⟨a, f, k1⟩, k3⟩

theorem processFin_sspec (seg : Segment) (p : Array UInt8) (clk : UInt32) (s : Sock) (bc fa : Bool) :
    ⦃⌜SInvE Q s⌝⦄ processFin s seg p bc fa clk ⦃⇓? r => ⌜SInvE Q r.2⌝⦄ :=
  to_triple fun hi r h => processFin_sinv Q s seg p bc fa clk r hi h

/-- **`process`** (after the conversation check): the stream grows only when the connect message is queued, which
    happens in LISTEN only -/
theorem processBody_sinv (s : Sock) (seg : Segment) (p : Array UInt8) (clk : UInt32) (r : Bool × Sock)
    (hi : SInvE Q s) (h : processBody s seg p clk = .ok r) :
    ∃ X, SInvE (Q ++ X) r.2 ∧ (X = [] ∨ s.state = .listen) := by
  have hpa : ∀ (Q' : List UInt8) (s1 : Sock) (bc : Bool) (now : UInt32) (r : Bool × Sock), SInvE Q' s1 →
      processAck s1 seg p bc now clk = .ok r → SInvE Q' r.2 :=
    fun Q' s1 bc now r h1 h2 =>
      of_triple_pre (processAck_sspec Q' seg p clk (processFin_sspec Q' seg p clk) s1 bc now) h1 r h2
  rw [processBody_eq0] at h
  have hi0 : SInvE Q { s with last_traffic := getCurrentTime s clk, lastrecv := getCurrentTime s clk, bOutgoing := false } := by
    sinv
  have est : ({ s with last_traffic := getCurrentTime s clk, lastrecv := getCurrentTime s clk, bOutgoing := false } : Sock).state = s.state := rfl
  generalize ({ s with last_traffic := getCurrentTime s clk, lastrecv := getCurrentTime s clk, bOutgoing := false } : Sock) = s0 at h hi0 est
  unfold processBody0 at h
  split at h
  · split at h
    · obtain ⟨s1, h1, h⟩ := bind_ok h
      simp only [pure, Except.pure] at h; cases h
      exact ⟨[], sinvE_nil Q (of_triple_pre (closedown_sspec Q s0 _ _ clk) hi0 s1 h1), Or.inl rfl⟩
    · simp only [pure, Except.pure] at h; cases h
      exact ⟨[], sinvE_nil Q hi0, Or.inl rfl⟩
  · split at h
    · obtain ⟨s1, h1, h⟩ := bind_ok h
      simp only [pure, Except.pure] at h; cases h
      exact ⟨[], sinvE_nil Q (of_triple_pre (closedown_sspec Q s0 _ _ clk) hi0 s1 h1), Or.inl rfl⟩
    · split at h
      · split at h
        · simp only [pure, Except.pure] at h; cases h
          exact ⟨[], sinvE_nil Q hi0, Or.inl rfl⟩
        · obtain ⟨c, _, h⟩ := bind_ok h
          split at h
          · obtain ⟨s1, h1, h⟩ := bind_ok h
            obtain ⟨s2, h2, h⟩ := bind_ok h
            -- option negotiation keeps everything
            have k1 : SKeep Q s0.state s1 := by
              split at h1
              · exact of_triple_pre (parseOptions_sspec Q s0.state s0 p _ _) ⟨hi0, rfl⟩ s1 h1
              · cases h1; exact ⟨hi0, rfl⟩
            split at h2
            · rename_i hl
              obtain ⟨s3, h3, h2⟩ := bind_ok h2
              have k3 : SInvE Q s3 := by
                rw [setState_eq h3]
                exact sinvE_state Q _ k1.1 (fun e => by cases e) (fun e => by rw [hl] at e; cases e)
              have e3 : s3.state = .synReceived := by rw [setState_eq h3]
              obtain ⟨X, k4, _⟩ := queueConnectMessage_sinv Q s3 s2 k3
                (by rw [e3]; exact ⟨rfl, by decide⟩) h2
              exact ⟨X, hpa _ s2 true _ r k4 h, Or.inr (by rw [← est, ← k1.2]; exact hl)⟩
            · split at h2
              · rename_i hl
                have k3 := setStateEstablished_sinv Q s1 s2 k1.1 (by rw [hl]; rfl) h2
                exact ⟨[], sinvE_nil Q (hpa _ s2 true _ r k3 h), Or.inl rfl⟩
              · cases h2
                exact ⟨[], sinvE_nil Q (hpa _ s1 true _ r k1.1 h), Or.inl rfl⟩
          · simp only [pure, Except.pure] at h; cases h
            exact ⟨[], sinvE_nil Q hi0, Or.inl rfl⟩
      · exact ⟨[], sinvE_nil Q (hpa _ s0 false _ r hi0 h), Or.inl rfl⟩

theorem notifyPacket_sinv (s : Sock) (p : Array UInt8) (clk : UInt32) (r : Bool × Sock)
    (hi : SInvE Q s) (h : notifyPacket s p clk = .ok r) :
    ∃ X, SInvE (Q ++ X) r.2 ∧ (X = [] ∨ s.state = .listen) := by
  unfold notifyPacket at h
  split at h
  · cases h; exact ⟨[], sinvE_nil Q (by sinv), Or.inl rfl⟩
  · split at h
    · cases h; exact ⟨[], sinvE_nil Q (by sinv), Or.inl rfl⟩
    · rw [parse_eq] at h
      obtain ⟨seg, _, h⟩ := bind_ok h
      unfold process at h
      split at h
      · cases h; exact ⟨[], sinvE_nil Q hi, Or.inl rfl⟩
      · exact processBody_sinv Q s seg p clk r hi h

end

end Nice.Proofs.PTcpStream
