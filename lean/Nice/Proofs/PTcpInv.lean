/-
  Helper lemmas for the pseudo-TCP properties (C08/C09/C10): the basic invariant `Inv0` and its preservation by every
  function of `Nice.PTcp`, proved as Hoare triples (Std.Do, partial correctness: `⇓?` = "if the call does not fault").
-/
import Nice.Model.PTcp
import Std.Do
import Std.Tactic.Do
namespace Nice.Proofs.PTcp
open Nice.PTcp Nice.Gen Std.Do

set_option mvcgen.warning false
set_option maxRecDepth 16000
set_option linter.unusedSimpArgs false

/-- from a may-throw triple to a plain statement about successful runs -/
theorem of_triple {ε α} {x : Except ε α} {Q : α → Prop} (h : ⦃⌜True⌝⦄ x ⦃⇓? a => ⌜Q a⌝⦄) :
    ∀ a, x = .ok a → Q a := by
  intro a hx
  subst hx
  have h2 : ⦃⌜True⌝⦄ (pure a : Except ε α) ⦃⇓? a => ⌜Q a⌝⦄ := h
  simp only [Triple, WP.pure] at h2
  simpa using h2

/-! ### fifo -/

/-- piece 1 of the invariant (DESIGN 5a): `data_length <= buffer_length`, `read_position < buffer_length` -/
def FifoOk (b : Fifo) : Prop := b.data ≤ b.buf.size ∧ b.rpos < b.buf.size

theorem gsub_of_le {a b : Nat} (h : b ≤ a) (ha : a < 2 ^ 64) : gsub a b = a - b := by
  unfold gsub
  have hb : b % 2 ^ 64 = b := Nat.mod_eq_of_lt (by omega)
  rw [hb]
  omega

theorem blit_size (src : Array UInt8) (so : Nat) (dst : Array UInt8) (d0 n : Nat) :
    (Fifo.blit src so dst d0 n).size = dst.size := by
  induction n generalizing so dst d0 with
  | zero => rfl
  | succ n ih => simp [Fifo.blit, ih]

theorem memcpy_size {site dst d0 src s0 n r} (h : Fifo.memcpy site dst d0 src s0 n = .ok r) : r.size = dst.size := by
  unfold Fifo.memcpy at h
  simp only [fault] at h
  split at h
  · cases h; rfl
  · split at h
    · cases h; exact blit_size ..
    · cases h

theorem fifo_init_ok (n : Nat) (h : 0 < n) : FifoOk (Fifo.init n) := by
  simp [FifoOk, Fifo.init, h]

theorem consumeReadData_ok {b b' : Fifo} {n : Nat} (hb : FifoOk b) (h : b.consumeReadData n = .ok b') :
    FifoOk b' ∧ b'.buf = b.buf ∧ b'.data = b.data - n ∧ n ≤ b.data := by
  unfold Fifo.consumeReadData at h
  simp only [fault] at h
  split at h
  · cases h
  · split at h
    · cases h
    · cases h
      rename_i h1 h2
      refine ⟨⟨?_, ?_⟩, rfl, rfl, by omega⟩
      · have := hb.1; simp only; omega
      · simp only [Fifo.cap] at h2 ⊢; exact Nat.mod_lt _ (by omega)

theorem consumeWriteBuffer_ok {b b' : Fifo} {n : Nat} (hb : FifoOk b) (hc : b.buf.size < 2 ^ 64)
    (h : b.consumeWriteBuffer n = .ok b') :
    FifoOk b' ∧ b'.buf = b.buf ∧ b'.data = b.data + n := by
  unfold Fifo.consumeWriteBuffer at h
  simp only [fault] at h
  split at h
  · cases h
  · cases h
    rename_i h1
    rw [Fifo.cap, gsub_of_le hb.1 hc] at h1
    refine ⟨⟨?_, hb.2⟩, rfl, rfl⟩
    have := hb.1
    simp only; omega

theorem writeOffset_ok {b b' : Fifo} {src so n off c} (hb : FifoOk b) (h : b.writeOffset src so n off = .ok (c, b')) :
    FifoOk b' ∧ b'.buf.size = b.buf.size ∧ b'.data = b.data ∧ b'.rpos = b.rpos := by
  unfold Fifo.writeOffset at h
  simp only [fault] at h
  split at h
  · cases h
  · try simp only at h
    split at h
    · cases h; exact ⟨hb, rfl, rfl, rfl⟩
    · simp only [bind, Except.bind] at h
      split at h
      · cases h
      · rename_i buf1 h1
        split at h
        · cases h
        · rename_i buf2 h2
          cases h
          have s1 := memcpy_size h1
          have s2 := memcpy_size h2
          refine ⟨⟨?_, ?_⟩, ?_, rfl, rfl⟩
          · simp only; rw [s2, s1]; exact hb.1
          · simp only; rw [s2, s1]; exact hb.2
          · simp only; rw [s2, s1]

theorem write_ok {b b' : Fifo} {src n c} (hb : FifoOk b) (hc : b.buf.size < 2 ^ 64) (h : b.write src n = .ok (c, b')) :
    FifoOk b' ∧ b'.buf.size = b.buf.size := by
  unfold Fifo.write at h
  simp only [bind, Except.bind] at h
  split at h
  · cases h
  · rename_i v hv
    obtain ⟨c1, b1⟩ := v
    simp only [pure, Except.pure] at h
    cases h
    have ⟨ok1, sz, dt, rp⟩ := writeOffset_ok hb hv
    -- copy = min bytes available, available = cap - data
    unfold Fifo.writeOffset at hv
    simp only [fault] at hv
    split at hv
    · cases hv
    · try simp only at hv
      split at hv
      · cases hv
        refine ⟨⟨?_, hb.2⟩, rfl⟩
        simp only [Nat.add_zero]; exact hb.1
      · simp only [bind, Except.bind] at hv
        split at hv
        · cases hv
        · split at hv
          · cases hv
          · cases hv
            refine ⟨⟨?_, ?_⟩, ?_⟩
            · simp only
              rw [sz]
              have := hb.1
              rw [Fifo.cap, gsub_of_le hb.1 hc]
              simp only [gsub, Nat.zero_mod, Nat.sub_zero]
              have : (b.buf.size - b.data + 2 ^ 64) % 2 ^ 64 = b.buf.size - b.data := by omega
              rw [this]; omega
            · simp only; rw [sz]; exact hb.2
            · simp only; exact sz

theorem readOffset_size {b : Fifo} {n off cap o} (hb : FifoOk b) (hc : b.buf.size < 2 ^ 64)
    (h : b.readOffset n off cap = .ok o) :
    o.size ≤ n ∧ o.size ≤ b.data - off := by
  unfold Fifo.readOffset at h
  simp only [fault] at h
  have hd := hb.1
  by_cases h0 : b.cap = 0
  · simp [h0] at h
  · simp only [h0, if_false] at h
    by_cases h1 : off ≥ b.data
    · simp only [h1, if_true] at h; cases h; simp
    · simp only [h1, if_false] at h
      have hg : gsub b.data off = b.data - off := by
        unfold gsub
        have : off % 2 ^ 64 = off := Nat.mod_eq_of_lt (by omega)
        rw [this]; omega
      rw [hg] at h
      split at h
      · cases h
      · split at h
        · cases h
          simp only [Array.size_append, Array.size_extract]
          omega
        · cases h

theorem read_ok {b b' : Fifo} {n out} (hb : FifoOk b) (hc : b.buf.size < 2 ^ 64) (h : b.read n = .ok (out, b')) :
    FifoOk b' ∧ b'.buf = b.buf ∧ out.size ≤ n := by
  unfold Fifo.read at h
  simp only [fault] at h
  cases hro : b.readOffset n 0 n with
  | error e => simp [hro, bind, Except.bind] at h
  | ok o =>
    simp only [hro, bind, Except.bind, pure, Except.pure] at h
    cases h
    have ⟨hs1, hs2⟩ := readOffset_size hb hc hro
    have hd := hb.1
    have hr := hb.2
    refine ⟨⟨?_, ?_⟩, rfl, hs1⟩
    · simp only
      rw [gsub_of_le (by omega) (by omega)]; omega
    · simp only [Fifo.cap]
      exact Nat.mod_lt _ (by omega)

theorem setCapacity_ok {b b' : Fifo} {n r} (hb : FifoOk b) (h : b.setCapacity n = .ok (r, b')) :
    FifoOk b' ∧ (b' = b ∨ (r = true ∧ b'.buf.size = n ∧ b'.data = b.data)) := by
  unfold Fifo.setCapacity at h
  simp only [fault] at h
  by_cases h1 : b.data > n
  · simp only [h1, if_true, pure, Except.pure] at h; cases h; exact ⟨hb, Or.inl rfl⟩
  · simp only [h1, if_false] at h
    by_cases h2 : (n != b.data) = true
    · simp only [h2, if_true] at h
      have hne : n ≠ b.data := by simpa using h2
      simp only [bind, Except.bind] at h
      split at h
      · cases h
      · rename_i b1 hb1
        split at h
        · cases h
        · rename_i b2 hb2
          simp only [pure, Except.pure] at h
          cases h
          have s1 := memcpy_size hb1
          have s2 := memcpy_size hb2
          refine ⟨⟨?_, ?_⟩, Or.inr ⟨rfl, ?_, rfl⟩⟩
          · simp only; rw [s2, s1]; simp; omega
          · simp only; rw [s2, s1]; simp; omega
          · simp only; rw [s2, s1]; simp
    · simp only [h2, pure, Except.pure] at h
      cases h; exact ⟨hb, Or.inl rfl⟩


/-- to a may-throw triple from a plain statement about successful runs -/
theorem to_triple {α : Type} {x : R α} {P : Prop} {Q : α → Prop} (h : P → ∀ a, x = .ok a → Q a) :
    ⦃⌜P⌝⦄ x ⦃⇓? a => ⌜Q a⌝⦄ := by
  cases x with
  | error e =>
    have : (Except.error e : R α) = MonadExceptOf.throw e := rfl
    rw [this]
    simp [Triple, WP.throw_Except, PostCond.mayThrow]
  | ok a =>
    have : (Except.ok a : R α) = pure a := rfl
    rw [this]
    simp only [Triple, WP.pure]
    simpa using fun hp => h hp a rfl

/-- spec of the model's fault value: any may-throw postcondition holds -/
@[spec]
theorem fault_spec {α : Type} (f : Fault) (Q : PostCond α (.except Fault .pure)) :
    Triple (m := Except Fault) (ps := .except Fault .pure) (fault f : Except Fault α) (spred(Q.2.1 f)) Q := by
  have : (fault f : Except Fault α) = MonadExceptOf.throw f := rfl
  rw [this]
  simp [Triple.iff]

/-- fifo bounds + representable size -/
def FOk (b : Fifo) : Prop := FifoOk b ∧ b.buf.size < 2 ^ 64

theorem setCapacity_spec (b : Fifo) (n : Nat) :
    ⦃⌜FOk b ∧ n < 2 ^ 64⌝⦄ b.setCapacity n ⦃⇓? r => ⌜FOk r.2⌝⦄ :=
  to_triple fun ⟨hb, hn⟩ r h => by
    obtain ⟨r1, b'⟩ := r
    have ⟨h1, h2⟩ := setCapacity_ok hb.1 h
    refine ⟨h1, ?_⟩
    rcases h2 with h2 | ⟨_, h2, _⟩
    · rw [h2]; exact hb.2
    · simp only; omega

theorem write_spec (b : Fifo) (src : Array UInt8) (n : Nat) :
    ⦃⌜FOk b⌝⦄ b.write src n ⦃⇓? r => ⌜FOk r.2⌝⦄ :=
  to_triple fun hb r h => by
    obtain ⟨c, b'⟩ := r
    have ⟨h1, h2⟩ := write_ok hb.1 hb.2 h
    exact ⟨h1, by simp only; rw [h2]; exact hb.2⟩

theorem read_spec (b : Fifo) (n : Nat) :
    ⦃⌜FOk b⌝⦄ b.read n ⦃⇓? r => ⌜FOk r.2⌝⦄ :=
  to_triple fun hb r h => by
    obtain ⟨c, b'⟩ := r
    have ⟨h1, h2, _⟩ := read_ok hb.1 hb.2 h
    exact ⟨h1, by simp only; rw [h2]; exact hb.2⟩

theorem writeOffset_spec (b : Fifo) (src : Array UInt8) (so n off : Nat) :
    ⦃⌜FOk b⌝⦄ b.writeOffset src so n off ⦃⇓? r => ⌜FOk r.2⌝⦄ :=
  to_triple fun hb r h => by
    obtain ⟨c, b'⟩ := r
    have ⟨h1, h2, _, _⟩ := writeOffset_ok hb.1 h
    exact ⟨h1, by simp only; rw [h2]; exact hb.2⟩

theorem consumeWriteBuffer_spec (b : Fifo) (n : Nat) :
    ⦃⌜FOk b⌝⦄ b.consumeWriteBuffer n ⦃⇓? r => ⌜FOk r⌝⦄ :=
  to_triple fun hb r h => by
    have ⟨h1, h2, _⟩ := consumeWriteBuffer_ok hb.1 hb.2 h
    exact ⟨h1, by rw [h2]; exact hb.2⟩

theorem consumeReadData_spec (b : Fifo) (n : Nat) :
    ⦃⌜FOk b⌝⦄ b.consumeReadData n ⦃⇓? r => ⌜FOk r⌝⦄ :=
  to_triple fun hb r h => by
    have ⟨h1, h2, _, _⟩ := consumeReadData_ok hb.1 h
    exact ⟨h1, by rw [h2]; exact hb.2⟩

theorem readOffset_spec (b : Fifo) (n off cap : Nat) :
    ⦃⌜True⌝⦄ b.readOffset n off cap ⦃⇓? _ => ⌜True⌝⦄ :=
  to_triple fun _ _ _ => trivial

/-! ### the basic socket invariant -/

/-- pieces 1 and 6 of the invariant of DESIGN 5a that need no ghost state, plus the window-scale bounds that make the
    two shifts defined: fifo bounds, `swnd_scale <= 14`, `rwnd_scale < 32`, `MIN_RTO <= rx_rto <= MAX_RTO` -/
structure Inv0 (s : Sock) : Prop where
  sws : s.swnd_scale ≤ 14
  rws : s.rwnd_scale < 32
  rto_lo : cMIN_RTO ≤ s.rx_rto
  rto_hi : s.rx_rto ≤ cMAX_RTO
  rb : FOk s.rbuf
  sb : FOk s.sbuf

theorem init_inv0 (conv : UInt32) : Inv0 (Sock.init conv) := by
  refine ⟨?_, ?_, ?_, ?_, ⟨fifo_init_ok _ (by decide), ?_⟩, ⟨fifo_init_ok _ (by decide), ?_⟩⟩
  · show (0 : UInt8) ≤ 14; decide
  · show (0 : UInt8) < 32; decide
  · show cMIN_RTO ≤ cDEF_RTO; decide
  · show cDEF_RTO ≤ cMAX_RTO; decide
  · simp [Sock.init, Fifo.init]; decide
  · simp [Sock.init, Fifo.init]; decide

theorem cmin : cMIN_RTO.toNat = 1000 := by decide
theorem cmax : cMAX_RTO.toNat = 60000 := by decide
theorem cdef : cDEF_RTO.toNat = 1000 := by decide

/-- `bound (MIN_RTO, x, MAX_RTO)` (the regenerated kernel) lands in the RTO range -/
theorem bound_range (x : UInt32) : cMIN_RTO ≤ bound cMIN_RTO x cMAX_RTO ∧ bound cMIN_RTO x cMAX_RTO ≤ cMAX_RTO := by
  unfold bound
  simp only [UInt32.le_iff_toNat_le, decide_eq_true_eq]
  split <;> split <;> simp_all [UInt32.lt_iff_toNat_lt, UInt32.le_iff_toNat_le, cmin, cmax] <;> omega

/-- exponential back-off `min (limit, rx_rto * 2)` stays in the RTO range (limit = DEF_RTO while connecting, else MAX_RTO) -/
theorem backoff_range (r lim : UInt32) (h1 : cMIN_RTO ≤ r) (h2 : r ≤ cMAX_RTO) (hl : lim = cDEF_RTO ∨ lim = cMAX_RTO) :
    cMIN_RTO ≤ min lim (r * 2) ∧ min lim (r * 2) ≤ cMAX_RTO := by
  have hm : min lim (r * 2) = if lim ≤ r * 2 then lim else r * 2 := rfl
  rw [hm]
  rw [UInt32.le_iff_toNat_le] at h1 h2
  rw [cmin] at h1; rw [cmax] at h2
  have h2r : (r * 2).toNat = r.toNat * 2 := by
    rw [UInt32.toNat_mul]; have : (2 : UInt32).toNat = 2 := rfl
    rw [this]; exact Nat.mod_eq_of_lt (by omega)
  rcases hl with rfl | rfl <;> split <;> simp only [UInt32.le_iff_toNat_le, cmin, cmax, cdef, h2r] at * <;> omega

theorem min14_le (a : UInt8) : min a 14 ≤ 14 := by
  have : min a 14 = if a ≤ 14 then a else 14 := rfl
  rw [this]
  split
  · assumption
  · exact UInt8.le_refl _

theorem u32_lt_64 (n : UInt32) : n.toNat < 2 ^ 64 := Nat.lt_trans n.toNat_lt (by decide)

open Lean Elab Tactic Meta in
/-- adds the six components of every hypothesis `h : Inv0 t` to the context -/
elab "inv0_unpack" : tactic => withMainContext do
  let lctx ← getLCtx
  let mut hs : Array Expr := #[]
  for d in lctx do
    if d.isImplementationDetail then continue
    let ty ← instantiateMVars d.type
    if ty.isAppOfArity ``Inv0 1 then hs := hs.push d.toExpr
  for h in hs do
    for f in [``Inv0.sws, ``Inv0.rws, ``Inv0.rto_lo, ``Inv0.rto_hi, ``Inv0.rb, ``Inv0.sb] do
      let p ← mkAppM f #[h]
      let t ← inferType p
      liftMetaTactic fun g => do
        let g ← g.assert `hinv t p
        let (_, g) ← g.intro1P
        pure [g]

/-- closes verification conditions about sockets that differ from sockets known to satisfy `Inv0` in fields `Inv0`
    does not read, or whose fifo was replaced by one known to be `FOk` (all by definitional unfolding) -/
macro "inv0" : tactic => `(tactic| (
  first
  | assumption
  | exact u32_lt_64 _
  | exact min14_le _
  | (inv0_unpack; first
      | assumption
      | (constructor <;> first | assumption | exact min14_le _ | exact u32_lt_64 _ | (show (0 : UInt8) ≤ 14; decide))
      | (split <;> first | assumption | (constructor <;> first | assumption | exact min14_le _))
      | (split <;> split <;> first | assumption | (constructor <;> first | assumption | exact min14_le _)))
  | skip))

theorem setState_spec (s : Sock) (n : TcpState) :
    ⦃⌜Inv0 s⌝⦄ setState s n ⦃⇓? s' => ⌜Inv0 s'⌝⦄ := by
  mvcgen [setState] <;> inv0

theorem setStateClosed_spec (s : Sock) (e : Err) :
    ⦃⌜Inv0 s⌝⦄ setStateClosed s e ⦃⇓? s' => ⌜Inv0 s'⌝⦄ := by
  mvcgen [setStateClosed, setState_spec] <;> inv0

theorem triv_spec {α : Type} (x : R α) : ⦃⌜True⌝⦄ x ⦃⇓? _ => ⌜True⌝⦄ := to_triple fun _ _ _ => trivial

theorem adjustMTULevel_spec (m : UInt32) (l f : Nat) : ⦃⌜True⌝⦄ adjustMTULevel m l f ⦃⇓? _ => ⌜True⌝⦄ := triv_spec _
theorem pktMax_spec (i : Nat) : ⦃⌜True⌝⦄ pktMax i ⦃⇓? _ => ⌜True⌝⦄ := triv_spec _
theorem rd_spec (p : Array UInt8) (i : Nat) : ⦃⌜True⌝⦄ rd p i ⦃⇓? _ => ⌜True⌝⦄ := triv_spec _
theorem rd32_spec (p : Array UInt8) (i : Nat) : ⦃⌜True⌝⦄ rd32 p i ⦃⇓? _ => ⌜True⌝⦄ := triv_spec _
theorem rd16_spec (p : Array UInt8) (i : Nat) : ⦃⌜True⌝⦄ rd16 p i ⦃⇓? _ => ⌜True⌝⦄ := triv_spec _
theorem shiftWnd_spec (w : UInt16) (sc : UInt8) : ⦃⌜True⌝⦄ shiftWnd w sc ⦃⇓? _ => ⌜True⌝⦄ := triv_spec _
theorem ackLoop_spec (l : UInt32) (n : UInt32) (sl : List SSeg) : ⦃⌜True⌝⦄ ackLoop l n sl ⦃⇓? _ => ⌜True⌝⦄ := triv_spec _

theorem adjustMTU_spec (s : Sock) : ⦃⌜Inv0 s⌝⦄ adjustMTU s ⦃⇓? s' => ⌜Inv0 s'⌝⦄ := by
  mvcgen [adjustMTU, adjustMTULevel_spec] <;> inv0

theorem setStateEstablished_spec (s : Sock) : ⦃⌜Inv0 s⌝⦄ setStateEstablished s ⦃⇓? s' => ⌜Inv0 s'⌝⦄ := by
  mvcgen [setStateEstablished, setState_spec, adjustMTU_spec] <;> inv0

theorem resizeSendBuffer_spec (s : Sock) (n : UInt32) : ⦃⌜Inv0 s⌝⦄ resizeSendBuffer s n ⦃⇓? s' => ⌜Inv0 s'⌝⦄ := by
  mvcgen [resizeSendBuffer, setCapacity_spec] <;> inv0

theorem resizeReceiveBuffer_spec (s : Sock) (n : UInt32) : ⦃⌜Inv0 s⌝⦄ resizeReceiveBuffer s n ⦃⇓? s' => ⌜Inv0 s'⌝⦄ := by
  mvcgen [resizeReceiveBuffer, setCapacity_spec] <;> inv0

theorem queue_spec (s : Sock) (d : Array UInt8) (len : UInt32) (fl : UInt8) :
    ⦃⌜Inv0 s⌝⦄ queue s d len fl ⦃⇓? r => ⌜Inv0 r.2⌝⦄ := by
  mvcgen [queue, write_spec] <;> inv0

theorem queueConnectMessage_spec (s : Sock) : ⦃⌜Inv0 s⌝⦄ queueConnectMessage s ⦃⇓? s' => ⌜Inv0 s'⌝⦄ := by
  mvcgen [queueConnectMessage, queue_spec] <;> inv0

theorem queueFinMessage_spec (s : Sock) : ⦃⌜Inv0 s⌝⦄ queueFinMessage s ⦃⇓? s' => ⌜Inv0 s'⌝⦄ := by
  mvcgen [queueFinMessage, queue_spec] <;> inv0

theorem queueRstMessage_spec (s : Sock) : ⦃⌜Inv0 s⌝⦄ queueRstMessage s ⦃⇓? s' => ⌜Inv0 s'⌝⦄ := by
  mvcgen [queueRstMessage, queue_spec] <;> inv0

theorem packet_spec (s : Sock) (seq : UInt32) (fl : UInt8) (off len now : UInt32) :
    ⦃⌜Inv0 s⌝⦄ packet s seq fl off len now ⦃⇓? r => ⌜Inv0 r.2⌝⦄ := by
  mvcgen [packet, readOffset_spec] <;> inv0

theorem mssDownLoop_spec (fuel : Nat) (s : Sock) (n : UInt32) :
    ⦃⌜Inv0 s⌝⦄ mssDownLoop fuel s n ⦃⇓? r => ⌜Inv0 r.2.1⌝⦄ := by
  induction fuel generalizing s n with
  | zero => mvcgen [mssDownLoop]
  | succ k ih => mvcgen [mssDownLoop, pktMax_spec, ih] <;> inv0

theorem transmitLoop_spec (idx : Nat) (now : UInt32) (fuel : Nat) (s : Sock) (n : UInt32) :
    ⦃⌜Inv0 s⌝⦄ transmitLoop idx now fuel s n ⦃⇓? r => ⌜Inv0 r.2.1⌝⦄ := by
  induction fuel generalizing s n with
  | zero => mvcgen [transmitLoop]
  | succ k ih => mvcgen [transmitLoop, packet_spec, mssDownLoop_spec, ih] <;> inv0

theorem transmit_spec (s : Sock) (idx : Nat) (now : UInt32) :
    ⦃⌜Inv0 s⌝⦄ transmit s idx now ⦃⇓? r => ⌜Inv0 r.2⌝⦄ := by
  mvcgen [transmit, transmitLoop_spec] <;> inv0

theorem closedownNav_spec (s : Sock) (e : Err) : ⦃⌜Inv0 s⌝⦄ closedownNav s e ⦃⇓? s' => ⌜Inv0 s'⌝⦄ := by
  mvcgen [closedownNav, setState_spec, setStateClosed_spec] <;> inv0

theorem attemptSendLoop_spec (now : UInt32) (fuel : Nat) (s : Sock) (sf : SendFlags) :
    ⦃⌜Inv0 s⌝⦄ attemptSendLoop now fuel s sf ⦃⇓? s' => ⌜Inv0 s'⌝⦄ := by
  induction fuel generalizing s sf with
  | zero => mvcgen [attemptSendLoop]
  | succ k ih => mvcgen [attemptSendLoop, packet_spec, transmit_spec, closedownNav_spec, ih] <;> inv0

theorem attemptSend_spec (s : Sock) (sf : SendFlags) (clk : UInt32) :
    ⦃⌜Inv0 s⌝⦄ attemptSend s sf clk ⦃⇓? s' => ⌜Inv0 s'⌝⦄ := by
  mvcgen [attemptSend, attemptSendLoop_spec] <;> inv0

theorem closedown_spec (s : Sock) (e : Err) (src : ClosedownSource) (clk : UInt32) :
    ⦃⌜Inv0 s⌝⦄ closedown s e src clk ⦃⇓? s' => ⌜Inv0 s'⌝⦄ := by
  mvcgen [closedown, queueRstMessage_spec, attemptSend_spec, closedownNav_spec] <;> inv0

theorem applyOption_spec (s : Sock) (k : UInt8) (p : Array UInt8) (off len : Nat) :
    ⦃⌜Inv0 s⌝⦄ applyOption s k p off len ⦃⇓? s' => ⌜Inv0 s'⌝⦄ := by
  mvcgen [applyOption, rd_spec] <;> inv0

theorem parseOptionsLoop_spec (s : Sock) (p : Array UInt8) (base len pos : Nat) (w f : Bool) :
    ⦃⌜Inv0 s⌝⦄ parseOptionsLoop s p base len pos w f ⦃⇓? r => ⌜Inv0 r.1⌝⦄ := by
  induction h : len - pos using Nat.strongRecOn generalizing s pos w f with
  | _ n ih =>
    unfold parseOptionsLoop
    mvcgen [rd_spec, applyOption_spec] <;> inv0
    · rename_i hlt _ hi _ _ _ _
      exact ih _ (by omega) s _ w f rfl hi
    · intro hi
      exact ih _ (by omega) _ _ _ _ rfl hi

theorem parseOptions_spec (s : Sock) (p : Array UInt8) (base len : Nat) :
    ⦃⌜Inv0 s⌝⦄ parseOptions s p base len ⦃⇓? s' => ⌜Inv0 s'⌝⦄ := by
  mvcgen [parseOptions, parseOptionsLoop_spec, resizeReceiveBuffer_spec] <;> inv0

theorem updateRtt_inv (s : Sock) (rtt : Int) (h : Inv0 s) : Inv0 (updateRtt s rtt) := by
  unfold updateRtt
  split <;> exact ⟨h.sws, h.rws, (bound_range _).1, (bound_range _).2, h.rb, h.sb⟩

theorem rlistRecover_spec (l : List RSeg) (rb : Fifo) (a b : UInt32) (sf : SendFlags) :
    ⦃⌜FOk rb⌝⦄ rlistRecover l rb a b sf ⦃⇓? r => ⌜FOk r.2.1⌝⦄ := by
  induction l generalizing rb a b sf with
  | nil => mvcgen [rlistRecover]
  | cons d rest ih => mvcgen [rlistRecover, consumeWriteBuffer_spec, ih]

set_option maxHeartbeats 1000000 in
theorem processData_spec (s : Sock) (seg : Segment) (p : Array UInt8) (rf : Bool) (clk : UInt32) :
    ⦃⌜Inv0 s⌝⦄ processData s seg p rf clk ⦃⇓? r => ⌜Inv0 r.2⌝⦄ := by
  mvcgen [processData, writeOffset_spec, consumeWriteBuffer_spec, rlistRecover_spec, attemptSend_spec] <;> inv0

set_option maxHeartbeats 1000000 in
theorem processFin_spec (s : Sock) (seg : Segment) (p : Array UInt8) (bc fa : Bool) (clk : UInt32) :
    ⦃⌜Inv0 s⌝⦄ processFin s seg p bc fa clk ⦃⇓? r => ⌜Inv0 r.2⌝⦄ := by
  mvcgen [processFin, setStateEstablished_spec, setState_spec, setStateClosed_spec, processData_spec] <;> inv0

set_option maxHeartbeats 1000000 in
theorem processAck_spec (s : Sock) (seg : Segment) (p : Array UInt8) (bc : Bool) (now clk : UInt32) :
    ⦃⌜Inv0 s⌝⦄ processAck s seg p bc now clk ⦃⇓? r => ⌜Inv0 r.2⌝⦄ := by
  mvcgen [processAck, shiftWnd_spec, consumeReadData_spec, ackLoop_spec, transmit_spec, closedown_spec, processFin_spec] <;> inv0

end Nice.Proofs.PTcp
