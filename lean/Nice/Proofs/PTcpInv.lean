/-
  Helper lemmas for the pseudo-TCP properties, part 2: the basic invariant `Inv0` and its preservation by the sending
  half of `Nice.PTcp` (set_state .. closedown), proved as Hoare triples with `mvcgen`.
-/
import Lean
import Nice.Proofs.PTcpFifo
namespace Nice.Proofs.PTcp
open Nice.PTcp Nice.Gen Std.Do

set_option mvcgen.warning false
set_option maxRecDepth 16000
set_option linter.unusedSimpArgs false

/-! ### the basic socket invariant -/

/-- pieces 1 and 6 of the invariant of DESIGN 5a that need no ghost state, plus the window-scale bounds that make the
    two shifts defined: fifo bounds, `swnd_scale <= 14`, `rwnd_scale < 32`, `MIN_RTO <= rx_rto <= MAX_RTO` -/
structure Inv0 (s : Sock) : Prop where
  sws : s.swnd_scale ≤ 14
  rws : s.rwnd_scale < 32
  rto_lo : cMIN_RTO ≤ s.rx_rto
  rto_hi : s.rx_rto ≤ cMAX_RTO
  rb : FOk s.rbuf
  sb : FOk s.sbuf

theorem init_inv0 (conv : UInt32) : Inv0 (Sock.init conv) := by
  refine ⟨?_, ?_, ?_, ?_, ⟨fifo_init_ok _ (by decide), ?_⟩, ⟨fifo_init_ok _ (by decide), ?_⟩⟩
  · show (0 : UInt8) ≤ 14; decide
  · show (0 : UInt8) < 32; decide
  · show cMIN_RTO ≤ cDEF_RTO; decide
  · show cDEF_RTO ≤ cMAX_RTO; decide
  · simp [Sock.init, Fifo.init]; decide
  · simp [Sock.init, Fifo.init]; decide

theorem cmin : cMIN_RTO.toNat = 1000 := by decide
theorem cmax : cMAX_RTO.toNat = 60000 := by decide
theorem cdef : cDEF_RTO.toNat = 1000 := by decide

/-- `bound (MIN_RTO, x, MAX_RTO)` (the regenerated kernel) lands in the RTO range -/
theorem bound_range (x : UInt32) : cMIN_RTO ≤ bound cMIN_RTO x cMAX_RTO ∧ bound cMIN_RTO x cMAX_RTO ≤ cMAX_RTO := by
  unfold bound
  simp only [UInt32.le_iff_toNat_le, decide_eq_true_eq]
  split <;> split <;> simp_all [UInt32.lt_iff_toNat_lt, UInt32.le_iff_toNat_le, cmin, cmax] <;> omega

/-- exponential back-off `min (limit, rx_rto * 2)` stays in the RTO range (limit = DEF_RTO while connecting, else MAX_RTO) -/
theorem backoff_range (r lim : UInt32) (h1 : cMIN_RTO ≤ r) (h2 : r ≤ cMAX_RTO) (hl : lim = cDEF_RTO ∨ lim = cMAX_RTO) :
    cMIN_RTO ≤ min lim (r * 2) ∧ min lim (r * 2) ≤ cMAX_RTO := by
  have hm : min lim (r * 2) = if lim ≤ r * 2 then lim else r * 2 := rfl
  rw [hm]
  rw [UInt32.le_iff_toNat_le] at h1 h2
  rw [cmin] at h1; rw [cmax] at h2
  have h2r : (r * 2).toNat = r.toNat * 2 := by
    rw [UInt32.toNat_mul]; have : (2 : UInt32).toNat = 2 := rfl
    rw [this]; exact Nat.mod_eq_of_lt (by omega)
  rcases hl with rfl | rfl <;> split <;> simp only [UInt32.le_iff_toNat_le, cmin, cmax, cdef, h2r] at * <;> omega

theorem min14_le (a : UInt8) : min a 14 ≤ 14 := by
  have : min a 14 = if a ≤ 14 then a else 14 := rfl
  rw [this]
  split
  · assumption
  · exact UInt8.le_refl _

theorem u32_lt_64 (n : UInt32) : n.toNat < 2 ^ 64 := Nat.lt_trans n.toNat_lt (by decide)

open Lean Elab Tactic Meta in
/-- adds the six components of every hypothesis `h : Inv0 t` to the context -/
elab "inv0_unpack" : tactic => withMainContext do
  let lctx ← getLCtx
  let mut hs : Array Expr := #[]
  for d in lctx do
    if d.isImplementationDetail then continue
    let ty ← instantiateMVars d.type
    if ty.isAppOfArity ``Inv0 1 then hs := hs.push d.toExpr
  for h in hs do
    for f in [``Inv0.sws, ``Inv0.rws, ``Inv0.rto_lo, ``Inv0.rto_hi, ``Inv0.rb, ``Inv0.sb] do
      let p ← mkAppM f #[h]
      let t ← inferType p
      liftMetaTactic fun g => do
        let g ← g.assert `hinv t p
        let (_, g) ← g.intro1P
        pure [g]

theorem u8_lt_of_not_ge {a b : UInt8} (h : ¬ a ≥ b) : a < b := UInt8.not_le.mp h

/-- one component of `Inv0` / one side condition -/
macro "inv0_atom" : tactic => `(tactic| first
  | assumption
  | exact min14_le _
  | exact u32_lt_64 _
  | exact u8_lt_of_not_ge ‹_›
  | (show (0 : UInt8) ≤ 14; decide)
  | exact (bound_range _).1
  | exact (bound_range _).2)

/-- closes verification conditions about sockets that differ from sockets known to satisfy `Inv0` in fields `Inv0`
    does not read, or whose fifo was replaced by one known to be `FOk` (all by definitional unfolding) -/
macro "inv0" : tactic => `(tactic| (
  first
  | inv0_atom
  | (inv0_unpack; first
      | inv0_atom
      | (constructor <;> inv0_atom)
      | (refine ⟨?_, ?_⟩ <;> inv0_atom))
  | skip))

theorem setState_spec (s : Sock) (n : TcpState) :
    ⦃⌜Inv0 s⌝⦄ setState s n ⦃⇓? s' => ⌜Inv0 s'⌝⦄ := by
  mvcgen [setState] <;> inv0

theorem setStateClosed_spec (s : Sock) (e : Err) :
    ⦃⌜Inv0 s⌝⦄ setStateClosed s e ⦃⇓? s' => ⌜Inv0 s'⌝⦄ := by
  mvcgen [setStateClosed, setState_spec] <;> inv0

theorem triv_spec {α : Type} (x : R α) : ⦃⌜True⌝⦄ x ⦃⇓? _ => ⌜True⌝⦄ := to_triple fun _ _ _ => trivial

theorem adjustMTULevel_spec (m : UInt32) (l f : Nat) : ⦃⌜True⌝⦄ adjustMTULevel m l f ⦃⇓? _ => ⌜True⌝⦄ := triv_spec _
theorem pktMax_spec (i : Nat) : ⦃⌜True⌝⦄ pktMax i ⦃⇓? _ => ⌜True⌝⦄ := triv_spec _
theorem rd_spec (p : Array UInt8) (i : Nat) : ⦃⌜True⌝⦄ rd p i ⦃⇓? _ => ⌜True⌝⦄ := triv_spec _
theorem rd32_spec (p : Array UInt8) (i : Nat) : ⦃⌜True⌝⦄ rd32 p i ⦃⇓? _ => ⌜True⌝⦄ := triv_spec _
theorem rd16_spec (p : Array UInt8) (i : Nat) : ⦃⌜True⌝⦄ rd16 p i ⦃⇓? _ => ⌜True⌝⦄ := triv_spec _
theorem shiftWnd_spec (w : UInt16) (sc : UInt8) : ⦃⌜True⌝⦄ shiftWnd w sc ⦃⇓? _ => ⌜True⌝⦄ := triv_spec _
theorem ackLoop_spec (l : UInt32) (n : UInt32) (sl : List SSeg) : ⦃⌜True⌝⦄ ackLoop l n sl ⦃⇓? _ => ⌜True⌝⦄ := triv_spec _

theorem adjustMTU_spec (s : Sock) : ⦃⌜Inv0 s⌝⦄ adjustMTU s ⦃⇓? s' => ⌜Inv0 s'⌝⦄ := by
  mvcgen [adjustMTU, adjustMTULevel_spec] <;> inv0

theorem setStateEstablished_spec (s : Sock) : ⦃⌜Inv0 s⌝⦄ setStateEstablished s ⦃⇓? s' => ⌜Inv0 s'⌝⦄ := by
  mvcgen [setStateEstablished, setState_spec, adjustMTU_spec] <;> inv0

theorem resizeSendBuffer_spec (s : Sock) (n : UInt32) : ⦃⌜Inv0 s⌝⦄ resizeSendBuffer s n ⦃⇓? s' => ⌜Inv0 s'⌝⦄ := by
  mvcgen [resizeSendBuffer, setCapacity_spec] <;> inv0

theorem resizeReceiveBuffer_spec (s : Sock) (n : UInt32) : ⦃⌜Inv0 s⌝⦄ resizeReceiveBuffer s n ⦃⇓? s' => ⌜Inv0 s'⌝⦄ := by
  mvcgen [resizeReceiveBuffer, setCapacity_spec] <;> inv0

theorem queue_spec (s : Sock) (d : Array UInt8) (len : UInt32) (fl : UInt8) :
    ⦃⌜Inv0 s⌝⦄ queue s d len fl ⦃⇓? r => ⌜Inv0 r.2⌝⦄ := by
  mvcgen [queue, write_spec] <;> inv0

theorem queueConnectMessage_spec (s : Sock) : ⦃⌜Inv0 s⌝⦄ queueConnectMessage s ⦃⇓? s' => ⌜Inv0 s'⌝⦄ := by
  mvcgen [queueConnectMessage, queue_spec] <;> inv0

theorem queueFinMessage_spec (s : Sock) : ⦃⌜Inv0 s⌝⦄ queueFinMessage s ⦃⇓? s' => ⌜Inv0 s'⌝⦄ := by
  mvcgen [queueFinMessage, queue_spec] <;> inv0

theorem queueRstMessage_spec (s : Sock) : ⦃⌜Inv0 s⌝⦄ queueRstMessage s ⦃⇓? s' => ⌜Inv0 s'⌝⦄ := by
  mvcgen [queueRstMessage, queue_spec] <;> inv0

theorem packet_spec (s : Sock) (seq : UInt32) (fl : UInt8) (off len now : UInt32) :
    ⦃⌜Inv0 s⌝⦄ packet s seq fl off len now ⦃⇓? r => ⌜Inv0 r.2⌝⦄ := by
  mvcgen [packet, readOffset_spec] <;> inv0

theorem mssDownLoop_spec (fuel : Nat) (s : Sock) (n : UInt32) :
    ⦃⌜Inv0 s⌝⦄ mssDownLoop fuel s n ⦃⇓? r => ⌜Inv0 r.2.1⌝⦄ := by
  induction fuel generalizing s n with
  | zero => mvcgen [mssDownLoop]
  | succ k ih => mvcgen [mssDownLoop, pktMax_spec, ih] <;> inv0

theorem transmitLoop_spec (idx : Nat) (now : UInt32) (fuel : Nat) (s : Sock) (n : UInt32) :
    ⦃⌜Inv0 s⌝⦄ transmitLoop idx now fuel s n ⦃⇓? r => ⌜Inv0 r.2.1⌝⦄ := by
  induction fuel generalizing s n with
  | zero => mvcgen [transmitLoop]
  | succ k ih => mvcgen [transmitLoop, packet_spec, mssDownLoop_spec, ih] <;> inv0

theorem transmit_spec (s : Sock) (idx : Nat) (now : UInt32) :
    ⦃⌜Inv0 s⌝⦄ transmit s idx now ⦃⇓? r => ⌜Inv0 r.2⌝⦄ := by
  mvcgen [transmit, transmitLoop_spec] <;> inv0

theorem closedownNav_spec (s : Sock) (e : Err) : ⦃⌜Inv0 s⌝⦄ closedownNav s e ⦃⇓? s' => ⌜Inv0 s'⌝⦄ := by
  mvcgen [closedownNav, setState_spec, setStateClosed_spec] <;> inv0

theorem attemptSendLoop_spec (now : UInt32) (fuel : Nat) (s : Sock) (sf : SendFlags) :
    ⦃⌜Inv0 s⌝⦄ attemptSendLoop now fuel s sf ⦃⇓? s' => ⌜Inv0 s'⌝⦄ := by
  induction fuel generalizing s sf with
  | zero => mvcgen [attemptSendLoop]
  | succ k ih => mvcgen [attemptSendLoop, packet_spec, transmit_spec, closedownNav_spec, ih] <;> inv0

theorem attemptSend_spec (s : Sock) (sf : SendFlags) (clk : UInt32) :
    ⦃⌜Inv0 s⌝⦄ attemptSend s sf clk ⦃⇓? s' => ⌜Inv0 s'⌝⦄ := by
  mvcgen [attemptSend, attemptSendLoop_spec] <;> inv0

theorem closedown_spec (s : Sock) (e : Err) (src : ClosedownSource) (clk : UInt32) :
    ⦃⌜Inv0 s⌝⦄ closedown s e src clk ⦃⇓? s' => ⌜Inv0 s'⌝⦄ := by
  mvcgen [closedown, queueRstMessage_spec, attemptSend_spec, closedownNav_spec] <;> inv0

end Nice.Proofs.PTcp
