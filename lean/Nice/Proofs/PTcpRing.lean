/-
  Helper lemmas for C08: the PseudoTcpFifo ring refines a byte queue.  `byteAt b i` is the i-th logical byte (0 = oldest
  unread byte); `write_offset` stores the accepted bytes at logical positions [data+off, ..) and touches nothing else,
  `read_offset` returns logical bytes [off, ..).
-/
import Nice.Proofs.PTcpFifo
namespace Nice.Proofs.PTcp
open Nice.PTcp Nice.Gen

theorem mod_two {x c : Nat} (h : x < 2 * c) : x % c = if x < c then x else x - c := by
  split
  · exact Nat.mod_eq_of_lt ‹_›
  · rw [Nat.mod_eq_sub_mod (by omega)]; exact Nat.mod_eq_of_lt (by omega)

/-- logical byte `i` of the ring (0 = oldest unread byte) -/
def byteAt (b : Fifo) (i : Nat) : UInt8 := b.buf[(b.rpos + i) % b.buf.size]?.getD 0

/-- `memcpy` into the ring: inside the copied range the destination holds the source bytes, outside it is untouched -/
theorem blit_get (src : Array UInt8) (so : Nat) (dst : Array UInt8) (d0 n i : Nat) (hd : d0 + n ≤ dst.size) :
    (Fifo.blit src so dst d0 n)[i]?.getD 0 =
      if d0 ≤ i ∧ i < d0 + n then src.getD (so + (i - d0)) 0 else dst[i]?.getD 0 := by
  induction n generalizing so dst d0 with
  | zero => simp [Fifo.blit]; omega
  | succ k ih =>
    simp only [Fifo.blit]
    rw [ih (so + 1) (dst.setIfInBounds d0 (src.getD so 0)) (d0 + 1) (by simp; omega)]
    by_cases h1 : d0 + 1 ≤ i ∧ i < d0 + 1 + k
    · have h2 : d0 ≤ i ∧ i < d0 + (k + 1) := by omega
      simp only [h1, h2, and_self, if_true]
      congr 1; omega
    · simp only [h1, if_false]
      by_cases h3 : i = d0
      · subst h3
        have h2 : i ≤ i ∧ i < i + (k + 1) := by omega
        simp only [h2, and_self, if_true, Nat.sub_self, Nat.add_zero]
        rw [Array.getElem?_setIfInBounds_self_of_lt (by omega)]
        rfl
      · have h2 : ¬ (d0 ≤ i ∧ i < d0 + (k + 1)) := by omega
        simp only [h2, if_false]
        rw [Array.getElem?_setIfInBounds_ne (by omega)]


theorem memcpy_get {site dst d0 src s0 n r} (h : Fifo.memcpy site dst d0 src s0 n = .ok r) (i : Nat) :
    r[i]?.getD 0 = if d0 ≤ i ∧ i < d0 + n then src.getD (s0 + (i - d0)) 0 else dst[i]?.getD 0 := by
  unfold Fifo.memcpy at h
  split at h
  · cases h; rename_i h0; subst h0
    have : ¬ (d0 ≤ i ∧ i < d0 + 0) := by omega
    simp only [this, if_false]
  · split at h
    · cases h; rename_i hb; exact blit_get _ _ _ _ _ _ hb.2
    · simp [fault] at h

/-- content of the ring after `write_offset`: the `c` accepted bytes sit at logical positions
    `[data+off, data+off+c)`, every other logical position is unchanged -/
theorem writeOffset_content {b b' : Fifo} {src so n off c} (hb : FifoOk b) (hc : b.buf.size < 2 ^ 64)
    (hoff : b.data + off < b.buf.size) (h : b.writeOffset src so n off = .ok (c, b')) :
    c = min n (b.buf.size - b.data - off) ∧
    ∀ i, i < b.buf.size → byteAt b' i =
      if b.data + off ≤ i ∧ i < b.data + off + c then src.getD (so + (i - (b.data + off))) 0 else byteAt b i := by
  have hd := hb.1
  have hr := hb.2
  unfold Fifo.writeOffset at h
  simp only [fault] at h
  have h0 : ¬ b.cap = 0 := by simp only [Fifo.cap]; omega
  simp only [h0, if_false] at h
  have h1 : ¬ (b.data + off ≥ b.cap) := by simp only [Fifo.cap]; omega
  simp only [h1, if_false] at h
  have hav : gsub (gsub b.cap b.data) off = b.buf.size - b.data - off := by
    simp only [Fifo.cap]
    rw [gsub_of_le hd hc, gsub_of_le (by omega) (by omega)]
  rw [hav] at h
  simp only [bind, Except.bind] at h
  split at h
  · cases h
  · rename_i buf1 hm1
    split at h
    · cases h
    · rename_i buf2 hm2
      simp only [pure, Except.pure] at h
      cases h
      refine ⟨rfl, ?_⟩
      intro i hi
      have s1 := memcpy_size hm1
      have s2 := memcpy_size hm2
      have g2 := memcpy_get hm2
      have g1 := memcpy_get hm1
      simp only [byteAt, s2, s1]
      rw [g2, g1]
      -- physical positions
      have hwp : (b.rpos + b.data + off) % b.cap < b.buf.size := Nat.mod_lt _ (by omega)
      have hgs : gsub b.cap ((b.rpos + b.data + off) % b.cap) = b.buf.size - (b.rpos + b.data + off) % b.cap := by
        simp only [Fifo.cap]; rw [gsub_of_le (by simp only [Fifo.cap] at hwp; omega) hc]
      simp only [hgs]
      simp only [Fifo.cap] at *
      have e1 := @mod_two (b.rpos + b.data + off) b.buf.size (by omega)
      have e2 := @mod_two (b.rpos + i) b.buf.size (by omega)
      simp only [e1, e2]
      clear hm1 hm2 g1 g2 e1 e2 hgs hav
      repeat' split
      all_goals
        first
        | rfl
        | (apply congrArg (fun k => src.getD k 0); omega)
        | (apply congrArg (fun k => (b.buf[k]?).getD 0); omega)
        | (exfalso; omega)

/-- `read_offset` returns the logical bytes `[off, off + min len (data - off))` -/
theorem readOffset_content {b : Fifo} {len off cap : Nat} {out : Array UInt8} (hb : FifoOk b) (hc : b.buf.size < 2 ^ 64)
    (h : b.readOffset len off cap = .ok out) :
    out.size = min len (b.data - off) ∧ ∀ j, j < out.size → out[j]?.getD 0 = byteAt b (off + j) := by
  have hd := hb.1
  have hr := hb.2
  unfold Fifo.readOffset at h
  simp only [fault] at h
  have h0 : ¬ b.cap = 0 := by simp only [Fifo.cap]; omega
  simp only [h0, if_false] at h
  by_cases h1 : off ≥ b.data
  · simp only [h1, if_true, pure, Except.pure] at h
    cases h
    refine ⟨by simp; omega, ?_⟩
    intro j hj; simp at hj
  · simp only [h1, if_false] at h
    have hg : gsub b.data off = b.data - off := by
      unfold gsub
      have : off % 2 ^ 64 = off := Nat.mod_eq_of_lt (by omega)
      rw [this]; omega
    have hrp : (b.rpos + off) % b.cap < b.buf.size := Nat.mod_lt _ (by simp only [Fifo.cap]; omega)
    have hgs : gsub b.cap ((b.rpos + off) % b.cap) = b.buf.size - (b.rpos + off) % b.cap := by
      simp only [Fifo.cap]; rw [gsub_of_le (by simp only [Fifo.cap] at hrp; omega) hc]
    simp only [hg, hgs] at h
    split at h
    · cases h
    · split at h
      · simp only [pure, Except.pure] at h
        cases h
        simp only [Fifo.cap] at *
        have e1 := @mod_two (b.rpos + off) b.buf.size (by omega)
        refine ⟨?_, ?_⟩
        · simp only [Array.size_append, Array.size_extract]; omega
        · intro j hj
          simp only [Array.size_append, Array.size_extract] at hj
          have hj' : j < b.data - off := by omega
          have e2 := @mod_two (b.rpos + (off + j)) b.buf.size (by omega)
          simp only [byteAt, e2]
          rw [Array.getElem?_append]
          simp only [Array.size_extract]
          by_cases hw : b.rpos + off < b.buf.size
          · simp only [e1, hw, if_true] at hj ⊢
            split
            · rw [Array.getElem?_extract]
              repeat' split
              all_goals
                first
                | (apply congrArg (fun k => (b.buf[k]?).getD 0); omega)
                | (exfalso; omega)
            · rw [Array.getElem?_extract]
              repeat' split
              all_goals
                first
                | (apply congrArg (fun k => (b.buf[k]?).getD 0); omega)
                | (exfalso; omega)
          · simp only [e1, hw, if_false] at hj ⊢
            split
            · rw [Array.getElem?_extract]
              repeat' split
              all_goals
                first
                | (apply congrArg (fun k => (b.buf[k]?).getD 0); omega)
                | (exfalso; omega)
            · rw [Array.getElem?_extract]
              repeat' split
              all_goals
                first
                | (apply congrArg (fun k => (b.buf[k]?).getD 0); omega)
                | (exfalso; omega)
      · cases h

end Nice.Proofs.PTcp
