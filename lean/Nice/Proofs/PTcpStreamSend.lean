/-
  C08 end-to-end (receive side), part 2: the sending half of `Nice.PTcp` (queue .. closedown) keeps the receive-side
  stream invariant `RInvS` — it does not touch the receive ring, `rcv_nxt`, `rlist`, `rcv_fin`, `support_fin_ack`;
  `shutdown` only goes from none to forceful and the state only to CLOSED.
-/
import Nice.Proofs.PTcpStreamDefs
namespace Nice.Proofs.PTcpStream
open Nice.PTcp Nice.Gen Nice.Proofs.PTcp Std.Do

set_option mvcgen.warning false
set_option maxRecDepth 16000
set_option linter.unusedSimpArgs false

theorem setState_eq {s s' : Sock} {n : TcpState} (h : setState s n = .ok s') : s' = { s with state := n } := by
  unfold setState at h
  simp only [fault] at h
  split at h
  · cases h; rename_i e; subst e; rfl
  · split at h
    · cases h; rfl
    · cases h

theorem setStateClosed_eq {s s' : Sock} {e : Err} (h : setStateClosed s e = .ok s') :
    ∃ o, s' = { s with state := .closed, out := o } := by
  unfold setStateClosed at h
  simp only [bind, Except.bind] at h
  split at h
  · cases h
  · rename_i s1 h1
    simp only [pure, Except.pure] at h
    cases h
    rw [setState_eq h1]
    exact ⟨_, rfl⟩

theorem closedownNav_eq {s s' : Sock} {e : Err} (h : closedownNav s e = .ok s') :
    ∃ o, s' = { s with state := .closed, out := o } := by
  unfold closedownNav at h
  simp only [bind, Except.bind] at h
  split at h
  · cases h
  · rename_i s1 h1
    obtain ⟨o, ho⟩ := setStateClosed_eq h
    have : ∃ st, s1 = { s with state := st } := by
      split at h1
      · cases h1; exact ⟨s.state, rfl⟩
      · simp only [bind, Except.bind] at h1
        split at h1
        · cases h1
        · rename_i a ha; split at h1
          · cases h1
          · rename_i b hb
            rw [setState_eq h1, setState_eq hb, setState_eq ha]; exact ⟨_, rfl⟩
      · simp only [bind, Except.bind] at h1
        split at h1
        · cases h1
        · rename_i a ha
          rw [setState_eq h1, setState_eq ha]; exact ⟨_, rfl⟩
      · rw [setState_eq h1]; exact ⟨_, rfl⟩
      · rw [setState_eq h1]; exact ⟨_, rfl⟩
      · cases h1; exact ⟨s.state, rfl⟩
    obtain ⟨st, hst⟩ := this
    subst hst
    exact ⟨o, ho⟩

section
variable (W : List UInt8) (D n : Nat) (st0 : TcpState)

theorem closedownNav_rspec (s : Sock) (e : Err) :
    ⦃⌜RInvS W D n st0 s⌝⦄ closedownNav s e ⦃⇓? s' => ⌜RInvS W D n st0 s'⌝⦄ :=
  to_triple fun hi s' h => by
    obtain ⟨o, rfl⟩ := closedownNav_eq h
    rinv

theorem adjustMTU_rspec (s : Sock) : ⦃⌜RInvS W D n st0 s⌝⦄ adjustMTU s ⦃⇓? s' => ⌜RInvS W D n st0 s'⌝⦄ := by
  mvcgen [adjustMTU, adjustMTULevel_spec] <;> rinv

theorem fwrite_tspec (b : Fifo) (src : Array UInt8) (k : Nat) : ⦃⌜True⌝⦄ b.write src k ⦃⇓? _ => ⌜True⌝⦄ := triv_spec _

theorem queue_rspec (s : Sock) (d : Array UInt8) (len : UInt32) (fl : UInt8) :
    ⦃⌜RInvS W D n st0 s⌝⦄ queue s d len fl ⦃⇓? r => ⌜RInvS W D n st0 r.2⌝⦄ := by
  mvcgen [queue, fwrite_tspec] <;> rinv

theorem queueConnectMessage_rspec (s : Sock) :
    ⦃⌜RInvS W D n st0 s⌝⦄ queueConnectMessage s ⦃⇓? s' => ⌜RInvS W D n st0 s'⌝⦄ := by
  mvcgen [queueConnectMessage, queue_rspec] <;> rinv

theorem queueFinMessage_rspec (s : Sock) :
    ⦃⌜RInvS W D n st0 s⌝⦄ queueFinMessage s ⦃⇓? s' => ⌜RInvS W D n st0 s'⌝⦄ := by
  mvcgen [queueFinMessage, queue_rspec] <;> rinv

theorem queueRstMessage_rspec (s : Sock) :
    ⦃⌜RInvS W D n st0 s⌝⦄ queueRstMessage s ⦃⇓? s' => ⌜RInvS W D n st0 s'⌝⦄ := by
  mvcgen [queueRstMessage, queue_rspec] <;> rinv

theorem packet_rspec (s : Sock) (seq : UInt32) (fl : UInt8) (off len now : UInt32) :
    ⦃⌜RInvS W D n st0 s⌝⦄ packet s seq fl off len now ⦃⇓? r => ⌜RInvS W D n st0 r.2⌝⦄ := by
  mvcgen [packet, readOffset_spec] <;> rinv

theorem mssDownLoop_rspec (fuel : Nat) (s : Sock) (k : UInt32) :
    ⦃⌜RInvS W D n st0 s⌝⦄ mssDownLoop fuel s k ⦃⇓? r => ⌜RInvS W D n st0 r.2.1⌝⦄ := by
  induction fuel generalizing s k with
  | zero => mvcgen [mssDownLoop]
  | succ f ih => mvcgen [mssDownLoop, pktMax_spec, ih] <;> rinv

theorem transmitLoop_rspec (idx : Nat) (now : UInt32) (fuel : Nat) (s : Sock) (k : UInt32) :
    ⦃⌜RInvS W D n st0 s⌝⦄ transmitLoop idx now fuel s k ⦃⇓? r => ⌜RInvS W D n st0 r.2.1⌝⦄ := by
  induction fuel generalizing s k with
  | zero => mvcgen [transmitLoop]
  | succ f ih => mvcgen [transmitLoop, packet_rspec, mssDownLoop_rspec, ih] <;> rinv

theorem transmit_rspec (s : Sock) (idx : Nat) (now : UInt32) :
    ⦃⌜RInvS W D n st0 s⌝⦄ transmit s idx now ⦃⇓? r => ⌜RInvS W D n st0 r.2⌝⦄ := by
  mvcgen [transmit, transmitLoop_rspec] <;> rinv

theorem attemptSendLoop_rspec (now : UInt32) (fuel : Nat) (s : Sock) (sf : SendFlags) :
    ⦃⌜RInvS W D n st0 s⌝⦄ attemptSendLoop now fuel s sf ⦃⇓? s' => ⌜RInvS W D n st0 s'⌝⦄ := by
  induction fuel generalizing s sf with
  | zero => mvcgen [attemptSendLoop]
  | succ f ih => mvcgen [attemptSendLoop, packet_rspec, transmit_rspec, closedownNav_rspec, ih] <;> rinv

theorem attemptSend_rspec (s : Sock) (sf : SendFlags) (clk : UInt32) :
    ⦃⌜RInvS W D n st0 s⌝⦄ attemptSend s sf clk ⦃⇓? s' => ⌜RInvS W D n st0 s'⌝⦄ := by
  mvcgen [attemptSend, attemptSendLoop_rspec] <;> rinv

theorem closedown_rspec (s : Sock) (e : Err) (src : ClosedownSource) (clk : UInt32) :
    ⦃⌜RInvS W D n st0 s⌝⦄ closedown s e src clk ⦃⇓? s' => ⌜RInvS W D n st0 s'⌝⦄ := by
  mvcgen [closedown, queueRstMessage_rspec, attemptSend_rspec, closedownNav_rspec] <;> rinv

end

end Nice.Proofs.PTcpStream
