/-
  C08 end-to-end (receive side), part 2: the sending half of `Nice.PTcp` (queue .. closedown) keeps the receive-side
  stream invariant `RInvS` — it does not touch the receive ring, `rcv_nxt`, `rlist`, `rcv_fin`, `support_fin_ack`;
  `shutdown` only goes from none to forceful and the state only to CLOSED.
-/
import Nice.Proofs.PTcpStreamDefs
namespace Nice.Proofs.PTcpStream
open Nice.PTcp Nice.Gen Nice.Proofs.PTcp Std.Do

set_option mvcgen.warning false
set_option maxRecDepth 16000
set_option linter.unusedSimpArgs false

theorem setState_eq {s s' : Sock} {n : TcpState} (h : setState s n = .ok s') : s' = { s with state := n } := by
  unfold setState at h
  simp only [fault] at h
  split at h
  · cases h; rename_i e; subst e; rfl
  · split at h
    · cases h; rfl
    · cases h

theorem setStateClosed_eq {s s' : Sock} {e : Err} (h : setStateClosed s e = .ok s') :
    ∃ o, s' = { s with state := .closed, out := o } := by
  unfold setStateClosed at h
  simp only [bind, Except.bind] at h
  split at h
  · cases h
  · rename_i s1 h1
    simp only [pure, Except.pure] at h
    cases h
    rw [setState_eq h1]
    exact ⟨_, rfl⟩

theorem bind_ok {α β : Type} {x : R α} {f : α → R β} {b : β} (h : (x >>= f) = .ok b) :
    ∃ a, x = .ok a ∧ f a = .ok b := by
  cases x with
  | error e => cases h
  | ok a => exact ⟨a, rfl, h⟩

/-- `s1` differs from `s` in the state only -/
def SBS (s s1 : Sock) : Prop := ∃ st, s1 = { s with state := st }

theorem SBS.refl (s : Sock) : SBS s s := ⟨s.state, rfl⟩
theorem SBS.trans {a b c : Sock} (h1 : SBS a b) (h2 : SBS b c) : SBS a c := by
  obtain ⟨x, rfl⟩ := h1; obtain ⟨y, rfl⟩ := h2; exact ⟨y, rfl⟩
theorem setState_sbs {s s' : Sock} {n : TcpState} (h : setState s n = .ok s') : SBS s s' := ⟨n, setState_eq h⟩

theorem closedownNav_eq {s s' : Sock} {e : Err} (h : closedownNav s e = .ok s') :
    ∃ o, s' = { s with state := .closed, out := o } := by
  unfold closedownNav at h
  obtain ⟨s1, h1, h2⟩ := bind_ok h
  obtain ⟨o, ho⟩ := setStateClosed_eq h2
  have : SBS s s1 := by
    cases hs : s.state <;> simp only [hs] at h1
    all_goals first
      | (cases h1; exact SBS.refl _)
      | exact setState_sbs h1
      | (obtain ⟨a, ha, h1⟩ := bind_ok h1
         first
           | exact (setState_sbs ha).trans (setState_sbs h1)
           | (obtain ⟨b, hb, h1⟩ := bind_ok h1
              exact ((setState_sbs ha).trans (setState_sbs hb)).trans (setState_sbs h1)))
  obtain ⟨st, hst⟩ := this
  subst hst
  exact ⟨o, ho⟩

section
variable (W : List UInt8) (D n : Nat) (st0 : TcpState)

theorem closedownNav_rspec (s : Sock) (e : Err) :
    ⦃⌜RInvS W D n st0 s⌝⦄ closedownNav s e ⦃⇓? s' => ⌜RInvS W D n st0 s'⌝⦄ :=
  to_triple fun hi s' h => by
    obtain ⟨o, rfl⟩ := closedownNav_eq h
    rinv

theorem adjustMTU_rspec (s : Sock) : ⦃⌜RInvS W D n st0 s⌝⦄ adjustMTU s ⦃⇓? s' => ⌜RInvS W D n st0 s'⌝⦄ := by
  mvcgen [adjustMTU, adjustMTULevel_spec] <;> rinv

theorem fwrite_tspec (b : Fifo) (src : Array UInt8) (k : Nat) : ⦃⌜True⌝⦄ b.write src k ⦃⇓? _ => ⌜True⌝⦄ := triv_spec _

theorem queue_rspec (s : Sock) (d : Array UInt8) (len : UInt32) (fl : UInt8) :
    ⦃⌜RInvS W D n st0 s⌝⦄ queue s d len fl ⦃⇓? r => ⌜RInvS W D n st0 r.2⌝⦄ := by
  mvcgen [queue, fwrite_tspec] <;> rinv

theorem queueConnectMessage_rspec (s : Sock) :
    ⦃⌜RInvS W D n st0 s⌝⦄ queueConnectMessage s ⦃⇓? s' => ⌜RInvS W D n st0 s'⌝⦄ := by
  (have h_queue := queue_rspec W D n st0; mvcgen [queueConnectMessage, h_queue] <;> rinv)

theorem queueFinMessage_rspec (s : Sock) :
    ⦃⌜RInvS W D n st0 s⌝⦄ queueFinMessage s ⦃⇓? s' => ⌜RInvS W D n st0 s'⌝⦄ := by
  (have h_queue := queue_rspec W D n st0; mvcgen [queueFinMessage, h_queue] <;> rinv)

theorem queueRstMessage_rspec (s : Sock) :
    ⦃⌜RInvS W D n st0 s⌝⦄ queueRstMessage s ⦃⇓? s' => ⌜RInvS W D n st0 s'⌝⦄ := by
  (have h_queue := queue_rspec W D n st0; mvcgen [queueRstMessage, h_queue] <;> rinv)

theorem packet_rspec (s : Sock) (seq : UInt32) (fl : UInt8) (off len now : UInt32) :
    ⦃⌜RInvS W D n st0 s⌝⦄ packet s seq fl off len now ⦃⇓? r => ⌜RInvS W D n st0 r.2⌝⦄ := by
  mvcgen [packet, readOffset_spec] <;> rinv

theorem mssDownLoop_rspec (fuel : Nat) (s : Sock) (k : UInt32) :
    ⦃⌜RInvS W D n st0 s⌝⦄ mssDownLoop fuel s k ⦃⇓? r => ⌜RInvS W D n st0 r.2.1⌝⦄ := by
  induction fuel generalizing s k with
  | zero => mvcgen [mssDownLoop]
  | succ f ih => mvcgen [mssDownLoop, pktMax_spec, ih] <;> rinv

theorem transmitLoop_rspec (idx : Nat) (now : UInt32) (fuel : Nat) (s : Sock) (k : UInt32) :
    ⦃⌜RInvS W D n st0 s⌝⦄ transmitLoop idx now fuel s k ⦃⇓? r => ⌜RInvS W D n st0 r.2.1⌝⦄ := by
  induction fuel generalizing s k with
  | zero => mvcgen [transmitLoop]
  | succ f ih => (have h_packet := packet_rspec W D n st0; have h_mssDownLoop := mssDownLoop_rspec W D n st0; mvcgen [transmitLoop, h_packet, h_mssDownLoop, ih] <;> rinv)

theorem transmit_rspec (s : Sock) (idx : Nat) (now : UInt32) :
    ⦃⌜RInvS W D n st0 s⌝⦄ transmit s idx now ⦃⇓? r => ⌜RInvS W D n st0 r.2⌝⦄ := by
  (have h_transmitLoop := transmitLoop_rspec W D n st0; mvcgen [transmit, h_transmitLoop] <;> rinv)

theorem attemptSendLoop_rspec (now : UInt32) (fuel : Nat) (s : Sock) (sf : SendFlags) :
    ⦃⌜RInvS W D n st0 s⌝⦄ attemptSendLoop now fuel s sf ⦃⇓? s' => ⌜RInvS W D n st0 s'⌝⦄ := by
  induction fuel generalizing s sf with
  | zero => mvcgen [attemptSendLoop]
  | succ f ih => (have h_packet := packet_rspec W D n st0; have h_transmit := transmit_rspec W D n st0; have h_closedownNav := closedownNav_rspec W D n st0; mvcgen [attemptSendLoop, h_packet, h_transmit, h_closedownNav, ih] <;> rinv)

theorem attemptSend_rspec (s : Sock) (sf : SendFlags) (clk : UInt32) :
    ⦃⌜RInvS W D n st0 s⌝⦄ attemptSend s sf clk ⦃⇓? s' => ⌜RInvS W D n st0 s'⌝⦄ := by
  (have h_attemptSendLoop := attemptSendLoop_rspec W D n st0; mvcgen [attemptSend, h_attemptSendLoop] <;> rinv)

theorem closedown_rspec (s : Sock) (e : Err) (src : ClosedownSource) (clk : UInt32) :
    ⦃⌜RInvS W D n st0 s⌝⦄ closedown s e src clk ⦃⇓? s' => ⌜RInvS W D n st0 s'⌝⦄ := by
  (have h_queueRstMessage := queueRstMessage_rspec W D n st0; have h_attemptSend := attemptSend_rspec W D n st0; have h_closedownNav := closedownNav_rspec W D n st0; mvcgen [closedown, h_queueRstMessage, h_attemptSend, h_closedownNav] <;> rinv)

end

end Nice.Proofs.PTcpStream
