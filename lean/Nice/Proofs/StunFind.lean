/-
  Lookup proofs: `stun_message_find` on a buffer whose body tiles = the reference lookup over the
  reference parser's attribute list.
-/
import Nice.Proofs.StunFraming
namespace Nice.Stun
open Nice.Gen Nice.Spec.Stun

/-- recursive form of the reference lookup -/
def refFindRec (t : Nat) : List Attr → Option Attr
  | [] => none
  | a :: rest =>
    if a.type = t then some a
    else if a.type = MESSAGE_INTEGRITY ∧ t ≠ FINGERPRINT then none
    else if a.type = FINGERPRINT then none
    else refFindRec t rest

theorem refFind_eq_rec (t : Nat) (attrs : List Attr) : refFind t attrs = refFindRec t attrs := by
  induction attrs with
  | nil => rfl
  | cons a rest ih =>
    unfold refFind at ih ⊢
    unfold visibleFor refFindRec
    by_cases hf : a.type = FINGERPRINT
    · rw [if_pos hf]
      by_cases ht : a.type = t
      · simp [ht]
      · have : ¬ (a.type = MESSAGE_INTEGRITY ∧ t ≠ FINGERPRINT) := by
          intro h; rw [hf] at h; exact absurd h.1 (by decide)
        simp [ht, hf, this]
    · rw [if_neg hf]
      by_cases hm : a.type = MESSAGE_INTEGRITY ∧ t ≠ FINGERPRINT
      · rw [if_pos hm]
        by_cases ht : a.type = t
        · simp [ht]
        · simp [ht, hm]
      · rw [if_neg hm]
        by_cases ht : a.type = t
        · simp [ht]
        · simp only [List.find?_cons, ht, decide_false, if_neg hm, if_neg hf]
          exact ih

/-- the reference parser succeeds exactly on tilings -/
theorem parseFrom_of_tiles (pad : Bool) : ∀ (n : Nat) (l : B), l.length = n → ∀ off, Tiles pad l →
    ∃ attrs, parseFrom pad off l = some attrs := by
  intro n
  induction n using Nat.strongRecOn with
  | ind n ih =>
    intro l hl off ht
    cases ht with
    | nil => exact ⟨[], by rw [parseFrom]⟩
    | cons t0 t1 l0 l1 val pd rest hv hp hr =>
      rw [parseFrom]
      have hlen : be16 l0 l1 + padLen pad (be16 l0 l1) ≤ (val ++ (pd ++ rest)).length := by
        simp [hv, hp]
      rw [if_pos hlen]
      have hd : (val ++ (pd ++ rest)).drop (be16 l0 l1 + padLen pad (be16 l0 l1)) = rest := by
        rw [← List.append_assoc, List.drop_left' (by simp [hv, hp])]
      rw [hd]
      have hlt : rest.length < n := by rw [← hl]; simp; omega
      obtain ⟨as, has⟩ := ih rest.length hlt rest rfl
        (off + 4 + (be16 l0 l1 + padLen pad (be16 l0 l1))) hr
      rw [has]
      exact ⟨_, rfl⟩

theorem tMI_toNat : tMI.toNat = MESSAGE_INTEGRITY := by decide
theorem tFPR_toNat : tFPR.toNat = FINGERPRINT := by decide

/-- the lookup loop follows the reference parser attribute by attribute -/
theorem findLoop_spec (buf : Bytes) (noalign : Bool) (type : UInt16) (L : Nat) (hL : L ≤ buf.size) :
    ∀ (len off : Nat), off + len = L → ∀ attrs,
    parseFrom (!noalign) off (seg buf off len) = some attrs →
    (findLoop buf noalign type L off).map (Option.map fun r => (r.1, r.2.toNat)) =
      .ok ((refFindRec type.toNat attrs).map fun a => (a.off, a.len)) := by
  intro len
  induction len using Nat.strongRecOn with
  | ind len ih =>
    intro off hoff attrs hp
    rw [findLoop]
    by_cases h0 : len = 0
    · subst h0
      rw [seg_zero, parseFrom] at hp
      injection hp with hp; subst hp
      rw [if_neg (by omega)]
      rfl
    · rw [if_pos (by omega)]
      by_cases h4 : len < 4
      · -- a body of 1..3 bytes does not parse
        exfalso
        have hl : (seg buf off len).length = len := seg_length (by omega)
        match hs : seg buf off len, hl with
        | [a], _ => rw [hs] at hp; simp [parseFrom] at hp
        | [a, b], _ => rw [hs] at hp; simp [parseFrom] at hp
        | [a, b, c], _ => rw [hs] at hp; simp [parseFrom] at hp
        | [], h => simp at h; omega
        | a :: b :: c :: d :: r, h => simp at h; omega
      · have hseg := seg4 (b := buf) (off := off) (len := len) (by omega) (by omega)
        rw [hseg, parseFrom] at hp
        obtain ⟨at_, hat, hatn⟩ := getw_ok (b := buf) (off := off) (by omega)
        obtain ⟨al, hal, haln⟩ := getw_ok (b := buf) (off := off + STUN_ATTRIBUTE_TYPE_LEN)
          (by simp [STUN_ATTRIBUTE_TYPE_LEN]; omega)
        rw [hat, hal]
        simp only
        have hbt : be16 (buf.getD off 0) (buf.getD (off + 1) 0) = at_.toNat := by
          rw [hatn]; simp [be16, getwN, byteN]
        have hbl : be16 (buf.getD (off + 2) 0) (buf.getD (off + 3) 0) = al.toNat := by
          rw [haln]; simp [be16, getwN, byteN, STUN_ATTRIBUTE_TYPE_LEN, Nat.add_assoc]
        rw [hbt, hbl] at hp
        have hallt : al.toNat < 65536 := by rw [haln]; exact getwN_lt _ _
        have hstep : (if noalign then al.toNat else alignN al.toNat) = al.toNat + padLen (!noalign) al.toNat := by
          have := walk_step (!noalign) al.toNat hallt
          cases noalign <;> simpa using this
        split at hp
        · rename_i hfit
          rw [seg_drop] at hp
          cases hrec : parseFrom (!noalign) (off + 4 + (al.toNat + padLen (!noalign) al.toNat))
              (seg buf (off + 4 + (al.toNat + padLen (!noalign) al.toNat))
                (len - 4 - (al.toNat + padLen (!noalign) al.toNat))) with
          | none => rw [hrec] at hp; cases hp
          | some as =>
            rw [hrec] at hp
            injection hp with hp
            subst hp
            have hfit' : al.toNat + padLen (!noalign) al.toNat ≤ len - 4 := by
              rw [seg_length (by omega)] at hfit; exact hfit
            unfold refFindRec
            simp only
            by_cases heq : at_ = type
            · have : at_.toNat = type.toNat := by rw [heq]
              rw [if_pos (by simpa using heq), if_pos this]
              rfl
            · have hne : ¬ at_.toNat = type.toNat := fun h => heq (UInt16.toNat_inj.mp h)
              rw [if_neg (by simpa using heq), if_neg hne]
              by_cases hmi : at_ = tMI ∧ type ≠ tFPR
              · have h1 : (at_ == tMI && type != tFPR) = true := by simp [hmi.1, hmi.2]
                have h2 : at_.toNat = MESSAGE_INTEGRITY ∧ type.toNat ≠ FINGERPRINT := by
                  refine ⟨by rw [hmi.1, tMI_toNat], fun h => hmi.2 (UInt16.toNat_inj.mp (by rw [h, tFPR_toNat]))⟩
                rw [if_pos h1, if_pos h2]; rfl
              · have h1 : ¬ (at_ == tMI && type != tFPR) = true := by
                  intro h; simp at h; exact hmi ⟨h.1, h.2⟩
                have h2 : ¬ (at_.toNat = MESSAGE_INTEGRITY ∧ type.toNat ≠ FINGERPRINT) := by
                  intro h; apply hmi
                  refine ⟨UInt16.toNat_inj.mp (by rw [h.1, tMI_toNat]), fun hc => h.2 (by rw [hc, tFPR_toNat])⟩
                rw [if_neg h1, if_neg h2]
                by_cases hfp : at_ = tFPR
                · rw [if_pos (by simpa using hfp), if_pos (by rw [hfp, tFPR_toNat])]; rfl
                · have h3 : ¬ at_.toNat = FINGERPRINT := fun h => hfp (UInt16.toNat_inj.mp (by rw [h, tFPR_toNat]))
                  rw [if_neg (by simpa using hfp), if_neg h3, hstep]
                  have := ih (len - 4 - (al.toNat + padLen (!noalign) al.toNat)) (by omega)
                    (off + 4 + (al.toNat + padLen (!noalign) al.toNat)) (by omega) as hrec
                  simpa [STUN_ATTRIBUTE_VALUE_POS] using this
        · cases hp

end Nice.Stun
