/-
  C08 end-to-end (send side), part 1: the ghost stream `Q` of everything queued into the send ring (connect message,
  then the bytes `send` accepted), the sender invariant `SInv` (ring content = `Q[a ..]`, `snd_una ≡ a + f`, every data
  packet written so far carries the slice of `Q` at an absolute position congruent to its sequence number), and its
  preservation by the sending half of `Nice.PTcp`.
-/
import Nice.Proofs.PTcpStreamRecv
namespace Nice.Proofs.PTcpStream
open Nice.PTcp Nice.Gen Nice.Proofs.PTcp Std.Do

set_option mvcgen.warning false
set_option maxRecDepth 16000
set_option linter.unusedSimpArgs false

/-- the payload is empty, or it is the slice of `Q` at an absolute position `k ≡ seq (mod 2^32)` -/
def PktSlice (Q : List UInt8) (seq : UInt32) (payload : Array UInt8) : Prop :=
  payload.size = 0 ∨ ∃ k, k % 2 ^ 32 = seq.toNat ∧ k + payload.size ≤ Q.length ∧
    ∀ j, j < payload.size → payload[j]?.getD 0 = Q.getD (k + j) 0

/-- a written packet is a 24-byte header for some sequence number followed by a `PktSlice` payload -/
def EvOk (Q : List UInt8) : Event → Prop
  | .packet b => ∃ (s0 : Sock) (seq : UInt32) (fl : UInt8) (wnd : UInt16) (now : UInt32) (payload : Array UInt8),
      b = buildHeader s0 seq fl wnd now ++ payload ∧ PktSlice Q seq payload
  | _ => True

theorem evOk_packet (Q : List UInt8) (s0 : Sock) (seq : UInt32) (fl : UInt8) (wnd : UInt16) (now : UInt32)
    (payload : Array UInt8) (h : PktSlice Q seq payload) :
    EvOk Q (.packet (buildHeader s0 seq fl wnd now ++ payload)) := ⟨s0, seq, fl, wnd, now, payload, rfl, h⟩

def OutOk (Q : List UInt8) (out : Array Event) : Prop := ∀ e, e ∈ out → EvOk Q e

theorem outOk_push {Q : List UInt8} {out : Array Event} {e : Event} (h : OutOk Q out) (he : EvOk Q e) :
    OutOk Q (out.push e) := by
  intro x hx
  rcases Array.mem_push.mp hx with hx | hx
  · exact h x hx
  · rw [hx]; exact he

theorem outOk_pushIf {Q : List UInt8} {out : Array Event} {e : Event} {c : Bool} (h : OutOk Q out) (he : EvOk Q e) :
    OutOk Q (if c then out.push e else out) := by
  cases c
  · exact h
  · exact outOk_push h he

theorem pktSlice_mono {Q : List UInt8} (X : List UInt8) {seq : UInt32} {pl : Array UInt8} (h : PktSlice Q seq pl) :
    PktSlice (Q ++ X) seq pl := by
  rcases h with h | ⟨k, h1, h2, h3⟩
  · exact Or.inl h
  · refine Or.inr ⟨k, h1, by rw [List.length_append]; omega, ?_⟩
    intro j hj
    rw [h3 j hj, List.getD_eq_getElem?_getD, List.getD_eq_getElem?_getD, List.getElem?_append_left (by omega)]

theorem outOk_mono {Q : List UInt8} (X : List UInt8) {out : Array Event} (h : OutOk Q out) : OutOk (Q ++ X) out := by
  intro e he
  have := h e he
  cases e with
  | packet b =>
    obtain ⟨s0, seq, fl, wnd, now, pl, e1, e2⟩ := this
    exact ⟨s0, seq, fl, wnd, now, pl, e1, pktSlice_mono X e2⟩
  | _ => trivial

/-- **the sender invariant.**  `a` = bytes acknowledged and dropped from the ring, `f` = FIN sequence numbers
    acknowledged. -/
structure SInv (Q : List UInt8) (a f : Nat) (s : Sock) : Prop where
  fok : FOk s.sbuf
  len : a + s.sbuf.data = Q.length
  com : ∀ i, i < s.sbuf.data → byteAt s.sbuf i = Q.getD (a + i) 0
  una : s.snd_una.toNat = (a + f) % 2 ^ 32
  fz : f ≠ 0 → hasSentFin s.state = true ∧ s.sbuf.data = 0
  lq : s.state = .listen → Q = []
  out : OutOk Q s.out

def SInvE (Q : List UInt8) (s : Sock) : Prop := ∃ a f, SInv Q a f s

/-- closes `SInvE Q s'` when `s'` differs from a socket known to satisfy it in fields the invariant does not read, or
    in callbacks appended to `out` -/
macro "sinv" : tactic => `(tactic| (
  first
  | assumption
  | (obtain ⟨a, f, h⟩ := ‹SInvE _ _›
     exact ⟨a, f, h.fok, h.len, h.com, h.una, h.fz, h.lq,
       by first
          | exact h.out
          | exact outOk_push h.out True.intro
          | exact outOk_pushIf h.out True.intro⟩)
  | skip))

section
variable (Q : List UInt8)

/-- `set_state` / `set_state_closed` / the state navigation of `closedown`, with the callback log made explicit -/
theorem setStateClosed_eq' {s s' : Sock} {e : Err} (h : setStateClosed s e = .ok s') :
    s' = { s with state := .closed, out := if e != .none then s.out.push (.closed e) else s.out } := by
  unfold setStateClosed at h
  obtain ⟨s1, h1, h⟩ := bind_ok h
  simp only [pure, Except.pure] at h
  cases h
  rw [setState_eq h1]; rfl

theorem closedownNav_eq' {s s' : Sock} {e : Err} (h : closedownNav s e = .ok s') :
    s' = { s with state := .closed, out := if e != .none then s.out.push (.closed e) else s.out } := by
  unfold closedownNav at h
  obtain ⟨s1, h1, h2⟩ := bind_ok h
  have ho := setStateClosed_eq' h2
  have : SBS s s1 := by
    cases hs : s.state <;> simp only [hs] at h1
    all_goals first
      | (cases h1; exact SBS.refl _)
      | exact setState_sbs h1
      | (obtain ⟨a, ha, h1⟩ := bind_ok h1
         first
           | exact (setState_sbs ha).trans (setState_sbs h1)
           | (obtain ⟨b, hb, h1⟩ := bind_ok h1
              exact ((setState_sbs ha).trans (setState_sbs hb)).trans (setState_sbs h1)))
  obtain ⟨st, hst⟩ := this
  subst hst
  exact ho

theorem sinv_closed {a f : Nat} {s : Sock} (o : Array Event) (h : SInv Q a f s) (ho : OutOk Q o) :
    SInv Q a f { s with state := .closed, out := o } :=
  ⟨h.fok, h.len, h.com, h.una, fun hf => ⟨rfl, (h.fz hf).2⟩, fun e => (by cases e), ho⟩

theorem closedownNav_sspec (s : Sock) (e : Err) :
    ⦃⌜SInvE Q s⌝⦄ closedownNav s e ⦃⇓? s' => ⌜SInvE Q s'⌝⦄ :=
  to_triple fun hi s' h => by
    obtain ⟨a, f, hi⟩ := hi
    rw [closedownNav_eq' h]
    exact ⟨a, f, sinv_closed Q _ hi (outOk_pushIf hi.out True.intro)⟩

theorem setStateClosed_sspec (s : Sock) (e : Err) :
    ⦃⌜SInvE Q s⌝⦄ setStateClosed s e ⦃⇓? s' => ⌜SInvE Q s'⌝⦄ :=
  to_triple fun hi s' h => by
    obtain ⟨a, f, hi⟩ := hi
    rw [setStateClosed_eq' h]
    exact ⟨a, f, sinv_closed Q _ hi (outOk_pushIf hi.out True.intro)⟩

/-- a state change that keeps "has sent FIN" and does not go back to LISTEN -/
theorem setState_sinv {a f : Nat} (s s' : Sock) (t : TcpState) (hi : SInv Q a f s) (ht : t ≠ .listen)
    (hm : hasSentFin s.state = true → hasSentFin t = true) (h : setState s t = .ok s') : SInv Q a f s' := by
  rw [setState_eq h]
  exact ⟨hi.fok, hi.len, hi.com, hi.una, fun hf => ⟨hm (hi.fz hf).1, (hi.fz hf).2⟩, fun e => absurd e ht, hi.out⟩

theorem adjustMTU_sspec (s : Sock) : ⦃⌜SInvE Q s⌝⦄ adjustMTU s ⦃⇓? s' => ⌜SInvE Q s'⌝⦄ := by
  mvcgen [adjustMTU, adjustMTULevel_spec] <;> sinv

/-- **`packet`**: a data packet is built from the ring at the offset `seq - snd_una` only -/
theorem packet_sinv (s : Sock) (seq : UInt32) (fl : UInt8) (off len now : UInt32) (r : WriteResult × Sock)
    (hi : SInvE Q s) (hoff : len ≠ 0 → off = seq - s.snd_una) (h : packet s seq fl off len now = .ok r) :
    SInvE Q r.2 := by
  obtain ⟨a, f, hi⟩ := hi
  by_cases hl : len = 0
  · -- no payload
    subst hl
    unfold packet at h
    simp only [fault] at h
    split at h
    · cases h
    · split at h
      · cases h
      · have e0 : ((0 : UInt32) != 0) = false := rfl
        simp only [e0, Bool.false_eq_true, if_false, Bool.and_false, pure, Except.pure, bind, Except.bind] at h
        cases h
        refine ⟨a, f, hi.fok, hi.len, hi.com, hi.una, hi.fz, hi.lq, ?_⟩
        have := evOk_packet Q s seq fl (s.rcv_wnd >>> s.rwnd_scale.toUInt32).toUInt16 now #[] (Or.inl rfl)
        rw [Array.append_empty] at this
        exact outOk_push hi.out this
  · obtain ⟨rr, s'⟩ := r
    have ⟨payload, ho, hsz, hby⟩ := Nice.Props.C08.C08_sender_payload_from_ring s s' seq fl off len now rr
      hi.fok.1 hi.fok.2 hl h
    -- the other fields
    have hrest : s'.sbuf = s.sbuf ∧ s'.snd_una = s.snd_una ∧ s'.state = s.state := by
      unfold packet at h
      simp only [fault] at h
      split at h
      · cases h
      · split at h
        · cases h
        · obtain ⟨buffer, _, h⟩ := bind_ok h
          split at h
          · simp only [pure, Except.pure] at h; cases h; exact ⟨rfl, rfl, rfl⟩
          · simp only [pure, Except.pure] at h; cases h; exact ⟨rfl, rfl, rfl⟩
    obtain ⟨e1, e2, e3⟩ := hrest
    -- the read succeeded with `len` bytes: they are inside the buffered data
    have hin : off.toNat + len.toNat ≤ s.sbuf.data := by
      unfold packet at h
      simp only [fault] at h
      split at h
      · cases h
      · split at h
        · cases h
        · have hl' : (len != 0) = true := by simpa using hl
          simp only [hl', if_true] at h
          obtain ⟨buffer, hb, h⟩ := bind_ok h
          obtain ⟨bytes, hro, hb⟩ := bind_ok hb
          have ⟨hs, _⟩ := readOffset_content hi.fok.1 hi.fok.2 hro
          by_cases hne : (bytes.size != len.toNat) = true
          · simp only [hne, if_true, bind, Except.bind, fault] at hb; cases hb
          · have : bytes.size = len.toNat := by simpa using hne
            have hlen : 0 < len.toNat := (UInt32.lt_iff_toNat_lt).mp (u32_pos hl)
            omega
    have hlen : 0 < len.toNat := (UInt32.lt_iff_toNat_lt).mp (u32_pos hl)
    have hf0 : f = 0 := by
      apply Classical.byContradiction
      intro hf; have := (hi.fz hf).2; omega
    subst hf0
    refine ⟨a, 0, by rw [e1]; exact hi.fok, by rw [e1]; exact hi.len, by rw [e1]; exact hi.com,
      by rw [e2]; exact hi.una, fun hf => absurd rfl hf, by rw [e3]; exact hi.lq, ?_⟩
    rw [ho]
    refine outOk_push hi.out (evOk_packet Q s seq fl _ now payload (Or.inr ⟨a + off.toNat, ?_, ?_, ?_⟩))
    · -- (a + off) % 2^32 = seq
      have hu := hi.una
      rw [hoff hl] at *
      have : (s.snd_una + (seq - s.snd_una)).toNat = seq.toNat := by
        congr 1
        rw [UInt32.add_comm, UInt32.sub_add_cancel]
      rw [UInt32.toNat_add] at this
      rw [hu] at this
      omega
    · rw [hsz]; have := hi.len; omega
    · intro j hj
      rw [hby j (by omega), hi.com _ (by omega)]
      congr 1; omega

theorem packet_sspec (s : Sock) (seq : UInt32) (fl : UInt8) (off len now : UInt32) :
    ⦃⌜SInvE Q s ∧ (len ≠ 0 → off = seq - s.snd_una)⌝⦄ packet s seq fl off len now ⦃⇓? r => ⌜SInvE Q r.2⌝⦄ :=
  to_triple fun hp r h => packet_sinv Q s seq fl off len now r hp.1 hp.2 h

end

/-- `sinv`, also for the precondition of `packet` -/
macro "sinv2" : tactic => `(tactic| (
  first
  | sinv; done
  | (refine ⟨?_, ?_⟩
     · sinv
     · first
       | (intro _; exact True.intro)
       | (intro _; rfl)
       | (intro h; exact absurd rfl h)
       | trivial)
  | skip))

section
variable (Q : List UInt8)

theorem mssDownLoop_sspec (fuel : Nat) (s : Sock) (k : UInt32) :
    ⦃⌜SInvE Q s⌝⦄ mssDownLoop fuel s k ⦃⇓? r => ⌜SInvE Q r.2.1⌝⦄ := by
  induction fuel generalizing s k with
  | zero => mvcgen [mssDownLoop]
  | succ f ih => mvcgen [mssDownLoop, pktMax_spec, ih] <;> sinv2

theorem transmitLoop_sspec (idx : Nat) (now : UInt32) (fuel : Nat) (s : Sock) (k : UInt32) :
    ⦃⌜SInvE Q s⌝⦄ transmitLoop idx now fuel s k ⦃⇓? r => ⌜SInvE Q r.2.1⌝⦄ := by
  induction fuel generalizing s k with
  | zero => mvcgen [transmitLoop]
  | succ f ih =>
    have h1 := packet_sspec Q
    have h2 := mssDownLoop_sspec Q
    mvcgen [transmitLoop, h1, h2, ih] <;> sinv2

theorem transmit_sspec (s : Sock) (idx : Nat) (now : UInt32) :
    ⦃⌜SInvE Q s⌝⦄ transmit s idx now ⦃⇓? r => ⌜SInvE Q r.2⌝⦄ := by
  have h1 := transmitLoop_sspec Q
  mvcgen [transmit, h1] <;> sinv2

theorem attemptSendLoop_sspec (now : UInt32) (fuel : Nat) (s : Sock) (sf : SendFlags) :
    ⦃⌜SInvE Q s⌝⦄ attemptSendLoop now fuel s sf ⦃⇓? s' => ⌜SInvE Q s'⌝⦄ := by
  induction fuel generalizing s sf with
  | zero => mvcgen [attemptSendLoop]
  | succ f ih =>
    have h1 := packet_sspec Q
    have h2 := transmit_sspec Q
    have h3 := closedownNav_sspec Q
    mvcgen [attemptSendLoop, h1, h2, h3, ih] <;> sinv2

theorem attemptSend_sspec (s : Sock) (sf : SendFlags) (clk : UInt32) :
    ⦃⌜SInvE Q s⌝⦄ attemptSend s sf clk ⦃⇓? s' => ⌜SInvE Q s'⌝⦄ := by
  have h1 := attemptSendLoop_sspec Q
  mvcgen [attemptSend, h1] <;> sinv2

end

end Nice.Proofs.PTcpStream
