/-
  C08 end-to-end (send side), part 5: every public operation keeps the sender invariant; `send` appends exactly the bytes
  it reports as accepted; ghost-instrumented histories.
-/
import Nice.Proofs.PTcpStreamSnd4
namespace Nice.Proofs.PTcpStream
open Nice.PTcp Nice.Gen Nice.Proofs.PTcp Std.Do

set_option mvcgen.warning false
set_option maxRecDepth 16000
set_option linter.unusedSimpArgs false

theorem toInt32_small (w : UInt32) (h : w.toNat < 2 ^ 31) : w.toInt32.toInt = (w.toNat : Int) := by
  show w.toInt32.toBitVec.toInt = _
  rw [UInt32.toBitVec_toInt32, BitVec.toInt_eq_toNat_of_lt (x := w.toBitVec) (by show 2 * w.toNat < 2 ^ 32; omega)]
  rfl

/-- the bytes of `d` that a `send` returning `ret` reported as accepted (`ret ≤ 0`: none) -/
def sentOf (d : Array UInt8) (ret : Int) : List UInt8 := firstBytes d ret.toNat

section
variable (Q : List UInt8)

/-- **`send`** appends to the stream exactly the `ret` bytes it reports as accepted -/
theorem send_sinv (s : Sock) (d : Array UInt8) (clk : UInt32) (ret : Int) (s' : Sock) (hd : d.size < 2 ^ 31)
    (hi : SInvE Q s) (h : send s d clk = .ok (ret, s')) : SInvE (Q ++ sentOf d ret) s' := by
  have e0 : sentOf d (-1) = [] := rfl
  unfold send at h
  simp only at h
  split at h
  · simp only [pure, Except.pure] at h
    cases h
    rw [e0, List.append_nil]; sinv
  · rename_i hst
    split at h
    · simp only [pure, Except.pure] at h
      cases h
      rw [e0, List.append_nil]; sinv
    · obtain ⟨⟨w, s1⟩, hq, h⟩ := bind_ok h
      obtain ⟨s2, h2, h⟩ := bind_ok h
      simp only [pure, Except.pure] at h
      cases h
      obtain ⟨a, f, hi⟩ := hi
      have hest : s.state = .established := Classical.not_not.mp hst
      have ⟨k1, k2, _⟩ := queue_sinv Q s d _ _ _ hi (Or.inl (by rw [hest]; exact ⟨rfl, by decide⟩)) hq
      have hlen : (UInt32.ofNat d.size).toNat = d.size := by rw [UInt32.toNat_ofNat']; omega
      have hw : w.toNat < 2 ^ 31 := by
        have : w.toNat ≤ (UInt32.ofNat d.size).toNat := k2
        omega
      have e1 : sentOf d w.toInt32.toInt = firstBytes d w.toNat := by
        unfold sentOf; rw [toInt32_small w hw]; rfl
      rw [e1]
      have k3 : SInvE (Q ++ firstBytes d w.toNat) s1 := ⟨a, f, k1⟩
      have k4 := of_triple_pre (attemptSend_sspec _ s1 .sfNone clk) k3 s2 h2
      sinv

/-- **`connect`**: the stream grows by the connect message, and only in LISTEN -/
theorem connect_sinv (s : Sock) (clk : UInt32) (r : Bool × Sock) (hi : SInvE Q s) (h : connect s clk = .ok r) :
    ∃ X, SInvE (Q ++ X) r.2 ∧ (X = [] ∨ s.state = .listen) := by
  unfold connect at h
  split at h
  · cases h; exact ⟨[], sinvE_nil Q (by sinv), Or.inl rfl⟩
  · rename_i hst
    have hl : s.state = .listen := Classical.not_not.mp hst
    obtain ⟨s1, h1, h⟩ := bind_ok h
    obtain ⟨s2, h2, h⟩ := bind_ok h
    obtain ⟨s3, h3, h⟩ := bind_ok h
    simp only [pure, Except.pure] at h
    cases h
    have k1 : SInvE Q s1 := by
      rw [setState_eq h1]
      exact sinvE_state Q _ hi (fun e => by cases e) (fun e => by rw [hl] at e; cases e)
    have e1 : s1.state = .synSent := by rw [setState_eq h1]
    obtain ⟨X, k2, _⟩ := queueConnectMessage_sinv Q s1 s2 k1 (by rw [e1]; exact ⟨rfl, by decide⟩) h2
    exact ⟨X, of_triple_pre (attemptSend_sspec _ s2 .sfNone clk) k2 s3 h3, Or.inr hl⟩

theorem notifyMtu_sspec (s : Sock) (m : UInt16) : ⦃⌜SInvE Q s⌝⦄ notifyMtu s m ⦃⇓? r => ⌜SInvE Q r⌝⦄ := by
  have h1 := adjustMTU_sspec Q
  mvcgen [notifyMtu, h1] <;> sinv

theorem clockRetransmit_sspec (s : Sock) (now clk : UInt32) :
    ⦃⌜SInvE Q s⌝⦄ clockRetransmit s now clk ⦃⇓? r => ⌜SInvE Q r.2⌝⦄ := by
  have h1 := transmit_sspec Q
  have h2 := closedown_sspec Q
  mvcgen [clockRetransmit, h1, h2] <;> sinv

theorem clockProbe_sspec (s : Sock) (now clk : UInt32) :
    ⦃⌜SInvE Q s⌝⦄ clockProbe s now clk ⦃⇓? r => ⌜SInvE Q r.2⌝⦄ := by
  have h1 := packet_sspec Q
  have h2 := closedown_sspec Q
  mvcgen [clockProbe, h1, h2] <;> sinv2

theorem clockDelayedAck_sspec (s : Sock) (now : UInt32) :
    ⦃⌜SInvE Q s⌝⦄ clockDelayedAck s now ⦃⇓? r => ⌜SInvE Q r⌝⦄ := by
  have h1 := packet_sspec Q
  mvcgen [clockDelayedAck, h1] <;> sinv2

theorem clockFinStates_sspec (s : Sock) (clk : UInt32) :
    ⦃⌜SInvE Q s⌝⦄ clockFinStates s clk ⦃⇓? r => ⌜SInvE Q r⌝⦄ := by
  have h1 := setStateClosed_sspec Q
  have h2 := queueFinMessage_sspec Q
  have h3 := attemptSend_sspec Q
  mvcgen [clockFinStates, h1, h2, h3] <;> sinv

theorem notifyClock_sspec (s : Sock) (clk : UInt32) :
    ⦃⌜SInvE Q s⌝⦄ notifyClock s clk ⦃⇓? r => ⌜SInvE Q r⌝⦄ := by
  have h1 := clockFinStates_sspec Q
  have h2 := clockRetransmit_sspec Q
  have h3 := clockProbe_sspec Q
  have h4 := clockDelayedAck_sspec Q
  mvcgen [notifyClock, h1, h2, h3, h4] <;> sinv

theorem getNextClock_sspec (s : Sock) (t : UInt64) (clk : UInt32) :
    ⦃⌜SInvE Q s⌝⦄ getNextClock s t clk ⦃⇓? r => ⌜SInvE Q r.2.2⌝⦄ := by
  have h1 := closedown_sspec Q
  mvcgen [getNextClock, h1] <;> sinv

theorem fread_tspec (b : Fifo) (k : Nat) : ⦃⌜True⌝⦄ b.read k ⦃⇓? _ => ⌜True⌝⦄ := triv_spec _

theorem recv_sspec (s : Sock) (k : Nat) (clk : UInt32) :
    ⦃⌜SInvE Q s⌝⦄ recv s k clk ⦃⇓? r => ⌜SInvE Q r.2.2⌝⦄ := by
  have h1 := attemptSend_sspec Q
  mvcgen [recv, fread_tspec, h1] <;> sinv

/-- a state change to a "has sent FIN" state -/
theorem setState_hsf_sspec (t : TcpState) (ht : hasSentFin t = true) (s : Sock) :
    ⦃⌜SInvE Q s⌝⦄ setState s t ⦃⇓? s' => ⌜SInvE Q s'⌝⦄ :=
  to_triple fun hi s' h => by
    rw [setState_eq h]
    exact sinvE_state Q t hi (fun e => by rw [e] at ht; cases ht) (fun _ => ht)

theorem shutdown_sspec (s : Sock) (how : ShutdownHow) (clk : UInt32) :
    ⦃⌜SInvE Q s⌝⦄ shutdown s how clk ⦃⇓? r => ⌜SInvE Q r⌝⦄ := by
  have h1 := setStateClosed_sspec Q
  have h2 := closedown_sspec Q
  have h3 := queueFinMessage_sspec Q
  have h4 := attemptSend_sspec Q
  have h5 := setState_hsf_sspec Q .finWait1 rfl
  have h6 := setState_hsf_sspec Q .lastAck rfl
  mvcgen [shutdown, h1, h2, h3, h4, h5, h6] <;> sinv

theorem close_sspec (s : Sock) (f : Bool) (clk : UInt32) :
    ⦃⌜SInvE Q s⌝⦄ close s f clk ⦃⇓? r => ⌜SInvE Q r⌝⦄ := by
  have h1 := closedown_sspec Q
  have h2 := shutdown_sspec Q
  mvcgen [close, h1, h2] <;> sinv

theorem setRcvBuf_sspec (s : Sock) (v : UInt32) :
    ⦃⌜SInvE Q s⌝⦄ setRcvBuf s v ⦃⇓? r => ⌜SInvE Q r⌝⦄ :=
  to_triple fun hi r h => by
    unfold setRcvBuf at h
    split at h
    · cases h; exact hi
    · exact (of_triple_pre (resizeReceiveBuffer_sspec Q s.state s v) ⟨hi, rfl⟩ r h).1

/-- the send buffer is resized in LISTEN only, where nothing has been queued yet -/
theorem setSndBuf_sinv (s : Sock) (v : UInt32) (r : Sock) (hi : SInvE Q s) (h : setSndBuf s v = .ok r) :
    SInvE Q r := by
  unfold setSndBuf at h
  split at h
  · cases h; exact hi
  · rename_i hst
    have hl : s.state = .listen := Classical.not_not.mp hst
    obtain ⟨a, f, hi⟩ := hi
    have hq := hi.lq hl
    have hlen := hi.len
    unfold resizeSendBuffer at h
    obtain ⟨⟨b, sb⟩, hsc, h⟩ := bind_ok h
    simp only [pure, Except.pure] at h
    cases h
    have ⟨g1, g2⟩ := setCapacity_ok hi.fok.1 hsc
    have hd0 : s.sbuf.data = 0 := by rw [hq] at hlen; simp at hlen; omega
    have hsd : sb.data = 0 := by
      rcases g2 with g2 | g2
      · rw [g2]; exact hd0
      · rw [g2.2.2]; exact hd0
    have hsz : sb.buf.size < 2 ^ 64 := by
      rcases g2 with g2 | g2
      · rw [g2]; exact hi.fok.2
      · rw [g2.2.1]; exact u32_lt_64 v
    refine ⟨a, f, ⟨g1, hsz⟩, by show a + sb.data = _; rw [hsd, ← hlen, hd0], ?_, hi.una, ?_, hi.lq, hi.out⟩
    · intro i hi'
      have : i < sb.data := hi'
      omega
    · intro hf
      exact ⟨(hi.fz hf).1, hsd⟩

end

/-! ### ghost-instrumented histories (send side) -/

/-- every `send` is asked for less than 2^31 bytes (beyond that the C return value `gint` cannot report the count) -/
def OpOkS : Op → Prop
  | .send d => d.size < 2 ^ 31
  | _ => True

/-- `step` that also returns the bytes `send` reported as accepted (empty for every other operation) -/
def stepS (s : Sock) (clk : UInt32) : Op → R (Sock × List UInt8)
  | .send d => do let (ret, s) ← send s d clk; pure (s, sentOf d ret)
  | op => do let s ← step s clk op; pure (s, [])

/-- `run` that also accumulates everything `send` reported as accepted -/
def runS (s : Sock) (sent : List UInt8) : List (UInt32 × Op) → R (Sock × List UInt8)
  | [] => pure (s, sent)
  | (clk, op) :: rest => do let (s, x) ← stepS s clk op; runS s (sent ++ x) rest

theorem eraseS_aux (x : R Sock) : (x >>= fun s => pure (s, ([] : List UInt8))).map (·.1) = x := by
  cases x <;> rfl

theorem stepS_erase (s : Sock) (clk : UInt32) (op : Op) : (stepS s clk op).map (·.1) = step s clk op := by
  cases op
  case send d =>
    show ((send s d clk >>= fun r => pure (r.2, sentOf d r.1)) : R (Sock × List UInt8)).map (·.1) =
      (send s d clk >>= fun r => pure r.2)
    cases send s d clk <;> rfl
  all_goals exact eraseS_aux _

theorem runS_erase (s : Sock) (sent : List UInt8) (ops : List (UInt32 × Op)) :
    (runS s sent ops).map (·.1) = run s ops := by
  induction ops generalizing s sent with
  | nil => rfl
  | cons x rest ih =>
    obtain ⟨clk, op⟩ := x
    simp only [runS, run]
    rw [← stepS_erase]
    cases h : stepS s clk op with
    | error e => rfl
    | ok v => exact ih v.1 _

/-- the stream is the connect message (queued at most once, before anything is sent) followed by what `send` accepted -/
def SG (sent : List UInt8) (s : Sock) : Prop := ∃ ctl, SInvE (ctl ++ sent) s

theorem sg_grow {sent : List UInt8} {s s' : Sock} (hi : SG sent s) (X : List UInt8)
    (h : ∀ Q, SInvE Q s → SInvE (Q ++ X) s') (hx : X = [] ∨ s.state = .listen) : SG sent s' := by
  obtain ⟨ctl, hc⟩ := hi
  rcases hx with hx | hx
  · subst hx
    have := h _ hc
    rw [List.append_nil] at this
    exact ⟨ctl, this⟩
  · obtain ⟨a, f, hc'⟩ := hc
    have hq := hc'.lq hx
    have hs : sent = [] := (List.append_eq_nil_iff.mp hq).2
    have := h _ ⟨a, f, hc'⟩
    rw [hq] at this
    refine ⟨X, ?_⟩
    rw [hs, List.append_nil]
    simpa using this

theorem stepS_sg (s : Sock) (clk : UInt32) (op : Op) (s' : Sock) (x sent : List UInt8) (hop : OpOkS op)
    (hi : SG sent s) (h : stepS s clk op = .ok (s', x)) : SG (sent ++ x) s' := by
  have keep : ∀ s1 : Sock, (∀ Q, SInvE Q s → SInvE Q s1) → SG (sent ++ []) s1 := by
    intro s1 hk
    rw [List.append_nil]
    obtain ⟨ctl, hc⟩ := hi
    exact ⟨ctl, hk _ hc⟩
  cases op with
  | send d =>
    simp only [stepS] at h
    obtain ⟨⟨ret, s1⟩, h1, h⟩ := bind_ok h
    simp only [pure, Except.pure] at h
    cases h
    obtain ⟨ctl, hc⟩ := hi
    refine ⟨ctl, ?_⟩
    rw [← List.append_assoc]
    exact send_sinv _ s d clk ret s' hop hc h1
  | packet p =>
    simp only [stepS, step] at h
    obtain ⟨s1, h1, h⟩ := bind_ok h
    obtain ⟨⟨r1, r2⟩, h2, h1⟩ := bind_ok h1
    simp only [pure, Except.pure] at h h1
    cases h; cases h1
    rw [List.append_nil]
    obtain ⟨ctl, hc⟩ := hi
    obtain ⟨X, k1, k2⟩ := notifyPacket_sinv _ s p clk _ hc h2
    rcases k2 with k2 | k2
    · subst k2; rw [List.append_nil] at k1; exact ⟨ctl, k1⟩
    · obtain ⟨a, f, hc'⟩ := hc
      have hq := hc'.lq k2
      have hs : sent = [] := (List.append_eq_nil_iff.mp hq).2
      rw [hq] at k1
      refine ⟨X, ?_⟩
      rw [hs, List.append_nil]
      simpa using k1
  | connect =>
    simp only [stepS, step] at h
    obtain ⟨s1, h1, h⟩ := bind_ok h
    obtain ⟨⟨r1, r2⟩, h2, h1⟩ := bind_ok h1
    simp only [pure, Except.pure] at h h1
    cases h; cases h1
    rw [List.append_nil]
    obtain ⟨ctl, hc⟩ := hi
    obtain ⟨X, k1, k2⟩ := connect_sinv _ s clk _ hc h2
    rcases k2 with k2 | k2
    · subst k2; rw [List.append_nil] at k1; exact ⟨ctl, k1⟩
    · obtain ⟨a, f, hc'⟩ := hc
      have hq := hc'.lq k2
      have hs : sent = [] := (List.append_eq_nil_iff.mp hq).2
      rw [hq] at k1
      refine ⟨X, ?_⟩
      rw [hs, List.append_nil]
      simpa using k1
  | recv k =>
    simp only [stepS, step] at h
    obtain ⟨s1, h1, h⟩ := bind_ok h
    obtain ⟨⟨r1, r2, r3⟩, h2, h1⟩ := bind_ok h1
    simp only [pure, Except.pure] at h h1
    cases h; cases h1
    exact keep _ (fun Q hq => of_triple_pre (recv_sspec Q s k clk) hq _ h2)
  | setRcvBuf v =>
    simp only [stepS, step] at h
    obtain ⟨s1, h1, h⟩ := bind_ok h
    simp only [pure, Except.pure] at h; cases h
    exact keep _ (fun Q hq => of_triple_pre (setRcvBuf_sspec Q s v) hq _ h1)
  | setSndBuf v =>
    simp only [stepS, step] at h
    obtain ⟨s1, h1, h⟩ := bind_ok h
    simp only [pure, Except.pure] at h; cases h
    exact keep _ (fun Q hq => setSndBuf_sinv Q s v _ hq h1)
  | setNoDelay v =>
    simp only [stepS, step, pure, Except.pure, bind, Except.bind] at h
    cases h; exact keep _ (fun Q hq => by sinv)
  | setAckDelay v =>
    simp only [stepS, step, pure, Except.pure, bind, Except.bind] at h
    cases h; exact keep _ (fun Q hq => by sinv)
  | setTime v =>
    simp only [stepS, step, pure, Except.pure, bind, Except.bind, setTime] at h
    cases h; exact keep _ (fun Q hq => by sinv)
  | setWres v =>
    simp only [stepS, step, pure, Except.pure, bind, Except.bind] at h
    cases h; exact keep _ (fun Q hq => by sinv)
  | clock =>
    simp only [stepS, step] at h
    obtain ⟨s1, h1, h⟩ := bind_ok h
    simp only [pure, Except.pure] at h; cases h
    exact keep _ (fun Q hq => of_triple_pre (notifyClock_sspec Q s clk) hq _ h1)
  | nextClock t0 =>
    simp only [stepS, step] at h
    obtain ⟨s1, h1, h⟩ := bind_ok h
    obtain ⟨⟨r1, r2, r3⟩, h2, h1⟩ := bind_ok h1
    simp only [pure, Except.pure] at h h1
    cases h; cases h1
    exact keep _ (fun Q hq => of_triple_pre (getNextClock_sspec Q s t0 clk) hq _ h2)
  | shutdown hw =>
    simp only [stepS, step] at h
    obtain ⟨s1, h1, h⟩ := bind_ok h
    simp only [pure, Except.pure] at h; cases h
    exact keep _ (fun Q hq => of_triple_pre (shutdown_sspec Q s hw clk) hq _ h1)
  | close f =>
    simp only [stepS, step] at h
    obtain ⟨s1, h1, h⟩ := bind_ok h
    simp only [pure, Except.pure] at h; cases h
    exact keep _ (fun Q hq => of_triple_pre (close_sspec Q s f clk) hq _ h1)
  | mtu m =>
    simp only [stepS, step] at h
    obtain ⟨s1, h1, h⟩ := bind_ok h
    simp only [pure, Except.pure] at h; cases h
    exact keep _ (fun Q hq => of_triple_pre (notifyMtu_sspec Q s m) hq _ h1)
  | availSendSpace =>
    simp only [stepS, step, pure, Except.pure, bind, Except.bind, getAvailableSendSpace] at h
    cases h; exact keep _ (fun Q hq => by sinv)

theorem runS_sg (ops : List (UInt32 × Op)) :
    ∀ (s : Sock) (sent : List UInt8) (s' : Sock) (sent' : List UInt8), SG sent s →
      (∀ x, x ∈ ops → OpOkS x.2) → runS s sent ops = .ok (s', sent') → SG sent' s' ∧ sent <+: sent' := by
  induction ops with
  | nil =>
    intro s sent s' sent' hi _ h
    simp only [runS, pure, Except.pure] at h
    cases h
    exact ⟨hi, List.prefix_refl _⟩
  | cons x rest ih =>
    intro s sent s' sent' hi hops h
    obtain ⟨clk, op⟩ := x
    simp only [runS] at h
    obtain ⟨⟨s1, y⟩, h1, h⟩ := bind_ok h
    have k1 := stepS_sg s clk op s1 y sent (hops (clk, op) List.mem_cons_self) hi h1
    have ⟨a1, a2⟩ := ih s1 (sent ++ y) s' sent' k1 (fun x hx => hops x (List.mem_cons_of_mem _ hx)) h
    exact ⟨a1, List.IsPrefix.trans (List.prefix_append _ _) a2⟩

theorem init_sg (conv : UInt32) : SG [] (Sock.init conv) := by
  refine ⟨[], 0, 0, (init_inv0 conv).sb, rfl, fun i hi => absurd hi (Nat.not_lt_zero _), rfl,
    fun h => absurd rfl h, fun _ => rfl, ?_⟩
  intro e he
  exact absurd he (by simp [Sock.init])

end Nice.Proofs.PTcpStream
