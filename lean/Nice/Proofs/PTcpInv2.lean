/-
  Helper lemmas for the pseudo-TCP properties, part 3: `Inv0` is preserved by option parsing, `process` and every public
  operation.
-/
import Nice.Proofs.PTcpInv
namespace Nice.Proofs.PTcp
open Nice.PTcp Nice.Gen Std.Do

set_option mvcgen.warning false
set_option maxRecDepth 16000
set_option linter.unusedSimpArgs false

theorem applyOption_spec (s : Sock) (k : UInt8) (p : Array UInt8) (off len : Nat) :
    ⦃⌜Inv0 s⌝⦄ applyOption s k p off len ⦃⇓? s' => ⌜Inv0 s'⌝⦄ := by
  mvcgen [applyOption, rd_spec] <;> inv0

theorem parseOptionsLoop_spec (s : Sock) (p : Array UInt8) (base len pos : Nat) (w f : Bool) :
    ⦃⌜Inv0 s⌝⦄ parseOptionsLoop s p base len pos w f ⦃⇓? r => ⌜Inv0 r.1⌝⦄ := by
  induction h : len - pos using Nat.strongRecOn generalizing s pos w f with
  | _ n ih =>
    unfold parseOptionsLoop
    mvcgen [rd_spec, applyOption_spec] <;> inv0
    · rename_i hlt _ hi _ _ _ _
      exact ih _ (by omega) s _ w f rfl hi
    · intro hi
      exact ih _ (by omega) _ _ _ _ rfl hi

theorem parseOptions_spec (s : Sock) (p : Array UInt8) (base len : Nat) :
    ⦃⌜Inv0 s⌝⦄ parseOptions s p base len ⦃⇓? s' => ⌜Inv0 s'⌝⦄ := by
  mvcgen [parseOptions, parseOptionsLoop_spec, resizeReceiveBuffer_spec] <;> inv0

theorem updateRtt_inv (s : Sock) (rtt : Int) (h : Inv0 s) : Inv0 (updateRtt s rtt) := by
  unfold updateRtt
  split <;> exact ⟨h.sws, h.rws, (bound_range _).1, (bound_range _).2, h.rb, h.sb⟩

theorem rttSample_spec (s : Sock) (ts : UInt32) (rtt : Int) : ⦃⌜Inv0 s⌝⦄ rttSample s ts rtt ⦃⇓? s' => ⌜Inv0 s'⌝⦄ := by
  mvcgen [rttSample]
  rename_i h
  split
  · have := updateRtt_inv s rtt h
    exact ⟨this.sws, this.rws, this.rto_lo, this.rto_hi, this.rb, this.sb⟩
  · exact h

theorem rlistRecover_spec (l : List RSeg) (rb : Fifo) (a b : UInt32) (sf : SendFlags) :
    ⦃⌜FOk rb⌝⦄ rlistRecover l rb a b sf ⦃⇓? r => ⌜FOk r.2.1⌝⦄ := by
  induction l generalizing rb a b sf with
  | nil => mvcgen [rlistRecover]
  | cons d rest ih => mvcgen [rlistRecover, consumeWriteBuffer_spec, ih]

theorem processData_spec (s : Sock) (seg : Segment) (p : Array UInt8) (rf : Bool) (clk : UInt32) :
    ⦃⌜Inv0 s⌝⦄ processData s seg p rf clk ⦃⇓? r => ⌜Inv0 r.2⌝⦄ := by
  mvcgen [processData, writeOffset_spec, consumeWriteBuffer_spec, rlistRecover_spec, attemptSend_spec] <;> inv0

theorem processFin_spec (s : Sock) (seg : Segment) (p : Array UInt8) (bc fa : Bool) (clk : UInt32) :
    ⦃⌜Inv0 s⌝⦄ processFin s seg p bc fa clk ⦃⇓? r => ⌜Inv0 r.2⌝⦄ := by
  mvcgen [processFin, setStateEstablished_spec, setState_spec, setStateClosed_spec, processData_spec] <;> inv0

theorem processAck_spec (s : Sock) (seg : Segment) (p : Array UInt8) (bc : Bool) (now clk : UInt32) :
    ⦃⌜Inv0 s⌝⦄ processAck s seg p bc now clk ⦃⇓? r => ⌜Inv0 r.2⌝⦄ := by
  mvcgen [processAck, rttSample_spec, shiftWnd_spec, consumeReadData_spec, ackLoop_spec, transmit_spec, closedown_spec, processFin_spec] <;> inv0

theorem processBody_spec (s : Sock) (seg : Segment) (p : Array UInt8) (clk : UInt32) :
    ⦃⌜Inv0 s⌝⦄ processBody s seg p clk ⦃⇓? r => ⌜Inv0 r.2⌝⦄ := by
  mvcgen [processBody, closedown_spec, rd_spec, parseOptions_spec, setState_spec, queueConnectMessage_spec,
    setStateEstablished_spec, processAck_spec] <;> inv0

theorem process_spec (s : Sock) (seg : Segment) (p : Array UInt8) (clk : UInt32) :
    ⦃⌜Inv0 s⌝⦄ process s seg p clk ⦃⇓? r => ⌜Inv0 r.2⌝⦄ := by
  mvcgen [process, processBody_spec] <;> inv0

theorem parse_spec (s : Sock) (p : Array UInt8) (clk : UInt32) :
    ⦃⌜Inv0 s⌝⦄ parse s p clk ⦃⇓? r => ⌜Inv0 r.2⌝⦄ := by
  mvcgen [parse, rd_spec, rd16_spec, rd32_spec, process_spec] <;> inv0

theorem notifyPacket_spec (s : Sock) (p : Array UInt8) (clk : UInt32) :
    ⦃⌜Inv0 s⌝⦄ notifyPacket s p clk ⦃⇓? r => ⌜Inv0 r.2⌝⦄ := by
  mvcgen [notifyPacket, parse_spec] <;> inv0

theorem connect_spec (s : Sock) (clk : UInt32) : ⦃⌜Inv0 s⌝⦄ connect s clk ⦃⇓? r => ⌜Inv0 r.2⌝⦄ := by
  mvcgen [connect, setState_spec, queueConnectMessage_spec, attemptSend_spec] <;> inv0

theorem notifyMtu_spec (s : Sock) (m : UInt16) : ⦃⌜Inv0 s⌝⦄ notifyMtu s m ⦃⇓? r => ⌜Inv0 r⌝⦄ := by
  mvcgen [notifyMtu, adjustMTU_spec] <;> inv0

theorem backoff_inv (s : Sock) (lim : UInt32) (h : Inv0 s) (hl : lim = cDEF_RTO ∨ lim = cMAX_RTO) :
    cMIN_RTO ≤ min lim (s.rx_rto * 2) ∧ min lim (s.rx_rto * 2) ≤ cMAX_RTO :=
  backoff_range _ _ h.rto_lo h.rto_hi hl

theorem rto_limit_cases (c : Prop) [Decidable c] :
    (if c then cDEF_RTO else cMAX_RTO) = cDEF_RTO ∨ (if c then cDEF_RTO else cMAX_RTO) = cMAX_RTO := by
  split <;> simp

theorem clockRetransmit_spec (s : Sock) (now clk : UInt32) :
    ⦃⌜Inv0 s⌝⦄ clockRetransmit s now clk ⦃⇓? r => ⌜Inv0 r.2⌝⦄ := by
  mvcgen [clockRetransmit, transmit_spec, closedown_spec] <;> inv0
  all_goals
    rename_i h
    exact ⟨h.sws, h.rws, (backoff_inv _ _ h (rto_limit_cases _)).1, (backoff_inv _ _ h (rto_limit_cases _)).2, h.rb, h.sb⟩

theorem clockProbe_spec (s : Sock) (now clk : UInt32) :
    ⦃⌜Inv0 s⌝⦄ clockProbe s now clk ⦃⇓? r => ⌜Inv0 r.2⌝⦄ := by
  mvcgen [clockProbe, packet_spec, closedown_spec] <;> inv0
  all_goals
    rename_i h
    exact ⟨h.sws, h.rws, (backoff_inv _ _ h (Or.inr rfl)).1, (backoff_inv _ _ h (Or.inr rfl)).2, h.rb, h.sb⟩

theorem clockDelayedAck_spec (s : Sock) (now : UInt32) :
    ⦃⌜Inv0 s⌝⦄ clockDelayedAck s now ⦃⇓? r => ⌜Inv0 r⌝⦄ := by
  mvcgen [clockDelayedAck, packet_spec] <;> inv0

theorem clockFinStates_spec (s : Sock) (clk : UInt32) :
    ⦃⌜Inv0 s⌝⦄ clockFinStates s clk ⦃⇓? r => ⌜Inv0 r⌝⦄ := by
  mvcgen [clockFinStates, setStateClosed_spec, queueFinMessage_spec, attemptSend_spec] <;> inv0

theorem notifyClock_spec (s : Sock) (clk : UInt32) : ⦃⌜Inv0 s⌝⦄ notifyClock s clk ⦃⇓? r => ⌜Inv0 r⌝⦄ := by
  mvcgen [notifyClock, clockFinStates_spec, clockRetransmit_spec, clockProbe_spec, clockDelayedAck_spec] <;> inv0

theorem getNextClock_spec (s : Sock) (t : UInt64) (clk : UInt32) :
    ⦃⌜Inv0 s⌝⦄ getNextClock s t clk ⦃⇓? r => ⌜Inv0 r.2.2⌝⦄ := by
  mvcgen [getNextClock, closedown_spec] <;> inv0

theorem recv_spec (s : Sock) (n : Nat) (clk : UInt32) : ⦃⌜Inv0 s⌝⦄ recv s n clk ⦃⇓? r => ⌜Inv0 r.2.2⌝⦄ := by
  mvcgen [recv, read_spec, attemptSend_spec] <;> inv0

theorem send_spec (s : Sock) (d : Array UInt8) (clk : UInt32) : ⦃⌜Inv0 s⌝⦄ send s d clk ⦃⇓? r => ⌜Inv0 r.2⌝⦄ := by
  mvcgen [send, queue_spec, attemptSend_spec] <;> inv0

theorem shutdown_spec (s : Sock) (h : ShutdownHow) (clk : UInt32) : ⦃⌜Inv0 s⌝⦄ shutdown s h clk ⦃⇓? r => ⌜Inv0 r⌝⦄ := by
  mvcgen [shutdown, setStateClosed_spec, closedown_spec, queueFinMessage_spec, attemptSend_spec, setState_spec] <;> inv0

theorem close_spec (s : Sock) (f : Bool) (clk : UInt32) : ⦃⌜Inv0 s⌝⦄ close s f clk ⦃⇓? r => ⌜Inv0 r⌝⦄ := by
  mvcgen [close, closedown_spec, shutdown_spec] <;> inv0

theorem setRcvBuf_spec (s : Sock) (v : UInt32) : ⦃⌜Inv0 s⌝⦄ setRcvBuf s v ⦃⇓? r => ⌜Inv0 r⌝⦄ := by
  mvcgen [setRcvBuf, resizeReceiveBuffer_spec] <;> inv0

theorem setSndBuf_spec (s : Sock) (v : UInt32) : ⦃⌜Inv0 s⌝⦄ setSndBuf s v ⦃⇓? r => ⌜Inv0 r⌝⦄ := by
  mvcgen [setSndBuf, resizeSendBuffer_spec] <;> inv0

end Nice.Proofs.PTcp
