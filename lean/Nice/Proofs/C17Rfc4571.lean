/- helper lemmas for C17: agent-level RFC 4571 reassembly = reference frame parser over the
   unconsumed bytes (buffered bytes after `frame_offset` ++ bytes pending in the socket) -/
import Nice.Proofs.C17Base
set_option maxRecDepth 4000
namespace Nice.Props.C17
open Nice.Sock Nice.Drv Nice.Rfc4571

/-! ### reference parser -/

/-- first complete frame of `u`: (payload, rest) -/
def splitFrame (u : Bytes) : Option (Bytes × Bytes) :=
  if 2 ≤ u.length ∧ 2 + be16 (u.getD 0 0) (u.getD 1 0) ≤ u.length then
    some ((u.drop 2).take (be16 (u.getD 0 0) (u.getD 1 0)), u.drop (2 + be16 (u.getD 0 0) (u.getD 1 0)))
  else none

/-- all complete frames of `u` and the incomplete tail -/
def parse : Nat → Bytes → List Bytes × Bytes
  | 0, u => ([], u)
  | n + 1, u =>
    match splitFrame u with
    | none => ([], u)
    | some (p, rest) => ((p :: (parse n rest).1), (parse n rest).2)

theorem splitFrame_len (u p rest : Bytes) (h : splitFrame u = some (p, rest)) : rest.length + 2 ≤ u.length := by
  unfold splitFrame at h
  split at h
  · obtain ⟨rfl, rfl⟩ := Prod.mk.inj (Option.some.inj h)
    simp only [List.length_drop]; omega
  · cases h

/-- `parse` does not depend on the fuel once it exceeds the length -/
theorem parse_fuel (n m : Nat) (u : Bytes) (hn : u.length ≤ n) (hm : u.length ≤ m) : parse n u = parse m u := by
  induction n generalizing m u with
  | zero =>
    have : u = [] := List.length_eq_zero_iff.mp (by omega)
    subst this
    cases m <;> simp [parse, splitFrame]
  | succ n ih =>
    cases m with
    | zero =>
      have : u = [] := List.length_eq_zero_iff.mp (by omega)
      subst this; simp [parse, splitFrame]
    | succ m =>
      simp only [parse]
      cases hs : splitFrame u with
      | none => rfl
      | some pr =>
        obtain ⟨p, rest⟩ := pr
        have := splitFrame_len u p rest hs
        simp only
        rw [ih m rest (by omega) (by omega)]

/-- a frame is handed to the caller iff it is non-empty and not consumed out-of-band -/
def deliverable (handled : Bytes → Bool) (p : Bytes) : Bool := !p.isEmpty && !handled p

/-! ### invariant -/

def frameAt (s : St) : Nat := frameSizeAt s

/-- reachable states of the reassembly fields -/
def RInv (s : St) : Prop :=
  s.fault = false ∧ s.fo ≤ s.buf.length ∧ s.buf.length ≤ BUFSIZE ∧ s.cs = 0 ∧
  ((s.fs = 0 ∧ headroom s < 2) ∨ (2 ≤ headroom s ∧ s.fs = frameSizeAt s))

/-- the bytes not yet turned into frames -/
def unconsumed (s : St) (b : Base) : Bytes := s.buf.drop s.fo ++ b.pend

theorem be16_le (a b : UInt8) : be16 a b ≤ 65535 := by
  have h1 := UInt8.toNat_lt a
  have h2 := UInt8.toNat_lt b
  simp only [be16]; omega

theorem frameSizeAt_le (s : St) : frameSizeAt s ≤ BUFSIZE := by
  have := be16_le (s.buf.getD s.fo 0) (s.buf.getD (s.fo + 1) 0)
  simp only [frameSizeAt, BUFSIZE]; omega

theorem getD_drop_append (buf pend : Bytes) (fo i : Nat) (h : fo + i < buf.length) :
    (buf.drop fo ++ pend).getD i 0 = buf.getD (fo + i) 0 := by
  simp only [List.getD_eq_getElem?_getD]
  rw [List.getElem?_append_left (by simp only [List.length_drop]; omega), List.getElem?_drop]

/-- with at least two buffered bytes, `splitFrame` of the unconsumed bytes looks at the same header -/
theorem splitFrame_unconsumed (s : St) (b : Base) (hfo : s.fo ≤ s.buf.length) (h2 : 2 ≤ headroom s)
    (hw : frameSizeAt s ≤ headroom s) :
    splitFrame (unconsumed s b) =
      some ((s.buf.drop (s.fo + 2)).take (frameSizeAt s - 2), unconsumed { s with fo := s.fo + frameSizeAt s } b) := by
  simp only [headroom] at h2 hw
  have hg0 : (s.buf.drop s.fo ++ b.pend).getD 0 0 = s.buf.getD s.fo 0 := by
    have := getD_drop_append s.buf b.pend s.fo 0 (by omega); simpa using this
  have hg1 : (s.buf.drop s.fo ++ b.pend).getD 1 0 = s.buf.getD (s.fo + 1) 0 :=
    getD_drop_append s.buf b.pend s.fo 1 (by omega)
  simp only [frameSizeAt] at hw ⊢
  have hc : 2 ≤ (s.buf.drop s.fo ++ b.pend).length ∧
      2 + be16 (s.buf.getD s.fo 0) (s.buf.getD (s.fo + 1) 0) ≤ (s.buf.drop s.fo ++ b.pend).length := by
    simp only [List.length_append, List.length_drop]; omega
  simp only [splitFrame, unconsumed, hg0, hg1, hc, and_self, ↓reduceIte, Option.some.injEq, Prod.mk.injEq,
    Nat.add_sub_cancel_left]
  constructor
  · rw [List.drop_append_of_le_length (by simp only [List.length_drop]; omega), List.drop_drop,
      List.take_append_of_le_length (by simp only [List.length_drop]; omega)]
  · rw [List.drop_append_of_le_length (by simp only [List.length_drop]; omega), List.drop_drop]

theorem splitFrame_none_of_short (u : Bytes) (h : u.length < 2 ∨ u.length < 2 + be16 (u.getD 0 0) (u.getD 1 0)) :
    splitFrame u = none := by
  unfold splitFrame
  split
  · omega
  · rfl


/-! ### handing up a cached frame -/

/-- the `have_whole_frame` branch of `agent_recv_message_unlocked` followed by
    `agent_consume_next_rfc4571_chunk` -/
def deliver (handled : Bytes → Bool) (s : St) (b : Base) : Res × St × Base :=
  if ((s.buf.drop (s.fo + 2)).take (s.fs - 2)).length == 0 then ({ ret := RECV_OOB }, advance s, b)
  else if handled ((s.buf.drop (s.fo + 2)).take (s.fs - 2)) then ({ ret := RECV_OOB }, advance s, b)
  else ({ ret := RECV_SUCCESS, up := [{ data := ((s.buf.drop (s.fo + 2)).take (s.fs - 2)).take 65536 }] },
        advance { s with cs := s.cs + (((s.buf.drop (s.fo + 2)).take (s.fs - 2)).take 65536).length }, b)

theorem getD_drop (buf : Bytes) (fo i : Nat) : (buf.drop fo).getD i 0 = buf.getD (fo + i) 0 := by
  simp only [List.getD_eq_getElem?_getD, List.getElem?_drop]

theorem advance_spec (s : St) (hf : s.fault = false) (hfo : s.fo + s.fs ≤ s.buf.length) (hb : s.buf.length ≤ BUFSIZE) :
    RInv (advance s) ∧ (advance s).buf = s.buf ∧ (advance s).fo = s.fo + s.fs ∧
    ((advance s).wk = (splitFrame ((advance s).buf.drop (advance s).fo)).isSome) := by
  have hnf : ¬ (s.fo + s.fs > s.buf.length) := by omega
  by_cases h2 : 2 ≤ s.buf.length - (s.fo + s.fs)
  · have hadv : advance s = St.mk s.buf (s.fo + s.fs)
        (2 + be16 (s.buf.getD (s.fo + s.fs) 0) (s.buf.getD (s.fo + s.fs + 1) 0)) 0
        (decide (2 + be16 (s.buf.getD (s.fo + s.fs) 0) (s.buf.getD (s.fo + s.fs + 1) 0) ≤ s.buf.length - (s.fo + s.fs)))
        s.fault := by
      simp [advance, hnf, headroom, h2, frameSizeAt]
    rw [hadv]
    refine ⟨⟨hf, by simp only; omega, hb, rfl, Or.inr ⟨by simp only [headroom]; exact h2, by simp [frameSizeAt]⟩⟩, rfl, rfl, ?_⟩
    simp only [splitFrame, List.length_drop, h2, true_and, getD_drop, Nat.add_zero]
    by_cases hw : 2 + be16 (s.buf.getD (s.fo + s.fs) 0) (s.buf.getD (s.fo + s.fs + 1) 0) ≤ s.buf.length - (s.fo + s.fs)
    · simp only [hw, decide_true, ↓reduceIte, Option.isSome_some]
    · simp only [hw, decide_false, ↓reduceIte, Option.isSome_none]
  · have hadv : advance s = St.mk s.buf (s.fo + s.fs) 0 0 false s.fault := by
      simp [advance, hnf, headroom, h2]
    rw [hadv]
    refine ⟨⟨hf, by simp only; omega, hb, rfl, Or.inl ⟨rfl, by simp only [headroom]; omega⟩⟩, rfl, rfl, ?_⟩
    have : ¬ (2 ≤ (s.buf.drop (s.fo + s.fs)).length) := by simp only [List.length_drop]; exact h2
    simp only [splitFrame, this, false_and, ↓reduceIte, Option.isSome_none]

/-- delivering the cached frame = removing the first frame of the unconsumed bytes -/
theorem deliver_spec (handled : Bytes → Bool) (s : St) (b : Base) (hf : s.fault = false) (hfo : s.fo ≤ s.buf.length)
    (hb : s.buf.length ≤ BUFSIZE) (hcs : s.cs = 0) (h2 : 2 ≤ headroom s) (hfs : s.fs = frameSizeAt s)
    (hw : s.fs ≤ headroom s) :
    ∃ p rest, splitFrame (unconsumed s b) = some (p, rest) ∧
      unconsumed (deliver handled s b).2.1 (deliver handled s b).2.2 = rest ∧
      (deliver handled s b).1.up.map (·.data) = [p].filter (deliverable handled) ∧
      (deliver handled s b).1.down = [] ∧ (deliver handled s b).1.ret ≠ RECV_ERROR ∧
      RInv (deliver handled s b).2.1 ∧ (deliver handled s b).2.2 = b ∧
      ((deliver handled s b).2.1.wk = (splitFrame ((deliver handled s b).2.1.buf.drop (deliver handled s b).2.1.fo)).isSome) := by
  have hsp := splitFrame_unconsumed s b hfo h2 (by rw [← hfs]; exact hw)
  rw [← hfs] at hsp
  refine ⟨_, _, hsp, ?_⟩
  simp only [headroom] at h2 hw
  have hfo2 : s.fo + s.fs ≤ s.buf.length := by omega
  have hfsle : s.fs ≤ BUFSIZE := by rw [hfs]; exact frameSizeAt_le s
  have hplen : ((s.buf.drop (s.fo + 2)).take (s.fs - 2)).length ≤ 65535 := by
    simp only [List.length_take, BUFSIZE] at *; omega
  have htake : ((s.buf.drop (s.fo + 2)).take (s.fs - 2)).take 65536 = (s.buf.drop (s.fo + 2)).take (s.fs - 2) :=
    List.take_of_length_le (by omega)
  generalize hP : (s.buf.drop (s.fo + 2)).take (s.fs - 2) = P at *
  by_cases he : P.length = 0
  · have hPn : P = [] := List.length_eq_zero_iff.mp he
    obtain ⟨a1, a2, a3, a4⟩ := advance_spec s hf hfo2 hb
    have hd : deliver handled s b = ({ ret := RECV_OOB }, advance s, b) := by
      simp [deliver, hP, he]
    rw [hd]
    refine ⟨?_, ?_, rfl, by simp [RECV_OOB, RECV_SUCCESS, RECV_ERROR], a1, rfl, a4⟩
    · simp [unconsumed, a2, a3]
    · simp [hPn, deliverable]
  · have hne : (P.length == 0) = false := by simpa using he
    have hPne : P.isEmpty = false := by
      cases P with
      | nil => simp at he
      | cons x t => rfl
    by_cases hh : handled P = true
    · obtain ⟨a1, a2, a3, a4⟩ := advance_spec s hf hfo2 hb
      have hd : deliver handled s b = ({ ret := RECV_OOB }, advance s, b) := by
        simp [deliver, hP, hne, hh]
      rw [hd]
      refine ⟨?_, ?_, rfl, by simp [RECV_OOB, RECV_SUCCESS, RECV_ERROR], a1, rfl, a4⟩
      · simp [unconsumed, a2, a3]
      · simp [deliverable, hh]
    · have hh' : handled P = false := by simpa using hh
      obtain ⟨a1, a2, a3, a4⟩ := advance_spec { s with cs := s.cs + P.length } hf hfo2 hb
      have hd : deliver handled s b =
          ({ ret := RECV_SUCCESS, up := [{ data := P }] }, advance { s with cs := s.cs + P.length }, b) := by
        simp [deliver, hP, hne, hh', htake]
      rw [hd]
      refine ⟨?_, ?_, rfl, by simp [RECV_OOB, RECV_SUCCESS, RECV_ERROR], a1, rfl, a4⟩
      · simp [unconsumed, a2, a3]
      · simp [deliverable, hh', hPne]

/-! ### the three shapes of one receive call -/

theorem recv_cached (handled : Bytes → Bool) (s : St) (b : Base) (hi : RInv s) (hfs : s.fs ≠ 0) (hw : s.fs ≤ headroom s) :
    Rfc4571.recv handled s b = deliver handled s b := by
  obtain ⟨hf, hfo, hb, hcs, hfr⟩ := hi
  have hnf : ¬ (s.fo > s.buf.length) := by omega
  have hmiss : (s.fs == 0 || decide (headroom s < s.fs)) = false := by
    simp [hfs]; omega
  have hwhole : (s.fs != 0 && decide (headroom s ≥ s.fs)) = true := by simp [hfs, hw]
  have hnf2 : ¬ (s.fo + s.fs > s.buf.length) := by simp only [headroom] at hw; omega
  simp only [Rfc4571.recv, hnf, ↓reduceIte, hmiss, Bool.false_eq_true, hwhole, hnf2, deliver]

theorem recv_empty (handled : Bytes → Bool) (s : St) (b : Base) (hi : RInv s)
    (hm : s.fs = 0 ∨ headroom s < s.fs) (hb : Base.Healthy b) (hp : b.pend = []) :
    Rfc4571.recv handled s b = ({ ret := RECV_WOULD_BLOCK }, s, b) := by
  obtain ⟨hf, hfo, hbl, hcs, hfr⟩ := hi
  have hnf : ¬ (s.fo > s.buf.length) := by omega
  have hmiss : (s.fs == 0 || decide (headroom s < s.fs)) = true := by
    rcases hm with h | h <;> simp [h]
  have hhd : headroom s = s.buf.length - s.fo := rfl
  have hnofs : ¬ (s.fs = 0 ∧ headroom s ≥ 2) := by
    rcases hfr with ⟨_, h⟩ | ⟨h, h'⟩
    · omega
    · intro ⟨h0, _⟩
      rw [h0] at h'
      simp only [frameSizeAt] at h'; omega
  have hnw : (s.fs != 0 && decide (headroom s ≥ s.fs)) = false := by
    rcases hm with h | h
    · simp [h]
    · simp; intro _; omega
  simp [Rfc4571.recv, hnf, hmiss, hp, hb.2.1, hnofs, hnw, RECV_WOULD_BLOCK]

/-- state after moving `bytes` from the socket behind the unconsumed ones -/
def afterRead (s : St) (bytes : Bytes) : St :=
  if (s.fs == 0 && decide (headroom s + bytes.length ≥ 2)) = true then
    St.mk (s.buf.drop s.fo ++ bytes) 0 (frameSizeAt (St.mk (s.buf.drop s.fo ++ bytes) 0 s.fs s.cs s.wk s.fault)) s.cs s.wk s.fault
  else St.mk (s.buf.drop s.fo ++ bytes) 0 s.fs s.cs s.wk s.fault

theorem recv_read (handled : Bytes → Bool) (s : St) (b : Base) (hi : RInv s)
    (hm : s.fs = 0 ∨ headroom s < s.fs) (hb : Base.Healthy b) (hp : b.pend ≠ []) :
    Rfc4571.recv handled s b =
      (if ((afterRead s (b.pend.take (min (BUFSIZE - headroom s) b.pend.length))).fs != 0 &&
          decide (headroom s + min (BUFSIZE - headroom s) b.pend.length ≥
            (afterRead s (b.pend.take (min (BUFSIZE - headroom s) b.pend.length))).fs)) = true
       then deliver handled (afterRead s (b.pend.take (min (BUFSIZE - headroom s) b.pend.length)))
              { b with pend := b.pend.drop (min (BUFSIZE - headroom s) b.pend.length) }
       else ({ ret := RECV_WOULD_BLOCK }, afterRead s (b.pend.take (min (BUFSIZE - headroom s) b.pend.length)),
              { b with pend := b.pend.drop (min (BUFSIZE - headroom s) b.pend.length) })) := by
  obtain ⟨hf, hfo, hbl, hcs, hfr⟩ := hi
  have hnf : ¬ (s.fo > s.buf.length) := by omega
  have hmiss : (s.fs == 0 || decide (headroom s < s.fs)) = true := by
    rcases hm with h | h <;> simp [h]
  have hlp : 0 < b.pend.length := List.length_pos_iff.mpr hp
  have hpl : (b.pend.length == 0) = false := by simp; omega
  have hhd : headroom s = s.buf.length - s.fo := rfl
  have hhr : headroom s < BUFSIZE := by
    have := frameSizeAt_le s
    rcases hfr with ⟨_, h⟩ | ⟨h1, h⟩
    · simp only [BUFSIZE]; omega
    · rcases hm with h' | h'
      · rw [h'] at h; simp only [frameSizeAt] at h; omega
      · omega
  have hnf3 : ¬ (headroom s > BUFSIZE) := by omega
  have hcap : 0 < BUFSIZE - headroom s := by omega
  have hread := read_healthy_cons b hb hp (BUFSIZE - headroom s) hcap
  generalize hn : min (BUFSIZE - headroom s) b.pend.length = n at *
  have htl : (b.pend.take n).length = n := by simp only [List.length_take]; omega
  have hbl1 : (s.buf.drop s.fo ++ b.pend.take n).length = headroom s + n := by
    simp only [List.length_append, List.length_drop, htl, hhd]
  simp only [Rfc4571.recv, hnf, ↓reduceIte, hmiss, hpl, Bool.false_eq_true, hnf3, hread, beq_self_eq_true, htl, afterRead]
  by_cases hcb : (s.fs == 0 && decide (headroom s + n ≥ 2)) = true
  · simp only [hcb, ↓reduceIte]
    generalize hS : St.mk (s.buf.drop s.fo ++ b.pend.take n) 0
        (frameSizeAt (St.mk (s.buf.drop s.fo ++ b.pend.take n) 0 s.fs s.cs s.wk s.fault)) s.cs s.wk s.fault = S
    have hSb : S.buf.length = headroom s + n := by rw [← hS]; exact hbl1
    have hSf : S.fo = 0 := by rw [← hS]
    by_cases hwb : (S.fs != 0 && decide (headroom s + n ≥ S.fs)) = true
    · have hle : S.fs ≤ headroom s + n := by simp at hwb; exact hwb.2
      have hnf2 : ¬ (S.fo + S.fs > S.buf.length) := by rw [hSf, hSb]; omega
      simp only [hwb, ↓reduceIte, hnf2, deliver]
    · have hwb' : (S.fs != 0 && decide (headroom s + n ≥ S.fs)) = false := by simpa using hwb
      simp [hwb', RECV_WOULD_BLOCK]
  · have hcb' : (s.fs == 0 && decide (headroom s + n ≥ 2)) = false := by simpa using hcb
    simp only [hcb', Bool.false_eq_true, ↓reduceIte]
    generalize hS : St.mk (s.buf.drop s.fo ++ b.pend.take n) 0 s.fs s.cs s.wk s.fault = S
    have hSb : S.buf.length = headroom s + n := by rw [← hS]; exact hbl1
    have hSf : S.fo = 0 := by rw [← hS]
    by_cases hwb : (S.fs != 0 && decide (headroom s + n ≥ S.fs)) = true
    · have hle : S.fs ≤ headroom s + n := by simp at hwb; exact hwb.2
      have hnf2 : ¬ (S.fo + S.fs > S.buf.length) := by rw [hSf, hSb]; omega
      simp only [hwb, ↓reduceIte, hnf2, deliver]
    · have hwb' : (S.fs != 0 && decide (headroom s + n ≥ S.fs)) = false := by simpa using hwb
      simp [hwb', RECV_WOULD_BLOCK]
end Nice.Props.C17
