/- helper lemmas for C17: agent-level RFC 4571 reassembly = reference frame parser over the
   unconsumed bytes (buffered bytes after `frame_offset` ++ bytes pending in the socket) -/
import Nice.Proofs.C17Base
set_option maxRecDepth 4000
namespace Nice.Props.C17
open Nice.Sock Nice.Drv Nice.Rfc4571

/-! ### reference parser -/

/-- first complete frame of `u`: (payload, rest) -/
def splitFrame (u : Bytes) : Option (Bytes × Bytes) :=
  if 2 ≤ u.length ∧ 2 + be16 (u.getD 0 0) (u.getD 1 0) ≤ u.length then
    some ((u.drop 2).take (be16 (u.getD 0 0) (u.getD 1 0)), u.drop (2 + be16 (u.getD 0 0) (u.getD 1 0)))
  else none

/-- all complete frames of `u` and the incomplete tail -/
def parse : Nat → Bytes → List Bytes × Bytes
  | 0, u => ([], u)
  | n + 1, u =>
    match splitFrame u with
    | none => ([], u)
    | some (p, rest) => ((p :: (parse n rest).1), (parse n rest).2)

theorem splitFrame_len (u p rest : Bytes) (h : splitFrame u = some (p, rest)) : rest.length + 2 ≤ u.length := by
  unfold splitFrame at h
  split at h
  · obtain ⟨rfl, rfl⟩ := Prod.mk.inj (Option.some.inj h)
    simp only [List.length_drop]; omega
  · cases h

/-- `parse` does not depend on the fuel once it exceeds the length -/
theorem parse_fuel (n m : Nat) (u : Bytes) (hn : u.length ≤ n) (hm : u.length ≤ m) : parse n u = parse m u := by
  induction n generalizing m u with
  | zero =>
    have : u = [] := List.length_eq_zero_iff.mp (by omega)
    subst this
    cases m <;> simp [parse, splitFrame]
  | succ n ih =>
    cases m with
    | zero =>
      have : u = [] := List.length_eq_zero_iff.mp (by omega)
      subst this; simp [parse, splitFrame]
    | succ m =>
      simp only [parse]
      cases hs : splitFrame u with
      | none => rfl
      | some pr =>
        obtain ⟨p, rest⟩ := pr
        have := splitFrame_len u p rest hs
        simp only
        rw [ih m rest (by omega) (by omega)]

/-- a frame is handed to the caller iff it is non-empty and not consumed out-of-band -/
def deliverable (handled : Bytes → Bool) (p : Bytes) : Bool := !p.isEmpty && !handled p

/-! ### invariant -/

def frameAt (s : St) : Nat := frameSizeAt s

/-- reachable states of the reassembly fields -/
def RInv (s : St) : Prop :=
  s.fault = false ∧ s.fo ≤ s.buf.length ∧ s.buf.length ≤ BUFSIZE ∧ s.cs = 0 ∧
  ((s.fs = 0 ∧ headroom s < 2) ∨ (2 ≤ headroom s ∧ s.fs = frameSizeAt s))

/-- the bytes not yet turned into frames -/
def unconsumed (s : St) (b : Base) : Bytes := s.buf.drop s.fo ++ b.pend

theorem be16_le (a b : UInt8) : be16 a b ≤ 65535 := by
  have h1 := UInt8.toNat_lt a
  have h2 := UInt8.toNat_lt b
  simp only [be16]; omega

theorem frameSizeAt_le (s : St) : frameSizeAt s ≤ BUFSIZE := by
  have := be16_le (s.buf.getD s.fo 0) (s.buf.getD (s.fo + 1) 0)
  simp only [frameSizeAt, BUFSIZE]; omega

theorem getD_drop_append (buf pend : Bytes) (fo i : Nat) (h : fo + i < buf.length) :
    (buf.drop fo ++ pend).getD i 0 = buf.getD (fo + i) 0 := by
  simp only [List.getD_eq_getElem?_getD]
  rw [List.getElem?_append_left (by simp only [List.length_drop]; omega), List.getElem?_drop]

/-- with at least two buffered bytes, `splitFrame` of the unconsumed bytes looks at the same header -/
theorem splitFrame_unconsumed (s : St) (b : Base) (hfo : s.fo ≤ s.buf.length) (h2 : 2 ≤ headroom s)
    (hw : frameSizeAt s ≤ headroom s) :
    splitFrame (unconsumed s b) =
      some ((s.buf.drop (s.fo + 2)).take (frameSizeAt s - 2), unconsumed { s with fo := s.fo + frameSizeAt s } b) := by
  simp only [headroom] at h2 hw
  have hg0 : (s.buf.drop s.fo ++ b.pend).getD 0 0 = s.buf.getD s.fo 0 := by
    have := getD_drop_append s.buf b.pend s.fo 0 (by omega); simpa using this
  have hg1 : (s.buf.drop s.fo ++ b.pend).getD 1 0 = s.buf.getD (s.fo + 1) 0 :=
    getD_drop_append s.buf b.pend s.fo 1 (by omega)
  simp only [frameSizeAt] at hw ⊢
  have hc : 2 ≤ (s.buf.drop s.fo ++ b.pend).length ∧
      2 + be16 (s.buf.getD s.fo 0) (s.buf.getD (s.fo + 1) 0) ≤ (s.buf.drop s.fo ++ b.pend).length := by
    simp only [List.length_append, List.length_drop]; omega
  simp only [splitFrame, unconsumed, hg0, hg1, hc, and_self, ↓reduceIte, Option.some.injEq, Prod.mk.injEq,
    Nat.add_sub_cancel_left]
  constructor
  · rw [List.drop_append_of_le_length (by simp only [List.length_drop]; omega), List.drop_drop,
      List.take_append_of_le_length (by simp only [List.length_drop]; omega)]
  · rw [List.drop_append_of_le_length (by simp only [List.length_drop]; omega), List.drop_drop]

theorem splitFrame_none_of_short (u : Bytes) (h : u.length < 2 ∨ u.length < 2 + be16 (u.getD 0 0) (u.getD 1 0)) :
    splitFrame u = none := by
  unfold splitFrame
  split
  · omega
  · rfl


/-! ### handing up a cached frame -/

theorem getD_drop (buf : Bytes) (fo i : Nat) : (buf.drop fo).getD i 0 = buf.getD (fo + i) 0 := by
  simp only [List.getD_eq_getElem?_getD, List.getElem?_drop]

theorem advance_spec (s : St) (hf : s.fault = false) (hfo : s.fo + s.fs ≤ s.buf.length) (hb : s.buf.length ≤ BUFSIZE) :
    RInv (advance s) ∧ (advance s).buf = s.buf ∧ (advance s).fo = s.fo + s.fs ∧
    ((advance s).wk = (splitFrame ((advance s).buf.drop (advance s).fo)).isSome) := by
  have hnf : ¬ (s.fo + s.fs > s.buf.length) := by omega
  by_cases h2 : 2 ≤ s.buf.length - (s.fo + s.fs)
  · have hadv : advance s = St.mk s.buf (s.fo + s.fs)
        (2 + be16 (s.buf.getD (s.fo + s.fs) 0) (s.buf.getD (s.fo + s.fs + 1) 0)) 0
        (decide (2 + be16 (s.buf.getD (s.fo + s.fs) 0) (s.buf.getD (s.fo + s.fs + 1) 0) ≤ s.buf.length - (s.fo + s.fs)))
        s.fault := by
      simp [advance, hnf, headroom, h2, frameSizeAt]
    rw [hadv]
    refine ⟨⟨hf, by simp only; omega, hb, rfl, Or.inr ⟨by simp only [headroom]; exact h2, by simp [frameSizeAt]⟩⟩, rfl, rfl, ?_⟩
    simp only [splitFrame, List.length_drop, h2, true_and, getD_drop, Nat.add_zero]
    by_cases hw : 2 + be16 (s.buf.getD (s.fo + s.fs) 0) (s.buf.getD (s.fo + s.fs + 1) 0) ≤ s.buf.length - (s.fo + s.fs)
    · simp only [hw, decide_true, ↓reduceIte, Option.isSome_some]
    · simp only [hw, decide_false, ↓reduceIte, Option.isSome_none]
  · have hadv : advance s = St.mk s.buf (s.fo + s.fs) 0 0 false s.fault := by
      simp [advance, hnf, headroom, h2]
    rw [hadv]
    refine ⟨⟨hf, by simp only; omega, hb, rfl, Or.inl ⟨rfl, by simp only [headroom]; omega⟩⟩, rfl, rfl, ?_⟩
    have : ¬ (2 ≤ (s.buf.drop (s.fo + s.fs)).length) := by simp only [List.length_drop]; exact h2
    simp only [splitFrame, this, false_and, ↓reduceIte, Option.isSome_none]

/-- delivering the cached frame = removing the first frame of the unconsumed bytes -/
theorem deliver_spec (handled : Bytes → Bool) (s : St) (b : Base) (hf : s.fault = false) (hfo : s.fo ≤ s.buf.length)
    (hb : s.buf.length ≤ BUFSIZE) (hcs : s.cs = 0) (h2 : 2 ≤ headroom s) (hfs : s.fs = frameSizeAt s)
    (hw : s.fs ≤ headroom s) :
    ∃ p rest, splitFrame (unconsumed s b) = some (p, rest) ∧
      unconsumed (deliver handled s b).2.1 (deliver handled s b).2.2 = rest ∧
      (deliver handled s b).1.up.map (·.data) = [p].filter (deliverable handled) ∧
      (deliver handled s b).1.down = [] ∧ (deliver handled s b).1.ret ≠ RECV_ERROR ∧
      RInv (deliver handled s b).2.1 ∧ (deliver handled s b).2.2 = b ∧
      ((deliver handled s b).2.1.wk = (splitFrame ((deliver handled s b).2.1.buf.drop (deliver handled s b).2.1.fo)).isSome) := by
  have hsp := splitFrame_unconsumed s b hfo h2 (by rw [← hfs]; exact hw)
  rw [← hfs] at hsp
  refine ⟨_, _, hsp, ?_⟩
  simp only [headroom] at h2 hw
  have hfo2 : s.fo + s.fs ≤ s.buf.length := by omega
  have hnf2 : ¬ (s.fo + s.fs > s.buf.length) := by omega
  have hfsle : s.fs ≤ BUFSIZE := by rw [hfs]; exact frameSizeAt_le s
  have hplen : ((s.buf.drop (s.fo + 2)).take (s.fs - 2)).length ≤ 65535 := by
    simp only [List.length_take, BUFSIZE] at *; omega
  have htake : ((s.buf.drop (s.fo + 2)).take (s.fs - 2)).take 65536 = (s.buf.drop (s.fo + 2)).take (s.fs - 2) :=
    List.take_of_length_le (by omega)
  generalize hP : (s.buf.drop (s.fo + 2)).take (s.fs - 2) = P at *
  by_cases he : P.length = 0
  · have hPn : P = [] := List.length_eq_zero_iff.mp he
    obtain ⟨a1, a2, a3, a4⟩ := advance_spec s hf hfo2 hb
    have hd : deliver handled s b = ({ ret := RECV_OOB }, advance s, b) := by
      simp [Rfc4571.deliver, hP, he, hnf2]
    rw [hd]
    refine ⟨?_, ?_, rfl, by simp [RECV_OOB, RECV_SUCCESS, RECV_ERROR], a1, rfl, a4⟩
    · simp [unconsumed, a2, a3]
    · simp [hPn, deliverable]
  · have hne : (P.length == 0) = false := by simpa using he
    have hPne : P.isEmpty = false := by
      cases P with
      | nil => simp at he
      | cons x t => rfl
    by_cases hh : handled P = true
    · obtain ⟨a1, a2, a3, a4⟩ := advance_spec s hf hfo2 hb
      have hd : deliver handled s b = ({ ret := RECV_OOB }, advance s, b) := by
        simp [Rfc4571.deliver, hP, hne, hh, hnf2]
      rw [hd]
      refine ⟨?_, ?_, rfl, by simp [RECV_OOB, RECV_SUCCESS, RECV_ERROR], a1, rfl, a4⟩
      · simp [unconsumed, a2, a3]
      · simp [deliverable, hh]
    · have hh' : handled P = false := by simpa using hh
      obtain ⟨a1, a2, a3, a4⟩ := advance_spec { s with cs := s.cs + P.length } hf hfo2 hb
      have hd : deliver handled s b =
          ({ ret := RECV_SUCCESS, up := [{ data := P }] }, advance { s with cs := s.cs + P.length }, b) := by
        simp [Rfc4571.deliver, hP, hne, hh', htake, hnf2]
      rw [hd]
      refine ⟨?_, ?_, rfl, by simp [RECV_OOB, RECV_SUCCESS, RECV_ERROR], a1, rfl, a4⟩
      · simp [unconsumed, a2, a3]
      · simp [deliverable, hh', hPne]

/-! ### the three shapes of one receive call -/

theorem recv_cached (handled : Bytes → Bool) (s : St) (b : Base) (hi : RInv s) (hfs : s.fs ≠ 0) (hw : s.fs ≤ headroom s) :
    Rfc4571.recv handled s b = deliver handled s b := by
  obtain ⟨hf, hfo, hb, hcs, hfr⟩ := hi
  have hnf : ¬ (s.fo > s.buf.length) := by omega
  have hmiss : (s.fs == 0 || decide (headroom s < s.fs)) = false := by
    simp [hfs]; omega
  have hwhole : (s.fs != 0 && decide (headroom s ≥ s.fs)) = true := by simp [hfs, hw]
  simp only [Rfc4571.recv, hnf, ↓reduceIte, hmiss, Bool.false_eq_true, hwhole]

theorem recv_empty (handled : Bytes → Bool) (s : St) (b : Base) (hi : RInv s)
    (hm : s.fs = 0 ∨ headroom s < s.fs) (hb : Base.Healthy b) (hp : b.pend = []) :
    Rfc4571.recv handled s b = ({ ret := RECV_WOULD_BLOCK }, s, b) := by
  obtain ⟨hf, hfo, hbl, hcs, hfr⟩ := hi
  have hnf : ¬ (s.fo > s.buf.length) := by omega
  have hmiss : (s.fs == 0 || decide (headroom s < s.fs)) = true := by
    rcases hm with h | h <;> simp [h]
  have hhd : headroom s = s.buf.length - s.fo := rfl
  have hnofs : (s.fs == 0 && decide (headroom s ≥ 2)) = false := by
    rcases hfr with ⟨_, h⟩ | ⟨h, h'⟩
    · simp; intro _; omega
    · have : s.fs ≠ 0 := by rw [h']; simp only [frameSizeAt]; omega
      simp [this]
  have hnw : (s.fs != 0 && decide (headroom s ≥ s.fs)) = false := by
    rcases hm with h | h
    · simp [h]
    · simp; intro _; omega
  simp [Rfc4571.recv, hnf, hmiss, hp, hb.2.1, hnofs, hnw, RECV_WOULD_BLOCK]

/-- state after moving `bytes` from the socket behind the unconsumed ones -/
def afterRead (s : St) (bytes : Bytes) : St :=
  if ((St.mk (s.buf.drop s.fo ++ bytes) 0 s.fs s.cs s.wk s.fault).fs == 0 &&
      decide (headroom (St.mk (s.buf.drop s.fo ++ bytes) 0 s.fs s.cs s.wk s.fault) ≥ 2)) = true then
    { St.mk (s.buf.drop s.fo ++ bytes) 0 s.fs s.cs s.wk s.fault with
      fs := frameSizeAt (St.mk (s.buf.drop s.fo ++ bytes) 0 s.fs s.cs s.wk s.fault) }
  else St.mk (s.buf.drop s.fo ++ bytes) 0 s.fs s.cs s.wk s.fault

theorem recv_read (handled : Bytes → Bool) (s : St) (b : Base) (hi : RInv s)
    (hm : s.fs = 0 ∨ headroom s < s.fs) (hb : Base.Healthy b) (hp : b.pend ≠ []) :
    Rfc4571.recv handled s b =
      (if ((afterRead s (b.pend.take (min (BUFSIZE - headroom s) b.pend.length))).fs != 0 &&
          decide (headroom (afterRead s (b.pend.take (min (BUFSIZE - headroom s) b.pend.length))) ≥
            (afterRead s (b.pend.take (min (BUFSIZE - headroom s) b.pend.length))).fs)) = true
       then deliver handled (afterRead s (b.pend.take (min (BUFSIZE - headroom s) b.pend.length)))
              { b with pend := b.pend.drop (min (BUFSIZE - headroom s) b.pend.length) }
       else ({ ret := RECV_WOULD_BLOCK }, afterRead s (b.pend.take (min (BUFSIZE - headroom s) b.pend.length)),
              { b with pend := b.pend.drop (min (BUFSIZE - headroom s) b.pend.length) })) := by
  obtain ⟨hf, hfo, hbl, hcs, hfr⟩ := hi
  have hnf : ¬ (s.fo > s.buf.length) := by omega
  have hmiss : (s.fs == 0 || decide (headroom s < s.fs)) = true := by
    rcases hm with h | h <;> simp [h]
  have hlp : 0 < b.pend.length := List.length_pos_iff.mpr hp
  have hpl : (b.pend.length == 0) = false := by simp; omega
  have hhd : headroom s = s.buf.length - s.fo := rfl
  have hhr : headroom s < BUFSIZE := by
    have := frameSizeAt_le s
    rcases hfr with ⟨_, h⟩ | ⟨h1, h⟩
    · simp only [BUFSIZE]; omega
    · rcases hm with h' | h'
      · rw [h'] at h; simp only [frameSizeAt] at h; omega
      · omega
  have hnf3 : ¬ (headroom s > BUFSIZE) := by omega
  have hcap : 0 < BUFSIZE - headroom s := by omega
  have hread := read_healthy_cons b hb hp (BUFSIZE - headroom s) hcap
  generalize hn : min (BUFSIZE - headroom s) b.pend.length = n at *
  have hx : refill s b = (1, afterRead s (b.pend.take n), { b with pend := b.pend.drop n }) := by
    simp only [refill, hnf3, ↓reduceIte, hread, beq_self_eq_true, afterRead]
  simp only [Rfc4571.recv, hnf, ↓reduceIte, hmiss, hpl, Bool.false_eq_true, hx]
  generalize afterRead s (b.pend.take n) = S
  split
  · rfl
  · simp [RECV_WOULD_BLOCK]

theorem missing_none (s : St) (hi : RInv s) (hm : s.fs = 0 ∨ headroom s < s.fs) (b : Base) (hp : b.pend = []) :
    splitFrame (unconsumed s b) = none := by
  obtain ⟨hf, hfo, hbl, hcs, hfr⟩ := hi
  have hhd : headroom s = s.buf.length - s.fo := rfl
  apply splitFrame_none_of_short
  simp only [unconsumed, hp, List.append_nil, List.length_drop, getD_drop, Nat.add_zero]
  rcases hfr with ⟨h0, h⟩ | ⟨h2, h⟩
  · left; omega
  · right
    rcases hm with h' | h'
    · rw [h'] at h; simp only [frameSizeAt] at h; omega
    · rw [h] at h'; simp only [frameSizeAt] at h'; omega

theorem afterRead_spec (s : St) (hi : RInv s) (bytes : Bytes) (hcap : headroom s + bytes.length ≤ BUFSIZE) :
    RInv (afterRead s bytes) ∧ (afterRead s bytes).buf = s.buf.drop s.fo ++ bytes ∧ (afterRead s bytes).fo = 0 ∧
    (afterRead s bytes).wk = s.wk := by
  obtain ⟨hf, hfo, hbl, hcs, hfr⟩ := hi
  have hhd : headroom s = s.buf.length - s.fo := rfl
  have hlen : (s.buf.drop s.fo ++ bytes).length = headroom s + bytes.length := by
    simp only [List.length_append, List.length_drop, hhd]
  have hfsz : ∀ (fs cs : Nat) (wk fault : Bool), 2 ≤ headroom s →
      frameSizeAt (St.mk (s.buf.drop s.fo ++ bytes) 0 fs cs wk fault) = frameSizeAt s := by
    intro fs cs wk fault h2
    have g0 := getD_drop_append s.buf bytes s.fo 0 (by omega)
    have g1 := getD_drop_append s.buf bytes s.fo 1 (by omega)
    simp only [Nat.add_zero] at g0
    simp only [frameSizeAt, Nat.zero_add, g0, g1]
  unfold afterRead
  generalize hT : St.mk (s.buf.drop s.fo ++ bytes) 0 s.fs s.cs s.wk s.fault = T
  have tb : T.buf = s.buf.drop s.fo ++ bytes := by rw [← hT]
  have tfo : T.fo = 0 := by rw [← hT]
  have tfs : T.fs = s.fs := by rw [← hT]
  have tcs : T.cs = s.cs := by rw [← hT]
  have twk : T.wk = s.wk := by rw [← hT]
  have tf : T.fault = s.fault := by rw [← hT]
  have thr : headroom T = headroom s + bytes.length := by simp only [headroom, tb, tfo, hlen, Nat.sub_zero]
  have tfz : 2 ≤ headroom s → frameSizeAt T = frameSizeAt s := by
    intro h2; rw [← hT]; exact hfsz _ _ _ _ h2
  by_cases hc : (T.fs == 0 && decide (headroom T ≥ 2)) = true
  · rw [if_pos hc]
    simp only [Bool.and_eq_true, beq_iff_eq, decide_eq_true_eq] at hc
    refine ⟨⟨by simp only [tf, hf], by simp only [tfo]; exact Nat.zero_le _, by simp only [tb, hlen]; exact hcap,
      by simp only [tcs, hcs], Or.inr ⟨?_, ?_⟩⟩, tb, tfo, twk⟩
    · simp only [headroom, tb, tfo, hlen] at hc ⊢; omega
    · simp only [frameSizeAt]
  · rw [if_neg hc]
    have hc' : (T.fs == 0 && decide (headroom T ≥ 2)) = false := by simpa using hc
    refine ⟨⟨by simp only [tf, hf], by simp only [tfo]; exact Nat.zero_le _, by simp only [tb, hlen]; exact hcap,
      by simp only [tcs, hcs], ?_⟩, tb, tfo, twk⟩
    rcases hfr with ⟨h0, h⟩ | ⟨h2, h⟩
    · left
      refine ⟨by rw [tfs, h0], ?_⟩
      rw [tfs, h0] at hc'
      simp only [beq_self_eq_true, Bool.true_and, decide_eq_false_iff_not] at hc'
      omega
    · right
      refine ⟨by omega, ?_⟩
      rw [tfs, h, tfz h2]

/-- **one receive call**: either the first frame of the unconsumed bytes is handed up (or consumed
    out-of-band) and removed, or bytes only move from the socket into the buffer -/
theorem rstep (handled : Bytes → Bool) (s : St) (b : Base) (hi : RInv s) (hb : Base.Healthy b) :
    RInv (Rfc4571.recv handled s b).2.1 ∧ Base.Healthy (Rfc4571.recv handled s b).2.2 ∧
    (Rfc4571.recv handled s b).1.down = [] ∧ (Rfc4571.recv handled s b).1.ret ≠ RECV_ERROR ∧
    (Rfc4571.recv handled s b).2.2.pend.length ≤ b.pend.length ∧
    ((∃ p rest, splitFrame (unconsumed s b) = some (p, rest) ∧
        unconsumed (Rfc4571.recv handled s b).2.1 (Rfc4571.recv handled s b).2.2 = rest ∧
        (Rfc4571.recv handled s b).1.up.map (·.data) = [p].filter (deliverable handled) ∧
        (Rfc4571.recv handled s b).2.1.wk =
          (splitFrame ((Rfc4571.recv handled s b).2.1.buf.drop (Rfc4571.recv handled s b).2.1.fo)).isSome) ∨
     (unconsumed (Rfc4571.recv handled s b).2.1 (Rfc4571.recv handled s b).2.2 = unconsumed s b ∧
        (Rfc4571.recv handled s b).1.up = [] ∧ (Rfc4571.recv handled s b).2.1.wk = s.wk ∧
        (b.pend ≠ [] → (Rfc4571.recv handled s b).2.2.pend.length < b.pend.length) ∧
        ((Rfc4571.recv handled s b).2.2.pend = [] → splitFrame (unconsumed s b) = none))) := by
  have hi' := hi
  obtain ⟨hf, hfo, hbl, hcs, hfr⟩ := hi
  have hhd : headroom s = s.buf.length - s.fo := rfl
  by_cases hm : s.fs = 0 ∨ headroom s < s.fs
  · by_cases hp : b.pend = []
    · -- nothing to read
      rw [recv_empty handled s b hi' hm hb hp]
      refine ⟨hi', hb, rfl, by simp [RECV_WOULD_BLOCK, RECV_ERROR], Nat.le_refl _, Or.inr ⟨rfl, rfl, rfl, fun h => absurd hp h,
        fun _ => missing_none s hi' hm b hp⟩⟩
    · rw [recv_read handled s b hi' hm hb hp]
      have hlp : 0 < b.pend.length := List.length_pos_iff.mpr hp
      have hhr : headroom s < BUFSIZE := by
        have := frameSizeAt_le s
        rcases hfr with ⟨_, h⟩ | ⟨h1, h⟩
        · simp only [BUFSIZE]; omega
        · rcases hm with h' | h'
          · rw [h'] at h; simp only [frameSizeAt] at h; omega
          · omega
      generalize hn : min (BUFSIZE - headroom s) b.pend.length = n
      have hn0 : 0 < n := by omega
      have hnle : n ≤ b.pend.length := by omega
      have htl : (b.pend.take n).length = n := by simp only [List.length_take]; omega
      obtain ⟨r1, r2, r3, r4⟩ := afterRead_spec s hi' (b.pend.take n) (by rw [htl]; omega)
      have hb1 : Base.Healthy { b with pend := b.pend.drop n } := hb
      have hun : unconsumed (afterRead s (b.pend.take n)) { b with pend := b.pend.drop n } = unconsumed s b := by
        simp only [unconsumed, r2, r3, List.drop_zero, List.append_assoc, List.take_append_drop]
      generalize hS : afterRead s (b.pend.take n) = S at *
      have hSr := r1
      obtain ⟨sf, sfo, sbl, scs, sfr⟩ := r1
      by_cases hwb : (S.fs != 0 && decide (headroom S ≥ S.fs)) = true
      · rw [if_pos hwb]
        simp only [Bool.and_eq_true, bne_iff_ne, ne_eq, decide_eq_true_eq] at hwb
        have h2 : 2 ≤ headroom S ∧ S.fs = frameSizeAt S := by
          rcases sfr with ⟨h0, _⟩ | h
          · exact absurd h0 hwb.1
          · exact h
        obtain ⟨p, rest, d1, d2, d3, d4, d5, d6, d7, d8⟩ :=
          deliver_spec handled S { b with pend := b.pend.drop n } sf sfo sbl scs h2.1 h2.2 hwb.2
        refine ⟨d6, by rw [d7]; exact hb1, d4, d5, by rw [d7]; simp only [List.length_drop]; omega,
          Or.inl ⟨p, rest, by rw [← hun]; exact d1, d2, d3, d8⟩⟩
      · have hwb' : (S.fs != 0 && decide (headroom S ≥ S.fs)) = false := by simpa using hwb
        rw [if_neg hwb]
        have hmS : S.fs = 0 ∨ headroom S < S.fs := by
          by_cases h0 : S.fs = 0
          · exact Or.inl h0
          · right
            simp only [Bool.and_eq_false_iff, bne_eq_false_iff_eq, decide_eq_false_iff_not] at hwb'
            rcases hwb' with h | h
            · exact absurd h h0
            · omega
        refine ⟨hSr, hb1, rfl, by simp [RECV_WOULD_BLOCK, RECV_ERROR], by simp only [List.length_drop]; omega,
          Or.inr ⟨hun, rfl, r4, fun _ => by simp only [List.length_drop]; omega, fun hpe => ?_⟩⟩
        rw [← hun]
        exact missing_none S hSr hmS _ hpe
  · -- a whole frame is cached
    have hfs : s.fs ≠ 0 := fun h => hm (Or.inl h)
    have hw : s.fs ≤ headroom s := by
      have : ¬ headroom s < s.fs := fun h => hm (Or.inr h)
      omega
    rw [recv_cached handled s b hi' hfs hw]
    have h2 : 2 ≤ headroom s ∧ s.fs = frameSizeAt s := by
      rcases hfr with ⟨h0, _⟩ | h
      · exact absurd h0 hfs
      · exact h
    obtain ⟨p, rest, d1, d2, d3, d4, d5, d6, d7, d8⟩ := deliver_spec handled s b hf hfo hbl hcs h2.1 h2.2 hw
    exact ⟨d6, by rw [d7]; exact hb, d4, d5, by rw [d7]; exact Nat.le_refl _, Or.inl ⟨p, rest, d1, d2, d3, d8⟩⟩

/-! ### the receive loop = the reference parser -/

theorem parse_some (n : Nat) (u p rest : Bytes) (h : splitFrame u = some (p, rest)) (hn : u.length ≤ n) :
    parse n u = (p :: (parse rest.length rest).1, (parse rest.length rest).2) := by
  have hl := splitFrame_len u p rest h
  cases n with
  | zero => omega
  | succ n =>
    simp only [parse, h]
    rw [parse_fuel n rest.length rest (by omega) (Nat.le_refl _)]

theorem parse_none (n : Nat) (u : Bytes) (h : splitFrame u = none) : parse n u = ([], u) := by
  cases n <;> simp [parse, h]

theorem msgs_add' (o : Obs) (r : Res) : (o.add r).msgs = o.msgs ++ r.up.map (·.data) := by
  simp [Obs.add, Obs.msgs]

def rerr (o : Obs) : Bool := o.rets.any (fun r => r == RECV_ERROR)

theorem rerr_add (o : Obs) (r : Res) : rerr (o.add r) = (rerr o || r.ret == RECV_ERROR) := by
  simp [rerr, Obs.add, List.any_append]

theorem rpump (handled : Bytes → Bool) : ∀ (fuel : Nat) (s : St) (b : Base) (o : Obs), RInv s → Base.Healthy b →
    (unconsumed s b).length + b.pend.length < fuel →
    RInv (pump (rfc4571M handled) fuel s b o).1 ∧ Base.Healthy (pump (rfc4571M handled) fuel s b o).2.1 ∧
    (pump (rfc4571M handled) fuel s b o).2.1.pend = [] ∧
    (pump (rfc4571M handled) fuel s b o).1.buf.drop (pump (rfc4571M handled) fuel s b o).1.fo =
      (parse (unconsumed s b).length (unconsumed s b)).2 ∧
    (pump (rfc4571M handled) fuel s b o).1.wk = false ∧
    (pump (rfc4571M handled) fuel s b o).2.2.msgs =
      o.msgs ++ (parse (unconsumed s b).length (unconsumed s b)).1.filter (deliverable handled) ∧
    (pump (rfc4571M handled) fuel s b o).2.2.down = o.down ∧
    rerr (pump (rfc4571M handled) fuel s b o).2.2 = rerr o := by
  intro fuel
  induction fuel with
  | zero => intro s b o _ _ h; omega
  | succ fuel ih =>
    intro s b o hi hb hlen
    have hi0 : RInv { s with wk := false } := hi
    have hun0 : unconsumed { s with wk := false } b = unconsumed s b := rfl
    have hrecv : (rfc4571M handled).recv s b = Rfc4571.recv handled { s with wk := false } b := rfl
    obtain ⟨r1, r2, r3, r4, r5, r6⟩ := rstep handled { s with wk := false } b hi0 hb
    rw [hun0] at r6
    rcases hR : Rfc4571.recv handled { s with wk := false } b with ⟨res, s1, b1⟩
    rw [hR] at r1 r2 r3 r4 r5 r6
    simp only at r1 r2 r3 r4 r5 r6
    have hstop : (rfc4571M handled).stop res.ret = false := by
      simp only [rfc4571M, beq_eq_false_iff_ne, ne_eq]; exact r4
    have hnerr : (res.ret == RECV_ERROR) = false := by simpa using r4
    rcases r6 with ⟨p, rest, d1, d2, d3, d4⟩ | ⟨m1, m2, m3, m4, m5⟩
    · -- a frame was removed
      have hl := splitFrame_len _ p rest d1
      rw [parse_some _ _ p rest d1 (Nat.le_refl _)]
      have hmsgs : (o.add res).msgs ++ (parse rest.length rest).1.filter (deliverable handled) =
          o.msgs ++ (p :: (parse rest.length rest).1).filter (deliverable handled) := by
        rw [msgs_add', d3]
        simp only [List.filter_cons, List.filter_nil, List.append_assoc]
        split <;> simp
      by_cases hcont : (!b1.pend.isEmpty || s1.wk) = true
      · have hpump : pump (rfc4571M handled) (fuel + 1) s b o = pump (rfc4571M handled) fuel s1 b1 (o.add res) := by
          simp only [pump, hrecv, hR, hstop, Bool.not_false, Bool.true_and]
          have : (!b1.pend.isEmpty || (rfc4571M handled).wake s1) = true := hcont
          simp only [this, ↓reduceIte]
        rw [hpump]
        have hm : (unconsumed s1 b1).length + b1.pend.length < fuel := by rw [d2]; omega
        obtain ⟨i1, i2, i3, i4, i5, i6, i7, i8⟩ := ih s1 b1 (o.add res) r1 r2 hm
        rw [d2] at i4 i6
        refine ⟨i1, i2, i3, i4, i5, ?_, ?_, ?_⟩
        · rw [i6, hmsgs]
        · rw [i7]; simp only [Obs.add, r3, List.append_nil]
        · rw [i8, rerr_add, hnerr]; simp
      · have hcont' : (!b1.pend.isEmpty || s1.wk) = false := by simpa using hcont
        have hpump : pump (rfc4571M handled) (fuel + 1) s b o = (s1, b1, o.add res) := by
          simp only [pump, hrecv, hR, hstop, Bool.not_false, Bool.true_and]
          have : (!b1.pend.isEmpty || (rfc4571M handled).wake s1) = false := hcont'
          simp only [this, Bool.false_eq_true, ↓reduceIte]
        rw [hpump]
        simp only [Bool.or_eq_false_iff, Bool.not_eq_false', List.isEmpty_iff] at hcont'
        obtain ⟨hpe, hwk⟩ := hcont'
        have hrest : rest = s1.buf.drop s1.fo := by
          rw [← d2]; simp [unconsumed, hpe]
        have hnone : splitFrame rest = none := by
          rw [hrest]
          rw [hwk] at d4
          cases hsf : splitFrame (s1.buf.drop s1.fo) with
          | none => rfl
          | some x => rw [hsf] at d4; simp at d4
        rw [parse_none _ _ hnone]
        refine ⟨r1, r2, hpe, hrest.symm, hwk, ?_, ?_, ?_⟩
        · have := hmsgs; rw [parse_none _ _ hnone] at this; simpa using this
        · simp only [Obs.add, r3, List.append_nil]
        · rw [rerr_add, hnerr]; simp
    · -- bytes only moved into the buffer
      have hwk1 : s1.wk = false := m3
      by_cases hpe : b1.pend = []
      · have hpump : pump (rfc4571M handled) (fuel + 1) s b o = (s1, b1, o.add res) := by
          simp only [pump, hrecv, hR, hstop, Bool.not_false, Bool.true_and]
          have : (!b1.pend.isEmpty || (rfc4571M handled).wake s1) = false := by
            show (!b1.pend.isEmpty || s1.wk) = false
            simp [hpe, hwk1]
          simp only [this, Bool.false_eq_true, ↓reduceIte]
        rw [hpump, parse_none _ _ (m5 hpe)]
        refine ⟨r1, r2, hpe, ?_, hwk1, ?_, ?_, ?_⟩
        · rw [← m1]; simp [unconsumed, hpe]
        · simp [msgs_add', m2]
        · simp only [Obs.add, r3, List.append_nil]
        · rw [rerr_add, hnerr]; simp
      · have hbp : b.pend ≠ [] := by
          intro h; rw [h] at r5; simp at r5; exact hpe r5
        have hlt := m4 hbp
        have hpump : pump (rfc4571M handled) (fuel + 1) s b o = pump (rfc4571M handled) fuel s1 b1 (o.add res) := by
          simp only [pump, hrecv, hR, hstop, Bool.not_false, Bool.true_and]
          have : (!b1.pend.isEmpty || (rfc4571M handled).wake s1) = true := by
            show (!b1.pend.isEmpty || s1.wk) = true
            cases hbb : b1.pend with
            | nil => exact absurd hbb hpe
            | cons x t => rfl
          simp only [this, ↓reduceIte]
        rw [hpump]
        have hm : (unconsumed s1 b1).length + b1.pend.length < fuel := by rw [m1]; omega
        obtain ⟨i1, i2, i3, i4, i5, i6, i7, i8⟩ := ih s1 b1 (o.add res) r1 r2 hm
        rw [m1] at i4 i6
        refine ⟨i1, i2, i3, i4, i5, ?_, ?_, ?_⟩
        · rw [i6]; simp [msgs_add', m2]
        · rw [i7]; simp only [Obs.add, r3, List.append_nil]
        · rw [i8, rerr_add, hnerr]; simp

/-! ### sessions -/

theorem splitFrame_append (u v p rest : Bytes) (h : splitFrame u = some (p, rest)) :
    splitFrame (u ++ v) = some (p, rest ++ v) := by
  unfold splitFrame at h ⊢
  split at h
  · rename_i hc
    obtain ⟨rfl, rfl⟩ := Prod.mk.inj (Option.some.inj h)
    have g0 : (u ++ v).getD 0 0 = u.getD 0 0 := by
      simp only [List.getD_eq_getElem?_getD]; rw [List.getElem?_append_left (by omega)]
    have g1 : (u ++ v).getD 1 0 = u.getD 1 0 := by
      simp only [List.getD_eq_getElem?_getD]; rw [List.getElem?_append_left (by omega)]
    have hc' : 2 ≤ (u ++ v).length ∧ 2 + be16 (u.getD 0 0) (u.getD 1 0) ≤ (u ++ v).length := by
      simp only [List.length_append]; omega
    simp only [g0, g1, hc', and_self, ↓reduceIte, Option.some.injEq, Prod.mk.injEq]
    constructor
    · rw [List.drop_append_of_le_length (by omega), List.take_append_of_le_length (by simp only [List.length_drop]; omega)]
    · rw [List.drop_append_of_le_length (by omega)]
  · cases h

theorem parse_append (n : Nat) : ∀ (u v : Bytes), u.length ≤ n →
    parse (u ++ v).length (u ++ v) =
      ((parse n u).1 ++ (parse ((parse n u).2 ++ v).length ((parse n u).2 ++ v)).1,
       (parse ((parse n u).2 ++ v).length ((parse n u).2 ++ v)).2) := by
  induction n with
  | zero =>
    intro u v h
    have : u = [] := List.length_eq_zero_iff.mp (by omega)
    subst this
    simp [parse]
  | succ n ih =>
    intro u v h
    cases hs : splitFrame u with
    | none => simp [parse, hs]
    | some pr =>
      obtain ⟨p, rest⟩ := pr
      have hl := splitFrame_len u p rest hs
      rw [parse_some _ _ p (rest ++ v) (splitFrame_append u v p rest hs) (Nat.le_refl _)]
      simp only [parse, hs]
      rw [ih rest v (by omega)]
      simp

/-- `frame_size` as a function of the buffered, unconsumed bytes -/
def fsOf (l : Bytes) : Nat := if l.length < 2 then 0 else 2 + be16 (l.getD 0 0) (l.getD 1 0)

theorem fs_of_inv (s : St) (hi : RInv s) : s.fs = fsOf (s.buf.drop s.fo) := by
  obtain ⟨_, hfo, _, _, hfr⟩ := hi
  simp only [fsOf, List.length_drop, getD_drop, Nat.add_zero]
  rcases hfr with ⟨h0, h⟩ | ⟨h2, h⟩
  · simp only [headroom] at h; simp [h, h0]
  · simp only [headroom] at h2
    have : ¬ (s.buf.length - s.fo < 2) := by omega
    simp only [this, ↓reduceIte, h, frameSizeAt]

/-- what C17 compares for the ICE-TCP reassembly: unconsumed buffered bytes, frame bookkeeping,
    messages handed to the application (with boundaries), bytes written, error outcome -/
structure ROut where
  leftover : Bytes
  fs       : Nat
  cs       : Nat
  fault    : Bool
  msgs     : List Bytes
  wire     : Bytes
  errored  : Bool
  deriving DecidableEq

def rOut (x : St × Base × Obs) : ROut :=
  { leftover := x.1.buf.drop x.1.fo, fs := x.1.fs, cs := x.1.cs, fault := x.1.fault,
    msgs := x.2.2.msgs, wire := x.2.2.wire, errored := rerr x.2.2 }

def RFInv (handled : Bytes → Bool) (pre : Bytes) (x : St × Base × Obs) : Prop :=
  RInv x.1 ∧ Base.Healthy x.2.1 ∧ x.2.1.pend = [] ∧ x.1.buf.drop x.1.fo = (parse pre.length pre).2 ∧
  x.2.2.msgs = (parse pre.length pre).1.filter (deliverable handled) ∧ x.2.2.down = [] ∧ rerr x.2.2 = false

theorem rfeed_inv (handled : Bytes → Bool) (pre ch : Bytes) (x : St × Base × Obs) (h : RFInv handled pre x) :
    RFInv handled (pre ++ ch) (feed (rfc4571M handled) (fun s => s.buf.length) x ch) := by
  obtain ⟨s, b, o⟩ := x
  obtain ⟨h1, h2, h3, h4, h5, h6, h7⟩ := h
  simp only at h1 h2 h3 h4 h5 h6 h7
  have hb' : Base.Healthy (b.push ch) := h2
  have hpend : (b.push ch).pend = ch := by simp [Base.push, h3]
  have hun : unconsumed s (b.push ch) = (parse pre.length pre).2 ++ ch := by
    simp only [unconsumed, hpend, h4]
  have hlen : (unconsumed s (b.push ch)).length + (b.push ch).pend.length < feedFuel (b.push ch) s.buf.length := by
    simp only [unconsumed, feedFuel, hpend, List.length_append, List.length_drop]; omega
  obtain ⟨p1, p2, p3, p4, p5, p6, p7, p8⟩ := rpump handled _ s (b.push ch) o h1 hb' hlen
  rw [hun] at p4 p6
  have hpa := parse_append pre.length pre ch (Nat.le_refl _)
  simp only [feed]
  refine ⟨p1, p2, p3, ?_, ?_, by rw [p7, h6], by rw [p8, h7]⟩
  · rw [p4, hpa]
  · rw [p6, h5, hpa, List.filter_append]

theorem rfeedAll_inv (handled : Bytes → Bool) (cs : List Bytes) : ∀ (pre : Bytes) (x : St × Base × Obs),
    RFInv handled pre x → RFInv handled (pre ++ cs.flatten) (cs.foldl (feed (rfc4571M handled) (fun s => s.buf.length)) x) := by
  induction cs with
  | nil => intro pre x h; simpa using h
  | cons ch cs ih =>
    intro pre x h
    simp only [List.flatten_cons, List.foldl_cons]
    rw [← List.append_assoc]
    exact ih _ _ (rfeed_inv handled pre ch x h)

theorem rinit_inv (handled : Bytes → Bool) : RFInv handled [] (({} : St), ({} : Base), ({} : Obs)) := by
  refine ⟨⟨rfl, Nat.le_refl _, by decide, rfl, Or.inl ⟨rfl, by decide⟩⟩, ⟨rfl, rfl, rfl⟩, rfl, rfl, rfl, rfl, rfl⟩

theorem rOut_of_inv (handled : Bytes → Bool) (s : Bytes) (x : St × Base × Obs) (h : RFInv handled s x) :
    rOut x = { leftover := (parse s.length s).2, fs := fsOf (parse s.length s).2, cs := 0, fault := false,
               msgs := (parse s.length s).1.filter (deliverable handled), wire := [], errored := false } := by
  obtain ⟨st, b, o⟩ := x
  obtain ⟨h1, h2, h3, h4, h5, h6, h7⟩ := h
  simp only at h1 h2 h3 h4 h5 h6 h7
  have hfs := fs_of_inv st h1
  obtain ⟨hf, _, _, hcs, _⟩ := h1
  simp only [rOut, ROut.mk.injEq]
  exact ⟨h4, by rw [hfs, h4], hcs, hf, h5, by simp [Obs.wire, h6], h7⟩
end Nice.Props.C17
