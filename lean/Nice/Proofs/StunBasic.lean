/-
  Helper lemmas for the STUN model: the translated kernels in closed form, bounds-checked access,
  byte segments of a buffer as lists.  Core Lean only.
-/
import Nice.Model.Stun
import Nice.Spec.StunGrammar
namespace Nice.Stun
open Nice.Gen

/-! ### translated kernels in closed form -/

private theorem shl8 : ∀ a : Fin 256, (Int32.ofNat a.val <<< (8 : Int32)) = Int32.ofNat (a.val * 256) := by
  decide +kernel

private theorem or32 (x y : Nat) : Int32.ofNat x ||| Int32.ofNat y = Int32.ofNat (x ||| y) := by
  apply Int32.toBitVec_inj.mp
  simp [Int32.toBitVec_or, Int32.toBitVec_ofNat', BitVec.ofNat_or]

/-- `stun_getw` (translated from utils.c) reads a big-endian 16-bit number -/
theorem stun_getw_toNat (p : Nat → UInt8) : (stun_getw p).toNat = (p 0).toNat * 256 + (p 1).toNat := by
  have ha := (p 0).toNat_lt
  have hb := (p 1).toNat_lt
  have h1 := shl8 ⟨(p 0).toNat, ha⟩
  simp only at h1
  unfold stun_getw
  rw [h1, or32]
  have hor : (p 0).toNat * 256 ||| (p 1).toNat = (p 0).toNat * 256 + (p 1).toNat := by
    have := Nat.shiftLeft_add_eq_or_of_lt (i := 8) (b := (p 1).toNat) hb (p 0).toNat
    rw [Nat.shiftLeft_eq] at this
    exact this.symm
  rw [hor, Int32.toInt_ofNat_of_lt (by omega)]
  unfold UInt16.ofInt
  simp
  omega

theorem and3 (x : Nat) : x &&& 3 = x % 4 := by
  have := Nat.and_two_pow_sub_one_eq_mod x 2
  simpa using this

theorem and_mask (x : Nat) (h : x < 2^64) : x &&& 18446744073709551612 = x / 4 * 4 := by
  have hm : (18446744073709551612 : Nat) = 2^2 * (2^62 - 1) := by decide
  apply Nat.eq_of_testBit_eq; intro i
  rw [Nat.testBit_and, hm, Nat.testBit_two_pow_mul, Nat.testBit_two_pow_sub_one]
  have : x / 4 * 4 = 2^2 * (x / 2^2) := by omega
  rw [this, Nat.testBit_two_pow_mul, Nat.testBit_div_two_pow]
  by_cases h2 : 2 ≤ i
  · have e : i - 2 + 2 = i := by omega
    simp only [ge_iff_le, h2, decide_true, Bool.true_and, e]
    by_cases h64 : i < 64
    · have : i - 2 < 62 := by omega
      simp [this]
    · have hx : x.testBit i = false :=
        Nat.testBit_lt_two_pow (Nat.lt_of_lt_of_le h (Nat.pow_le_pow_right (by omega) (by omega)))
      simp [hx]
  · simp [h2]

/-- `stun_align` (translated) rounds up to a multiple of 4 -/
theorem alignN_eq (n : Nat) (h : n + 3 < 2^64) : alignN n = (n + 3) / 4 * 4 := by
  unfold alignN stun_align
  rw [UInt64.toNat_and, UInt64.toNat_add]
  have h1 : (UInt64.ofNat n).toNat = n := by simp; omega
  rw [h1]
  have : (3 : UInt64).toNat = 3 := rfl
  rw [this, Nat.mod_eq_of_lt (by simpa using h)]
  exact and_mask _ (by simpa using h)

/-- `stun_padding` (translated) -/
theorem paddingN_eq (n : Nat) (h : n < 2^64) : paddingN n = (4 - n % 4) % 4 := by
  unfold paddingN stun_padding
  have h1 : (UInt64.ofNat n).toNat = n := by simp; omega
  rw [UInt64.toNat_and, UInt64.toNat_sub_of_le, UInt64.toNat_and, h1]
  · show (4 - (n &&& 3)) &&& 3 = _
    rw [and3, and3]
  · rw [UInt64.le_iff_toNat_le, UInt64.toNat_and, h1]
    show n &&& 3 ≤ 4
    rw [and3]; omega

theorem alignN_eq_add_pad (n : Nat) (h : n + 3 < 2^64) : alignN n = n + Nice.Spec.Stun.pad4 n := by
  rw [alignN_eq n h]; unfold Nice.Spec.Stun.pad4; omega

theorem paddingN_eq_pad4 (n : Nat) (h : n < 2^64) : paddingN n = Nice.Spec.Stun.pad4 n := by
  rw [paddingN_eq n h]; rfl

/-! ### bytes as numbers, bounds-checked access -/

def byteN (b : Bytes) (i : Nat) : Nat := (b.getD i 0).toNat

/-- big-endian 16-bit number at `off` -/
def getwN (b : Bytes) (off : Nat) : Nat := byteN b off * 256 + byteN b (off + 1)

theorem getw_ok {b : Bytes} {off : Nat} (h : off + 1 < b.size) :
    ∃ w, getw b off = .ok w ∧ w.toNat = getwN b off := by
  refine ⟨stun_getw (ptrAt b off), by simp [getw, h], ?_⟩
  rw [stun_getw_toNat]; simp [ptrAt, getwN, byteN]

theorem getw_err {b : Bytes} {off : Nat} (h : ¬ off + 1 < b.size) : getw b off = .error .oob := by
  simp [getw, h]

theorem getw_inv {b : Bytes} {off : Nat} {w : UInt16} (h : getw b off = .ok w) :
    off + 1 < b.size ∧ w.toNat = getwN b off := by
  by_cases hb : off + 1 < b.size
  · obtain ⟨w', hw, hn⟩ := getw_ok hb
    rw [hw] at h; cases h; exact ⟨hb, hn⟩
  · rw [getw_err hb] at h; cases h

theorem getwN_lt (b : Bytes) (off : Nat) : getwN b off < 65536 := by
  unfold getwN byteN
  have := (b.getD off 0).toNat_lt
  have := (b.getD (off + 1) 0).toNat_lt
  omega

theorem rd_ok {b : Bytes} {i : Nat} (h : i < b.size) : rd b i = .ok (b.getD i 0) := by
  simp [rd, h, Array.getD]

theorem rd_err {b : Bytes} {i : Nat} (h : ¬ i < b.size) : rd b i = .error .oob := by
  simp [rd, h]

/-! ### segments of a buffer as lists -/

/-- `len` bytes of `b` starting at `off` -/
def seg (b : Bytes) (off len : Nat) : List UInt8 := (b.toList.drop off).take len

theorem seg_zero (b : Bytes) (off : Nat) : seg b off 0 = [] := by simp [seg]

theorem seg_length {b : Bytes} {off len : Nat} (h : off + len ≤ b.size) : (seg b off len).length = len := by
  simp [seg, List.length_take, List.length_drop]; omega

theorem seg_append (b : Bytes) (off m n : Nat) : seg b off (m + n) = seg b off m ++ seg b (off + m) n := by
  unfold seg
  rw [List.take_add, List.drop_drop]

theorem seg_drop (b : Bytes) (off len k : Nat) : (seg b off len).drop k = seg b (off + k) (len - k) := by
  unfold seg
  rw [List.drop_take, List.drop_drop]

theorem seg_cons {b : Bytes} {off len : Nat} (h : off < b.size) (hl : 0 < len) :
    seg b off len = b.getD off 0 :: seg b (off + 1) (len - 1) := by
  unfold seg
  have hl' : off < b.toList.length := by simpa using h
  rw [List.drop_eq_getElem_cons hl']
  obtain ⟨k, rfl⟩ : ∃ k, len = k + 1 := ⟨len - 1, by omega⟩
  simp [List.take_succ_cons, Array.getD, h]

theorem seg4 {b : Bytes} {off len : Nat} (h : off + 4 ≤ b.size) (hl : 4 ≤ len) :
    seg b off len = b.getD off 0 :: b.getD (off + 1) 0 :: b.getD (off + 2) 0 :: b.getD (off + 3) 0 ::
      seg b (off + 4) (len - 4) := by
  rw [seg_cons (by omega) (by omega), seg_cons (by omega) (by omega), seg_cons (by omega) (by omega),
      seg_cons (by omega) (by omega)]
  have : len - 1 - 1 - 1 - 1 = len - 4 := by omega
  simp [this, Nat.add_assoc]

theorem seg_all (b : Bytes) : seg b 0 b.size = b.toList := by
  unfold seg; rw [List.drop_zero]; exact List.take_of_length_le (by simp)

theorem seg_take_drop (b : Bytes) (L : Nat) : (b.toList.take L).drop 20 = seg b 20 (L - 20) := by
  unfold seg; rw [List.drop_take]

end Nice.Stun
