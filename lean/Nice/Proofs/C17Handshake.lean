/- helper lemmas for C17: SOCKS5 handshake calls -/
import Nice.Proofs.C17Base
set_option maxRecDepth 8000
namespace Nice.Props.C17
open Nice.Sock Nice.Drv

/-! ## SOCKS5 -/

/-- where a base socket can end up after one call that read `r`: the rest pending, possibly freed -/
def After (B' : Base) (x : Base) : Prop := x = B' ∨ x = { B' with freed := true }

/-- one handshake call whose reads return the same bytes gives the same result, state and output,
    whatever else is pending below -/
theorem socks5_step_indep (s : Nice.Socks5.St) (B1 B2 B1' B2' : Base) (r : Bytes) (cap : Nat)
    (hst : (s.state = .init ∧ cap = 2) ∨ (s.state = .auth ∧ cap = 2) ∨
           (s.state = .connect ∧ cap = 4 ∧ ¬ (r.getD 0 0 = 5 ∧ r.getD 1 0 = 0 ∧ r.getD 2 0 = 0 ∧ (r.getD 3 0 = 1 ∨ r.getD 3 0 = 4))))
    (hf1 : B1.freed = false) (hf2 : B2.freed = false) (hl : r.length = cap)
    (e1 : B1.read cap = ((1, r), B1')) (e2 : B2.read cap = ((1, r), B2')) (he1 : B1'.err = false) (he2 : B2'.err = false) :
    (Nice.Socks5.recv s B1).1 = (Nice.Socks5.recv s B2).1 ∧ (Nice.Socks5.recv s B1).2.1 = (Nice.Socks5.recv s B2).2.1 ∧
    (((Nice.Socks5.recv s B1).2.2 = B1' ∧ (Nice.Socks5.recv s B2).2.2 = B2') ∨
     ((Nice.Socks5.recv s B1).2.2 = { B1' with freed := true } ∧ (Nice.Socks5.recv s B2).2.2 = { B2' with freed := true })) := by
  rcases hst with ⟨hst, hc⟩ | ⟨hst, hc⟩ | ⟨hst, hc, hbad⟩ <;> subst hc
  · simp only [Nice.Socks5.recv, hst, hf1, hf2, Bool.false_eq_true, ↓reduceIte, e1, e2, fixedBuf_exact r 2 stackJunk hl,
      show ¬ ((1 : Int) ≤ 0) by decide]
    repeat' split
    all_goals simp [Nice.Socks5.fail, Nice.Socks5.sendConnect, flushDown, he1, he2]
  · simp only [Nice.Socks5.recv, hst, hf1, hf2, Bool.false_eq_true, ↓reduceIte, e1, e2, fixedBuf_exact r 2 stackJunk hl,
      show ¬ ((1 : Int) ≤ 0) by decide]
    repeat' split
    all_goals simp [Nice.Socks5.fail, Nice.Socks5.sendConnect, flushDown, he1, he2]
  · simp only [Nice.Socks5.recv, hst, hf1, hf2, Bool.false_eq_true, ↓reduceIte, e1, e2, fixedBuf_exact r 4 stackJunk hl,
      show ¬ ((1 : Int) ≤ 0) by decide]
    simp only [List.getD_eq_getElem?_getD] at hbad ⊢
    by_cases h0 : r[0]?.getD 0 = 5
    · by_cases h1 : r[1]?.getD 0 = 0
      · by_cases h2 : r[2]?.getD 0 = 0
        · have h3 : ¬ (r[3]?.getD 0 = 1 ∨ r[3]?.getD 0 = 4) := fun h => hbad ⟨h0, h1, h2, h⟩
          simp [h0, h1, h2, h3, Nice.Socks5.fail]
        · simp [h0, h1, h2, Nice.Socks5.fail]
      · simp [h0, h1, Nice.Socks5.fail]
    · simp [h0, Nice.Socks5.fail]


end Nice.Props.C17
