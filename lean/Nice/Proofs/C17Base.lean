/- helper lemmas for C17: the TCP base socket model -/
import Nice.Drv.Sock
namespace Nice.Props.C17
open Nice.Sock Nice.Drv

/-- a healthy base: no error flag, not shut down, not freed -/
def Base.Healthy (b : Base) : Prop := b.err = false ∧ b.eof = false ∧ b.freed = false

theorem read_len (b : Base) (cap : Nat) : (b.read cap).1.2.length ≤ cap := by
  unfold Base.read
  split
  · simp
  · split
    · simp
    · simp only
      split
      · simp
      · simp only [List.length_take]; omega

theorem read_healthy_nil (b : Base) (h : Base.Healthy b) (hp : b.pend = []) (cap : Nat) :
    b.read cap = ((0, []), b) := by
  obtain ⟨h1, h2, _⟩ := h
  simp [Base.read, h1, h2, hp]

theorem read_healthy_cons (b : Base) (h : Base.Healthy b) (hp : b.pend ≠ []) (cap : Nat) (hc : 0 < cap) :
    b.read cap = ((1, b.pend.take (min cap b.pend.length)), { b with pend := b.pend.drop (min cap b.pend.length) }) := by
  obtain ⟨h1, h2, _⟩ := h
  have hl : 0 < b.pend.length := List.length_pos_iff.mpr hp
  have hne : b.pend.isEmpty = false := by
    cases hpp : b.pend with
    | nil => exact absurd hpp hp
    | cons a t => rfl
  have hmin : ¬ (min cap b.pend.length = 0) := by omega
  simp [Base.read, h1, hne, hmin]

/-- a read whose capacity is exactly the length of the reply that heads the pending bytes returns
    that reply and leaves the rest pending -/
theorem read_exact (b : Base) (h : Base.Healthy b) (r rest : Bytes) (hp : b.pend = r ++ rest) (hr : r ≠ []) :
    b.read r.length = ((1, r), { b with pend := rest }) := by
  obtain ⟨h1, h2, _⟩ := h
  have hl : 0 < r.length := List.length_pos_iff.mpr hr
  have hne : b.pend.isEmpty = false := by
    rw [hp]; cases r with
    | nil => exact absurd rfl hr
    | cons a t => rfl
  have hmin : min r.length b.pend.length = r.length := by rw [hp]; simp
  have hz : ¬ (r.length = 0) := by omega
  simp [Base.read, h1, hne, hmin, hp, hz, hr]

theorem fixedBuf_exact (bs : Bytes) (n : Nat) (j : UInt8) (h : bs.length = n) : fixedBuf bs n j = bs := by
  simp [fixedBuf, h, List.take_of_length_le]


end Nice.Props.C17
