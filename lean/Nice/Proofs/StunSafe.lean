/-
  No-fault / in-bounds lemmas for the lookup layer on validated packets (C05).
-/
import Nice.Proofs.StunAppend
import Nice.Props.C06
namespace Nice.Stun
open Nice.Gen Nice.Spec.Stun

/-- every attribute the reference parser reports lies inside the parsed bytes -/
theorem parseFrom_inside (pad : Bool) : ∀ (n : Nat) (l : B), l.length = n → ∀ off attrs,
    parseFrom pad off l = some attrs → ∀ x ∈ attrs, off + 4 ≤ x.off ∧ x.off + x.len ≤ off + l.length := by
  intro n
  induction n using Nat.strongRecOn with
  | ind n ih =>
    intro l hl off attrs hp x hx
    match l, hl with
    | [], _ => rw [parseFrom] at hp; injection hp with hp; subst hp; cases hx
    | [a], _ => simp [parseFrom] at hp
    | [a, b], _ => simp [parseFrom] at hp
    | [a, b, c], _ => simp [parseFrom] at hp
    | t0 :: t1 :: l0 :: l1 :: rest, hl =>
      rw [parseFrom] at hp
      split at hp
      · rename_i hfit
        cases hrec : parseFrom pad (off + 4 + (be16 l0 l1 + padLen pad (be16 l0 l1)))
            (rest.drop (be16 l0 l1 + padLen pad (be16 l0 l1))) with
        | none => rw [hrec] at hp; cases hp
        | some as =>
          rw [hrec] at hp
          injection hp with hp; subst hp
          simp only [List.length_cons]
          cases hx with
          | head => simp only; omega
          | tail _ hx' =>
            have hlen : (rest.drop (be16 l0 l1 + padLen pad (be16 l0 l1))).length < n := by
              rw [← hl]; simp; omega
            have := ih _ hlen _ rfl _ _ hrec x hx'
            simp only [List.length_drop] at this
            omega
      · cases hp

theorem refFindRec_mem {t : Nat} {attrs : List Attr} {x : Attr} (h : refFindRec t attrs = some x) :
    x ∈ attrs := by
  induction attrs with
  | nil => cases h
  | cons y rest ih =>
    unfold refFindRec at h
    split at h
    · injection h with h; subst h; simp
    · split at h
      · cases h
      · split at h
        · cases h
        · exact List.mem_cons_of_mem _ (ih h)

/-- a packet the agent's length validation accepts as a whole (shorter than 64 KiB) -/
structure Valid (a : Option Cfg) (pkt : Bytes) : Prop where
  len_ok : validateLen pkt (!noAlign a) = .ok (.len pkt.size)
  small : pkt.size < 65536

theorem Valid.size_ge (a : Option Cfg) (pkt : Bytes) (hv : Valid a pkt) : 20 ≤ pkt.size := by
  obtain ⟨b0, b1, l0, l1, rest, hl, hb, hL, hp, hle, ht⟩ := (Props.C06.C06_length_iff_grammar _ _ _).mp hv.len_ok
  omega

/-- `stun_message_find` on a validated packet never faults, and what it returns lies inside -/
theorem find_valid (a : Option Cfg) (pkt : Bytes) (t : UInt16) (hv : Valid a pkt) :
    ∃ r, find a pkt t = .ok r ∧ ∀ off len, r = some (off, len) → 24 ≤ off ∧ off + len.toNat ≤ pkt.size := by
  obtain ⟨attrs, hpa, hf⟩ := Props.C06.C06_find_is_reference a pkt t hv.len_ok hv.small
  cases hfr : find a pkt t with
  | error e => rw [hfr] at hf; cases hf
  | ok r =>
    refine ⟨r, rfl, ?_⟩
    intro off len hr
    rw [hfr, hr] at hf
    simp only [Except.map, Option.map, Except.ok.injEq] at hf
    rw [refFind_eq_rec] at hf
    cases hx : refFindRec (swapRealmNonce (isOC2007 a) t.toNat) attrs with
    | none => rw [hx] at hf; cases hf
    | some x =>
      rw [hx] at hf
      simp only [Option.map, Option.some.injEq, Prod.mk.injEq] at hf
      have hmem := refFindRec_mem hx
      -- attrs come from parseFrom over the body
      obtain ⟨b0, b1, l0, l1, rest, hl, hb, hL, hp, hle, ht⟩ :=
        (Props.C06.C06_length_iff_grammar _ _ _).mp hv.len_ok
      unfold parseAttrs at hpa
      rw [hl] at hpa
      simp only at hpa
      rw [← hl, ← hL, if_pos (by omega)] at hpa
      have hin := parseFrom_inside _ _ _ rfl 20 attrs hpa x hmem
      have hlen : ((pkt.toList.take pkt.size).drop 20).length = pkt.size - 20 := by simp
      rw [hlen] at hin
      omega

theorem rdBytes_ok {b : Bytes} {off n : Nat} (h : off + n ≤ b.size) : ∃ d, rdBytes b off n = .ok d ∧ d.size = n := by
  refine ⟨b.extract off (off + n), by simp [rdBytes, h], by simp; omega⟩

theorem messageLength_valid (a : Option Cfg) (pkt : Bytes) (hv : Valid a pkt) :
    ∃ w, messageLength pkt = .ok w ∧ w.toNat = pkt.size := by
  obtain ⟨b0, b1, l0, l1, rest, hl, hb, hL, hp, hle, ht⟩ := (Props.C06.C06_length_iff_grammar _ _ _).mp hv.len_ok
  have hlen : pkt.toList.length = pkt.size := by simp
  have h2 : byteN pkt 2 = l0.toNat := by rw [byteN_eq_byteL, hl]; simp [byteL]
  have h3 : byteN pkt 3 = l1.toNat := by rw [byteN_eq_byteL, hl]; simp [byteL]
  have hsz4 : 4 ≤ pkt.size := by rw [← hlen, hl]; simp
  obtain ⟨w, hw, hwn⟩ := getw_ok (b := pkt) (off := 2) (by omega)
  refine ⟨w + UInt16.ofNat 20, ?_, ?_⟩
  · unfold messageLength
    rw [show STUN_MESSAGE_LENGTH_POS = 2 from rfl, show STUN_MESSAGE_HEADER_LENGTH = 20 from rfl, hw]
  · rw [UInt16.toNat_add, hwn]
    have : getwN pkt 2 = be16 l0 l1 := by simp [getwN, h2, h3, be16]
    rw [this]
    have : (UInt16.ofNat 20).toNat = 20 := by decide
    rw [this]
    have := hv.small
    show (be16 l0 l1 + 20) % 65536 = _
    omega

theorem rd_ok' {b : Bytes} {i : Nat} (h : i < b.size) : ∃ v, rd b i = .ok v := ⟨_, rd_ok h⟩

/-- every typed accessor returns a status on a validated packet -/
theorem accessors_no_fault (a : Option Cfg) (pkt : Bytes) (t : UInt16) (hv : Valid a pkt) :
    (∃ r, hasAttribute a pkt t = .ok r) ∧ (∃ r, findFlag a pkt t = .ok r) ∧
    (∃ r, find32 a pkt t = .ok r) ∧ (∃ r, find64 a pkt t = .ok r) ∧
    (∀ n, ∃ r, findString a pkt t n = .ok r) ∧ (∀ n, ∃ r, findAddr a pkt t n = .ok r) ∧
    (∃ r, findError a pkt = .ok r) := by
  obtain ⟨r, hf, hin⟩ := find_valid a pkt t hv
  obtain ⟨re, hfe, hine⟩ := find_valid a pkt (UInt16.ofNat STUN_ATTRIBUTE_ERROR_CODE) hv
  refine ⟨⟨_, by unfold hasAttribute; rw [hf]; rfl⟩, ?_, ?_, ?_, ?_, ?_, ?_⟩
  · unfold findFlag; rw [hf]
    cases r with
    | none => exact ⟨_, rfl⟩
    | some x => exact ⟨_, rfl⟩
  · unfold find32; rw [hf]
    cases r with
    | none => exact ⟨_, rfl⟩
    | some x =>
      obtain ⟨off, len⟩ := x
      simp only
      obtain ⟨h1, h2⟩ := hin off len rfl
      split
      · rename_i h4
        have : len.toNat = 4 := by have := eq_of_beq h4; rw [this]; rfl
        obtain ⟨d, hd, _⟩ := rdBytes_ok (b := pkt) (off := off) (n := 4) (by omega)
        rw [hd]; exact ⟨_, rfl⟩
      · exact ⟨_, rfl⟩
  · unfold find64; rw [hf]
    cases r with
    | none => exact ⟨_, rfl⟩
    | some x =>
      obtain ⟨off, len⟩ := x
      simp only
      obtain ⟨h1, h2⟩ := hin off len rfl
      split
      · rename_i h8
        have : len.toNat = 8 := by have := eq_of_beq h8; rw [this]; rfl
        obtain ⟨d, hd, _⟩ := rdBytes_ok (b := pkt) (off := off) (n := 8) (by omega)
        rw [hd]; exact ⟨_, rfl⟩
      · exact ⟨_, rfl⟩
  · intro n
    unfold findString; rw [hf]
    cases r with
    | none => exact ⟨_, rfl⟩
    | some x =>
      obtain ⟨off, len⟩ := x
      simp only
      obtain ⟨h1, h2⟩ := hin off len rfl
      split
      · exact ⟨_, rfl⟩
      · obtain ⟨d, hd, _⟩ := rdBytes_ok (b := pkt) (off := off) (n := len.toNat) (by omega)
        rw [hd]; exact ⟨_, rfl⟩
  · intro n
    unfold findAddr; rw [hf]
    cases r with
    | none => exact ⟨_, rfl⟩
    | some x =>
      obtain ⟨off, len⟩ := x
      simp only
      obtain ⟨h1, h2⟩ := hin off len rfl
      split
      · exact ⟨_, rfl⟩
      · rename_i h4
        have hl4 : 4 ≤ len.toNat := by
          have : ¬ len.toNat < (4 : UInt16).toNat := by rw [← UInt16.lt_iff_toNat_lt]; exact h4
          have e : (4 : UInt16).toNat = 4 := rfl
          omega
        rw [rd_ok (by omega)]
        simp only
        split
        · split
          · exact ⟨_, rfl⟩
          · rename_i hc
            have : len.toNat = 8 := by
              have : ¬ (len != 8) = true := fun h => hc (by simp [h])
              have : len = 8 := by simpa using this
              rw [this]; rfl
            obtain ⟨d1, hd1, _⟩ := rdBytes_ok (b := pkt) (off := off + 2) (n := 2) (by omega)
            obtain ⟨d2, hd2, _⟩ := rdBytes_ok (b := pkt) (off := off + 4) (n := 4) (by omega)
            rw [hd1, hd2]; exact ⟨_, rfl⟩
        · split
          · split
            · exact ⟨_, rfl⟩
            · rename_i hc
              have : len.toNat = 20 := by
                have : ¬ (len != 20) = true := fun h => hc (by simp [h])
                have : len = 20 := by simpa using this
                rw [this]; rfl
              obtain ⟨d1, hd1, _⟩ := rdBytes_ok (b := pkt) (off := off + 2) (n := 2) (by omega)
              obtain ⟨d2, hd2, _⟩ := rdBytes_ok (b := pkt) (off := off + 4) (n := 16) (by omega)
              rw [hd1, hd2]; exact ⟨_, rfl⟩
          · exact ⟨_, rfl⟩
  · unfold findError; rw [hfe]
    cases re with
    | none => exact ⟨_, rfl⟩
    | some x =>
      obtain ⟨off, len⟩ := x
      simp only
      obtain ⟨h1, h2⟩ := hine off len rfl
      split
      · exact ⟨_, rfl⟩
      · rename_i h4
        have hl4 : 4 ≤ len.toNat := by
          have : ¬ len.toNat < (4 : UInt16).toNat := by rw [← UInt16.lt_iff_toNat_lt]; exact h4
          have e : (4 : UInt16).toNat = 4 := rfl
          omega
        rw [rd_ok (by omega), rd_ok (by omega)]
        simp only
        split <;> exact ⟨_, rfl⟩

/-- the unknown-attribute scan walks the same tiling: it never faults -/
theorem findUnknownsLoop_ok (ag : Agent) (buf : Bytes) (L max : Nat) (hL : L ≤ buf.size) :
    ∀ (len off : Nat), off + len = L → ∀ attrs,
    parseFrom (!noAlign (some ag.cfg)) off (seg buf off len) = some attrs →
    ∀ acc, ∃ r, findUnknownsLoop ag buf L max off acc = .ok r := by
  intro len
  induction len using Nat.strongRecOn with
  | ind len ih =>
    intro off hoff attrs hp acc
    rw [findUnknownsLoop]
    by_cases h0 : len = 0
    · subst h0
      rw [if_neg (by simp; omega)]
      exact ⟨_, rfl⟩
    · by_cases hmax : acc.size < max
      · rw [if_pos (by simp; omega)]
        by_cases h4 : len < 4
        · exfalso
          have hl : (seg buf off len).length = len := seg_length (by omega)
          match hs : seg buf off len, hl with
          | [a], _ => rw [hs] at hp; simp [parseFrom] at hp
          | [a, b], _ => rw [hs] at hp; simp [parseFrom] at hp
          | [a, b, c], _ => rw [hs] at hp; simp [parseFrom] at hp
          | [], h => simp at h; omega
          | a :: b :: c :: d :: r, h => simp at h; omega
        · have hseg := seg4 (b := buf) (off := off) (len := len) (by omega) (by omega)
          rw [hseg, parseFrom] at hp
          obtain ⟨al, hal, haln⟩ := getw_ok (b := buf) (off := off + STUN_ATTRIBUTE_TYPE_LEN)
            (by simp [STUN_ATTRIBUTE_TYPE_LEN]; omega)
          obtain ⟨at_, hat, _⟩ := getw_ok (b := buf) (off := off) (by omega)
          rw [hal, hat]
          simp only
          have hbl : be16 (buf.getD (off + 2) 0) (buf.getD (off + 3) 0) = al.toNat := by
            rw [haln]; simp [be16, getwN, byteN, STUN_ATTRIBUTE_TYPE_LEN, Nat.add_assoc]
          rw [hbl] at hp
          have hallt : al.toNat < 65536 := by rw [haln]; exact getwN_lt _ _
          have hgen : ∀ b : Bool, (if b = true then al.toNat else alignN al.toNat) = al.toNat + padLen (!b) al.toNat := by
            intro b
            cases b
            · simp [padLen, alignN_eq_add_pad al.toNat (by omega)]
            · simp [padLen]
          have hstep : (if ag.cfg.has STUN_AGENT_USAGE_NO_ALIGNED_ATTRIBUTES then al.toNat else alignN al.toNat) =
              al.toNat + padLen (!noAlign (some ag.cfg)) al.toNat := hgen _
          rw [hstep]
          split at hp
          · rename_i hfit
            rw [seg_drop] at hp
            cases hrec : parseFrom (!noAlign (some ag.cfg)) (off + 4 + (al.toNat + padLen (!noAlign (some ag.cfg)) al.toNat))
                (seg buf (off + 4 + (al.toNat + padLen (!noAlign (some ag.cfg)) al.toNat))
                  (len - 4 - (al.toNat + padLen (!noAlign (some ag.cfg)) al.toNat))) with
            | none => rw [hrec] at hp; cases hp
            | some as =>
              have hfit' : al.toNat + padLen (!noAlign (some ag.cfg)) al.toNat ≤ len - 4 := by
                rw [seg_length (by omega)] at hfit; exact hfit
              have e : off + STUN_ATTRIBUTE_VALUE_POS + (al.toNat + padLen (!noAlign (some ag.cfg)) al.toNat) =
                  off + 4 + (al.toNat + padLen (!noAlign (some ag.cfg)) al.toNat) := rfl
              rw [e]
              exact ih (len - 4 - (al.toNat + padLen (!noAlign (some ag.cfg)) al.toNat)) (by omega)
                (off + 4 + (al.toNat + padLen (!noAlign (some ag.cfg)) al.toNat)) (by omega) as hrec _
          · cases hp
      · rw [if_neg (by simp; omega)]
        exact ⟨_, rfl⟩

theorem findUnknowns_ok (ag : Agent) (pkt : Bytes) (max : Nat) (hv : Valid (some ag.cfg) pkt) :
    ∃ r, findUnknowns ag pkt max = .ok r := by
  obtain ⟨w, hw, hwn⟩ := messageLength_valid _ pkt hv
  obtain ⟨b0, b1, l0, l1, rest, hl, hb, hL, hp, hle, ht⟩ := (Props.C06.C06_length_iff_grammar _ _ _).mp hv.len_ok
  obtain ⟨attrs, hattrs⟩ := parseFrom_of_tiles (!noAlign (some ag.cfg)) _ _ rfl 20 ht
  rw [seg_take_drop] at hattrs
  unfold findUnknowns
  rw [hw]
  simp only
  rw [hwn, show STUN_MESSAGE_ATTRIBUTES_POS = 20 from rfl]
  exact findUnknownsLoop_ok ag pkt pkt.size max (Nat.le_refl _) (pkt.size - 20) 20 (by omega) attrs hattrs _

theorem readHdr_ok (pkt : Bytes) (h : 20 ≤ pkt.size) : ∃ hd, readHdr pkt = .ok hd := by
  unfold readHdr hasCookie messageId getClass getMethod
  have e1 : STUN_MESSAGE_TRANS_ID_POS = 4 := rfl
  have e2 : STUN_MESSAGE_TRANS_ID_LEN = 16 := rfl
  rw [e1, e2]
  obtain ⟨d, hd, _⟩ := rdBytes_ok (b := pkt) (off := 4) (n := 16) (by omega)
  rw [hd, if_pos (by omega)]
  simp only
  rw [if_pos (by omega)]
  exact ⟨_, rfl⟩

theorem fingerprint_ok (pkt : Bytes) (typo : Bool) (h : 28 ≤ pkt.size) : ∃ v, fingerprint pkt pkt.size typo = .ok v := by
  unfold fingerprint fprInput
  rw [if_neg (by omega)]
  obtain ⟨d1, hd1, _⟩ := rdBytes_ok (b := pkt) (off := 0) (n := 2) (by omega)
  obtain ⟨d2, hd2, _⟩ := rdBytes_ok (b := pkt) (off := 4) (n := pkt.size - 12) (by omega)
  rw [hd1, hd2]
  exact ⟨_, rfl⟩

theorem checkFingerprint_ok (ag : Agent) (pkt : Bytes) (hv : Valid (some ag.cfg) pkt) :
    ∃ r, checkFingerprint ag pkt = .ok r := by
  obtain ⟨rf, hf, hin⟩ := find_valid (some ag.cfg) pkt tFPR hv
  obtain ⟨_, _, ⟨r32, h32⟩, _⟩ := accessors_no_fault (some ag.cfg) pkt tFPR hv
  obtain ⟨w, hw, hwn⟩ := messageLength_valid _ pkt hv
  unfold checkFingerprint
  simp only
  rw [h32]
  obtain ⟨ret, v⟩ := r32
  cases ret with
  | success =>
    simp only
    -- FINGERPRINT was found: the packet has at least 28 bytes
    have h28 : 28 ≤ pkt.size := by
      unfold find32 at h32
      rw [hf] at h32
      cases rf with
      | none => cases h32
      | some x =>
        obtain ⟨off, len⟩ := x
        obtain ⟨h1, h2⟩ := hin off len rfl
        simp only at h32
        split at h32
        · rename_i h4
          have : len.toNat = 4 := by have := eq_of_beq h4; rw [this]; rfl
          omega
        · cases h32
    rw [hw]
    simp only
    rw [hwn]
    obtain ⟨c1, hc1⟩ := fingerprint_ok pkt false h28
    obtain ⟨c2, hc2⟩ := fingerprint_ok pkt true h28
    rw [hc1]
    simp only
    split
    · split
      · obtain ⟨rm, hm, _⟩ := find_valid (some ag.cfg) pkt (UInt16.ofNat STUN_ATTRIBUTE_MS_IMPLEMENTATION_VERSION) hv
        rw [hm]
        cases rm with
        | none => simp only; rw [hc2]; exact ⟨_, rfl⟩
        | some x => exact ⟨_, rfl⟩
      · exact ⟨_, rfl⟩
    · exact ⟨_, rfl⟩
  | notFound => exact ⟨_, rfl⟩
  | invalid => exact ⟨_, rfl⟩
  | noSpace => exact ⟨_, rfl⟩
  | unsupported => exact ⟨_, rfl⟩

/-! ### stun_agent_validate never faults -/

theorem noAlign_some (c : Cfg) : noAlign (some c) = c.has STUN_AGENT_USAGE_NO_ALIGNED_ATTRIBUTES := rfl

theorem frameCheck_ok (ag : Agent) (buffer : Bytes) (hs : buffer.size < 65536) :
    ∃ r, frameCheck ag buffer = .ok r ∧ ∀ h, r = .inr h → Valid (some ag.cfg) buffer := by
  unfold frameCheck
  simp only
  obtain ⟨rv, hrv⟩ := Props.C06.C06_walk_terminates_no_fault buffer (!ag.cfg.has STUN_AGENT_USAGE_NO_ALIGNED_ATTRIBUTES)
  rw [hrv]
  cases rv with
  | invalid => exact ⟨_, rfl, fun h hh => by cases hh⟩
  | incomplete => exact ⟨_, rfl, fun h hh => by cases hh⟩
  | len n =>
    simp only
    by_cases hn : n = buffer.size
    · subst hn
      have hv : Valid (some ag.cfg) buffer := ⟨by rw [noAlign_some]; exact hrv, hs⟩
      have h20 := Valid.size_ge _ _ hv
      obtain ⟨hd, hhd⟩ := readHdr_ok buffer h20
      rw [if_neg (by simp), hhd]
      simp only
      split
      · exact ⟨_, rfl, fun h hh => by cases hh⟩
      · split
        · obtain ⟨rc, hrc⟩ := checkFingerprint_ok ag buffer hv
          rw [hrc]
          cases rc
          · exact ⟨_, rfl, fun h hh => by cases hh⟩
          · exact ⟨_, rfl, fun _ _ => hv⟩
        · exact ⟨_, rfl, fun _ _ => hv⟩
    · rw [if_pos (by simpa using hn)]
      exact ⟨_, rfl, fun h hh => by cases hh⟩

theorem readFacts_ok (c : Cfg) (pkt : Bytes) (hv : Valid (some c) pkt) : ∃ f, readFacts (some c) pkt = .ok f := by
  unfold readFacts
  obtain ⟨_, _, _, _, _, _, ⟨re, hre⟩⟩ := accessors_no_fault (some c) pkt 0 hv
  obtain ⟨⟨r1, h1⟩, _⟩ := accessors_no_fault (some c) pkt tUSERNAME hv
  obtain ⟨⟨r2, h2⟩, _⟩ := accessors_no_fault (some c) pkt tMI hv
  obtain ⟨⟨r3, h3⟩, _⟩ := accessors_no_fault (some c) pkt tNONCE hv
  obtain ⟨⟨r4, h4⟩, _⟩ := accessors_no_fault (some c) pkt tREALM hv
  rw [hre, h1, h2, h3, h4]
  exact ⟨_, rfl⟩

theorem callValidater_ok (c : Cfg) (pkt : Bytes) (v : Validater) (f : Facts) (key0 : Option Bytes) (ic : Bool)
    (hv : Valid (some c) pkt) : ∃ r, callValidater c pkt v f key0 ic = .ok r := by
  unfold callValidater
  split
  · obtain ⟨r, hf, hin⟩ := find_valid (some c) pkt tUSERNAME hv
    rw [hf]
    simp only
    cases r with
    | none =>
      simp only
      cases v with
      | none => exact ⟨_, rfl⟩
      | some g => simp only; cases g #[] <;> exact ⟨_, rfl⟩
    | some x =>
      obtain ⟨off, len⟩ := x
      obtain ⟨_, h2⟩ := hin off len rfl
      obtain ⟨d, hd, _⟩ := rdBytes_ok (b := pkt) (off := off) (n := len.toNat) (by omega)
      simp only
      rw [hd]
      simp only
      cases v with
      | none => exact ⟨_, rfl⟩
      | some g => simp only; cases g d <;> exact ⟨_, rfl⟩
  · exact ⟨_, rfl⟩

theorem stunSha1_ok (H : Hashes) (pkt : Bytes) (hoff : Nat) (ml : UInt16) (k : Bytes) (pad : Bool)
    (h1 : 24 ≤ hoff) (h2 : hoff + 20 ≤ pkt.size) : ∃ s, stunSha1 H pkt (hoff + 20) ml k pad = .ok s := by
  unfold stunSha1 macInput
  rw [if_neg (by omega)]
  obtain ⟨d1, hd1, _⟩ := rdBytes_ok (b := pkt) (off := 0) (n := 2) (by omega)
  obtain ⟨d2, hd2, _⟩ := rdBytes_ok (b := pkt) (off := 4) (n := hoff + 20 - 28) (by omega)
  rw [hd1, hd2]
  exact ⟨_, rfl⟩

theorem longTermKey_ok (H : Hashes) (c : Cfg) (pkt k : Bytes) (lv : Bool) (lk : Bytes) (hv : Valid (some c) pkt) :
    ∃ r, longTermKey H c pkt k lv lk = .ok r := by
  unfold longTermKey
  split
  · exact ⟨_, rfl⟩
  · obtain ⟨r1, hf1, hin1⟩ := find_valid (some c) pkt tREALM hv
    obtain ⟨r2, hf2, hin2⟩ := find_valid (some c) pkt tUSERNAME hv
    rw [hf1, hf2]
    cases r1 with
    | none => exact ⟨_, rfl⟩
    | some x =>
      cases r2 with
      | none => exact ⟨_, rfl⟩
      | some y =>
        obtain ⟨ro, rl⟩ := x
        obtain ⟨uo, ul⟩ := y
        obtain ⟨_, hr⟩ := hin1 ro rl rfl
        obtain ⟨_, hu⟩ := hin2 uo ul rfl
        obtain ⟨d1, hd1, _⟩ := rdBytes_ok (b := pkt) (off := ro) (n := rl.toNat) (by omega)
        obtain ⟨d2, hd2, _⟩ := rdBytes_ok (b := pkt) (off := uo) (n := ul.toNat) (by omega)
        simp only
        rw [hd1, hd2]
        exact ⟨_, rfl⟩

theorem miCheck_ok (H : Hashes) (c : Cfg) (pkt : Bytes) (h : Hdr) (f : Facts) (key : Option Bytes) (ic lv : Bool)
    (lk : Bytes) (hv : Valid (some c) pkt) : ∃ r, miCheck H c pkt h f key ic lv lk = .ok r := by
  unfold miCheck
  cases key with
  | none => exact ⟨_, rfl⟩
  | some k =>
    simp only
    split
    · unfold miCheckKey
      obtain ⟨r, hf, hin⟩ := find_valid (some c) pkt tMI hv
      rw [hf]
      cases r with
      | none => simp only; split <;> exact ⟨_, rfl⟩
      | some x =>
        obtain ⟨hoff, hlen⟩ := x
        obtain ⟨h1, h2⟩ := hin hoff hlen rfl
        simp only
        by_cases h20 : hlen = 20
        · subst h20
          have e20 : (20 : UInt16).toNat = 20 := rfl
          rw [e20] at h2
          rw [if_neg (by simp)]
          have hml : ∃ ml, macLenOf c pkt hoff = .ok ml := by
            unfold macLenOf
            split
            · obtain ⟨w, hw, _⟩ := messageLength_valid _ pkt hv
              rw [hw]; exact ⟨_, rfl⟩
            · exact ⟨_, rfl⟩
          obtain ⟨ml, hml⟩ := hml
          rw [hml]
          simp only
          obtain ⟨hash, hhash, _⟩ := rdBytes_ok (b := pkt) (off := hoff) (n := 20) h2
          split
          · obtain ⟨lt, hlt⟩ := longTermKey_ok H c pkt k lv lk hv
            rw [hlt]
            cases lt with
            | none => exact ⟨_, rfl⟩
            | some md5 =>
              simp only
              obtain ⟨sha, hsha⟩ := stunSha1_ok H pkt hoff ml md5 (macPadOf c) h1 h2
              rw [hsha, hhash]
              simp only
              split <;> exact ⟨_, rfl⟩
          · obtain ⟨sha, hsha⟩ := stunSha1_ok H pkt hoff ml k (macPadOf c) h1 h2
            rw [hsha, hhash]
            simp only
            split <;> exact ⟨_, rfl⟩
        · rw [if_pos (by simpa using h20)]
          exact ⟨_, rfl⟩
    · exact ⟨_, rfl⟩

theorem validateTail_ok (ag : Agent) (pkt : Bytes) (h : Hdr) (f : Facts) (si : Option Nat) (info : MsgInfo)
    (u : Nat) (hv : Valid (some ag.cfg) pkt) : ∃ r, validateTail ag pkt h f si info u = .ok r := by
  obtain ⟨_, _, ⟨r32, h32⟩, _⟩ := accessors_no_fault (some ag.cfg) pkt
    (UInt16.ofNat STUN_ATTRIBUTE_MS_IMPLEMENTATION_VERSION) hv
  obtain ⟨unk, hunk⟩ := findUnknowns_ok ag pkt 1 hv
  unfold validateTail
  simp only [h32, hunk]
  repeat' split
  all_goals exact ⟨_, rfl⟩

/-- `stun_agent_validate` returns a status — no out-of-bounds access, no failed assert — for every
    byte string of length < 65536, every agent configuration and state, every validater -/
theorem validate_no_fault (H : Hashes) (ag : Agent) (buffer : Bytes) (v : Validater) (u : Nat)
    (hs : buffer.size < 65536) : ∃ r, validate H ag buffer v u = .ok r := by
  unfold validate
  simp only
  obtain ⟨r, hr, hval⟩ := frameCheck_ok ag buffer hs
  rw [hr]
  cases r with
  | inl st => exact ⟨_, rfl⟩
  | inr h =>
    have hv := hval h rfl
    simp only
    cases matchResponse ag h with
    | inl st => exact ⟨_, rfl⟩
    | inr si =>
      simp only
      obtain ⟨f, hf⟩ := readFacts_ok ag.cfg buffer hv
      rw [hf]
      simp only
      split
      · exact ⟨_, rfl⟩
      · obtain ⟨kr, hkr⟩ := callValidater_ok ag.cfg buffer v f (slotInfo ag si).1 (ignoreCredOf ag.cfg h f) hv
        rw [hkr]
        cases kr with
        | none => exact ⟨_, rfl⟩
        | some key =>
          simp only
          obtain ⟨mr, hmr⟩ := miCheck_ok H ag.cfg buffer h f key (ignoreCredOf ag.cfg h f)
            (slotInfo ag si).2.1 (slotInfo ag si).2.2 hv
          rw [hmr]
          obtain ⟨ok, info⟩ := mr
          cases ok
          · exact ⟨_, rfl⟩
          · exact validateTail_ok ag buffer h f si info u hv

end Nice.Stun
