/-
  C08 end-to-end (send side), part 2: `queue` appends the accepted bytes to the ghost stream; FIN / RST / connect
  messages; `closedown`; the data path of `process` does not touch the send side.
-/
import Nice.Proofs.PTcpStreamSnd
namespace Nice.Proofs.PTcpStream
open Nice.PTcp Nice.Gen Nice.Proofs.PTcp Std.Do

set_option mvcgen.warning false
set_option maxRecDepth 16000
set_option linter.unusedSimpArgs false

/-- the first `c` bytes of `d` (zero-extended), as a list -/
def firstBytes (d : Array UInt8) (c : Nat) : List UInt8 := (List.range c).map (fun j => d.getD j 0)

theorem firstBytes_length (d : Array UInt8) (c : Nat) : (firstBytes d c).length = c := by
  simp [firstBytes]

theorem firstBytes_getD (d : Array UInt8) (c j : Nat) (h : j < c) : (firstBytes d c).getD j 0 = d.getD j 0 := by
  simp [firstBytes, List.getD_eq_getElem?_getD, h]

section
variable (Q : List UInt8)

/-- **`queue`** appends exactly the accepted bytes `data[0 .. copy)` to the stream -/
theorem queue_sinv {a f : Nat} (s : Sock) (d : Array UInt8) (len : UInt32) (fl : UInt8) (r : UInt32 × Sock)
    (hi : SInv Q a f s) (hns : (hasSentFin s.state = false ∧ s.state ≠ .listen) ∨ len = 0)
    (h : queue s d len fl = .ok r) :
    SInv (Q ++ firstBytes d r.1.toNat) a f r.2 ∧ r.1.toNat ≤ len.toNat ∧ r.2.state = s.state := by
  unfold queue at h
  obtain ⟨len', hl', h⟩ := bind_ok h
  simp only at h
  obtain ⟨⟨copy, sb⟩, hw, h⟩ := bind_ok h
  simp only [pure, Except.pure] at h
  cases h
  have hlen' : len'.toNat ≤ len.toNat := by
    split at hl'
    · rename_i hgt
      split at hl'
      · cases hl'
      · simp only [pure, Except.pure] at hl'
        cases hl'
        rw [UInt32.toNat_ofNat']
        have := Nat.mod_le s.sbuf.getWriteRemaining (2 ^ 32)
        omega
    · simp only [pure, Except.pure] at hl'; cases hl'; exact Nat.le_refl _
  have ⟨hc, hd, hold, hnew⟩ := Nice.Props.C08.C08_fifo_write_appends s.sbuf sb d len'.toNat copy hi.fok.1 hi.fok.2 hw
  have ⟨hf, hsz⟩ := write_ok hi.fok.1 hi.fok.2 hw
  have hcopy : copy ≤ len'.toNat := by omega
  have hcn : (UInt32.ofNat copy).toNat = copy := by
    rw [UInt32.toNat_ofNat']; have := len'.toNat_lt; omega
  have hlenQ := hi.len
  refine ⟨⟨⟨hf, by rw [hsz]; exact hi.fok.2⟩, ?_, ?_, hi.una, ?_, ?_, ?_⟩, by show (UInt32.ofNat copy).toNat ≤ _; omega, rfl⟩
  · show a + sb.data = (Q ++ firstBytes d (UInt32.ofNat copy).toNat).length
    rw [List.length_append, firstBytes_length, hcn, hd]; omega
  · intro i hi'
    show byteAt sb i = (Q ++ firstBytes d (UInt32.ofNat copy).toNat).getD (a + i) 0
    have hi'' : i < sb.data := hi'
    rw [hcn]
    by_cases h1 : i < s.sbuf.data
    · rw [hold i h1, hi.com i h1, List.getD_eq_getElem?_getD, List.getD_eq_getElem?_getD,
        List.getElem?_append_left (by omega)]
    · have e : i = s.sbuf.data + (i - s.sbuf.data) := by omega
      rw [e, hnew _ (by omega), List.getD_eq_getElem?_getD, List.getElem?_append_right (by omega),
        ← List.getD_eq_getElem?_getD]
      have e2 : a + (s.sbuf.data + (i - s.sbuf.data)) - Q.length = i - s.sbuf.data := by omega
      rw [e2, firstBytes_getD _ _ _ (by omega)]
  · intro hf0
    have ⟨g1, g2⟩ := hi.fz hf0
    refine ⟨g1, ?_⟩
    show sb.data = 0
    rcases hns with hns | hns
    · rw [hns.1] at g1; cases g1
    · have : len.toNat = 0 := by rw [hns]; rfl
      omega
  · intro hst
    have hst' : s.state = .listen := hst
    rcases hns with hns | hns
    · exact absurd hst' hns.2
    · have : len.toNat = 0 := by rw [hns]; rfl
      have hc0 : copy = 0 := by omega
      rw [hcn, hc0, hi.lq hst']; rfl
  · exact outOk_mono _ hi.out

/-- queueing nothing (FIN / RST markers) leaves the stream unchanged -/
theorem queue0_sspec (s : Sock) (fl : UInt8) :
    ⦃⌜SInvE Q s⌝⦄ queue s #[] 0 fl ⦃⇓? r => ⌜SInvE Q r.2⌝⦄ :=
  to_triple fun hi r h => by
    obtain ⟨a, f, hi⟩ := hi
    have ⟨k1, k2, _⟩ := queue_sinv Q s #[] 0 fl r hi (Or.inr rfl) h
    have : r.1.toNat = 0 := by have : (0 : UInt32).toNat = 0 := rfl; omega
    rw [this] at k1
    have e : Q ++ firstBytes #[] 0 = Q := by simp [firstBytes]
    rw [e] at k1
    exact ⟨a, f, k1⟩

theorem queueFinMessage_sspec (s : Sock) :
    ⦃⌜SInvE Q s⌝⦄ queueFinMessage s ⦃⇓? s' => ⌜SInvE Q s'⌝⦄ := by
  have h1 := queue0_sspec Q
  mvcgen [queueFinMessage, h1] <;> sinv

theorem queueRstMessage_sspec (s : Sock) :
    ⦃⌜SInvE Q s⌝⦄ queueRstMessage s ⦃⇓? s' => ⌜SInvE Q s'⌝⦄ := by
  have h1 := queue0_sspec Q
  mvcgen [queueRstMessage, h1] <;> sinv

theorem closedown_sspec (s : Sock) (e : Err) (src : ClosedownSource) (clk : UInt32) :
    ⦃⌜SInvE Q s⌝⦄ closedown s e src clk ⦃⇓? s' => ⌜SInvE Q s'⌝⦄ := by
  have h1 := queueRstMessage_sspec Q
  have h2 := attemptSend_sspec Q
  have h3 := closedownNav_sspec Q
  mvcgen [closedown, h1, h2, h3] <;> sinv

theorem rlistRecover_tspec (l : List RSeg) (rb : Fifo) (a b : UInt32) (sf : SendFlags) :
    ⦃⌜True⌝⦄ rlistRecover l rb a b sf ⦃⇓? _ => ⌜True⌝⦄ := triv_spec _
theorem writeOffset_tspec (b : Fifo) (src : Array UInt8) (so k off : Nat) :
    ⦃⌜True⌝⦄ b.writeOffset src so k off ⦃⇓? _ => ⌜True⌝⦄ := triv_spec _
theorem consumeWriteBuffer_tspec (b : Fifo) (k : Nat) : ⦃⌜True⌝⦄ b.consumeWriteBuffer k ⦃⇓? _ => ⌜True⌝⦄ := triv_spec _

theorem processData_sspec (s : Sock) (seg : Segment) (p : Array UInt8) (rf : Bool) (clk : UInt32) :
    ⦃⌜SInvE Q s⌝⦄ processData s seg p rf clk ⦃⇓? r => ⌜SInvE Q r.2⌝⦄ := by
  have h1 := attemptSend_sspec Q
  mvcgen [processData, writeOffset_tspec, consumeWriteBuffer_tspec, rlistRecover_tspec, h1] <;> sinv

end

end Nice.Proofs.PTcpStream
