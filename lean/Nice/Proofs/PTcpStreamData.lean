/-
  C08 end-to-end (receive side), part 3: the data path of `process` (`processData`: trimming, in-order and out-of-order
  store, `rlist` recovery, FIN consumption) keeps the receive-side stream invariant for every `SegOk` segment.
-/
import Nice.Proofs.PTcpStreamSend
namespace Nice.Proofs.PTcpStream
open Nice.PTcp Nice.Gen Nice.Proofs.PTcp Std.Do

set_option maxRecDepth 16000

/-! ### `processData` cut into stages (definitionally the same function) -/

def pdPrep (s : Sock) : Sock :=
  let kIdealRefillSize := (s.sbuf_len + s.rbuf_len) / 2
  let snd_buffered := s.sbuf.getBuffered
  let wr := s.bWriteEnable && snd_buffered < kIdealRefillSize.toNat
  emitIf wr { s with bWriteEnable := if wr then false else s.bWriteEnable } .writable

def pdFlags (s : Sock) (seg : Segment) (received_fin : Bool) : SendFlags :=
  if seg.seq != s.rcv_nxt then .sfDuplicateAck
  else if seg.len != 0 then (if s.ack_delay == 0 then .sfImmediateAck else .sfDelayedAck)
  else if received_fin then .sfImmediateAck
  else .sfNone

def trimLeft (nxt : UInt32) (seg : Segment) : Segment :=
  if lt? (ptcp_smaller seg.seq nxt) then
    let nAdjust := nxt - seg.seq
    if nAdjust < seg.len then
      { seg with seq := seg.seq + nAdjust, dataOff := seg.dataOff + nAdjust.toNat, len := seg.len - nAdjust }
    else { seg with len := 0 }
  else seg

def trimRight (nxt : UInt32) (available_space : Nat) (seg : Segment) : Segment :=
  if (seg.seq + seg.len - nxt).toNat > available_space then
    let nAdjust := UInt32.ofNat (gsub (seg.seq + seg.len - nxt).toNat available_space)
    if nAdjust < seg.len then { seg with len := seg.len - nAdjust } else { seg with len := 0 }
  else seg

def dropPre (s : Sock) (seg : Segment) : Segment :=
  if (seg.flags &&& cFLAG_CTL) == 0 && (s.state = .listen || s.state = .synSent) then { seg with len := 0 } else seg

def ignoreData (s : Sock) (seg : Segment) : Bool :=
  (seg.flags &&& cFLAG_CTL) != 0 || (!s.support_fin_ack && s.shutdown != .none)

def storeStage (s : Sock) (seg : Segment) (p : Array UInt8) (bIgnoreData : Bool) (sflags : SendFlags) :
    R (Sock × SendFlags × Bool) :=
  if seg.len > 0 then
    (if bIgnoreData then
       pure ({ s with rcv_nxt := if seg.seq == s.rcv_nxt then s.rcv_nxt + seg.len else s.rcv_nxt }, sflags, false)
     else do
       let nOffset := seg.seq - s.rcv_nxt
       let (res, rb) ← s.rbuf.writeOffset p seg.dataOff seg.len.toNat nOffset.toNat
       if res != seg.len.toNat then fault (Fault.assert "process: res == seg->len")
       let s := { s with rbuf := rb }
       if seg.seq == s.rcv_nxt then do
         let rb ← s.rbuf.consumeWriteBuffer seg.len.toNat
         let (rl, rb, rcv_nxt, rcv_wnd, sflags) ←
           rlistRecover s.rlist rb (s.rcv_nxt + seg.len) (s.rcv_wnd - seg.len) sflags
         pure ({ s with rbuf := rb, rcv_nxt := rcv_nxt, rcv_wnd := rcv_wnd, rlist := rl }, sflags, true)
       else
         pure ({ s with rlist := rlistInsert { seq := seg.seq, len := seg.len } s.rlist }, sflags, false))
  else pure (s, sflags, false)

theorem processData_eq (s : Sock) (seg : Segment) (p : Array UInt8) (rf : Bool) (clk : UInt32) :
    processData s seg p rf clk =
      (let s0 := pdPrep s
       let seg2 := trimRight s0.rcv_nxt s0.rbuf.getWriteRemaining (trimLeft s0.rcv_nxt seg)
       do
         let (s1, sflags, bNew) ← storeStage s0 (dropPre s0 seg2) p (ignoreData s0 seg2) (pdFlags s0 seg rf)
         let s2 := { s1 with rcv_nxt := if rf then s1.rcv_nxt + 1 else s1.rcv_nxt }
         let s3 ← attemptSend s2 sflags clk
         pure (true, emitIf (bNew && s3.bReadEnable) s3 .readable)) := rfl


/-! ### the synchronised receive core -/

/-- ring / `rcv_nxt` / `rlist` synchronised with the stream, FIN not consumed yet -/
structure RCn (W : List UInt8) (D n : Nat) (rb : Fifo) (nxt : UInt32) (rl : List RSeg) : Prop where
  fok : FOk rb
  pre : n + rb.data ≤ W.length
  com : ∀ i, i < rb.data → byteAt rb i = W.getD (n + i) 0
  nx : nxt.toNat = D + n + rb.data
  ooo : ∀ r, r ∈ rl → r.seq.toNat + r.len.toNat ≤ D + W.length ∧
    ∀ q, r.seq.toNat ≤ q → q < r.seq.toNat + r.len.toNat → nxt.toNat ≤ q →
      q - (D + n) < rb.buf.size ∧ byteAt rb (q - (D + n)) = W.getD (q - D) 0

theorem consumeWriteBuffer_eq {b b' : Fifo} {k : Nat} (h : b.consumeWriteBuffer k = .ok b') :
    b' = { b with data := b.data + k } := by
  unfold Fifo.consumeWriteBuffer at h
  simp only [fault] at h
  split at h
  · cases h
  · cases h; rfl

section
variable {W : List UInt8} {D n : Nat}

theorem rlistRecover_rcn (hB : D + W.length + 2 < 2 ^ 31) (rl : List RSeg) :
    ∀ (rb : Fifo) (nxt wnd : UInt32) (sf : SendFlags) (r : List RSeg × Fifo × UInt32 × UInt32 × SendFlags),
      RCn W D n rb nxt rl → rlistRecover rl rb nxt wnd sf = .ok r →
      RCn W D n r.2.1 r.2.2.1 r.1 ∧ nxt.toNat ≤ r.2.2.1.toNat := by
  induction rl with
  | nil =>
    intro rb nxt wnd sf r hc h
    simp only [rlistRecover, pure, Except.pure] at h
    cases h
    exact ⟨hc, Nat.le_refl _⟩
  | cons d rest ih =>
    intro rb nxt wnd sf r hc h
    have hd := hc.ooo d (List.mem_cons_self)
    have hnx := hc.nx
    have hpre := hc.pre
    have hrest : ∀ r, r ∈ rest → r ∈ d :: rest := fun r hr => List.mem_cons_of_mem _ hr
    have e1 : lt? (ptcp_smaller_or_equal d.seq nxt) = decide (d.seq.toNat ≤ nxt.toNat) :=
      smaller_eq_iff _ _ (by omega) (by omega)
    have hsum : (d.seq + d.len).toNat = d.seq.toNat + d.len.toNat := add_toNat_of_lt _ _ (by omega)
    have e2 : lt? (ptcp_larger (d.seq + d.len) nxt) = decide (nxt.toNat < d.seq.toNat + d.len.toNat) := by
      rw [larger_iff _ _ (by omega) (by omega), hsum]
    unfold rlistRecover at h
    rw [e1, e2] at h
    by_cases c1 : d.seq.toNat ≤ nxt.toNat
    · by_cases c2 : nxt.toNat < d.seq.toNat + d.len.toNat
      · simp only [c1, c2, decide_true, if_true] at h
        obtain ⟨rb1, h1, h2⟩ := bind_ok h
        have hadj : (d.seq + d.len - nxt).toNat = d.seq.toNat + d.len.toNat - nxt.toNat := by
          rw [sub_toNat_of_le _ _ (by omega), hsum]
        have hnx' : (nxt + (d.seq + d.len - nxt)).toNat = d.seq.toNat + d.len.toNat := by
          rw [add_toNat_of_lt _ _ (by omega), hadj]; omega
        have ⟨hf1, _, hd1⟩ := consumeWriteBuffer_ok hc.fok.1 hc.fok.2 h1
        have hb1 := consumeWriteBuffer_eq h1
        have hby : ∀ i, byteAt rb1 i = byteAt rb i := by intro i; rw [hb1]; rfl
        have hsz : rb1.buf.size = rb.buf.size := by rw [hb1]
        rw [hadj] at hd1
        have hc1 : RCn W D n rb1 (nxt + (d.seq + d.len - nxt)) rest := by
          refine ⟨⟨hf1, by rw [hsz]; exact hc.fok.2⟩, by omega, ?_, by omega, ?_⟩
          · intro i hi
            rw [hby]
            by_cases hi0 : i < rb.data
            · exact hc.com i hi0
            · have := (hd.2 (D + n + i) (by omega) (by omega) (by omega)).2
              have e3 : D + n + i - (D + n) = i := by omega
              have e4 : D + n + i - D = n + i := by omega
              rw [e3, e4] at this; exact this
          · intro r hr
            have hr' := hc.ooo r (hrest r hr)
            refine ⟨hr'.1, ?_⟩
            intro q q1 q2 q3
            rw [hby, hsz]
            exact hr'.2 q q1 q2 (by omega)
        have := ih rb1 _ _ _ r hc1 h2
        exact ⟨this.1, by omega⟩
      · simp only [c1, c2, decide_true, decide_false, if_true, if_false, Bool.false_eq_true] at h
        have hc1 : RCn W D n rb nxt rest :=
          ⟨hc.fok, hc.pre, hc.com, hc.nx, fun r hr => hc.ooo r (hrest r hr)⟩
        exact ih rb _ _ _ r hc1 h
    · simp only [c1, decide_false, if_false, Bool.false_eq_true, pure, Except.pure] at h
      cases h
      exact ⟨hc, Nat.le_refl _⟩

/-- a (trimmed) data segment that can be stored: at or after `rcv_nxt`, inside the stream, inside the free ring space,
    payload = stream -/
structure StoreOk (W : List UInt8) (D : Nat) (rb : Fifo) (nxt : UInt32) (seg : Segment) (p : Array UInt8) : Prop where
  lo : nxt.toNat ≤ seg.seq.toNat
  hi : seg.seq.toNat + seg.len.toNat ≤ D + W.length
  fit : seg.seq.toNat + seg.len.toNat - nxt.toNat ≤ rb.buf.size - rb.data
  bytes : ∀ j, j < seg.len.toNat → p.getD (seg.dataOff + j) 0 = W.getD (seg.seq.toNat - D + j) 0

theorem u32_pos {x : UInt32} (h : x ≠ 0) : x > 0 := by
  have : x.toNat ≠ 0 := fun e => h (UInt32.toNat_inj.mp (by rw [e]; rfl))
  show (0 : UInt32) < x
  rw [UInt32.lt_iff_toNat_lt]; show 0 < x.toNat; omega

theorem mem_rlistInsert (x r : RSeg) (l : List RSeg) : r ∈ rlistInsert x l → r = x ∨ r ∈ l := by
  induction l with
  | nil => intro h; simp only [rlistInsert, List.mem_singleton] at h; exact Or.inl h
  | cons d rest ih =>
    intro h
    unfold rlistInsert at h
    split at h
    · rcases List.mem_cons.mp h with h | h
      · exact Or.inr (h ▸ List.mem_cons_self)
      · rcases ih h with h | h
        · exact Or.inl h
        · exact Or.inr (List.mem_cons_of_mem _ h)
    · rcases List.mem_cons.mp h with h | h
      · exact Or.inl h
      · exact Or.inr h

theorem storeStage_rcn (hB : D + W.length + 2 < 2 ^ 31) (s : Sock) (seg : Segment) (p : Array UInt8) (sf : SendFlags)
    (r : Sock × SendFlags × Bool) (hc : RCn W D n s.rbuf s.rcv_nxt s.rlist) (hl : seg.len ≠ 0)
    (hs : StoreOk W D s.rbuf s.rcv_nxt seg p) (h : storeStage s seg p false sf = .ok r) :
    ∃ rb nxt wnd rl, r.1 = { s with rbuf := rb, rcv_nxt := nxt, rcv_wnd := wnd, rlist := rl } ∧
      RCn W D n rb nxt rl ∧ (seg.seq = s.rcv_nxt → s.rcv_nxt.toNat + seg.len.toNat ≤ nxt.toNat) := by
  have hpos := u32_pos hl
  have hlen : 0 < seg.len.toNat := by
    have := (UInt32.lt_iff_toNat_lt).mp hpos; exact this
  have hlo := hs.lo
  have hhi := hs.hi
  have hfit := hs.fit
  have hnx := hc.nx
  have hfd := hc.fok.1.1
  unfold storeStage at h
  simp only [hpos, if_true, Bool.false_eq_true, if_false] at h
  obtain ⟨⟨res, rb1⟩, hw, h⟩ := bind_ok h
  have hoffN : (seg.seq - s.rcv_nxt).toNat = seg.seq.toNat - s.rcv_nxt.toNat := sub_toNat_of_le _ _ hlo
  rw [hoffN] at hw
  have hoff : s.rbuf.data + (seg.seq.toNat - s.rcv_nxt.toNat) < s.rbuf.buf.size := by omega
  have ⟨hres, hbytes⟩ := writeOffset_content hc.fok.1 hc.fok.2 hoff hw
  have ⟨hf1, hsz1, hd1, hr1⟩ := writeOffset_ok hc.fok.1 hw
  have hres' : res = seg.len.toNat := by rw [hres]; omega
  subst hres'
  simp only [bne_self_eq_false, Bool.false_eq_true, if_false] at h
  have hby1 : ∀ i, i < s.rbuf.buf.size → byteAt rb1 i =
      if s.rbuf.data + (seg.seq.toNat - s.rcv_nxt.toNat) ≤ i ∧
          i < s.rbuf.data + (seg.seq.toNat - s.rcv_nxt.toNat) + seg.len.toNat
        then p.getD (seg.dataOff + (i - (s.rbuf.data + (seg.seq.toNat - s.rcv_nxt.toNat)))) 0
        else byteAt s.rbuf i := hbytes
  clear hbytes
  by_cases heq : seg.seq = s.rcv_nxt
  · -- in order
    simp only [heq, beq_self_eq_true, if_true] at h
    obtain ⟨rb2, hcw, h⟩ := bind_ok h
    obtain ⟨⟨rl, rb3, nxt3, wnd3, sf3⟩, hrr, h⟩ := bind_ok h
    simp only [pure, Except.pure] at h
    cases h
    have hb2 := consumeWriteBuffer_eq hcw
    have ⟨hf2, _, hd2⟩ := consumeWriteBuffer_ok hf1 (by rw [hsz1]; exact hc.fok.2) hcw
    have hby2 : ∀ i, byteAt rb2 i = byteAt rb1 i := by intro i; rw [hb2]; rfl
    have hsz2 : rb2.buf.size = s.rbuf.buf.size := by rw [hb2]; exact hsz1
    have hseq : seg.seq.toNat = s.rcv_nxt.toNat := by rw [heq]
    have hnx2 : (s.rcv_nxt + seg.len).toNat = s.rcv_nxt.toNat + seg.len.toNat := add_toNat_of_lt _ _ (by omega)
    have hc2 : RCn W D n rb2 (s.rcv_nxt + seg.len) s.rlist := by
      refine ⟨⟨hf2, by rw [hsz2]; exact hc.fok.2⟩, by omega, ?_, by omega, ?_⟩
      · intro i hi
        rw [hby2, hby1 i (by omega)]
        by_cases hi0 : i < s.rbuf.data
        · have : ¬ (s.rbuf.data + (seg.seq.toNat - s.rcv_nxt.toNat) ≤ i ∧
              i < s.rbuf.data + (seg.seq.toNat - s.rcv_nxt.toNat) + seg.len.toNat) := by omega
          simp only [this, if_false]
          exact hc.com i hi0
        · have : (s.rbuf.data + (seg.seq.toNat - s.rcv_nxt.toNat) ≤ i ∧
              i < s.rbuf.data + (seg.seq.toNat - s.rcv_nxt.toNat) + seg.len.toNat) := by omega
          simp only [this, and_self, if_true]
          rw [hs.bytes _ (by omega)]
          congr 1; omega
      · intro r hr
        have hr' := hc.ooo r hr
        refine ⟨hr'.1, ?_⟩
        intro q q1 q2 q3
        have ⟨a1, a2⟩ := hr'.2 q q1 q2 (by omega)
        rw [hsz2, hby2, hby1 _ a1]
        have : ¬ (s.rbuf.data + (seg.seq.toNat - s.rcv_nxt.toNat) ≤ q - (D + n) ∧
              q - (D + n) < s.rbuf.data + (seg.seq.toNat - s.rcv_nxt.toNat) + seg.len.toNat) := by omega
        simp only [this, if_false]
        exact ⟨a1, a2⟩
    have ⟨hc3, hmono⟩ := rlistRecover_rcn hB _ _ _ _ _ _ hc2 hrr
    refine ⟨rb3, nxt3, wnd3, rl, rfl, hc3, ?_⟩
    intro _
    simp only at hmono
    omega
  · -- out of order
    have hne : (seg.seq == s.rcv_nxt) = false := by simpa using heq
    simp only [hne, Bool.false_eq_true, if_false, pure, Except.pure] at h
    cases h
    have hgt : s.rcv_nxt.toNat < seg.seq.toNat := by
      have : seg.seq.toNat ≠ s.rcv_nxt.toNat := fun e => heq (UInt32.toNat_inj.mp e)
      omega
    refine ⟨rb1, s.rcv_nxt, s.rcv_wnd, rlistInsert { seq := seg.seq, len := seg.len } s.rlist, rfl, ?_,
      fun e => absurd e heq⟩
    refine ⟨⟨hf1, by rw [hsz1]; exact hc.fok.2⟩, by omega, ?_, by omega, ?_⟩
    · intro i hi
      rw [hd1] at hi
      rw [hby1 i (by omega)]
      have : ¬ (s.rbuf.data + (seg.seq.toNat - s.rcv_nxt.toNat) ≤ i ∧
            i < s.rbuf.data + (seg.seq.toNat - s.rcv_nxt.toNat) + seg.len.toNat) := by omega
      simp only [this, if_false]
      exact hc.com i hi
    · intro r hr
      rcases mem_rlistInsert _ _ _ hr with hr | hr
      · subst hr
        refine ⟨hhi, ?_⟩
        intro q q1 q2 q3
        simp only at q1 q2
        have a1 : q - (D + n) < s.rbuf.buf.size := by omega
        rw [hsz1, hby1 _ a1]
        have : (s.rbuf.data + (seg.seq.toNat - s.rcv_nxt.toNat) ≤ q - (D + n) ∧
              q - (D + n) < s.rbuf.data + (seg.seq.toNat - s.rcv_nxt.toNat) + seg.len.toNat) := by omega
        simp only [this, and_self, if_true]
        refine ⟨a1, ?_⟩
        rw [hs.bytes _ (by omega)]
        congr 1; omega
      · have hr' := hc.ooo r hr
        refine ⟨hr'.1, ?_⟩
        intro q q1 q2 q3
        have ⟨a1, a2⟩ := hr'.2 q q1 q2 q3
        rw [hsz1, hby1 _ a1]
        refine ⟨a1, ?_⟩
        split
        · rename_i hin
          rw [hs.bytes _ (by omega)]
          congr 1; omega
        · exact a2

end

end Nice.Proofs.PTcpStream
