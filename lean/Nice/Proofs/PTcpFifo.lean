/-
  Helper lemmas for the pseudo-TCP properties (C08/C09/C10), part 1: the PseudoTcpFifo operations keep the ring bounds,
  and the glue between plain statements and Std.Do Hoare triples (partial correctness: `⇓?` = "if the call does not fault").
-/
import Nice.Model.PTcp
import Std.Do
import Std.Tactic.Do
namespace Nice.Proofs.PTcp
open Nice.PTcp Nice.Gen Std.Do

set_option mvcgen.warning false
set_option maxRecDepth 16000
set_option linter.unusedSimpArgs false

/-- from a may-throw triple to a plain statement about successful runs -/
theorem of_triple {ε α} {x : Except ε α} {Q : α → Prop} (h : ⦃⌜True⌝⦄ x ⦃⇓? a => ⌜Q a⌝⦄) :
    ∀ a, x = .ok a → Q a := by
  intro a hx
  subst hx
  have h2 : ⦃⌜True⌝⦄ (pure a : Except ε α) ⦃⇓? a => ⌜Q a⌝⦄ := h
  simp only [Triple, WP.pure] at h2
  simpa using h2

/-! ### fifo -/

/-- piece 1 of the invariant (DESIGN 5a): `data_length <= buffer_length`, `read_position < buffer_length` -/
def FifoOk (b : Fifo) : Prop := b.data ≤ b.buf.size ∧ b.rpos < b.buf.size

theorem gsub_of_le {a b : Nat} (h : b ≤ a) (ha : a < 2 ^ 64) : gsub a b = a - b := by
  unfold gsub
  have hb : b % 2 ^ 64 = b := Nat.mod_eq_of_lt (by omega)
  rw [hb]
  omega

theorem blit_size (src : Array UInt8) (so : Nat) (dst : Array UInt8) (d0 n : Nat) :
    (Fifo.blit src so dst d0 n).size = dst.size := by
  induction n generalizing so dst d0 with
  | zero => rfl
  | succ n ih => simp [Fifo.blit, ih]

theorem memcpy_size {site dst d0 src s0 n r} (h : Fifo.memcpy site dst d0 src s0 n = .ok r) : r.size = dst.size := by
  unfold Fifo.memcpy at h
  simp only [fault] at h
  split at h
  · cases h; rfl
  · split at h
    · cases h; exact blit_size ..
    · cases h

theorem fifo_init_ok (n : Nat) (h : 0 < n) : FifoOk (Fifo.init n) := by
  simp [FifoOk, Fifo.init, h]

theorem consumeReadData_ok {b b' : Fifo} {n : Nat} (hb : FifoOk b) (h : b.consumeReadData n = .ok b') :
    FifoOk b' ∧ b'.buf = b.buf ∧ b'.data = b.data - n ∧ n ≤ b.data := by
  unfold Fifo.consumeReadData at h
  simp only [fault] at h
  split at h
  · cases h
  · split at h
    · cases h
    · cases h
      rename_i h1 h2
      refine ⟨⟨?_, ?_⟩, rfl, rfl, by omega⟩
      · have := hb.1; simp only; omega
      · simp only [Fifo.cap] at h2 ⊢; exact Nat.mod_lt _ (by omega)

theorem consumeWriteBuffer_ok {b b' : Fifo} {n : Nat} (hb : FifoOk b) (hc : b.buf.size < 2 ^ 64)
    (h : b.consumeWriteBuffer n = .ok b') :
    FifoOk b' ∧ b'.buf = b.buf ∧ b'.data = b.data + n := by
  unfold Fifo.consumeWriteBuffer at h
  simp only [fault] at h
  split at h
  · cases h
  · cases h
    rename_i h1
    rw [Fifo.cap, gsub_of_le hb.1 hc] at h1
    refine ⟨⟨?_, hb.2⟩, rfl, rfl⟩
    have := hb.1
    simp only; omega

theorem writeOffset_ok {b b' : Fifo} {src so n off c} (hb : FifoOk b) (h : b.writeOffset src so n off = .ok (c, b')) :
    FifoOk b' ∧ b'.buf.size = b.buf.size ∧ b'.data = b.data ∧ b'.rpos = b.rpos := by
  unfold Fifo.writeOffset at h
  simp only [fault] at h
  split at h
  · cases h
  · try simp only at h
    split at h
    · cases h; exact ⟨hb, rfl, rfl, rfl⟩
    · simp only [bind, Except.bind] at h
      split at h
      · cases h
      · rename_i buf1 h1
        split at h
        · cases h
        · rename_i buf2 h2
          cases h
          have s1 := memcpy_size h1
          have s2 := memcpy_size h2
          refine ⟨⟨?_, ?_⟩, ?_, rfl, rfl⟩
          · simp only; rw [s2, s1]; exact hb.1
          · simp only; rw [s2, s1]; exact hb.2
          · simp only; rw [s2, s1]

theorem write_ok {b b' : Fifo} {src n c} (hb : FifoOk b) (hc : b.buf.size < 2 ^ 64) (h : b.write src n = .ok (c, b')) :
    FifoOk b' ∧ b'.buf.size = b.buf.size := by
  unfold Fifo.write at h
  simp only [bind, Except.bind] at h
  split at h
  · cases h
  · rename_i v hv
    obtain ⟨c1, b1⟩ := v
    simp only [pure, Except.pure] at h
    cases h
    have ⟨ok1, sz, dt, rp⟩ := writeOffset_ok hb hv
    -- copy = min bytes available, available = cap - data
    unfold Fifo.writeOffset at hv
    simp only [fault] at hv
    split at hv
    · cases hv
    · try simp only at hv
      split at hv
      · cases hv
        refine ⟨⟨?_, hb.2⟩, rfl⟩
        simp only [Nat.add_zero]; exact hb.1
      · simp only [bind, Except.bind] at hv
        split at hv
        · cases hv
        · split at hv
          · cases hv
          · cases hv
            refine ⟨⟨?_, ?_⟩, ?_⟩
            · simp only
              rw [sz]
              have := hb.1
              rw [Fifo.cap, gsub_of_le hb.1 hc]
              simp only [gsub, Nat.zero_mod, Nat.sub_zero]
              have : (b.buf.size - b.data + 2 ^ 64) % 2 ^ 64 = b.buf.size - b.data := by omega
              rw [this]; omega
            · simp only; rw [sz]; exact hb.2
            · simp only; exact sz

theorem readOffset_size {b : Fifo} {n off cap o} (hb : FifoOk b) (hc : b.buf.size < 2 ^ 64)
    (h : b.readOffset n off cap = .ok o) :
    o.size ≤ n ∧ o.size ≤ b.data - off := by
  unfold Fifo.readOffset at h
  simp only [fault] at h
  have hd := hb.1
  by_cases h0 : b.cap = 0
  · simp [h0] at h
  · simp only [h0, if_false] at h
    by_cases h1 : off ≥ b.data
    · simp only [h1, if_true] at h; cases h; simp
    · simp only [h1, if_false] at h
      have hg : gsub b.data off = b.data - off := by
        unfold gsub
        have : off % 2 ^ 64 = off := Nat.mod_eq_of_lt (by omega)
        rw [this]; omega
      rw [hg] at h
      split at h
      · cases h
      · split at h
        · cases h
          simp only [Array.size_append, Array.size_extract]
          omega
        · cases h

theorem read_ok {b b' : Fifo} {n out} (hb : FifoOk b) (hc : b.buf.size < 2 ^ 64) (h : b.read n = .ok (out, b')) :
    FifoOk b' ∧ b'.buf = b.buf ∧ out.size ≤ n := by
  unfold Fifo.read at h
  simp only [fault] at h
  cases hro : b.readOffset n 0 n with
  | error e => simp [hro, bind, Except.bind] at h
  | ok o =>
    simp only [hro, bind, Except.bind, pure, Except.pure] at h
    cases h
    have ⟨hs1, hs2⟩ := readOffset_size hb hc hro
    have hd := hb.1
    have hr := hb.2
    refine ⟨⟨?_, ?_⟩, rfl, hs1⟩
    · simp only
      rw [gsub_of_le (by omega) (by omega)]; omega
    · simp only [Fifo.cap]
      exact Nat.mod_lt _ (by omega)

theorem setCapacity_ok {b b' : Fifo} {n r} (hb : FifoOk b) (h : b.setCapacity n = .ok (r, b')) :
    FifoOk b' ∧ (b' = b ∨ (r = true ∧ b'.buf.size = n ∧ b'.data = b.data)) := by
  unfold Fifo.setCapacity at h
  simp only [fault] at h
  by_cases h1 : b.data > n
  · simp only [h1, if_true, pure, Except.pure] at h; cases h; exact ⟨hb, Or.inl rfl⟩
  · simp only [h1, if_false] at h
    by_cases h2 : (n != b.data) = true
    · simp only [h2, if_true] at h
      have hne : n ≠ b.data := by simpa using h2
      simp only [bind, Except.bind] at h
      split at h
      · cases h
      · rename_i b1 hb1
        split at h
        · cases h
        · rename_i b2 hb2
          simp only [pure, Except.pure] at h
          cases h
          have s1 := memcpy_size hb1
          have s2 := memcpy_size hb2
          refine ⟨⟨?_, ?_⟩, Or.inr ⟨rfl, ?_, rfl⟩⟩
          · simp only; rw [s2, s1]; simp; omega
          · simp only; rw [s2, s1]; simp; omega
          · simp only; rw [s2, s1]; simp
    · simp only [h2, pure, Except.pure] at h
      cases h; exact ⟨hb, Or.inl rfl⟩


/-- to a may-throw triple from a plain statement about successful runs -/
theorem to_triple {α : Type} {x : R α} {P : Prop} {Q : α → Prop} (h : P → ∀ a, x = .ok a → Q a) :
    ⦃⌜P⌝⦄ x ⦃⇓? a => ⌜Q a⌝⦄ := by
  cases x with
  | error e =>
    have : (Except.error e : R α) = MonadExceptOf.throw e := rfl
    rw [this]
    simp [Triple, WP.throw_Except, PostCond.mayThrow]
  | ok a =>
    have : (Except.ok a : R α) = pure a := rfl
    rw [this]
    simp only [Triple, WP.pure]
    simpa using fun hp => h hp a rfl

/-- spec of the model's fault value: any may-throw postcondition holds -/
@[spec]
theorem fault_spec {α : Type} (f : Fault) (Q : PostCond α (.except Fault .pure)) :
    Triple (m := Except Fault) (ps := .except Fault .pure) (fault f : Except Fault α) (spred(Q.2.1 f)) Q := by
  have : (fault f : Except Fault α) = MonadExceptOf.throw f := rfl
  rw [this]
  simp [Triple.iff]

/-- fifo bounds + representable size -/
def FOk (b : Fifo) : Prop := FifoOk b ∧ b.buf.size < 2 ^ 64

theorem setCapacity_spec (b : Fifo) (n : Nat) :
    ⦃⌜FOk b ∧ n < 2 ^ 64⌝⦄ b.setCapacity n ⦃⇓? r => ⌜FOk r.2⌝⦄ :=
  to_triple fun ⟨hb, hn⟩ r h => by
    obtain ⟨r1, b'⟩ := r
    have ⟨h1, h2⟩ := setCapacity_ok hb.1 h
    refine ⟨h1, ?_⟩
    rcases h2 with h2 | ⟨_, h2, _⟩
    · rw [h2]; exact hb.2
    · simp only; omega

theorem write_spec (b : Fifo) (src : Array UInt8) (n : Nat) :
    ⦃⌜FOk b⌝⦄ b.write src n ⦃⇓? r => ⌜FOk r.2⌝⦄ :=
  to_triple fun hb r h => by
    obtain ⟨c, b'⟩ := r
    have ⟨h1, h2⟩ := write_ok hb.1 hb.2 h
    exact ⟨h1, by simp only; rw [h2]; exact hb.2⟩

theorem read_spec (b : Fifo) (n : Nat) :
    ⦃⌜FOk b⌝⦄ b.read n ⦃⇓? r => ⌜FOk r.2⌝⦄ :=
  to_triple fun hb r h => by
    obtain ⟨c, b'⟩ := r
    have ⟨h1, h2, _⟩ := read_ok hb.1 hb.2 h
    exact ⟨h1, by simp only; rw [h2]; exact hb.2⟩

theorem writeOffset_spec (b : Fifo) (src : Array UInt8) (so n off : Nat) :
    ⦃⌜FOk b⌝⦄ b.writeOffset src so n off ⦃⇓? r => ⌜FOk r.2⌝⦄ :=
  to_triple fun hb r h => by
    obtain ⟨c, b'⟩ := r
    have ⟨h1, h2, _, _⟩ := writeOffset_ok hb.1 h
    exact ⟨h1, by simp only; rw [h2]; exact hb.2⟩

theorem consumeWriteBuffer_spec (b : Fifo) (n : Nat) :
    ⦃⌜FOk b⌝⦄ b.consumeWriteBuffer n ⦃⇓? r => ⌜FOk r⌝⦄ :=
  to_triple fun hb r h => by
    have ⟨h1, h2, _⟩ := consumeWriteBuffer_ok hb.1 hb.2 h
    exact ⟨h1, by rw [h2]; exact hb.2⟩

theorem consumeReadData_spec (b : Fifo) (n : Nat) :
    ⦃⌜FOk b⌝⦄ b.consumeReadData n ⦃⇓? r => ⌜FOk r⌝⦄ :=
  to_triple fun hb r h => by
    have ⟨h1, h2, _, _⟩ := consumeReadData_ok hb.1 h
    exact ⟨h1, by rw [h2]; exact hb.2⟩

theorem readOffset_spec (b : Fifo) (n off cap : Nat) :
    ⦃⌜True⌝⦄ b.readOffset n off cap ⦃⇓? _ => ⌜True⌝⦄ :=
  to_triple fun _ _ _ => trivial


end Nice.Proofs.PTcp
