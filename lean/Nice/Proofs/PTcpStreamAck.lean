/-
  C08 end-to-end (receive side), part 7: ACK processing, `process`, `parse`, `notify_packet` keep the receive-side stream
  invariant for every `SegOk` segment.
-/
import Nice.Proofs.PTcpStreamFin
namespace Nice.Proofs.PTcpStream
open Nice.PTcp Nice.Gen Nice.Proofs.PTcp Std.Do

set_option mvcgen.warning false
set_option maxRecDepth 16000
set_option linter.unusedSimpArgs false

/-- `rinv` for goals / hypotheses stated with `RInv` -/
macro "rinv'" : tactic => `(tactic| (unfold RInv at *; rinv))

section
variable (W : List UInt8) (D n : Nat)

theorem transmit_rinv (s : Sock) (idx : Nat) (now : UInt32) :
    ⦃⌜RInv W D n s⌝⦄ transmit s idx now ⦃⇓? r => ⌜RInv W D n r.2⌝⦄ :=
  to_triple fun hi r h => (of_triple_pre (transmit_rspec W D n s.state s idx now) hi.toS r h).toInv

theorem closedown_rinv (s : Sock) (e : Err) (src : ClosedownSource) (clk : UInt32) :
    ⦃⌜RInv W D n s⌝⦄ closedown s e src clk ⦃⇓? s' => ⌜RInv W D n s'⌝⦄ :=
  to_triple fun hi r h => (of_triple_pre (closedown_rspec W D n s.state s e src clk) hi.toS r h).toInv

theorem attemptSend_rinv (s : Sock) (sf : SendFlags) (clk : UInt32) :
    ⦃⌜RInv W D n s⌝⦄ attemptSend s sf clk ⦃⇓? s' => ⌜RInv W D n s'⌝⦄ :=
  to_triple fun hi r h => (of_triple_pre (attemptSend_rspec W D n s.state s sf clk) hi.toS r h).toInv

theorem packet_rinv (s : Sock) (seq : UInt32) (fl : UInt8) (off len now : UInt32) :
    ⦃⌜RInv W D n s⌝⦄ packet s seq fl off len now ⦃⇓? r => ⌜RInv W D n r.2⌝⦄ :=
  to_triple fun hi r h => (of_triple_pre (packet_rspec W D n s.state s seq fl off len now) hi.toS r h).toInv

theorem queueFinMessage_rinv (s : Sock) :
    ⦃⌜RInv W D n s⌝⦄ queueFinMessage s ⦃⇓? s' => ⌜RInv W D n s'⌝⦄ :=
  to_triple fun hi r h => (of_triple_pre (queueFinMessage_rspec W D n s.state s) hi.toS r h).toInv

theorem queue_rinv (s : Sock) (d : Array UInt8) (len : UInt32) (fl : UInt8) :
    ⦃⌜RInv W D n s⌝⦄ queue s d len fl ⦃⇓? r => ⌜RInv W D n r.2⌝⦄ :=
  to_triple fun hi r h => (of_triple_pre (queue_rspec W D n s.state s d len fl) hi.toS r h).toInv

theorem adjustMTU_rinv (s : Sock) : ⦃⌜RInv W D n s⌝⦄ adjustMTU s ⦃⇓? s' => ⌜RInv W D n s'⌝⦄ :=
  to_triple fun hi r h => (of_triple_pre (adjustMTU_rspec W D n s.state s) hi.toS r h).toInv

theorem updateRtt_rinv (s : Sock) (rtt : Int) (h : RInv W D n s) : RInv W D n (updateRtt s rtt) := by
  unfold updateRtt
  split <;> rinv'

theorem rttSample_rinv (s : Sock) (ts : UInt32) (rtt : Int) :
    ⦃⌜RInv W D n s⌝⦄ rttSample s ts rtt ⦃⇓? s' => ⌜RInv W D n s'⌝⦄ := by
  mvcgen [rttSample]
  rename_i h
  split
  · have := updateRtt_rinv W D n s rtt h
    rinv'
  · exact h

theorem consumeReadData_tspec (b : Fifo) (k : Nat) : ⦃⌜True⌝⦄ b.consumeReadData k ⦃⇓? _ => ⌜True⌝⦄ := triv_spec _

theorem processAck_rinv (hB : D + W.length + 2 < 2 ^ 31) (seg : Segment) (p : Array UInt8) (hseg : SegOk W D seg p)
    (s : Sock) (bc : Bool) (now clk : UInt32) :
    ⦃⌜RInv W D n s⌝⦄ processAck s seg p bc now clk ⦃⇓? r => ⌜RInv W D n r.2⌝⦄ := by
  have h_pf : ∀ (s : Sock) (bc fa : Bool),
      ⦃⌜RInv W D n s⌝⦄ processFin s seg p bc fa clk ⦃⇓? r => ⌜RInv W D n r.2⌝⦄ :=
    fun s bc fa => to_triple fun hi r h => processFin_rinv hB s seg p bc fa clk r hi hseg h
  have h_tr := transmit_rinv W D n
  have h_cd := closedown_rinv W D n
  have h_rtt := rttSample_rinv W D n
  mvcgen [processAck, h_rtt, shiftWnd_spec, consumeReadData_tspec, ackLoop_spec, h_tr, h_cd, h_pf] <;> rinv'

/-- `processBody` for a socket that has left LISTEN / SYN-SENT (the option negotiation and the handshake transitions
    are dead code then) -/
def processBodyPost (s : Sock) (seg : Segment) (p : Array UInt8) (clk : UInt32) : R (Bool × Sock) := do
  let now := getCurrentTime s clk
  let s := { s with last_traffic := now, lastrecv := now, bOutgoing := false }
  if s.state = .closed || (hasReceivedFinAck s.state && seg.len > 0) then
    if (seg.flags &&& cFLAG_RST) == 0 then do
      let s ← closedown s .none .loc clk
      pure (false, s)
    else pure (false, s)
  else if (seg.flags &&& cFLAG_RST) != 0 then do
    let s ← closedown s .ECONNRESET .remote clk
    pure (false, s)
  else if (seg.flags &&& cFLAG_CTL) != 0 then
    if seg.len == 0 then pure (false, s)
    else do
      let c ← rd p seg.dataOff
      if c.toNat = CTL_CONNECT then do
        let s ← (pure s : R Sock)
        let s ← (pure s : R Sock)
        processAck s seg p true now clk
      else pure (false, s)
  else processAck s seg p false now clk

theorem processBody_post (s : Sock) (seg : Segment) (p : Array UInt8) (clk : UInt32)
    (h1 : s.state ≠ .listen) (h2 : s.state ≠ .synSent) :
    processBody s seg p clk = processBodyPost s seg p clk := by
  have e1 : (s.state = .listen) = False := eq_false h1
  have e2 : (s.state = .synSent) = False := eq_false h2
  unfold processBody processBodyPost
  simp only [e1, e2, decide_false, Bool.or_false, Bool.false_eq_true, if_false, pure_bind]

theorem processBody_rinv (hB : D + W.length + 2 < 2 ^ 31) (seg : Segment) (p : Array UInt8) (hseg : SegOk W D seg p)
    (s : Sock) (clk : UInt32) :
    ⦃⌜RInv W D n s⌝⦄ processBody s seg p clk ⦃⇓? r => ⌜RInv W D n r.2⌝⦄ := by
  have key : ⦃⌜RInv W D n s⌝⦄ processBodyPost s seg p clk ⦃⇓? r => ⌜RInv W D n r.2⌝⦄ := by
    have h_pa := processAck_rinv W D n hB seg p hseg
    have h_cd := closedown_rinv W D n
    mvcgen [processBodyPost, h_pa, h_cd, rd_spec] <;> rinv'
  intro hi
  rw [processBody_post s seg p clk hi.toS.ph.1 hi.toS.ph.2]
  exact key hi

theorem process_rinv (hB : D + W.length + 2 < 2 ^ 31) (seg : Segment) (p : Array UInt8) (hseg : SegOk W D seg p)
    (s : Sock) (clk : UInt32) :
    ⦃⌜RInv W D n s⌝⦄ process s seg p clk ⦃⇓? r => ⌜RInv W D n r.2⌝⦄ := by
  have h_pb := processBody_rinv W D n hB seg p hseg
  mvcgen [process, h_pb] <;> rinv'

end

end Nice.Proofs.PTcpStream
