/- helper lemmas for C17: pass-through layers -/
import Nice.Proofs.C17Base
namespace Nice.Props.C17
open Nice.Sock Nice.Drv

/-- the layer is a pass-through at state `s`: one read of up to 65536 bytes handed up unchanged -/
def IsTunnel (m : Machine σ) (s : σ) : Prop :=
  (∀ b : Base, b.freed = false →
    m.recv s b = (let r := b.read 65536
                  (if r.1.1 ≤ 0 then { ret := r.1.1 } else { ret := r.1.1, up := [{ data := r.1.2 }] }, s, r.2))) ∧
  m.stop = (fun (r : Int) => decide (r < 0)) ∧ m.wake s = false

theorem tunnel_pump (m : Machine σ) (s : σ) (ht : IsTunnel m s) :
    ∀ (fuel : Nat) (b : Base) (o : Obs), Base.Healthy b → b.pend.length < fuel →
      let r := pump m fuel s b o
      r.1 = s ∧ r.2.1 = { b with pend := [] } ∧ r.2.2.stream = o.stream ++ b.pend ∧ r.2.2.down = o.down := by
  intro fuel
  induction fuel with
  | zero => intro b o _ h; omega
  | succ fuel ih =>
    intro b o hb hlen
    obtain ⟨hrecv, hstop, hwake⟩ := ht
    have hfr := hb.2.2
    simp only [pump, hrecv b hfr, hstop]
    by_cases hp : b.pend = []
    · rw [read_healthy_nil b hb hp]
      simp [hp, Obs.add, Obs.stream, hwake]
      cases b; simp_all
    · have hl : 0 < b.pend.length := List.length_pos_iff.mpr hp
      rw [read_healthy_cons b hb hp 65536 (by decide)]
      simp only [show ¬ ((1 : Int) ≤ 0) by decide, ↓reduceIte, show ¬ ((1 : Int) < 0) by decide, decide_false,
        Bool.not_false, Bool.true_and, hwake, Bool.or_false]
      by_cases hd : (b.pend.drop (min 65536 b.pend.length)) = []
      · simp only [hd, List.isEmpty_nil, Bool.not_true, Bool.false_eq_true, ↓reduceIte]
        have htake : b.pend.take (min 65536 b.pend.length) = b.pend := by
          have := List.take_append_drop (min 65536 b.pend.length) b.pend
          rw [hd, List.append_nil] at this; exact this
        simp [Obs.add, Obs.stream, htake]
      · have hne : (b.pend.drop (min 65536 b.pend.length)).isEmpty = false := by
          cases hpp : (b.pend.drop (min 65536 b.pend.length)) with
          | nil => exact absurd hpp hd
          | cons a t => rfl
        simp only [hne, Bool.not_false, ↓reduceIte]
        have hb' : Base.Healthy { b with pend := b.pend.drop (min 65536 b.pend.length) } := hb
        have hlen' : ({ b with pend := b.pend.drop (min 65536 b.pend.length) } : Base).pend.length < fuel := by
          simp only [List.length_drop]; omega
        have := ih _ (o.add { ret := 1, up := [{ data := b.pend.take (min 65536 b.pend.length) }] }) hb' hlen'
        simp only at this
        obtain ⟨h1, h2, h3, h4⟩ := this
        refine ⟨h1, h2, ?_, ?_⟩
        · rw [h3]; simp [Obs.add, Obs.stream, List.append_assoc]
        · rw [h4]; simp [Obs.add]

theorem tunnel_feedAll_aux (m : Machine σ) (buffered : σ → Nat) (s : σ) (ht : IsTunnel m s) (b : Base)
    (hb : Base.Healthy b) (hp : b.pend = []) (chunks : List Bytes) (o : Obs) :
    let r := chunks.foldl (feed m buffered) (s, b, o)
    r.1 = s ∧ r.2.1 = b ∧ r.2.2.stream = o.stream ++ chunks.flatten ∧ r.2.2.down = o.down := by
  induction chunks generalizing o with
  | nil => simp
  | cons c cs ih =>
    simp only [List.foldl_cons, feed]
    have hb' : Base.Healthy (b.push c) := hb
    have hlen : (b.push c).pend.length < feedFuel (b.push c) (buffered s) := by
      simp only [feedFuel]; omega
    have h := tunnel_pump m s ht (feedFuel (b.push c) (buffered s)) (b.push c) o hb' hlen
    simp only at h
    rcases hP : pump m (feedFuel (b.push c) (buffered s)) s (b.push c) o with ⟨s', b', o'⟩
    rw [hP] at h
    obtain ⟨h1, h2, h3, h4⟩ := h
    simp only at h1 h2 h3 h4
    have hb2 : ({ b.push c with pend := [] } : Base) = b := by
      cases b; simp_all [Base.push]
    rw [hb2] at h2
    subst h1 h2
    have := ih o'
    simp only at this
    obtain ⟨i1, i2, i3, i4⟩ := this
    refine ⟨i1, i2, ?_, ?_⟩
    · rw [i3, h3]; simp [Base.push, hp, List.append_assoc]
    · rw [i4, h4]

/-- generic form of "once a tunnel is up, tunnelled bytes pass unchanged": whatever the cuts, the
    bytes handed upward are the bytes that arrived, nothing is written downward, the state stays -/
theorem tunnel_feedAll (m : Machine σ) (buffered : σ → Nat) (s : σ) (ht : IsTunnel m s) (b : Base)
    (hb : Base.Healthy b) (hp : b.pend = []) (chunks : List Bytes) :
    let r := feedAll m buffered s b chunks
    r.1 = s ∧ r.2.1 = b ∧ r.2.2.stream = chunks.flatten ∧ r.2.2.down = [] := by
  have := tunnel_feedAll_aux m buffered s ht b hb hp chunks {}
  simpa [feedAll, Obs.stream] using this

theorem socks5_isTunnel (s : Nice.Socks5.St) (h : s.state = .connected) : IsTunnel socks5M s := by
  refine ⟨?_, rfl, rfl⟩
  intro b hf
  simp only [socks5M, Nice.Socks5.recv, h, hf, Bool.false_eq_true, ↓reduceIte]
  rcases hr : b.read 65536 with ⟨⟨ret, bytes⟩, b'⟩
  simp only
  split <;> rfl

theorem pssl_isTunnel (s : Nice.PseudoSsl.St) (h : s.handshaken = true) : IsTunnel psslM s := by
  refine ⟨?_, rfl, rfl⟩
  intro b hf
  simp only [psslM, Nice.PseudoSsl.recv, h, hf, Bool.false_eq_true, ↓reduceIte, Bool.not_false]
  rcases hr : b.read 65536 with ⟨⟨ret, bytes⟩, b'⟩
  simp only
  split <;> rfl

theorem http_isTunnel (s : Nice.Http.St) (h : s.state = .connected) : IsTunnel httpM s := by
  refine ⟨?_, rfl, rfl⟩
  intro b hf
  simp only [httpM, httpM', Nice.Http.recv, h, hf, Bool.false_eq_true, ↓reduceIte, beq_self_eq_true]
  rcases hr : b.read 65536 with ⟨⟨ret, bytes⟩, b'⟩
  simp only
  split <;> rfl


end Nice.Props.C17
