/-
  C08 end-to-end (receive side), part 6: the FIN state machine of `process` (`processFin`) keeps the receive-side stream
  invariant: a FIN-received state is entered only by the segment that completes the stream.
-/
import Nice.Proofs.PTcpStreamProc
namespace Nice.Proofs.PTcpStream
open Nice.PTcp Nice.Gen Nice.Proofs.PTcp Std.Do

set_option maxRecDepth 16000

/-- the `received_fin` test of `processFin` -/
def recvFin (s : Sock) (seg : Segment) : Bool :=
  s.rcv_nxt != 0 && seg.seq == s.rcv_nxt && s.rcv_nxt + seg.len == s.rcv_fin &&
    decide (seg.len.toNat ≤ s.rbuf.getWriteRemaining)

/-- the state switch of `processFin` -/
def finFsm (s : Sock) (received_fin is_fin_ack : Bool) : R Sock :=
  match s.state with
  | .established => if received_fin then setState s .closeWait else pure s
  | .closing => if is_fin_ack then setState s .timeWait else pure s
  | .lastAck => if is_fin_ack then setStateClosed s .none else pure s
  | .finWait1 =>
    if is_fin_ack && received_fin then setState s .timeWait
    else if is_fin_ack then setState s .finWait2
    else if received_fin then setState s .closing
    else pure s
  | .finWait2 => if received_fin then setState s .timeWait else pure s
  | .listen | .synSent | .synReceived | .timeWait | .closed | .closeWait => pure s

/-- `processFin` after the "a bit hacky" SYN-RECEIVED step -/
def pfMain (s : Sock) (seg : Segment) (p : Array UInt8) (is_fin_ack : Bool) (clk : UInt32) : R (Bool × Sock) :=
  if s.support_fin_ack then
    let s := { s with rcv_fin := if (seg.flags &&& cFLAG_FIN) != 0 then seg.seq else s.rcv_fin }
    if (seg.flags &&& cFLAG_FIN) != 0 && seg.len != 0 then pure (false, s)
    else do
      let s' ← finFsm s (recvFin s seg) is_fin_ack
      processData s' seg p (recvFin s seg) clk
  else processData s seg p false clk

theorem processFin_eq (s : Sock) (seg : Segment) (p : Array UInt8) (bc fa : Bool) (clk : UInt32) :
    processFin s seg p bc fa clk = (do
      let s ← (if s.state = .synReceived && !bc then setStateEstablished s else pure s : R Sock)
      pfMain s seg p fa clk) := rfl

/-- what the state switch does: only the state (and the callback log) changes; it never goes back to LISTEN / SYN-SENT,
    and without `received_fin` a FIN-received state is entered only from a FIN-received state -/
theorem finFsm_eq (s s' : Sock) (rf fa : Bool) (h : finFsm s rf fa = .ok s') :
    ∃ st o, s' = { s with state := st, out := o } ∧
      ((s.state ≠ .listen ∧ s.state ≠ .synSent) → (st ≠ .listen ∧ st ≠ .synSent)) ∧
      (rf = false → Fin4 st → Fin4 s.state) := by
  have keep : ∃ st o, s = { s with state := st, out := o } ∧
      ((s.state ≠ .listen ∧ s.state ≠ .synSent) → (st ≠ .listen ∧ st ≠ .synSent)) ∧
      (rf = false → Fin4 st → Fin4 s.state) := ⟨s.state, s.out, rfl, fun x => x, fun _ x => x⟩
  have mk : ∀ st, setState s st = .ok s' → (st ≠ .listen ∧ st ≠ .synSent) → (rf = false → Fin4 st → Fin4 s.state) →
      ∃ st o, s' = { s with state := st, out := o } ∧
      ((s.state ≠ .listen ∧ s.state ≠ .synSent) → (st ≠ .listen ∧ st ≠ .synSent)) ∧
      (rf = false → Fin4 st → Fin4 s.state) := by
    intro st h1 h2 h3
    exact ⟨st, s.out, setState_eq h1, fun _ => h2, h3⟩
  unfold finFsm at h
  cases hs : s.state <;> simp only [hs] at h <;> rw [hs] at keep mk
  case established =>
    cases rf with
    | false => cases h; exact keep
    | true => exact mk _ h ⟨by decide, by decide⟩ (fun e => by cases e)
  case closing =>
    cases fa with
    | false => cases h; exact keep
    | true => exact mk _ h ⟨by decide, by decide⟩ (fun _ _ => trivial)
  case lastAck =>
    cases fa with
    | false => cases h; exact keep
    | true =>
      obtain ⟨o, ho⟩ := setStateClosed_eq h
      exact ⟨.closed, o, ho, fun _ => ⟨by decide, by decide⟩, fun _ hF => absurd hF (by unfold Fin4; simp)⟩
  case finWait1 =>
    cases fa <;> cases rf <;> simp only [Bool.and_true, Bool.and_false, Bool.false_eq_true, if_true, if_false] at h
    · cases h; exact keep
    · exact mk _ h ⟨by decide, by decide⟩ (fun e => by cases e)
    · exact mk _ h ⟨by decide, by decide⟩ (fun _ hF => absurd hF (by unfold Fin4; simp))
    · exact mk _ h ⟨by decide, by decide⟩ (fun e => by cases e)
  case finWait2 =>
    cases rf with
    | false => cases h; exact keep
    | true => exact mk _ h ⟨by decide, by decide⟩ (fun e => by cases e)
  all_goals (cases h; exact keep)

theorem recvFin_unpack (s : Sock) (seg : Segment) (h : recvFin s seg = true) :
    seg.seq = s.rcv_nxt ∧ s.rcv_nxt + seg.len = s.rcv_fin ∧ seg.len.toNat ≤ s.rbuf.getWriteRemaining ∧
      s.rcv_nxt ≠ 0 := by
  unfold recvFin at h
  simp only [Bool.and_eq_true, beq_iff_eq, decide_eq_true_eq, bne_iff_ne, ne_eq] at h
  exact ⟨h.1.1.2, h.1.2, h.2, h.1.1.1⟩

section
variable {W : List UInt8} {D n : Nat}

theorem setStateEstablished_rinv (s s' : Sock) (hc : RCore W D n s) (h : setStateEstablished s = .ok s') :
    RInv W D n s' := by
  unfold setStateEstablished at h
  obtain ⟨s1, h1, h⟩ := bind_ok h
  obtain ⟨s2, h2, h⟩ := bind_ok h
  simp only [pure, Except.pure] at h
  cases h
  rw [setState_eq h1] at h2
  have k1 : RInvS W D n .established { s with state := .established } :=
    ⟨⟨hc.fok, hc.pre, hc.com, hc.sync, hc.finp⟩, ⟨by decide, by decide⟩,
      fun hF => absurd hF (by unfold Fin4; simp), Or.inl rfl⟩
  have k2 := of_triple_pre (adjustMTU_rspec W D n .established _) k1 s2 h2
  have k3 : RInvS W D n .established (emit s2 .opened) :=
    ⟨⟨k2.core.fok, k2.core.pre, k2.core.com, k2.core.sync, k2.core.finp⟩, k2.ph, k2.fin4, k2.stk⟩
  exact k3.toInv

theorem pfMain_rinv (hB : D + W.length + 2 < 2 ^ 31) (s : Sock) (seg : Segment) (p : Array UInt8) (fa : Bool)
    (clk : UInt32) (r : Bool × Sock) (hi : RInv W D n s) (hseg : SegOk W D seg p)
    (h : pfMain s seg p fa clk = .ok r) : RInv W D n r.2 := by
  have hiS := hi.toS
  unfold pfMain at h
  cases hfa : s.support_fin_ack with
  | false =>
    rw [if_neg (by rw [hfa]; decide)] at h
    exact (processData_rinv hB s seg p false clk s.state r hiS.core hiS.ph (Or.inl rfl) hseg
      (fun _ hF => hiS.fin4 hF) (fun e => by cases e) h).toInv
  | true =>
    rw [if_pos hfa] at h
    simp only at h
    -- the socket with the FIN position recorded
    have hcb : RCore W D n { s with rcv_fin := if (seg.flags &&& cFLAG_FIN) != 0 then seg.seq else s.rcv_fin } := by
      refine ⟨hiS.core.fok, hiS.core.pre, hiS.core.com, hiS.core.sync, ?_⟩
      show (if (seg.flags &&& cFLAG_FIN) != 0 then seg.seq else s.rcv_fin) = 0 ∨ _
      split
      · rename_i hf
        exact Or.inr (hseg.fin (by simpa using hf))
      · exact hiS.core.finp
    generalize hsb : ({ s with rcv_fin := if (seg.flags &&& cFLAG_FIN) != 0 then seg.seq else s.rcv_fin } : Sock) = sb
      at h hcb
    have e_st : sb.state = s.state := by rw [← hsb]
    have e_fa : sb.support_fin_ack = true := by rw [← hsb]; exact hfa
    have e_nx : sb.rcv_nxt = s.rcv_nxt := by rw [← hsb]
    split at h
    · simp only [pure, Except.pure] at h
      cases h
      exact ⟨hcb, by rw [e_st]; exact hiS.ph, by rw [e_st, e_fa, e_nx]; exact fun hF => ⟨rfl, (hiS.fin4 hF).2⟩, Or.inl rfl⟩
    · obtain ⟨sc, hfsm, h⟩ := bind_ok h
      obtain ⟨st, o, hsc, hph, hF4⟩ := finFsm_eq _ _ _ _ hfsm
      have hcc : RCore W D n sc := by
        rw [hsc]; exact ⟨hcb.fok, hcb.pre, hcb.com, hcb.sync, hcb.finp⟩
      have hstc : sc.state = st := by rw [hsc]
      have e_fa' : sc.support_fin_ack = true := by rw [hsc]; exact e_fa
      refine (processData_rinv hB sc seg p (recvFin sb seg) clk st r hcc (hph (by rw [e_st]; exact hiS.ph))
        (Or.inl hstc) hseg ?_ ?_ h).toInv
      · intro e hF
        have := hiS.fin4 (by rw [← e_st]; exact hF4 e hF)
        rw [hsc]; show sb.support_fin_ack = true ∧ sb.rcv_nxt.toNat = _
        rw [e_fa, e_nx]; exact ⟨rfl, this.2⟩
      · intro e
        have ⟨a, b, c, d⟩ := recvFin_unpack _ _ e
        rw [hsc]
        exact ⟨a, b, c, d, e_fa⟩

theorem processFin_rinv (hB : D + W.length + 2 < 2 ^ 31) (s : Sock) (seg : Segment) (p : Array UInt8) (bc fa : Bool)
    (clk : UInt32) (r : Bool × Sock) (hi : RInv W D n s) (hseg : SegOk W D seg p)
    (h : processFin s seg p bc fa clk = .ok r) : RInv W D n r.2 := by
  rw [processFin_eq] at h
  obtain ⟨s1, h1, h⟩ := bind_ok h
  have hi1 : RInv W D n s1 := by
    split at h1
    · exact setStateEstablished_rinv s s1 hi.toS.core h1
    · cases h1; exact hi
  exact pfMain_rinv hB s1 seg p fa clk r hi1 hseg h

end

end Nice.Proofs.PTcpStream
