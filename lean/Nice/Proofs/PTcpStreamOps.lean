/-
  C08 end-to-end (receive side), part 8: every public operation keeps the receive-side stream invariant; `recv` returns
  the next bytes of the ghost stream.
-/
import Nice.Proofs.PTcpStreamAck
namespace Nice.Proofs.PTcpStream
open Nice.PTcp Nice.Gen Nice.Proofs.PTcp Std.Do

set_option mvcgen.warning false
set_option maxRecDepth 16000
set_option linter.unusedSimpArgs false

/-- the header fields `parse` reads from a packet -/
def hdrOf (p : Array UInt8) : R Segment := do
  let conv ← rd32 p 0
  let seq ← rd32 p 4
  let ack ← rd32 p 8
  let flags ← rd p 13
  let wnd ← rd16 p 14
  let tsval ← rd32 p 16
  let tsecr ← rd32 p 20
  pure { conv := conv, seq := seq, ack := ack, flags := flags, wnd := wnd,
         dataOff := HEADER_SIZE, len := UInt32.ofNat (p.size - HEADER_SIZE),
         tsval := tsval, tsecr := tsecr }

theorem parse_eq (s : Sock) (p : Array UInt8) (clk : UInt32) :
    parse s p clk = (do let seg ← hdrOf p; process s seg p clk) := by
  unfold parse hdrOf
  simp only [bind_assoc, pure_bind]

/-- **`PktOk W D p`**: the packet `p`, as `parse` decodes it, is a segment the honest peer can emit (`SegOk`) -/
def PktOk (W : List UInt8) (D : Nat) (p : Array UInt8) : Prop := ∀ seg, hdrOf p = .ok seg → SegOk W D seg p

section
variable (W : List UInt8) (D n : Nat)

theorem notifyPacket_rinv (hB : D + W.length + 2 < 2 ^ 31) (p : Array UInt8) (hp : PktOk W D p) (s : Sock)
    (clk : UInt32) (r : Bool × Sock) (hi : RInv W D n s) (h : notifyPacket s p clk = .ok r) : RInv W D n r.2 := by
  unfold notifyPacket at h
  split at h
  · cases h; rinv'
  · split at h
    · cases h; rinv'
    · rw [parse_eq] at h
      obtain ⟨seg, hs, h⟩ := bind_ok h
      exact of_triple_pre (process_rinv W D n hB seg p (hp seg hs) s clk) hi r h

theorem sync_graceful {fa : Bool} {sd : Shutdown} {P : Prop} (h : (fa = false ∧ sd ≠ .none) ∨ P) :
    (fa = false ∧ (if sd = .none then Shutdown.graceful else sd) ≠ .none) ∨ P := by
  rcases h with h | h
  · refine Or.inl ⟨h.1, ?_⟩
    split
    · decide
    · exact h.2
  · exact Or.inr h

theorem setState_rinvS {st0 t : TcpState} (s s' : Sock) (hi : RInvS W D n st0 s)
    (ht : t ≠ .listen ∧ t ≠ .synSent) (hF : Fin4 t → Fin4 st0) (h : setState s t = .ok s') : RInvS W D n t s' := by
  rw [setState_eq h]
  exact ⟨⟨hi.core.fok, hi.core.pre, hi.core.com, hi.core.sync, hi.core.finp⟩, ht, fun x => hi.fin4 (hF x), Or.inl rfl⟩

theorem setStateClosed_rinv (s : Sock) (e : Err) :
    ⦃⌜RInv W D n s⌝⦄ setStateClosed s e ⦃⇓? s' => ⌜RInv W D n s'⌝⦄ :=
  to_triple fun hi s' h => by
    obtain ⟨o, rfl⟩ := setStateClosed_eq h
    have hi := hi.toS
    show RInvS W D n .closed _
    exact ⟨⟨hi.core.fok, hi.core.pre, hi.core.com, hi.core.sync, hi.core.finp⟩, ⟨by decide, by decide⟩,
      fun hF => absurd hF (by unfold Fin4; simp), Or.inl rfl⟩

theorem connect_rinv (s : Sock) (clk : UInt32) (r : Bool × Sock) (hi : RInv W D n s) (h : connect s clk = .ok r) :
    RInv W D n r.2 := by
  unfold connect at h
  rw [if_pos hi.toS.ph.1] at h
  cases h; rinv'

theorem setRcvBuf_rinv (s : Sock) (v : UInt32) (r : Sock) (hi : RInv W D n s) (h : setRcvBuf s v = .ok r) :
    RInv W D n r := by
  unfold setRcvBuf at h
  rw [if_pos hi.toS.ph.1] at h
  cases h; exact hi

theorem setSndBuf_rinv (s : Sock) (v : UInt32) (r : Sock) (hi : RInv W D n s) (h : setSndBuf s v = .ok r) :
    RInv W D n r := by
  unfold setSndBuf at h
  rw [if_pos hi.toS.ph.1] at h
  cases h; exact hi

theorem notifyMtu_rinv (s : Sock) (m : UInt16) : ⦃⌜RInv W D n s⌝⦄ notifyMtu s m ⦃⇓? r => ⌜RInv W D n r⌝⦄ := by
  have h1 := adjustMTU_rinv W D n
  mvcgen [notifyMtu, h1] <;> rinv'

theorem send_rinv (s : Sock) (d : Array UInt8) (clk : UInt32) :
    ⦃⌜RInv W D n s⌝⦄ send s d clk ⦃⇓? r => ⌜RInv W D n r.2⌝⦄ := by
  have h1 := queue_rinv W D n
  have h2 := attemptSend_rinv W D n
  mvcgen [send, h1, h2] <;> rinv'

theorem clockRetransmit_rinv (s : Sock) (now clk : UInt32) :
    ⦃⌜RInv W D n s⌝⦄ clockRetransmit s now clk ⦃⇓? r => ⌜RInv W D n r.2⌝⦄ := by
  have h1 := transmit_rinv W D n
  have h2 := closedown_rinv W D n
  mvcgen [clockRetransmit, h1, h2] <;> rinv'

theorem clockProbe_rinv (s : Sock) (now clk : UInt32) :
    ⦃⌜RInv W D n s⌝⦄ clockProbe s now clk ⦃⇓? r => ⌜RInv W D n r.2⌝⦄ := by
  have h1 := packet_rinv W D n
  have h2 := closedown_rinv W D n
  mvcgen [clockProbe, h1, h2] <;> rinv'

theorem clockDelayedAck_rinv (s : Sock) (now : UInt32) :
    ⦃⌜RInv W D n s⌝⦄ clockDelayedAck s now ⦃⇓? r => ⌜RInv W D n r⌝⦄ := by
  have h1 := packet_rinv W D n
  mvcgen [clockDelayedAck, h1] <;> rinv'

theorem clockFinStates_rinv (s : Sock) (clk : UInt32) :
    ⦃⌜RInv W D n s⌝⦄ clockFinStates s clk ⦃⇓? r => ⌜RInv W D n r⌝⦄ := by
  have h1 := setStateClosed_rinv W D n
  have h2 := queueFinMessage_rinv W D n
  have h3 := attemptSend_rinv W D n
  mvcgen [clockFinStates, h1, h2, h3] <;> rinv'

theorem notifyClock_rinv (s : Sock) (clk : UInt32) :
    ⦃⌜RInv W D n s⌝⦄ notifyClock s clk ⦃⇓? r => ⌜RInv W D n r⌝⦄ := by
  have h1 := clockFinStates_rinv W D n
  have h2 := clockRetransmit_rinv W D n
  have h3 := clockProbe_rinv W D n
  have h4 := clockDelayedAck_rinv W D n
  mvcgen [notifyClock, h1, h2, h3, h4] <;> rinv'

theorem getNextClock_rinv (s : Sock) (t : UInt64) (clk : UInt32) :
    ⦃⌜RInv W D n s⌝⦄ getNextClock s t clk ⦃⇓? r => ⌜RInv W D n r.2.2⌝⦄ := by
  have h1 := closedown_rinv W D n
  mvcgen [getNextClock, h1] <;> rinv'

/-- the "queue a FIN, send it, move on" tail of `shutdown` -/
theorem shutdown_tail_rinv (s : Sock) (t : TcpState) (clk : UInt32) (r : Sock) (hi : RInv W D n s)
    (ht : t ≠ .listen ∧ t ≠ .synSent) (hF : Fin4 t → Fin4 s.state)
    (h : (do
      let s ← queueFinMessage s
      let s ← attemptSend s .sfFin clk
      if s.state ≠ .closed then setState s t else pure s : R Sock) = .ok r) : RInv W D n r := by
  obtain ⟨s1, h1, h⟩ := bind_ok h
  obtain ⟨s2, h2, h⟩ := bind_ok h
  have k1 := of_triple_pre (queueFinMessage_rspec W D n s.state s) hi.toS s1 h1
  have k2 := of_triple_pre (attemptSend_rspec W D n s.state s1 .sfFin clk) k1 s2 h2
  split at h
  · exact (setState_rinvS W D n s2 r k2 ht hF h).toInv
  · cases h; exact k2.toInv

theorem shutdown_rinv (s : Sock) (how : ShutdownHow) (clk : UInt32) (r : Sock) (hi : RInv W D n s)
    (h : shutdown s how clk = .ok r) : RInv W D n r := by
  have hiS := hi.toS
  unfold shutdown at h
  split at h
  · cases h
    exact ⟨⟨hiS.core.fok, hiS.core.pre, hiS.core.com, sync_graceful hiS.core.sync, hiS.core.finp⟩, hiS.ph, hiS.fin4,
      Or.inl rfl⟩
  · simp only at h
    have hi' : RInv W D n
        { s with shutdown_reads := if how = .rd || how = .rdwr then true else s.shutdown_reads } := by rinv'
    generalize hs' : ({ s with shutdown_reads := if how = .rd || how = .rdwr then true else s.shutdown_reads } : Sock)
      = s' at h hi'
    have est : s'.state = s.state := by rw [← hs']
    have eav : getAvailableBytes s' = getAvailableBytes s := by rw [← hs']; rfl
    split at h
    · cases h; exact hi'
    · split at h
      · exact of_triple_pre (setStateClosed_rinv W D n s' .none) hi' r h
      · exact of_triple_pre (setStateClosed_rinv W D n s' .none) hi' r h
      · split at h
        · exact of_triple_pre (closedown_rinv W D n s' _ _ clk) hi' r h
        · exact shutdown_tail_rinv W D n s' .finWait1 clk r hi' ⟨by decide, by decide⟩
            (fun hF => absurd hF (by unfold Fin4; simp)) h
      · split at h
        · exact of_triple_pre (closedown_rinv W D n s' _ _ clk) hi' r h
        · exact shutdown_tail_rinv W D n s' .finWait1 clk r hi' ⟨by decide, by decide⟩
            (fun hF => absurd hF (by unfold Fin4; simp)) h
      · rename_i hst
        exact shutdown_tail_rinv W D n s' .lastAck clk r hi' ⟨by decide, by decide⟩
          (fun _ => by rw [est, hst]; trivial) h
      all_goals (cases h; exact hi')

theorem close_rinv (s : Sock) (f : Bool) (clk : UInt32) (r : Sock) (hi : RInv W D n s)
    (h : close s f clk = .ok r) : RInv W D n r := by
  unfold close at h
  split at h
  · exact of_triple_pre (closedown_rinv W D n s _ _ clk) hi r h
  · exact shutdown_rinv W D n s .rdwr clk r hi h

end

end Nice.Proofs.PTcpStream
