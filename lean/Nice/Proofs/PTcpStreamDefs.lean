/-
  C08 end-to-end (receive side), part 1: the ghost stream, the honest-segment predicate `SegOk`, the receive-side stream
  invariant `RInvS`, and the 32-bit sequence arithmetic lemmas (modular comparison = comparison of absolute positions
  below 2^31).
-/
import Lean
import Nice.Proofs.PTcpRing
import Nice.Proofs.PTcpRun
namespace Nice.Proofs.PTcpStream
open Nice.PTcp Nice.Gen Nice.Proofs.PTcp

/-! ### sequence arithmetic -/

theorem one_toNat : (1 : UInt32).toNat = 1 := rfl
theorem zero_toNat : (0 : UInt32).toNat = 0 := rfl
theorem c31_toNat : (2147483647 : UInt32).toNat = 2147483647 := rfl

theorem smaller_iff (a b : UInt32) (ha : a.toNat < 2 ^ 31) (hb : b.toNat < 2 ^ 31) :
    lt? (ptcp_smaller a b) = decide (a.toNat < b.toNat) := by
  unfold lt? ptcp_smaller
  have e : ((b - a) - 1 : UInt32).toNat = (2 ^ 32 - 1 + (2 ^ 32 - a.toNat + b.toNat) % 2 ^ 32) % 2 ^ 32 := by
    rw [UInt32.toNat_sub, UInt32.toNat_sub, one_toNat]
  by_cases h : a.toNat < b.toNat
  · have : ((b - a) - 1 : UInt32) < 2147483647 := by
      rw [UInt32.lt_iff_toNat_lt, e, c31_toNat]; omega
    simp [this, h]
  · have : ¬ ((b - a) - 1 : UInt32) < 2147483647 := by
      rw [UInt32.lt_iff_toNat_lt, e, c31_toNat]; omega
    simp [this, h]

theorem larger_iff (a b : UInt32) (ha : a.toNat < 2 ^ 31) (hb : b.toNat < 2 ^ 31) :
    lt? (ptcp_larger a b) = decide (b.toNat < a.toNat) := by
  unfold lt? ptcp_larger
  have e : ((a - b) - 1 : UInt32).toNat = (2 ^ 32 - 1 + (2 ^ 32 - b.toNat + a.toNat) % 2 ^ 32) % 2 ^ 32 := by
    rw [UInt32.toNat_sub, UInt32.toNat_sub, one_toNat]
  by_cases h : b.toNat < a.toNat
  · have : ((a - b) - 1 : UInt32) < 2147483647 := by
      rw [UInt32.lt_iff_toNat_lt, e, c31_toNat]; omega
    simp [this, h]
  · have : ¬ ((a - b) - 1 : UInt32) < 2147483647 := by
      rw [UInt32.lt_iff_toNat_lt, e, c31_toNat]; omega
    simp [this, h]

theorem smaller_eq_iff (a b : UInt32) (ha : a.toNat < 2 ^ 31) (hb : b.toNat < 2 ^ 31 - 1) :
    lt? (ptcp_smaller_or_equal a b) = decide (a.toNat ≤ b.toNat) := by
  unfold lt? ptcp_smaller_or_equal
  have e : (b - a : UInt32).toNat = (2 ^ 32 - a.toNat + b.toNat) % 2 ^ 32 := by
    rw [UInt32.toNat_sub]
  by_cases h : a.toNat ≤ b.toNat
  · have : (b - a : UInt32) < 2147483647 := by
      rw [UInt32.lt_iff_toNat_lt, e, c31_toNat]; omega
    simp [this, h]
  · have : ¬ (b - a : UInt32) < 2147483647 := by
      rw [UInt32.lt_iff_toNat_lt, e, c31_toNat]; omega
    simp [this, h]

theorem sub_toNat_of_le (a b : UInt32) (h : b.toNat ≤ a.toNat) : (a - b).toNat = a.toNat - b.toNat := by
  have := a.toNat_lt; have := b.toNat_lt
  rw [UInt32.toNat_sub]; omega

theorem add_toNat_of_lt (a b : UInt32) (h : a.toNat + b.toNat < 2 ^ 32) : (a + b).toNat = a.toNat + b.toNat := by
  rw [UInt32.toNat_add]; omega

/-! ### the ghost stream -/

/-- the four FIN-received states other than CLOSED (CLOSED is also the result of every local / error closure) -/
def Fin4 : TcpState → Prop
  | .closing | .timeWait | .closeWait | .lastAck => True
  | _ => False

instance : DecidablePred Fin4 := fun s => by cases s <;> unfold Fin4 <;> infer_instance

/-- **`SegOk W D seg p`**: the incoming segment `seg` (header fields, payload `p[dataOff .. dataOff+len)`) is one the
    honest peer can emit when the peer's connect message occupies sequence numbers `[0, D)` and its application wrote
    the bytes `W` (sequence numbers `[D, D + |W|)`) before closing:
    * a control segment is the whole connect message (`seq = 0`, `len = D`) or empty;
    * a data segment carries `W[seq - D .. seq - D + len)`;
    * a FIN segment sits exactly at the end of the stream. -/
structure SegOk (W : List UInt8) (D : Nat) (seg : Segment) (p : Array UInt8) : Prop where
  ctl : (seg.flags &&& cFLAG_CTL) ≠ 0 → seg.len = 0 ∨ (seg.seq = 0 ∧ seg.len.toNat = D)
  data : (seg.flags &&& cFLAG_CTL) = 0 → seg.len ≠ 0 →
    D ≤ seg.seq.toNat ∧ seg.seq.toNat + seg.len.toNat ≤ D + W.length ∧
    ∀ j, j < seg.len.toNat → p.getD (seg.dataOff + j) 0 = W.getD (seg.seq.toNat - D + j) 0
  fin : (seg.flags &&& cFLAG_FIN) ≠ 0 → seg.seq.toNat = D + W.length

/-- receive ring / `rcv_nxt` / `rlist` agree with the ghost stream.  `n` = number of bytes `recv` has returned so far;
    logical ring byte `i` is stream byte `n + i`, i.e. sequence number `D + n + i`.
    * `rcv_nxt` is the sequence number just after the committed data (plus one once the FIN has been consumed);
    * every out-of-order range recorded in `rlist` lies inside the stream, and its part at or after `rcv_nxt` is stored in
      the ring at its own position and equals the stream there. -/
def Sync (W : List UInt8) (D n : Nat) (rb : Fifo) (nxt : UInt32) (rl : List RSeg) : Prop :=
  (nxt.toNat = D + n + rb.data ∨ (nxt.toNat = D + W.length + 1 ∧ n + rb.data = W.length)) ∧
  ∀ r, r ∈ rl → r.seq.toNat + r.len.toNat ≤ D + W.length ∧
    ∀ q, r.seq.toNat ≤ q → q < r.seq.toNat + r.len.toNat → nxt.toNat ≤ q →
      q - (D + n) < rb.buf.size ∧ byteAt rb (q - (D + n)) = W.getD (q - D) 0

/-- state-independent part of the receive-side stream invariant -/
structure RCore (W : List UInt8) (D n : Nat) (s : Sock) : Prop where
  fok : FOk s.rbuf
  pre : n + s.rbuf.data ≤ W.length
  com : ∀ i, i < s.rbuf.data → byteAt s.rbuf i = W.getD (n + i) 0
  sync : (s.support_fin_ack = false ∧ s.shutdown ≠ .none) ∨ Sync W D n s.rbuf s.rcv_nxt s.rlist
  finp : s.rcv_fin = 0 ∨ s.rcv_fin.toNat = D + W.length

/-- the receive-side stream invariant, relative to a reference state `st0` (the socket's state is `st0` or CLOSED; the
    send-side functions only ever move it to CLOSED). -/
structure RInvS (W : List UInt8) (D n : Nat) (st0 : TcpState) (s : Sock) : Prop where
  core : RCore W D n s
  ph : st0 ≠ .listen ∧ st0 ≠ .synSent
  fin4 : Fin4 st0 → s.support_fin_ack = true ∧ s.rcv_nxt.toNat = D + W.length + 1
  stk : s.state = st0 ∨ s.state = .closed

/-- **the receive-side stream invariant** (after the handshake): the committed ring content is the ghost stream at
    positions `n ..`, `rcv_nxt`/`rlist` are synchronised with it (unless the socket is in the "discard input" mode of a
    shut-down socket without FIN-ACK support), and a FIN-received state means the whole stream has been committed. -/
def RInv (W : List UInt8) (D n : Nat) (s : Sock) : Prop := RInvS W D n s.state s

theorem RInv.toS {W D n s} (h : RInv W D n s) : RInvS W D n s.state s := h

theorem RInvS.toInv {W D n st0 s} (h : RInvS W D n st0 s) : RInv W D n s := by
  rcases h.stk with e | e
  · unfold RInv; rw [e]; exact h
  · refine ⟨h.core, ?_, ?_, Or.inl rfl⟩
    · rw [e]; exact ⟨by decide, by decide⟩
    · rw [e]; intro hf; exact absurd hf (by unfold Fin4; simp)

theorem sync_forceful {fa : Bool} {sd : Shutdown} {P : Prop} (h : (fa = false ∧ sd ≠ .none) ∨ P) :
    (fa = false ∧ Shutdown.forceful ≠ .none) ∨ P := by
  rcases h with h | h
  · exact Or.inl ⟨h.1, by decide⟩
  · exact Or.inr h

open Lean Elab Tactic Meta in
/-- adds the components of every hypothesis `h : RInvS ..` / `h : RCore ..` to the context -/
elab "rinv_unpack" : tactic => withMainContext do
  let lctx ← getLCtx
  let mut hs : Array Expr := #[]
  let mut cs : Array Expr := #[]
  for d in lctx do
    if d.isImplementationDetail then continue
    let ty ← instantiateMVars d.type
    if ty.isAppOfArity ``RInvS 5 then hs := hs.push d.toExpr
    if ty.isAppOfArity ``RCore 4 then cs := cs.push d.toExpr
  let add (p : Expr) : TacticM Unit := do
    let t ← inferType p
    liftMetaTactic fun g => do
      let g ← g.assert `hrinv t p
      let (_, g) ← g.intro1P
      pure [g]
  for h in hs do
    for f in [``RInvS.ph, ``RInvS.fin4, ``RInvS.stk] do
      add (← mkAppM f #[h])
    cs := cs.push (← mkAppM ``RInvS.core #[h])
  for c in cs do
    for f in [``RCore.fok, ``RCore.pre, ``RCore.com, ``RCore.sync, ``RCore.finp] do
      add (← mkAppM f #[c])

macro "rinv_atom" : tactic => `(tactic| first
  | assumption
  | exact sync_forceful ‹_›
  | exact Or.inr rfl
  | (constructor <;> first | assumption | exact sync_forceful ‹_›))

/-- closes verification conditions about sockets that differ from a socket satisfying `RInvS` / `RCore` in fields the
    invariant does not read (by definitional unfolding) -/
macro "rinv" : tactic => `(tactic| (
  first
  | assumption
  | (rinv_unpack; first
      | assumption
      | (constructor <;> rinv_atom))
  | skip))

end Nice.Proofs.PTcpStream
