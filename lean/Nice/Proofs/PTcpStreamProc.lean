/-
  C08 end-to-end (receive side), part 5: `processData` keeps the receive-side stream invariant for every `SegOk`
  segment, and consumes the FIN only when the whole stream has been committed.
-/
import Nice.Proofs.PTcpStreamTrim
namespace Nice.Proofs.PTcpStream
open Nice.PTcp Nice.Gen Nice.Proofs.PTcp Std.Do

set_option maxRecDepth 16000

/-- `processData` after the "make room in the send queue" notification -/
def pdMain (s0 : Sock) (seg : Segment) (p : Array UInt8) (rf : Bool) (clk : UInt32) : R (Bool × Sock) :=
  let seg2 := trimRight s0.rcv_nxt s0.rbuf.getWriteRemaining (trimLeft s0.rcv_nxt seg)
  do
    let (s1, sflags, bNew) ← storeStage s0 (dropPre s0 seg2) p (ignoreData s0 seg2) (pdFlags s0 seg rf)
    let s2 := { s1 with rcv_nxt := if rf then s1.rcv_nxt + 1 else s1.rcv_nxt }
    let s3 ← attemptSend s2 sflags clk
    pure (true, emitIf (bNew && s3.bReadEnable) s3 .readable)

theorem processData_eq' (s : Sock) (seg : Segment) (p : Array UInt8) (rf : Bool) (clk : UInt32) :
    processData s seg p rf clk = pdMain (pdPrep s) seg p rf clk := rfl

theorem dropPre_id (s : Sock) (seg : Segment) (h1 : s.state ≠ .listen) (h2 : s.state ≠ .synSent) :
    dropPre s seg = seg := by
  unfold dropPre
  have : (decide (s.state = .listen) || decide (s.state = .synSent)) = false := by simp [h1, h2]
  rw [this, Bool.and_false]; rfl

theorem storeStage_len0 (s : Sock) (seg : Segment) (p : Array UInt8) (b : Bool) (sf : SendFlags) (h : seg.len = 0) :
    storeStage s seg p b sf = .ok (s, sf, false) := by
  unfold storeStage
  have : ¬ seg.len > 0 := by rw [h]; exact not_lt_zero32 _
  rw [if_neg this]; rfl

theorem storeStage_ignore (s : Sock) (seg : Segment) (p : Array UInt8) (sf : SendFlags) (h : seg.len ≠ 0) :
    storeStage s seg p true sf =
      .ok ({ s with rcv_nxt := if seg.seq == s.rcv_nxt then s.rcv_nxt + seg.len else s.rcv_nxt }, sf, false) := by
  unfold storeStage
  rw [if_pos (u32_pos h)]; rfl

section
variable {W : List UInt8} {D n : Nat}

theorem mkRInvS {st0 : TcpState} (s' : Sock) (fok : FOk s'.rbuf) (pre : n + s'.rbuf.data ≤ W.length)
    (com : ∀ i, i < s'.rbuf.data → byteAt s'.rbuf i = W.getD (n + i) 0)
    (sync : (s'.support_fin_ack = false ∧ s'.shutdown ≠ .none) ∨ Sync W D n s'.rbuf s'.rcv_nxt s'.rlist)
    (finp : s'.rcv_fin = 0 ∨ s'.rcv_fin.toNat = D + W.length) (ph : st0 ≠ .listen ∧ st0 ≠ .synSent)
    (fin4 : Fin4 st0 → s'.support_fin_ack = true ∧ s'.rcv_nxt.toNat = D + W.length + 1)
    (stk : s'.state = st0 ∨ s'.state = .closed) : RInvS W D n st0 s' :=
  ⟨⟨fok, pre, com, sync, finp⟩, ph, fin4, stk⟩

/-- the stage between the store and `attempt_send`: invariant of the socket whose FIN (if `rf`) has been consumed -/
theorem storeFin_rinv (hB : D + W.length + 2 < 2 ^ 31) (s0 : Sock) (seg : Segment) (p : Array UInt8) (rf : Bool)
    (sf : SendFlags) (st0 : TcpState) (r : Sock × SendFlags × Bool)
    (hc : RCore W D n s0) (hph : st0 ≠ .listen ∧ st0 ≠ .synSent) (hstk : s0.state = st0 ∨ s0.state = .closed)
    (hseg : SegOk W D seg p)
    (hfin : rf = false → Fin4 st0 → s0.support_fin_ack = true ∧ s0.rcv_nxt.toNat = D + W.length + 1)
    (hrf : rf = true → seg.seq = s0.rcv_nxt ∧ s0.rcv_nxt + seg.len = s0.rcv_fin ∧
      seg.len.toNat ≤ s0.rbuf.getWriteRemaining ∧ s0.rcv_nxt ≠ 0 ∧ s0.support_fin_ack = true)
    (h : storeStage s0 (dropPre s0 (trimRight s0.rcv_nxt s0.rbuf.getWriteRemaining (trimLeft s0.rcv_nxt seg))) p
      (ignoreData s0 (trimRight s0.rcv_nxt s0.rbuf.getWriteRemaining (trimLeft s0.rcv_nxt seg))) sf = .ok r) :
    RInvS W D n st0 { r.1 with rcv_nxt := if rf then r.1.rcv_nxt + 1 else r.1.rcv_nxt } := by
  have hs1 : s0.state ≠ .listen := by
    rcases hstk with e | e <;> rw [e]
    · exact hph.1
    · decide
  have hs2 : s0.state ≠ .synSent := by
    rcases hstk with e | e <;> rw [e]
    · exact hph.2
    · decide
  rw [dropPre_id _ _ hs1 hs2] at h
  generalize hseg2 : trimRight s0.rcv_nxt s0.rbuf.getWriteRemaining (trimLeft s0.rcv_nxt seg) = seg2 at h
  have hfl : seg2.flags = seg.flags := by rw [← hseg2, trimRight_flags, trimLeft_flags]
  -- the FIN case: the segment is untouched by the trimming
  have hid : rf = true → seg2 = seg := by
    intro e
    have ⟨a, _, c, _, _⟩ := hrf e
    rw [← hseg2, trimLeft_id _ _ a, trimRight_id _ _ _ a c]
  by_cases hIgn : s0.support_fin_ack = false ∧ s0.shutdown ≠ .none
  · -- discard mode: nothing is committed any more
    have hrf0 : rf = false := by
      cases rf with
      | false => rfl
      | true => have := (hrf rfl).2.2.2.2; rw [hIgn.1] at this; cases this
    subst hrf0
    have hnF : ¬ Fin4 st0 := by
      intro hF; have := (hfin rfl hF).1; rw [hIgn.1] at this; cases this
    by_cases hl : seg2.len = 0
    · rw [storeStage_len0 _ _ _ _ _ hl] at h
      cases h
      exact mkRInvS _ hc.fok hc.pre hc.com hc.sync hc.finp hph (fun hF => absurd hF hnF) hstk
    · have hig : ignoreData s0 seg2 = true := by
        unfold ignoreData
        have : (!s0.support_fin_ack && s0.shutdown != .none) = true := by
          rw [hIgn.1]; simp [hIgn.2]
        rw [this, Bool.or_true]
      rw [hig, storeStage_ignore _ _ _ _ hl] at h
      cases h
      exact mkRInvS _ hc.fok hc.pre hc.com (Or.inl hIgn) hc.finp hph (fun hF => absurd hF hnF) hstk
  · have hsync : Sync W D n s0.rbuf s0.rcv_nxt s0.rlist := by
      rcases hc.sync with h1 | h1
      · exact absurd h1 hIgn
      · exact h1
    have hpre := hc.pre
    rcases hsync.1 with hnx | hnx
    · -- FIN not consumed yet
      have hcn : RCn W D n s0.rbuf s0.rcv_nxt s0.rlist := ⟨hc.fok, hc.pre, hc.com, hnx, hsync.2⟩
      have hnF : rf = false → ¬ Fin4 st0 := by
        intro e hF; have := (hfin e hF).2; omega
      -- what the FIN condition gives
      have hfinpos : rf = true → seg.seq.toNat = s0.rcv_nxt.toNat ∧
          s0.rcv_nxt.toNat + seg.len.toNat = D + W.length := by
        intro e
        have ⟨a, b, c, d, _⟩ := hrf e
        have hseq : seg.seq.toNat = s0.rcv_nxt.toNat := by rw [a]
        have hlenb : seg.len.toNat ≤ D + W.length := by
          by_cases hl0 : seg.len = 0
          · rw [hl0]; show 0 ≤ _; omega
          · by_cases hctl : (seg.flags &&& cFLAG_CTL) = 0
            · have := (hseg.data hctl hl0).2.1; omega
            · rcases hseg.ctl hctl with h0 | h0
              · exact absurd h0 hl0
              · omega
        have hsum : (s0.rcv_nxt + seg.len).toNat = s0.rcv_nxt.toNat + seg.len.toNat :=
          add_toNat_of_lt _ _ (by omega)
        have hd : s0.rcv_nxt.toNat ≠ 0 := fun e0 => d (UInt32.toNat_inj.mp (by rw [e0]; rfl))
        rcases hc.finp with f0 | f0
        · rw [f0] at b
          have : (s0.rcv_nxt + seg.len).toNat = 0 := by rw [b]; rfl
          omega
        · rw [← b, hsum] at f0
          exact ⟨hseq, f0⟩
      by_cases hl : seg2.len = 0
      · rw [storeStage_len0 _ _ _ _ _ hl] at h
        cases h
        cases rf with
        | false =>
          exact mkRInvS _ hc.fok hc.pre hc.com hc.sync hc.finp hph (fun hF => absurd hF (hnF rfl)) hstk
        | true =>
          have ⟨q1, q2⟩ := hfinpos rfl
          have hl' : seg.len.toNat = 0 := by rw [← hid rfl, hl]; rfl
          have hn1 : (s0.rcv_nxt + 1).toNat = s0.rcv_nxt.toNat + 1 := by
            rw [add_toNat_of_lt _ _ (by rw [one_toNat]; omega), one_toNat]
          refine mkRInvS _ hc.fok hc.pre hc.com (Or.inr ⟨Or.inr ⟨?_, ?_⟩, ?_⟩) hc.finp hph
            (fun _ => ⟨(hrf rfl).2.2.2.2, ?_⟩) hstk
          · simp only [if_true]; omega
          · omega
          · intro r hr
            have hr' := hsync.2 r hr
            refine ⟨hr'.1, ?_⟩
            intro q a1 a2 a3
            simp only [if_true] at a3
            exact hr'.2 q a1 a2 (by omega)
          · simp only [if_true]; omega
      · -- something is stored: it is a data segment
        have hig : ignoreData s0 seg2 = false := by
          unfold ignoreData
          have h1 : (!s0.support_fin_ack && s0.shutdown != .none) = false := by
            cases hfa : s0.support_fin_ack with
            | true => rfl
            | false =>
              have : ¬ s0.shutdown ≠ .none := fun hx => hIgn ⟨hfa, hx⟩
              have : s0.shutdown = .none := Classical.not_not.mp this
              rw [this]; rfl
          rw [h1, Bool.or_false, hfl]
          by_cases hctl : (seg.flags &&& cFLAG_CTL) = 0
          · rw [hctl]; rfl
          · exfalso
            apply hl
            rw [← hseg2]
            apply trimRight_len0
            rcases hseg.ctl hctl with h0 | h0
            · exact trimLeft_len0 _ _ h0
            · apply trimLeft_old _ _ (by omega)
              rw [h0.1, h0.2]; show 0 + D ≤ _; omega
        have hctl : (seg.flags &&& cFLAG_CTL) = 0 := by
          unfold ignoreData at hig
          rw [hfl] at hig
          have := (Bool.or_eq_false_iff.mp hig).1
          simpa using this
        have hl0 : seg.len ≠ 0 := by
          intro e; apply hl; rw [← hseg2]; exact trimRight_len0 _ _ _ (trimLeft_len0 _ _ e)
        have ⟨d1, d2, d3⟩ := hseg.data hctl hl0
        have hso : StoreOk W D s0.rbuf s0.rcv_nxt seg2 p := by
          rcases trimLeft_good hB s0.rcv_nxt seg p (by omega) d1 d2 d3 with g | g
          · exfalso; apply hl; rw [← hseg2]; exact trimRight_len0 _ _ _ g
          · rcases trimRight_good hB s0.rbuf hc.fok s0.rcv_nxt _ p g with g2 | g2
            · exfalso; apply hl; rw [← hseg2]; exact g2
            · rw [hseg2] at g2; exact g2
        rw [hig] at h
        obtain ⟨rb, nxt, wnd, rl, e1, hcn', hmono⟩ := storeStage_rcn hB s0 seg2 p sf r hcn hl hso h
        rw [e1]
        have hnx' := hcn'.nx
        have hpre' := hcn'.pre
        cases rf with
        | false =>
          exact mkRInvS _ hcn'.fok hcn'.pre hcn'.com (Or.inr ⟨Or.inl hcn'.nx, hcn'.ooo⟩) hc.finp hph
            (fun hF => absurd hF (hnF rfl)) hstk
        | true =>
          have ⟨q1, q2⟩ := hfinpos rfl
          have hm := hmono (by rw [hid rfl]; exact (hrf rfl).1)
          rw [hid rfl] at hm
          have hn1 : (nxt + 1).toNat = nxt.toNat + 1 := by
            rw [add_toNat_of_lt _ _ (by rw [one_toNat]; omega), one_toNat]
          refine mkRInvS _ hcn'.fok hcn'.pre hcn'.com (Or.inr ⟨Or.inr ⟨?_, ?_⟩, ?_⟩) hc.finp hph
            (fun _ => ⟨(hrf rfl).2.2.2.2, ?_⟩) hstk
          · simp only [if_true]; omega
          · simp only; omega
          · intro r hr
            have hr' := hcn'.ooo r hr
            refine ⟨hr'.1, ?_⟩
            intro q a1 a2 a3
            simp only [if_true] at a3
            exact hr'.2 q a1 a2 (by omega)
          · simp only [if_true]; omega
    · -- FIN already consumed: every honest segment is old
      have hl : seg2.len = 0 := by
        rw [← hseg2]
        apply trimRight_len0
        by_cases hl0 : seg.len = 0
        · exact trimLeft_len0 _ _ hl0
        · apply trimLeft_old _ _ (by omega)
          by_cases hctl : (seg.flags &&& cFLAG_CTL) = 0
          · have := (hseg.data hctl hl0).2.1; omega
          · rcases hseg.ctl hctl with h0 | h0
            · exact absurd h0 hl0
            · rw [h0.1, h0.2]; show 0 + D ≤ _; omega
      have hrf0 : rf = false := by
        cases rf with
        | false => rfl
        | true =>
          exfalso
          have ⟨a, b, _, d, _⟩ := hrf rfl
          have hl' : seg.len = 0 := by rw [← hid rfl]; exact hl
          rw [hl'] at b
          have b' : s0.rcv_nxt = s0.rcv_fin := by
            rw [← b]; apply UInt32.toNat_inj.mp; rw [UInt32.toNat_add, zero_toNat]
            have := s0.rcv_nxt.toNat_lt; omega
          rcases hc.finp with f0 | f0
          · exact d (b'.trans f0)
          · rw [← b'] at f0; omega
      subst hrf0
      rw [storeStage_len0 _ _ _ _ _ hl] at h
      cases h
      exact mkRInvS _ hc.fok hc.pre hc.com hc.sync hc.finp hph (hfin rfl) hstk

end

end Nice.Proofs.PTcpStream
