/-
  C08 end-to-end (receive side), part 5: `processData` keeps the receive-side stream invariant for every `SegOk`
  segment, and consumes the FIN only when the whole stream has been committed.
-/
import Nice.Proofs.PTcpStreamTrim
namespace Nice.Proofs.PTcpStream
open Nice.PTcp Nice.Gen Nice.Proofs.PTcp Std.Do

set_option maxRecDepth 16000

/-- the trimmed segment -/
def trimmed (s0 : Sock) (seg : Segment) : Segment :=
  trimRight s0.rcv_nxt s0.rbuf.getWriteRemaining (trimLeft s0.rcv_nxt seg)

/-- `processData` after the "make room in the send queue" notification -/
def pdMain (s0 : Sock) (seg : Segment) (p : Array UInt8) (rf : Bool) (clk : UInt32) : R (Bool × Sock) := do
  let (s1, sflags, bNew) ←
    storeStage s0 (dropPre s0 (trimmed s0 seg)) p (ignoreData s0 (trimmed s0 seg)) (pdFlags s0 seg rf)
  let s2 := { s1 with rcv_nxt := if rf then s1.rcv_nxt + 1 else s1.rcv_nxt }
  let s3 ← attemptSend s2 sflags clk
  pure (true, emitIf (bNew && s3.bReadEnable) s3 .readable)

theorem processData_eq' (s : Sock) (seg : Segment) (p : Array UInt8) (rf : Bool) (clk : UInt32) :
    processData s seg p rf clk = pdMain (pdPrep s) seg p rf clk := rfl

theorem dropPre_id (s : Sock) (seg : Segment) (h1 : s.state ≠ .listen) (h2 : s.state ≠ .synSent) :
    dropPre s seg = seg := by
  unfold dropPre
  have : (decide (s.state = .listen) || decide (s.state = .synSent)) = false := by simp [h1, h2]
  rw [this, Bool.and_false]; rfl

theorem storeStage_len0 (s : Sock) (seg : Segment) (p : Array UInt8) (b : Bool) (sf : SendFlags) (h : seg.len = 0) :
    storeStage s seg p b sf = .ok (s, sf, false) := by
  unfold storeStage
  have : ¬ seg.len > 0 := by rw [h]; exact not_lt_zero32 _
  rw [if_neg this]; rfl

theorem storeStage_ignore (s : Sock) (seg : Segment) (p : Array UInt8) (sf : SendFlags) (h : seg.len ≠ 0) :
    storeStage s seg p true sf =
      .ok ({ s with rcv_nxt := if seg.seq == s.rcv_nxt then s.rcv_nxt + seg.len else s.rcv_nxt }, sf, false) := by
  unfold storeStage
  rw [if_pos (u32_pos h)]; rfl

theorem ign_true (s0 : Sock) (seg2 : Segment) (hIgn : s0.support_fin_ack = false ∧ s0.shutdown ≠ .none) :
    ignoreData s0 seg2 = true := by
  unfold ignoreData
  have : (!s0.support_fin_ack && s0.shutdown != .none) = true := by
    rw [hIgn.1]; simp [hIgn.2]
  rw [this, Bool.or_true]

theorem ign_false (s0 : Sock) (seg2 : Segment) (hIgn : ¬ (s0.support_fin_ack = false ∧ s0.shutdown ≠ .none))
    (hctl : (seg2.flags &&& cFLAG_CTL) = 0) : ignoreData s0 seg2 = false := by
  unfold ignoreData
  have h1 : (!s0.support_fin_ack && s0.shutdown != .none) = false := by
    cases hfa : s0.support_fin_ack with
    | true => rfl
    | false =>
      have : ¬ s0.shutdown ≠ .none := fun hx => hIgn ⟨hfa, hx⟩
      have : s0.shutdown = .none := Classical.not_not.mp this
      rw [this]; rfl
  rw [h1, Bool.or_false, hctl]; rfl

theorem trimmed_flags (s0 : Sock) (seg : Segment) : (trimmed s0 seg).flags = seg.flags := by
  unfold trimmed; rw [trimRight_flags, trimLeft_flags]

theorem trimmed_len0 (s0 : Sock) (seg : Segment) (h : seg.len = 0) : (trimmed s0 seg).len = 0 := by
  unfold trimmed; exact trimRight_len0 _ _ _ (trimLeft_len0 _ _ h)

theorem trimmed_old (s0 : Sock) (seg : Segment) (hn : s0.rcv_nxt.toNat < 2 ^ 31)
    (h : seg.seq.toNat + seg.len.toNat ≤ s0.rcv_nxt.toNat) : (trimmed s0 seg).len = 0 := by
  unfold trimmed; exact trimRight_len0 _ _ _ (trimLeft_old _ _ hn h)

theorem trimmed_id (s0 : Sock) (seg : Segment) (h : seg.seq = s0.rcv_nxt)
    (hl : seg.len.toNat ≤ s0.rbuf.getWriteRemaining) : trimmed s0 seg = seg := by
  unfold trimmed; rw [trimLeft_id _ _ h, trimRight_id _ _ _ h hl]

section
variable {W : List UInt8} {D n : Nat}

/-- an honest segment that lies entirely before `D + k` (`k ≤ rcv_nxt - D`) : every control segment, and every segment
    once the FIN has been consumed -/
theorem segOk_ctl_old (_hB : D + W.length + 2 < 2 ^ 31) (s0 : Sock) (seg : Segment) (p : Array UInt8)
    (hseg : SegOk W D seg p) (hn : s0.rcv_nxt.toNat < 2 ^ 31) (hD : D ≤ s0.rcv_nxt.toNat)
    (hctl : (seg.flags &&& cFLAG_CTL) ≠ 0) : (trimmed s0 seg).len = 0 := by
  rcases hseg.ctl hctl with h0 | h0
  · exact trimmed_len0 _ _ h0
  · apply trimmed_old _ _ hn
    rw [h0.1, h0.2]; show 0 + D ≤ _; omega

theorem segOk_fin_old (hB : D + W.length + 2 < 2 ^ 31) (s0 : Sock) (seg : Segment) (p : Array UInt8)
    (hseg : SegOk W D seg p) (hnx : s0.rcv_nxt.toNat = D + W.length + 1) : (trimmed s0 seg).len = 0 := by
  by_cases hctl : (seg.flags &&& cFLAG_CTL) = 0
  · by_cases hl0 : seg.len = 0
    · exact trimmed_len0 _ _ hl0
    · apply trimmed_old _ _ (by omega)
      have := (hseg.data hctl hl0).2.1; omega
  · exact segOk_ctl_old hB s0 seg p hseg (by omega) (by omega) hctl

theorem storeFin_ign (s0 : Sock) (seg2 : Segment) (p : Array UInt8) (sf : SendFlags) (st0 : TcpState)
    (r : Sock × SendFlags × Bool)
    (hc : RCore W D n s0) (hph : st0 ≠ .listen ∧ st0 ≠ .synSent) (hstk : s0.state = st0 ∨ s0.state = .closed)
    (hIgn : s0.support_fin_ack = false ∧ s0.shutdown ≠ .none) (hnF : ¬ Fin4 st0) (hl : seg2.len ≠ 0)
    (h : storeStage s0 seg2 p (ignoreData s0 seg2) sf = .ok r) : RInvS W D n st0 r.1 := by
  rw [ign_true _ _ hIgn, storeStage_ignore _ _ _ _ hl] at h
  cases h
  exact ⟨⟨hc.fok, hc.pre, hc.com, Or.inl hIgn, hc.finp⟩, hph, fun hF => absurd hF hnF, hstk⟩

/-- storing an honest data segment in the synchronised state -/
theorem store_nonfin (hB : D + W.length + 2 < 2 ^ 31) (s0 : Sock) (seg : Segment) (p : Array UInt8) (sf : SendFlags)
    (r : Sock × SendFlags × Bool) (hcn : RCn W D n s0.rbuf s0.rcv_nxt s0.rlist)
    (hIgn : ¬ (s0.support_fin_ack = false ∧ s0.shutdown ≠ .none)) (hseg : SegOk W D seg p)
    (hl : (trimmed s0 seg).len ≠ 0)
    (h : storeStage s0 (trimmed s0 seg) p (ignoreData s0 (trimmed s0 seg)) sf = .ok r) :
    ∃ rb nxt wnd rl, r.1 = { s0 with rbuf := rb, rcv_nxt := nxt, rcv_wnd := wnd, rlist := rl } ∧
      RCn W D n rb nxt rl ∧
      ((trimmed s0 seg).seq = s0.rcv_nxt → s0.rcv_nxt.toNat + (trimmed s0 seg).len.toNat ≤ nxt.toNat) := by
  have hnx := hcn.nx
  have hpre := hcn.pre
  have hctl : (seg.flags &&& cFLAG_CTL) = 0 := by
    apply Classical.byContradiction
    intro hctl
    exact hl (segOk_ctl_old hB s0 seg p hseg (by omega) (by omega) hctl)
  have hl0 : seg.len ≠ 0 := fun e => hl (trimmed_len0 _ _ e)
  have ⟨d1, d2, d3⟩ := hseg.data hctl hl0
  have hso : StoreOk W D s0.rbuf s0.rcv_nxt (trimmed s0 seg) p := by
    rcases trimLeft_good hB s0.rcv_nxt seg p (by omega) d1 d2 d3 with g | g
    · exact absurd (trimRight_len0 _ _ _ g) hl
    · rcases trimRight_good hB s0.rbuf hcn.fok s0.rcv_nxt _ p g with g2 | g2
      · exact absurd g2 hl
      · exact g2
  rw [ign_false _ _ hIgn (by rw [trimmed_flags]; exact hctl)] at h
  exact storeStage_rcn hB s0 _ p sf r hcn hl hso h

/-- no FIN consumed by this segment: the store keeps the invariant -/
theorem storeStage_rinv (hB : D + W.length + 2 < 2 ^ 31) (s0 : Sock) (seg : Segment) (p : Array UInt8)
    (sf : SendFlags) (st0 : TcpState) (r : Sock × SendFlags × Bool)
    (hc : RCore W D n s0) (hph : st0 ≠ .listen ∧ st0 ≠ .synSent) (hstk : s0.state = st0 ∨ s0.state = .closed)
    (hseg : SegOk W D seg p)
    (hfin : Fin4 st0 → s0.support_fin_ack = true ∧ s0.rcv_nxt.toNat = D + W.length + 1)
    (h : storeStage s0 (trimmed s0 seg) p (ignoreData s0 (trimmed s0 seg)) sf = .ok r) :
    RInvS W D n st0 r.1 := by
  by_cases hl : (trimmed s0 seg).len = 0
  · rw [storeStage_len0 _ _ _ _ _ hl] at h
    cases h
    exact ⟨hc, hph, hfin, hstk⟩
  · by_cases hIgn : s0.support_fin_ack = false ∧ s0.shutdown ≠ .none
    · have hnF : ¬ Fin4 st0 := by
        intro hF; have := (hfin hF).1; rw [hIgn.1] at this; cases this
      exact storeFin_ign s0 _ p sf st0 r hc hph hstk hIgn hnF hl h
    · have hsync : Sync W D n s0.rbuf s0.rcv_nxt s0.rlist := by
        rcases hc.sync with h1 | h1
        · exact absurd h1 hIgn
        · exact h1
      rcases hsync.1 with hnx | hnx
      · have hcn : RCn W D n s0.rbuf s0.rcv_nxt s0.rlist := ⟨hc.fok, hc.pre, hc.com, hnx, hsync.2⟩
        have hpre := hc.pre
        have hnF : ¬ Fin4 st0 := by
          intro hF; have := (hfin hF).2; omega
        obtain ⟨rb, nxt, wnd, rl, e1, hcn', _⟩ := store_nonfin hB s0 seg p sf r hcn hIgn hseg hl h
        rw [e1]
        exact ⟨⟨hcn'.fok, hcn'.pre, hcn'.com, Or.inr ⟨Or.inl hcn'.nx, hcn'.ooo⟩, hc.finp⟩, hph,
          fun hF => absurd hF hnF, hstk⟩
      · exact absurd (segOk_fin_old hB s0 seg p hseg hnx.1) hl

/-- the segment that completes the stream (`received_fin`): afterwards everything up to the FIN position is committed -/
theorem storeStage_fin (hB : D + W.length + 2 < 2 ^ 31) (s0 : Sock) (seg : Segment) (p : Array UInt8)
    (sf : SendFlags) (r : Sock × SendFlags × Bool) (hc : RCore W D n s0) (hseg : SegOk W D seg p)
    (h1 : seg.seq = s0.rcv_nxt) (h2 : s0.rcv_nxt + seg.len = s0.rcv_fin)
    (h3 : seg.len.toNat ≤ s0.rbuf.getWriteRemaining) (h4 : s0.rcv_nxt ≠ 0) (h5 : s0.support_fin_ack = true)
    (h : storeStage s0 (trimmed s0 seg) p (ignoreData s0 (trimmed s0 seg)) sf = .ok r) :
    RCn W D n r.1.rbuf r.1.rcv_nxt r.1.rlist ∧ r.1.rcv_nxt.toNat = D + W.length ∧
      r.1.support_fin_ack = s0.support_fin_ack ∧ r.1.shutdown = s0.shutdown ∧ r.1.rcv_fin = s0.rcv_fin ∧
      r.1.state = s0.state := by
  have hIgn : ¬ (s0.support_fin_ack = false ∧ s0.shutdown ≠ .none) := by
    intro hI; rw [h5] at hI; cases hI.1
  have hsync : Sync W D n s0.rbuf s0.rcv_nxt s0.rlist := by
    rcases hc.sync with h1 | h1
    · exact absurd h1 hIgn
    · exact h1
  have hpre := hc.pre
  have hid := trimmed_id s0 seg h1 h3
  have hseq : seg.seq.toNat = s0.rcv_nxt.toNat := by rw [h1]
  have hd : s0.rcv_nxt.toNat ≠ 0 := fun e0 => h4 (UInt32.toNat_inj.mp (by rw [e0]; rfl))
  rcases hsync.1 with hnx | hnx
  · have hcn : RCn W D n s0.rbuf s0.rcv_nxt s0.rlist := ⟨hc.fok, hc.pre, hc.com, hnx, hsync.2⟩
    have hlenb : seg.len.toNat ≤ D + W.length := by
      by_cases hl0 : seg.len = 0
      · rw [hl0]; show 0 ≤ _; omega
      · by_cases hctl : (seg.flags &&& cFLAG_CTL) = 0
        · have := (hseg.data hctl hl0).2.1; omega
        · rcases hseg.ctl hctl with h0 | h0
          · exact absurd h0 hl0
          · omega
    have hsum : (s0.rcv_nxt + seg.len).toNat = s0.rcv_nxt.toNat + seg.len.toNat :=
      add_toNat_of_lt _ _ (by omega)
    have hend : s0.rcv_nxt.toNat + seg.len.toNat = D + W.length := by
      rcases hc.finp with f0 | f0
      · rw [f0] at h2
        have : (s0.rcv_nxt + seg.len).toNat = 0 := by rw [h2]; rfl
        omega
      · rw [← h2, hsum] at f0; exact f0
    by_cases hl : (trimmed s0 seg).len = 0
    · rw [storeStage_len0 _ _ _ _ _ hl] at h
      cases h
      have hl' : seg.len.toNat = 0 := by rw [← hid, hl]; rfl
      exact ⟨hcn, by show s0.rcv_nxt.toNat = _; omega, rfl, rfl, rfl, rfl⟩
    · obtain ⟨rb, nxt, wnd, rl, e1, hcn', hmono⟩ := store_nonfin hB s0 seg p sf r hcn hIgn hseg hl h
      rw [e1]
      have hm := hmono (by rw [hid]; exact h1)
      rw [hid] at hm
      have hnx' := hcn'.nx
      have hpre' := hcn'.pre
      exact ⟨hcn', by simp only; omega, rfl, rfl, rfl, rfl⟩
  · exfalso
    have hl : seg.len = 0 := by rw [← hid]; exact segOk_fin_old hB s0 seg p hseg hnx.1
    rw [hl] at h2
    have b' : s0.rcv_nxt = s0.rcv_fin := by
      rw [← h2]; apply UInt32.toNat_inj.mp; rw [UInt32.toNat_add, zero_toNat]
      have := s0.rcv_nxt.toNat_lt; omega
    rcases hc.finp with f0 | f0
    · exact h4 (b'.trans f0)
    · rw [← b'] at f0; omega

theorem of_triple_pre {α : Type} {x : R α} {P : Prop} {Q : α → Prop} (h : ⦃⌜P⌝⦄ x ⦃⇓? a => ⌜Q a⌝⦄) (hp : P)
    (a : α) (hx : x = .ok a) : Q a := by
  have h' : ⦃⌜True⌝⦄ x ⦃⇓? a => ⌜Q a⌝⦄ := by intro _; exact h hp
  exact of_triple h' a hx

theorem pdMain_rinv (hB : D + W.length + 2 < 2 ^ 31) (s0 : Sock) (seg : Segment) (p : Array UInt8) (rf : Bool)
    (clk : UInt32) (st0 : TcpState) (r : Bool × Sock)
    (hc : RCore W D n s0) (hph : st0 ≠ .listen ∧ st0 ≠ .synSent) (hstk : s0.state = st0 ∨ s0.state = .closed)
    (hseg : SegOk W D seg p)
    (hfin : rf = false → Fin4 st0 → s0.support_fin_ack = true ∧ s0.rcv_nxt.toNat = D + W.length + 1)
    (hrf : rf = true → seg.seq = s0.rcv_nxt ∧ s0.rcv_nxt + seg.len = s0.rcv_fin ∧
      seg.len.toNat ≤ s0.rbuf.getWriteRemaining ∧ s0.rcv_nxt ≠ 0 ∧ s0.support_fin_ack = true)
    (h : pdMain s0 seg p rf clk = .ok r) : RInvS W D n st0 r.2 := by
  have hs1 : s0.state ≠ .listen := by
    rcases hstk with e | e <;> rw [e]
    · exact hph.1
    · decide
  have hs2 : s0.state ≠ .synSent := by
    rcases hstk with e | e <;> rw [e]
    · exact hph.2
    · decide
  unfold pdMain at h
  rw [dropPre_id _ _ hs1 hs2] at h
  obtain ⟨⟨s1, sflags, bNew⟩, hst, h⟩ := bind_ok h
  simp only at h
  have key : RInvS W D n st0 { s1 with rcv_nxt := if rf = true then s1.rcv_nxt + 1 else s1.rcv_nxt } := by
    cases rf with
    | false =>
      have hi := storeStage_rinv hB s0 seg p _ st0 _ hc hph hstk hseg (hfin rfl) hst
      simp only [Bool.false_eq_true, if_false]
      exact hi
    | true =>
      have ⟨a1, a2, a3, a4, a5⟩ := hrf rfl
      have ⟨hcn, b2, b3, b4, b5, b6⟩ := storeStage_fin hB s0 seg p _ _ hc hseg a1 a2 a3 a4 a5 hst
      simp only at hcn b2 b3 b4 b5 b6
      simp only [if_true]
      have hn1 : (s1.rcv_nxt + 1).toNat = s1.rcv_nxt.toNat + 1 := by
        rw [add_toNat_of_lt _ _ (by rw [one_toNat]; omega), one_toNat]
      have hnx := hcn.nx
      refine ⟨⟨hcn.fok, hcn.pre, hcn.com, Or.inr ⟨Or.inr ⟨?_, ?_⟩, ?_⟩, ?_⟩, hph, fun _ => ⟨?_, ?_⟩, ?_⟩
      · show (s1.rcv_nxt + 1).toNat = _; omega
      · show n + s1.rbuf.data = _; omega
      · intro r hr
        have hr' := hcn.ooo r hr
        refine ⟨hr'.1, ?_⟩
        intro q c1 c2 c3
        have c3' : (s1.rcv_nxt + 1).toNat ≤ q := c3
        exact hr'.2 q c1 c2 (by omega)
      · show s1.rcv_fin = 0 ∨ _; rw [b5]; exact hc.finp
      · show s1.support_fin_ack = true; rw [b3]; exact a5
      · show (s1.rcv_nxt + 1).toNat = _; omega
      · show s1.state = st0 ∨ _; rw [b6]; exact hstk
  obtain ⟨s3, has, h⟩ := bind_ok h
  have h3 := of_triple_pre (attemptSend_rspec W D n st0 _ sflags clk) key s3 has
  simp only [pure, Except.pure] at h
  cases h
  exact ⟨⟨h3.core.fok, h3.core.pre, h3.core.com, h3.core.sync, h3.core.finp⟩, h3.ph, h3.fin4, h3.stk⟩

theorem processData_rinv (hB : D + W.length + 2 < 2 ^ 31) (s : Sock) (seg : Segment) (p : Array UInt8) (rf : Bool)
    (clk : UInt32) (st0 : TcpState) (r : Bool × Sock)
    (hc : RCore W D n s) (hph : st0 ≠ .listen ∧ st0 ≠ .synSent) (hstk : s.state = st0 ∨ s.state = .closed)
    (hseg : SegOk W D seg p)
    (hfin : rf = false → Fin4 st0 → s.support_fin_ack = true ∧ s.rcv_nxt.toNat = D + W.length + 1)
    (hrf : rf = true → seg.seq = s.rcv_nxt ∧ s.rcv_nxt + seg.len = s.rcv_fin ∧
      seg.len.toNat ≤ s.rbuf.getWriteRemaining ∧ s.rcv_nxt ≠ 0 ∧ s.support_fin_ack = true)
    (h : processData s seg p rf clk = .ok r) : RInvS W D n st0 r.2 := by
  rw [processData_eq'] at h
  have hc0 : RCore W D n (pdPrep s) := ⟨hc.fok, hc.pre, hc.com, hc.sync, hc.finp⟩
  exact pdMain_rinv hB (pdPrep s) seg p rf clk st0 r hc0 hph hstk hseg hfin hrf h

end

end Nice.Proofs.PTcpStream
