/-
  C08 end-to-end (receive side), part 4: left / right trimming of an incoming segment in `processData`.
-/
import Nice.Proofs.PTcpStreamData
namespace Nice.Proofs.PTcpStream
open Nice.PTcp Nice.Gen Nice.Proofs.PTcp

set_option maxRecDepth 16000

section
variable {W : List UInt8} {D n : Nat}

/-! ### trimming -/

theorem not_lt_zero32 (x : UInt32) : ¬ x < 0 := by
  rw [UInt32.lt_iff_toNat_lt]; show ¬ x.toNat < 0; omega

theorem trimLeft_flags (nxt : UInt32) (seg : Segment) : (trimLeft nxt seg).flags = seg.flags := by
  unfold trimLeft; split
  · simp only; split <;> rfl
  · rfl

theorem trimRight_eq1 (nxt : UInt32) (a : Nat) (seg : Segment) (c : ¬ (seg.seq + seg.len - nxt).toNat > a) :
    trimRight nxt a seg = seg := by
  unfold trimRight; rw [if_neg c]

theorem trimRight_eq2 (nxt : UInt32) (a : Nat) (seg : Segment) (c : (seg.seq + seg.len - nxt).toNat > a)
    (c2 : UInt32.ofNat (gsub (seg.seq + seg.len - nxt).toNat a) < seg.len) :
    trimRight nxt a seg = { seg with len := seg.len - UInt32.ofNat (gsub (seg.seq + seg.len - nxt).toNat a) } := by
  unfold trimRight; rw [if_pos c]; exact if_pos c2

theorem trimRight_eq3 (nxt : UInt32) (a : Nat) (seg : Segment) (c : (seg.seq + seg.len - nxt).toNat > a)
    (c2 : ¬ UInt32.ofNat (gsub (seg.seq + seg.len - nxt).toNat a) < seg.len) :
    trimRight nxt a seg = { seg with len := 0 } := by
  unfold trimRight; rw [if_pos c]; exact if_neg c2

theorem trimRight_flags (nxt : UInt32) (a : Nat) (seg : Segment) : (trimRight nxt a seg).flags = seg.flags := by
  by_cases c : (seg.seq + seg.len - nxt).toNat > a
  · by_cases c2 : UInt32.ofNat (gsub (seg.seq + seg.len - nxt).toNat a) < seg.len
    · rw [trimRight_eq2 _ _ _ c c2]
    · rw [trimRight_eq3 _ _ _ c c2]
  · rw [trimRight_eq1 _ _ _ c]

theorem trimLeft_len0 (nxt : UInt32) (seg : Segment) (h : seg.len = 0) : (trimLeft nxt seg).len = 0 := by
  unfold trimLeft; split
  · simp only; split
    · rename_i h1; rw [h] at h1; exact absurd h1 (not_lt_zero32 _)
    · rfl
  · exact h

theorem trimRight_len0 (nxt : UInt32) (a : Nat) (seg : Segment) (h : seg.len = 0) : (trimRight nxt a seg).len = 0 := by
  by_cases c : (seg.seq + seg.len - nxt).toNat > a
  · by_cases c2 : UInt32.ofNat (gsub (seg.seq + seg.len - nxt).toNat a) < seg.len
    · rw [h] at c2; exact absurd c2 (not_lt_zero32 _)
    · rw [trimRight_eq3 _ _ _ c c2]
  · rw [trimRight_eq1 _ _ _ c]; exact h

/-- a segment that ends at or before `rcv_nxt` is trimmed to nothing -/
theorem trimLeft_old (nxt : UInt32) (seg : Segment) (hn : nxt.toNat < 2 ^ 31)
    (h : seg.seq.toNat + seg.len.toNat ≤ nxt.toNat) : (trimLeft nxt seg).len = 0 := by
  by_cases h0 : seg.len = 0
  · exact trimLeft_len0 _ _ h0
  · have hlen : 0 < seg.len.toNat := (UInt32.lt_iff_toNat_lt).mp (u32_pos h0)
    unfold trimLeft
    rw [smaller_iff _ _ (by omega) hn]
    have : seg.seq.toNat < nxt.toNat := by omega
    simp only [this, decide_true, if_true]
    have : ¬ nxt - seg.seq < seg.len := by
      rw [UInt32.lt_iff_toNat_lt, sub_toNat_of_le _ _ (by omega)]; omega
    simp only [this, if_false]

theorem trimLeft_id (nxt : UInt32) (seg : Segment) (h : seg.seq = nxt) : trimLeft nxt seg = seg := by
  unfold trimLeft
  have : lt? (ptcp_smaller seg.seq nxt) = false := by
    rw [h]; unfold lt? ptcp_smaller
    have : ¬ ((nxt - nxt) - 1 : UInt32) < 2147483647 := by
      rw [UInt32.lt_iff_toNat_lt, UInt32.toNat_sub, UInt32.toNat_sub, one_toNat, c31_toNat]
      have := nxt.toNat_lt; omega
    rw [decide_eq_false this]; rfl
  simp only [this, Bool.false_eq_true, if_false]

theorem trimRight_id (nxt : UInt32) (a : Nat) (seg : Segment) (h : seg.seq = nxt) (hl : seg.len.toNat ≤ a) :
    trimRight nxt a seg = seg := by
  apply trimRight_eq1
  have : (seg.seq + seg.len - nxt).toNat = seg.len.toNat := by
    rw [h, UInt32.toNat_sub, UInt32.toNat_add]
    have := nxt.toNat_lt; have := seg.len.toNat_lt; omega
  rw [this]; omega

/-- in sequence space: at or after `rcv_nxt`, inside the stream, payload = stream -/
structure Good (W : List UInt8) (D : Nat) (nxt : UInt32) (seg : Segment) (p : Array UInt8) : Prop where
  lo : nxt.toNat ≤ seg.seq.toNat
  hi : seg.seq.toNat + seg.len.toNat ≤ D + W.length
  bytes : ∀ j, j < seg.len.toNat → p.getD (seg.dataOff + j) 0 = W.getD (seg.seq.toNat - D + j) 0

theorem trimLeft_good (hB : D + W.length + 2 < 2 ^ 31) (nxt : UInt32) (seg : Segment) (p : Array UInt8)
    (hn : nxt.toNat < 2 ^ 31) (h1 : D ≤ seg.seq.toNat) (h2 : seg.seq.toNat + seg.len.toNat ≤ D + W.length)
    (h3 : ∀ j, j < seg.len.toNat → p.getD (seg.dataOff + j) 0 = W.getD (seg.seq.toNat - D + j) 0) :
    (trimLeft nxt seg).len = 0 ∨ Good W D nxt (trimLeft nxt seg) p := by
  unfold trimLeft
  rw [smaller_iff _ _ (by omega) hn]
  by_cases c : seg.seq.toNat < nxt.toNat
  · simp only [c, decide_true, if_true]
    have e : (nxt - seg.seq).toNat = nxt.toNat - seg.seq.toNat := sub_toNat_of_le _ _ (by omega)
    split
    · rename_i c2
      rw [UInt32.lt_iff_toNat_lt, e] at c2
      right
      have e2 : (seg.seq + (nxt - seg.seq)).toNat = nxt.toNat := by
        rw [add_toNat_of_lt _ _ (by omega), e]; omega
      have e3 : (seg.len - (nxt - seg.seq)).toNat = seg.len.toNat - (nxt.toNat - seg.seq.toNat) := by
        rw [sub_toNat_of_le _ _ (by omega), e]
      refine ⟨?_, ?_, ?_⟩
      · simp only; omega
      · simp only; omega
      · intro j hj
        simp only at hj ⊢
        rw [e3] at hj
        rw [e, e2]
        have := h3 (nxt.toNat - seg.seq.toNat + j) (by omega)
        rw [← Nat.add_assoc] at this
        rw [this]; congr 1; omega
    · left; rfl
  · simp only [c, decide_false, Bool.false_eq_true, if_false]
    right
    exact ⟨by omega, h2, h3⟩

theorem trimRight_good (hB : D + W.length + 2 < 2 ^ 31) (rb : Fifo) (hf : FOk rb) (nxt : UInt32) (seg : Segment)
    (p : Array UInt8) (hg : Good W D nxt seg p) :
    (trimRight nxt rb.getWriteRemaining seg).len = 0 ∨ StoreOk W D rb nxt (trimRight nxt rb.getWriteRemaining seg) p := by
  have hlo := hg.lo
  have hhi := hg.hi
  have hfd := hf.1.1
  have hav : rb.getWriteRemaining = rb.buf.size - rb.data := by
    unfold Fifo.getWriteRemaining Fifo.cap; exact gsub_of_le hf.1.1 hf.2
  have hsum : (seg.seq + seg.len).toNat = seg.seq.toNat + seg.len.toNat := add_toNat_of_lt _ _ (by omega)
  have hx : (seg.seq + seg.len - nxt).toNat = seg.seq.toNat + seg.len.toNat - nxt.toNat := by
    rw [sub_toNat_of_le _ _ (by omega), hsum]
  rw [hav]
  generalize hA : rb.buf.size - rb.data = A
  by_cases c : (seg.seq + seg.len - nxt).toNat > A
  · have hX64 : (seg.seq + seg.len - nxt).toNat < 2 ^ 64 := u32_lt_64 _
    have hg2 : gsub (seg.seq + seg.len - nxt).toNat A = (seg.seq + seg.len - nxt).toNat - A :=
      gsub_of_le (by omega) hX64
    have e : (UInt32.ofNat (gsub (seg.seq + seg.len - nxt).toNat A)).toNat = (seg.seq + seg.len - nxt).toNat - A := by
      rw [UInt32.toNat_ofNat', hg2]
      have := (seg.seq + seg.len - nxt).toNat_lt
      omega
    by_cases c2 : UInt32.ofNat (gsub (seg.seq + seg.len - nxt).toNat A) < seg.len
    · rw [trimRight_eq2 _ _ _ c c2]
      have c2' := c2
      rw [UInt32.lt_iff_toNat_lt, e] at c2'
      have e3 := sub_toNat_of_le seg.len (UInt32.ofNat (gsub (seg.seq + seg.len - nxt).toNat A)) (by omega)
      rw [e] at e3
      rw [hx] at c c2'
      right
      refine ⟨hlo, ?_, ?_, ?_⟩
      · simp only; rw [e3]; omega
      · simp only; rw [e3]; omega
      · intro j hj
        simp only at hj ⊢
        rw [e3] at hj
        exact hg.bytes j (by omega)
    · rw [trimRight_eq3 _ _ _ c c2]; left; rfl
  · rw [trimRight_eq1 _ _ _ c]
    rw [hx] at c
    right
    exact ⟨hlo, hhi, by omega, hg.bytes⟩

end

end Nice.Proofs.PTcpStream
