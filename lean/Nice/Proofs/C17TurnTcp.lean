/- helper lemmas for C17: TURN-over-TCP framing = byte-at-a-time reference decoder -/
import Nice.Proofs.C17Base
set_option maxRecDepth 4000
namespace Nice.Props.C17
open Nice.Sock Nice.Drv Nice.TurnTcp


/-! ## TURN-over-TCP framing -/

/-- decoding of a complete header held in `buf`: `none` = refuse (bad payload type / unknown mode),
    otherwise the bytes kept in the buffer and `expecting_len` -/
def hdr (c : Compat) (buf : Bytes) : Option (Bytes × Nat) :=
  match c with
  | .draft9 | .rfc5766 =>
    some (buf, if be16 (buf.getD 0 0) (buf.getD 1 0) < 0x4000 then 20 + be16 (buf.getD 2 0) (buf.getD 3 0)
               else 4 + be16 (buf.getD 2 0) (buf.getD 3 0))
  | .google => some ([], be16 (buf.getD 0 0) (buf.getD 1 0))
  | .oc2007 =>
    if buf.getD 0 0 != MS_TURN_CONTROL_MESSAGE && buf.getD 0 0 != MS_TURN_END_TO_END_DATA then none
    else some ([buf.getD 2 0, buf.getD 3 0], be16 (buf.getD 2 0) (buf.getD 3 0) + 2)
  | .msn => none

/-- `socket_recv_message` with `expecting_len == 0`, in terms of `hdr` -/
theorem recvMessage_hdr (s : St) (b : Base) (hl : Nat) (h0 : s.expecting = 0)
    (hh : headerLen s.compat = some hl) (hlen : s.buf.length ≤ hl) :
    recvMessage s b =
      (let r := b.read (hl - s.buf.length)
       if r.1.1 < 0 then ((r.1.1, none), s, r.2)
       else
         let s1 := { s with buf := s.buf ++ r.1.2 }
         if s1.buf.length < hl then ((0, none), s1, r.2)
         else match hdr s.compat s1.buf with
           | none => ((-1, none), s1, r.2)
           | some (buf', e) => recvPayload { s1 with buf := buf', expecting := e } r.2) := by
  have hnf : ¬ s.buf.length > hl := by omega
  rcases hr : b.read (hl - s.buf.length) with ⟨⟨ret, bytes⟩, b1⟩
  cases hc : s.compat <;> simp only [hc, headerLen, Option.some.injEq, reduceCtorEq] at hh
  all_goals (subst hh; simp only [recvMessage, h0, hc, headerLen, hnf, hr, hdr, beq_self_eq_true, ↓reduceIte])
  all_goals (split <;> try rfl)
  all_goals (split <;> try rfl)
  all_goals (try (split <;> rfl))

/-- invariant that rules out every buffer fault: no fault so far, a partial header is no longer
    than the header, a partial frame no longer than the frame (when the frame fits the buffer) -/
def WInv (s : St) : Prop :=
  s.fault = false ∧
  (s.expecting = 0 → ∀ hl, headerLen s.compat = some hl → s.buf.length ≤ hl) ∧
  (s.expecting ≠ 0 → s.expecting + padLen s.compat s.expecting ≤ BUFSZ →
    s.buf.length ≤ s.expecting + padLen s.compat s.expecting)

theorem hl_pos (c : Compat) (hl : Nat) (h : headerLen c = some hl) : 2 ≤ hl ∧ hl ≤ 4 := by
  cases c <;> simp [headerLen] at h <;> omega

theorem recvPayload_winv (s : St) (b : Base) (hf : s.fault = false)
    (hb : s.expecting + padLen s.compat s.expecting ≤ BUFSZ →
      s.buf.length ≤ s.expecting + padLen s.compat s.expecting) :
    WInv (recvPayload s b).2.1 := by
  have hw : WInv s := by
    refine ⟨hf, fun h0 hl hh => ?_, fun _ h => hb h⟩
    have : padLen s.compat s.expecting = 0 := by simp [padLen, h0]
    have := hb (by rw [this, h0]; decide)
    have := hl_pos _ _ hh
    omega
  unfold recvPayload
  simp only
  split
  · exact hw
  · rename_i hfit
    have hfit : s.expecting + padLen s.compat s.expecting ≤ BUFSZ := by omega
    have hlen := hb hfit
    have h1 : ¬ s.buf.length > s.expecting + padLen s.compat s.expecting := by omega
    have h2 : ¬ s.buf.length + (s.expecting + padLen s.compat s.expecting - s.buf.length) > BUFSZ := by omega
    simp only [h1, h2, ↓reduceIte]
    have hrl : (if s.expecting + padLen s.compat s.expecting - s.buf.length > 0
        then b.read (s.expecting + padLen s.compat s.expecting - s.buf.length) else ((0, []), b)).1.2.length ≤
        s.expecting + padLen s.compat s.expecting - s.buf.length := by
      split
      · exact read_len b _
      · simp
    rcases hr : (if s.expecting + padLen s.compat s.expecting - s.buf.length > 0
        then b.read (s.expecting + padLen s.compat s.expecting - s.buf.length) else ((0, []), b)) with ⟨⟨ret, bytes⟩, b1⟩
    rw [hr] at hrl
    simp only at hrl ⊢
    split
    · exact hw
    · split
      · refine ⟨hf, fun _ hl hh => by simp, fun h => by simp at h⟩
      · refine ⟨hf, fun h0 hl hh => ?_, fun _ _ => ?_⟩
        · simp only at h0 ⊢
          have : padLen s.compat s.expecting = 0 := by simp [padLen, h0]
          simp only [List.length_append]
          have := hl_pos _ _ hh
          omega
        · simp only [List.length_append]; omega

theorem hdr_fits (c : Compat) (buf buf' : Bytes) (e hl : Nat) (hh : headerLen c = some hl) (hlen : buf.length = hl)
    (h : hdr c buf = some (buf', e)) : buf'.length ≤ e + padLen c e := by
  cases c <;> simp only [headerLen, Option.some.injEq, reduceCtorEq] at hh <;> simp only [hdr, reduceCtorEq] at h
  · -- draft9
    obtain ⟨rfl, rfl⟩ := Prod.mk.inj (Option.some.inj h)
    split <;> omega
  · obtain ⟨rfl, rfl⟩ := Prod.mk.inj (Option.some.inj h)
    simp
  · split at h
    · simp at h
    · obtain ⟨rfl, rfl⟩ := Prod.mk.inj (Option.some.inj h)
      simp; omega
  · obtain ⟨rfl, rfl⟩ := Prod.mk.inj (Option.some.inj h)
    split <;> omega

theorem recvMessage_winv (s : St) (b : Base) (hw : WInv s) : WInv (recvMessage s b).2.1 := by
  obtain ⟨hf, h0c, hnc⟩ := hw
  by_cases h0 : s.expecting = 0
  · cases hh : headerLen s.compat with
    | none =>
      have : recvMessage s b = ((-1, none), s, b) := by
        cases hc : s.compat <;> simp [hc, headerLen] at hh
        simp [recvMessage, h0, hc, headerLen]
      rw [this]; exact ⟨hf, h0c, hnc⟩
    | some hl =>
      have hlen := h0c h0 hl hh
      rw [recvMessage_hdr s b hl h0 hh hlen]
      have hrl := read_len b (hl - s.buf.length)
      rcases hr : b.read (hl - s.buf.length) with ⟨⟨ret, bytes⟩, b1⟩
      rw [hr] at hrl
      simp only at hrl ⊢
      split
      · exact ⟨hf, h0c, hnc⟩
      · split
        · refine ⟨hf, fun _ hl' hh' => ?_, fun h => absurd h0 h⟩
          simp only at hh' ⊢
          rw [hh] at hh'; cases hh'
          simp only [List.length_append]; omega
        · rename_i hge
          simp only [List.length_append] at hge
          split
          · refine ⟨hf, fun _ hl' hh' => ?_, fun h => absurd h0 h⟩
            simp only at hh' ⊢
            rw [hh] at hh'; cases hh'
            simp only [List.length_append]; omega
          · rename_i buf' e hhdr
            apply recvPayload_winv
            · exact hf
            · intro _
              exact hdr_fits s.compat _ buf' e hl hh (by simp only [List.length_append]; omega) hhdr
  · have : recvMessage s b = recvPayload s b := by
      simp [recvMessage, h0]
    rw [this]
    exact recvPayload_winv s b hf (hnc h0)

theorem recv_winv (s : St) (b : Base) (hw : WInv s) : WInv (TurnTcp.recv s b).2.1 := by
  have := recvMessage_winv s b hw
  unfold TurnTcp.recv
  rcases hr : recvMessage s b with ⟨⟨len, msg⟩, s1, b1⟩
  rw [hr] at this
  simp only at this ⊢
  split
  · exact this
  · split
    · exact this
    · split <;> exact this

theorem pump_winv (fuel : Nat) (s : St) (b : Base) (o : Obs) (hw : WInv s) : WInv (pump turnTcpM fuel s b o).1 := by
  induction fuel generalizing s b o with
  | zero => exact hw
  | succ fuel ih =>
    simp only [pump]
    have h1 : WInv (turnTcpM.recv s b).2.1 := recv_winv s b hw
    split
    · exact ih _ _ _ h1
    · exact h1

/-! ### the byte-at-a-time reference decoder -/

inductive Ph where
  | run | stuck
  deriving DecidableEq, Repr

/-- abstract decoder state: bytes of the current partial header/frame, announced frame size,
    phase, frames delivered so far -/
structure A where
  buf : Bytes := []
  exp : Nat := 0
  ph  : Ph := .run
  out : List Bytes := []
  deriving DecidableEq, Repr

/-- a complete header `buf1` has just been received -/
def afterHdr (c : Compat) (a : A) (buf1 : Bytes) : A :=
  match hdr c buf1 with
  | none => { a with buf := buf1, ph := .stuck }
  | some (buf', e) =>
    if e + padLen c e > BUFSZ then { a with buf := buf', exp := e, ph := .stuck }
    else if buf'.length = e + padLen c e then
      -- a frame without payload is complete with its header (an empty frame is not handed up)
      { a with buf := [], exp := 0, out := if buf'.isEmpty then a.out else a.out ++ [buf'] }
    else { a with buf := buf', exp := e }

/-- consume one byte -/
def stepA (c : Compat) (hl : Nat) (a : A) (x : UInt8) : A :=
  match a.ph with
  | .run =>
    if a.exp = 0 then
      if (a.buf ++ [x]).length < hl then { a with buf := a.buf ++ [x] } else afterHdr c a (a.buf ++ [x])
    else
      if (a.buf ++ [x]).length = a.exp + padLen c a.exp then { a with buf := [], exp := 0, out := a.out ++ [a.buf ++ [x]] }
      else { a with buf := a.buf ++ [x] }
  | _ => a

def runA (c : Compat) (hl : Nat) (a : A) (bs : Bytes) : A := bs.foldl (stepA c hl) a

theorem runA_nil (c : Compat) (hl : Nat) (a : A) : runA c hl a [] = a := rfl

theorem runA_append (c : Compat) (hl : Nat) (a : A) (xs ys : Bytes) :
    runA c hl a (xs ++ ys) = runA c hl (runA c hl a xs) ys := by simp [runA]

theorem runA_halted (c : Compat) (hl : Nat) (a : A) (bs : Bytes) (h : a.ph ≠ .run) : runA c hl a bs = a := by
  induction bs with
  | nil => rfl
  | cons x xs ih =>
    simp only [runA, List.foldl_cons] at ih ⊢
    have : stepA c hl a x = a := by
      unfold stepA; cases hp : a.ph <;> simp_all
    rw [this]; exact ih

theorem runA_hdr_lt (c : Compat) (hl : Nat) (a : A) (bs : Bytes) (hp : a.ph = .run) (h0 : a.exp = 0)
    (h : a.buf.length + bs.length < hl) : runA c hl a bs = { a with buf := a.buf ++ bs } := by
  induction bs generalizing a with
  | nil => simp [runA]
  | cons x xs ih =>
    simp only [runA, List.foldl_cons]
    have hs : stepA c hl a x = { a with buf := a.buf ++ [x] } := by
      simp only [stepA, hp, h0, ↓reduceIte, List.length_append, List.length_cons, List.length_nil]
      simp only [List.length_cons] at h
      have : a.buf.length + (0 + 1) < hl := by omega
      simp [this]
    rw [hs]
    have := ih { a with buf := a.buf ++ [x] } hp h0 (by simp only [List.length_append, List.length_cons, List.length_nil] at h ⊢; omega)
    simp only [runA] at this
    rw [this]; simp

theorem runA_hdr_eq (c : Compat) (hl : Nat) (a : A) (bs : Bytes) (hp : a.ph = .run) (h0 : a.exp = 0)
    (hne : bs ≠ []) (h : a.buf.length + bs.length = hl) : runA c hl a bs = afterHdr c a (a.buf ++ bs) := by
  rcases List.eq_nil_or_concat bs with rfl | ⟨init, last, rfl⟩
  · exact absurd rfl hne
  · rw [List.concat_eq_append] at h ⊢
    rw [runA_append, runA_hdr_lt c hl a init hp h0 (by simp only [List.length_append, List.length_cons, List.length_nil] at h; omega)]
    simp only [runA, List.foldl_cons, List.foldl_nil, stepA, hp, h0, ↓reduceIte]
    have : ¬ (a.buf.length + (init.length + 1) < hl) := by
      simp only [List.length_append, List.length_cons, List.length_nil] at h; omega
    simp only [List.append_assoc, List.length_append, List.length_cons, List.length_nil, this, ↓reduceIte, afterHdr, h0, hp]

theorem runA_pay_lt (c : Compat) (hl : Nat) (a : A) (bs : Bytes) (hp : a.ph = .run) (h0 : a.exp ≠ 0)
    (h : a.buf.length + bs.length < a.exp + padLen c a.exp) : runA c hl a bs = { a with buf := a.buf ++ bs } := by
  induction bs generalizing a with
  | nil => simp [runA]
  | cons x xs ih =>
    simp only [runA, List.foldl_cons]
    have hs : stepA c hl a x = { a with buf := a.buf ++ [x] } := by
      simp only [stepA, hp, h0, ↓reduceIte, List.length_append, List.length_cons, List.length_nil]
      simp only [List.length_cons] at h
      have : ¬ (a.buf.length + (0 + 1) = a.exp + padLen c a.exp) := by omega
      simp [this]
    rw [hs]
    have := ih { a with buf := a.buf ++ [x] } hp h0 (by simp only [List.length_append, List.length_cons, List.length_nil] at h ⊢; omega)
    simp only [runA] at this
    rw [this]; simp

theorem runA_pay_eq (c : Compat) (hl : Nat) (a : A) (bs : Bytes) (hp : a.ph = .run) (h0 : a.exp ≠ 0)
    (hne : bs ≠ []) (h : a.buf.length + bs.length = a.exp + padLen c a.exp) :
    runA c hl a bs = { a with buf := [], exp := 0, out := a.out ++ [a.buf ++ bs] } := by
  rcases List.eq_nil_or_concat bs with rfl | ⟨init, last, rfl⟩
  · exact absurd rfl hne
  · rw [List.concat_eq_append] at h ⊢
    rw [runA_append, runA_pay_lt c hl a init hp h0 (by simp only [List.length_append, List.length_cons, List.length_nil] at h; omega)]
    simp only [runA, List.foldl_cons, List.foldl_nil, stepA, hp, h0, ↓reduceIte]
    have : (a.buf ++ (init ++ [last])).length = a.exp + padLen c a.exp := by
      simp only [List.length_append, List.length_cons, List.length_nil] at h ⊢; omega
    simp only [List.append_assoc, this, ↓reduceIte]

/-! ### one receive call = the reference decoder over the bytes it consumed -/

/-- reachable states in which the decoder is still running -/
def Good (hl : Nat) (s : St) : Prop :=
  s.fault = false ∧ headerLen s.compat = some hl ∧
  (s.expecting = 0 → s.buf.length < hl) ∧
  (s.expecting ≠ 0 → s.expecting + padLen s.compat s.expecting ≤ BUFSZ ∧
    s.buf.length < s.expecting + padLen s.compat s.expecting)

/-- states in which every later call fails without touching the buffer -/
def Stuck (hl : Nat) (s : St) : Prop :=
  s.fault = false ∧ headerLen s.compat = some hl ∧
  ((s.expecting ≠ 0 ∧ s.expecting + padLen s.compat s.expecting > BUFSZ) ∨
   (s.expecting = 0 ∧ s.buf.length = hl ∧ hdr s.compat s.buf = none))

def absOf (s : St) (out : List Bytes) : A := { buf := s.buf, exp := s.expecting, ph := .run, out := out }

theorem recvPayload_empty (s : St) (b : Base) (hf : s.fault = false)
    (hfit : s.expecting + padLen s.compat s.expecting ≤ BUFSZ)
    (hlt : s.buf.length < s.expecting + padLen s.compat s.expecting)
    (hb : Base.Healthy b) (hp : b.pend = []) : recvPayload s b = ((0, none), s, b) := by
  have h0 : ¬ (s.expecting + padLen s.compat s.expecting > BUFSZ) := by omega
  have h1 : ¬ s.buf.length > s.expecting + padLen s.compat s.expecting := by omega
  have h2 : ¬ s.buf.length + (s.expecting + padLen s.compat s.expecting - s.buf.length) > BUFSZ := by omega
  have hc : s.expecting + padLen s.compat s.expecting - s.buf.length > 0 := by omega
  simp only [recvPayload, h0, h1, h2, hc, ↓reduceIte, read_healthy_nil b hb hp]
  have h3 : ¬ (s.buf.length = s.expecting + padLen s.compat s.expecting) := by omega
  simp [h3]

/-- a frame without payload: nothing is read, the header is the frame -/
theorem recvPayload_zero (s : St) (b : Base)
    (hfit : s.expecting + padLen s.compat s.expecting ≤ BUFSZ)
    (heq : s.buf.length = s.expecting + padLen s.compat s.expecting) :
    recvPayload s b = (((s.buf.length : Int), some s.buf), { s with expecting := 0, buf := [] }, b) := by
  have h0 : ¬ (s.expecting + padLen s.compat s.expecting > BUFSZ) := by omega
  have h1 : ¬ s.buf.length > s.expecting + padLen s.compat s.expecting := by omega
  have h2 : ¬ s.buf.length + (s.expecting + padLen s.compat s.expecting - s.buf.length) > BUFSZ := by omega
  have hc : ¬ (s.expecting + padLen s.compat s.expecting - s.buf.length > 0) := by omega
  have hbe : (s.buf.length == s.expecting + padLen s.compat s.expecting) = true := by simp [heq]
  simp only [recvPayload, h0, h1, h2, hc, ↓reduceIte, show ¬ ((0 : Int) < 0) by decide, List.append_nil, hbe]

theorem recvPayload_data (s : St) (b : Base) (hf : s.fault = false)
    (hfit : s.expecting + padLen s.compat s.expecting ≤ BUFSZ)
    (hlt : s.buf.length < s.expecting + padLen s.compat s.expecting)
    (hb : Base.Healthy b) (hp : b.pend ≠ []) :
    recvPayload s b =
      (let j := min (s.expecting + padLen s.compat s.expecting - s.buf.length) b.pend.length
       if s.buf.length + j = s.expecting + padLen s.compat s.expecting then
         ((((s.buf ++ b.pend.take j).length : Int), some (s.buf ++ b.pend.take j)),
           { s with expecting := 0, buf := [] }, { b with pend := b.pend.drop j })
       else ((0, none), { s with buf := s.buf ++ b.pend.take j }, { b with pend := b.pend.drop j })) := by
  have h0 : ¬ (s.expecting + padLen s.compat s.expecting > BUFSZ) := by omega
  have h1 : ¬ s.buf.length > s.expecting + padLen s.compat s.expecting := by omega
  have h2 : ¬ s.buf.length + (s.expecting + padLen s.compat s.expecting - s.buf.length) > BUFSZ := by omega
  have hc : 0 < s.expecting + padLen s.compat s.expecting - s.buf.length := by omega
  have hc' : s.expecting + padLen s.compat s.expecting - s.buf.length > 0 := hc
  simp only [recvPayload, h0, h1, h2, hc', ↓reduceIte, read_healthy_cons b hb hp _ hc, show ¬ ((1 : Int) < 0) by decide]
  have hl : 0 < b.pend.length := List.length_pos_iff.mpr hp
  simp only [List.length_append, List.length_take, beq_iff_eq]
  have : min (min (s.expecting + padLen s.compat s.expecting - s.buf.length) b.pend.length) b.pend.length =
      min (s.expecting + padLen s.compat s.expecting - s.buf.length) b.pend.length := by omega
  simp only [this]

/-- the tail of `socket_recv_messages`: turn (len, message) into the reported result -/
def wrap (x : (Int × Option Bytes) × St × Base) : Res × St × Base :=
  if x.1.1 < 0 then ({ ret := -1 }, x.2.1, x.2.2)
  else if x.1.1 == 0 then ({ ret := 0 }, x.2.1, x.2.2)
  else match x.1.2 with
    | some m => ({ ret := 1, up := [{ data := m }] }, x.2.1, x.2.2)
    | none => ({ ret := 1 }, x.2.1, x.2.2)

theorem recv_eq_wrap (s : St) (b : Base) : TurnTcp.recv s b = wrap (recvMessage s b) := by
  unfold TurnTcp.recv wrap
  rcases recvMessage s b with ⟨⟨len, msg⟩, s1, b1⟩
  simp only
  split
  · rfl
  · split
    · rfl
    · cases msg <;> rfl

/-- the concrete result `r` of one call that consumed `k` pending bytes agrees with the reference
    decoder state `a'` reached over those bytes -/
def Agrees (hl : Nat) (s : St) (b : Base) (k : Nat) (out : List Bytes) (a' : A) (r : Res × St × Base) : Prop :=
  r.2.2 = { b with pend := b.pend.drop k } ∧ r.2.1.compat = s.compat ∧ r.2.1.buf = a'.buf ∧
  r.2.1.expecting = a'.exp ∧ r.2.1.fault = false ∧
  a'.out = out ++ r.1.up.map (·.data) ∧ r.1.down = [] ∧
  (a'.ph = .run → Good hl r.2.1 ∧ 0 ≤ r.1.ret) ∧ (a'.ph = .stuck → r.1.ret = -1 ∧ Stuck hl r.2.1)

theorem step_payload (hl : Nat) (s : St) (b : Base) (out : List Bytes) (hf : s.fault = false)
    (hh : headerLen s.compat = some hl) (he : s.expecting ≠ 0)
    (hfit : s.expecting + padLen s.compat s.expecting ≤ BUFSZ)
    (hlt : s.buf.length < s.expecting + padLen s.compat s.expecting)
    (hb : Base.Healthy b) (hp : b.pend ≠ []) :
    0 < min (s.expecting + padLen s.compat s.expecting - s.buf.length) b.pend.length ∧
    Agrees hl s b (min (s.expecting + padLen s.compat s.expecting - s.buf.length) b.pend.length) out
      (runA s.compat hl (absOf s out) (b.pend.take (min (s.expecting + padLen s.compat s.expecting - s.buf.length) b.pend.length)))
      (wrap (recvPayload s b)) := by
  have hl0 : 0 < b.pend.length := List.length_pos_iff.mpr hp
  have hj : 0 < min (s.expecting + padLen s.compat s.expecting - s.buf.length) b.pend.length := by omega
  refine ⟨hj, ?_⟩
  rw [recvPayload_data s b hf hfit hlt hb hp]
  generalize hjd : min (s.expecting + padLen s.compat s.expecting - s.buf.length) b.pend.length = j at hj ⊢
  have htl : (b.pend.take j).length = j := by simp only [List.length_take]; omega
  have hne : b.pend.take j ≠ [] := by
    intro h; rw [h] at htl; simp at htl; omega
  simp only
  by_cases hfull : s.buf.length + j = s.expecting + padLen s.compat s.expecting
  · simp only [hfull, ↓reduceIte]
    have hA := runA_pay_eq s.compat hl (absOf s out) (b.pend.take j) rfl he hne (by simp only [absOf, htl]; exact hfull)
    rw [hA]
    have hpos : ¬ (((s.buf ++ b.pend.take j).length : Int) < 0) := by omega
    have hnz : (((s.buf ++ b.pend.take j).length : Int) == 0) = false := by
      simp only [List.length_append, htl, beq_eq_false_iff_ne, ne_eq]; omega
    simp only [wrap, hpos, hnz, ↓reduceIte, Bool.false_eq_true]
    refine ⟨rfl, rfl, rfl, rfl, hf, by simp [absOf], rfl, fun _ => ⟨⟨hf, hh, fun _ => ?_, fun h => absurd rfl h⟩, by simp⟩,
      fun h => by simp [absOf] at h⟩
    have := hl_pos _ _ hh
    simp; omega
  · simp only [hfull, ↓reduceIte]
    have hA := runA_pay_lt s.compat hl (absOf s out) (b.pend.take j) rfl he (by simp only [absOf, htl]; omega)
    rw [hA]
    simp only [wrap, show ¬ ((0 : Int) < 0) by decide, ↓reduceIte, beq_self_eq_true]
    refine ⟨rfl, rfl, rfl, rfl, hf, by simp [absOf], rfl, fun _ => ⟨⟨hf, hh, fun h => absurd h he, fun _ => ⟨hfit, ?_⟩⟩, by simp⟩,
      fun h => by simp [absOf] at h⟩
    simp only [List.length_append, htl]; omega

theorem hdr_run (c : Compat) (buf buf' : Bytes) (e hl : Nat) (hh : headerLen c = some hl) (hlen : buf.length = hl)
    (h : hdr c buf = some (buf', e)) (hne : buf'.length ≠ e + padLen c e) :
    e ≠ 0 ∧ buf'.length < e + padLen c e := by
  have hle := hdr_fits c buf buf' e hl hh hlen h
  refine ⟨?_, by omega⟩
  intro h0
  subst h0
  have : padLen c 0 = 0 := by simp [padLen]
  omega

theorem wrap_neg (s : St) (b : Base) : wrap ((-1, none), s, b) = ({ ret := -1 }, s, b) := by simp [wrap]
theorem wrap_msg (n : Nat) (m : Bytes) (s : St) (b : Base) :
    wrap (((n : Int), some m), s, b) = if n = 0 then ({ ret := 0 }, s, b) else ({ ret := 1, up := [{ data := m }] }, s, b) := by
  by_cases h : n = 0
  · subst h; simp [wrap]
  · have h1 : ¬ ((n : Int) < 0) := by omega
    have h2 : ((n : Int) == 0) = false := by simp; omega
    simp [wrap, h1, h2, h]

theorem wrap_zero (s : St) (b : Base) : wrap ((0, none), s, b) = ({ ret := 0 }, s, b) := by simp [wrap]

/-- **one receive call** on a running decoder with bytes pending consumes a non-empty prefix of
    them and lands where the reference decoder lands -/
theorem recv_step (hl : Nat) (s : St) (b : Base) (out : List Bytes) (hg : Good hl s)
    (hb : Base.Healthy b) (hp : b.pend ≠ []) :
    ∃ k, 0 < k ∧ k ≤ b.pend.length ∧
      Agrees hl s b k out (runA s.compat hl (absOf s out) (b.pend.take k)) (TurnTcp.recv s b) := by
  obtain ⟨hf, hh, hg0, hgn⟩ := hg
  have hl0 : 0 < b.pend.length := List.length_pos_iff.mpr hp
  rw [recv_eq_wrap]
  by_cases he : s.expecting = 0
  · -- header phase
    have hlt := hg0 he
    rw [recvMessage_hdr s b hl he hh (by omega)]
    have hc : 0 < hl - s.buf.length := by omega
    rw [read_healthy_cons b hb hp _ hc]
    generalize hjd : min (hl - s.buf.length) b.pend.length = j
    have hj : 0 < j := by omega
    have hjle : j ≤ b.pend.length := by omega
    have htl : (b.pend.take j).length = j := by simp only [List.length_take]; omega
    have hne : b.pend.take j ≠ [] := by
      intro h; rw [h] at htl; simp at htl; omega
    simp only [show ¬ ((1 : Int) < 0) by decide, ↓reduceIte, List.length_append, htl]
    by_cases hpart : s.buf.length + j < hl
    · -- header still incomplete
      refine ⟨j, hj, hjle, ?_⟩
      simp only [hpart, ↓reduceIte, wrap_zero]
      rw [runA_hdr_lt s.compat hl (absOf s out) (b.pend.take j) rfl he (by simp only [absOf, htl]; exact hpart)]
      refine ⟨rfl, rfl, rfl, rfl, hf, by simp [absOf], rfl, fun _ => ⟨⟨hf, hh, fun _ => ?_, fun h => absurd he h⟩, by simp⟩,
        fun h => by simp [absOf] at h⟩
      simp only [List.length_append, htl]; exact hpart
    · -- header complete
      have hfull : s.buf.length + j = hl := by omega
      simp only [hpart, ↓reduceIte]
      have hA1 := runA_hdr_eq s.compat hl (absOf s out) (b.pend.take j) rfl he hne (by simp only [absOf, htl]; exact hfull)
      have hlen1 : (s.buf ++ b.pend.take j).length = hl := by simp only [List.length_append, htl]; exact hfull
      cases hhdr : hdr s.compat (s.buf ++ b.pend.take j) with
      | none =>
        refine ⟨j, hj, hjle, ?_⟩
        simp only [wrap_neg]
        rw [hA1]
        simp only [afterHdr, absOf, hhdr]
        refine ⟨rfl, rfl, rfl, rfl, hf, by simp, rfl, fun h => by simp at h, fun _ => ⟨rfl, hf, hh, Or.inr ⟨he, hlen1, hhdr⟩⟩⟩
      | some be =>
        obtain ⟨buf', e⟩ := be
        simp only
        by_cases hbig : e + padLen s.compat e > BUFSZ
        · -- frame larger than the buffer
          refine ⟨j, hj, hjle, ?_⟩
          have : recvPayload { s with buf := buf', expecting := e } { b with pend := b.pend.drop j } =
              ((-1, none), { s with buf := buf', expecting := e }, { b with pend := b.pend.drop j }) := by
            simp [recvPayload, hbig]
          rw [this, wrap_neg, hA1]
          simp only [afterHdr, absOf, hhdr, hbig, ↓reduceIte]
          have he0 : e ≠ 0 := by
            intro h; subst h; simp [padLen, BUFSZ] at hbig
          refine ⟨rfl, rfl, rfl, rfl, hf, by simp, rfl, fun h => by simp at h, fun _ => ⟨rfl, hf, hh, Or.inl ⟨he0, hbig⟩⟩⟩
        · by_cases hz : buf'.length = e + padLen s.compat e
          · -- a frame without payload: delivered at once (unless it is empty), nothing more is read
            refine ⟨j, hj, hjle, ?_⟩
            have hfit : e + padLen s.compat e ≤ BUFSZ := by omega
            rw [recvPayload_zero { s with buf := buf', expecting := e } { b with pend := b.pend.drop j } hfit hz, wrap_msg, hA1]
            have hl2 := hl_pos _ _ hh
            have hgood : Good hl { s with buf := [], expecting := 0 } :=
              ⟨hf, hh, fun _ => by simp only [List.length_nil]; omega, fun h => absurd rfl h⟩
            by_cases hemp : buf'.length = 0
            · have hnil : buf' = [] := List.length_eq_zero_iff.mp hemp
              rw [if_pos hemp]
              simp only [afterHdr, absOf, hhdr]
              rw [if_neg hbig, if_pos hz]
              simp only [hnil, List.isEmpty_nil, ↓reduceIte]
              exact ⟨rfl, rfl, rfl, rfl, hf, by simp, rfl, fun _ => ⟨hgood, by simp⟩, fun h => by simp at h⟩
            · have hie : buf'.isEmpty = false := by
                cases buf' with
                | nil => simp at hemp
                | cons x t => rfl
              rw [if_neg hemp]
              simp only [afterHdr, absOf, hhdr]
              rw [if_neg hbig, if_pos hz]
              simp only [hie, Bool.false_eq_true, ↓reduceIte]
              exact ⟨rfl, rfl, rfl, rfl, hf, by simp, rfl, fun _ => ⟨hgood, by simp⟩, fun h => by simp at h⟩
          · obtain ⟨he0, hlt2⟩ := hdr_run s.compat _ buf' e hl hh hlen1 hhdr hz
            have hfit : e + padLen s.compat e ≤ BUFSZ := by omega
            have hA1' : runA s.compat hl (absOf s out) (b.pend.take j) =
                absOf { s with buf := buf', expecting := e } out := by
              rw [hA1]; simp [afterHdr, absOf, hhdr, hbig, hz]
            have hb1 : Base.Healthy { b with pend := b.pend.drop j } := hb
            by_cases hrest : b.pend.drop j = []
            · refine ⟨j, hj, hjle, ?_⟩
              rw [recvPayload_empty { s with buf := buf', expecting := e } { b with pend := b.pend.drop j } hf hfit hlt2 hb1 hrest,
                wrap_zero, hA1']
              refine ⟨rfl, rfl, rfl, rfl, hf, by simp [absOf], rfl,
                fun _ => ⟨⟨hf, hh, fun h => absurd h he0, fun _ => ⟨hfit, hlt2⟩⟩, by simp⟩, fun h => by simp [absOf] at h⟩
            · obtain ⟨hj2, hag⟩ := step_payload hl { s with buf := buf', expecting := e } { b with pend := b.pend.drop j } out
                hf hh he0 hfit hlt2 hb1 hrest
              simp only at hj2 hag
              generalize hj2d : min (e + padLen s.compat e - buf'.length) (b.pend.drop j).length = j2 at hj2 hag
              have hj2le : j2 ≤ (b.pend.drop j).length := by omega
              refine ⟨j + j2, by omega, by simp only [List.length_drop] at hj2le; omega, ?_⟩
              have htk : b.pend.take (j + j2) = b.pend.take j ++ (b.pend.drop j).take j2 := List.take_add
              rw [htk, runA_append, hA1']
              obtain ⟨a1, a2, a3, a4, a5, a6, a7, a8, a9⟩ := hag
              refine ⟨?_, a2, a3, a4, a5, a6, a7, a8, a9⟩
              rw [a1]; simp [List.drop_drop, Nat.add_comm]
  · -- payload phase
    obtain ⟨hfit, hlt⟩ := hgn he
    have : recvMessage s b = recvPayload s b := by simp [recvMessage, he]
    rw [this]
    obtain ⟨hj, hag⟩ := step_payload hl s b out hf hh he hfit hlt hb hp
    exact ⟨_, hj, by omega, hag⟩

theorem stuck_recv (hl : Nat) (s : St) (b : Base) (h : Stuck hl s) :
    (TurnTcp.recv s b).1 = { ret := -1 } ∧ (TurnTcp.recv s b).2.1 = s := by
  obtain ⟨hf, hh, h | h⟩ := h
  · obtain ⟨he, hbig⟩ := h
    have : recvMessage s b = ((-1, none), s, b) := by
      simp [recvMessage, he, recvPayload, hbig]
    rw [recv_eq_wrap, this, wrap_neg]; exact ⟨rfl, rfl⟩
  · obtain ⟨he, hlen, hhdr⟩ := h
    rw [recv_eq_wrap, recvMessage_hdr s b hl he hh (by omega)]
    have hrl := read_len b (hl - s.buf.length)
    rcases hr : b.read (hl - s.buf.length) with ⟨⟨ret, bytes⟩, b1⟩
    rw [hr] at hrl
    simp only at hrl ⊢
    have hb : bytes = [] := by
      have : bytes.length = 0 := by omega
      exact List.length_eq_zero_iff.mp this
    subst hb
    by_cases hneg : ret < 0
    · simp [hneg, wrap]
    · simp only [hneg, ↓reduceIte, List.append_nil, hlen, Nat.lt_irrefl, hhdr]
      rw [wrap_neg]
      exact ⟨rfl, by cases s; simp⟩

theorem good_recv_empty (hl : Nat) (s : St) (b : Base) (hg : Good hl s) (hb : Base.Healthy b) (hp : b.pend = []) :
    TurnTcp.recv s b = ({ ret := 0 }, s, b) := by
  obtain ⟨hf, hh, hg0, hgn⟩ := hg
  rw [recv_eq_wrap]
  by_cases he : s.expecting = 0
  · have hlt := hg0 he
    rw [recvMessage_hdr s b hl he hh (by omega), read_healthy_nil b hb hp]
    simp only [show ¬ ((0 : Int) < 0) by decide, ↓reduceIte, List.append_nil, hlt]
    rw [wrap_zero]
  · obtain ⟨hfit, hlt⟩ := hgn he
    have : recvMessage s b = recvPayload s b := by simp [recvMessage, he]
    rw [this, recvPayload_empty s b hf hfit hlt hb hp, wrap_zero]

theorem msgs_add (o : Obs) (r : Res) : (o.add r).msgs = o.msgs ++ r.up.map (·.data) := by
  simp [Obs.add, Obs.msgs]

def errd (o : Obs) : Bool := o.rets.any (fun r => decide (r < 0))

theorem errd_add (o : Obs) (r : Res) : errd (o.add r) = (errd o || decide (r.ret < 0)) := by
  simp [errd, Obs.add, List.any_append]

/-- the receive loop over everything pending = the reference decoder over the same bytes -/
theorem pump_run (hl : Nat) : ∀ (fuel : Nat) (s : St) (b : Base) (o : Obs), Good hl s → Base.Healthy b →
    b.pend.length < fuel →
    (pump turnTcpM fuel s b o).1.compat = s.compat ∧
    (pump turnTcpM fuel s b o).1.buf = (runA s.compat hl (absOf s o.msgs) b.pend).buf ∧
    (pump turnTcpM fuel s b o).1.expecting = (runA s.compat hl (absOf s o.msgs) b.pend).exp ∧
    (pump turnTcpM fuel s b o).1.fault = false ∧
    (pump turnTcpM fuel s b o).2.2.msgs = (runA s.compat hl (absOf s o.msgs) b.pend).out ∧
    (pump turnTcpM fuel s b o).2.2.down = o.down ∧
    ((runA s.compat hl (absOf s o.msgs) b.pend).ph = .run →
      Good hl (pump turnTcpM fuel s b o).1 ∧ (pump turnTcpM fuel s b o).2.1 = { b with pend := [] } ∧
      errd (pump turnTcpM fuel s b o).2.2 = errd o) ∧
    ((runA s.compat hl (absOf s o.msgs) b.pend).ph = .stuck →
      Stuck hl (pump turnTcpM fuel s b o).1 ∧ errd (pump turnTcpM fuel s b o).2.2 = true) := by
  intro fuel
  induction fuel with
  | zero => intro s b o _ _ h; omega
  | succ fuel ih =>
    intro s b o hg hb hlen
    have hrecv : turnTcpM.recv s b = TurnTcp.recv s b := rfl
    by_cases hp : b.pend = []
    · -- nothing pending: one call, would block
      have h1 := good_recv_empty hl s b hg hb hp
      have hpump : pump turnTcpM (fuel + 1) s b o = (s, b, o.add { ret := 0 }) := by
        simp [pump, hrecv, h1, turnTcpM, hp]
      rw [hpump, hp, runA_nil]
      refine ⟨rfl, rfl, rfl, hg.1, ?_, ?_, ?_, ?_⟩
      · simp [msgs_add, absOf]
      · simp only [Obs.add, List.append_nil]
      · intro _
        refine ⟨hg, by cases b; simp_all, ?_⟩
        simp [errd_add]
      · intro h; simp [absOf] at h
    · obtain ⟨k, hk0, hkle, hag⟩ := recv_step hl s b o.msgs hg hb hp
      have hsplit : b.pend = b.pend.take k ++ b.pend.drop k := (List.take_append_drop k b.pend).symm
      obtain ⟨a1, a2, a3, a4, a5, a6, a7, a8, a9⟩ := hag
      have hrun : runA s.compat hl (absOf s o.msgs) b.pend =
          runA s.compat hl (runA s.compat hl (absOf s o.msgs) (b.pend.take k)) (b.pend.drop k) := by
        conv => lhs; rw [hsplit]
        rw [runA_append]
      generalize hA1 : runA s.compat hl (absOf s o.msgs) (b.pend.take k) = A1 at *
      rcases hR : TurnTcp.recv s b with ⟨res, s1, b1⟩
      rw [hR] at a1 a2 a3 a4 a5 a6 a7 a8 a9
      simp only at a1 a2 a3 a4 a5 a6 a7 a8 a9
      cases hph : A1.ph with
      | stuck =>
        obtain ⟨hret, hst⟩ := a9 hph
        have hpump : pump turnTcpM (fuel + 1) s b o = (s1, b1, o.add res) := by
          simp [pump, hrecv, hR, turnTcpM, hret]
        rw [hpump, hrun, runA_halted s.compat hl A1 _ (by rw [hph]; decide)]
        refine ⟨a2, a3, a4, a5, ?_, ?_, ?_, ?_⟩
        · rw [msgs_add, a6]
        · simp only [Obs.add, a7, List.append_nil]
        · intro h; rw [hph] at h; cases h
        · intro _; exact ⟨hst, by simp [errd_add, hret]⟩
      | run =>
        obtain ⟨hg1, hret⟩ := a8 hph
        have hnneg : ¬ res.ret < 0 := by omega
        have hA1eq : A1 = absOf s1 (o.add res).msgs := by
          cases A1 with
          | mk bf ex ph ot =>
            simp only at a3 a4 a6 hph
            simp only [absOf, msgs_add, A.mk.injEq]
            exact ⟨a3.symm, a4.symm, hph, a6⟩
        by_cases hrest : b.pend.drop k = []
        · have hpump : pump turnTcpM (fuel + 1) s b o = (s1, b1, o.add res) := by
            simp [pump, hrecv, hR, turnTcpM, hnneg, a1, hrest]
          rw [hpump, hrun, hrest, runA_nil]
          refine ⟨a2, a3, a4, a5, ?_, ?_, ?_, ?_⟩
          · rw [msgs_add, a6]
          · simp only [Obs.add, a7, List.append_nil]
          · intro _
            refine ⟨hg1, by rw [a1, hrest], ?_⟩
            simp [errd_add, hnneg]
          · intro h; rw [hph] at h; cases h
        · have hb1e : b1.pend.isEmpty = false := by
            rw [a1]
            cases hpp : b.pend.drop k with
            | nil => exact absurd hpp hrest
            | cons x t => rfl
          have hpump : pump turnTcpM (fuel + 1) s b o = pump turnTcpM fuel s1 b1 (o.add res) := by
            simp [pump, hrecv, hR, turnTcpM, hnneg, hb1e]
          rw [hpump]
          have hb1 : Base.Healthy b1 := by rw [a1]; exact hb
          have hlen1 : b1.pend.length < fuel := by
            rw [a1]; simp only [List.length_drop]; omega
          have hpend1 : b1.pend = b.pend.drop k := by rw [a1]
          have := ih s1 b1 (o.add res) hg1 hb1 hlen1
          rw [a2, ← hA1eq, hpend1, ← hrun] at this
          obtain ⟨i1, i2, i3, i4, i5, i6, i7, i8⟩ := this
          refine ⟨i1, i2, i3, i4, i5, ?_, ?_, i8⟩
          · rw [i6]; simp only [Obs.add, a7, List.append_nil]
          · intro h
            obtain ⟨j1, j2, j3⟩ := i7 h
            refine ⟨j1, by rw [j2, a1], ?_⟩
            rw [j3]; simp [errd_add, hnneg]

/-! ### sessions -/

/-- what C17 compares between two deliveries of one stream: final layer state, messages handed
    upward (with their boundaries), bytes written downward, whether an error was reported -/
structure TOut where
  st      : St
  msgs    : List Bytes
  wire    : Bytes
  errored : Bool
  deriving DecidableEq

def tOut (x : St × Base × Obs) : TOut := { st := x.1, msgs := x.2.2.msgs, wire := x.2.2.wire, errored := errd x.2.2 }

def FInv (hl : Nat) (c : Compat) (pre : Bytes) (x : St × Base × Obs) : Prop :=
  x.1.compat = c ∧ x.1.buf = (runA c hl {} pre).buf ∧ x.1.expecting = (runA c hl {} pre).exp ∧ x.1.fault = false ∧
  x.2.2.msgs = (runA c hl {} pre).out ∧ x.2.2.down = [] ∧
  ((runA c hl {} pre).ph = .run → Good hl x.1 ∧ Base.Healthy x.2.1 ∧ x.2.1.pend = [] ∧ errd x.2.2 = false) ∧
  ((runA c hl {} pre).ph = .stuck → Stuck hl x.1 ∧ errd x.2.2 = true)

theorem feed_inv (hl : Nat) (c : Compat) (pre ch : Bytes) (x : St × Base × Obs) (h : FInv hl c pre x) :
    FInv hl c (pre ++ ch) (feed turnTcpM (fun _ => 0) x ch) := by
  obtain ⟨s, b, o⟩ := x
  obtain ⟨h1, h2, h3, h4, h5, h6, h7, h8⟩ := h
  simp only at h1 h2 h3 h4 h5 h6 h7 h8
  simp only [feed]
  cases hph : (runA c hl {} pre).ph with
  | stuck =>
    obtain ⟨hst, he⟩ := h8 hph
    have hr := stuck_recv hl s (b.push ch) hst
    rcases hR : TurnTcp.recv s (b.push ch) with ⟨res, s1, b1⟩
    rw [hR] at hr
    simp only at hr
    obtain ⟨hr1, hr2⟩ := hr
    subst hr1 hr2
    have hpump : pump turnTcpM (feedFuel (b.push ch) 0) s1 (b.push ch) o = (s1, b1, o.add { ret := -1 }) := by
      have hrecv : turnTcpM.recv s1 (b.push ch) = TurnTcp.recv s1 (b.push ch) := rfl
      simp [feedFuel, pump, hrecv, hR, turnTcpM]
    rw [hpump]
    unfold FInv
    rw [runA_append, runA_halted c hl _ ch (by rw [hph]; decide)]
    refine ⟨h1, h2, h3, h4, ?_, ?_, ?_, ?_⟩
    · simp [msgs_add, h5]
    · simp only [Obs.add, h6, List.append_nil]
    · intro h; rw [hph] at h; cases h
    · intro _; exact ⟨hst, by simp [errd_add]⟩
  | run =>
    obtain ⟨hg, hb, hpe, he⟩ := h7 hph
    have hA : absOf s o.msgs = runA c hl {} pre := by
      rcases hAA : runA c hl {} pre with ⟨bf, ex, ph, ot⟩
      rw [hAA] at h2 h3 h5 hph
      simp only at h2 h3 h5 hph
      simp only [absOf, A.mk.injEq]
      exact ⟨h2, h3, hph.symm, h5⟩
    have hb' : Base.Healthy (b.push ch) := hb
    have hpend : (b.push ch).pend = ch := by simp [Base.push, hpe]
    have hlen : (b.push ch).pend.length < feedFuel (b.push ch) 0 := by simp only [feedFuel]; omega
    have hrunEq : runA s.compat hl (absOf s o.msgs) (b.push ch).pend = runA c hl {} (pre ++ ch) := by
      rw [h1, hA, hpend, runA_append]
    have := pump_run hl (feedFuel (b.push ch) 0) s (b.push ch) o hg hb' hlen
    rw [hrunEq] at this
    obtain ⟨p1, p2, p3, p4, p5, p6, p7, p8⟩ := this
    refine ⟨by rw [p1, h1], p2, p3, p4, p5, by rw [p6, h6], ?_, ?_⟩
    · intro h
      obtain ⟨q1, q2, q3⟩ := p7 h
      refine ⟨q1, by rw [q2]; exact hb, by rw [q2], by rw [q3, he]⟩
    · exact p8

theorem feedAll_inv (hl : Nat) (c : Compat) (cs : List Bytes) : ∀ (pre : Bytes) (x : St × Base × Obs),
    FInv hl c pre x →
    FInv hl c (pre ++ cs.flatten) (cs.foldl (feed turnTcpM (fun _ => 0)) x) := by
  induction cs with
  | nil => intro pre x h; simpa using h
  | cons ch cs ih =>
    intro pre x h
    simp only [List.flatten_cons, List.foldl_cons]
    rw [← List.append_assoc]
    exact ih _ _ (feed_inv hl c pre ch x h)

theorem init_inv (hl : Nat) (c : Compat) (hh : headerLen c = some hl) :
    FInv hl c [] (({ compat := c } : St), ({} : Base), ({} : Obs)) := by
  have := hl_pos c hl hh
  refine ⟨rfl, rfl, rfl, rfl, rfl, rfl, fun _ => ⟨⟨rfl, hh, fun _ => by simp; omega, fun h => by simp at h⟩, ⟨rfl, rfl, rfl⟩, rfl, rfl⟩,
    fun h => by simp [runA] at h⟩

/-- the outcome is a function of the reference decoder's final state -/
theorem tOut_of_inv (hl : Nat) (c : Compat) (s : Bytes) (x : St × Base × Obs) (h : FInv hl c s x) :
    tOut x = { st := { compat := c, buf := (runA c hl {} s).buf, expecting := (runA c hl {} s).exp, fault := false },
               msgs := (runA c hl {} s).out, wire := [], errored := decide ((runA c hl {} s).ph = .stuck) } := by
  obtain ⟨st, b, o⟩ := x
  obtain ⟨h1, h2, h3, h4, h5, h6, h7, h8⟩ := h
  simp only at h1 h2 h3 h4 h5 h6 h7 h8
  simp only [tOut, TOut.mk.injEq]
  refine ⟨by cases st; simp_all, h5, by simp [Obs.wire, h6], ?_⟩
  cases hph : (runA c hl {} s).ph with
  | run => simp [(h7 hph).2.2.2]
  | stuck => simp [(h8 hph).2]

theorem msn_feed (x : St × Base × Obs) (ch : Bytes) (hc : x.1.compat = .msn) (he : x.1.expecting = 0) :
    (feed turnTcpM (fun _ => 0) x ch).1 = x.1 ∧ (feed turnTcpM (fun _ => 0) x ch).2.2.msgs = x.2.2.msgs ∧
    (feed turnTcpM (fun _ => 0) x ch).2.2.down = x.2.2.down ∧ errd (feed turnTcpM (fun _ => 0) x ch).2.2 = true := by
  obtain ⟨s, b, o⟩ := x
  simp only at hc he
  have hR : TurnTcp.recv s (b.push ch) = ({ ret := -1 }, s, b.push ch) := by
    rw [recv_eq_wrap]
    have : recvMessage s (b.push ch) = ((-1, none), s, b.push ch) := by simp [recvMessage, he, hc, headerLen]
    rw [this, wrap_neg]
  have hpump : pump turnTcpM (feedFuel (b.push ch) 0) s (b.push ch) o = (s, b.push ch, o.add { ret := -1 }) := by
    have hrecv : turnTcpM.recv s (b.push ch) = TurnTcp.recv s (b.push ch) := rfl
    simp [feedFuel, pump, hrecv, hR, turnTcpM]
  have hf : feed turnTcpM (fun _ => 0) (s, b, o) ch = (s, b.push ch, o.add { ret := -1 }) := hpump
  rw [hf]
  exact ⟨rfl, by simp [msgs_add], by simp [Obs.add], by simp [errd_add]⟩

theorem msn_feedAll (cs : List Bytes) : ∀ (x : St × Base × Obs), x.1.compat = .msn → x.1.expecting = 0 →
    (cs.foldl (feed turnTcpM (fun _ => 0)) x).1 = x.1 ∧ (cs.foldl (feed turnTcpM (fun _ => 0)) x).2.2.msgs = x.2.2.msgs ∧
    (cs.foldl (feed turnTcpM (fun _ => 0)) x).2.2.down = x.2.2.down ∧
    (cs ≠ [] → errd (cs.foldl (feed turnTcpM (fun _ => 0)) x).2.2 = true) ∧
    (errd x.2.2 = true → errd (cs.foldl (feed turnTcpM (fun _ => 0)) x).2.2 = true) := by
  induction cs with
  | nil => intro x _ _; simp
  | cons ch cs ih =>
    intro x hc he
    obtain ⟨f1, f2, f3, f4⟩ := msn_feed x ch hc he
    have := ih (feed turnTcpM (fun _ => 0) x ch) (by rw [f1]; exact hc) (by rw [f1]; exact he)
    obtain ⟨i1, i2, i3, i4, i5⟩ := this
    simp only [List.foldl_cons]
    refine ⟨by rw [i1, f1], by rw [i2, f2], by rw [i3, f3], fun _ => i5 f4, fun _ => i5 f4⟩


end Nice.Props.C17
