/-
  C08 end-to-end (receive side), part 9: `recv` returns the next bytes of the ghost stream and keeps the invariant (with
  the read count advanced); end-of-stream consequences of the invariant; ghost-instrumented histories.
-/
import Nice.Proofs.PTcpStreamOps
import Nice.Props.C08
namespace Nice.Proofs.PTcpStream
open Nice.PTcp Nice.Gen Nice.Proofs.PTcp Std.Do

set_option maxRecDepth 16000

section
variable (W : List UInt8) (D n : Nat)

/-- effect of `pseudo_tcp_fifo_read` on the stream-related part of the invariant -/
theorem read_rcore (s : Sock) (len : Nat) (bytes : Array UInt8) (rb : Fifo) (hc : RCore W D n s)
    (h : s.rbuf.read len = .ok (bytes, rb)) :
    RCore W D (n + bytes.size) { s with rbuf := rb } ∧ n + bytes.size ≤ W.length ∧
      (∀ j, j < bytes.size → bytes[j]?.getD 0 = W.getD (n + j) 0) ∧ bytes.size = min len s.rbuf.data := by
  have ⟨hs, hg, hd, hb⟩ := Nice.Props.C08.C08_fifo_read_takes s.rbuf rb len bytes hc.fok.1 hc.fok.2 h
  have ⟨hf, hbuf, _⟩ := read_ok hc.fok.1 hc.fok.2 h
  have hpre := hc.pre
  have hsz : rb.buf.size = s.rbuf.buf.size := by rw [hbuf]
  refine ⟨⟨⟨hf, by rw [hsz]; exact hc.fok.2⟩, ?_, ?_, ?_, hc.finp⟩, by omega, ?_, hs⟩
  · show n + bytes.size + rb.data ≤ _; omega
  · intro i hi
    show byteAt rb i = _
    have hi' : i < rb.data := hi
    rw [hb i, hc.com _ (by omega)]
    congr 1; omega
  · rcases hc.sync with h1 | h1
    · exact Or.inl h1
    · right
      show Sync W D (n + bytes.size) rb s.rcv_nxt s.rlist
      refine ⟨?_, ?_⟩
      · rcases h1.1 with a | a
        · left; omega
        · right; exact ⟨a.1, by omega⟩
      · intro r hr
        have hr' := h1.2 r hr
        refine ⟨hr'.1, ?_⟩
        intro q q1 q2 q3
        have ⟨b1, b2⟩ := hr'.2 q q1 q2 q3
        have hq : D + n + bytes.size ≤ q := by
          rcases h1.1 with a | a <;> omega
        refine ⟨by rw [hsz]; omega, ?_⟩
        rw [hb, ← b2]
        congr 1; omega
  · intro j hj
    rw [hg j hj, hc.com j (by omega)]

/-- **`recv`** returns the next `bytes.size` bytes of the ghost stream and keeps the invariant with the read count
    advanced by `bytes.size` -/
theorem recv_rinv (s : Sock) (len : Nat) (clk : UInt32) (ret : Int) (bytes : Array UInt8) (s' : Sock)
    (hi : RInv W D n s) (h : recv s len clk = .ok (ret, bytes, s')) :
    RInv W D (n + bytes.size) s' ∧ n + bytes.size ≤ W.length ∧
      (∀ j, j < bytes.size → bytes[j]?.getD 0 = W.getD (n + j) 0) := by
  have hiS := hi.toS
  have hpre := hiS.core.pre
  have triv : ∀ s1 : Sock, RInv W D n s1 → RInv W D (n + (#[] : Array UInt8).size) s1 ∧
      n + (#[] : Array UInt8).size ≤ W.length ∧
      (∀ j, j < (#[] : Array UInt8).size → (#[] : Array UInt8)[j]?.getD 0 = W.getD (n + j) 0) := by
    intro s1 h1
    exact ⟨h1, by show n + 0 ≤ _; omega, fun j hj => absurd hj (by show ¬ j < 0; omega)⟩
  unfold recv at h
  split at h
  · cases h; exact triv _ hi
  · split at h
    · cases h; exact triv _ hi
    · split at h
      · cases h; exact triv _ (by rinv')
      · split at h
        · cases h; exact triv _ hi
        · obtain ⟨⟨bs, rb⟩, hrd, h⟩ := bind_ok h
          have ⟨hc1, hle, hby, hsz⟩ := read_rcore W D n s len bs rb hiS.core hrd
          have k1 : RInvS W D (n + bs.size) s.state { s with rbuf := rb } :=
            ⟨hc1, hiS.ph, hiS.fin4, Or.inl rfl⟩
          simp only at h
          split at h
          · rename_i hz
            simp only [pure, Except.pure] at h
            cases h
            have hz0 : bs.size = 0 := by
              have := (Bool.and_eq_true _ _).mp hz
              simpa using this.1
            refine ⟨?_, by show n + 0 ≤ _; omega, fun j hj => absurd hj (by show ¬ j < 0; omega)⟩
            rw [hz0] at k1
            show RInv W D (n + 0) _
            exact RInvS.toInv
              ⟨⟨k1.core.fok, k1.core.pre, k1.core.com, k1.core.sync, k1.core.finp⟩, k1.ph, k1.fin4, k1.stk⟩
          · split at h
            · obtain ⟨s3, h3, h⟩ := bind_ok h
              have k2 : RInvS W D (n + bs.size) s.state
                  { s with rbuf := rb, rcv_wnd := UInt32.ofNat rb.getWriteRemaining } :=
                ⟨⟨k1.core.fok, k1.core.pre, k1.core.com, k1.core.sync, k1.core.finp⟩, k1.ph, k1.fin4, k1.stk⟩
              have k3 : RInv W D (n + bs.size) s3 := by
                split at h3
                · exact (of_triple_pre (attemptSend_rspec W D (n + bs.size) s.state _ _ clk) k2 s3 h3).toInv
                · cases h3; exact k2.toInv
              simp only [pure, Except.pure] at h
              cases h
              exact ⟨k3, hle, hby⟩
            · simp only [pure, Except.pure] at h
              cases h
              exact ⟨k1.toInv, hle, hby⟩

/-- **(E), state form**: in a FIN-received state (other than CLOSED, which is also the result of every local or error
    closure) the whole stream has been committed: `rcv_nxt` is one past the FIN position and what `recv` has not yet
    returned is exactly what is still buffered. -/
theorem fin4_all_committed (s : Sock) (hi : RInv W D n s) (hF : Fin4 s.state) :
    s.rcv_nxt.toNat = D + W.length + 1 ∧ n + s.rbuf.data = W.length := by
  have hiS := hi.toS
  have ⟨hfa, hnx⟩ := hiS.fin4 hF
  have hpre := hiS.core.pre
  refine ⟨hnx, ?_⟩
  rcases hiS.core.sync with h1 | h1
  · rw [hfa] at h1; cases h1.1
  · rcases h1.1 with a | a
    · omega
    · exact a.2

end

/-! ### ghost-instrumented histories -/

/-- the constraint on the environment: every packet handed to `notify_packet` decodes to an honest segment -/
def OpOk (W : List UInt8) (D : Nat) : Op → Prop
  | .packet p => PktOk W D p
  | _ => True

/-- `step` that also returns the bytes `recv` copied to the application (empty for every other operation) -/
def stepG (s : Sock) (clk : UInt32) : Op → R (Sock × Array UInt8)
  | .recv k => do let (_, b, s) ← recv s k clk; pure (s, b)
  | op => do let s ← step s clk op; pure (s, #[])

/-- `run` that also accumulates everything `recv` has returned -/
def runG (s : Sock) (got : List UInt8) : List (UInt32 × Op) → R (Sock × List UInt8)
  | [] => pure (s, got)
  | (clk, op) :: rest => do let (s, b) ← stepG s clk op; runG s (got ++ b.toList) rest

/-- erasure: the ghost-instrumented step is `step` on the socket -/
theorem erase_aux (x : R Sock) : (x >>= fun s => pure (s, (#[] : Array UInt8))).map (·.1) = x := by
  cases x <;> rfl

theorem stepG_erase (s : Sock) (clk : UInt32) (op : Op) : (stepG s clk op).map (·.1) = step s clk op := by
  cases op
  case recv k =>
    show ((recv s k clk >>= fun r => pure (r.2.2, r.2.1)) : R (Sock × Array UInt8)).map (·.1) =
      (recv s k clk >>= fun r => pure r.2.2)
    cases recv s k clk <;> rfl
  all_goals exact erase_aux _

theorem runG_erase (s : Sock) (got : List UInt8) (ops : List (UInt32 × Op)) :
    (runG s got ops).map (·.1) = run s ops := by
  induction ops generalizing s got with
  | nil => rfl
  | cons x rest ih =>
    obtain ⟨clk, op⟩ := x
    simp only [runG, run]
    rw [← stepG_erase]
    cases h : stepG s clk op with
    | error e => rfl
    | ok v => exact ih v.1 _

theorem take_append_next (W : List UInt8) (n : Nat) (b : Array UInt8) (hle : n + b.size ≤ W.length)
    (hb : ∀ j, j < b.size → b[j]?.getD 0 = W.getD (n + j) 0) : W.take n ++ b.toList = W.take (n + b.size) := by
  apply List.ext_getElem?
  intro i
  by_cases h1 : i < n
  · rw [List.getElem?_append_left (by rw [List.length_take]; omega), List.getElem?_take, List.getElem?_take]
    simp only [h1, if_true]
    have : i < n + b.size := by omega
    simp only [this, if_true]
  · rw [List.getElem?_append_right (by rw [List.length_take]; omega), List.length_take,
      Nat.min_eq_left (by omega), List.getElem?_take]
    by_cases h2 : i < n + b.size
    · simp only [h2, if_true]
      have h3 := hb (i - n) (by omega)
      have e : n + (i - n) = i := by omega
      rw [e] at h3
      have hi : i < W.length := by omega
      rw [Array.getElem?_toList]
      rw [List.getD_eq_getElem?_getD, List.getElem?_eq_getElem hi] at h3
      have hj : i - n < b.size := by omega
      rw [Array.getElem?_eq_getElem hj] at h3 ⊢
      rw [List.getElem?_eq_getElem hi]
      simp only [Option.getD_some] at h3
      rw [h3]
    · simp only [h2, if_false]
      rw [Array.getElem?_toList, Array.getElem?_eq_none (by omega)]

section
variable (W : List UInt8) (D n : Nat)

theorem stepG_rinv (hB : D + W.length + 2 < 2 ^ 31) (s : Sock) (clk : UInt32) (op : Op) (s' : Sock) (b : Array UInt8)
    (hi : RInv W D n s) (hop : OpOk W D op) (h : stepG s clk op = .ok (s', b)) :
    RInv W D (n + b.size) s' ∧ n + b.size ≤ W.length ∧ (∀ j, j < b.size → b[j]?.getD 0 = W.getD (n + j) 0) := by
  have hpre := hi.toS.core.pre
  have triv : ∀ s1 : Sock, RInv W D n s1 → RInv W D (n + (#[] : Array UInt8).size) s1 ∧
      n + (#[] : Array UInt8).size ≤ W.length ∧
      (∀ j, j < (#[] : Array UInt8).size → (#[] : Array UInt8)[j]?.getD 0 = W.getD (n + j) 0) := by
    intro s1 h1
    exact ⟨h1, by show n + 0 ≤ _; omega, fun j hj => absurd hj (by show ¬ j < 0; omega)⟩
  cases op with
  | recv k =>
    simp only [stepG] at h
    obtain ⟨⟨ret, bs, s1⟩, h1, h⟩ := bind_ok h
    simp only [pure, Except.pure] at h
    cases h
    exact recv_rinv W D n s k clk ret b s' hi h1
  | packet p =>
    simp only [stepG, step] at h
    obtain ⟨s1, h1, h⟩ := bind_ok h
    obtain ⟨⟨r1, r2⟩, h2, h1⟩ := bind_ok h1
    simp only [pure, Except.pure] at h h1
    cases h; cases h1
    exact triv _ (notifyPacket_rinv W D n hB p hop s clk _ hi h2)
  | setRcvBuf v =>
    simp only [stepG, step] at h
    obtain ⟨s1, h1, h⟩ := bind_ok h
    simp only [pure, Except.pure] at h; cases h
    exact triv _ (setRcvBuf_rinv W D n s v _ hi h1)
  | setSndBuf v =>
    simp only [stepG, step] at h
    obtain ⟨s1, h1, h⟩ := bind_ok h
    simp only [pure, Except.pure] at h; cases h
    exact triv _ (setSndBuf_rinv W D n s v _ hi h1)
  | setNoDelay v =>
    simp only [stepG, step, pure, Except.pure, bind, Except.bind] at h
    cases h; exact triv _ (by rinv')
  | setAckDelay v =>
    simp only [stepG, step, pure, Except.pure, bind, Except.bind] at h
    cases h; exact triv _ (by rinv')
  | setTime v =>
    simp only [stepG, step, pure, Except.pure, bind, Except.bind, setTime] at h
    cases h; exact triv _ (by rinv')
  | setWres v =>
    simp only [stepG, step, pure, Except.pure, bind, Except.bind] at h
    cases h; exact triv _ (by rinv')
  | connect =>
    simp only [stepG, step] at h
    obtain ⟨s1, h1, h⟩ := bind_ok h
    obtain ⟨⟨r1, r2⟩, h2, h1⟩ := bind_ok h1
    simp only [pure, Except.pure] at h h1
    cases h; cases h1
    exact triv _ (connect_rinv W D n s clk _ hi h2)
  | send d =>
    simp only [stepG, step] at h
    obtain ⟨s1, h1, h⟩ := bind_ok h
    obtain ⟨⟨r1, r2⟩, h2, h1⟩ := bind_ok h1
    simp only [pure, Except.pure] at h h1
    cases h; cases h1
    exact triv _ (of_triple_pre (send_rinv W D n s d clk) hi _ h2)
  | clock =>
    simp only [stepG, step] at h
    obtain ⟨s1, h1, h⟩ := bind_ok h
    simp only [pure, Except.pure] at h; cases h
    exact triv _ (of_triple_pre (notifyClock_rinv W D n s clk) hi _ h1)
  | nextClock t0 =>
    simp only [stepG, step] at h
    obtain ⟨s1, h1, h⟩ := bind_ok h
    obtain ⟨⟨r1, r2, r3⟩, h2, h1⟩ := bind_ok h1
    simp only [pure, Except.pure] at h h1
    cases h; cases h1
    exact triv _ (of_triple_pre (getNextClock_rinv W D n s t0 clk) hi _ h2)
  | shutdown hw =>
    simp only [stepG, step] at h
    obtain ⟨s1, h1, h⟩ := bind_ok h
    simp only [pure, Except.pure] at h; cases h
    exact triv _ (shutdown_rinv W D n s hw clk _ hi h1)
  | close f =>
    simp only [stepG, step] at h
    obtain ⟨s1, h1, h⟩ := bind_ok h
    simp only [pure, Except.pure] at h; cases h
    exact triv _ (close_rinv W D n s f clk _ hi h1)
  | mtu m =>
    simp only [stepG, step] at h
    obtain ⟨s1, h1, h⟩ := bind_ok h
    simp only [pure, Except.pure] at h; cases h
    exact triv _ (of_triple_pre (notifyMtu_rinv W D n s m) hi _ h1)
  | availSendSpace =>
    simp only [stepG, step, pure, Except.pure, bind, Except.bind, getAvailableSendSpace] at h
    cases h; exact triv _ (by rinv')

end

/-- the invariant along a whole history: what `recv` has returned so far is `W.take n`, and `n` grows with it -/
theorem runG_rinv (W : List UInt8) (D : Nat) (hB : D + W.length + 2 < 2 ^ 31) (ops : List (UInt32 × Op)) :
    ∀ (s : Sock) (n : Nat) (s' : Sock) (got' : List UInt8), RInv W D n s → n ≤ W.length →
      (∀ x, x ∈ ops → OpOk W D x.2) → runG s (W.take n) ops = .ok (s', got') →
      ∃ n', n ≤ n' ∧ n' ≤ W.length ∧ got' = W.take n' ∧ RInv W D n' s' := by
  induction ops with
  | nil =>
    intro s n s' got' hi hn _ h
    simp only [runG, pure, Except.pure] at h
    cases h
    exact ⟨n, Nat.le_refl _, hn, rfl, hi⟩
  | cons x rest ih =>
    intro s n s' got' hi hn hops h
    obtain ⟨clk, op⟩ := x
    simp only [runG] at h
    obtain ⟨⟨s1, b⟩, h1, h⟩ := bind_ok h
    have ⟨k1, k2, k3⟩ := stepG_rinv W D n hB s clk op s1 b hi (hops (clk, op) List.mem_cons_self) h1
    simp only at h
    rw [take_append_next W n b k2 k3] at h
    obtain ⟨n', a1, a2, a3, a4⟩ := ih s1 (n + b.size) s' got' k1 k2
      (fun x hx => hops x (List.mem_cons_of_mem _ hx)) h
    exact ⟨n', by omega, a2, a3, a4⟩

end Nice.Proofs.PTcpStream
