/-
  No-fault and result lemmas for stun_agent_finish_message, stun_agent_init_request/_indication and the
  usage-level builders (binding request / keepalive, ICE connectivity check): C05 / C07.
-/
import Nice.Props.C07
import Nice.Proofs.StunSafe
namespace Nice.Stun
open Nice.Gen Nice.Spec.Stun Nice.Props.C07

/-- lookup on a builder state: never faults, results lie inside the message -/
theorem find_built_inside (a : Option Cfg) (buf : Bytes) (w t : UInt16) (hB : Built a buf w) :
    ∃ r, find a buf t = .ok r ∧ ∀ off len, r = some (off, len) → 24 ≤ off ∧ off + len.toNat ≤ w.toNat := by
  obtain ⟨attrs, hattrs⟩ := parseFrom_of_tiles (!noAlign a) _ _ rfl 20 hB.tiles
  have hf := find_built a buf w t hB attrs hattrs
  cases hfr : find a buf t with
  | error e => rw [hfr] at hf; cases hf
  | ok r =>
    refine ⟨r, rfl, ?_⟩
    intro off len hr
    rw [hfr, hr] at hf
    simp only [Except.map, Option.map, Except.ok.injEq] at hf
    cases hx : refFindRec (swapType a t).toNat attrs with
    | none => rw [hx] at hf; cases hf
    | some x =>
      rw [hx] at hf
      simp only [Option.some.injEq, Prod.mk.injEq] at hf
      have hin := parseFrom_inside _ _ _ rfl 20 attrs hattrs x (refFindRec_mem hx)
      have hlen : (seg buf 20 (w.toNat - 20)).length = w.toNat - 20 :=
        seg_length (by have := hB.le_size; have := hB.ge20; omega)
      rw [hlen] at hin
      have := hB.ge20
      omega

theorem finishPrep_ok (H : Hashes) (c : Cfg) (msg : Msg) (k : Bytes) (w : UInt16)
    (hB : Built (some c) msg.buf w) : ∃ r, finishPrep H c msg k = .ok r := by
  unfold finishPrep
  simp only
  split
  · exact ⟨_, rfl⟩
  · split
    · obtain ⟨r1, h1, i1⟩ := find_built_inside (some c) msg.buf w tREALM hB
      obtain ⟨r2, h2, i2⟩ := find_built_inside (some c) msg.buf w tUSERNAME hB
      rw [h1, h2]
      have hle := hB.le_size
      cases r1 with
      | none => exact ⟨_, rfl⟩
      | some x =>
        cases r2 with
        | none => exact ⟨_, rfl⟩
        | some y =>
          obtain ⟨ro, rl⟩ := x
          obtain ⟨uo, ul⟩ := y
          obtain ⟨_, hr⟩ := i1 ro rl rfl
          obtain ⟨_, hu⟩ := i2 uo ul rfl
          obtain ⟨d1, hd1, _⟩ := rdBytes_ok (b := msg.buf) (off := ro) (n := rl.toNat) (by omega)
          obtain ⟨d2, hd2, _⟩ := rdBytes_ok (b := msg.buf) (off := uo) (n := ul.toNat) (by omega)
          simp only
          rw [hd1, hd2]
          exact ⟨_, rfl⟩
    · exact ⟨_, rfl⟩

/-- the buffer right after a successful `stun_message_append` is a builder state again -/
theorem append_built (a : Option Cfg) (buf : Bytes) (w t : UInt16) (n : Nat) (b : Bytes) (off : Nat)
    (hB : Built a buf w) (hcap : buf.size ≤ 65535) (hn : n < 2 ^ 63)
    (hap : append a buf t n = .ok (some (b, off))) :
    ∃ w', Built a b w' ∧ b.size = buf.size ∧ w'.toNat = w.toNat + 4 + n + padOf a n ∧ off = w.toNat + 4 ∧
      w'.toNat ≤ buf.size := by
  obtain ⟨h1, h2⟩ := append_then_write a buf w t n #[] hB hcap hn (Nat.zero_le _)
  by_cases hfit : w.toNat + 4 + n + padOf a n ≤ buf.size
  · obtain ⟨hc, happ', _, hbuilt, hlen⟩ := h2 hfit
    rw [blit_empty] at hbuilt
    have hsz := appendP_size a buf w t n hc
    generalize appendP a buf w t n hc = B at happ' hbuilt hsz
    rw [happ'] at hap
    have hbo := Option.some.inj (Except.ok.inj hap)
    have hb : B = b := congrArg Prod.fst hbo
    have hoff : w.toNat + 4 = off := congrArg Prod.snd hbo
    rw [← hb]
    exact ⟨_, hbuilt, hsz, hlen, hoff.symm, by omega⟩
  · rw [h1 (by omega)] at hap; cases hap

theorem append_ok (a : Option Cfg) (buf : Bytes) (w t : UInt16) (n : Nat) (hB : Built a buf w)
    (hn : n < 2 ^ 63) : ∃ r, append a buf t n = .ok r :=
  C07_no_write_outside a buf t n (by have := hB.ge20; have := hB.le_size; omega) hn

theorem finishAppendMI_ok (H : Hashes) (hH : ∀ k t, (H.hmac k t).size = 20) (c : Cfg) (m : Msg) (k md5 : Bytes)
    (w : UInt16) (hB : Built (some c) m.buf w) (hcap : m.buf.size ≤ 65535) :
    ∃ r, finishAppendMI H c m k md5 = .ok r := by
  unfold finishAppendMI
  obtain ⟨r, hr⟩ := append_ok (some c) m.buf w tMI 20 hB (by decide)
  rw [hr]
  cases r with
  | none => exact ⟨_, rfl⟩
  | some x =>
    obtain ⟨b, ptr⟩ := x
    obtain ⟨w', hB', hsz, hw', hoff, hle⟩ := append_built (some c) m.buf w tMI 20 b ptr hB hcap (by decide) hr
    simp only
    rw [hB'.len_ok]
    simp only
    have hge := hB.ge20
    have hpad : padOf (some c) 20 ≤ 3 := padOf_le _ _ (by decide)
    -- stun_sha1: assert (len >= 44) holds, reads stay below the message end
    have hsha : ∃ s, stunSha1 H b w'.toNat (w' - finishMinus c) (finishMacKey c k md5) (macPadOf c) = .ok s ∧ s.size = 20 := by
      unfold stunSha1 macInput
      rw [if_neg (by omega)]
      obtain ⟨d1, hd1, _⟩ := rdBytes_ok (b := b) (off := 0) (n := 2) (by omega)
      obtain ⟨d2, hd2, _⟩ := rdBytes_ok (b := b) (off := 4) (n := w'.toNat - 28) (by omega)
      rw [hd1, hd2]
      exact ⟨_, rfl, hH _ _⟩
    obtain ⟨s, hs, hss⟩ := hsha
    rw [hs]
    simp only
    rw [wrBytes_eq (by rw [hss, hoff, hsz]; omega)]
    exact ⟨_, rfl⟩

theorem finishMI_ok (H : Hashes) (hH : ∀ k t, (H.hmac k t).size = 20) (c : Cfg) (msg : Msg) (key : Option Bytes)
    (w : UInt16) (hB : Built (some c) msg.buf w) (hcap : msg.buf.size ≤ 65535) :
    ∃ r, finishMI H c msg key = .ok r := by
  unfold finishMI
  cases key with
  | none => exact ⟨_, rfl⟩
  | some k =>
    simp only
    obtain ⟨r, hr⟩ := finishPrep_ok H c msg k w hB
    rw [hr]
    obtain ⟨skip, m, md5⟩ := r
    have hb := finishPrep_buf hr
    cases skip
    · simp only
      obtain ⟨r2, hr2⟩ := finishAppendMI_ok H hH c m k md5 w (by rw [hb]; exact hB) (by rw [hb]; exact hcap)
      rw [hr2]
      cases r2 <;> exact ⟨_, rfl⟩
    · exact ⟨_, rfl⟩

theorem finishFPR_ok (c : Cfg) (m : Msg) (w : UInt16) (hB : Built (some c) m.buf w) (hcap : m.buf.size ≤ 65535) :
    ∃ r, finishFPR c m = .ok r := by
  unfold finishFPR
  split
  · obtain ⟨r, hr⟩ := append_ok (some c) m.buf w tFPR 4 hB (by decide)
    rw [hr]
    cases r with
    | none => exact ⟨_, rfl⟩
    | some x =>
      obtain ⟨b, ptr⟩ := x
      obtain ⟨w', hB', hsz, hw', hoff, hle⟩ := append_built (some c) m.buf w tFPR 4 b ptr hB hcap (by decide) hr
      simp only
      rw [hB'.len_ok]
      simp only
      have hge := hB.ge20
      have hfp : ∃ v, fingerprint b w'.toNat false = .ok v := by
        unfold fingerprint fprInput
        rw [if_neg (by omega)]
        obtain ⟨d1, hd1, _⟩ := rdBytes_ok (b := b) (off := 0) (n := 2) (by omega)
        obtain ⟨d2, hd2, _⟩ := rdBytes_ok (b := b) (off := 4) (n := w'.toNat - 12) (by omega)
        rw [hd1, hd2]
        exact ⟨_, rfl⟩
      obtain ⟨v, hv⟩ := hfp
      rw [hv]
      simp only
      have h4 : (be32Bytes v).size = 4 := rfl
      rw [wrBytes_eq (by rw [h4, hoff, hsz]; omega)]
      exact ⟨_, rfl⟩
  · exact ⟨_, rfl⟩

/-- `stun_agent_finish_message` returns a length (or 0) — no access outside the caller's buffer, the
    `assert (len >= 44)` of stun_sha1 holds — for every well-formed builder state, agent, key -/
theorem finishMessage_no_fault (H : Hashes) (hH : ∀ k t, (H.hmac k t).size = 20) (ag : Agent) (msg : Msg)
    (key : Option Bytes) (w : UInt16) (hB : Built (some ag.cfg) msg.buf w) (hcap : msg.buf.size ≤ 65535) :
    ∃ r, finishMessage H ag msg key = .ok r := by
  have hge := hB.ge20
  have hle := hB.le_size
  unfold finishMessage
  simp only
  have hc : ∃ c, getClass msg.buf = .ok c := by unfold getClass; rw [if_pos (by omega)]; exact ⟨_, rfl⟩
  have hm : ∃ c, getMethod msg.buf = .ok c := by unfold getMethod; rw [if_pos (by omega)]; exact ⟨_, rfl⟩
  obtain ⟨cls, hcls⟩ := hc
  obtain ⟨method, hmeth⟩ := hm
  rw [hcls, hmeth]
  simp only
  split
  · exact ⟨_, rfl⟩
  · obtain ⟨r1, hr1⟩ := finishMI_ok H hH ag.cfg msg (pickKey msg.key key) w hB hcap
    rw [hr1]
    obtain ⟨ok1, m1⟩ := r1
    -- state after the M-I stage
    have hm1 : (∃ w1, Built (some ag.cfg) m1.buf w1) ∧ m1.buf.size = msg.buf.size := by
      have hmi := hr1
      unfold finishMI at hmi
      split at hmi
      · have e : _ = m1 := congrArg Prod.snd (Except.ok.inj hmi)
        rw [← e]; exact ⟨⟨w, hB⟩, rfl⟩
      · split at hmi
        · cases hmi
        · rename_i m0 _ hprep
          have hb0 := finishPrep_buf hprep
          have e : _ = m1 := congrArg Prod.snd (Except.ok.inj hmi)
          rw [← e, hb0]; exact ⟨⟨w, hB⟩, rfl⟩
        · rename_i m0 md5 hprep
          have hb0 := finishPrep_buf hprep
          split at hmi
          · cases hmi
          · have e : _ = m1 := congrArg Prod.snd (Except.ok.inj hmi)
            rw [← e, hb0]; exact ⟨⟨w, hB⟩, rfl⟩
          · rename_i m2 happ
            have e : _ = m1 := congrArg Prod.snd (Except.ok.inj hmi)
            rw [← e]
            obtain ⟨w2, hB2, hs2⟩ := finishAppendMI_built hH (w := w) (by rw [hb0]; exact hB)
              (by rw [hb0]; exact hcap) happ
            exact ⟨⟨w2, hB2⟩, by rw [hs2, hb0]⟩
    obtain ⟨⟨w1, hB1⟩, hs1⟩ := hm1
    cases ok1
    · exact ⟨_, rfl⟩
    · simp only
      obtain ⟨r2, hr2⟩ := finishFPR_ok ag.cfg m1 w1 hB1 (by rw [hs1]; exact hcap)
      rw [hr2]
      cases r2 with
      | none => exact ⟨_, rfl⟩
      | some m2 =>
        simp only
        obtain ⟨w2, hB2, hs2⟩ := finishFPR_built hB1 (by rw [hs1]; exact hcap) hr2
        have h20 : 20 ≤ m2.buf.size := by rw [hs2, hs1]; omega
        have hid : ∃ d, messageId m2.buf = .ok d := by
          unfold messageId
          obtain ⟨d, hd, _⟩ := rdBytes_ok (b := m2.buf) (off := 4) (n := 16) (by omega)
          exact ⟨d, hd⟩
        obtain ⟨d, hd⟩ := hid
        rw [hd, hB2.len_ok]
        exact ⟨_, rfl⟩

end Nice.Stun

namespace Nice.Stun
open Nice.Gen Nice.Spec.Stun Nice.Props.C07

theorem messageLength_congr {b b' : Bytes} (hs : b'.size = b.size) (h2 : b'.getD 2 0 = b.getD 2 0)
    (h3 : b'.getD 3 0 = b.getD 3 0) : messageLength b' = messageLength b := by
  have hw : stun_getw (ptrAt b' STUN_MESSAGE_LENGTH_POS) = stun_getw (ptrAt b STUN_MESSAGE_LENGTH_POS) := by
    apply UInt16.toNat_inj.mp
    rw [stun_getw_toNat, stun_getw_toNat]
    simp only [ptrAt, show STUN_MESSAGE_LENGTH_POS = 2 from rfl]
    rw [show (2 : Nat) + 0 = 2 from rfl, show (2 : Nat) + 1 = 3 from rfl, h2, h3]
  unfold messageLength getw
  rw [hs, hw]

/-- overwriting transaction-id bytes (4..19) of an empty message keeps it an empty message -/
theorem built20_blit (a : Option Cfg) (b src : Bytes) (hB : Built a b 20) (hsrc : 4 + src.size ≤ 20) :
    Built a (blit b 4 src) 20 := by
  have hle := hB.le_size
  have e20 : (20 : UInt16).toNat = 20 := rfl
  rw [e20] at hle
  have hg : ∀ j, j < 4 → (blit b 4 src).getD j 0 = b.getD j 0 := by
    intro j hj
    rw [blit_getD _ _ _ _ (by omega), if_neg (by omega)]
  refine ⟨?_, hB.ge20, by rw [blit_size]; exact hB.le_size, ?_, ?_, hB.mult4⟩
  · rw [messageLength_congr (blit_size _ _ _) (hg 2 (by omega)) (hg 3 (by omega))]; exact hB.len_ok
  · unfold byteN; rw [hg 0 (by omega)]; exact hB.top
  · rw [e20]; simp only [Nat.sub_self, seg_zero]; exact Tiles.nil

/-- the SOFTWARE attribute value of the agent can be measured (valid UTF-8, as the API requires) -/
def SoftwareOk (ag : Agent) : Prop :=
  ∃ n, softwareLen (ag.software.getD PACKAGE_STRING.toArray) 0 0 129 = .ok n ∧
    n ≤ (ag.software.getD PACKAGE_STRING.toArray).size ∧ (ag.software.getD PACKAGE_STRING.toArray).size < 2 ^ 63

theorem maybeSoftware_spec (ag : Agent) (b : Bytes) (w : UInt16) (hsw : SoftwareOk ag)
    (hB : Built (some ag.cfg) b w) (hcap : b.size ≤ 65535) :
    ∃ b', maybeSoftware ag b = .ok b' ∧ b'.size = b.size ∧ ∃ w', Built (some ag.cfg) b' w' := by
  unfold maybeSoftware
  split
  · obtain ⟨n, hn, hle, hlt⟩ := hsw
    rw [appendSoftware_unf, hn]
    simp only
    rw [if_neg (by omega)]
    have hds : ((ag.software.getD PACKAGE_STRING.toArray).extract 0 n).size < 2 ^ 63 := by simp; omega
    obtain ⟨r, hr⟩ := C07_no_write_outside_bytes (some ag.cfg) b (UInt16.ofNat STUN_ATTRIBUTE_SOFTWARE)
      ((ag.software.getD PACKAGE_STRING.toArray).extract 0 n)
      (by have := hB.ge20; have := hB.le_size; omega) hds
    rw [hr]
    obtain ⟨ret, b'⟩ := r
    obtain ⟨w', hB', hs'⟩ := preserve_appendBytes (some ag.cfg) b w _ _ ret b' hB hcap hds hr
    exact ⟨b', rfl, hs', w', hB'⟩
  · exact ⟨b, rfl, rfl, w, hB⟩

/-- `stun_agent_init_request` / `_indication`: never faults; TRUE leaves a well-formed message in the
    buffer, FALSE leaves the buffer untouched; the size never changes -/
theorem initRequest_spec (ag : Agent) (buf : Bytes) (m : Nat) (id : Bytes) (hsw : SoftwareOk ag)
    (hcap : buf.size ≤ 65535) :
    ∃ ok msg, initRequest ag buf m id = .ok (ok, msg) ∧ msg.buf.size = buf.size ∧
      (ok = true → ∃ w, Built (some ag.cfg) msg.buf w) ∧ (ok = false → msg.buf = buf) := by
  unfold initRequest
  obtain ⟨r, hr⟩ := C07_init_no_fault buf STUN_REQUEST m id
  rw [hr]
  cases r with
  | none => exact ⟨false, _, rfl, rfl, fun h => (by cases h), fun _ => rfl⟩
  | some b =>
    obtain ⟨hB, hs⟩ := init_built (some ag.cfg) buf STUN_REQUEST m id b (by decide) hr
    simp only
    have hck : cookieBytes.size = 4 := rfl
    have hstep : ∃ b1, (if isRfc5389ish ag.cfg = true then wrBytes b STUN_MESSAGE_TRANS_ID_POS cookieBytes else .ok b) = .ok b1 ∧
        b1.size = b.size ∧ Built (some ag.cfg) b1 20 := by
      have h20 := hB.le_size
      have e20 : (20 : UInt16).toNat = 20 := rfl
      rw [e20] at h20
      split
      · rw [show STUN_MESSAGE_TRANS_ID_POS = 4 from rfl, wrBytes_eq (by rw [hck]; omega)]
        exact ⟨_, rfl, blit_size _ _ _, built20_blit _ _ _ hB (by rw [hck]; decide)⟩
      · exact ⟨b, rfl, rfl, hB⟩
    obtain ⟨b1, hb1, hs1, hB1⟩ := hstep
    rw [hb1]
    simp only
    obtain ⟨b2, hb2, hs2, w2, hB2⟩ := maybeSoftware_spec ag b1 20 hsw hB1 (by rw [hs1, hs]; exact hcap)
    rw [hb2]
    exact ⟨true, _, rfl, by simp only; rw [hs2, hs1, hs], fun _ => ⟨w2, hB2⟩, fun h => (by cases h)⟩

theorem initIndication_spec (ag : Agent) (buf : Bytes) (m : Nat) (id : Bytes) (hcap : buf.size ≤ 65535) :
    ∃ ok msg, initIndication ag buf m id = .ok (ok, msg) ∧ msg.buf.size = buf.size ∧
      (ok = true → ∃ w, Built (some ag.cfg) msg.buf w) ∧ (ok = false → msg.buf = buf) := by
  unfold initIndication
  obtain ⟨r, hr⟩ := C07_init_no_fault buf STUN_INDICATION m id
  rw [hr]
  cases r with
  | none => exact ⟨false, _, rfl, rfl, fun h => (by cases h), fun _ => rfl⟩
  | some b =>
    obtain ⟨hB, hs⟩ := init_built (some ag.cfg) buf STUN_INDICATION m id b (by decide) hr
    simp only
    have hck : cookieBytes.size = 4 := rfl
    have hstep : ∃ b1, (if isRfc5389ish ag.cfg = true then wrBytes b STUN_MESSAGE_TRANS_ID_POS cookieBytes else .ok b) = .ok b1 ∧
        b1.size = b.size ∧ Built (some ag.cfg) b1 20 := by
      have h20 := hB.le_size
      have e20 : (20 : UInt16).toNat = 20 := rfl
      rw [e20] at h20
      split
      · rw [show STUN_MESSAGE_TRANS_ID_POS = 4 from rfl, wrBytes_eq (by rw [hck]; omega)]
        exact ⟨_, rfl, blit_size _ _ _, built20_blit _ _ _ hB (by rw [hck]; decide)⟩
      · exact ⟨b, rfl, rfl, hB⟩
    obtain ⟨b1, hb1, hs1, hB1⟩ := hstep
    rw [hb1]
    exact ⟨true, _, rfl, by simp only; rw [hs1, hs], fun _ => ⟨20, hB1⟩, fun h => (by cases h)⟩

/-- binding request / keepalive builders: a status for every output buffer (0..65535 bytes) -/
theorem bindCreate_no_fault (H : Hashes) (hH : ∀ k t, (H.hmac k t).size = 20) (ag : Agent) (buf id : Bytes)
    (hsw : SoftwareOk ag) (hcap : buf.size ≤ 65535) : ∃ r, bindCreate H ag buf id = .ok r := by
  unfold bindCreate
  obtain ⟨ok, msg, hi, hs, ht, _⟩ := initRequest_spec ag buf STUN_BINDING id hsw hcap
  rw [hi]
  cases ok
  · exact ⟨_, rfl⟩
  · obtain ⟨w, hB⟩ := ht rfl
    exact finishMessage_no_fault H hH ag msg none w hB (by rw [hs]; exact hcap)

theorem bindKeepalive_no_fault (H : Hashes) (hH : ∀ k t, (H.hmac k t).size = 20) (ag : Agent) (buf id : Bytes)
    (hcap : buf.size ≤ 65535) : ∃ r, bindKeepalive H ag buf id = .ok r := by
  unfold bindKeepalive
  obtain ⟨ok, msg, hi, hs, ht, _⟩ := initIndication_spec ag buf STUN_BINDING id hcap
  rw [hi]
  cases ok
  · exact ⟨_, rfl⟩
  · obtain ⟨w, hB⟩ := ht rfl
    exact finishMessage_no_fault H hH ag msg none w hB (by rw [hs]; exact hcap)

/-- what a builder hands back: 0, or the length (≤ capacity) of a well-formed finished message -/
def BuilderResult (ag : Agent) (cap : Nat) (r : Nat) (m : Msg) : Prop :=
  m.buf.size = cap ∧ (r = 0 ∨ (r ≤ cap ∧ ∃ w', Built (some ag.cfg) m.buf w' ∧ w'.toNat = r))

theorem bindCreate_result (H : Hashes) (hH : ∀ k t, (H.hmac k t).size = 20) (ag ag' : Agent) (buf id : Bytes)
    (r : Nat) (m : Msg) (hsw : SoftwareOk ag) (hcap : buf.size ≤ 65535)
    (h : bindCreate H ag buf id = .ok (r, ag', m)) : BuilderResult ag buf.size r m := by
  unfold bindCreate at h
  obtain ⟨ok, msg, hi, hs, ht, hf⟩ := initRequest_spec ag buf STUN_BINDING id hsw hcap
  rw [hi] at h
  cases ok
  · have e := Except.ok.inj h
    have e1 : 0 = r := congrArg Prod.fst e
    have e2 : msg = m := congrArg (fun x => x.2.2) e
    rw [← e2]; exact ⟨hs, Or.inl e1.symm⟩
  · obtain ⟨w, hB⟩ := ht rfl
    obtain ⟨h1, h2⟩ := C07_finish_len H hH ag ag' msg m none w r hB (by rw [hs]; exact hcap) h
    rw [hs] at h1 h2
    exact ⟨h1, h2⟩

theorem bindKeepalive_result (H : Hashes) (hH : ∀ k t, (H.hmac k t).size = 20) (ag ag' : Agent) (buf id : Bytes)
    (r : Nat) (m : Msg) (hcap : buf.size ≤ 65535)
    (h : bindKeepalive H ag buf id = .ok (r, ag', m)) : BuilderResult ag buf.size r m := by
  unfold bindKeepalive at h
  obtain ⟨ok, msg, hi, hs, ht, hf⟩ := initIndication_spec ag buf STUN_BINDING id hcap
  rw [hi] at h
  cases ok
  · have e := Except.ok.inj h
    have e1 : 0 = r := congrArg Prod.fst e
    have e2 : msg = m := congrArg (fun x => x.2.2) e
    rw [← e2]; exact ⟨hs, Or.inl e1.symm⟩
  · obtain ⟨w, hB⟩ := ht rfl
    obtain ⟨h1, h2⟩ := C07_finish_len H hH ag ag' msg m none w r hB (by rw [hs]; exact hcap) h
    rw [hs] at h1 h2
    exact ⟨h1, h2⟩

end Nice.Stun

namespace Nice.Stun
open Nice.Gen Nice.Spec.Stun Nice.Props.C07

/-- a message the usage builders work on: in the caller's `cap`-byte buffer, well formed so far -/
def GoodIn (ag : Agent) (cap : Nat) (m : Msg) : Prop := m.buf.size = cap ∧ ∃ w, Built (some ag.cfg) m.buf w

/-- a continuation that, from any such message, returns (no fault) 0 or a finished well-formed message -/
def GoodK (ag : Agent) (cap : Nat) (k : Msg → BuildR) : Prop :=
  ∀ m, GoodIn ag cap m → (∃ x, k m = .ok x) ∧ ∀ r ag' m', k m = .ok (r, ag', m') → BuilderResult ag cap r m'

theorem finish_good (H : Hashes) (hH : ∀ k t, (H.hmac k t).size = 20) (ag : Agent) (cap : Nat) (key : Option Bytes)
    (hcap : cap ≤ 65535) : GoodK ag cap (fun m => finishMessage H ag m key) := by
  intro m ⟨hs, w, hB⟩
  refine ⟨finishMessage_no_fault H hH ag m key w hB (by rw [hs]; exact hcap), ?_⟩
  intro r ag' m' h
  obtain ⟨h1, h2⟩ := C07_finish_len H hH ag ag' m m' key w r hB (by rw [hs]; exact hcap) h
  rw [hs] at h1 h2
  exact ⟨h1, h2⟩

/-- one `append…; if (!= SUCCESS) return 0;` step in front of a good continuation is good -/
theorem tryApp_good (ag : Agent) (cap : Nat) (t : UInt16) (d : Bytes) (k : Msg → BuildR) (hk : GoodK ag cap k)
    (hcap : cap ≤ 65535) (hd : d.size < 2 ^ 63) :
    GoodK ag cap (fun m => tryApp ag m (appendBytes (some ag.cfg) m.buf t d) k) := by
  intro m ⟨hs, w, hB⟩
  obtain ⟨x, hx⟩ := C07_no_write_outside_bytes (some ag.cfg) m.buf t d
    (by have := hB.ge20; have := hB.le_size; omega) hd
  obtain ⟨ret, b⟩ := x
  obtain ⟨w', hB', hs'⟩ := preserve_appendBytes (some ag.cfg) m.buf w t d ret b hB (by rw [hs]; exact hcap) hd hx
  simp only [tryApp, hx]
  cases ret with
  | success => exact hk { m with buf := b } ⟨by simp only; rw [hs', hs], w', hB'⟩
  | notFound | invalid | noSpace | unsupported =>
    refine ⟨⟨_, rfl⟩, ?_⟩
    intro r ag' m' h
    have e := Except.ok.inj h
    have e1 : 0 = r := congrArg Prod.fst e
    have e2 : { m with buf := b } = m' := congrArg (fun x => x.2.2) e
    rw [← e2]
    exact ⟨by simp only; rw [hs', hs], Or.inl e1.symm⟩

theorem goodK_ite (ag : Agent) (cap : Nat) (c : Prop) [Decidable c] (k1 k2 : Msg → BuildR)
    (h1 : GoodK ag cap k1) (h2 : GoodK ag cap k2) : GoodK ag cap (fun m => if c then k1 m else k2 m) := by
  intro m hm
  by_cases hc : c
  · simp only [if_pos hc]; exact h1 m hm
  · simp only [if_neg hc]; exact h2 m hm

theorem cstr_size' (s : Bytes) : (cstr s).size ≤ s.size := cstr_size s

/-- `stun_usage_ice_conncheck_create`: never faults; returns 0 or the length (≤ capacity) of a
    well-formed finished message — a failed append or finish propagates as 0 -/
theorem iceConncheckCreate_good (H : Hashes) (hH : ∀ k t, (H.hmac k t).size = 20) (ag : Agent) (buf id : Bytes)
    (username password : Option Bytes) (candUse controlling : Bool) (priority : UInt32) (tie : UInt64)
    (candidateId : Option Bytes) (compat : Nat) (hsw : SoftwareOk ag) (hcap : buf.size ≤ 65535)
    (hu : ∀ u, username = some u → u.size < 2 ^ 63) (hc : ∀ c, candidateId = some c → c.size < 2 ^ 62) :
    (∃ x, iceConncheckCreate H ag buf id username password candUse controlling priority tie candidateId compat = .ok x) ∧
    ∀ r ag' m', iceConncheckCreate H ag buf id username password candUse controlling priority tie candidateId compat =
      .ok (r, ag', m') → BuilderResult ag buf.size r m' := by
  unfold iceConncheckCreate
  obtain ⟨ok, msg, hi, hs, ht, hf⟩ := initRequest_spec ag buf STUN_BINDING id hsw hcap
  rw [hi]
  cases ok
  · refine ⟨⟨_, rfl⟩, ?_⟩
    intro r ag' m' h
    have e := Except.ok.inj h
    have e1 : 0 = r := congrArg Prod.fst e
    have e2 : msg = m' := congrArg (fun x => x.2.2) e
    rw [← e2]; exact ⟨hs, Or.inl e1.symm⟩
  · obtain ⟨w, hB⟩ := ht rfl
    have hgood : GoodIn ag buf.size msg := ⟨hs, w, hB⟩
    have kfin := finish_good H hH ag buf.size password hcap
    have h32 : ∀ v : UInt32, (be32Bytes v).size < 2 ^ 63 := fun v => by
      have : (be32Bytes v).size = 4 := rfl
      rw [this]; decide
    have k3 : GoodK ag buf.size (ccStep3 H ag password candidateId compat) := by
      unfold ccStep3
      cases candidateId with
      | none => exact kfin
      | some cid =>
        simp only
        apply goodK_ite
        · have hsz := hc cid rfl
          have hcs := cstr_size cid
          refine tryApp_good ag buf.size _ _ _ ?_ hcap ?_
          · exact tryApp_good ag buf.size _ (be32Bytes 2) _ kfin hcap (h32 2)
          · simp only [takeZ, Array.size_ofFn]
            split <;> omega
        · exact kfin
    have k2 : GoodK ag buf.size (ccStep2 H ag username password candidateId compat) := by
      unfold ccStep2
      cases username with
      | none => exact k3
      | some u =>
        simp only
        exact goodK_ite ag buf.size _ _ _ (tryApp_good ag buf.size _ u _ k3 hcap (hu u rfl)) k3
    have kp : GoodK ag buf.size (ccPrio H ag username password candidateId controlling priority tie compat) := by
      unfold ccPrio
      refine tryApp_good ag buf.size _ (be32Bytes priority) _ ?_ hcap (h32 _)
      have h64 : (be32Bytes (UInt32.ofNat (tie.toNat / 4294967296)) ++ be32Bytes (UInt32.ofNat tie.toNat)).size < 2 ^ 63 := by
        have : (be32Bytes (UInt32.ofNat (tie.toNat / 4294967296)) ++ be32Bytes (UInt32.ofNat tie.toNat)).size = 8 := rfl
        rw [this]; decide
      exact tryApp_good ag buf.size _ _ _ k2 hcap h64
    have k1 : GoodK ag buf.size (ccStep1 H ag username password candidateId candUse controlling priority tie compat) := by
      unfold ccStep1
      apply goodK_ite
      · apply goodK_ite
        · exact tryApp_good ag buf.size _ #[] _ kp hcap (by decide)
        · exact kp
      · exact k2
    exact k1 msg hgood

end Nice.Stun
