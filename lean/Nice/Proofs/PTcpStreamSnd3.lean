/-
  C08 end-to-end (send side), part 3: acknowledgements consume the ring from the front (`snd_una` and the ring stay
  aligned with the ghost stream), the FIN state machine, `process`.
-/
import Nice.Proofs.PTcpStreamSnd2
namespace Nice.Proofs.PTcpStream
open Nice.PTcp Nice.Gen Nice.Proofs.PTcp Std.Do

set_option mvcgen.warning false
set_option maxRecDepth 16000
set_option linter.unusedSimpArgs false

theorem consumeReadData_vspec (b : Fifo) (k : Nat) :
    ⦃⌜True⌝⦄ b.consumeReadData k
    ⦃⇓? r => ⌜k ≤ b.data ∧ b.cap ≠ 0 ∧ r = { b with rpos := (b.rpos + k) % b.cap, data := b.data - k }⌝⦄ :=
  to_triple fun _ r h => by
    unfold Fifo.consumeReadData at h
    simp only [fault] at h
    split at h
    · cases h
    · split at h
      · cases h
      · cases h; rename_i h1 h2; exact ⟨by omega, h2, rfl⟩

theorem byteAt_advance (b : Fifo) (k i : Nat) :
    byteAt { b with rpos := (b.rpos + k) % b.cap, data := b.data - k } i = byteAt b (k + i) := by
  simp only [byteAt, Fifo.cap]
  congr 2
  rw [Nat.add_mod, Nat.mod_mod, ← Nat.add_mod, Nat.add_assoc]

section
variable (Q : List UInt8)

/-- the acknowledgement step of `process`: `snd_una := ack`, the acknowledged bytes (minus one for an acknowledged FIN)
    are dropped from the front of the ring -/
theorem ack_sinvE (r3 : Sock) (ack : UInt32) (sb : Fifo) (s' : Sock) (hi : SInvE Q r3)
    (hcons :
      (if (((ack - r3.snd_una).toNat == r3.sbuf.data + 1 && hasSentFin r3.state) = true) then
          (true, ack - r3.snd_una - 1) else (false, ack - r3.snd_una)).snd.toNat ≤ r3.sbuf.data ∧
      r3.sbuf.cap ≠ 0 ∧
      sb = { r3.sbuf with
        rpos := (r3.sbuf.rpos +
          (if (((ack - r3.snd_una).toNat == r3.sbuf.data + 1 && hasSentFin r3.state) = true) then
            (true, ack - r3.snd_una - 1) else (false, ack - r3.snd_una)).snd.toNat) % r3.sbuf.cap,
        data := r3.sbuf.data -
          (if (((ack - r3.snd_una).toNat == r3.sbuf.data + 1 && hasSentFin r3.state) = true) then
            (true, ack - r3.snd_una - 1) else (false, ack - r3.snd_una)).snd.toNat })
    (e1 : s'.sbuf = sb) (e2 : s'.snd_una = ack) (e3 : s'.state = r3.state) (e4 : s'.out = r3.out) :
    SInvE Q s' := by
  obtain ⟨a, f, hi⟩ := hi
  have hu := hi.una
  have hlen := hi.len
  have hfd := hi.fok.1.1
  have hcap : r3.sbuf.cap = r3.sbuf.buf.size := rfl
  have hack : ack.toNat = (r3.snd_una.toNat + (ack - r3.snd_una).toNat) % 2 ^ 32 := by
    have : r3.snd_una + (ack - r3.snd_una) = ack := by rw [UInt32.add_comm, UInt32.sub_add_cancel]
    rw [← UInt32.toNat_add, this]
  by_cases c : ((ack - r3.snd_una).toNat == r3.sbuf.data + 1 && hasSentFin r3.state) = true
  · rw [if_pos c] at hcons
    obtain ⟨h1, h2, h3⟩ := hcons
    simp only at h1 h3
    have ⟨c1, c2⟩ := (Bool.and_eq_true _ _).mp c
    have c1' : (ack - r3.snd_una).toNat = r3.sbuf.data + 1 := by simpa using c1
    have hk : (ack - r3.snd_una - 1).toNat = r3.sbuf.data := by
      rw [sub_toNat_of_le _ _ (by rw [one_toNat]; omega), one_toNat]; omega
    rw [hk] at h3
    refine ⟨a + r3.sbuf.data, f + 1, ?_⟩
    rw [h3] at e1
    refine ⟨?_, ?_, ?_, ?_, ?_, ?_, ?_⟩
    · rw [e1]
      refine ⟨⟨by show r3.sbuf.data - r3.sbuf.data ≤ _; omega, ?_⟩, hi.fok.2⟩
      show (r3.sbuf.rpos + r3.sbuf.data) % r3.sbuf.cap < r3.sbuf.buf.size
      rw [← hcap]; exact Nat.mod_lt _ (by omega)
    · rw [e1]; show a + r3.sbuf.data + (r3.sbuf.data - r3.sbuf.data) = _; omega
    · rw [e1]; intro i hi'
      have : i < r3.sbuf.data - r3.sbuf.data := hi'
      omega
    · rw [e2, hack, hu, c1']; omega
    · intro _
      rw [e3, e1]
      exact ⟨c2, by show r3.sbuf.data - r3.sbuf.data = 0; omega⟩
    · rw [e3]; exact hi.lq
    · rw [e4]; exact hi.out
  · rw [if_neg c] at hcons
    obtain ⟨h1, h2, h3⟩ := hcons
    simp only at h1 h3
    refine ⟨a + (ack - r3.snd_una).toNat, f, ?_⟩
    rw [h3] at e1
    refine ⟨?_, ?_, ?_, ?_, ?_, ?_, ?_⟩
    · rw [e1]
      refine ⟨⟨by show r3.sbuf.data - _ ≤ r3.sbuf.buf.size; omega, ?_⟩, hi.fok.2⟩
      show (r3.sbuf.rpos + _) % r3.sbuf.cap < r3.sbuf.buf.size
      rw [← hcap]; exact Nat.mod_lt _ (by omega)
    · rw [e1]; show a + (ack - r3.snd_una).toNat + (r3.sbuf.data - (ack - r3.snd_una).toNat) = _; omega
    · rw [e1]; intro i hi'
      have hi'' : i < r3.sbuf.data - (ack - r3.snd_una).toNat := hi'
      rw [byteAt_advance, hi.com _ (by omega)]
      congr 1; omega
    · rw [e2, hack, hu]; omega
    · intro hf
      have ⟨g1, g2⟩ := hi.fz hf
      rw [e3, e1]
      exact ⟨g1, by show r3.sbuf.data - _ = 0; omega⟩
    · rw [e3]; exact hi.lq
    · rw [e4]; exact hi.out

theorem rttSample_sspec (s : Sock) (ts : UInt32) (rtt : Int) :
    ⦃⌜SInvE Q s⌝⦄ rttSample s ts rtt
    ⦃⇓? s' => ⌜SInvE Q s' ∧ s'.sbuf = s.sbuf ∧ s'.snd_una = s.snd_una ∧ s'.state = s.state ∧ s'.out = s.out⌝⦄ := by
  mvcgen [rttSample]
  rename_i h
  split
  · unfold updateRtt; split <;> exact ⟨by sinv, rfl, rfl, rfl, rfl⟩
  · exact ⟨h, rfl, rfl, rfl, rfl⟩

/-- closes the verification conditions of `processAck` after the acknowledgement step -/
macro "ack_vc" : tactic => `(tactic| (
  have hi := ‹SInvE _ _ ∧ _›
  have hcr := ‹_ ≤ _ ∧ _ ≠ 0 ∧ _ = _›
  obtain ⟨hi1, hi2, hi3, hi4, hi5⟩ := hi
  exact ack_sinvE _ _ _ _ _ hi1 hcr rfl rfl rfl rfl))

theorem processAck_sspec (seg : Segment) (p : Array UInt8) (clk : UInt32)
    (h_pf : ∀ (s : Sock) (bc fa : Bool), ⦃⌜SInvE Q s⌝⦄ processFin s seg p bc fa clk ⦃⇓? r => ⌜SInvE Q r.2⌝⦄)
    (s : Sock) (bc : Bool) (now : UInt32) :
    ⦃⌜SInvE Q s⌝⦄ processAck s seg p bc now clk ⦃⇓? r => ⌜SInvE Q r.2⌝⦄ := by
  have h_tr := transmit_sspec Q
  have h_cd := closedown_sspec Q
  have h_rtt := rttSample_sspec Q
  mvcgen [processAck, h_rtt, shiftWnd_spec, consumeReadData_vspec, ackLoop_spec, h_tr, h_cd, h_pf]
  all_goals first
    | (sinv; done)
    | ack_vc

/-- the state switch of `processFin`, sender view: only the state changes; it keeps "has sent FIN" and never enters
    LISTEN -/
theorem finFsm_eq2 (s s' : Sock) (rf fa : Bool) (h : finFsm s rf fa = .ok s') :
    ∃ st, s' = { s with state := st } ∧ (st = .listen → s.state = .listen) ∧
      (hasSentFin s.state = true → hasSentFin st = true) := by
  have keep : ∃ st, s = { s with state := st } ∧ (st = .listen → s.state = .listen) ∧
      (hasSentFin s.state = true → hasSentFin st = true) := ⟨s.state, rfl, fun x => x, fun x => x⟩
  have mk : ∀ st, setState s st = .ok s' → st ≠ .listen → (hasSentFin s.state = true → hasSentFin st = true) →
      ∃ st, s' = { s with state := st } ∧ (st = .listen → s.state = .listen) ∧
      (hasSentFin s.state = true → hasSentFin st = true) := by
    intro st h1 h2 h3
    exact ⟨st, setState_eq h1, fun e => absurd e h2, h3⟩
  unfold finFsm at h
  cases hs : s.state <;> simp only [hs] at h <;> rw [hs] at keep mk
  case established =>
    cases rf with
    | false => cases h; exact keep
    | true => exact mk _ h (by decide) (fun e => by cases e)
  case closing =>
    cases fa with
    | false => cases h; exact keep
    | true => exact mk _ h (by decide) (fun _ => rfl)
  case lastAck =>
    cases fa with
    | false => cases h; exact keep
    | true =>
      have ho := setStateClosed_eq' h
      exact ⟨.closed, ho, fun e => (by cases e), fun _ => rfl⟩
  case finWait1 =>
    cases fa <;> cases rf <;> simp only [Bool.and_true, Bool.and_false, Bool.false_eq_true, if_true, if_false] at h
    · cases h; exact keep
    · exact mk _ h (by decide) (fun _ => rfl)
    · exact mk _ h (by decide) (fun _ => rfl)
    · exact mk _ h (by decide) (fun _ => rfl)
  case finWait2 =>
    cases rf with
    | false => cases h; exact keep
    | true => exact mk _ h (by decide) (fun _ => rfl)
  all_goals (cases h; exact keep)

theorem sinvE_state {s : Sock} (st : TcpState) (hi : SInvE Q s) (h1 : st = .listen → s.state = .listen)
    (h2 : hasSentFin s.state = true → hasSentFin st = true) : SInvE Q { s with state := st } := by
  obtain ⟨a, f, hi⟩ := hi
  exact ⟨a, f, hi.fok, hi.len, hi.com, hi.una, fun hf => ⟨h2 (hi.fz hf).1, (hi.fz hf).2⟩, fun e => hi.lq (h1 e), hi.out⟩

theorem setStateEstablished_sinv (s s' : Sock) (hi : SInvE Q s) (hns : hasSentFin s.state = false)
    (h : setStateEstablished s = .ok s') : SInvE Q s' := by
  unfold setStateEstablished at h
  obtain ⟨s1, h1, h⟩ := bind_ok h
  obtain ⟨s2, h2, h⟩ := bind_ok h
  simp only [pure, Except.pure] at h
  cases h
  rw [setState_eq h1] at h2
  have k1 : SInvE Q { s with state := .established } :=
    sinvE_state Q _ hi (fun e => by cases e) (fun e => by rw [hns] at e; cases e)
  have k2 := of_triple_pre (adjustMTU_sspec Q _) k1 s2 h2
  unfold emit
  sinv

theorem processFin_sinv (s : Sock) (seg : Segment) (p : Array UInt8) (bc fa : Bool) (clk : UInt32)
    (r : Bool × Sock) (hi : SInvE Q s) (h : processFin s seg p bc fa clk = .ok r) : SInvE Q r.2 := by
  rw [processFin_eq] at h
  obtain ⟨s1, h1, h⟩ := bind_ok h
  have hi1 : SInvE Q s1 := by
    split at h1
    · rename_i hc
      have hst : s.state = .synReceived := by
        have := (Bool.and_eq_true _ _).mp hc
        simpa using this.1
      exact setStateEstablished_sinv Q s s1 hi (by rw [hst]; rfl) h1
    · cases h1; exact hi
  unfold pfMain at h
  split at h
  · simp only at h
    have hib : SInvE Q { s1 with rcv_fin := if (seg.flags &&& cFLAG_FIN) != 0 then seg.seq else s1.rcv_fin } := by
      sinv
    generalize ({ s1 with rcv_fin := if (seg.flags &&& cFLAG_FIN) != 0 then seg.seq else s1.rcv_fin } : Sock) = sb
      at h hib
    split at h
    · simp only [pure, Except.pure] at h; cases h; exact hib
    · obtain ⟨sc, hfsm, h⟩ := bind_ok h
      obtain ⟨st, hsc, g1, g2⟩ := finFsm_eq2 _ _ _ _ hfsm
      have hic : SInvE Q sc := by rw [hsc]; exact sinvE_state Q st hib g1 g2
      exact of_triple_pre (processData_sspec Q sc seg p _ clk) hic r h
  · exact of_triple_pre (processData_sspec Q s1 seg p false clk) hi1 r h

end

end Nice.Proofs.PTcpStream
