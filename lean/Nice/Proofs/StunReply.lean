/-
  No-fault proof for stun_usage_ice_conncheck_create_reply (C05): stun_agent_init_response / _error,
  the address appends, the copy of the request USERNAME, finish, and the `failure:` label.
-/
import Nice.Proofs.StunFinish
namespace Nice.Stun
open Nice.Gen Nice.Spec.Stun Nice.Props.C07

theorem hdr_reads_ok (b : Bytes) (h : 20 ≤ b.size) :
    (∃ c, getClass b = .ok c) ∧ (∃ m, getMethod b = .ok m) ∧ (∃ d, messageId b = .ok d) ∧ (∃ c, hasCookie b = .ok c) := by
  obtain ⟨d, hd, _⟩ := rdBytes_ok (b := b) (off := 4) (n := 16) (by omega)
  refine ⟨by unfold getClass; rw [if_pos (by omega)]; exact ⟨_, rfl⟩,
    by unfold getMethod; rw [if_pos (by omega)]; exact ⟨_, rfl⟩, ⟨d, hd⟩, ?_⟩
  unfold hasCookie messageId
  rw [show STUN_MESSAGE_TRANS_ID_POS = 4 from rfl, show STUN_MESSAGE_TRANS_ID_LEN = 16 from rfl, hd]
  exact ⟨_, rfl⟩

/-- one typed append on a builder state: a status, and a builder state of the same size again -/
def StepOk (a : Option Cfg) (buf : Bytes) (r : M (Ret × Bytes)) : Prop :=
  ∃ ret b, r = .ok (ret, b) ∧ b.size = buf.size ∧ ∃ w', Built a b w'

theorem appendBytes_step (a : Option Cfg) (buf : Bytes) (w t : UInt16) (d : Bytes) (hB : Built a buf w)
    (hcap : buf.size ≤ 65535) (hd : d.size < 2 ^ 63) : StepOk a buf (appendBytes a buf t d) := by
  obtain ⟨x, hx⟩ := C07_no_write_outside_bytes a buf t d (by have := hB.ge20; have := hB.le_size; omega) hd
  obtain ⟨ret, b⟩ := x
  obtain ⟨w', hB', hs'⟩ := preserve_appendBytes a buf w t d ret b hB hcap hd hx
  exact ⟨ret, b, hx, hs', w', hB'⟩

theorem appendAddr_step (a : Option Cfg) (buf : Bytes) (w t : UInt16) (addr : SockAddr) (alen : Nat)
    (hB : Built a buf w) (hcap : buf.size ≤ 65535) : StepOk a buf (appendAddr a buf t addr alen) := by
  have same : ∀ r : Ret, StepOk a buf (.ok (r, buf)) := fun r => ⟨r, buf, rfl, rfl, w, hB⟩
  unfold appendAddr
  split
  · exact same _
  · simp only
    split
    · exact same _
    · split
      · exact same _
      · rename_i family n _
        have hn : n ≤ 16 := by
          rename_i heq
          split at heq
          · have := Option.some.inj heq; have := congrArg Prod.snd this; simp at this; omega
          · split at heq
            · split at heq
              · cases heq
              · have := Option.some.inj heq; have := congrArg Prod.snd this; simp at this; omega
            · cases heq
        obtain ⟨r, hr⟩ := append_ok a buf w t (4 + n) hB (by omega)
        rw [hr]
        cases r with
        | none => exact same _
        | some x =>
          obtain ⟨b, off⟩ := x
          obtain ⟨w', hB', hsz, hw', hoff, hle⟩ := append_built a buf w t (4 + n) b off hB hcap (by omega) hr
          simp only
          have hds : (#[0, family, UInt8.ofNat (addr.port.toNat / 256), UInt8.ofNat addr.port.toNat] ++ takeZ addr.ip n : Bytes).size = 4 + n := by
            simp [takeZ]
          rw [wrBytes_eq (by rw [hds, hoff, hsz]; omega)]
          obtain ⟨w2, hB2, hs2⟩ := preserve_of_write a buf w t (4 + n) _ b _ off hB hcap (by omega)
            (by rw [hds]; exact Nat.le_refl _) hr (wrBytes_eq (by rw [hds, hoff, hsz]; omega))
          exact ⟨_, _, rfl, hs2, w2, hB2⟩

theorem xorAddress_ok' (buf : Bytes) (addr : SockAddr) (alen : Nat) (ck : UInt32) (h : 20 ≤ buf.size) :
    ∃ r, xorAddress buf addr alen ck = .ok r := by
  unfold xorAddress
  split
  · split <;> exact ⟨_, rfl⟩
  · split
    · split
      · exact ⟨_, rfl⟩
      · obtain ⟨d, hd, _⟩ := rdBytes_ok (b := buf) (off := 4) (n := 16) (by omega)
        rw [hd]; exact ⟨_, rfl⟩
    · exact ⟨_, rfl⟩

theorem appendXorAddrFull_step (a : Option Cfg) (buf : Bytes) (w t : UInt16) (addr : SockAddr) (alen : Nat)
    (ck : UInt32) (hB : Built a buf w) (hcap : buf.size ≤ 65535) :
    StepOk a buf (appendXorAddrFull a buf t addr alen ck) := by
  unfold appendXorAddrFull
  simp only
  obtain ⟨r, hr⟩ := xorAddress_ok' buf addr (if alen > sizeofStorage then sizeofStorage else alen) ck
    (by have := hB.ge20; have := hB.le_size; omega)
  rw [hr]
  obtain ⟨ret, tmp⟩ := r
  cases ret with
  | success => exact appendAddr_step a buf w t tmp _ hB hcap
  | notFound | invalid | noSpace | unsupported => exact ⟨_, buf, rfl, rfl, w, hB⟩

/-- `stun_agent_init_response`: never faults (request with at least a header); TRUE leaves a
    well-formed message of the caller's buffer size -/
theorem initResponse_spec (ag : Agent) (old : Msg) (buf : Bytes) (req : Msg) (hsw : SoftwareOk ag)
    (hcap : buf.size ≤ 65535) (hreq : 20 ≤ req.buf.size) :
    ∃ ok m, initResponse ag old buf req = .ok (ok, m) ∧
      (ok = true → m.buf.size = buf.size ∧ ∃ w, Built (some ag.cfg) m.buf w) := by
  obtain ⟨⟨cls, hc⟩, ⟨meth, hm⟩, ⟨id, hid⟩, _⟩ := hdr_reads_ok req.buf hreq
  unfold initResponse
  rw [hc, hm, hid]
  simp only
  split
  · exact ⟨false, _, rfl, fun h => by cases h⟩
  · obtain ⟨r, hr⟩ := C07_init_no_fault buf STUN_RESPONSE meth id
    rw [hr]
    cases r with
    | none => exact ⟨false, _, rfl, fun h => by cases h⟩
    | some b =>
      obtain ⟨hB, hs⟩ := init_built (some ag.cfg) buf STUN_RESPONSE meth id b (by decide) hr
      simp only
      obtain ⟨b2, hb2, hs2, w2, hB2⟩ := maybeSoftware_spec ag b 20 hsw hB (by rw [hs]; exact hcap)
      rw [hb2]
      exact ⟨true, _, rfl, fun _ => ⟨by simp only; rw [hs2, hs], w2, hB2⟩⟩

theorem strerror_lt (code : Nat) : 4 + (strerror code).size < 2 ^ 63 := by
  have := strerror_size code; omega

/-- `stun_agent_init_error` likewise -/
theorem initError_spec (ag : Agent) (old : Msg) (buf : Bytes) (req : Msg) (code : Nat) (hsw : SoftwareOk ag)
    (hcap : buf.size ≤ 65535) (hreq : 20 ≤ req.buf.size) :
    ∃ ok m, initError ag old buf req code = .ok (ok, m) ∧
      (ok = true → m.buf.size = buf.size ∧ ∃ w, Built (some ag.cfg) m.buf w) := by
  obtain ⟨⟨cls, hc⟩, ⟨meth, hm⟩, ⟨id, hid⟩, _⟩ := hdr_reads_ok req.buf hreq
  unfold initError
  rw [hc, hm, hid]
  simp only
  split
  · exact ⟨false, _, rfl, fun h => by cases h⟩
  · obtain ⟨r, hr⟩ := C07_init_no_fault buf STUN_ERROR meth id
    rw [hr]
    cases r with
    | none => exact ⟨false, _, rfl, fun h => by cases h⟩
    | some b =>
      obtain ⟨hB, hs⟩ := init_built (some ag.cfg) buf STUN_ERROR meth id b (by decide) hr
      simp only
      obtain ⟨b2, hb2, hs2, w2, hB2⟩ := maybeSoftware_spec ag b 20 hsw hB (by rw [hs]; exact hcap)
      rw [hb2]
      simp only
      -- stun_message_append_error = append + memcpy of the 4-byte code header and the phrase
      have hss := strerror_size code
      unfold appendError
      simp only
      obtain ⟨ra, hra⟩ := append_ok (some ag.cfg) b2 w2 (UInt16.ofNat STUN_ATTRIBUTE_ERROR_CODE) (4 + (strerror code).size)
        hB2 (by omega)
      rw [hra]
      cases ra with
      | none => exact ⟨false, _, rfl, fun h => by cases h⟩
      | some x =>
        obtain ⟨b3, off⟩ := x
        obtain ⟨w3, hB3, hsz3, hw3, hoff, hle3⟩ := append_built (some ag.cfg) b2 w2 _ _ b3 off hB2
          (by rw [hs2, hs]; exact hcap) (by omega) hra
        simp only
        have hds : (#[0, 0, UInt8.ofNat (code / 100), UInt8.ofNat (code % 100)] ++ strerror code : Bytes).size =
            4 + (strerror code).size := by simp
        have hwr := wrBytes_eq (b := b3) (off := off)
          (src := #[0, 0, UInt8.ofNat (code / 100), UInt8.ofNat (code % 100)] ++ strerror code)
          (by rw [hds, hoff, hsz3]; omega)
        rw [hwr]
        obtain ⟨w4, hB4, hs4⟩ := preserve_of_write (some ag.cfg) b2 w2 _ (4 + (strerror code).size) _ b3 _ off hB2
          (by rw [hs2, hs]; exact hcap) (by omega) (by rw [hds]; exact Nat.le_refl _) hra hwr
        exact ⟨true, _, rfl, fun _ => ⟨by simp only; rw [hs4, hs2, hs], w4, hB4⟩⟩

theorem bindError_ok (H : Hashes) (hH : ∀ k t, (H.hmac k t).size = 20) (ag : Agent) (old : Msg) (buf : Bytes)
    (req : Msg) (code : Nat) (hsw : SoftwareOk ag) (hcap : buf.size ≤ 65535) (hreq : 20 ≤ req.buf.size) :
    ∃ r, bindError H ag old buf req code = .ok r := by
  unfold bindError
  obtain ⟨ok, m, hi, ht⟩ := initError_spec ag old buf req code hsw hcap hreq
  rw [hi]
  cases ok
  · exact ⟨_, rfl⟩
  · obtain ⟨hs, w, hB⟩ := ht rfl
    exact finishMessage_no_fault H hH ag m none w hB (by rw [hs]; exact hcap)

theorem replyFailure_ok (ag : Agent) (c : Bool) (v : Ret) (m : Msg) (hv : v ≠ .success) :
    ∃ r, replyFailure ag c v m = .ok r := by
  unfold replyFailure
  cases v with
  | success => exact absurd rfl hv
  | notFound | invalid | noSpace | unsupported => exact ⟨_, rfl⟩

theorem replyMapped_step (ag : Agent) (buf : Bytes) (w : UInt16) (src : SockAddr) (srclen compat : Nat)
    (hB : Built (some ag.cfg) buf w) (hcap : buf.size ≤ 65535) :
    StepOk (some ag.cfg) buf (replyMapped ag buf src srclen compat) := by
  have h20 : 20 ≤ buf.size := by have := hB.ge20; have := hB.le_size; omega
  obtain ⟨_, _, ⟨id, hid⟩, ⟨hc, hhc⟩⟩ := hdr_reads_ok buf h20
  unfold replyMapped
  simp only
  split
  · unfold msnCookie; rw [hid]
    exact appendXorAddrFull_step _ _ w _ _ _ _ hB hcap
  · rw [hhc]
    simp only
    split
    · exact appendXorAddrFull_step _ _ w _ _ _ _ hB hcap
    · exact appendAddr_step _ _ w _ _ _ hB hcap

theorem replyUsername_step (ag : Agent) (buf : Bytes) (w : UInt16) (req : Msg) (hB : Built (some ag.cfg) buf w)
    (hcap : buf.size ≤ 65535) (hreq : Valid req.agent req.buf) :
    StepOk (some ag.cfg) buf (replyUsername ag buf req) := by
  obtain ⟨r, hf, hin⟩ := find_valid req.agent req.buf tUSERNAME hreq
  unfold replyUsername
  rw [hf]
  cases r with
  | none => exact ⟨_, buf, rfl, rfl, w, hB⟩
  | some x =>
    obtain ⟨off, len⟩ := x
    obtain ⟨_, h2⟩ := hin off len rfl
    obtain ⟨d, hd, hds⟩ := rdBytes_ok (b := req.buf) (off := off) (n := len.toNat) (by omega)
    simp only
    rw [hd]
    have := len.toNat_lt
    exact appendBytes_step _ _ w _ d hB hcap (by rw [hds]; omega)

theorem replyBody_ok (H : Hashes) (hH : ∀ k t, (H.hmac k t).size = 20) (ag : Agent) (req m : Msg) (w : UInt16)
    (src : SockAddr) (srclen compat : Nat) (c : Bool) (ret : Nat) (hB : Built (some ag.cfg) m.buf w)
    (hcap : m.buf.size ≤ 65535) (hreq : Valid req.agent req.buf) :
    ∃ r, replyBody H ag req m src srclen compat c ret = .ok r := by
  unfold replyBody
  obtain ⟨v1, b1, h1, hs1, w1, hB1⟩ := replyMapped_step ag m.buf w src srclen compat hB hcap
  rw [h1]
  cases v1 with
  | notFound | invalid | noSpace | unsupported => exact replyFailure_ok _ _ _ _ (by decide)
  | success =>
    simp only
    obtain ⟨v2, b2, h2, hs2, w2, hB2⟩ := replyUsername_step ag b1 w1 req hB1 (by rw [hs1]; exact hcap) hreq
    rw [h2]
    cases v2 with
    | notFound | invalid | noSpace | unsupported => exact replyFailure_ok _ _ _ _ (by decide)
    | success =>
      simp only
      have hcap2 : b2.size ≤ 65535 := by rw [hs2, hs1]; exact hcap
      have hir : StepOk (some ag.cfg) b2 (if compat == STUN_USAGE_ICE_COMPATIBILITY_MSICE2 then
          append32 (some ag.cfg) b2 (attrT STUN_ATTRIBUTE_MS_IMPLEMENTATION_VERSION) 2 else .ok (.success, b2)) := by
        split
        · exact appendBytes_step _ _ w2 _ (be32Bytes 2) hB2 hcap2 (by decide)
        · exact ⟨_, b2, rfl, rfl, w2, hB2⟩
      obtain ⟨v3, b3, h3, hs3, w3, hB3⟩ := hir
      have h3' : (if (compat == STUN_USAGE_ICE_COMPATIBILITY_MSICE2) = true then
          append32 (some ag.cfg) b2 (attrT STUN_ATTRIBUTE_MS_IMPLEMENTATION_VERSION) 2 else Except.ok (Ret.success, b2)) =
          .ok (v3, b3) := h3
      rw [h3']
      cases v3 with
      | notFound | invalid | noSpace | unsupported => exact replyFailure_ok _ _ _ _ (by decide)
      | success =>
        simp only
        obtain ⟨rf, hrf⟩ := finishMessage_no_fault H hH ag { m with buf := b3 } none w3 hB3
          (by simp only; rw [hs3]; exact hcap2)
        have hrf' : finishMessage H ag { buf := b3, agent := m.agent, key := m.key, ltKey := m.ltKey, ltValid := m.ltValid } none = .ok rf := hrf
        rw [hrf']
        obtain ⟨n, ag', m'⟩ := rf
        cases n with
        | zero =>
          simp only
          obtain ⟨x, hx⟩ := replyFailure_ok ag c .noSpace m' (by decide)
          rw [hx]; exact ⟨_, rfl⟩
        | succ n => exact ⟨_, rfl⟩

/-- `stun_usage_ice_conncheck_create_reply` returns a status for every validated request, every output
    buffer of 0..65535 bytes, every source address / address length, role, tie-breaker and dialect:
    no access outside the request or the output buffer, the `assert (0)` at `failure:` is unreachable -/
theorem iceCreateReply_no_fault (H : Hashes) (hH : ∀ k t, (H.hmac k t).size = 20) (ag : Agent) (req old : Msg)
    (buf : Bytes) (src : SockAddr) (srclen : Nat) (control : Bool) (tie : UInt64) (compat : Nat)
    (hsw : SoftwareOk ag) (hcap : buf.size ≤ 65535) (hreq : Valid req.agent req.buf) :
    ∃ r, iceCreateReply H ag req old buf src srclen control tie compat = .ok r := by
  have h20 := Valid.size_ge _ _ hreq
  obtain ⟨⟨cls, hc⟩, ⟨meth, hm⟩, _, _⟩ := hdr_reads_ok req.buf h20
  unfold iceCreateReply
  rw [hc, hm]
  simp only
  split
  · exact ⟨_, rfl⟩
  · split
    · obtain ⟨r, hr⟩ := bindError_ok H hH ag old buf req STUN_ERROR_BAD_REQUEST hsw hcap h20
      rw [hr]; exact ⟨_, rfl⟩
    · obtain ⟨_, _, _, ⟨r1, h1⟩, _⟩ := accessors_no_fault req.agent req.buf
        (UInt16.ofNat (if control then STUN_ATTRIBUTE_ICE_CONTROLLING else STUN_ATTRIBUTE_ICE_CONTROLLED)) hreq
      obtain ⟨_, _, _, ⟨r2, h2⟩, _⟩ := accessors_no_fault req.agent req.buf
        (UInt16.ofNat (if control then STUN_ATTRIBUTE_ICE_CONTROLLED else STUN_ATTRIBUTE_ICE_CONTROLLING)) hreq
      have h1' : find64 req.agent req.buf (attrT (if control = true then STUN_ATTRIBUTE_ICE_CONTROLLING else STUN_ATTRIBUTE_ICE_CONTROLLED)) = .ok r1 := h1
      have h2' : find64 req.agent req.buf (attrT (if control = true then STUN_ATTRIBUTE_ICE_CONTROLLED else STUN_ATTRIBUTE_ICE_CONTROLLING)) = .ok r2 := h2
      rw [h1', h2']
      obtain ⟨ret1, q⟩ := r1
      simp only
      split
      · obtain ⟨r, hr⟩ := bindError_ok H hH ag old buf req STUN_ERROR_ROLE_CONFLICT hsw hcap h20
        rw [hr]; exact ⟨_, rfl⟩
      · rename_i control' ret _
        obtain ⟨ok, m, hi, ht⟩ := initResponse_spec ag old buf req hsw hcap h20
        rw [hi]
        cases ok
        · exact replyFailure_ok _ _ _ _ (by decide)
        · obtain ⟨hs, w, hB⟩ := ht rfl
          exact replyBody_ok H hH ag req m w src srclen compat control' ret hB (by rw [hs]; exact hcap) hreq

end Nice.Stun
