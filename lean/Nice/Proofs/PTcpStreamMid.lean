/-
  C08 end-to-end (receive side), handshake part 1: the "nothing received yet" invariant `MidP` (`rcv_nxt = 0`, empty
  ring, empty `rlist`, ring at least as large as the peer's connect message, state in a set `P`) is kept by the sending
  half of `Nice.PTcp`.  (Same proofs as `PTcpStreamSend`, for a different invariant.)
-/
import Nice.Proofs.PTcpStreamRecv
namespace Nice.Proofs.PTcpStream
open Nice.PTcp Nice.Gen Nice.Proofs.PTcp Std.Do

set_option mvcgen.warning false
set_option maxRecDepth 16000
set_option linter.unusedSimpArgs false

/-- the receive side before the peer's connect message has been consumed; `P` constrains the state -/
structure MidP (W : List UInt8) (D : Nat) (P : TcpState → Prop) (s : Sock) : Prop where
  fok : FOk s.rbuf
  nx : s.rcv_nxt = 0
  dz : s.rbuf.data = 0
  rl : s.rlist = []
  cap : D ≤ s.rbuf.buf.size
  finp : s.rcv_fin = 0 ∨ s.rcv_fin.toNat = D + W.length
  stk : P s.state

/-- state is `st0`, or CLOSED (what the send-side functions may do to it) -/
abbrev MidS (W : List UInt8) (D : Nat) (st0 : TcpState) (s : Sock) : Prop :=
  MidP W D (fun x => x = st0 ∨ x = .closed) s

macro "mid" : tactic => `(tactic| (
  first
  | assumption
  | (have hm := ‹MidP _ _ _ _›
     exact ⟨hm.fok, hm.nx, hm.dz, hm.rl, hm.cap, hm.finp, by first | exact hm.stk | assumption⟩)
  | skip))

section
variable (W : List UInt8) (D : Nat) (P : TcpState → Prop)

theorem closedownNav_mspec (hP : P .closed) (s : Sock) (e : Err) :
    ⦃⌜MidP W D P s⌝⦄ closedownNav s e ⦃⇓? s' => ⌜MidP W D P s'⌝⦄ :=
  to_triple fun hi s' h => by
    obtain ⟨o, rfl⟩ := closedownNav_eq h
    mid

theorem adjustMTU_mspec (s : Sock) : ⦃⌜MidP W D P s⌝⦄ adjustMTU s ⦃⇓? s' => ⌜MidP W D P s'⌝⦄ := by
  mvcgen [adjustMTU, adjustMTULevel_spec] <;> mid

theorem queue_mspec (s : Sock) (d : Array UInt8) (len : UInt32) (fl : UInt8) :
    ⦃⌜MidP W D P s⌝⦄ queue s d len fl ⦃⇓? r => ⌜MidP W D P r.2⌝⦄ := by
  mvcgen [queue, fwrite_tspec] <;> mid

theorem queueConnectMessage_mspec (s : Sock) :
    ⦃⌜MidP W D P s⌝⦄ queueConnectMessage s ⦃⇓? s' => ⌜MidP W D P s'⌝⦄ := by
  (have h_queue := queue_mspec W D P; mvcgen [queueConnectMessage, h_queue] <;> mid)

theorem queueFinMessage_mspec (s : Sock) :
    ⦃⌜MidP W D P s⌝⦄ queueFinMessage s ⦃⇓? s' => ⌜MidP W D P s'⌝⦄ := by
  (have h_queue := queue_mspec W D P; mvcgen [queueFinMessage, h_queue] <;> mid)

theorem queueRstMessage_mspec (s : Sock) :
    ⦃⌜MidP W D P s⌝⦄ queueRstMessage s ⦃⇓? s' => ⌜MidP W D P s'⌝⦄ := by
  (have h_queue := queue_mspec W D P; mvcgen [queueRstMessage, h_queue] <;> mid)

theorem packet_mspec (s : Sock) (seq : UInt32) (fl : UInt8) (off len now : UInt32) :
    ⦃⌜MidP W D P s⌝⦄ packet s seq fl off len now ⦃⇓? r => ⌜MidP W D P r.2⌝⦄ := by
  mvcgen [packet, readOffset_spec] <;> mid

theorem mssDownLoop_mspec (fuel : Nat) (s : Sock) (k : UInt32) :
    ⦃⌜MidP W D P s⌝⦄ mssDownLoop fuel s k ⦃⇓? r => ⌜MidP W D P r.2.1⌝⦄ := by
  induction fuel generalizing s k with
  | zero => mvcgen [mssDownLoop]
  | succ f ih => mvcgen [mssDownLoop, pktMax_spec, ih] <;> mid

theorem transmitLoop_mspec (idx : Nat) (now : UInt32) (fuel : Nat) (s : Sock) (k : UInt32) :
    ⦃⌜MidP W D P s⌝⦄ transmitLoop idx now fuel s k ⦃⇓? r => ⌜MidP W D P r.2.1⌝⦄ := by
  induction fuel generalizing s k with
  | zero => mvcgen [transmitLoop]
  | succ f ih => (have h_packet := packet_mspec W D P; have h_mssDownLoop := mssDownLoop_mspec W D P; mvcgen [transmitLoop, h_packet, h_mssDownLoop, ih] <;> mid)

theorem transmit_mspec (s : Sock) (idx : Nat) (now : UInt32) :
    ⦃⌜MidP W D P s⌝⦄ transmit s idx now ⦃⇓? r => ⌜MidP W D P r.2⌝⦄ := by
  (have h_transmitLoop := transmitLoop_mspec W D P; mvcgen [transmit, h_transmitLoop] <;> mid)

theorem attemptSendLoop_mspec (hP : P .closed) (now : UInt32) (fuel : Nat) (s : Sock) (sf : SendFlags) :
    ⦃⌜MidP W D P s⌝⦄ attemptSendLoop now fuel s sf ⦃⇓? s' => ⌜MidP W D P s'⌝⦄ := by
  induction fuel generalizing s sf with
  | zero => mvcgen [attemptSendLoop]
  | succ f ih => (have h_packet := packet_mspec W D P; have h_transmit := transmit_mspec W D P; have h_closedownNav := closedownNav_mspec W D P hP; mvcgen [attemptSendLoop, h_packet, h_transmit, h_closedownNav, ih] <;> mid)

theorem attemptSend_mspec (hP : P .closed) (s : Sock) (sf : SendFlags) (clk : UInt32) :
    ⦃⌜MidP W D P s⌝⦄ attemptSend s sf clk ⦃⇓? s' => ⌜MidP W D P s'⌝⦄ := by
  (have h_attemptSendLoop := attemptSendLoop_mspec W D P hP; mvcgen [attemptSend, h_attemptSendLoop] <;> mid)

theorem closedown_mspec (hP : P .closed) (s : Sock) (e : Err) (src : ClosedownSource) (clk : UInt32) :
    ⦃⌜MidP W D P s⌝⦄ closedown s e src clk ⦃⇓? s' => ⌜MidP W D P s'⌝⦄ := by
  (have h_queueRstMessage := queueRstMessage_mspec W D P; have h_attemptSend := attemptSend_mspec W D P hP; have h_closedownNav := closedownNav_mspec W D P hP; mvcgen [closedown, h_queueRstMessage, h_attemptSend, h_closedownNav] <;> mid)

end

end Nice.Proofs.PTcpStream
