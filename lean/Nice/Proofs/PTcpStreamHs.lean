/-
  C08 end-to-end (receive side), handshake part 2: a packet delivered to a socket in LISTEN / SYN-SENT whose receive side
  is untouched either leaves it untouched (`rcv_nxt = 0`) or — when it is the peer's connect message and its data stage
  is reached — establishes the stream invariant `RInv W D 0`.
-/
import Nice.Proofs.PTcpStreamMid
import Nice.Proofs.PTcpStreamSnd4
namespace Nice.Proofs.PTcpStream
open Nice.PTcp Nice.Gen Nice.Proofs.PTcp Std.Do

set_option mvcgen.warning false
set_option maxRecDepth 16000
set_option linter.unusedSimpArgs false

/-- outcome of a handshake-phase step: still nothing received, or the connect message has been consumed -/
def MidOrInv (W : List UInt8) (D : Nat) (st0 : TcpState) (s : Sock) : Prop := MidS W D st0 s ∨ RInvS W D 0 st0 s

section
variable (W : List UInt8) (D : Nat)

theorem mid_avail {P : TcpState → Prop} {s : Sock} (hm : MidP W D P s) : s.rbuf.getWriteRemaining = s.rbuf.buf.size := by
  unfold Fifo.getWriteRemaining Fifo.cap
  rw [gsub_of_le hm.fok.1.1 hm.fok.2, hm.dz]; rfl

/-- data stage, connect message: consumed whole (`rcv_nxt := D`), which establishes the invariant -/
theorem pdMain_mid_ctl (st0 : TcpState) (s0 : Sock) (seg : Segment) (p : Array UInt8) (clk : UInt32) (r : Bool × Sock)
    (hm : MidS W D st0 s0) (hph : st0 ≠ .listen ∧ st0 ≠ .synSent) (hnF : ¬ Fin4 st0)
    (hctl : (seg.flags &&& cFLAG_CTL) ≠ 0) (hseg : SegOk W D seg p)
    (h : pdMain s0 seg p false clk = .ok r) : MidOrInv W D st0 r.2 := by
  have hs1 : s0.state ≠ .listen := by
    rcases hm.stk with e | e <;> rw [e]
    · exact hph.1
    · decide
  have hs2 : s0.state ≠ .synSent := by
    rcases hm.stk with e | e <;> rw [e]
    · exact hph.2
    · decide
  unfold pdMain at h
  rw [dropPre_id _ _ hs1 hs2] at h
  obtain ⟨⟨s1, sflags, bNew⟩, hst, h⟩ := bind_ok h
  simp only [Bool.false_eq_true, if_false] at h
  obtain ⟨s3, has, h⟩ := bind_ok h
  simp only [pure, Except.pure] at h
  cases h
  rcases hseg.ctl hctl with h0 | h0
  · -- empty control segment: nothing happens
    rw [storeStage_len0 _ _ _ _ _ (trimmed_len0 _ _ h0)] at hst
    cases hst
    have k := of_triple_pre (attemptSend_mspec W D (fun x => x = st0 ∨ x = .closed) (Or.inr rfl) _ _ clk)
      (⟨hm.fok, hm.nx, hm.dz, hm.rl, hm.cap, hm.finp, hm.stk⟩ : MidS W D st0 { s0 with rcv_nxt := s0.rcv_nxt }) s3 has
    exact Or.inl ⟨k.fok, k.nx, k.dz, k.rl, k.cap, k.finp, k.stk⟩
  · have hl : seg.len ≠ 0 ∨ seg.len = 0 := by
      by_cases e : seg.len = 0
      · exact Or.inr e
      · exact Or.inl e
    rcases hl with hl | hl
    · have hid : trimmed s0 seg = seg := by
        apply trimmed_id
        · rw [h0.1, hm.nx]
        · rw [mid_avail W D hm, h0.2]; exact hm.cap
      rw [hid] at hst
      have hig : ignoreData s0 seg = true := by
        unfold ignoreData
        have : ((seg.flags &&& cFLAG_CTL) != 0) = true := by simpa using hctl
        rw [this, Bool.true_or]
      rw [hig, storeStage_ignore _ _ _ _ hl] at hst
      cases hst
      have hnx : (if (seg.seq == s0.rcv_nxt) = true then s0.rcv_nxt + seg.len else s0.rcv_nxt) = seg.len := by
        rw [h0.1, hm.nx]
        simp
      have k0 : RInvS W D 0 st0
          { s0 with rcv_nxt := if (seg.seq == s0.rcv_nxt) = true then s0.rcv_nxt + seg.len else s0.rcv_nxt } := by
        refine ⟨⟨hm.fok, by show 0 + s0.rbuf.data ≤ _; rw [hm.dz]; exact Nat.zero_le _, ?_, Or.inr ⟨Or.inl ?_, ?_⟩, hm.finp⟩, hph,
          fun hF => absurd hF hnF, hm.stk⟩
        · intro i hi
          have : i < s0.rbuf.data := hi
          rw [hm.dz] at this; exact absurd this (Nat.not_lt_zero _)
        · show (if (seg.seq == s0.rcv_nxt) = true then s0.rcv_nxt + seg.len else s0.rcv_nxt).toNat = D + 0 + s0.rbuf.data
          rw [hnx, h0.2, hm.dz]; omega
        · intro r hr
          have : r ∈ s0.rlist := hr
          rw [hm.rl] at this; cases this
      have k := of_triple_pre (attemptSend_rspec W D 0 st0 _ _ clk)
        (⟨k0.core, k0.ph, k0.fin4, k0.stk⟩ : RInvS W D 0 st0 _) s3 has
      exact Or.inr ⟨⟨k.core.fok, k.core.pre, k.core.com, k.core.sync, k.core.finp⟩, k.ph, k.fin4, k.stk⟩
    · rw [storeStage_len0 _ _ _ _ _ (trimmed_len0 _ _ hl)] at hst
      cases hst
      have k := of_triple_pre (attemptSend_mspec W D (fun x => x = st0 ∨ x = .closed) (Or.inr rfl) _ _ clk)
        (⟨hm.fok, hm.nx, hm.dz, hm.rl, hm.cap, hm.finp, hm.stk⟩ : MidS W D st0 { s0 with rcv_nxt := s0.rcv_nxt }) s3 has
      exact Or.inl ⟨k.fok, k.nx, k.dz, k.rl, k.cap, k.finp, k.stk⟩

/-- data stage in LISTEN / SYN-SENT, ordinary segment: its data is dropped, nothing changes -/
theorem pdMain_mid_pre (st0 : TcpState) (s0 : Sock) (seg : Segment) (p : Array UInt8) (clk : UInt32) (r : Bool × Sock)
    (hm : MidP W D (fun x => x = st0) s0) (hst0 : st0 = .listen ∨ st0 = .synSent)
    (hctl : (seg.flags &&& cFLAG_CTL) = 0) (h : pdMain s0 seg p false clk = .ok r) : MidS W D st0 r.2 := by
  unfold pdMain at h
  have hst : s0.state = st0 := hm.stk
  have hdrop : (dropPre s0 (trimmed s0 seg)).len = 0 := by
    unfold dropPre
    have c1 : ((trimmed s0 seg).flags &&& cFLAG_CTL) = 0 := by rw [trimmed_flags]; exact hctl
    have c2 : (decide (s0.state = .listen) || decide (s0.state = .synSent)) = true := by
      rw [hst]; rcases hst0 with e | e <;> simp [e]
    rw [c1, c2]; rfl
  rw [storeStage_len0 _ _ _ _ _ hdrop] at h
  simp only [bind, Except.bind, Bool.false_eq_true, if_false] at h
  cases has : attemptSend { s0 with rcv_nxt := s0.rcv_nxt } (pdFlags s0 seg false) clk with
  | error e => rw [has] at h; cases h
  | ok s3 =>
    rw [has] at h
    simp only [pure, Except.pure] at h
    cases h
    have k := of_triple_pre (attemptSend_mspec W D (fun x => x = st0 ∨ x = .closed) (Or.inr rfl) _ _ clk)
      (⟨hm.fok, hm.nx, hm.dz, hm.rl, hm.cap, hm.finp, Or.inl hst⟩ : MidS W D st0 { s0 with rcv_nxt := s0.rcv_nxt }) s3 has
    exact ⟨k.fok, k.nx, k.dz, k.rl, k.cap, k.finp, k.stk⟩

theorem recvFin_mid {P : TcpState → Prop} {s : Sock} (hm : MidP W D P s) (seg : Segment) : recvFin s seg = false := by
  unfold recvFin
  rw [hm.nx]; rfl

/-- without `received_fin` the state switch does nothing in the handshake states -/
theorem finFsm_noop (s : Sock) (fa : Bool)
    (hs : s.state = .listen ∨ s.state = .synSent ∨ s.state = .synReceived ∨ s.state = .established) :
    finFsm s false fa = .ok s := by
  unfold finFsm
  rcases hs with e | e | e | e <;> rw [e] <;> rfl

/-- the case analysis of the handshake phase: the connect message on a socket that has just left LISTEN / SYN-SENT, or
    an ordinary segment on a socket still in LISTEN / SYN-SENT -/
def HsCase (st0 : TcpState) (seg : Segment) (bc : Bool) : Prop :=
  ((seg.flags &&& cFLAG_CTL) ≠ 0 ∧ bc = true ∧ (st0 = .synReceived ∨ st0 = .established)) ∨
  ((seg.flags &&& cFLAG_CTL) = 0 ∧ (st0 = .listen ∨ st0 = .synSent))

theorem hsCase_states {st0 : TcpState} {seg : Segment} {bc : Bool} (h : HsCase st0 seg bc) :
    st0 = .listen ∨ st0 = .synSent ∨ st0 = .synReceived ∨ st0 = .established := by
  rcases h with ⟨_, _, h | h⟩ | ⟨_, h | h⟩
  · exact Or.inr (Or.inr (Or.inl h))
  · exact Or.inr (Or.inr (Or.inr h))
  · exact Or.inl h
  · exact Or.inr (Or.inl h)

theorem processData_mid (st0 : TcpState) (s : Sock) (seg : Segment) (p : Array UInt8) (bc : Bool) (clk : UInt32)
    (r : Bool × Sock) (hm : MidP W D (fun x => x = st0) s) (hc : HsCase st0 seg bc) (hseg : SegOk W D seg p)
    (h : processData s seg p false clk = .ok r) : MidOrInv W D st0 r.2 := by
  rw [processData_eq'] at h
  have hst : s.state = st0 := hm.stk
  rcases hc with ⟨c1, _, c3⟩ | ⟨c1, c3⟩
  · have hm0 : MidS W D st0 (pdPrep s) := ⟨hm.fok, hm.nx, hm.dz, hm.rl, hm.cap, hm.finp, Or.inl hst⟩
    refine pdMain_mid_ctl W D st0 (pdPrep s) seg p clk r hm0 ?_ ?_ c1 hseg h
    · rcases c3 with e | e <;> rw [e] <;> exact ⟨by decide, by decide⟩
    · rcases c3 with e | e <;> rw [e] <;> (unfold Fin4; simp)
  · have hm0 : MidP W D (fun x => x = st0) (pdPrep s) := ⟨hm.fok, hm.nx, hm.dz, hm.rl, hm.cap, hm.finp, hst⟩
    exact Or.inl (pdMain_mid_pre W D st0 (pdPrep s) seg p clk r hm0 c3 c1 h)

theorem processFin_mid (st0 : TcpState) (seg : Segment) (p : Array UInt8) (bc : Bool) (clk : UInt32)
    (hc : HsCase st0 seg bc) (hseg : SegOk W D seg p) (s : Sock) (fa : Bool) (r : Bool × Sock)
    (hm : MidP W D (fun x => x = st0) s) (h : processFin s seg p bc fa clk = .ok r) : MidOrInv W D st0 r.2 := by
  have hst : s.state = st0 := hm.stk
  rw [processFin_eq] at h
  have hno : (decide (s.state = .synReceived) && !bc) = false := by
    rcases hc with ⟨_, c2, _⟩ | ⟨_, c3⟩
    · rw [c2]; simp
    · rw [hst]; rcases c3 with e | e <;> rw [e] <;> rfl
  obtain ⟨s1, h1, h⟩ := bind_ok h
  rw [hno] at h1
  simp only [Bool.false_eq_true, if_false, pure, Except.pure] at h1
  cases h1
  unfold pfMain at h
  split at h
  · simp only at h
    have hmb : MidP W D (fun x => x = st0)
        { s with rcv_fin := if (seg.flags &&& cFLAG_FIN) != 0 then seg.seq else s.rcv_fin } := by
      refine ⟨hm.fok, hm.nx, hm.dz, hm.rl, hm.cap, ?_, hst⟩
      show (if (seg.flags &&& cFLAG_FIN) != 0 then seg.seq else s.rcv_fin) = 0 ∨ _
      split
      · rename_i hf
        exact Or.inr (hseg.fin (by simpa using hf))
      · exact hm.finp
    generalize ({ s with rcv_fin := if (seg.flags &&& cFLAG_FIN) != 0 then seg.seq else s.rcv_fin } : Sock) = sb
      at h hmb
    split at h
    · simp only [pure, Except.pure] at h
      cases h
      exact Or.inl ⟨hmb.fok, hmb.nx, hmb.dz, hmb.rl, hmb.cap, hmb.finp, Or.inl hmb.stk⟩
    · rw [recvFin_mid W D hmb] at h
      obtain ⟨sc, hfsm, h⟩ := bind_ok h
      rw [finFsm_noop sb fa (by rw [hmb.stk]; exact hsCase_states hc)] at hfsm
      cases hfsm
      exact processData_mid W D st0 sb seg p bc clk r hmb hc hseg h
  · exact processData_mid W D st0 s seg p bc clk r hm hc hseg h

/-- closes the verification conditions of the handshake-phase specs -/
macro "mide" : tactic => `(tactic| (
  first
  | assumption
  | (have hm := ‹MidP _ _ (fun x => x = _) _›
     first
     | exact ⟨hm.fok, hm.nx, hm.dz, hm.rl, hm.cap, hm.finp, hm.stk⟩
     | exact ⟨hm.fok, hm.nx, hm.dz, hm.rl, hm.cap, hm.finp, Or.inl hm.stk⟩
     | exact Or.inl ⟨hm.fok, hm.nx, hm.dz, hm.rl, hm.cap, hm.finp, Or.inl hm.stk⟩)
  | (have hm := ‹MidP _ _ (fun x => x = _ ∨ x = TcpState.closed) _›
     exact Or.inl ⟨hm.fok, hm.nx, hm.dz, hm.rl, hm.cap, hm.finp, hm.stk⟩)
  | skip))

theorem rttSample_mspec (P : TcpState → Prop) (s : Sock) (ts : UInt32) (rtt : Int) :
    ⦃⌜MidP W D P s⌝⦄ rttSample s ts rtt ⦃⇓? s' => ⌜MidP W D P s'⌝⦄ := by
  mvcgen [rttSample]
  rename_i h
  split
  · unfold updateRtt; split <;> exact ⟨h.fok, h.nx, h.dz, h.rl, h.cap, h.finp, h.stk⟩
  · exact h

theorem processAck_mid (st0 : TcpState) (seg : Segment) (p : Array UInt8) (bc : Bool) (clk : UInt32)
    (hc : HsCase st0 seg bc) (hseg : SegOk W D seg p) (s : Sock) (now : UInt32) :
    ⦃⌜MidP W D (fun x => x = st0) s⌝⦄ processAck s seg p bc now clk ⦃⇓? r => ⌜MidOrInv W D st0 r.2⌝⦄ := by
  have h_pf : ∀ (s : Sock) (fa : Bool),
      ⦃⌜MidP W D (fun x => x = st0) s⌝⦄ processFin s seg p bc fa clk ⦃⇓? r => ⌜MidOrInv W D st0 r.2⌝⦄ :=
    fun s fa => to_triple fun hm r h => processFin_mid W D st0 seg p bc clk hc hseg s fa r hm h
  have h_tr := transmit_mspec W D (fun x => x = st0)
  have h_cd := closedown_mspec W D (fun x => x = st0 ∨ x = .closed) (Or.inr rfl)
  have h_rtt := rttSample_mspec W D (fun x => x = st0)
  mvcgen [processAck, h_rtt, shiftWnd_spec, consumeReadData_tspec, ackLoop_spec, h_tr, h_cd, h_pf] <;> mide

/-! ### option negotiation and the handshake transitions -/

theorem scale_default : scaleLoop 33 (UInt32.ofNat DEFAULT_RCV_BUF_SIZE) 0 = (61440, 0) := by decide

/-- `parse_options` falling back to the default receive buffer: the ring is replaced by an empty one of 61440 bytes, or
    kept -/
theorem resizeDefault_mid (P : TcpState → Prop) (hD : D ≤ DEFAULT_RCV_BUF_SIZE) (s s' : Sock) (hm : MidP W D P s)
    (h : resizeReceiveBuffer s (UInt32.ofNat DEFAULT_RCV_BUF_SIZE) = .ok s') : MidP W D P s' := by
  unfold resizeReceiveBuffer at h
  split at h
  · cases h; exact hm
  · rw [scale_default] at h
    simp only at h
    split at h
    · cases h
    · obtain ⟨⟨res, rb⟩, hsc, h⟩ := bind_ok h
      have ⟨g1, g2⟩ := setCapacity_ok hm.fok.1 hsc
      simp only at h
      split at h
      · simp only [pure, Except.pure] at h; cases h; exact hm
      · simp only [pure, Except.pure] at h
        cases h
        have e0 : ((61440 : UInt32) <<< (0 : UInt8).toUInt32).toNat = 61440 := by decide
        rcases g2 with g2 | g2
        · subst g2
          exact ⟨hm.fok, hm.nx, hm.dz, hm.rl, hm.cap, hm.finp, hm.stk⟩
        · have hsz : rb.buf.size = 61440 := by rw [g2.2.1, e0]
          refine ⟨⟨g1, by rw [hsz]; decide⟩, hm.nx, by show rb.data = 0; rw [g2.2.2]; exact hm.dz, hm.rl, ?_, hm.finp, hm.stk⟩
          show D ≤ rb.buf.size
          rw [hsz]; exact hD

theorem applyOption_mspec (P : TcpState → Prop) (s : Sock) (k : UInt8) (p : Array UInt8) (off len : Nat) :
    ⦃⌜MidP W D P s⌝⦄ applyOption s k p off len ⦃⇓? s' => ⌜MidP W D P s'⌝⦄ := by
  mvcgen [applyOption, rd_spec] <;> mid

theorem parseOptionsLoop_mspec (P : TcpState → Prop) (s : Sock) (p : Array UInt8) (base len pos : Nat) (w f : Bool) :
    ⦃⌜MidP W D P s⌝⦄ parseOptionsLoop s p base len pos w f ⦃⇓? r => ⌜MidP W D P r.1⌝⦄ := by
  induction h : len - pos using Nat.strongRecOn generalizing s pos w f with
  | _ n ih =>
    unfold parseOptionsLoop
    have h1 := applyOption_mspec W D P
    mvcgen [rd_spec, h1] <;> mid
    · rename_i hlt _ hi _ _ _ _
      exact ih _ (by omega) s _ w f rfl hi
    · intro hi
      exact ih _ (by omega) _ _ _ _ rfl hi

theorem parseOptions_mspec (P : TcpState → Prop) (hD : D ≤ DEFAULT_RCV_BUF_SIZE) (s : Sock) (p : Array UInt8)
    (base len : Nat) : ⦃⌜MidP W D P s⌝⦄ parseOptions s p base len ⦃⇓? s' => ⌜MidP W D P s'⌝⦄ := by
  have h1 := parseOptionsLoop_mspec W D P
  have h2 : ∀ s : Sock, ⦃⌜MidP W D P s⌝⦄ resizeReceiveBuffer s (UInt32.ofNat DEFAULT_RCV_BUF_SIZE)
      ⦃⇓? s' => ⌜MidP W D P s'⌝⦄ := fun s => to_triple fun hm s' h => resizeDefault_mid W D P hD s s' hm h
  mvcgen [parseOptions, h1, h2] <;> mid

/-- **the handshake step.**  A packet delivered to a socket in LISTEN / SYN-SENT whose receive side is untouched
    (`MidP`: `rcv_nxt = 0`, empty ring at least as large as the connect message, empty `rlist`) leaves the receive side
    untouched, or establishes the stream invariant (the peer's connect message has been consumed: `rcv_nxt = D`). -/
theorem processBody_handshake (hD : D ≤ DEFAULT_RCV_BUF_SIZE) (st0 : TcpState) (hst0 : st0 = .listen ∨ st0 = .synSent)
    (s : Sock) (seg : Segment) (p : Array UInt8) (clk : UInt32) (r : Bool × Sock)
    (hm : MidP W D (fun x => x = st0) s) (hseg : SegOk W D seg p) (h : processBody s seg p clk = .ok r) :
    ∃ st1, MidOrInv W D st1 r.2 := by
  rw [processBody_eq0] at h
  have hm0 : MidP W D (fun x => x = st0) { s with last_traffic := getCurrentTime s clk, lastrecv := getCurrentTime s clk, bOutgoing := false } :=
    ⟨hm.fok, hm.nx, hm.dz, hm.rl, hm.cap, hm.finp, hm.stk⟩
  generalize ({ s with last_traffic := getCurrentTime s clk, lastrecv := getCurrentTime s clk, bOutgoing := false } : Sock) = s0 at h hm0
  have hst : s0.state = st0 := hm0.stk
  have hmS : MidS W D st0 s0 := ⟨hm0.fok, hm0.nx, hm0.dz, hm0.rl, hm0.cap, hm0.finp, Or.inl hst⟩
  have cd : ∀ (e : Err) (src : ClosedownSource) (s1 : Sock), closedown s0 e src clk = .ok s1 → ∃ st1, MidOrInv W D st1 s1 :=
    fun e src s1 h1 =>
      ⟨st0, Or.inl (of_triple_pre (closedown_mspec W D (fun x => x = st0 ∨ x = .closed) (Or.inr rfl) s0 e src clk) hmS s1 h1)⟩
  unfold processBody0 at h
  split at h
  · split at h
    · obtain ⟨s1, h1, h⟩ := bind_ok h
      simp only [pure, Except.pure] at h; cases h
      exact cd _ _ s1 h1
    · simp only [pure, Except.pure] at h; cases h
      exact ⟨st0, Or.inl hmS⟩
  · split at h
    · obtain ⟨s1, h1, h⟩ := bind_ok h
      simp only [pure, Except.pure] at h; cases h
      exact cd _ _ s1 h1
    · split at h
      · rename_i hctl
        have hctl' : (seg.flags &&& cFLAG_CTL) ≠ 0 := by simpa using hctl
        split at h
        · simp only [pure, Except.pure] at h; cases h
          exact ⟨st0, Or.inl hmS⟩
        · obtain ⟨c, _, h⟩ := bind_ok h
          split at h
          · obtain ⟨s1, h1, h⟩ := bind_ok h
            obtain ⟨s2, h2, h⟩ := bind_ok h
            have k1 : MidP W D (fun x => x = st0) s1 := by
              split at h1
              · exact of_triple_pre (parseOptions_mspec W D _ hD s0 p _ _) hm0 s1 h1
              · cases h1; exact hm0
            have hst1 : s1.state = st0 := k1.stk
            split at h2
            · rename_i hl
              obtain ⟨s3, h3, h2⟩ := bind_ok h2
              have k3 : MidP W D (fun x => x = .synReceived) s3 := by
                rw [setState_eq h3]
                exact ⟨k1.fok, k1.nx, k1.dz, k1.rl, k1.cap, k1.finp, rfl⟩
              have k4 := of_triple_pre (queueConnectMessage_mspec W D (fun x => x = .synReceived) s3) k3 s2 h2
              exact ⟨.synReceived, of_triple_pre (processAck_mid W D .synReceived seg p true clk
                (Or.inl ⟨hctl', rfl, Or.inl rfl⟩) hseg s2 _) k4 r h⟩
            · split at h2
              · rename_i hl
                unfold setStateEstablished at h2
                obtain ⟨s3, h3, h2⟩ := bind_ok h2
                obtain ⟨s4, h4, h2⟩ := bind_ok h2
                simp only [pure, Except.pure] at h2
                cases h2
                have k3 : MidP W D (fun x => x = .established) s3 := by
                  rw [setState_eq h3]
                  exact ⟨k1.fok, k1.nx, k1.dz, k1.rl, k1.cap, k1.finp, rfl⟩
                have k4 := of_triple_pre (adjustMTU_mspec W D (fun x => x = .established) s3) k3 s4 h4
                have k5 : MidP W D (fun x => x = .established) (emit s4 .opened) :=
                  ⟨k4.fok, k4.nx, k4.dz, k4.rl, k4.cap, k4.finp, k4.stk⟩
                exact ⟨.established, of_triple_pre (processAck_mid W D .established seg p true clk
                  (Or.inl ⟨hctl', rfl, Or.inr rfl⟩) hseg _ _) k5 r h⟩
              · -- neither LISTEN nor SYN-SENT: impossible here
                rename_i hn1 hn2
                rcases hst0 with e | e
                · exact absurd (hst1.trans e) hn1
                · exact absurd (hst1.trans e) hn2
          · simp only [pure, Except.pure] at h; cases h
            exact ⟨st0, Or.inl hmS⟩
      · rename_i hctl
        have hctl' : (seg.flags &&& cFLAG_CTL) = 0 := by simpa using hctl
        exact ⟨st0, of_triple_pre (processAck_mid W D st0 seg p false clk (Or.inr ⟨hctl', hst0⟩) hseg s0 _) hm0 r h⟩

/-- **handshake_establishes_rinv.**  From a socket in LISTEN / SYN-SENT whose receive side is untouched, an honest packet
    either leaves `rcv_nxt = 0` or establishes `RInv W D 0` -/
theorem handshake_establishes_rinv (hD : D ≤ DEFAULT_RCV_BUF_SIZE) (s : Sock) (hst0 : s.state = .listen ∨ s.state = .synSent)
    (hfok : FOk s.rbuf) (hnx : s.rcv_nxt = 0) (hdz : s.rbuf.data = 0) (hrl : s.rlist = [])
    (hcap : D ≤ s.rbuf.buf.size) (hfin : s.rcv_fin = 0 ∨ s.rcv_fin.toNat = D + W.length)
    (p : Array UInt8) (hp : PktOk W D p) (clk : UInt32) (r : Bool × Sock) (h : notifyPacket s p clk = .ok r) :
    r.2.rcv_nxt = 0 ∨ RInv W D 0 r.2 := by
  have hm : MidP W D (fun x => x = s.state) s := ⟨hfok, hnx, hdz, hrl, hcap, hfin, rfl⟩
  unfold notifyPacket at h
  split at h
  · cases h; exact Or.inl hnx
  · split at h
    · cases h; exact Or.inl hnx
    · rw [parse_eq] at h
      obtain ⟨seg, hs, h⟩ := bind_ok h
      unfold process at h
      split at h
      · cases h; exact Or.inl hnx
      · obtain ⟨st1, k⟩ := processBody_handshake W D hD s.state hst0 s seg p clk r hm (hp seg hs) h
        rcases k with k | k
        · exact Or.inl k.nx
        · exact Or.inr k.toInv

end

end Nice.Proofs.PTcpStream
