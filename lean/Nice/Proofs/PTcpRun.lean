/-
  Histories of public operations on one pseudo-TCP socket (`Op`, `step`, `run`) and the induction principle
  "an invariant that holds initially and is preserved by every operation holds after every history".
-/
import Nice.Proofs.PTcpInv2
namespace Nice.Proofs.PTcp
open Nice.PTcp Nice.Gen Std.Do

set_option mvcgen.warning false

/-- every public entry point of agent/pseudotcp.h plus the two inputs of the environment (the `WritePacket` result and
    the test clock).  `clk` of `step` is the monotonic clock in ms at the time of the call. -/
inductive Op where
  | setRcvBuf (v : UInt32) | setSndBuf (v : UInt32) | setNoDelay (b : Bool) | setAckDelay (v : UInt32)
  | setTime (t : UInt32) | setWres (w : WriteResult)
  | connect | send (d : Array UInt8) | recv (n : Nat) | packet (p : Array UInt8) | clock
  | nextClock (t0 : UInt64) | shutdown (h : ShutdownHow) | close (force : Bool) | mtu (m : UInt16)
  | availSendSpace

def step (s : Sock) (clk : UInt32) : Op → R Sock
  | .setRcvBuf v => setRcvBuf s v
  | .setSndBuf v => setSndBuf s v
  | .setNoDelay b => pure { s with use_nagling := !b }
  | .setAckDelay v => pure { s with ack_delay := v }
  | .setTime t => pure (setTime s t)
  | .setWres w => pure { s with wres := w }
  | .connect => do let (_, s) ← connect s clk; pure s
  | .send d => do let (_, s) ← send s d clk; pure s
  | .recv n => do let (_, _, s) ← recv s n clk; pure s
  | .packet p => do let (_, s) ← notifyPacket s p clk; pure s
  | .clock => notifyClock s clk
  | .nextClock t0 => do let (_, _, s) ← getNextClock s t0 clk; pure s
  | .shutdown h => shutdown s h clk
  | .close f => close s f clk
  | .mtu m => notifyMtu s m
  | .availSendSpace => pure (getAvailableSendSpace s).2

/-- a history: operations with the clock value at which each is made -/
def run (s : Sock) : List (UInt32 × Op) → R Sock
  | [] => pure s
  | (clk, op) :: rest => do let s ← step s clk op; run s rest

theorem step_inv0 (s s' : Sock) (clk : UInt32) (op : Op) (hi : Inv0 s) (h : step s clk op = .ok s') : Inv0 s' := by
  have key : ⦃⌜Inv0 s⌝⦄ step s clk op ⦃⇓? r => ⌜Inv0 r⌝⦄ := by
    cases op <;>
      mvcgen [step, setRcvBuf_spec, setSndBuf_spec, connect_spec, send_spec, recv_spec, notifyPacket_spec,
        notifyClock_spec, getNextClock_spec, shutdown_spec, close_spec, notifyMtu_spec] <;> inv0
    all_goals (rename_i h; exact ⟨h.sws, h.rws, h.rto_lo, h.rto_hi, h.rb, h.sb⟩)
  have key' : ⦃⌜True⌝⦄ step s clk op ⦃⇓? r => ⌜Inv0 r⌝⦄ := by
    intro _; exact key hi
  exact of_triple key' s' h

theorem run_inv0 (ops : List (UInt32 × Op)) (s s' : Sock) (hi : Inv0 s) (h : run s ops = .ok s') : Inv0 s' := by
  induction ops generalizing s with
  | nil => simp only [run, pure, Except.pure] at h; cases h; exact hi
  | cons x rest ih =>
    obtain ⟨clk, op⟩ := x
    simp only [run, bind, Except.bind] at h
    cases hs : step s clk op with
    | error e => rw [hs] at h; cases h
    | ok s1 => rw [hs] at h; exact ih s1 (step_inv0 s s1 clk op hi hs) h

end Nice.Proofs.PTcp
