/- helper lemmas for C17: tcp-bsd send queue -/
import Nice.Model.SendQueue
namespace Nice.Props.C17
open Nice.Sock Nice.SendQueue


/-! ## SendQueue -/

theorem blit_full (dst src : Bytes) (h : src.length = dst.length) : blit dst 0 src = src := by
  simp [blit, h, List.drop_eq_nil_of_le]

theorem copyLoop_single (d : Bytes) (n : Nat) (h : n < d.length) (junk : UInt8) :
    copyLoop [d] n 0 (List.replicate (d.length - n) junk) = d.drop n := by
  simp only [copyLoop]
  have h1 : ¬ d.length ≤ n := by omega
  simp only [h1, ↓reduceIte, List.length_replicate, Nat.sub_zero, Nat.min_self]
  rw [blit_full]
  · apply List.take_of_length_le; simp
  · simp

theorem queuedBlock_single (d : Bytes) (n : Nat) (h : n < d.length) :
    queuedBlock [d] n d.length = some (d.drop n) := by
  simp only [queuedBlock]
  have : ¬ n ≥ d.length := by omega
  simp only [this, ↓reduceIte, copyLoop_single d n h]

theorem queuedBlock_none (bufs : List Bytes) (n len : Nat) (h : n ≥ len) : queuedBlock bufs n len = none := by
  simp [queuedBlock, h]

/-- kernel contract: what is accepted is a prefix of what was offered -/
theorem Kernel.send_spec (k : Kernel) (d : Bytes) :
    (∃ k', k.send d = (.eagain, [], k')) ∨ (∃ n k', n ≤ d.length ∧ k.send d = (.wrote n, d.take n, k')) := by
  unfold Kernel.send
  cases k.acc with
  | nil => right; exact ⟨d.length, k, Nat.le_refl _, by simp⟩
  | cons a rest =>
    simp only
    split
    · left; exact ⟨_, rfl⟩
    · right; exact ⟨min a d.length, _, Nat.min_le_right _ _, rfl⟩

/-- the bytes not yet on the wire -/
def backlog (s : St) : Bytes := s.queue.flatten

theorem enqueue_tail_single (s : St) (d : Bytes) (hd : d ≠ []) (w : Bool) :
    backlog (enqueue s [d] 0 d.length false w) = backlog s ++ d := by
  have h : 0 < d.length := List.length_pos_iff.mpr hd
  simp [enqueue, queuedBlock_single d 0 h, backlog]

theorem enqueue_head_single (s : St) (d : Bytes) (n : Nat) (h : n < d.length) (w : Bool) :
    backlog (enqueue s [d] n d.length true w) = d.drop n ++ backlog s := by
  simp [enqueue, queuedBlock_single d n h, backlog]

theorem enqueue_nil (s : St) (head w : Bool) : enqueue s [[]] 0 0 head w = s := by
  simp [enqueue, queuedBlock]

/-- one single-buffer message handed to tcp-bsd while nothing is queued: (bytes accepted now) ++
    (new backlog) is exactly the message when the call reports it accepted -/
theorem sendMessage_single_idle (s : St) (k : Kernel) (d : Bytes) (rel : Bool)
    (he : s.err = false) (hq : s.queue = []) :
    let r := sendMessage s k [d] rel
    r.2.1.flatten ++ backlog r.2.2.1 = d ∧ r.1 = d.length := by
  simp only [sendMessage, he, hq, List.isEmpty_nil, List.flatten_cons, List.flatten_nil, List.append_nil]
  rcases Kernel.send_spec k d with ⟨k', hk⟩ | ⟨n, k', hn, hk⟩
  · simp only [hk]
    by_cases hd : d = []
    · subst hd; simp [enqueue, queuedBlock, backlog, hq]
    · have := enqueue_tail_single s d hd true
      simp only [backlog] at this ⊢
      simp [this, hq]
  · simp only [hk]
    by_cases hlt : n < d.length
    · simp only [hlt, ↓reduceIte]
      have := enqueue_head_single s d n hlt true
      simp only [backlog] at this ⊢
      simp [this, hq]
    · have : n = d.length := by omega
      subst this
      simp [backlog, hq]

/-- ... while something is queued: a reliable send is appended whole, an unreliable one refused -/
theorem sendMessage_single_busy (s : St) (k : Kernel) (d : Bytes) (rel : Bool)
    (he : s.err = false) (hq : s.queue ≠ []) :
    let r := sendMessage s k [d] rel
    r.2.1 = [] ∧ r.2.2.2 = k ∧
    (rel = true → backlog r.2.2.1 = backlog s ++ d ∧ r.1 = d.length) ∧
    (rel = false → r.2.2.1 = s ∧ r.1 = 0) := by
  have hne : s.queue.isEmpty = false := by
    cases h : s.queue with
    | nil => exact absurd h hq
    | cons a t => rfl
  simp only [sendMessage, he, hne, List.flatten_cons, List.flatten_nil, List.append_nil]
  cases rel with
  | true =>
    simp only [↓reduceIte]
    by_cases hd : d = []
    · subst hd; simp [enqueue, queuedBlock]
    · simp [enqueue_tail_single s d hd true]
  | false => simp

/-- `nice_socket_flush_send_queue_to_socket` moves bytes from the front of the backlog to the wire,
    nothing else: for every acceptance pattern of the kernel -/
theorem flush_contiguous (fuel : Nat) (q : List Bytes) (k : Kernel) (w : List Bytes) :
    let r := flush fuel q k w
    r.2.1.flatten ++ r.2.2.1.flatten = w.flatten ++ q.flatten ∧ (r.1 = true → r.2.2.1 = []) := by
  induction fuel generalizing q k w with
  | zero => simp [flush]
  | succ fuel ih =>
    cases q with
    | nil => simp [flush]
    | cons tbs rest =>
      simp only [flush]
      rcases Kernel.send_spec k tbs with ⟨k', hk⟩ | ⟨n, k', hn, hk⟩
      · simp [hk]
      · simp only [hk]
        by_cases hlt : n < tbs.length
        · simp only [hlt, ↓reduceIte, List.flatten_append, List.flatten_cons, List.flatten_nil, List.append_nil,
            List.append_assoc, Bool.false_eq_true, false_implies, and_true]
          rw [← List.append_assoc (List.take n tbs), List.take_append_drop]
        · have hn' : n = tbs.length := by omega
          subst hn'
          simp only [Nat.lt_irrefl, ↓reduceIte, List.take_length]
          have := ih rest k' (w ++ [tbs])
          simp only [List.flatten_append, List.flatten_cons, List.flatten_nil, List.append_nil, List.append_assoc] at this ⊢
          exact this

/-- a session on one tcp-bsd socket: single-buffer messages, kernel acceptance scripts, writable events -/
inductive Op where
  | send (d : Bytes)         -- socket_send_messages (unreliable)
  | sendr (d : Bytes)        -- socket_send_messages_reliable
  | writable                 -- G_IO_OUT: socket_send_more
  | script (acc : List Nat)  -- what the kernel will accept on the next sendmsg calls

structure Run where
  st     : St := {}
  k      : Kernel := {}
  wire   : Bytes := []     -- everything the kernel accepted, in order
  frames : Bytes := []     -- concatenation of the messages the socket reported as sent (ret = 1)

def stepOp (r : Run) : Op → Run
  | .send d =>
    let (res, st, k) := SendQueue.send r.st r.k [d]
    { st := st, k := k, wire := r.wire ++ res.down.flatten, frames := if res.ret = 1 then r.frames ++ d else r.frames }
  | .sendr d =>
    let (res, st, k) := SendQueue.sendReliable r.st r.k [d]
    { st := st, k := k, wire := r.wire ++ res.down.flatten, frames := if res.ret = 1 then r.frames ++ d else r.frames }
  | .writable =>
    let (res, st, k) := SendQueue.writable r.st r.k
    { r with st := st, k := k, wire := r.wire ++ res.down.flatten }
  | .script acc => { r with k := { acc := acc } }

def runOps (r : Run) (ops : List Op) : Run := ops.foldl stepOp r

def Inv (r : Run) : Prop := r.wire ++ backlog r.st = r.frames

theorem sendMessage_inv (s : St) (k : Kernel) (d : Bytes) (rel : Bool) :
    let r := sendMessage s k [d] rel
    (r.1 < 0 → r.2.1 = [] ∧ r.2.2.1 = s) ∧
    (r.1 = 0 → r.2.1.flatten ++ backlog r.2.2.1 = backlog s ∧ (rel = true → d = [])) ∧
    (r.1 > 0 → r.2.1.flatten ++ backlog r.2.2.1 = backlog s ++ d) := by
  by_cases he : s.err = true
  · simp [sendMessage, he]
  · have he : s.err = false := by simpa using he
    by_cases hq : s.queue = []
    · have h := sendMessage_single_idle s k d rel he hq
      simp only at h ⊢
      obtain ⟨h1, h2⟩ := h
      have hb : backlog s = [] := by simp [backlog, hq]
      refine ⟨fun hlt => by omega, fun h0 => ?_, fun _ => by simp [h1, hb]⟩
      have : d = [] := by
        have : d.length = 0 := by omega
        exact List.length_eq_zero_iff.mp this
      subst this
      simp only [hb]
      exact ⟨by simpa using h1, by simp⟩
    · have h := sendMessage_single_busy s k d rel he hq
      simp only at h ⊢
      obtain ⟨h1, _, h3, h4⟩ := h
      cases rel with
      | true =>
        obtain ⟨h5, h6⟩ := h3 rfl
        refine ⟨fun hlt => by omega, fun h0 => ?_, fun _ => by simp [h1, h5]⟩
        have : d = [] := by
          have : d.length = 0 := by omega
          exact List.length_eq_zero_iff.mp this
        subst this
        simp [h1, h5]
      | false =>
        obtain ⟨h5, h6⟩ := h4 rfl
        refine ⟨fun hlt => by omega, fun _ => by simp [h1, h5], fun hgt => by omega⟩

theorem send_inv (s : St) (k : Kernel) (d : Bytes) :
    (SendQueue.send s k [d]).1.down.flatten ++ backlog (SendQueue.send s k [d]).2.1 =
      backlog s ++ (if (SendQueue.send s k [d]).1.ret = 1 then d else []) := by
  obtain ⟨h1, h2, h3⟩ := sendMessage_inv s k d false
  simp only [SendQueue.send]
  rcases Int.lt_trichotomy (sendMessage s k [d] false).1 0 with hlt | heq | hgt
  · obtain ⟨a, b⟩ := h1 hlt
    simp [hlt, a, b]
  · obtain ⟨a, _⟩ := h2 heq
    simp [heq, a]
  · have a := h3 hgt
    have hne : ¬ (sendMessage s k [d] false).1 < 0 := by omega
    have hne0 : ((sendMessage s k [d] false).1 == 0) = false := by
      simp; omega
    simp [hne, hne0, a]

theorem sendReliable_inv (s : St) (k : Kernel) (d : Bytes) :
    (SendQueue.sendReliable s k [d]).1.down.flatten ++ backlog (SendQueue.sendReliable s k [d]).2.1 =
      backlog s ++ (if (SendQueue.sendReliable s k [d]).1.ret = 1 then d else []) := by
  obtain ⟨h1, h2, h3⟩ := sendMessage_inv s k d true
  simp only [SendQueue.sendReliable]
  rcases Int.lt_trichotomy (sendMessage s k [d] true).1 0 with hlt | heq | hgt
  · obtain ⟨a, b⟩ := h1 hlt
    simp [hlt, a, b]
  · obtain ⟨a, hd⟩ := h2 heq
    have hd := hd rfl
    subst hd
    simp only [heq, show ¬ ((0:Int) < 0) by decide, ↓reduceIte]
    simpa using a
  · have a := h3 hgt
    have hne : ¬ (sendMessage s k [d] true).1 < 0 := by omega
    simp [hne, a]

theorem writable_inv (s : St) (k : Kernel) :
    (SendQueue.writable s k).1.down.flatten ++ backlog (SendQueue.writable s k).2.1 = backlog s := by
  simp only [SendQueue.writable]
  by_cases hs : s.src = true
  · simp only [hs, Bool.not_true, Bool.false_eq_true, ↓reduceIte]
    have hf := flush_contiguous (s.queue.length + 1) s.queue k []
    simp only [List.flatten_nil, List.nil_append] at hf
    obtain ⟨hf1, _⟩ := hf
    split <;> (simp only [backlog]; exact hf1)
  · have hs : s.src = false := by simpa using hs
    simp [hs]


end Nice.Props.C17
