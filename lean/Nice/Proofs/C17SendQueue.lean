/- helper lemmas for C17: tcp-bsd send queue -/
import Nice.Model.SendQueue
namespace Nice.Props.C17
open Nice.Sock Nice.SendQueue


/-! ## SendQueue -/

theorem blit_eq (dst src : Bytes) (off : Nat) : blit dst off src = dst.take off ++ src ++ dst.drop (off + src.length) := rfl

/-- the copy loop of `nice_socket_queue_send_with_callback` (as fixed): starting `mo` bytes into the
    message, it writes exactly the rest of the concatenated buffers behind what the block already holds -/
theorem copyLoop_flat : ∀ (bufs : List Bytes) (mo off : Nat) (tbs : Bytes), mo ≤ bufs.flatten.length →
    tbs.length = off + (bufs.flatten.length - mo) → copyLoop bufs mo off tbs = tbs.take off ++ bufs.flatten.drop mo := by
  intro bufs
  induction bufs with
  | nil =>
    intro mo off tbs _ hl
    simp only [List.flatten_nil, List.length_nil, Nat.zero_sub, Nat.add_zero] at hl
    simp [copyLoop, List.take_of_length_le, hl]
  | cons buf rest ih =>
    intro mo off tbs hmo hl
    simp only [List.flatten_cons, List.length_append] at hmo hl
    simp only [copyLoop, List.flatten_cons]
    by_cases hskip : buf.length ≤ mo
    · simp only [hskip, ↓reduceIte]
      rw [ih (mo - buf.length) off tbs (by omega) (by omega)]
      rw [List.drop_append, List.drop_eq_nil_of_le hskip, List.nil_append]
    · simp only [hskip, ↓reduceIte]
      have hoff : off ≤ tbs.length := by omega
      have hmin : min (tbs.length - off) (buf.length - mo) = buf.length - mo := by omega
      have hdl : ((buf.drop mo).take (buf.length - mo)) = buf.drop mo := List.take_of_length_le (by simp)
      rw [hmin, hdl]
      have htl : (tbs.take off).length = off := by simp only [List.length_take]; omega
      have hbl : (blit tbs off (buf.drop mo)).length = tbs.length := by
        simp only [blit_eq, List.length_append, htl, List.length_drop]; omega
      rw [ih 0 (off + (buf.length - mo)) (blit tbs off (buf.drop mo)) (Nat.zero_le _) (by rw [hbl]; omega)]
      have htk : (blit tbs off (buf.drop mo)).take (off + (buf.length - mo)) = tbs.take off ++ buf.drop mo := by
        rw [blit_eq]
        exact List.take_left' (by simp only [List.length_append, htl, List.length_drop])
      rw [htk, List.drop_zero, List.append_assoc]
      congr 1
      rw [List.drop_append_of_le_length (by omega)]

theorem queuedBlock_flat (bufs : List Bytes) (d : Bytes) (hd : bufs.flatten = d) (n : Nat) (h : n < d.length) :
    queuedBlock bufs n d.length = some (d.drop n) := by
  subst hd
  simp only [queuedBlock]
  have : ¬ n ≥ bufs.flatten.length := by omega
  simp only [this, ↓reduceIte]
  rw [copyLoop_flat bufs n 0 _ (by omega) (by rw [List.length_replicate]; omega)]
  rfl

theorem queuedBlock_none (bufs : List Bytes) (n len : Nat) (h : n ≥ len) : queuedBlock bufs n len = none := by
  simp [queuedBlock, h]

/-- kernel contract: what is accepted is a prefix of what was offered -/
theorem Kernel.send_spec (k : Kernel) (d : Bytes) :
    (∃ k', k.send d = (.eagain, [], k')) ∨ (∃ n k', n ≤ d.length ∧ k.send d = (.wrote n, d.take n, k')) := by
  unfold Kernel.send
  cases k.acc with
  | nil => right; exact ⟨d.length, k, Nat.le_refl _, by simp⟩
  | cons a rest =>
    simp only
    split
    · left; exact ⟨_, rfl⟩
    · right; exact ⟨min a d.length, _, Nat.min_le_right _ _, rfl⟩

/-- the bytes not yet on the wire -/
def backlog (s : St) : Bytes := s.queue.flatten

theorem enqueue_tail_flat (s : St) (bufs : List Bytes) (d : Bytes) (hd : bufs.flatten = d) (hne : d ≠ []) (w : Bool) :
    backlog (enqueue s bufs 0 d.length false w) = backlog s ++ d := by
  have h : 0 < d.length := List.length_pos_iff.mpr hne
  simp [enqueue, queuedBlock_flat bufs d hd 0 h, backlog]

theorem enqueue_head_flat (s : St) (bufs : List Bytes) (d : Bytes) (hd : bufs.flatten = d) (n : Nat) (h : n < d.length)
    (w : Bool) : backlog (enqueue s bufs n d.length true w) = d.drop n ++ backlog s := by
  simp [enqueue, queuedBlock_flat bufs d hd n h, backlog]

/-- one message (any number of buffers, `d` = their concatenation) handed to tcp-bsd while nothing
    is queued: (bytes accepted now) ++ (new backlog) is exactly the message -/
theorem sendMessage_idle (s : St) (k : Kernel) (bufs : List Bytes) (d : Bytes) (hd : bufs.flatten = d) (rel : Bool)
    (he : s.err = false) (hq : s.queue = []) :
    (sendMessage s k bufs rel).2.1.flatten ++ backlog (sendMessage s k bufs rel).2.2.1 = d ∧
    (sendMessage s k bufs rel).1 = d.length := by
  simp only [sendMessage, he, hq, List.isEmpty_nil, hd]
  rcases Kernel.send_spec k d with ⟨k', hk⟩ | ⟨n, k', hn, hk⟩
  · simp only [hk]
    by_cases hne : d = []
    · subst hne; simp [enqueue, queuedBlock, backlog, hq]
    · have := enqueue_tail_flat s bufs d hd hne true
      simp only [backlog] at this ⊢
      simp [this, hq]
  · simp only [hk]
    by_cases hlt : n < d.length
    · simp only [hlt, ↓reduceIte]
      have := enqueue_head_flat s bufs d hd n hlt true
      simp only [backlog] at this ⊢
      simp [this, hq]
    · have : n = d.length := by omega
      subst this
      simp [backlog, hq]

/-- ... while something is queued: a reliable send is appended whole, an unreliable one refused -/
theorem sendMessage_busy (s : St) (k : Kernel) (bufs : List Bytes) (d : Bytes) (hd : bufs.flatten = d) (rel : Bool)
    (he : s.err = false) (hq : s.queue ≠ []) :
    (sendMessage s k bufs rel).2.1 = [] ∧ (sendMessage s k bufs rel).2.2.2 = k ∧
    (rel = true → backlog (sendMessage s k bufs rel).2.2.1 = backlog s ++ d ∧ (sendMessage s k bufs rel).1 = d.length) ∧
    (rel = false → (sendMessage s k bufs rel).2.2.1 = s ∧ (sendMessage s k bufs rel).1 = 0) := by
  have hne : s.queue.isEmpty = false := by
    cases h : s.queue with
    | nil => exact absurd h hq
    | cons a t => rfl
  simp only [sendMessage, he, hne, hd]
  cases rel with
  | true =>
    simp only [↓reduceIte]
    by_cases hde : d = []
    · subst hde; simp [enqueue, queuedBlock]
    · simp [enqueue_tail_flat s bufs d hd hde true]
  | false => simp

/-- `nice_socket_flush_send_queue_to_socket` moves bytes from the front of the backlog to the wire,
    nothing else: for every acceptance pattern of the kernel -/
theorem flush_contiguous (fuel : Nat) (q : List Bytes) (k : Kernel) (w : List Bytes) :
    let r := flush fuel q k w
    r.2.1.flatten ++ r.2.2.1.flatten = w.flatten ++ q.flatten ∧ (r.1 = true → r.2.2.1 = []) := by
  induction fuel generalizing q k w with
  | zero => simp [flush]
  | succ fuel ih =>
    cases q with
    | nil => simp [flush]
    | cons tbs rest =>
      simp only [flush]
      rcases Kernel.send_spec k tbs with ⟨k', hk⟩ | ⟨n, k', hn, hk⟩
      · simp [hk]
      · simp only [hk]
        by_cases hlt : n < tbs.length
        · simp only [hlt, ↓reduceIte, List.flatten_append, List.flatten_cons, List.flatten_nil, List.append_nil,
            List.append_assoc, Bool.false_eq_true, false_implies, and_true]
          rw [← List.append_assoc (List.take n tbs), List.take_append_drop]
        · have hn' : n = tbs.length := by omega
          subst hn'
          simp only [Nat.lt_irrefl, ↓reduceIte, List.take_length]
          have := ih rest k' (w ++ [tbs])
          simp only [List.flatten_append, List.flatten_cons, List.flatten_nil, List.append_nil, List.append_assoc] at this ⊢
          exact this

/-- a session on one tcp-bsd socket: messages of any number of buffers, kernel acceptance scripts,
    writable events -/
inductive Op where
  | send (bufs : List Bytes)   -- socket_send_messages (unreliable)
  | sendr (bufs : List Bytes)  -- socket_send_messages_reliable
  | writable                   -- G_IO_OUT: socket_send_more
  | script (acc : List Nat)    -- what the kernel will accept on the next sendmsg calls

structure Run where
  st     : St := {}
  k      : Kernel := {}
  wire   : Bytes := []     -- everything the kernel accepted, in order
  frames : Bytes := []     -- concatenation of the messages the socket reported as sent (ret = 1)

def stepOp (r : Run) : Op → Run
  | .send bufs =>
    let (res, st, k) := SendQueue.send r.st r.k bufs
    { st := st, k := k, wire := r.wire ++ res.down.flatten, frames := if res.ret = 1 then r.frames ++ bufs.flatten else r.frames }
  | .sendr bufs =>
    let (res, st, k) := SendQueue.sendReliable r.st r.k bufs
    { st := st, k := k, wire := r.wire ++ res.down.flatten, frames := if res.ret = 1 then r.frames ++ bufs.flatten else r.frames }
  | .writable =>
    let (res, st, k) := SendQueue.writable r.st r.k
    { r with st := st, k := k, wire := r.wire ++ res.down.flatten }
  | .script acc => { r with k := { acc := acc } }

def runOps (r : Run) (ops : List Op) : Run := ops.foldl stepOp r

def Inv (r : Run) : Prop := r.wire ++ backlog r.st = r.frames

theorem sendMessage_inv (s : St) (k : Kernel) (bufs : List Bytes) (d : Bytes) (hd : bufs.flatten = d) (rel : Bool) :
    ((sendMessage s k bufs rel).1 < 0 → (sendMessage s k bufs rel).2.1 = [] ∧ (sendMessage s k bufs rel).2.2.1 = s) ∧
    ((sendMessage s k bufs rel).1 = 0 →
      (sendMessage s k bufs rel).2.1.flatten ++ backlog (sendMessage s k bufs rel).2.2.1 = backlog s ∧ (rel = true → d = [])) ∧
    ((sendMessage s k bufs rel).1 > 0 →
      (sendMessage s k bufs rel).2.1.flatten ++ backlog (sendMessage s k bufs rel).2.2.1 = backlog s ++ d) := by
  by_cases he : s.err = true
  · simp [sendMessage, he]
  · have he : s.err = false := by simpa using he
    by_cases hq : s.queue = []
    · obtain ⟨h1, h2⟩ := sendMessage_idle s k bufs d hd rel he hq
      have hb : backlog s = [] := by simp [backlog, hq]
      refine ⟨fun hlt => by omega, fun h0 => ?_, fun _ => by simp [h1, hb]⟩
      have : d = [] := by
        have : d.length = 0 := by omega
        exact List.length_eq_zero_iff.mp this
      rw [this] at h1
      simp only [hb]
      exact ⟨h1, fun _ => this⟩
    · obtain ⟨h1, _, h3, h4⟩ := sendMessage_busy s k bufs d hd rel he hq
      cases rel with
      | true =>
        obtain ⟨h5, h6⟩ := h3 rfl
        refine ⟨fun hlt => by omega, fun h0 => ?_, fun _ => by simp [h1, h5]⟩
        have : d = [] := by
          have : d.length = 0 := by omega
          exact List.length_eq_zero_iff.mp this
        rw [this] at h5
        simp only [h1, h5, List.flatten_nil, List.nil_append, List.append_nil]
        exact ⟨trivial, fun _ => this⟩
      | false =>
        obtain ⟨h5, h6⟩ := h4 rfl
        refine ⟨fun hlt => by omega, fun _ => by simp [h1, h5], fun hgt => by omega⟩

theorem send_inv (s : St) (k : Kernel) (bufs : List Bytes) :
    (SendQueue.send s k bufs).1.down.flatten ++ backlog (SendQueue.send s k bufs).2.1 =
      backlog s ++ (if (SendQueue.send s k bufs).1.ret = 1 then bufs.flatten else []) := by
  obtain ⟨h1, h2, h3⟩ := sendMessage_inv s k bufs bufs.flatten rfl false
  simp only [SendQueue.send]
  rcases Int.lt_trichotomy (sendMessage s k bufs false).1 0 with hlt | heq | hgt
  · obtain ⟨a, b⟩ := h1 hlt
    simp [hlt, a, b]
  · obtain ⟨a, _⟩ := h2 heq
    simp [heq, a]
  · have a := h3 hgt
    have hne : ¬ (sendMessage s k bufs false).1 < 0 := by omega
    have hne0 : ((sendMessage s k bufs false).1 == 0) = false := by
      simp; omega
    simp only [hne, hne0, ↓reduceIte, Bool.false_eq_true, a]

theorem sendReliable_inv (s : St) (k : Kernel) (bufs : List Bytes) :
    (SendQueue.sendReliable s k bufs).1.down.flatten ++ backlog (SendQueue.sendReliable s k bufs).2.1 =
      backlog s ++ (if (SendQueue.sendReliable s k bufs).1.ret = 1 then bufs.flatten else []) := by
  obtain ⟨h1, h2, h3⟩ := sendMessage_inv s k bufs bufs.flatten rfl true
  simp only [SendQueue.sendReliable]
  rcases Int.lt_trichotomy (sendMessage s k bufs true).1 0 with hlt | heq | hgt
  · obtain ⟨a, b⟩ := h1 hlt
    simp [hlt, a, b]
  · obtain ⟨a, hd⟩ := h2 heq
    have hd := hd rfl
    simp only [heq, show ¬ ((0:Int) < 0) by decide, ↓reduceIte, a, hd, List.append_nil]
  · have a := h3 hgt
    have hne : ¬ (sendMessage s k bufs true).1 < 0 := by omega
    simp only [hne, ↓reduceIte, a]

theorem writable_inv (s : St) (k : Kernel) :
    (SendQueue.writable s k).1.down.flatten ++ backlog (SendQueue.writable s k).2.1 = backlog s := by
  simp only [SendQueue.writable]
  by_cases hs : s.src = true
  · simp only [hs, Bool.not_true, Bool.false_eq_true, ↓reduceIte]
    have hf := flush_contiguous (s.queue.length + 1) s.queue k []
    simp only [List.flatten_nil, List.nil_append] at hf
    obtain ⟨hf1, _⟩ := hf
    split <;> (simp only [backlog]; exact hf1)
  · have hs : s.src = false := by simpa using hs
    simp [hs]


end Nice.Props.C17
