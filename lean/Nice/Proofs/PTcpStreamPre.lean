/-
  C08 end-to-end (receive side), handshake part 3: before the peer's connect message is consumed (LISTEN / SYN-SENT, or
  CLOSED without ever having received anything) every public operation leaves the receive side untouched and `recv`
  returns nothing; whole histories from `Sock.init`.
-/
import Nice.Proofs.PTcpStreamHs
namespace Nice.Proofs.PTcpStream
open Nice.PTcp Nice.Gen Nice.Proofs.PTcp Std.Do

set_option mvcgen.warning false
set_option maxRecDepth 16000
set_option linter.unusedSimpArgs false

/-- the states in which nothing can have been received -/
def P3 (x : TcpState) : Prop := x = .listen ∨ x = .synSent ∨ x = .closed

theorem p3_closed : P3 .closed := Or.inr (Or.inr rfl)

/-- the size `resize_receive_buffer` gives the ring for a requested size `v` -/
def rcvBufSize (v : UInt32) : Nat := ((scaleLoop 33 v 0).1 <<< (scaleLoop 33 v 0).2.toUInt32).toNat

section
variable (W : List UInt8) (D : Nat)

/-- before the handshake: receive side untouched, state LISTEN / SYN-SENT / CLOSED -/
abbrev PreInv (W : List UInt8) (D : Nat) (s : Sock) : Prop := MidP W D P3 s

theorem setStateClosed_pre (s : Sock) (e : Err) :
    ⦃⌜PreInv W D s⌝⦄ setStateClosed s e ⦃⇓? s' => ⌜PreInv W D s'⌝⦄ :=
  to_triple fun hm s' h => by
    obtain ⟨o, rfl⟩ := setStateClosed_eq h
    exact ⟨hm.fok, hm.nx, hm.dz, hm.rl, hm.cap, hm.finp, p3_closed⟩

theorem setRcvBuf_pre (s : Sock) (v : UInt32) (r : Sock) (hm : PreInv W D s) (hv : D ≤ rcvBufSize v)
    (h : setRcvBuf s v = .ok r) : PreInv W D r := by
  unfold setRcvBuf at h
  split at h
  · cases h; exact hm
  · unfold resizeReceiveBuffer at h
    split at h
    · cases h; exact hm
    · simp only at h
      split at h
      · cases h
      · obtain ⟨⟨res, rb⟩, hsc, h⟩ := bind_ok h
        have ⟨g1, g2⟩ := setCapacity_ok hm.fok.1 hsc
        simp only at h
        split at h
        · simp only [pure, Except.pure] at h; cases h; exact hm
        · simp only [pure, Except.pure] at h
          cases h
          rcases g2 with g2 | g2
          · subst g2
            exact ⟨hm.fok, hm.nx, hm.dz, hm.rl, hm.cap, hm.finp, hm.stk⟩
          · have hsz : rb.buf.size = rcvBufSize v := g2.2.1
            refine ⟨⟨g1, by rw [hsz]; exact u32_lt_64 _⟩, hm.nx, by show rb.data = 0; rw [g2.2.2]; exact hm.dz, hm.rl, ?_,
              hm.finp, hm.stk⟩
            show D ≤ rb.buf.size
            rw [hsz]; exact hv

theorem resizeSendBuffer_pre (s : Sock) (v : UInt32) :
    ⦃⌜PreInv W D s⌝⦄ resizeSendBuffer s v ⦃⇓? s' => ⌜PreInv W D s'⌝⦄ := by
  mvcgen [resizeSendBuffer, setCapacity_tspec] <;> mid

theorem setSndBuf_pre (s : Sock) (v : UInt32) : ⦃⌜PreInv W D s⌝⦄ setSndBuf s v ⦃⇓? s' => ⌜PreInv W D s'⌝⦄ := by
  have h1 := resizeSendBuffer_pre W D
  mvcgen [setSndBuf, h1] <;> mid

theorem connect_pre (s : Sock) (clk : UInt32) (r : Bool × Sock) (hm : PreInv W D s) (h : connect s clk = .ok r) :
    PreInv W D r.2 := by
  unfold connect at h
  split at h
  · cases h; exact ⟨hm.fok, hm.nx, hm.dz, hm.rl, hm.cap, hm.finp, hm.stk⟩
  · obtain ⟨s1, h1, h⟩ := bind_ok h
    obtain ⟨s2, h2, h⟩ := bind_ok h
    obtain ⟨s3, h3, h⟩ := bind_ok h
    simp only [pure, Except.pure] at h
    cases h
    have k1 : PreInv W D s1 := by
      rw [setState_eq h1]
      exact ⟨hm.fok, hm.nx, hm.dz, hm.rl, hm.cap, hm.finp, Or.inr (Or.inl rfl)⟩
    have k2 := of_triple_pre (queueConnectMessage_mspec W D P3 s1) k1 s2 h2
    exact of_triple_pre (attemptSend_mspec W D P3 p3_closed s2 .sfNone clk) k2 s3 h3

theorem send_pre (s : Sock) (d : Array UInt8) (clk : UInt32) :
    ⦃⌜PreInv W D s⌝⦄ send s d clk ⦃⇓? r => ⌜PreInv W D r.2⌝⦄ := by
  have h1 := queue_mspec W D P3
  have h2 := attemptSend_mspec W D P3 p3_closed
  mvcgen [send, h1, h2] <;> mid

theorem notifyMtu_pre (s : Sock) (m : UInt16) : ⦃⌜PreInv W D s⌝⦄ notifyMtu s m ⦃⇓? r => ⌜PreInv W D r⌝⦄ := by
  have h1 := adjustMTU_mspec W D P3
  mvcgen [notifyMtu, h1] <;> mid

theorem clockRetransmit_pre (s : Sock) (now clk : UInt32) :
    ⦃⌜PreInv W D s⌝⦄ clockRetransmit s now clk ⦃⇓? r => ⌜PreInv W D r.2⌝⦄ := by
  have h1 := transmit_mspec W D P3
  have h2 := closedown_mspec W D P3 p3_closed
  mvcgen [clockRetransmit, h1, h2] <;> mid

theorem clockProbe_pre (s : Sock) (now clk : UInt32) :
    ⦃⌜PreInv W D s⌝⦄ clockProbe s now clk ⦃⇓? r => ⌜PreInv W D r.2⌝⦄ := by
  have h1 := packet_mspec W D P3
  have h2 := closedown_mspec W D P3 p3_closed
  mvcgen [clockProbe, h1, h2] <;> mid

theorem clockDelayedAck_pre (s : Sock) (now : UInt32) :
    ⦃⌜PreInv W D s⌝⦄ clockDelayedAck s now ⦃⇓? r => ⌜PreInv W D r⌝⦄ := by
  have h1 := packet_mspec W D P3
  mvcgen [clockDelayedAck, h1] <;> mid

theorem clockFinStates_pre (s : Sock) (clk : UInt32) :
    ⦃⌜PreInv W D s⌝⦄ clockFinStates s clk ⦃⇓? r => ⌜PreInv W D r⌝⦄ := by
  have h1 := setStateClosed_pre W D
  have h2 := queueFinMessage_mspec W D P3
  have h3 := attemptSend_mspec W D P3 p3_closed
  mvcgen [clockFinStates, h1, h2, h3] <;> mid

theorem notifyClock_pre (s : Sock) (clk : UInt32) :
    ⦃⌜PreInv W D s⌝⦄ notifyClock s clk ⦃⇓? r => ⌜PreInv W D r⌝⦄ := by
  have h1 := clockFinStates_pre W D
  have h2 := clockRetransmit_pre W D
  have h3 := clockProbe_pre W D
  have h4 := clockDelayedAck_pre W D
  mvcgen [notifyClock, h1, h2, h3, h4] <;> mid

theorem getNextClock_pre (s : Sock) (t : UInt64) (clk : UInt32) :
    ⦃⌜PreInv W D s⌝⦄ getNextClock s t clk ⦃⇓? r => ⌜PreInv W D r.2.2⌝⦄ := by
  have h1 := closedown_mspec W D P3 p3_closed
  mvcgen [getNextClock, h1] <;> mid

theorem recv_pre (s : Sock) (k : Nat) (clk : UInt32) (ret : Int) (bytes : Array UInt8) (s' : Sock)
    (hm : PreInv W D s) (h : recv s k clk = .ok (ret, bytes, s')) : bytes = #[] ∧ PreInv W D s' := by
  unfold recv at h
  split at h
  · cases h; exact ⟨rfl, hm⟩
  · split at h
    · cases h; exact ⟨rfl, hm⟩
    · split at h
      · cases h; exact ⟨rfl, ⟨hm.fok, hm.nx, hm.dz, hm.rl, hm.cap, hm.finp, hm.stk⟩⟩
      · split at h
        · cases h; exact ⟨rfl, hm⟩
        · obtain ⟨⟨bs, rb⟩, hrd, h⟩ := bind_ok h
          have ⟨hs, _, hd, _⟩ := Nice.Props.C08.C08_fifo_read_takes s.rbuf rb k bs hm.fok.1 hm.fok.2 hrd
          have ⟨hf, hbuf, _⟩ := read_ok hm.fok.1 hm.fok.2 hrd
          have hz : bs.size = 0 := by rw [hs, hm.dz]; exact Nat.min_zero _
          have hbs : bs = #[] := Array.eq_empty_of_size_eq_zero hz
          have k1 : PreInv W D { s with rbuf := rb } :=
            ⟨⟨hf, by rw [hbuf]; exact hm.fok.2⟩, hm.nx, by show rb.data = 0; rw [hd, hm.dz]; exact Nat.zero_sub _, hm.rl,
              by show D ≤ rb.buf.size; rw [hbuf]; exact hm.cap, hm.finp, hm.stk⟩
          simp only at h
          split at h
          · simp only [pure, Except.pure] at h
            cases h
            exact ⟨rfl, ⟨k1.fok, k1.nx, k1.dz, k1.rl, k1.cap, k1.finp, k1.stk⟩⟩
          · split at h
            · obtain ⟨s3, h3, h⟩ := bind_ok h
              have k2 : PreInv W D { s with rbuf := rb, rcv_wnd := UInt32.ofNat rb.getWriteRemaining } :=
                ⟨k1.fok, k1.nx, k1.dz, k1.rl, k1.cap, k1.finp, k1.stk⟩
              have k3 : PreInv W D s3 := by
                split at h3
                · exact of_triple_pre (attemptSend_mspec W D P3 p3_closed _ _ clk) k2 s3 h3
                · cases h3; exact k2
              simp only [pure, Except.pure] at h
              cases h
              exact ⟨hbs, k3⟩
            · simp only [pure, Except.pure] at h
              cases h
              exact ⟨hbs, k1⟩

theorem shutdown_pre (s : Sock) (how : ShutdownHow) (clk : UInt32) (r : Sock) (hm : PreInv W D s)
    (h : shutdown s how clk = .ok r) : PreInv W D r := by
  unfold shutdown at h
  split at h
  · cases h; exact ⟨hm.fok, hm.nx, hm.dz, hm.rl, hm.cap, hm.finp, hm.stk⟩
  · simp only at h
    have hm' : PreInv W D { s with shutdown_reads := if how = .rd || how = .rdwr then true else s.shutdown_reads } :=
      ⟨hm.fok, hm.nx, hm.dz, hm.rl, hm.cap, hm.finp, hm.stk⟩
    generalize ({ s with shutdown_reads := if how = .rd || how = .rdwr then true else s.shutdown_reads } : Sock) = s1
      at h hm'
    have hp3 : P3 s.state := hm.stk
    split at h
    · cases h; exact hm'
    · split at h
      · exact of_triple_pre (setStateClosed_pre W D s1 .none) hm' r h
      · exact of_triple_pre (setStateClosed_pre W D s1 .none) hm' r h
      · rename_i hst; exfalso; rw [hst] at hp3; rcases hp3 with e | e | e <;> cases e
      · rename_i hst; exfalso; rw [hst] at hp3; rcases hp3 with e | e | e <;> cases e
      · rename_i hst; exfalso; rw [hst] at hp3; rcases hp3 with e | e | e <;> cases e
      all_goals (cases h; exact hm')

theorem close_pre (s : Sock) (f : Bool) (clk : UInt32) (r : Sock) (hm : PreInv W D s)
    (h : close s f clk = .ok r) : PreInv W D r := by
  unfold close at h
  split at h
  · exact of_triple_pre (closedown_mspec W D P3 p3_closed s _ _ clk) hm r h
  · exact shutdown_pre W D s .rdwr clk r hm h

/-- a packet before the handshake: receive side still untouched (in some state), or the invariant is established -/
theorem notifyPacket_pre (hD : D ≤ DEFAULT_RCV_BUF_SIZE) (s : Sock) (p : Array UInt8) (hp : PktOk W D p)
    (clk : UInt32) (r : Bool × Sock) (hm : PreInv W D s) (h : notifyPacket s p clk = .ok r) :
    (∃ st1, MidS W D st1 r.2) ∨ RInv W D 0 r.2 := by
  have keep : ∀ s1 : Sock, s1.rbuf = s.rbuf → s1.rcv_nxt = s.rcv_nxt → s1.rlist = s.rlist → s1.rcv_fin = s.rcv_fin →
      s1.state = s.state → (∃ st1, MidS W D st1 s1) ∨ RInv W D 0 s1 := by
    intro s1 e1 e2 e3 e4 e5
    exact Or.inl ⟨s.state, by rw [e1]; exact hm.fok, by rw [e2]; exact hm.nx, by rw [e1]; exact hm.dz,
      by rw [e3]; exact hm.rl, by rw [e1]; exact hm.cap, by rw [e4]; exact hm.finp, Or.inl e5⟩
  unfold notifyPacket at h
  split at h
  · cases h; exact keep _ rfl rfl rfl rfl rfl
  · split at h
    · cases h; exact keep _ rfl rfl rfl rfl rfl
    · rw [parse_eq] at h
      obtain ⟨seg, hs, h⟩ := bind_ok h
      unfold process at h
      split at h
      · cases h; exact keep _ rfl rfl rfl rfl rfl
      · rcases hm.stk with e | e | e
        · obtain ⟨st1, k⟩ := processBody_handshake W D hD s.state (Or.inl e) s seg p clk r
            ⟨hm.fok, hm.nx, hm.dz, hm.rl, hm.cap, hm.finp, rfl⟩ (hp seg hs) h
          rcases k with k | k
          · exact Or.inl ⟨st1, k⟩
          · exact Or.inr k.toInv
        · obtain ⟨st1, k⟩ := processBody_handshake W D hD s.state (Or.inr e) s seg p clk r
            ⟨hm.fok, hm.nx, hm.dz, hm.rl, hm.cap, hm.finp, rfl⟩ (hp seg hs) h
          rcases k with k | k
          · exact Or.inl ⟨st1, k⟩
          · exact Or.inr k.toInv
        · -- CLOSED: `process` answers with a reset or ignores the packet
          rw [processBody_eq0] at h
          have hm0 : MidS W D .closed { s with last_traffic := getCurrentTime s clk, lastrecv := getCurrentTime s clk, bOutgoing := false } :=
            ⟨hm.fok, hm.nx, hm.dz, hm.rl, hm.cap, hm.finp, Or.inl e⟩
          have est : ({ s with last_traffic := getCurrentTime s clk, lastrecv := getCurrentTime s clk, bOutgoing := false } : Sock).state = .closed := e
          generalize ({ s with last_traffic := getCurrentTime s clk, lastrecv := getCurrentTime s clk, bOutgoing := false } : Sock) = s0 at h hm0 est
          unfold processBody0 at h
          have hc : (decide (s0.state = .closed) || (hasReceivedFinAck s0.state && decide (seg.len > 0))) = true := by
            rw [est]; rfl
          rw [if_pos hc] at h
          split at h
          · obtain ⟨s1, h1, h⟩ := bind_ok h
            simp only [pure, Except.pure] at h; cases h
            exact Or.inl ⟨.closed, of_triple_pre
              (closedown_mspec W D (fun x => x = .closed ∨ x = .closed) (Or.inr rfl) s0 _ _ clk) hm0 s1 h1⟩
          · simp only [pure, Except.pure] at h; cases h
            exact Or.inl ⟨.closed, hm0⟩

end

/-! ### whole histories from a fresh socket -/

/-- constraint on the environment for histories that include the handshake: honest packets, and a receive buffer that
    can hold the peer's connect message -/
def OpOk0 (W : List UInt8) (D : Nat) : Op → Prop
  | .packet p => PktOk W D p
  | .setRcvBuf v => D ≤ rcvBufSize v
  | _ => True

theorem OpOk0.toOpOk {W : List UInt8} {D : Nat} {op : Op} (h : OpOk0 W D op) : OpOk W D op := by
  cases op <;> first | exact h | trivial

/-- the handshake hypothesis on an execution: a socket that has left LISTEN / SYN-SENT (and is not CLOSED) has consumed
    the peer's connect message (`rcv_nxt ≠ 0`) -/
def GoodHs (s : Sock) : Prop := s.rcv_nxt = 0 → P3 s.state

/-- `GoodHs` holds after every step of the history -/
def GoodRun (s : Sock) : List (UInt32 × Op) → Prop
  | [] => True
  | (clk, op) :: rest => ∀ s' b, stepG s clk op = .ok (s', b) → GoodHs s' ∧ GoodRun s' rest

/-- before the handshake nothing has been read; afterwards the stream invariant holds -/
def Tot (W : List UInt8) (D n : Nat) (s : Sock) : Prop := (n = 0 ∧ PreInv W D s) ∨ RInv W D n s

theorem init_pre (W : List UInt8) (D : Nat) (hD : D ≤ DEFAULT_RCV_BUF_SIZE) (conv : UInt32) :
    PreInv W D (Sock.init conv) :=
  ⟨(init_inv0 conv).rb, rfl, rfl, rfl,
    by show D ≤ (Array.replicate DEFAULT_RCV_BUF_SIZE (0 : UInt8)).size; rw [Array.size_replicate]; exact hD,
    Or.inl rfl, Or.inl rfl⟩

section
variable (W : List UInt8) (D : Nat)

theorem stepG_pre (hD : D ≤ DEFAULT_RCV_BUF_SIZE) (s : Sock) (clk : UInt32) (op : Op) (s' : Sock) (b : Array UInt8)
    (hm : PreInv W D s) (hop : OpOk0 W D op) (h : stepG s clk op = .ok (s', b)) (hg : GoodHs s') :
    b = #[] ∧ (PreInv W D s' ∨ RInv W D 0 s') := by
  cases op with
  | recv k =>
    simp only [stepG] at h
    obtain ⟨⟨ret, bs, s1⟩, h1, h⟩ := bind_ok h
    simp only [pure, Except.pure] at h
    cases h
    have ⟨a1, a2⟩ := recv_pre W D s k clk ret b s' hm h1
    exact ⟨a1, Or.inl a2⟩
  | packet p =>
    simp only [stepG, step] at h
    obtain ⟨s1, h1, h⟩ := bind_ok h
    obtain ⟨⟨r1, r2⟩, h2, h1⟩ := bind_ok h1
    simp only [pure, Except.pure] at h h1
    cases h; cases h1
    refine ⟨rfl, ?_⟩
    rcases notifyPacket_pre W D hD s p hop clk _ hm h2 with ⟨st1, k⟩ | k
    · exact Or.inl ⟨k.fok, k.nx, k.dz, k.rl, k.cap, k.finp, hg k.nx⟩
    · exact Or.inr k
  | setRcvBuf v =>
    simp only [stepG, step] at h
    obtain ⟨s1, h1, h⟩ := bind_ok h
    simp only [pure, Except.pure] at h; cases h
    exact ⟨rfl, Or.inl (setRcvBuf_pre W D s v _ hm hop h1)⟩
  | setSndBuf v =>
    simp only [stepG, step] at h
    obtain ⟨s1, h1, h⟩ := bind_ok h
    simp only [pure, Except.pure] at h; cases h
    exact ⟨rfl, Or.inl (of_triple_pre (setSndBuf_pre W D s v) hm _ h1)⟩
  | setNoDelay v =>
    simp only [stepG, step, pure, Except.pure, bind, Except.bind] at h
    cases h; exact ⟨rfl, Or.inl ⟨hm.fok, hm.nx, hm.dz, hm.rl, hm.cap, hm.finp, hm.stk⟩⟩
  | setAckDelay v =>
    simp only [stepG, step, pure, Except.pure, bind, Except.bind] at h
    cases h; exact ⟨rfl, Or.inl ⟨hm.fok, hm.nx, hm.dz, hm.rl, hm.cap, hm.finp, hm.stk⟩⟩
  | setTime v =>
    simp only [stepG, step, pure, Except.pure, bind, Except.bind, setTime] at h
    cases h; exact ⟨rfl, Or.inl ⟨hm.fok, hm.nx, hm.dz, hm.rl, hm.cap, hm.finp, hm.stk⟩⟩
  | setWres v =>
    simp only [stepG, step, pure, Except.pure, bind, Except.bind] at h
    cases h; exact ⟨rfl, Or.inl ⟨hm.fok, hm.nx, hm.dz, hm.rl, hm.cap, hm.finp, hm.stk⟩⟩
  | connect =>
    simp only [stepG, step] at h
    obtain ⟨s1, h1, h⟩ := bind_ok h
    obtain ⟨⟨r1, r2⟩, h2, h1⟩ := bind_ok h1
    simp only [pure, Except.pure] at h h1
    cases h; cases h1
    exact ⟨rfl, Or.inl (connect_pre W D s clk _ hm h2)⟩
  | send d =>
    simp only [stepG, step] at h
    obtain ⟨s1, h1, h⟩ := bind_ok h
    obtain ⟨⟨r1, r2⟩, h2, h1⟩ := bind_ok h1
    simp only [pure, Except.pure] at h h1
    cases h; cases h1
    exact ⟨rfl, Or.inl (of_triple_pre (send_pre W D s d clk) hm _ h2)⟩
  | clock =>
    simp only [stepG, step] at h
    obtain ⟨s1, h1, h⟩ := bind_ok h
    simp only [pure, Except.pure] at h; cases h
    exact ⟨rfl, Or.inl (of_triple_pre (notifyClock_pre W D s clk) hm _ h1)⟩
  | nextClock t0 =>
    simp only [stepG, step] at h
    obtain ⟨s1, h1, h⟩ := bind_ok h
    obtain ⟨⟨r1, r2, r3⟩, h2, h1⟩ := bind_ok h1
    simp only [pure, Except.pure] at h h1
    cases h; cases h1
    exact ⟨rfl, Or.inl (of_triple_pre (getNextClock_pre W D s t0 clk) hm _ h2)⟩
  | shutdown hw =>
    simp only [stepG, step] at h
    obtain ⟨s1, h1, h⟩ := bind_ok h
    simp only [pure, Except.pure] at h; cases h
    exact ⟨rfl, Or.inl (shutdown_pre W D s hw clk _ hm h1)⟩
  | close f =>
    simp only [stepG, step] at h
    obtain ⟨s1, h1, h⟩ := bind_ok h
    simp only [pure, Except.pure] at h; cases h
    exact ⟨rfl, Or.inl (close_pre W D s f clk _ hm h1)⟩
  | mtu m =>
    simp only [stepG, step] at h
    obtain ⟨s1, h1, h⟩ := bind_ok h
    simp only [pure, Except.pure] at h; cases h
    exact ⟨rfl, Or.inl (of_triple_pre (notifyMtu_pre W D s m) hm _ h1)⟩
  | availSendSpace =>
    simp only [stepG, step, pure, Except.pure, bind, Except.bind, getAvailableSendSpace] at h
    cases h; exact ⟨rfl, Or.inl ⟨hm.fok, hm.nx, hm.dz, hm.rl, hm.cap, hm.finp, hm.stk⟩⟩

end

/-- the total invariant along a whole history from any `Tot` state (in particular `Sock.init`) -/
theorem runG_tot (W : List UInt8) (D : Nat) (hB : D + W.length + 2 < 2 ^ 31) (hD : D ≤ DEFAULT_RCV_BUF_SIZE)
    (ops : List (UInt32 × Op)) :
    ∀ (s : Sock) (n : Nat) (s' : Sock) (got' : List UInt8), Tot W D n s → n ≤ W.length →
      (∀ x, x ∈ ops → OpOk0 W D x.2) → GoodRun s ops → runG s (W.take n) ops = .ok (s', got') →
      ∃ n', n ≤ n' ∧ n' ≤ W.length ∧ got' = W.take n' ∧ Tot W D n' s' := by
  induction ops with
  | nil =>
    intro s n s' got' hi hn _ _ h
    simp only [runG, pure, Except.pure] at h
    cases h
    exact ⟨n, Nat.le_refl _, hn, rfl, hi⟩
  | cons x rest ih =>
    intro s n s' got' hi hn hops hgr h
    obtain ⟨clk, op⟩ := x
    simp only [runG] at h
    obtain ⟨⟨s1, b⟩, h1, h⟩ := bind_ok h
    have ⟨hg1, hgr1⟩ := hgr s1 b h1
    have hop := hops (clk, op) List.mem_cons_self
    have hrest := fun x hx => hops x (List.mem_cons_of_mem _ hx)
    simp only at h
    rcases hi with ⟨hn0, hm⟩ | hi
    · subst hn0
      have ⟨b0, k⟩ := stepG_pre W D hD s clk op s1 b hm hop h1 hg1
      subst b0
      have e : List.take 0 W ++ (#[] : Array UInt8).toList = List.take 0 W := by simp
      rw [e] at h
      have ht : Tot W D 0 s1 := by
        rcases k with k | k
        · exact Or.inl ⟨rfl, k⟩
        · exact Or.inr k
      exact ih s1 0 s' got' ht (Nat.zero_le _) hrest hgr1 h
    · have ⟨k1, k2, k3⟩ := stepG_rinv W D n hB s clk op s1 b hi hop.toOpOk h1
      rw [take_append_next W n b k2 k3] at h
      obtain ⟨n', a1, a2, a3, a4⟩ := ih s1 (n + b.size) s' got' (Or.inr k1) k2 hrest hgr1 h
      exact ⟨n', by omega, a2, a3, a4⟩

end Nice.Proofs.PTcpStream
