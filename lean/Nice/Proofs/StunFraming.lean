/-
  Framing proofs: the attribute walk of stun_message_validate_buffer_length decides the reference
  grammar's `Tiles`; the vectored pre-check is a function of the concatenated bytes.
-/
import Nice.Proofs.StunBasic
namespace Nice.Stun
open Nice.Gen Nice.Spec.Stun

theorem Tiles.length_cases {p : Bool} {l : B} (h : Tiles p l) : l = [] ∨ 4 ≤ l.length := by
  cases h with
  | nil => exact Or.inl rfl
  | cons => right; simp

theorem Tiles.cons_inv {p : Bool} {t0 t1 l0 l1 : UInt8} {tail : B}
    (h : Tiles p (t0 :: t1 :: l0 :: l1 :: tail)) :
    ∃ val pd rest, tail = val ++ (pd ++ rest) ∧ val.length = be16 l0 l1 ∧
      pd.length = padLen p (be16 l0 l1) ∧ Tiles p rest := by
  cases h with
  | cons _ _ _ _ val pd rest hv hp hr => exact ⟨val, pd, rest, rfl, hv, hp, hr⟩

/-- step size of the walk = value length + reference padding -/
theorem walk_step (pad : Bool) (w : Nat) (hw : w < 65536) :
    (if pad then alignN w else w) = w + padLen pad w := by
  cases pad
  · simp [padLen]
  · simp [padLen, alignN_eq_add_pad w (by omega)]

theorem walkAttrs_spec (b : Bytes) (pad : Bool) (len : Nat) : ∀ off, off + len ≤ b.size →
    ∃ r, walkAttrs b pad off len = .ok r ∧ (r = true ↔ Tiles pad (seg b off len)) := by
  induction len using Nat.strongRecOn with
  | ind len ih =>
    intro off hb
    rw [walkAttrs]
    by_cases h0 : len = 0
    · subst h0
      exact ⟨true, by simp, by simp [seg_zero, Tiles.nil]⟩
    · simp only [h0, if_false]
      by_cases h4 : len < 4
      · simp only [h4, if_true]
        refine ⟨false, rfl, ?_⟩
        constructor
        · intro h; cases h
        · intro ht
          have hl := seg_length hb
          rcases Tiles.length_cases ht with h | h
          · rw [h] at hl; simp at hl; omega
          · omega
      · simp only [h4, if_false]
        have hg : off + STUN_ATTRIBUTE_TYPE_LEN + 1 < b.size := by simp [STUN_ATTRIBUTE_TYPE_LEN]; omega
        obtain ⟨w, hw, hn⟩ := getw_ok hg
        rw [hw]
        simp only
        have hwlt : w.toNat < 65536 := by rw [hn]; exact getwN_lt _ _
        rw [walk_step pad w.toNat hwlt]
        have hseg := seg4 (b := b) (off := off) (len := len) (by omega) (by omega)
        have hbe : be16 (b.getD (off + 2) 0) (b.getD (off + 3) 0) = w.toNat := by
          rw [hn]; simp [be16, getwN, byteN, STUN_ATTRIBUTE_TYPE_LEN, Nat.add_assoc]
        by_cases hlt : len - 4 < w.toNat + padLen pad w.toNat
        · simp only [hlt, if_true]
          refine ⟨false, rfl, ?_⟩
          constructor
          · intro h; cases h
          · intro ht
            rw [hseg] at ht
            obtain ⟨val, pd, rest, heq, hv, hp, hr⟩ := Tiles.cons_inv ht
            have hl : (seg b (off + 4) (len - 4)).length = len - 4 := seg_length (by omega)
            rw [heq] at hl
            simp only [List.length_append] at hl
            rw [hbe] at hv hp
            omega
        · simp only [hlt, if_false]
          have hrec := ih (len - 4 - (w.toNat + padLen pad w.toNat)) (by omega)
            (off + 4 + (w.toNat + padLen pad w.toNat)) (by omega)
          obtain ⟨r, hr, hiff⟩ := hrec
          refine ⟨r, hr, ?_⟩
          rw [hiff, hseg]
          have hsplit : seg b (off + 4) (len - 4) =
              seg b (off + 4) w.toNat ++ (seg b (off + 4 + w.toNat) (padLen pad w.toNat) ++
                seg b (off + 4 + (w.toNat + padLen pad w.toNat)) (len - 4 - (w.toNat + padLen pad w.toNat))) := by
            have e : len - 4 = w.toNat + (padLen pad w.toNat + (len - 4 - (w.toNat + padLen pad w.toNat))) := by omega
            conv => lhs; rw [e]
            rw [seg_append, seg_append, Nat.add_assoc (off + 4)]
          constructor
          · intro ht
            rw [hsplit]
            exact Tiles.cons _ _ _ _ _ _ _ (by rw [hbe]; exact seg_length (by omega))
              (by rw [hbe]; exact seg_length (by omega)) ht
          · intro ht
            obtain ⟨val, pd, rest, heq, hv, hp, hr'⟩ := Tiles.cons_inv ht
            rw [hbe] at hv hp
            have hd := congrArg (List.drop (w.toNat + padLen pad w.toNat)) heq
            rw [seg_drop] at hd
            rw [← List.append_assoc, List.drop_left' (by simp [hv, hp])] at hd
            rw [hd]
            exact hr'

/-! ### the vectored pre-check as a function of the concatenated bytes -/

/-- concatenation of a list of buffers -/
def FL (l : List Bytes) : List UInt8 := l.flatMap Array.toList

theorem FL_drop_step {bs : Array Bytes} {i : Nat} (h : i < bs.size) :
    FL (bs.toList.drop i) = bs[i].toList ++ FL (bs.toList.drop (i + 1)) := by
  have : i < bs.toList.length := by simpa using h
  rw [List.drop_eq_getElem_cons this]
  simp [FL]

theorem FL_drop_end {bs : Array Bytes} {i : Nat} (h : bs.size ≤ i) : FL (bs.toList.drop i) = [] := by
  rw [List.drop_eq_nil_of_le (by simpa using h)]; rfl

theorem skipEmpty_spec (bs : Array Bytes) (n : Nat) : ∀ i, bs.size - i = n →
    (skipEmpty bs i = none → FL (bs.toList.drop i) = []) ∧
    (∀ s, skipEmpty bs i = some s →
      ∃ hs : s < bs.size, i ≤ s ∧ bs[s].size ≠ 0 ∧ FL (bs.toList.drop i) = FL (bs.toList.drop s)) := by
  induction n with
  | zero =>
    intro i hi
    have hge : ¬ i < bs.size := by omega
    rw [skipEmpty]
    simp only [hge, dite_false]
    exact ⟨fun _ => FL_drop_end (by omega), fun s h => by cases h⟩
  | succ n ih =>
    intro i hi
    have hlt : i < bs.size := by omega
    rw [skipEmpty]
    simp only [hlt, dite_true]
    by_cases he : bs[i].size = 0
    · simp only [he, beq_self_eq_true, if_true]
      obtain ⟨ih1, ih2⟩ := ih (i + 1) (by omega)
      have hstep := FL_drop_step hlt
      have hnil : bs[i].toList = [] := by
        apply List.eq_nil_of_length_eq_zero; simpa using he
      rw [hnil, List.nil_append] at hstep
      refine ⟨fun h => by rw [hstep]; exact ih1 h, fun s h => ?_⟩
      obtain ⟨hs, hle, hne, hfl⟩ := ih2 s h
      exact ⟨hs, by omega, hne, by rw [hstep]; exact hfl⟩
    · rw [if_neg (by simpa using he)]
      refine ⟨fun h => (by cases h), fun s h => ?_⟩
      cases h
      exact ⟨hlt, Nat.le_refl _, he, rfl⟩

theorem skipBytes_spec (bs : Array Bytes) (n : Nat) : ∀ i skip, bs.size - i = n → i ≤ bs.size →
    ∀ r, skipBytes bs i skip = r →
    r.1 ≤ bs.size ∧
    (FL (bs.toList.drop i)).drop skip = (FL (bs.toList.drop r.1)).drop r.2 ∧
    (∀ h : r.1 < bs.size, r.2 < bs[r.1].size) := by
  induction n with
  | zero =>
    intro i skip hi hib r hr
    have hge : ¬ i < bs.size := by omega
    rw [skipBytes] at hr
    simp only [hge, dite_false] at hr
    subst hr
    exact ⟨hib, rfl, fun h => absurd h hge⟩
  | succ n ih =>
    intro i skip hi hib r hr
    have hlt : i < bs.size := by omega
    rw [skipBytes] at hr
    simp only [hlt, dite_true] at hr
    by_cases hle : bs[i].size ≤ skip
    · simp only [hle, if_true] at hr
      obtain ⟨h1, h2, h3⟩ := ih (i + 1) (skip - bs[i].size) (by omega) (by omega) r hr
      refine ⟨h1, ?_, h3⟩
      rw [← h2, FL_drop_step hlt, List.drop_append]
      have : List.drop skip bs[i].toList = [] := List.drop_eq_nil_of_le (by simpa using hle)
      simp [this]
    · simp only [hle, if_false] at hr
      subst hr
      exact ⟨by omega, rfl, fun _ => by simp only; omega⟩

theorem nextNonEmpty_spec (bs : Array Bytes) (n : Nat) : ∀ j, bs.size - j = n → j ≤ bs.size →
    ∀ r, nextNonEmpty bs j = r →
    r ≤ bs.size ∧ FL (bs.toList.drop j) = FL (bs.toList.drop r) ∧ (∀ h : r < bs.size, bs[r].size ≠ 0) := by
  induction n with
  | zero =>
    intro j hj hjb r hr
    have hge : ¬ j < bs.size := by omega
    rw [nextNonEmpty] at hr
    simp only [hge, dite_false] at hr
    subst hr
    exact ⟨hjb, rfl, fun h => absurd h hge⟩
  | succ n ih =>
    intro j hj hjb r hr
    have hlt : j < bs.size := by omega
    rw [nextNonEmpty] at hr
    simp only [hlt, dite_true] at hr
    by_cases he : bs[j].size = 0
    · rw [if_pos (by simpa using he)] at hr
      obtain ⟨h1, h2, h3⟩ := ih (j + 1) (by omega) (by omega) r hr
      refine ⟨h1, ?_, h3⟩
      have hnil : bs[j].toList = [] := by
        apply List.eq_nil_of_length_eq_zero; simpa using he
      rw [FL_drop_step hlt, hnil, List.nil_append]; exact h2
    · rw [if_neg (by simpa using he)] at hr
      subst hr
      exact ⟨by omega, rfl, fun _ => he⟩

/-! #### bytes of a list as numbers -/

def byteL (l : List UInt8) (i : Nat) : Nat := (l.getD i 0).toNat

theorem byteL_append_left {a r : List UInt8} {i : Nat} (h : i < a.length) :
    byteL (a ++ r) i = byteL a i := by
  simp [byteL, List.getD_eq_getElem?_getD, List.getElem?_append_left h]

theorem byteL_append_right {a r : List UInt8} {i : Nat} (h : a.length ≤ i) :
    byteL (a ++ r) i = byteL r (i - a.length) := by
  simp [byteL, List.getD_eq_getElem?_getD, List.getElem?_append_right h]

theorem byteL_drop (l : List UInt8) (k i : Nat) : byteL (l.drop k) i = byteL l (k + i) := by
  simp [byteL, List.getD_eq_getElem?_getD, List.getElem?_drop]

theorem byteN_eq_byteL (b : Bytes) (i : Nat) : byteN b i = byteL b.toList i := by
  simp [byteN, byteL, List.getD_eq_getElem?_getD, Array.getD_eq_getD_getElem?]

/-- the header-only verdict as a function of the byte string -/
def fastSpec (l : List UInt8) (pad : Bool) : LenRes :=
  if l.length = 0 then .invalid
  else if byteL l 0 / 64 ≠ 0 then .invalid
  else if l.length < 4 then .incomplete
  else
    let L := byteL l 2 * 256 + byteL l 3 + 20
    if pad = true ∧ L % 4 ≠ 0 then .invalid
    else if l.length < L then .incomplete
    else .len L

theorem shl8_or (a b : Nat) (hb : b < 256) : (a <<< 8) ||| b = a * 256 + b := by
  rw [← Nat.shiftLeft_add_eq_or_of_lt (i := 8) (by simpa using hb), Nat.shiftLeft_eq]

theorem readLenField_spec (bs : Array Bytes) (h0 : 0 < bs.size) (hf : 4 ≤ (FL bs.toList).length) :
    readLenField bs h0 = .ok (byteL (FL bs.toList) 2 * 256 + byteL (FL bs.toList) 3) := by
  have hf0 : FL bs.toList = bs[0].toList ++ FL (bs.toList.drop 1) := by
    have := FL_drop_step (bs := bs) (i := 0) h0
    simpa using this
  have e1 : STUN_MESSAGE_LENGTH_POS = 2 := rfl
  have e2 : STUN_MESSAGE_LENGTH_LEN = 2 := rfl
  unfold readLenField
  rw [e1, e2]
  split
  · rename_i hfast
    obtain ⟨w, hw, hn⟩ := getw_ok (b := bs[0]) (off := 2) (by omega)
    rw [hw]
    simp only [Except.map]
    rw [hn, hf0]
    have h2 : (2 : Nat) < bs[0].toList.length := by simp; omega
    have h3 : (3 : Nat) < bs[0].toList.length := by simp; omega
    rw [byteL_append_left h2, byteL_append_left h3]
    simp [getwN, byteN_eq_byteL]
  · simp only
    generalize hr : skipBytes bs 0 2 = r
    obtain ⟨h1, h2, h3⟩ := skipBytes_spec bs bs.size 0 2 (by omega) (by omega) r hr
    simp only [List.drop_zero] at h2
    have hlen : 2 ≤ ((FL (bs.toList.drop r.1)).drop r.2).length := by
      rw [← h2, List.length_drop]; omega
    have hr1 : r.1 < bs.size := by
      rcases Nat.lt_or_ge r.1 bs.size with h | h
      · exact h
      · rw [FL_drop_end h] at hlen; simp at hlen
    have hr2 := h3 hr1
    have hg := FL_drop_step hr1
    -- bytes 2 and 3 of the concatenation, seen from buffer r.1
    have hb2 : byteL (FL bs.toList) 2 = byteN bs[r.1] r.2 := by
      have := byteL_drop (FL bs.toList) 2 0
      rw [h2, byteL_drop, hg] at this
      simp only [Nat.add_zero] at this
      rw [← this, byteL_append_left (by simpa using hr2), byteN_eq_byteL]
    have hb3 : byteL (FL bs.toList) 3 = byteL (FL (bs.toList.drop r.1)) (r.2 + 1) := by
      have := byteL_drop (FL bs.toList) 2 1
      rw [h2, byteL_drop] at this
      exact this.symm
    rw [dif_pos hr1]
    split
    · rename_i hgt
      obtain ⟨w, hw, hn⟩ := getw_ok (b := bs[r.1]) (off := r.2) (by omega)
      rw [hw]
      simp only [Except.map]
      rw [hn, hb2, hb3, hg, byteL_append_left (by simp; omega)]
      simp [getwN, byteN_eq_byteL]
    · rename_i hgt
      have hsz : bs[r.1].size = r.2 + 1 := by omega
      rw [rd_ok hr2]
      simp only
      generalize hj : nextNonEmpty bs (r.1 + 1) = j
      obtain ⟨j1, j2, j3⟩ := nextNonEmpty_spec bs (bs.size - (r.1 + 1)) (r.1 + 1) rfl (by omega) j hj
      have hrest : 1 ≤ (FL (bs.toList.drop (r.1 + 1))).length := by
        rw [hg, List.length_drop, List.length_append] at hlen
        simp at hlen; omega
      have hjlt : j < bs.size := by
        rcases Nat.lt_or_ge j bs.size with h | h
        · exact h
        · rw [j2, FL_drop_end h] at hrest; simp at hrest
      have hjne := j3 hjlt
      rw [dif_pos hjlt, rd_ok (by omega)]
      simp only
      have hlo : byteL (FL (bs.toList.drop r.1)) (r.2 + 1) = byteN bs[j] 0 := by
        rw [hg, byteL_append_right (by simp; omega)]
        have : r.2 + 1 - bs[r.1].toList.length = 0 := by simp; omega
        rw [this, j2, FL_drop_step hjlt, byteL_append_left (by simp; omega), byteN_eq_byteL]
      rw [hb2, hb3, hlo]
      have := (bs[j].getD 0 0).toNat_lt
      rw [shl8_or _ _ (by simpa using this)]
      rfl

theorem shr6 (b : UInt8) : (b >>> 6 != 0) = decide (b.toNat / 64 ≠ 0) := by
  have h : (b >>> 6).toNat = b.toNat / 64 := by
    rw [UInt8.toNat_shiftRight]; simp [Nat.shiftRight_eq_div_pow]
  by_cases hz : b.toNat / 64 = 0
  · have : b >>> 6 = 0 := UInt8.toNat_inj.mp (by rw [h, hz]; rfl)
    simp [this, hz]
  · have : b >>> 6 ≠ 0 := fun hc => hz (by rw [← h, hc]; rfl)
    simp [this, hz]

theorem validateFastHead_spec (bs : Array Bytes) (pad : Bool) (h0 : 0 < bs.size) (hne : bs[0].size ≠ 0) :
    validateFastHead bs (FL bs.toList).length pad = .ok (fastSpec (FL bs.toList) pad) := by
  have hf0 : FL bs.toList = bs[0].toList ++ FL (bs.toList.drop 1) := by
    have := FL_drop_step (bs := bs) (i := 0) h0
    simpa using this
  have hlen : (FL bs.toList).length ≠ 0 := by
    rw [hf0]; simp only [List.length_append, Array.length_toList]; omega
  have hb0 : byteL (FL bs.toList) 0 = (bs[0].getD 0 0).toNat := by
    rw [hf0, byteL_append_left (by simp; omega), ← byteN_eq_byteL]; rfl
  have e1 : STUN_MESSAGE_LENGTH_POS = 2 := rfl
  have e2 : STUN_MESSAGE_LENGTH_LEN = 2 := rfl
  have e3 : STUN_MESSAGE_HEADER_LENGTH = 20 := rfl
  unfold validateFastHead fastSpec
  rw [dif_pos h0, rd_ok (by omega), if_neg hlen, e1, e2, e3]
  simp only [shr6, hb0, decide_eq_true_eq]
  by_cases hz : (bs[0].getD 0 0).toNat / 64 ≠ 0
  · rw [if_pos hz, if_pos hz]
  · rw [if_neg hz, if_neg hz]
    by_cases h4 : (FL bs.toList).length < 4
    · rw [if_pos h4, if_pos h4]
    · rw [if_neg h4, if_neg h4, readLenField_spec bs h0 (by omega)]
      simp only
      have hL : byteL (FL bs.toList) 2 * 256 + byteL (FL bs.toList) 3 + 20 < 2 ^ 64 := by
        have := (List.getD (FL bs.toList) 2 0).toNat_lt
        have := (List.getD (FL bs.toList) 3 0).toNat_lt
        simp only [byteL]; omega
      rw [paddingN_eq _ hL]
      generalize byteL (FL bs.toList) 2 * 256 + byteL (FL bs.toList) 3 + 20 = L
      have hpad : ((pad && (4 - L % 4) % 4 != 0) = true) ↔ (pad = true ∧ L % 4 ≠ 0) := by
        cases pad
        · simp
        · simp; omega
      by_cases hp : pad = true ∧ L % 4 ≠ 0
      · rw [if_pos (hpad.mpr hp), if_pos hp]
      · rw [if_neg (fun h => hp (hpad.mp h)), if_neg hp]
        by_cases ht : (FL bs.toList).length < L
        · rw [if_pos ht, if_pos ht]
        · rw [if_neg ht, if_neg ht]

/-- the vectored pre-check is a function of the concatenated bytes (any buffers, empty ones
    included), when `total_length` is the number of bytes in the buffers; it never faults -/
theorem validateFast_spec (bufs : Array Bytes) (pad : Bool) :
    validateFast bufs (FL bufs.toList).length pad = .ok (fastSpec (FL bufs.toList) pad) := by
  unfold validateFast
  by_cases hz : (FL bufs.toList).length = 0
  · simp [hz, fastSpec]
  · have hsz : bufs.size ≠ 0 := by
      intro h
      have : bufs.toList = [] := List.eq_nil_of_length_eq_zero (by simpa using h)
      rw [this] at hz; exact hz rfl
    have hc : (decide ((FL bufs.toList).length < 1) || bufs.size == 0) = false := by
      have h1 : ¬ (FL bufs.toList).length < 1 := by omega
      simp [h1, hsz]
    rw [hc]
    simp only [Bool.false_eq_true, if_false]
    obtain ⟨hn, hs⟩ := skipEmpty_spec bufs bufs.size 0 (by omega)
    simp only [List.drop_zero] at hn hs
    cases hse : skipEmpty bufs 0 with
    | none => exact absurd (by rw [hn hse]; rfl) hz
    | some s =>
      obtain ⟨hslt, _, hne, hfl⟩ := hs s hse
      simp only
      have hl : (bufs.extract s bufs.size).toList = bufs.toList.drop s := by
        rw [Array.toList_extract, List.extract_eq_take_drop]
        exact List.take_of_length_le (by simp)
      have h0 : 0 < (bufs.extract s bufs.size).size := by simp; omega
      have hfirst : (bufs.extract s bufs.size)[0] = bufs[s] := by
        rw [Array.getElem_extract]; simp
      have := validateFastHead_spec (bufs.extract s bufs.size) pad h0 (by rw [hfirst]; exact hne)
      rw [hl, ← hfl] at this
      exact this

theorem FL_single (msg : Bytes) : FL #[msg].toList = msg.toList := by simp [FL]

theorem validateFast_single (msg : Bytes) (pad : Bool) :
    validateFast #[msg] msg.size pad = .ok (fastSpec msg.toList pad) := by
  have := validateFast_spec #[msg] pad
  rw [FL_single] at this
  simpa using this

theorem fastSpec_len {l : List UInt8} {pad : Bool} {L : Nat} (h : fastSpec l pad = .len L) :
    l.length ≠ 0 ∧ byteL l 0 / 64 = 0 ∧ 4 ≤ l.length ∧ L = byteL l 2 * 256 + byteL l 3 + 20 ∧
    (pad = true → L % 4 = 0) ∧ L ≤ l.length := by
  unfold fastSpec at h
  split at h
  · cases h
  · split at h
    · cases h
    · split at h
      · cases h
      · simp only at h
        split at h
        · cases h
        · split at h
          · cases h
          · rename_i h1 h2 h3 h4 h5
            injection h with h
            subst h
            refine ⟨h1, by omega, by omega, rfl, ?_, by omega⟩
            intro hp
            apply Decidable.byContradiction
            intro hc
            exact h4 ⟨hp, hc⟩

/-- the contiguous validator in closed form: never faults; the pre-check's verdict, refined by the
    reference tiling of the body -/
theorem validateLen_spec (msg : Bytes) (pad : Bool) :
    (∀ L, fastSpec msg.toList pad = .len L →
      (Tiles pad (seg msg 20 (L - 20)) → validateLen msg pad = .ok (.len L)) ∧
      (¬ Tiles pad (seg msg 20 (L - 20)) → validateLen msg pad = .ok .invalid)) ∧
    (fastSpec msg.toList pad = .invalid → validateLen msg pad = .ok .invalid) ∧
    (fastSpec msg.toList pad = .incomplete → validateLen msg pad = .ok .incomplete) := by
  unfold validateLen
  rw [validateFast_single]
  refine ⟨?_, ?_, ?_⟩
  · intro L hL
    rw [hL]
    simp only
    obtain ⟨_, _, h4, hLe, _, hle⟩ := fastSpec_len hL
    have hle' : L ≤ msg.size := by simpa using hle
    obtain ⟨r, hr, hiff⟩ := walkAttrs_spec msg pad (L - 20) 20 (by omega)
    rw [hr]
    constructor
    · intro ht
      have : r = true := hiff.mpr ht
      subst this; rfl
    · intro ht
      have : r = false := by
        cases r
        · rfl
        · exact absurd (hiff.mp rfl) ht
      subst this; rfl
  · intro h; rw [h]
  · intro h; rw [h]

end Nice.Stun
