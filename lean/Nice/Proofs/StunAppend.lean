/-
  Builder proofs: `stun_message_append` in closed form (a composition of pure updates), what it
  leaves untouched, and the tiling of the message it produces.
-/
import Nice.Proofs.StunFind
namespace Nice.Stun
open Nice.Gen Nice.Spec.Stun

/-! ### pure writes -/

theorem getD_set (b : Bytes) (i j : Nat) (v : UInt8) :
    (b.setIfInBounds i v).getD j 0 = if i = j ∧ j < b.size then v else b.getD j 0 := by
  simp only [Array.getD_eq_getD_getElem?, Array.getElem?_setIfInBounds]
  by_cases h : i = j
  · subst h
    by_cases hl : i < b.size
    · simp [hl]
    · simp [hl]
  · simp [h]

theorem getD_oob (b : Bytes) (j : Nat) (h : b.size ≤ j) : b.getD j 0 = 0 := by
  simp [Array.getD_eq_getD_getElem?, Array.getElem?_eq_none h]

theorem wr_eq {b : Bytes} {i : Nat} {v : UInt8} (h : i < b.size) : wr b i v = .ok (b.setIfInBounds i v) := by
  simp [wr, h]

/-- both bytes of `stun_setw`, as a pure update -/
def setwP (b : Bytes) (off : Nat) (v : UInt16) : Bytes :=
  (b.setIfInBounds off (v >>> 8).toUInt8).setIfInBounds (off + 1) (v &&& 0xff).toUInt8

theorem setw_eq {b : Bytes} {off : Nat} {v : UInt16} (h : off + 1 < b.size) :
    setw b off v = .ok (setwP b off v) := by
  unfold setw setwP
  rw [wr_eq (by omega)]
  simp only
  rw [wr_eq (by simp; omega)]

theorem setwP_size (b : Bytes) (off : Nat) (v : UInt16) : (setwP b off v).size = b.size := by
  simp [setwP]

theorem setwP_getD (b : Bytes) (off : Nat) (v : UInt16) (j : Nat) (h : off + 1 < b.size) :
    (setwP b off v).getD j 0 =
      if j = off then (v >>> 8).toUInt8 else if j = off + 1 then (v &&& 0xff).toUInt8 else b.getD j 0 := by
  unfold setwP
  rw [getD_set, getD_set]
  simp only [Array.size_setIfInBounds]
  by_cases h1 : j = off
  · subst h1; simp; omega
  · by_cases h2 : j = off + 1
    · subst h2; simp; omega
    · have : ¬ (off + 1 = j ∧ j < b.size) := fun h => h2 h.1.symm
      have h1' : ¬ (off = j ∧ j < b.size) := fun h => h1 h.1.symm
      simp [h1, h2, this, h1']

theorem blit_size (b : Bytes) (off : Nat) (src : Bytes) : (blit b off src).size = b.size := by
  simp [blit]

theorem blit_getD (b : Bytes) (off : Nat) (src : Bytes) (j : Nat) (h : off + src.size ≤ b.size) :
    (blit b off src).getD j 0 = if off ≤ j ∧ j < off + src.size then src.getD (j - off) 0 else b.getD j 0 := by
  unfold blit
  simp only [Array.getD_eq_getD_getElem?, Array.getElem?_ofFn]
  by_cases hj : j < b.size
  · simp only [hj, dite_true]
    by_cases hc : off ≤ j ∧ j < off + src.size
    · simp [hc]
    · simp [hc, Array.getElem?_eq_getElem hj]
  · have : ¬ (off ≤ j ∧ j < off + src.size) := by omega
    simp [hj, this, Array.getElem?_eq_none (Nat.le_of_not_lt hj)]

theorem blit_replicate_zero (b : Bytes) (off : Nat) : blit b off (Array.replicate 0 0) = b := by
  apply Array.ext
  · simp [blit_size]
  · intro i h1 h2
    simp only [blit, Array.getElem_ofFn, Array.size_replicate]
    rw [if_neg (by omega)]
    rfl

theorem blit_empty (b : Bytes) (off : Nat) : blit b off #[] = b := blit_replicate_zero b off

theorem wrBytes_eq {b : Bytes} {off : Nat} {src : Bytes} (h : off + src.size ≤ b.size) :
    wrBytes b off src = .ok (blit b off src) := by
  simp [wrBytes, h]

theorem wrZeros_eq {b : Bytes} {off n : Nat} (h : off + n ≤ b.size) :
    wrZeros b off n = .ok (blit b off (Array.replicate n 0)) := by
  unfold wrZeros; exact wrBytes_eq (by simpa using h)

theorem hasCookie_ok {b : Bytes} (h : 20 ≤ b.size) : ∃ c, hasCookie b = .ok c := by
  unfold hasCookie messageId rdBytes
  have e1 : STUN_MESSAGE_TRANS_ID_POS = 4 := rfl
  have e2 : STUN_MESSAGE_TRANS_ID_LEN = 16 := rfl
  rw [e1, e2, if_pos (by omega)]
  exact ⟨_, rfl⟩

/-! ### `stun_message_append` in closed form -/

/-- the attribute length field `stun_message_append` writes -/
def lenField (a : Option Cfg) (hc : Bool) (n : Nat) : UInt16 :=
  if noAlign a then UInt16.ofNat n else UInt16.ofNat (if hc then n else alignN n)

/-- padding bytes `stun_message_append` reserves -/
def padOf (a : Option Cfg) (n : Nat) : Nat := if noAlign a then 0 else paddingN n

/-- the buffer after a successful `stun_message_append` : four pure updates -/
def appendP (a : Option Cfg) (buf : Bytes) (w : UInt16) (type : UInt16) (n : Nat) (hc : Bool) : Bytes :=
  let b1 := setwP buf w.toNat (swapType a type)
  let b2 := setwP b1 (w.toNat + 2) (lenField a hc n)
  let b3 := blit b2 (w.toNat + 4 + n) (Array.replicate (padOf a n) 0)
  setwP b3 2 (w + UInt16.ofNat (padOf a n) + UInt16.ofNat (4 + n) - 20)

theorem append_eq (a : Option Cfg) (buf : Bytes) (type : UInt16) (n : Nat) (w : UInt16)
    (hw : messageLength buf = .ok w) (h20 : 20 ≤ buf.size) (hn : n < 2 ^ 63) :
    (w.toNat + 4 + n + padOf a n > buf.size → append a buf type n = .ok none) ∧
    (w.toNat + 4 + n + padOf a n ≤ buf.size →
      ∃ hc, hasCookie (setwP buf w.toNat (swapType a type)) = .ok hc ∧
        append a buf type n = .ok (some (appendP a buf w type n hc, w.toNat + 4))) := by
  have hwlt : w.toNat < 65536 := w.toNat_lt
  have hpad : padOf a n ≤ 3 := by
    unfold padOf; split
    · omega
    · rw [paddingN_eq n (by omega)]; omega
  have hmod : (w.toNat + STUN_ATTRIBUTE_HEADER_LENGTH + n + padOf a n) % 2 ^ 64 = w.toNat + 4 + n + padOf a n := by
    have e : STUN_ATTRIBUTE_HEADER_LENGTH = 4 := rfl
    rw [e]; exact Nat.mod_eq_of_lt (by omega)
  unfold append
  rw [hw]
  simp only
  have hpd : (if noAlign a = true then 0 else paddingN n) = padOf a n := rfl
  rw [hpd, hmod]
  constructor
  · intro h; rw [if_pos h]
  · intro h
    rw [if_neg (by omega)]
    have hs1 : (setwP buf w.toNat (swapType a type)).size = buf.size := setwP_size _ _ _
    obtain ⟨hc, hhc⟩ := hasCookie_ok (b := setwP buf w.toNat (swapType a type)) (by omega)
    refine ⟨hc, hhc, ?_⟩
    rw [setw_eq (by omega)]
    simp only
    have e2 : STUN_MESSAGE_LENGTH_POS = 2 := rfl
    have e20 : STUN_MESSAGE_HEADER_LENGTH = 20 := rfl
    unfold appendP
    cases hna : noAlign a
    · -- aligned attributes
      simp only [Bool.false_eq_true, if_false]
      rw [hhc]
      simp only
      have hlf : lenField a hc n = UInt16.ofNat (if hc = true then n else alignN n) := by
        simp [lenField, hna]
      have hpo : padOf a n = paddingN n := by simp [padOf, hna]
      rw [setw_eq (by rw [hs1]; omega), ← hlf]
      simp only
      by_cases hp0 : paddingN n > 0
      · rw [if_pos hp0, wrZeros_eq (by simp [setwP_size]; omega)]
        simp only
        rw [e2, e20, setw_eq (by simp [setwP_size, blit_size]; omega), hpo]
        rfl
      · rw [if_neg hp0]
        simp only
        have hz : paddingN n = 0 := by omega
        rw [e2, e20, setw_eq (by simp [setwP_size]; omega), hpo, hz]
        rw [blit_replicate_zero]
        simp
    · -- NO_ALIGNED_ATTRIBUTES
      simp only [if_true]
      have hlf : lenField a hc n = UInt16.ofNat n := by simp [lenField, hna]
      have hpo : padOf a n = 0 := by simp [padOf, hna]
      rw [setw_eq (by rw [hs1]; omega), ← hlf]
      simp only
      rw [e2, e20, setw_eq (by simp [setwP_size]; omega), hpo]
      rw [blit_replicate_zero]
      simp

/-! ### what a successful append writes -/

theorem be16_split (v : UInt16) : be16 (v >>> 8).toUInt8 (v &&& 0xff).toUInt8 = v.toNat := by
  unfold be16
  rw [UInt16.toNat_toUInt8, UInt16.toNat_toUInt8, UInt16.toNat_shiftRight, UInt16.toNat_and]
  have := v.toNat_lt
  simp [Nat.shiftRight_eq_div_pow]
  have h1 : (255 : Nat) = 2^8 - 1 := by decide
  rw [h1, Nat.and_two_pow_sub_one_eq_mod]
  omega

theorem appendP_size (a : Option Cfg) (buf : Bytes) (w type : UInt16) (n : Nat) (hc : Bool) :
    (appendP a buf w type n hc).size = buf.size := by
  simp [appendP, setwP_size, blit_size]

/-- the 16-bit message length after the append -/
def newLen (a : Option Cfg) (w : UInt16) (n : Nat) : UInt16 :=
  w + UInt16.ofNat (padOf a n) + UInt16.ofNat (4 + n)

/-- every byte of the buffer after a successful append (message length ≥ 20) -/
theorem appendP_getD (a : Option Cfg) (buf : Bytes) (w type : UInt16) (n : Nat) (hc : Bool) (j : Nat)
    (hL : 20 ≤ w.toNat) (hfit : w.toNat + 4 + n + padOf a n ≤ buf.size) :
    (appendP a buf w type n hc).getD j 0 =
      if j = 2 then ((newLen a w n - 20) >>> 8).toUInt8
      else if j = 3 then ((newLen a w n - 20) &&& 0xff).toUInt8
      else if w.toNat + 4 + n ≤ j ∧ j < w.toNat + 4 + n + padOf a n then 0
      else if j = w.toNat + 2 then (lenField a hc n >>> 8).toUInt8
      else if j = w.toNat + 3 then (lenField a hc n &&& 0xff).toUInt8
      else if j = w.toNat then (swapType a type >>> 8).toUInt8
      else if j = w.toNat + 1 then (swapType a type &&& 0xff).toUInt8
      else buf.getD j 0 := by
  unfold appendP newLen
  simp only
  rw [setwP_getD _ _ _ _ (by simp [blit_size, setwP_size]; omega)]
  rw [blit_getD _ _ _ _ (by simp [setwP_size]; omega)]
  rw [setwP_getD _ _ _ _ (by simp [setwP_size]; omega)]
  rw [setwP_getD _ _ _ _ (by omega)]
  simp only [Array.size_replicate]
  by_cases h2 : j = 2
  · simp [h2]
  · by_cases h3 : j = 3
    · simp [h3]
    · rw [if_neg h2, if_neg h3, if_neg h2, if_neg h3]
      by_cases hp : w.toNat + 4 + n ≤ j ∧ j < w.toNat + 4 + n + padOf a n
      · rw [if_pos hp, if_pos hp]
        simp only [Array.getD_eq_getD_getElem?, Array.getElem?_replicate]
        split <;> rfl
      · rw [if_neg hp, if_neg hp]

/-- reachable builder state: a message of (16-bit) length `w` inside the buffer whose body tiles -/
structure Built (a : Option Cfg) (buf : Bytes) (w : UInt16) : Prop where
  len_ok : messageLength buf = .ok w
  ge20 : 20 ≤ w.toNat
  le_size : w.toNat ≤ buf.size
  top : byteN buf 0 / 64 = 0
  tiles : Tiles (!noAlign a) (seg buf 20 (w.toNat - 20))
  mult4 : noAlign a = false → w.toNat % 4 = 0

theorem getElem?_of_getD {b : Bytes} {j : Nat} (h : j < b.size) : b.toList[j]? = some (b.getD j 0) := by
  simp [Array.getD_eq_getD_getElem?, h]

theorem seg_getElem? (b : Bytes) (off len k : Nat) :
    (seg b off len)[k]? = if k < len then b.toList[off + k]? else none := by
  unfold seg
  rw [List.getElem?_take]
  split
  · rw [List.getElem?_drop]
  · rfl

theorem seg_ext {b1 b2 : Bytes} {off len : Nat} (h1 : off + len ≤ b1.size) (h2 : off + len ≤ b2.size)
    (h : ∀ j, off ≤ j → j < off + len → b1.getD j 0 = b2.getD j 0) : seg b1 off len = seg b2 off len := by
  apply List.ext_getElem?
  intro k
  rw [seg_getElem?, seg_getElem?]
  split
  · rw [getElem?_of_getD (by omega), getElem?_of_getD (by omega), h _ (by omega) (by omega)]
  · rfl

theorem seg_zeros {b : Bytes} {off len : Nat} (h1 : off + len ≤ b.size)
    (h : ∀ j, off ≤ j → j < off + len → b.getD j 0 = 0) : seg b off len = List.replicate len 0 := by
  apply List.ext_getElem?
  intro k
  rw [seg_getElem?, List.getElem?_replicate]
  split
  · rw [getElem?_of_getD (by omega), h _ (by omega) (by omega)]
  · rfl

theorem Tiles.append {p : Bool} {l1 l2 : B} (h1 : Tiles p l1) (h2 : Tiles p l2) : Tiles p (l1 ++ l2) := by
  induction h1 with
  | nil => simpa using h2
  | cons t0 t1 l0 l1' val pd rest hv hp _ ih =>
    have : t0 :: t1 :: l0 :: l1' :: (val ++ (pd ++ rest)) ++ l2 =
        t0 :: t1 :: l0 :: l1' :: (val ++ (pd ++ (rest ++ l2))) := by simp
    rw [this]
    exact Tiles.cons _ _ _ _ _ _ _ hv hp ih

theorem Tiles.single (p : Bool) (t0 t1 l0 l1 : UInt8) (val pd : B)
    (hv : val.length = be16 l0 l1) (hp : pd.length = padLen p (be16 l0 l1)) :
    Tiles p (t0 :: t1 :: l0 :: l1 :: (val ++ pd)) := by
  have := Tiles.cons (padded := p) t0 t1 l0 l1 val pd [] hv hp Tiles.nil
  simpa using this

theorem padOf_le (a : Option Cfg) (n : Nat) (hn : n < 2 ^ 63) : padOf a n ≤ 3 := by
  unfold padOf; split
  · omega
  · rw [paddingN_eq n (by omega)]; omega

theorem messageLength_of_bytes {b : Bytes} {x : UInt16} (h4 : 4 ≤ b.size)
    (h2 : b.getD 2 0 = (x >>> 8).toUInt8) (h3 : b.getD 3 0 = (x &&& 0xff).toUInt8) :
    messageLength b = .ok (x + 20) := by
  obtain ⟨w, hw, hwn⟩ := getw_ok (b := b) (off := 2) (by omega)
  unfold messageLength
  have e : STUN_MESSAGE_LENGTH_POS = 2 := rfl
  have e2 : STUN_MESSAGE_HEADER_LENGTH = 20 := rfl
  rw [e, e2, hw]
  have : w = x := by
    apply UInt16.toNat_inj.mp
    rw [hwn, ← be16_split x]
    simp [getwN, byteN, be16, h2, h3]
  rw [this]; rfl

/-- a successful append (whatever is then stored in the value bytes) leads from a well-formed
    builder state to a well-formed builder state -/
theorem built_step (a : Option Cfg) (buf : Bytes) (w type : UInt16) (n : Nat) (hc : Bool)
    (hB : Built a buf w) (hcap : buf.size ≤ 65535)
    (hfit : w.toNat + 4 + n + padOf a n ≤ buf.size)
    (b' : Bytes) (hsz : b'.size = buf.size)
    (hsame : ∀ j, (j < w.toNat + 4 ∨ w.toNat + 4 + n ≤ j) →
      b'.getD j 0 = (appendP a buf w type n hc).getD j 0) :
    Built a b' (newLen a w n) ∧ (newLen a w n).toNat = w.toNat + 4 + n + padOf a n := by
  have hL := hB.ge20
  have hn : n < 2 ^ 63 := by omega
  have hpad := padOf_le a n hn
  have hnl : (newLen a w n).toNat = w.toNat + 4 + n + padOf a n := by
    unfold newLen
    rw [UInt16.toNat_add, UInt16.toNat_add]
    simp only [UInt16.toNat_ofNat']
    have : (65536 : Nat) = 2 ^ 16 := by decide
    omega
  have hget : ∀ j, (j < w.toNat + 4 ∨ w.toNat + 4 + n ≤ j) → b'.getD j 0 = _ :=
    fun j hj => (hsame j hj).trans (appendP_getD a buf w type n hc j hL hfit)
  refine ⟨⟨?_, by omega, by omega, ?_, ?_, ?_⟩, hnl⟩
  · have h2 := hget 2 (by omega)
    have h3 := hget 3 (by omega)
    simp only [if_true] at h2
    rw [if_neg (by omega), if_pos rfl] at h3
    have := messageLength_of_bytes (b := b') (x := newLen a w n - 20) (by omega) h2 h3
    rw [UInt16.sub_add_cancel] at this
    exact this
  · have h0 := hget 0 (by omega)
    rw [if_neg (by omega), if_neg (by omega), if_neg (by omega), if_neg (by omega), if_neg (by omega),
      if_neg (by omega), if_neg (by omega)] at h0
    unfold byteN; rw [h0]; exact hB.top
  · -- tiling: old body ++ new attribute
    rw [hnl]
    have e : w.toNat + 4 + n + padOf a n - 20 = (w.toNat - 20) + (4 + (n + padOf a n)) := by omega
    rw [e, seg_append]
    have hold : seg b' 20 (w.toNat - 20) = seg buf 20 (w.toNat - 20) := by
      apply seg_ext (by omega) (by have := hB.le_size; omega)
      intro j h1 h2
      rw [hget j (by omega)]
      rw [if_neg (by omega), if_neg (by omega), if_neg (by omega), if_neg (by omega), if_neg (by omega),
        if_neg (by omega), if_neg (by omega)]
    rw [hold]
    apply Tiles.append hB.tiles
    have e20 : 20 + (w.toNat - 20) = w.toNat := by omega
    rw [e20, seg4 (by omega) (by omega)]
    have e4 : 4 + (n + padOf a n) - 4 = n + padOf a n := by omega
    rw [e4, seg_append]
    have g0 := hget w.toNat (by omega)
    have g1 := hget (w.toNat + 1) (by omega)
    have g2 := hget (w.toNat + 2) (by omega)
    have g3 := hget (w.toNat + 3) (by omega)
    rw [if_neg (by omega), if_neg (by omega), if_neg (by omega), if_pos rfl] at g2
    rw [if_neg (by omega), if_neg (by omega), if_neg (by omega), if_neg (by omega), if_pos rfl] at g3
    rw [g2, g3]
    have hzeros : seg b' (w.toNat + 4 + n) (padOf a n) = List.replicate (padOf a n) 0 := by
      apply seg_zeros (by omega)
      intro j h1 h2
      rw [hget j (by omega), if_neg (by omega), if_neg (by omega), if_pos ⟨h1, h2⟩]
    have hvl : (seg b' (w.toNat + 4) n).length = n := seg_length (by omega)
    cases hna : noAlign a
    · -- aligned
      have hpo : padOf a n = paddingN n := by simp [padOf, hna]
      have hpp : paddingN n = pad4 n := paddingN_eq_pad4 n (by omega)
      cases hc
      · -- no cookie: the length field is rounded up, value ++ zeros is the value
        have hlf : (lenField a false n).toNat = n + pad4 n := by
          simp only [lenField, hna, Bool.false_eq_true, if_false]
          rw [alignN_eq_add_pad n (by omega), UInt16.toNat_ofNat']
          have : pad4 n ≤ 3 := by unfold pad4; omega
          have : (65536 : Nat) = 2 ^ 16 := by decide
          omega
        have := Tiles.single (!false) (b'.getD w.toNat 0) (b'.getD (w.toNat + 1) 0)
          ((lenField a false n >>> 8).toUInt8) ((lenField a false n &&& 0xff).toUInt8)
          (seg b' (w.toNat + 4) n ++ seg b' (w.toNat + 4 + n) (padOf a n)) []
          (by rw [be16_split, hlf, List.length_append, hvl, seg_length (by omega), hpo, hpp])
          (by rw [be16_split, hlf]; simp [padLen, pad4]; omega)
        simpa using this
      · have hlf : (lenField a true n).toNat = n := by
          simp only [lenField, hna, Bool.false_eq_true, if_false, if_true]
          rw [UInt16.toNat_ofNat']
          have : (65536 : Nat) = 2 ^ 16 := by decide
          omega
        exact Tiles.single (!false) _ _ _ _ _ _ (by rw [be16_split, hlf, hvl])
          (by rw [be16_split, hlf, seg_length (by omega), hpo, hpp]; rfl)
    · -- not aligned
      have hpo : padOf a n = 0 := by simp [padOf, hna]
      have hlf : (lenField a hc n).toNat = n := by
        simp only [lenField, hna, if_true]
        rw [UInt16.toNat_ofNat']
        have : (65536 : Nat) = 2 ^ 16 := by decide
        omega
      exact Tiles.single (!true) _ _ _ _ _ _ (by rw [be16_split, hlf, hvl])
        (by rw [be16_split, hlf, seg_length (by omega), hpo]; rfl)
  · intro hna
    rw [hnl]
    have := hB.mult4 hna
    have hpo : padOf a n = paddingN n := by simp [padOf, hna]
    rw [hpo, paddingN_eq n (by omega)]
    omega

/-- `stun_message_append` followed by a `memcpy` of at most `n` bytes into the value: the general
    shape of every typed append -/
theorem append_then_write (a : Option Cfg) (buf : Bytes) (w type : UInt16) (n : Nat) (d : Bytes)
    (hB : Built a buf w) (hcap : buf.size ≤ 65535) (hn : n < 2 ^ 63) (hd : d.size ≤ n) :
    (w.toNat + 4 + n + padOf a n > buf.size → append a buf type n = .ok none) ∧
    (w.toNat + 4 + n + padOf a n ≤ buf.size →
      ∃ hc, append a buf type n = .ok (some (appendP a buf w type n hc, w.toNat + 4)) ∧
        wrBytes (appendP a buf w type n hc) (w.toNat + 4) d =
          .ok (blit (appendP a buf w type n hc) (w.toNat + 4) d) ∧
        Built a (blit (appendP a buf w type n hc) (w.toNat + 4) d) (newLen a w n) ∧
        (newLen a w n).toNat = w.toNat + 4 + n + padOf a n) := by
  obtain ⟨h1, h2⟩ := append_eq a buf type n w hB.len_ok (by have := hB.ge20; have := hB.le_size; omega) hn
  refine ⟨h1, fun hfit => ?_⟩
  obtain ⟨hc, _, happ⟩ := h2 hfit
  have hsz := appendP_size a buf w type n hc
  have hpad := padOf_le a n hn
  refine ⟨hc, happ, wrBytes_eq (by rw [hsz]; omega), ?_⟩
  apply built_step a buf w type n hc hB hcap hfit _ (by rw [blit_size, hsz])
  intro j hj
  rw [blit_getD _ _ _ _ (by rw [hsz]; omega), if_neg (by omega)]

/-- `stun_message_append_bytes` in closed form on a well-formed builder state -/
theorem appendBytes_spec (a : Option Cfg) (buf : Bytes) (w type : UInt16) (data : Bytes)
    (hB : Built a buf w) (hcap : buf.size ≤ 65535) (hn : data.size < 2 ^ 63) :
    (w.toNat + 4 + data.size + padOf a data.size > buf.size →
      appendBytes a buf type data = .ok (.noSpace, buf)) ∧
    (w.toNat + 4 + data.size + padOf a data.size ≤ buf.size →
      ∃ hc, appendBytes a buf type data =
          .ok (.success, blit (appendP a buf w type data.size hc) (w.toNat + 4) data) ∧
        Built a (blit (appendP a buf w type data.size hc) (w.toNat + 4) data) (newLen a w data.size) ∧
        (newLen a w data.size).toNat = w.toNat + 4 + data.size + padOf a data.size) := by
  obtain ⟨h1, h2⟩ := append_then_write a buf w type data.size data hB hcap hn (Nat.le_refl _)
  constructor
  · intro h; unfold appendBytes; rw [h1 h]
  · intro h
    obtain ⟨hc, happ, hwr, hbuilt, hlen⟩ := h2 h
    refine ⟨hc, ?_, hbuilt, hlen⟩
    unfold appendBytes
    rw [happ]
    simp only
    by_cases hz : data.size > 0
    · rw [if_pos hz, hwr]
    · rw [if_neg hz]
      have : data = #[] := by
        apply Array.eq_empty_of_size_eq_zero; omega
      rw [this, blit_empty]

/-! ### lookup on a builder state, attribute list after an append -/

theorem find_built (a : Option Cfg) (buf : Bytes) (w t : UInt16) (hB : Built a buf w) (attrs : List Attr)
    (hp : parseFrom (!noAlign a) 20 (seg buf 20 (w.toNat - 20)) = some attrs) :
    (find a buf t).map (Option.map fun r => (r.1, r.2.toNat)) =
      .ok ((refFindRec (swapType a t).toNat attrs).map fun x => (x.off, x.len)) := by
  unfold find
  rw [hB.len_ok]
  simp only
  have e3 : STUN_MESSAGE_ATTRIBUTES_POS = 20 := rfl
  rw [e3]
  exact findLoop_spec buf (noAlign a) (swapType a t) w.toNat hB.le_size (w.toNat - 20) 20
    (by have := hB.ge20; omega) attrs hp

theorem parseFrom_append (pad : Bool) : ∀ (n : Nat) (l1 : B), l1.length = n → ∀ off as1 l2 as2,
    parseFrom pad off l1 = some as1 → parseFrom pad (off + l1.length) l2 = some as2 →
    parseFrom pad off (l1 ++ l2) = some (as1 ++ as2) := by
  intro n
  induction n using Nat.strongRecOn with
  | ind n ih =>
    intro l1 hl off as1 l2 as2 h1 h2
    match l1, hl with
    | [], _ =>
      rw [parseFrom] at h1
      injection h1 with h1; subst h1
      simpa using h2
    | [x], _ => simp [parseFrom] at h1
    | [x, y], _ => simp [parseFrom] at h1
    | [x, y, z], _ => simp [parseFrom] at h1
    | t0 :: t1 :: l0 :: l1' :: rest, hl =>
      rw [parseFrom] at h1
      split at h1
      · rename_i hfit
        cases hrec : parseFrom pad (off + 4 + (be16 l0 l1' + padLen pad (be16 l0 l1')))
            (rest.drop (be16 l0 l1' + padLen pad (be16 l0 l1'))) with
        | none => rw [hrec] at h1; cases h1
        | some as =>
          rw [hrec] at h1
          injection h1 with h1; subst h1
          have hcons : (t0 :: t1 :: l0 :: l1' :: rest) ++ l2 = t0 :: t1 :: l0 :: l1' :: (rest ++ l2) := rfl
          rw [hcons, parseFrom]
          rw [if_pos (by rw [List.length_append]; omega)]
          rw [List.drop_append_of_le_length hfit]
          have hlen : (rest.drop (be16 l0 l1' + padLen pad (be16 l0 l1'))).length < n := by
            rw [← hl]; simp; omega
          have := ih _ hlen _ rfl (off + 4 + (be16 l0 l1' + padLen pad (be16 l0 l1'))) as l2 as2 hrec
            (by
              have e : off + 4 + (be16 l0 l1' + padLen pad (be16 l0 l1')) +
                  (rest.drop (be16 l0 l1' + padLen pad (be16 l0 l1'))).length =
                  off + (t0 :: t1 :: l0 :: l1' :: rest).length := by
                simp [List.length_drop]; omega
              rw [e]; exact h2)
          rw [this]
          rfl
      · cases h1

theorem parseFrom_single (pad : Bool) (off : Nat) (t0 t1 l0 l1 : UInt8) (val pd : B)
    (hv : val.length = be16 l0 l1) (hp : pd.length = padLen pad (be16 l0 l1)) :
    parseFrom pad off (t0 :: t1 :: l0 :: l1 :: (val ++ pd)) = some [⟨be16 t0 t1, off + 4, be16 l0 l1⟩] := by
  rw [parseFrom, if_pos (by simp [hv, hp])]
  have : (val ++ pd).drop (be16 l0 l1 + padLen pad (be16 l0 l1)) = [] := by
    apply List.drop_eq_nil_of_le; simp [hv, hp]
  rw [this, parseFrom]

/-- the reference parser's view of the message after a successful append: the old attributes
    followed by the new one (type after the OC2007 swap, value at the old end + 4, length field) -/
theorem parse_after (a : Option Cfg) (buf : Bytes) (w type : UInt16) (n : Nat) (hc : Bool)
    (hB : Built a buf w) (hcap : buf.size ≤ 65535)
    (hfit : w.toNat + 4 + n + padOf a n ≤ buf.size)
    (b' : Bytes) (hsz : b'.size = buf.size)
    (hsame : ∀ j, (j < w.toNat + 4 ∨ w.toNat + 4 + n ≤ j) →
      b'.getD j 0 = (appendP a buf w type n hc).getD j 0)
    (attrs : List Attr) (hp : parseFrom (!noAlign a) 20 (seg buf 20 (w.toNat - 20)) = some attrs) :
    parseFrom (!noAlign a) 20 (seg b' 20 ((newLen a w n).toNat - 20)) =
      some (attrs ++ [⟨(swapType a type).toNat, w.toNat + 4, (lenField a hc n).toNat⟩]) := by
  have hL := hB.ge20
  have hn : n < 2 ^ 63 := by omega
  have hpad := padOf_le a n hn
  obtain ⟨_, hnl⟩ := built_step a buf w type n hc hB hcap hfit b' hsz hsame
  have hget : ∀ j, (j < w.toNat + 4 ∨ w.toNat + 4 + n ≤ j) → b'.getD j 0 = _ :=
    fun j hj => (hsame j hj).trans (appendP_getD a buf w type n hc j hL hfit)
  rw [hnl]
  have e : w.toNat + 4 + n + padOf a n - 20 = (w.toNat - 20) + (4 + (n + padOf a n)) := by omega
  rw [e, seg_append]
  have hold : seg b' 20 (w.toNat - 20) = seg buf 20 (w.toNat - 20) := by
    apply seg_ext (by omega) (by have := hB.le_size; omega)
    intro j h1 h2
    rw [hget j (by omega)]
    rw [if_neg (by omega), if_neg (by omega), if_neg (by omega), if_neg (by omega), if_neg (by omega),
      if_neg (by omega), if_neg (by omega)]
  rw [hold]
  have hlen20 : (seg buf 20 (w.toNat - 20)).length = w.toNat - 20 :=
    seg_length (by have := hB.le_size; omega)
  apply parseFrom_append _ _ _ rfl 20 attrs _ _ hp
  rw [hlen20]
  have e20 : 20 + (w.toNat - 20) = w.toNat := by omega
  rw [e20, seg4 (by omega) (by omega)]
  have e4 : 4 + (n + padOf a n) - 4 = n + padOf a n := by omega
  rw [e4, seg_append]
  have g0 := hget w.toNat (by omega)
  have g1 := hget (w.toNat + 1) (by omega)
  have g2 := hget (w.toNat + 2) (by omega)
  have g3 := hget (w.toNat + 3) (by omega)
  rw [if_neg (by omega), if_neg (by omega), if_neg (by omega), if_neg (by omega), if_neg (by omega),
    if_pos rfl] at g0
  rw [if_neg (by omega), if_neg (by omega), if_neg (by omega), if_neg (by omega), if_neg (by omega),
    if_neg (by omega), if_pos rfl] at g1
  rw [if_neg (by omega), if_neg (by omega), if_neg (by omega), if_pos rfl] at g2
  rw [if_neg (by omega), if_neg (by omega), if_neg (by omega), if_neg (by omega), if_pos rfl] at g3
  rw [g0, g1, g2, g3]
  have hzeros : seg b' (w.toNat + 4 + n) (padOf a n) = List.replicate (padOf a n) 0 := by
    apply seg_zeros (by omega)
    intro j h1 h2
    rw [hget j (by omega), if_neg (by omega), if_neg (by omega), if_pos ⟨h1, h2⟩]
  have hvl : (seg b' (w.toNat + 4) n).length = n := seg_length (by omega)
  have hty := be16_split (swapType a type)
  have hlfb := be16_split (lenField a hc n)
  cases hna : noAlign a
  · have hpo : padOf a n = paddingN n := by simp [padOf, hna]
    have hpp : paddingN n = pad4 n := paddingN_eq_pad4 n (by omega)
    cases hc
    · have hlf : (lenField a false n).toNat = n + pad4 n := by
        simp only [lenField, hna, Bool.false_eq_true, if_false]
        rw [alignN_eq_add_pad n (by omega), UInt16.toNat_ofNat']
        have : pad4 n ≤ 3 := by unfold pad4; omega
        have : (65536 : Nat) = 2 ^ 16 := by decide
        omega
      have := parseFrom_single (!false) w.toNat ((swapType a type >>> 8).toUInt8)
        ((swapType a type &&& 0xff).toUInt8)
        ((lenField a false n >>> 8).toUInt8) ((lenField a false n &&& 0xff).toUInt8)
        (seg b' (w.toNat + 4) n ++ seg b' (w.toNat + 4 + n) (padOf a n)) []
        (by rw [hlfb, hlf, List.length_append, hvl, seg_length (by omega), hpo, hpp])
        (by rw [hlfb, hlf]; simp [padLen, pad4]; omega)
      rw [hty, hlfb] at this
      simpa using this
    · have hlf : (lenField a true n).toNat = n := by
        simp only [lenField, hna, Bool.false_eq_true, if_false, if_true]
        rw [UInt16.toNat_ofNat']
        have : (65536 : Nat) = 2 ^ 16 := by decide
        omega
      have := parseFrom_single (!false) w.toNat ((swapType a type >>> 8).toUInt8)
        ((swapType a type &&& 0xff).toUInt8)
        ((lenField a true n >>> 8).toUInt8) ((lenField a true n &&& 0xff).toUInt8)
        (seg b' (w.toNat + 4) n) (seg b' (w.toNat + 4 + n) (padOf a n))
        (by rw [hlfb, hlf, hvl])
        (by rw [hlfb, hlf, seg_length (by omega), hpo, hpp]; rfl)
      rw [hty, hlfb] at this
      exact this
  · have hpo : padOf a n = 0 := by simp [padOf, hna]
    have hlf : (lenField a hc n).toNat = n := by
      simp only [lenField, hna, if_true]
      rw [UInt16.toNat_ofNat']
      have : (65536 : Nat) = 2 ^ 16 := by decide
      omega
    have := parseFrom_single (!true) w.toNat ((swapType a type >>> 8).toUInt8)
      ((swapType a type &&& 0xff).toUInt8)
      ((lenField a hc n >>> 8).toUInt8) ((lenField a hc n &&& 0xff).toUInt8)
      (seg b' (w.toNat + 4) n) (seg b' (w.toNat + 4 + n) (padOf a n))
      (by rw [hlfb, hlf, hvl])
      (by rw [hlfb, hlf, seg_length (by omega), hpo]; rfl)
    rw [hty, hlfb] at this
    exact this

/-! ### read-back of the attribute just appended -/

theorem refFindRec_append_new (T : Nat) (attrs : List Attr) (new : Attr) (hnew : new.type = T)
    (hfirst : ∀ x ∈ attrs, x.type ≠ T ∧ x.type ≠ MESSAGE_INTEGRITY ∧ x.type ≠ FINGERPRINT) :
    refFindRec T (attrs ++ [new]) = some new := by
  induction attrs with
  | nil => simp [refFindRec, hnew]
  | cons x rest ih =>
    obtain ⟨h1, h2, h3⟩ := hfirst x (by simp)
    simp only [List.cons_append, refFindRec]
    rw [if_neg h1, if_neg (fun h => h2 h.1), if_neg h3]
    exact ih (fun y hy => hfirst y (by simp [hy]))

/-- the buffer produced by `append` + a full-length `memcpy` of the value: the lookup finds the
    new attribute (if no earlier attribute has its type or is M-I / FINGERPRINT) and its value
    bytes are the ones written -/
theorem roundtrip_core (a : Option Cfg) (buf : Bytes) (w type : UInt16) (n : Nat) (hc : Bool) (d : Bytes)
    (hB : Built a buf w) (hcap : buf.size ≤ 65535) (hfit : w.toNat + 4 + n + padOf a n ≤ buf.size)
    (hd : d.size = n) (attrs : List Attr)
    (hp : parseFrom (!noAlign a) 20 (seg buf 20 (w.toNat - 20)) = some attrs)
    (hfirst : ∀ x ∈ attrs, x.type ≠ (swapType a type).toNat ∧ x.type ≠ MESSAGE_INTEGRITY ∧
      x.type ≠ FINGERPRINT) :
    find a (blit (appendP a buf w type n hc) (w.toNat + 4) d) type =
        .ok (some (w.toNat + 4, lenField a hc n)) ∧
    rdBytes (blit (appendP a buf w type n hc) (w.toNat + 4) d) (w.toNat + 4) n = .ok d := by
  have hsz := appendP_size a buf w type n hc
  have hn : n < 2 ^ 63 := by omega
  have hpad := padOf_le a n hn
  have hsame : ∀ j, (j < w.toNat + 4 ∨ w.toNat + 4 + n ≤ j) →
      (blit (appendP a buf w type n hc) (w.toNat + 4) d).getD j 0 = (appendP a buf w type n hc).getD j 0 := by
    intro j hj
    rw [blit_getD _ _ _ _ (by rw [hsz]; omega), if_neg (by omega)]
  have hbs : (blit (appendP a buf w type n hc) (w.toNat + 4) d).size = buf.size := by rw [blit_size, hsz]
  obtain ⟨hbuilt, hnl⟩ := built_step a buf w type n hc hB hcap hfit _ hbs hsame
  have hparse := parse_after a buf w type n hc hB hcap hfit _ hbs hsame attrs hp
  have hfind := find_built a _ _ type hbuilt _ hparse
  rw [refFindRec_append_new (swapType a type).toNat attrs
    ⟨(swapType a type).toNat, w.toNat + 4, (lenField a hc n).toNat⟩ rfl hfirst] at hfind
  have hval : ∀ i, i < n → (blit (appendP a buf w type n hc) (w.toNat + 4) d).getD (w.toNat + 4 + i) 0 =
      d.getD i 0 := by
    intro i hi
    rw [blit_getD _ _ _ _ (by rw [hsz]; omega), if_pos (by omega)]
    have e : w.toNat + 4 + i - (w.toNat + 4) = i := by omega
    rw [e]
  generalize blit (appendP a buf w type n hc) (w.toNat + 4) d = b' at hfind hval hbs ⊢
  constructor
  · cases hf : find a b' type with
    | error e => rw [hf] at hfind; cases hfind
    | ok r =>
      rw [hf] at hfind
      cases r with
      | none => simp [Except.map] at hfind
      | some r =>
        obtain ⟨r1, r2⟩ := r
        simp only [Except.map, Option.map, Except.ok.injEq, Option.some.injEq, Prod.mk.injEq] at hfind
        have : r2 = lenField a hc n := UInt16.toNat_inj.mp hfind.2
        rw [this, hfind.1]
  · unfold rdBytes
    rw [if_pos (by rw [hbs]; omega)]
    have hext : b'.extract (w.toNat + 4) (w.toNat + 4 + n) = d := by
      apply Array.ext
      · simp; rw [hbs]; omega
      · intro i h1 h2
        have hi : i < n := by rw [hd] at h2; exact h2
        have := hval i hi
        simp only [Array.getD_eq_getD_getElem?] at this
        rw [Array.getElem_extract]
        have hlt : w.toNat + 4 + i < b'.size := by rw [hbs]; omega
        rw [Array.getElem?_eq_getElem hlt, Array.getElem?_eq_getElem h2] at this
        simpa using this
    rw [hext]

end Nice.Stun
