/-
  State and loop semantics used by the GENERATED accounting skeletons (tools/extract_ctl.py →
  Nice/Gen/DiscoveryTick.lean).  The translator emits the loop body in direct style (if/else over the small
  abstract state it tracks, `let s := ..` for the tracked assignments, the code after a join duplicated);
  every condition that reads untracked state becomes an oracle value `o site`, i.e. the theorems hold for ALL
  outcomes of the untracked code.  This file is hand-written and part of the trusted base: it fixes what is
  tracked and how a list-walking `for` with `break` / `continue` / `return` runs its body.
-/
namespace Nice.Ctl

/-- what is tracked of one discovery item (agent/discovery.h CandidateDiscovery) -/
structure Item where
  pending : Bool := false      -- cand->pending
  done    : Bool := false      -- cand->done
  hasMsg  : Bool := true       -- cand->stun_message.buffer != NULL
  deriving DecidableEq, Repr

/-- tracked locals of the function plus the current item -/
structure S where
  not_done    : Nat := 0
  need_pacing : Nat := 0
  c : Item := {}
  deriving Repr

inductive Flow
  | norm | brk | sbrk | cont
  | ret (v : Bool)
  | abort                      -- a noreturn call (g_assert_not_reached): nothing is claimed after it
  deriving DecidableEq, Repr

abbrev Stmt := S → S × Flow

/-- `for (i = list; i; i = i->next) { cand = i->data; body }` : the body runs on each item in turn with its own
    oracle `o k`; `break` ends the loop, `continue` moves on, `return`/abort leave the function -/
def forEach (body : (Nat → Nat) → Stmt) (o : Nat → Nat → Nat) : Nat → S → List Item → S × List Item × Flow
  | _, s, [] => (s, [], .norm)
  | k, s, it :: rest =>
    match body (o k) { s with c := it } with
    | (s', .norm) | (s', .cont) =>
      let r := forEach body o (k + 1) s' rest
      (r.1, s'.c :: r.2.1, r.2.2)
    | (s', .brk) => (s', s'.c :: rest, .norm)
    | (s', f) => (s', s'.c :: rest, f)

end Nice.Ctl
