/-
  STUN message layer, part 1: bytes, bounds-checked memory access, the agent configuration a
  message points to, `stun_message_length`, and the two framing validators
  `stun_message_validate_buffer_length_fast` / `stun_message_validate_buffer_length`
  (stun/stunmessage.c, stun/utils.c) as they are at /repo HEAD.

  Conventions (DESIGN.md §1): every read/write of caller memory is bounds checked against the size
  of the block it goes to and yields `Fault.oob` instead of a value; C `assert` is
  `Fault.assertFailed`.  C integer types are mirrored (`uint16_t` ↦ `UInt16` wrap-around,
  `size_t` ↦ `Nat` where no wrap is possible, an explicit `% 2^64` where it is).
  Core Lean only.
-/
import Nice.Gen.Consts
import Nice.Gen.Kernels
namespace Nice.Stun
open Nice.Gen

inductive Fault where
  | oob            -- read or write outside the block
  | assertFailed   -- assert()/g_assert() would abort
  | ub             -- undefined behaviour other than an out-of-bounds access
  deriving DecidableEq, Repr

abbrev Bytes := Array UInt8
abbrev M := Except Fault

/-- bounds-checked one byte read -/
def rd (b : Bytes) (i : Nat) : M UInt8 :=
  if h : i < b.size then .ok b[i] else .error .oob

/-- bounds-checked one byte write -/
def wr (b : Bytes) (i : Nat) (v : UInt8) : M Bytes :=
  if i < b.size then .ok (b.setIfInBounds i v) else .error .oob

/-- C pointer view of a block at an offset, for the translated kernels (total: 0 outside) -/
def ptrAt (b : Bytes) (off : Nat) : Nat → UInt8 := fun i => b.getD (off + i) 0

/-- `stun_getw (b + off)` : reads two bytes -/
def getw (b : Bytes) (off : Nat) : M UInt16 :=
  if off + 1 < b.size then .ok (stun_getw (ptrAt b off)) else .error .oob

/-- `stun_setw (b + off, v)` : `*ptr++ = value >> 8; *ptr++ = value & 0xff` -/
def setw (b : Bytes) (off : Nat) (v : UInt16) : M Bytes :=
  match wr b off (v >>> 8).toUInt8 with
  | .error e => .error e
  | .ok b1 => wr b1 (off + 1) (v &&& 0xff).toUInt8

/-- the block `b` with `src` copied over positions `off ..< off + src.size` -/
def blit (b : Bytes) (off : Nat) (src : Bytes) : Bytes :=
  Array.ofFn (n := b.size) fun i =>
    if off ≤ i.val ∧ i.val < off + src.size then src.getD (i.val - off) 0 else b[i]

/-- `memcpy (dst + off, src, src.size)` into a block (bounds checked) -/
def wrBytes (b : Bytes) (off : Nat) (src : Bytes) : M Bytes :=
  if off + src.size ≤ b.size then .ok (blit b off src) else .error .oob

/-- `memset (dst + off, 0, n)` -/
def wrZeros (b : Bytes) (off n : Nat) : M Bytes := wrBytes b off (Array.replicate n 0)

/-- read `n` bytes at `off` (memcpy out of / memcmp with caller memory) -/
def rdBytes (b : Bytes) (off n : Nat) : M Bytes :=
  if off + n ≤ b.size then .ok (b.extract off (off + n)) else .error .oob

/-! ### the agent a message points to (only the fields the message layer looks at) -/

structure Cfg where
  compat : Nat        -- StunCompatibility
  flags  : Nat        -- StunAgentUsageFlags bit set
  deriving DecidableEq, Repr, Inhabited

def Cfg.has (c : Cfg) (flag : Nat) : Bool := c.flags &&& flag != 0

/-- `msg->agent && msg->agent->compatibility == STUN_COMPATIBILITY_OC2007` -/
def isOC2007 (a : Option Cfg) : Bool :=
  match a with | some c => c.compat == STUN_COMPATIBILITY_OC2007 | none => false

/-- `msg->agent && (msg->agent->usage_flags & STUN_AGENT_USAGE_NO_ALIGNED_ATTRIBUTES)` -/
def noAlign (a : Option Cfg) : Bool :=
  match a with | some c => c.has STUN_AGENT_USAGE_NO_ALIGNED_ATTRIBUTES | none => false

/-- `stun_align` / `stun_padding` on a `size_t` that is known to be small -/
def alignN (n : Nat) : Nat := (stun_align (UInt64.ofNat n)).toNat
def paddingN (n : Nat) : Nat := (stun_padding (UInt64.ofNat n)).toNat

/-- `stun_message_length` : `uint16_t`, i.e. (length field + 20) mod 2^16 -/
def messageLength (buf : Bytes) : M UInt16 :=
  match getw buf STUN_MESSAGE_LENGTH_POS with
  | .error e => .error e
  | .ok w => .ok (w + UInt16.ofNat STUN_MESSAGE_HEADER_LENGTH)

/-! ### framing validators -/

/-- result of the length validators: `STUN_MESSAGE_BUFFER_INVALID` (-1),
    `STUN_MESSAGE_BUFFER_INCOMPLETE` (0) or the message length -/
inductive LenRes where
  | invalid | incomplete | len (n : Nat)
  deriving DecidableEq, Repr

/-- the fix-commit loop `while (buffers[0].size == 0) { buffers++; … }` : index of the first
    non-empty buffer at or after `i`, or `none` when the vector is exhausted (→ INVALID) -/
def skipEmpty (bufs : Array Bytes) (i : Nat) : Option Nat :=
  if h : i < bufs.size then
    if bufs[i].size == 0 then skipEmpty bufs (i + 1) else some i
  else none
termination_by bufs.size - i

/-- slow path "Skip bytes" loop: returns (i, skip_remaining) -/
def skipBytes (bufs : Array Bytes) (i skip : Nat) : Nat × Nat :=
  if h : i < bufs.size then
    if bufs[i].size ≤ skip then skipBytes bufs (i + 1) (skip - bufs[i].size) else (i, skip)
  else (i, skip)
termination_by bufs.size - i

/-- slow path: `j = i + 1; while (j < n_buffers && buffers[j].size == 0) j++` -/
def nextNonEmpty (bufs : Array Bytes) (j : Nat) : Nat :=
  if h : j < bufs.size then
    if bufs[j].size == 0 then nextNonEmpty bufs (j + 1) else j
  else j
termination_by bufs.size - j

/-- the 16-bit length field read by the pre-check: fast path from the first buffer, otherwise the
    slow path over tiny buffers (skip two bytes, read two bytes that may sit in two buffers) -/
def readLenField (bufs : Array Bytes) (h0 : 0 < bufs.size) : M Nat :=
  if bufs[0].size ≥ STUN_MESSAGE_LENGTH_POS + STUN_MESSAGE_LENGTH_LEN then
    -- fast path
    (getw bufs[0] STUN_MESSAGE_LENGTH_POS).map (·.toNat)
  else
    -- slow path
    let r := skipBytes bufs 0 STUN_MESSAGE_LENGTH_POS
    if hi : r.1 < bufs.size then
      if bufs[r.1].size - r.2 > 1 then
        (getw bufs[r.1] r.2).map (·.toNat)
      else
        let j := nextNonEmpty bufs (r.1 + 1)
        match rd bufs[r.1] r.2 with
        | .error e => .error e
        | .ok hi8 =>
          if hj : j < bufs.size then
            match rd bufs[j] 0 with
            | .error e => .error e
            | .ok lo8 => .ok ((hi8.toNat <<< 8) ||| lo8.toNat)
          else .error .oob
    else .error .oob

/-- the pre-check from `if (buffers[0].buffer[0] >> 6)` on; `bufs[0]` is the first non-empty buffer -/
def validateFastHead (bufs : Array Bytes) (total : Nat) (pad : Bool) : M LenRes :=
  if h0 : 0 < bufs.size then
    match rd bufs[0] 0 with
    | .error e => .error e
    | .ok b0 =>
      if b0 >>> 6 != 0 then .ok .invalid
      else if total < STUN_MESSAGE_LENGTH_POS + STUN_MESSAGE_LENGTH_LEN then .ok .incomplete
      else
        match readLenField bufs h0 with
        | .error e => .error e
        | .ok m =>
          let mlen := m + STUN_MESSAGE_HEADER_LENGTH
          if pad && paddingN mlen != 0 then .ok .invalid
          else if total < mlen then .ok .incomplete
          else .ok (.len mlen)
  else .ok .invalid

/-- `stun_message_validate_buffer_length_fast (buffers, n_buffers, total_length, has_padding)`.
    `bufs` is the vector (`n_buffers = bufs.size`; the `n_buffers < 0` NULL-terminated form walks
    the same entries and differs only once the vector is exhausted, which is a fault here).
    Reading `buffers[k]` for `k ≥ n_buffers` is `Fault.oob`. -/
def validateFast (bufs : Array Bytes) (total : Nat) (pad : Bool) : M LenRes :=
  if total < 1 || bufs.size == 0 then .ok .invalid
  else
  -- skip leading zero-length buffers (buffers++ / n_buffers--)
  match skipEmpty bufs 0 with
  | none => .ok .invalid
  | some s => validateFastHead (bufs.extract s bufs.size) total pad

/-- the attribute walk of `stun_message_validate_buffer_length`: `true` iff the loop ends with
    `len == 0`, `false` iff it returns INVALID.  `off` is `msg - start`. -/
def walkAttrs (msg : Bytes) (pad : Bool) (off len : Nat) : M Bool :=
  if len = 0 then .ok true
  else if len < 4 then .ok false
  else
    match getw msg (off + STUN_ATTRIBUTE_TYPE_LEN) with
    | .error e => .error e
    | .ok w =>
      let alen := if pad then alignN w.toNat else w.toNat
      if len - 4 < alen then .ok false
      else walkAttrs msg pad (off + 4 + alen) (len - 4 - alen)
termination_by len
decreasing_by omega

/-- `stun_message_validate_buffer_length (msg, length, has_padding)` with `length = msg.size` -/
def validateLen (msg : Bytes) (pad : Bool) : M LenRes :=
  match validateFast #[msg] msg.size pad with
  | .error e => .error e
  | .ok (.len mlen) =>
    match walkAttrs msg pad 20 (mlen - 20) with
    | .error e => .error e
    | .ok true => .ok (.len mlen)
    | .ok false => .ok .invalid
  | .ok r => .ok r

end Nice.Stun
