/-
  STUN message layer, part 2: attribute lookup and the typed accessors
  (stun/stunmessage.c:85-327, stun/utils.c:90 stun_xor_address, stun5389.c stun_message_has_cookie).
  A message is (agent configuration or NULL, buffer); an attribute "pointer" is its value offset
  in the buffer.  Every read is bounds checked against the buffer.
-/
import Nice.Model.Stun.Basic
namespace Nice.Stun
open Nice.Gen

/-- `StunMessageReturn` -/
inductive Ret where
  | success | notFound | invalid | noSpace | unsupported
  deriving DecidableEq, Repr, Inhabited

def Ret.code : Ret → Nat
  | .success => STUN_MESSAGE_RETURN_SUCCESS | .notFound => STUN_MESSAGE_RETURN_NOT_FOUND
  | .invalid => STUN_MESSAGE_RETURN_INVALID | .noSpace => STUN_MESSAGE_RETURN_NOT_ENOUGH_SPACE
  | .unsupported => STUN_MESSAGE_RETURN_UNSUPPORTED_ADDRESS

def tMI : UInt16 := UInt16.ofNat STUN_ATTRIBUTE_MESSAGE_INTEGRITY
def tFPR : UInt16 := UInt16.ofNat STUN_ATTRIBUTE_FINGERPRINT
def tREALM : UInt16 := UInt16.ofNat STUN_ATTRIBUTE_REALM
def tNONCE : UInt16 := UInt16.ofNat STUN_ATTRIBUTE_NONCE

/-- the OC2007 (MS-TURN) swap of the REALM and NONCE attribute codes -/
def swapType (a : Option Cfg) (type : UInt16) : UInt16 :=
  if isOC2007 a then
    if type == tREALM then tNONCE else if type == tNONCE then tREALM else type
  else type

/-- the `while (offset < length)` loop of `stun_message_find`; result = (value offset, alen) -/
def findLoop (buf : Bytes) (noalign : Bool) (type : UInt16) (length offset : Nat) :
    M (Option (Nat × UInt16)) :=
  if offset < length then
    match getw buf offset with
    | .error e => .error e
    | .ok atype =>
      match getw buf (offset + STUN_ATTRIBUTE_TYPE_LEN) with
      | .error e => .error e
      | .ok alen =>
        if atype == type then .ok (some (offset + STUN_ATTRIBUTE_VALUE_POS, alen))
        -- "Look for and ignore misordered attributes"
        else if atype == tMI && type != tFPR then .ok none
        else if atype == tFPR then .ok none
        else
          let step := if noalign then alen.toNat else alignN alen.toNat
          findLoop buf noalign type length (offset + STUN_ATTRIBUTE_VALUE_POS + step)
  else .ok none
termination_by length - offset
decreasing_by simp only [STUN_ATTRIBUTE_VALUE_POS]; omega

/-- `stun_message_find (msg, type, &alen)` -/
def find (a : Option Cfg) (buf : Bytes) (type : UInt16) : M (Option (Nat × UInt16)) :=
  match messageLength buf with
  | .error e => .error e
  | .ok length =>
    findLoop buf (noAlign a) (swapType a type) length.toNat STUN_MESSAGE_ATTRIBUTES_POS

/-- `stun_message_has_attribute` -/
def hasAttribute (a : Option Cfg) (buf : Bytes) (type : UInt16) : M Bool :=
  (find a buf type).map Option.isSome

/-- `stun_message_find_flag` -/
def findFlag (a : Option Cfg) (buf : Bytes) (type : UInt16) : M Ret :=
  match find a buf type with
  | .error e => .error e
  | .ok none => .ok .notFound
  | .ok (some (_, len)) => .ok (if len == 0 then .success else .invalid)

/-- `ntohl` of four bytes in memory order: the big-endian number they spell -/
def be32 (b : Bytes) : UInt32 :=
  UInt32.ofNat ((b.getD 0 0).toNat * 16777216 + (b.getD 1 0).toNat * 65536 +
    (b.getD 2 0).toNat * 256 + (b.getD 3 0).toNat)

/-- the four bytes `htonl (v)` puts in memory -/
def be32Bytes (v : UInt32) : Bytes :=
  #[UInt8.ofNat (v.toNat / 16777216), UInt8.ofNat (v.toNat / 65536), UInt8.ofNat (v.toNat / 256),
    UInt8.ofNat v.toNat]

/-- big-endian 16-bit number of two bytes (`ntohs`) -/
def be16v (hi lo : UInt8) : UInt16 := UInt16.ofNat (hi.toNat * 256 + lo.toNat)

/-- `stun_message_find32` -/
def find32 (a : Option Cfg) (buf : Bytes) (type : UInt16) : M (Ret × UInt32) :=
  match find a buf type with
  | .error e => .error e
  | .ok none => .ok (.notFound, 0)
  | .ok (some (off, len)) =>
    if len == 4 then
      match rdBytes buf off 4 with
      | .error e => .error e
      | .ok v => .ok (.success, be32 v)
    else .ok (.invalid, 0)

/-- `stun_message_find64` -/
def find64 (a : Option Cfg) (buf : Bytes) (type : UInt16) : M (Ret × UInt64) :=
  match find a buf type with
  | .error e => .error e
  | .ok none => .ok (.notFound, 0)
  | .ok (some (off, len)) =>
    if len == 8 then
      match rdBytes buf off 8 with
      | .error e => .error e
      | .ok v => .ok (.success, UInt64.ofNat ((be32 v).toNat * 4294967296 + (be32 (v.extract 4 8)).toNat))
    else .ok (.invalid, 0)

/-- `stun_message_find_string (msg, type, buf, buflen)` : the bytes copied (NUL appended by C) -/
def findString (a : Option Cfg) (buf : Bytes) (type : UInt16) (buflen : Nat) : M (Ret × Bytes) :=
  match find a buf type with
  | .error e => .error e
  | .ok none => .ok (.notFound, #[])
  | .ok (some (off, len)) =>
    if len.toNat ≥ buflen then .ok (.noSpace, #[])
    else
      match rdBytes buf off len.toNat with
      | .error e => .error e
      | .ok v => .ok (.success, v)

/-- a socket address as the message layer sees it: `fam` 4 = AF_INET, 6 = AF_INET6, anything else
    = unsupported family; `port` is the value of the two port bytes read big-endian
    (`ntohs (sin_port)`); `ip` the 4 / 16 address bytes in memory order. -/
structure SockAddr where
  fam : Nat
  port : UInt16
  ip : Bytes
  deriving DecidableEq, Repr, Inhabited

def sizeofSockaddr : Nat := 16      -- sizeof (struct sockaddr) = sizeof (struct sockaddr_in)
def sizeofSockaddrIn6 : Nat := 28
def sizeofStorage : Nat := 128

/-- `stun_message_find_addr (msg, type, addr, &addrlen)` : (return, address written, *addrlen) -/
def findAddr (a : Option Cfg) (buf : Bytes) (type : UInt16) (addrlen : Nat) :
    M (Ret × Option SockAddr × Nat) :=
  match find a buf type with
  | .error e => .error e
  | .ok none => .ok (.notFound, none, addrlen)
  | .ok (some (off, len)) =>
    if len < 4 then .ok (.invalid, none, addrlen)
    else
      match rd buf (off + 1) with
      | .error e => .error e
      | .ok fam =>
        if fam == 1 then
          if addrlen < sizeofSockaddr || len != 8 then .ok (.invalid, none, sizeofSockaddr)
          else
            match rdBytes buf (off + 2) 2, rdBytes buf (off + 4) 4 with
            | .ok p, .ok ip =>
              .ok (.success, some ⟨4, be16v (p.getD 0 0) (p.getD 1 0), ip⟩,
                   sizeofSockaddr)
            | .error e, _ => .error e
            | _, .error e => .error e
        else if fam == 2 then
          if addrlen < sizeofSockaddrIn6 || len != 20 then .ok (.invalid, none, sizeofSockaddrIn6)
          else
            match rdBytes buf (off + 2) 2, rdBytes buf (off + 4) 16 with
            | .ok p, .ok ip =>
              .ok (.success, some ⟨6, be16v (p.getD 0 0) (p.getD 1 0), ip⟩,
                   sizeofSockaddrIn6)
            | .error e, _ => .error e
            | _, .error e => .error e
        else .ok (.unsupported, none, addrlen)

def xorBytes (x y : Bytes) : Bytes :=
  Array.ofFn (n := x.size) fun i => x[i] ^^^ y.getD i.val 0

/-- `stun_xor_address (msg, addr, addrlen, magic_cookie)` -/
def xorAddress (buf : Bytes) (addr : SockAddr) (addrlen : Nat) (cookie : UInt32) :
    M (Ret × SockAddr) :=
  if addr.fam == 4 then
    if addrlen < sizeofSockaddr then .ok (.invalid, addr)
    else .ok (.success, ⟨addr.fam, addr.port ^^^ (cookie >>> 16).toUInt16,
                         xorBytes addr.ip (be32Bytes cookie)⟩)
  else if addr.fam == 6 then
    if addrlen < sizeofSockaddrIn6 then .ok (.invalid, addr)
    else
      match rdBytes buf 4 16 with
      | .error e => .error e
      | .ok k => .ok (.success, ⟨addr.fam, addr.port ^^^ (cookie >>> 16).toUInt16, xorBytes addr.ip k⟩)
  else .ok (.unsupported, addr)

/-- `stun_message_find_xor_addr_full (msg, type, addr, &addrlen, magic_cookie)` -/
def findXorAddrFull (a : Option Cfg) (buf : Bytes) (type : UInt16) (addrlen : Nat)
    (cookie : UInt32) : M (Ret × Option SockAddr × Nat) :=
  match findAddr a buf type addrlen with
  | .error e => .error e
  | .ok (.success, some ad, alen) =>
    match xorAddress buf ad alen cookie with
    | .error e => .error e
    | .ok (r, ad') => .ok (r, some ad', alen)
  | .ok r => .ok r

/-- `stun_message_find_xor_addr` -/
def findXorAddr (a : Option Cfg) (buf : Bytes) (type : UInt16) (addrlen : Nat) :
    M (Ret × Option SockAddr × Nat) :=
  findXorAddrFull a buf type addrlen (UInt32.ofNat STUN_MAGIC_COOKIE)

/-- `stun_message_find_error (msg, &code)` -/
def findError (a : Option Cfg) (buf : Bytes) : M (Ret × Nat) :=
  match find a buf (UInt16.ofNat STUN_ATTRIBUTE_ERROR_CODE) with
  | .error e => .error e
  | .ok none => .ok (.notFound, 0)
  | .ok (some (off, alen)) =>
    if alen < 4 then .ok (.invalid, 0)
    else
      match rd buf (off + 2), rd buf (off + 3) with
      | .ok c, .ok number =>
        let cls := c &&& 0x7
        if cls < 3 || cls > 6 || number > 99 then .ok (.invalid, 0)
        else .ok (.success, cls.toNat * 100 + number.toNat)
      | .error e, _ => .error e
      | _, .error e => .error e

/-- `stun_message_id` : the 16 bytes at offset 4 -/
def messageId (buf : Bytes) : M Bytes := rdBytes buf STUN_MESSAGE_TRANS_ID_POS STUN_MESSAGE_TRANS_ID_LEN

/-- `stun_message_get_class` (translated kernel on the first two bytes) -/
def getClass (buf : Bytes) : M Nat :=
  if 1 < buf.size then .ok (stun_message_get_class (ptrAt buf 0)).toNat else .error .oob

/-- `stun_message_get_method` -/
def getMethod (buf : Bytes) : M Nat :=
  if 1 < buf.size then .ok (stun_message_get_method (ptrAt buf 0)).toNat else .error .oob

/-- `stun_message_has_cookie` -/
def hasCookie (buf : Bytes) : M Bool :=
  match messageId buf with
  | .error e => .error e
  | .ok id => .ok (be32 id == UInt32.ofNat STUN_MAGIC_COOKIE)

end Nice.Stun
