/-
  STUN message layer, part 3: the builder — `stun_message_init`, `stun_message_append` and the
  typed `stun_message_append_*` functions (stun/stunmessage.c:59-73, 329-542, stun/utils.c
  stun_set_type, stun/stun5389.c stun_message_append_software), plus CRC-32 / `stun_fingerprint`
  (stun/stuncrc32.c, stun/stun5389.c:70).  Every write is bounds checked against the capacity.
-/
import Nice.Gen.Tables
import Nice.Model.Stun.Find
namespace Nice.Stun
open Nice.Gen

/-- `StunMessage` : the caller's buffer (`buf.size = buffer_len`), the agent pointer, and the key
    material remembered on the message -/
structure Msg where
  buf : Bytes
  agent : Option Cfg := none
  key : Option Bytes := none          -- msg->key / msg->key_len (NULL = none)
  ltKey : Bytes := Array.replicate 16 0  -- msg->long_term_key
  ltValid : Bool := false             -- msg->long_term_valid
  deriving Repr, Inhabited

/-- `stun_set_type (h, c, m)` : the two type bytes -/
def setType (c m : Nat) : UInt8 × UInt8 :=
  (UInt8.ofNat ((c >>> 1) ||| ((m >>> 6) &&& 0x3e)),
   UInt8.ofNat (((c <<< 4) &&& 0x10) ||| ((m <<< 1) &&& 0xe0) ||| (m &&& 0x0f)))

/-- `stun_message_init (msg, c, m, id)` on the message's buffer: `none` = returns FALSE.
    `id` must be the 16 bytes of a `StunTransactionId`. -/
def messageInit (buf : Bytes) (c m : Nat) (id : Bytes) : M (Option Bytes) :=
  if buf.size < STUN_MESSAGE_HEADER_LENGTH then .ok none
  else
    let t := setType c m
    match wrZeros buf 0 4 with
    | .error e => .error e
    | .ok b =>
      match wr b 0 t.1 with
      | .error e => .error e
      | .ok b =>
        match wr b 1 t.2 with
        | .error e => .error e
        | .ok b =>
          match wrBytes b STUN_MESSAGE_TRANS_ID_POS (id.extract 0 STUN_MESSAGE_TRANS_ID_LEN) with
          | .error e => .error e
          | .ok b => .ok (some b)

/-- `stun_message_append (msg, type, length)` : `none` = returns NULL (not enough space);
    otherwise the new buffer and the offset of the attribute value (`a`).
    `length` is a `size_t`: the space check is computed modulo 2^64 as in C. -/
def append (a : Option Cfg) (buf : Bytes) (type : UInt16) (length : Nat) :
    M (Option (Bytes × Nat)) :=
  match messageLength buf with
  | .error e => .error e
  | .ok mlen =>
    -- In MS-TURN, IDs of REALM and NONCE STUN attributes are swapped (same swap as in find)
    let type := swapType a type
    let padding := if noAlign a then 0 else paddingN length
    if (mlen.toNat + STUN_ATTRIBUTE_HEADER_LENGTH + length + padding) % 2 ^ 64 > buf.size then .ok none
    else
      let at0 := mlen.toNat
      match setw buf at0 type with
      | .error e => .error e
      | .ok b =>
        if noAlign a then
          match setw b (at0 + 2) (UInt16.ofNat length) with
          | .error e => .error e
          | .ok b =>
            let mlen := mlen + UInt16.ofNat (4 + length)
            match setw b STUN_MESSAGE_LENGTH_POS (mlen - UInt16.ofNat STUN_MESSAGE_HEADER_LENGTH) with
            | .error e => .error e
            | .ok b => .ok (some (b, at0 + 4))
        else
          match hasCookie b with
          | .error e => .error e
          | .ok hc =>
            -- without cookie the attribute length is forced to a multiple of 4 (RFC 3489)
            match setw b (at0 + 2) (UInt16.ofNat (if hc then length else alignN length)) with
            | .error e => .error e
            | .ok b =>
              let pb : M (Bytes × UInt16) :=
                if paddingN length > 0 then
                  match wrZeros b (at0 + 4 + length) (paddingN length) with
                  | .error e => .error e
                  | .ok b => .ok (b, mlen + UInt16.ofNat (paddingN length))
                else .ok (b, mlen)
              match pb with
              | .error e => .error e
              | .ok (b, mlen) =>
                let mlen := mlen + UInt16.ofNat (4 + length)
                match setw b STUN_MESSAGE_LENGTH_POS (mlen - UInt16.ofNat STUN_MESSAGE_HEADER_LENGTH) with
                | .error e => .error e
                | .ok b => .ok (some (b, at0 + 4))

/-- `stun_message_append_bytes (msg, type, data, len)` -/
def appendBytes (a : Option Cfg) (buf : Bytes) (type : UInt16) (data : Bytes) : M (Ret × Bytes) :=
  match append a buf type data.size with
  | .error e => .error e
  | .ok none => .ok (.noSpace, buf)
  | .ok (some (b, off)) =>
    if data.size > 0 then
      match wrBytes b off data with
      | .error e => .error e
      | .ok b => .ok (.success, b)
    else .ok (.success, b)

/-- `stun_message_append_flag` -/
def appendFlag (a : Option Cfg) (buf : Bytes) (type : UInt16) : M (Ret × Bytes) :=
  appendBytes a buf type #[]

/-- `stun_message_append32` -/
def append32 (a : Option Cfg) (buf : Bytes) (type : UInt16) (v : UInt32) : M (Ret × Bytes) :=
  appendBytes a buf type (be32Bytes v)

/-- `stun_message_append64` -/
def append64 (a : Option Cfg) (buf : Bytes) (type : UInt16) (v : UInt64) : M (Ret × Bytes) :=
  appendBytes a buf type (be32Bytes (UInt32.ofNat (v.toNat / 4294967296)) ++ be32Bytes (UInt32.ofNat v.toNat))

/-- C string view of a byte array: up to the first NUL -/
def cstr (s : Bytes) : Bytes := (s.toList.takeWhile (· != 0)).toArray

/-- `stun_message_append_string` : `strlen (str)` bytes -/
def appendString (a : Option Cfg) (buf : Bytes) (type : UInt16) (s : Bytes) : M (Ret × Bytes) :=
  appendBytes a buf type (cstr s)

/-- first `n` bytes of `b`, zero filled -/
def takeZ (b : Bytes) (n : Nat) : Bytes := Array.ofFn (n := n) fun i => b.getD i.val 0

/-- `stun_message_append_addr (msg, type, addr, addrlen)` -/
def appendAddr (a : Option Cfg) (buf : Bytes) (type : UInt16) (addr : SockAddr) (addrlen : Nat) :
    M (Ret × Bytes) :=
  if addrlen < sizeofSockaddr then .ok (.invalid, buf)
  else
    let fa : Option (UInt8 × Nat) :=
      if addr.fam == 4 then some (1, 4)
      else if addr.fam == 6 then (if addrlen < sizeofSockaddrIn6 then none else some (2, 16))
      else none
    if addr.fam != 4 && addr.fam != 6 then .ok (.unsupported, buf)
    else
      match fa with
      | none => .ok (.invalid, buf)
      | some (family, alen) =>
        match append a buf type (4 + alen) with
        | .error e => .error e
        | .ok none => .ok (.noSpace, buf)
        | .ok (some (b, off)) =>
          match wrBytes b off (#[0, family, UInt8.ofNat (addr.port.toNat / 256), UInt8.ofNat addr.port.toNat]
                                ++ takeZ addr.ip alen) with
          | .error e => .error e
          | .ok b => .ok (.success, b)

/-- `stun_message_append_xor_addr_full (msg, type, addr, addrlen, magic_cookie)` -/
def appendXorAddrFull (a : Option Cfg) (buf : Bytes) (type : UInt16) (addr : SockAddr)
    (addrlen : Nat) (cookie : UInt32) : M (Ret × Bytes) :=
  let addrlen := if addrlen > sizeofStorage then sizeofStorage else addrlen
  match xorAddress buf addr addrlen cookie with
  | .error e => .error e
  | .ok (.success, tmp) => appendAddr a buf type tmp addrlen
  | .ok (r, _) => .ok (r, buf)

/-- `stun_message_append_xor_addr` -/
def appendXorAddr (a : Option Cfg) (buf : Bytes) (type : UInt16) (addr : SockAddr)
    (addrlen : Nat) : M (Ret × Bytes) :=
  appendXorAddrFull a buf type addr addrlen (UInt32.ofNat STUN_MAGIC_COOKIE)

/-- `stun_strerror (code)` (table regenerated from the source) -/
def strerror (code : Nat) : Bytes :=
  match stun_strerror_tab.find? (·.1 == code) with
  | some (_, s) => s.toArray
  | none => stun_strerror_default.toArray

/-- `stun_message_append_error (msg, code)` -/
def appendError (a : Option Cfg) (buf : Bytes) (code : Nat) : M (Ret × Bytes) :=
  let str := strerror code
  match append a buf (UInt16.ofNat STUN_ATTRIBUTE_ERROR_CODE) (4 + str.size) with
  | .error e => .error e
  | .ok none => .ok (.noSpace, buf)
  | .ok (some (b, off)) =>
    match wrBytes b off (#[0, 0, UInt8.ofNat (code / 100), UInt8.ofNat (code % 100)] ++ str) with
    | .error e => .error e
    | .ok b => .ok (.success, b)

/-- the `while (*ptr && len < 128) { ptr = next_utf8_char (ptr); len++; }` loop of
    `stun_message_append_software`; `s` is the string without its NUL, position `s.size` is the
    NUL, reading beyond it is a fault (a truncated multi-byte sequence at the end of the string) -/
def softwareLen (s : Bytes) (p len : Nat) (fuel : Nat) : M Nat :=
  match fuel with
  | 0 => .ok p
  | fuel + 1 =>
    if p > s.size then .error .oob
    else if p == s.size then .ok p
    else if s.getD p 0 == 0 then .ok p
    else if len < 128 then
      softwareLen s (p + (utf8_skip_data.getD (s.getD p 0).toNat 1).toNat) (len + 1) fuel
    else .ok p

/-- `stun_message_append_software (msg, software)` (`none` = NULL → PACKAGE_STRING) -/
def appendSoftware (a : Option Cfg) (buf : Bytes) (software : Option Bytes) : M (Ret × Bytes) :=
  let s := match software with | some s => s | none => PACKAGE_STRING.toArray
  match softwareLen s 0 0 129 with
  | .error e => .error e
  | .ok n =>
    if n > s.size then .error .oob
    else appendBytes a buf (UInt16.ofNat STUN_ATTRIBUTE_SOFTWARE) (s.extract 0 n)

/-! ### CRC-32 and FINGERPRINT -/

def crcTab : Array UInt32 := crc32_tab.toArray

/-- one byte of `stun_crc32`, including the WLM2009 typo variant -/
def crc32Step (typo : Bool) (crc : UInt32) (b : UInt8) : UInt32 :=
  let lkp := crcTab.getD ((crc ^^^ b.toUInt32) &&& 0xFF).toNat 0
  let lkp := if lkp == 0x8bbeb8ea && typo then 0x8bbe8ea else lkp
  lkp ^^^ (crc >>> 8)

/-- `stun_crc32` over the concatenation of the chunks -/
def crc32 (typo : Bool) (data : Bytes) : UInt32 :=
  (data.foldl (crc32Step typo) 0xffffffff) ^^^ 0xffffffff

/-- the byte string `stun_fingerprint (msg, len, …)` sums: bytes 0-1, the 16-bit big-endian value
    `len - 20`, bytes 4 .. len-8 -/
def fprInput (msg : Bytes) (len : Nat) : M Bytes :=
  if len < 12 then .error .oob   -- `len - 12u` wraps: the C code would read ~2^64 bytes
  else
    match rdBytes msg 0 2, rdBytes msg 4 (len - 12) with
    | .ok h, .ok body =>
      let fakelen := UInt16.ofNat ((len + 2 ^ 64 - 20) % 2 ^ 64)
      .ok (h ++ #[(fakelen >>> 8).toUInt8, fakelen.toUInt8] ++ body)
    | .error e, _ => .error e
    | _, .error e => .error e

/-- `ntohl (stun_fingerprint (msg, len, typo))` : the value whose big-endian bytes are the
    FINGERPRINT attribute, i.e. CRC-32 xor 0x5354554e -/
def fingerprint (msg : Bytes) (len : Nat) (typo : Bool) : M UInt32 :=
  match fprInput msg len with
  | .error e => .error e
  | .ok d => .ok (crc32 typo d ^^^ 0x5354554e)

end Nice.Stun
