/-
  STUN agent layer (stun/stunagent.c, stun/stunhmac.c as they are at /repo HEAD):
  stun_agent_init, stun_agent_validate, stun_agent_finish_message, stun_agent_forget_transaction,
  stun_agent_init_request / indication / response / error, stun_agent_build_unknown_attributes_error,
  stun_sha1 (framing of the MAC input), stun_hash_creds with priv_trim_var.

  HMAC-SHA1 and MD5 are parameters (`Hashes`); the driver instantiates them with Nice.Stun.Hash.
  The validater callback is a parameter: `none` = NULL callback; `some f` with
  `f username = none` (returns FALSE) | `some none` (TRUE, password NULL) | `some (some key)`.
-/
import Nice.Model.Stun.Append
namespace Nice.Stun
open Nice.Gen

structure Hashes where
  hmac : Bytes → Bytes → Bytes     -- key, text ↦ 20-byte MAC
  md5 : Bytes → Bytes              -- text ↦ 16-byte digest

/-- `StunAgentSavedIds` -/
structure SavedId where
  id : Bytes := Array.replicate 16 0
  method : Nat := 0
  key : Option Bytes := none        -- the key pointer / length given to finish_message
  ltKey : Bytes := Array.replicate 16 0
  ltValid : Bool := false
  valid : Bool := false
  deriving Repr, Inhabited

/-- `StunAgent` -/
structure Agent where
  cfg : Cfg
  known : List UInt16               -- known_attributes (without the 0 terminator)
  software : Option Bytes := none
  legacy : Bool                     -- ms_ice2_send_legacy_connchecks
  sent : Array SavedId              -- STUN_AGENT_MAX_SAVED_IDS entries
  deriving Repr, Inhabited

/-- `stun_agent_init` -/
def agentInit (known : List UInt16) (compat flags : Nat) : Agent :=
  { cfg := ⟨compat, flags⟩, known := known, software := none,
    legacy := compat == STUN_COMPATIBILITY_MSICE2,
    sent := Array.replicate STUN_AGENT_MAX_SAVED_IDS {} }

/-- `StunValidationStatus` -/
inductive Status where
  | success | notStun | incomplete | badRequest | unauthorizedBadRequest | unauthorized
  | unmatchedResponse | unknownRequestAttribute | unknownAttribute | forbidden
  deriving DecidableEq, Repr, Inhabited

def Status.code : Status → Nat
  | .success => STUN_VALIDATION_SUCCESS | .notStun => STUN_VALIDATION_NOT_STUN
  | .incomplete => STUN_VALIDATION_INCOMPLETE_STUN | .badRequest => STUN_VALIDATION_BAD_REQUEST
  | .unauthorizedBadRequest => STUN_VALIDATION_UNAUTHORIZED_BAD_REQUEST
  | .unauthorized => STUN_VALIDATION_UNAUTHORIZED
  | .unmatchedResponse => STUN_VALIDATION_UNMATCHED_RESPONSE
  | .unknownRequestAttribute => STUN_VALIDATION_UNKNOWN_REQUEST_ATTRIBUTE
  | .unknownAttribute => STUN_VALIDATION_UNKNOWN_ATTRIBUTE
  | .forbidden => STUN_VALIDATION_FORBIDDEN

def isRfc5389ish (c : Cfg) : Bool :=
  c.compat == STUN_COMPATIBILITY_RFC5389 || c.compat == STUN_COMPATIBILITY_MSICE2

def isRfc3489ish (c : Cfg) : Bool :=
  c.compat == STUN_COMPATIBILITY_RFC3489 || c.compat == STUN_COMPATIBILITY_OC2007

/-! ### stunhmac.c -/

/-- the text `stun_sha1 (msg, len, msg_len, …, padding)` feeds to HMAC: bytes 0-1, `msg_len` as a
    16-bit big-endian number, bytes 4 .. len-24, and for RFC 3489 zero padding to a multiple of 64.
    `assert (len >= 44)`. -/
def macInput (msg : Bytes) (len : Nat) (msgLen : UInt16) (padding : Bool) : M Bytes :=
  if len < 44 then .error .assertFailed
  else
    match rdBytes msg 0 2, rdBytes msg 4 (len - 28) with
    | .ok h, .ok body =>
      let pad : Bytes :=
        if padding && (len - 24) % 64 > 0 then Array.replicate (64 - (len - 24) % 64) 0 else #[]
      .ok (h ++ #[(msgLen >>> 8).toUInt8, msgLen.toUInt8] ++ body ++ pad)
    | .error e, _ => .error e
    | _, .error e => .error e

/-- `stun_sha1` -/
def stunSha1 (H : Hashes) (msg : Bytes) (len : Nat) (msgLen : UInt16) (key : Bytes) (padding : Bool) :
    M Bytes :=
  match macInput msg len msgLen padding with
  | .error e => .error e
  | .ok t => .ok (H.hmac key t)

/-- `priv_trim_var` (bounded by the variable's length): leading '"', trailing '"' and NUL -/
def trimVar (v : Bytes) : Bytes :=
  let l := v.toList.dropWhile (· == 0x22)
  ((l.reverse.dropWhile fun c => c == 0x22 || c == 0).reverse).toArray

/-- `stun_hash_creds` : MD5 (username ":" realm ":" password), each trimmed -/
def hashCreds (H : Hashes) (realm username password : Bytes) : Bytes :=
  H.md5 (trimVar username ++ #[0x3a] ++ trimVar realm ++ #[0x3a] ++ trimVar password)

/-! ### unknown attributes -/

/-- `stun_agent_is_unknown` -/
def isUnknown (ag : Agent) (type : UInt16) : Bool := !ag.known.contains type

/-- the loop of `stun_agent_find_unknowns (agent, msg, list, max)` : the list in wire order -/
def findUnknownsLoop (ag : Agent) (buf : Bytes) (len : Nat) (max : Nat) (offset : Nat)
    (acc : Array UInt16) : M (Array UInt16) :=
  if offset < len && acc.size < max then
    match getw buf (offset + STUN_ATTRIBUTE_TYPE_LEN), getw buf offset with
    | .ok alen, .ok atype =>
      let acc := if stun_optional atype == 0 && isUnknown ag atype then acc.push atype else acc
      let step := if ag.cfg.has STUN_AGENT_USAGE_NO_ALIGNED_ATTRIBUTES then alen.toNat else alignN alen.toNat
      findUnknownsLoop ag buf len max (offset + STUN_ATTRIBUTE_VALUE_POS + step) acc
    | .error e, _ => .error e
    | _, .error e => .error e
  else .ok acc
termination_by len - offset
decreasing_by simp only [STUN_ATTRIBUTE_VALUE_POS]; simp at *; omega

/-- `stun_agent_find_unknowns` -/
def findUnknowns (ag : Agent) (buf : Bytes) (max : Nat) : M (Array UInt16) :=
  match messageLength buf with
  | .error e => .error e
  | .ok len => findUnknownsLoop ag buf len.toNat max STUN_MESSAGE_ATTRIBUTES_POS #[]

/-! ### validation -/

/-- what `stun_agent_validate` leaves in the caller's `StunMessage` (buffer = the packet) -/
structure MsgInfo where
  key : Option Bytes := none
  ltKey : Bytes := Array.replicate 16 0
  ltValid : Bool := false
  deriving Repr, Inhabited

abbrev Validater := Option (Bytes → Option (Option Bytes))

/-- `stun_agent_default_validater` over a NULL-terminated table of (username, password): the first entry whose
    username has the SAME LENGTH and the same bytes as the message's USERNAME (`memcmp` after the length test);
    no such entry = FALSE -/
def defaultValidater (tab : List (Bytes × Option Bytes)) (uname : Bytes) : Option (Option Bytes) :=
  (tab.find? (·.1 == uname)).map (·.2)

/-- `stun_agent_check_fingerprint` -/
def checkFingerprint (ag : Agent) (buf : Bytes) : M Bool :=
  let a := some ag.cfg
  match find32 a buf tFPR with
  | .error e => .error e
  | .ok (.success, fpr) =>
    match messageLength buf with
    | .error e => .error e
    | .ok msgLen =>
      match fingerprint buf msgLen.toNat false with
      | .error e => .error e
      | .ok crc =>
        if fpr != crc then
          -- [MS-ICE2] 3.1.4.8.2 legacy compatibility: the WLM 2009 CRC typo
          if ag.cfg.compat == STUN_COMPATIBILITY_MSICE2 then
            match find a buf (UInt16.ofNat STUN_ATTRIBUTE_MS_IMPLEMENTATION_VERSION) with
            | .error e => .error e
            | .ok (some _) => .ok false
            | .ok none =>
              match fingerprint buf msgLen.toNat true with
              | .error e => .error e
              | .ok crc2 => .ok (fpr == crc2)
          else .ok false
        else .ok true
  | .ok _ => .ok false

/-- slot search of `stun_agent_validate` : first valid slot with the message's method and id -/
def findSent (sent : Array SavedId) (method : Nat) (id : Bytes) : Option Nat :=
  (List.range sent.size).find? fun i =>
    let s := sent.getD i {}
    s.valid && s.method == method && s.id == id

def tUSERNAME : UInt16 := UInt16.ofNat STUN_ATTRIBUTE_USERNAME

/-- `error_code == X` for the 4 codes that switch credentials off -/
def isCredErr (code : Nat) : Bool :=
  code == STUN_ERROR_BAD_REQUEST || code == STUN_ERROR_UNAUTHORIZED ||
  code == STUN_ERROR_STALE_NONCE || code == STUN_ERROR_TRY_ALTERNATE

/-! `stun_agent_validate` is split into its consecutive stages; each stage mirrors a block of the C
    function in order.  `Sum.inl st` = the C code returns `st` at that point. -/

/-- header fields read once the framing is accepted -/
structure Hdr where
  cookie : Bool
  cls : Nat
  method : Nat
  msgId : Bytes
  deriving Repr, Inhabited

def readHdr (buffer : Bytes) : M Hdr :=
  match hasCookie buffer, getClass buffer, getMethod buffer, messageId buffer with
  | .ok cookie, .ok cls, .ok method, .ok msgId => .ok ⟨cookie, cls, method, msgId⟩
  | .error e, _, _, _ => .error e
  | _, .error e, _, _ => .error e
  | _, _, .error e, _ => .error e
  | _, _, _, .error e => .error e

/-- stage 1 (stunagent.c:161-194): length validation, cookie rule, fingerprint rule -/
def frameCheck (ag : Agent) (buffer : Bytes) : M (Sum Status Hdr) :=
  let c := ag.cfg
  match validateLen buffer (!c.has STUN_AGENT_USAGE_NO_ALIGNED_ATTRIBUTES) with
  | .error e => .error e
  | .ok .invalid => .ok (.inl .notStun)
  | .ok .incomplete => .ok (.inl .incomplete)
  | .ok (.len n) =>
    if n != buffer.size then .ok (.inl .notStun) else
    match readHdr buffer with
    | .error e => .error e
    | .ok h =>
      if isRfc5389ish c && !h.cookie then .ok (.inl .badRequest) else
      if isRfc5389ish c && c.has STUN_AGENT_USAGE_USE_FINGERPRINT then
        match checkFingerprint ag buffer with
        | .error e => .error e
        | .ok false => .ok (.inl .badRequest)
        | .ok true => .ok (.inr h)
      else .ok (.inr h)

/-- stage 2 (:196-216): a response / error response must match a saved transaction -/
def isResponse (h : Hdr) : Bool := h.cls == STUN_RESPONSE || h.cls == STUN_ERROR

def matchResponse (ag : Agent) (h : Hdr) : Sum Status (Option Nat) :=
  if isResponse h then
    match findSent ag.sent h.method h.msgId with
    | some i => .inr (some i)
    | none => .inl .unmatchedResponse
  else .inr none

/-- what the later stages look up in the message -/
structure Facts where
  errRet : Ret
  errCode : Nat
  hasUser : Bool
  hasMI : Bool
  hasNonce : Bool
  hasRealm : Bool
  deriving Repr, Inhabited

def readFacts (a : Option Cfg) (buffer : Bytes) : M Facts :=
  match findError a buffer, hasAttribute a buffer tUSERNAME, hasAttribute a buffer tMI,
        hasAttribute a buffer tNONCE, hasAttribute a buffer tREALM with
  | .ok (errRet, errCode), .ok hasUser, .ok hasMI, .ok hasNonce, .ok hasRealm =>
    .ok ⟨errRet, errCode, hasUser, hasMI, hasNonce, hasRealm⟩
  | .error e, _, _, _, _ => .error e
  | _, .error e, _, _, _ => .error e
  | _, _, .error e, _, _ => .error e
  | _, _, _, .error e, _ => .error e
  | _, _, _, _, .error e => .error e

/-- `ignore_credentials` (:218-229) -/
def ignoreCredOf (c : Cfg) (h : Hdr) (f : Facts) : Bool :=
  c.has STUN_AGENT_USAGE_IGNORE_CREDENTIALS ||
  (h.cls == STUN_ERROR && f.errRet == .success && isCredErr f.errCode) ||
  (h.cls == STUN_INDICATION &&
    (c.has STUN_AGENT_USAGE_LONG_TERM_CREDENTIALS || c.has STUN_AGENT_USAGE_NO_INDICATION_AUTH))

/-- the presence rules (:231-248) : `true` = return UNAUTHORIZED_BAD_REQUEST -/
def presenceFails (c : Cfg) (h : Hdr) (f : Facts) (keyNull ignoreCred : Bool) : Bool :=
  keyNull && !ignoreCred && (h.cls == STUN_REQUEST || h.cls == STUN_INDICATION) &&
    ((c.has STUN_AGENT_USAGE_SHORT_TERM_CREDENTIALS && (!f.hasUser || !f.hasMI)) ||
     (c.has STUN_AGENT_USAGE_LONG_TERM_CREDENTIALS && h.cls == STUN_REQUEST &&
       (!f.hasUser || !f.hasMI || !f.hasNonce || !f.hasRealm)) ||
     (!c.has STUN_AGENT_USAGE_IGNORE_CREDENTIALS && f.hasUser && !f.hasMI))

/-- the validater call (:250-261): `none` = return UNAUTHORIZED, `some key` = the key from here on -/
def callValidater (c : Cfg) (buffer : Bytes) (validater : Validater) (f : Facts) (key0 : Option Bytes)
    (ignoreCred : Bool) : M (Option (Option Bytes)) :=
  if f.hasMI && ((key0.isNone && !ignoreCred) || c.has STUN_AGENT_USAGE_FORCE_VALIDATER) then
    match find (some c) buffer tUSERNAME with
    | .error e => .error e
    | .ok u =>
      let unameR : M Bytes := match u with
        | some (off, len) => rdBytes buffer off len.toNat
        | none => .ok #[]
      match unameR with
      | .error e => .error e
      | .ok uname =>
        match validater with
        | none => .ok none
        | some g => match g uname with
          | none => .ok none
          | some k => .ok (some k)
  else .ok (some key0)

/-- the 16-bit length the MAC is computed with, and the RFC 3489 padding flag, per compatibility -/
def macLenOf (c : Cfg) (buffer : Bytes) (hoff : Nat) : M UInt16 :=
  if c.compat == STUN_COMPATIBILITY_MSICE2 then (messageLength buffer).map (· - 20)
  else .ok (UInt16.ofNat hoff)

def macPadOf (c : Cfg) : Bool := isRfc3489ish c || c.compat == STUN_COMPATIBILITY_MSICE2

/-- long-term key derivation (:275-295): stored key, or MD5 over USERNAME/REALM of the message -/
def longTermKey (H : Hashes) (c : Cfg) (buffer : Bytes) (k : Bytes) (ltValid0 : Bool) (ltKey0 : Bytes) :
    M (Option Bytes) :=
  if ltValid0 then .ok (some ltKey0)
  else
    match find (some c) buffer tREALM, find (some c) buffer tUSERNAME with
    | .ok (some (ro, rl)), .ok (some (uo, ul)) =>
      match rdBytes buffer ro rl.toNat, rdBytes buffer uo ul.toNat with
      | .ok realm, .ok uname => .ok (some (hashCreds H realm uname k))
      | .error e, _ => .error e
      | _, .error e => .error e
    | .error e, _ => .error e
    | _, .error e => .error e
    | _, _ => .ok none

/-- the MESSAGE-INTEGRITY check (:263-343) with a non-empty key `k`: (false, _) = return
    UNAUTHORIZED; the info is what the caller's StunMessage holds at that point -/
def miCheckKey (H : Hashes) (c : Cfg) (buffer : Bytes) (h : Hdr) (f : Facts) (k : Bytes)
    (ltValid0 : Bool) (ltKey0 : Bytes) : M (Bool × MsgInfo) :=
  match find (some c) buffer tMI with
  | .error e => .error e
  | .ok (some (hoff, hlen)) =>
    if hlen != 20 then .ok (false, {}) else
    match macLenOf c buffer hoff with
    | .error e => .error e
    | .ok ml =>
      if c.has STUN_AGENT_USAGE_LONG_TERM_CREDENTIALS then
        match longTermKey H c buffer k ltValid0 ltKey0 with
        | .error e => .error e
        | .ok none => .ok (false, {})
        | .ok (some md5) =>
          match stunSha1 H buffer (hoff + 20) ml md5 (macPadOf c), rdBytes buffer hoff 20 with
          | .ok sha, .ok hash =>
            if sha != hash then .ok (false, { ltKey := md5, ltValid := true })
            else .ok (true, { key := some k, ltKey := md5, ltValid := true })
          | .error e, _ => .error e
          | _, .error e => .error e
      else
        match stunSha1 H buffer (hoff + 20) ml k (macPadOf c), rdBytes buffer hoff 20 with
        | .ok sha, .ok hash =>
          if sha != hash then .ok (false, {})
          else .ok (true, { key := some k })
        | .error e, _ => .error e
        | _, .error e => .error e
  | .ok none =>
    if !(h.cls == STUN_ERROR && f.errRet == .success &&
         (f.errCode == STUN_ERROR_BAD_REQUEST || f.errCode == STUN_ERROR_UNAUTHORIZED)) then
      .ok (false, {})
    else .ok (true, {})

/-- `if (ignore_credentials == 0 && key != NULL && key_len > 0) { … }` -/
def miCheck (H : Hashes) (c : Cfg) (buffer : Bytes) (h : Hdr) (f : Facts) (key : Option Bytes)
    (ignoreCred ltValid0 : Bool) (ltKey0 : Bytes) : M (Bool × MsgInfo) :=
  match key with
  | some k =>
    if !ignoreCred && k.size > 0 then miCheckKey H c buffer h f k ltValid0 ltKey0
    else .ok (true, {})
  | none => .ok (true, {})

/-- `agent->sent_ids[sent_id_idx].valid = FALSE` for the matched slot (if any) -/
def invalidate (sent : Array SavedId) (sentIdx : Option Nat) : Array SavedId :=
  match sentIdx with
  | some i => sent.modify i fun s => { s with valid := false }
  | none => sent

/-- the local `error_code` at the consent-freshness test: assigned only by a successful
    stun_message_find_error, otherwise its indeterminate initial value -/
def errNowOf (f : Facts) (uninitErr : Nat) : Nat := if f.errRet == .success then f.errCode else uninitErr

/-- the tail (:345-369): consent-freshness 403, one-shot invalidation of the saved id, MS-ICE2
    legacy flag, unknown comprehension-required attributes -/
def validateTail (ag : Agent) (buffer : Bytes) (h : Hdr) (f : Facts) (sentIdx : Option Nat)
    (info : MsgInfo) (uninitErr : Nat) : M (Status × Agent × MsgInfo) :=
  let c := ag.cfg
  if c.has STUN_AGENT_USAGE_CONSENT_FRESHNESS && h.cls == STUN_ERROR &&
      errNowOf f uninitErr == STUN_ERROR_FORBIDDEN then .ok (.forbidden, ag, info)
  else
    let sent' := invalidate ag.sent sentIdx
    match find32 (some c) buffer (UInt16.ofNat STUN_ATTRIBUTE_MS_IMPLEMENTATION_VERSION) with
    | .error e => .error e
    | .ok (implRet, _) =>
      let ag' := { ag with sent := sent', legacy := if implRet == .success then false else ag.legacy }
      match findUnknowns ag buffer 1 with
      | .error e => .error e
      | .ok unk =>
        if unk.size > 0 then
          .ok (if h.cls == STUN_REQUEST then .unknownRequestAttribute else .unknownAttribute, ag', info)
        else .ok (.success, ag', info)

/-- key, long_term_valid and long_term_key copied from the matched saved id (NULL / FALSE / zeros
    for requests and indications) -/
def slotInfo (ag : Agent) (sentIdx : Option Nat) : Option Bytes × Bool × Bytes :=
  match sentIdx with
  | some i => let s := ag.sent.getD i {}; (s.key, s.ltValid, s.ltKey)
  | none => (none, false, Array.replicate 16 0)

/-- `stun_agent_validate (agent, msg, buffer, buffer_len, validater, validater_data)`.
    `uninitErr` is the indeterminate initial value of the local `error_code` (read when
    CONSENT_FRESHNESS is set and an error response carries no valid ERROR-CODE). -/
def validate (H : Hashes) (ag : Agent) (buffer : Bytes) (validater : Validater) (uninitErr : Nat := 0) :
    M (Status × Agent × MsgInfo) :=
  let c := ag.cfg
  match frameCheck ag buffer with
  | .error e => .error e
  | .ok (.inl st) => .ok (st, ag, {})
  | .ok (.inr h) =>
    match matchResponse ag h with
    | .inl st => .ok (st, ag, {})
    | .inr sentIdx =>
      let sl := slotInfo ag sentIdx      -- key, long_term_valid, long_term_key of the matched request
      match readFacts (some c) buffer with
      | .error e => .error e
      | .ok f =>
        let ignoreCred := ignoreCredOf c h f
        if presenceFails c h f sl.1.isNone ignoreCred then .ok (.unauthorizedBadRequest, ag, {}) else
        match callValidater c buffer validater f sl.1 ignoreCred with
        | .error e => .error e
        | .ok none => .ok (.unauthorized, ag, {})
        | .ok (some key) =>
          match miCheck H c buffer h f key ignoreCred sl.2.1 sl.2.2 with
          | .error e => .error e
          | .ok (false, info) => .ok (.unauthorized, ag, info)
          | .ok (true, info) => validateTail ag buffer h f sentIdx info uninitErr

/-- `stun_agent_forget_transaction` -/
def forgetTransaction (ag : Agent) (id : Bytes) : Bool × Agent :=
  match (List.range ag.sent.size).find? fun i =>
      let s := ag.sent.getD i {}
      s.valid && s.id == id with
  | some i => (true, { ag with sent := ag.sent.modify i fun s => { s with valid := false } })
  | none => (false, ag)

/-! ### finishing -/

def STUN_SEND_METHOD : Nat := STUN_SEND

/-- long-term key preparation of `stun_agent_finish_message` (:597-618): (skip, message, md5) -/
def finishPrep (H : Hashes) (c : Cfg) (msg : Msg) (k : Bytes) : M (Bool × Msg × Bytes) :=
  let a := some c
  if msg.ltValid then .ok (false, msg, msg.ltKey)
  else if c.has STUN_AGENT_USAGE_LONG_TERM_CREDENTIALS then
    match find a msg.buf tREALM, find a msg.buf tUSERNAME with
    | .ok (some (ro, rl)), .ok (some (uo, ul)) =>
      match rdBytes msg.buf ro rl.toNat, rdBytes msg.buf uo ul.toNat with
      | .ok realm, .ok uname =>
        let md5 := hashCreds H realm uname k
        .ok (false, { msg with ltKey := md5, ltValid := true }, md5)
      | .error e, _ => .error e
      | _, .error e => .error e
    | .error e, _ => .error e
    | _, .error e => .error e
    | _, _ => .ok (true, msg, #[])
  else .ok (false, msg, #[])

/-- the HMAC key: the MD5 credential hash under long-term credentials, else the key itself -/
def finishMacKey (c : Cfg) (k md5 : Bytes) : Bytes :=
  if c.has STUN_AGENT_USAGE_LONG_TERM_CREDENTIALS then md5 else k

/-- the MAC's length field is `message length - minus`: 20, or for MS-ICE2 with fingerprints 12
    (the 8 bytes of the FINGERPRINT still to be appended are counted) -/
def finishMinus (c : Cfg) : UInt16 :=
  if c.compat == STUN_COMPATIBILITY_MSICE2 && c.has STUN_AGENT_USAGE_USE_FINGERPRINT then 12 else 20

/-- `if (msg->key != NULL) { key = msg->key; … }` -/
def pickKey (msgKey keyArg : Option Bytes) : Option Bytes :=
  match msgKey with | some k => some k | none => keyArg

/-- append MESSAGE-INTEGRITY (:622-664) to `m` and fill it in: `none` = append returned NULL -/
def finishAppendMI (H : Hashes) (c : Cfg) (m : Msg) (k md5 : Bytes) : M (Option Msg) :=
  match append (some c) m.buf tMI 20 with
  | .error e => .error e
  | .ok none => .ok none
  | .ok (some (b, ptr)) =>
    match messageLength b with
    | .error e => .error e
    | .ok mlen =>
      match stunSha1 H b mlen.toNat (mlen - finishMinus c) (finishMacKey c k md5) (macPadOf c) with
      | .error e => .error e
      | .ok sha =>
        match wrBytes b ptr sha with
        | .error e => .error e
        | .ok b => .ok (some { m with buf := b })

/-- the MESSAGE-INTEGRITY part of finish: (false, m) = return 0 -/
def finishMI (H : Hashes) (c : Cfg) (msg : Msg) (key : Option Bytes) : M (Bool × Msg) :=
  match key with
  | none => .ok (true, msg)
  | some k =>
    match finishPrep H c msg k with
    | .error e => .error e
    | .ok (true, m, _) => .ok (true, m)      -- long-term credentials without REALM / USERNAME: no M-I
    | .ok (false, m, md5) =>
      match finishAppendMI H c m k md5 with
      | .error e => .error e
      | .ok none => .ok (false, m)
      | .ok (some m') => .ok (true, m')

/-- the FINGERPRINT part of finish (:667-679): `none` = return 0 -/
def finishFPR (c : Cfg) (m : Msg) : M (Option Msg) :=
  if isRfc5389ish c && c.has STUN_AGENT_USAGE_USE_FINGERPRINT then
    match append (some c) m.buf tFPR 4 with
    | .error e => .error e
    | .ok none => .ok none
    | .ok (some (b, ptr)) =>
      match messageLength b with
      | .error e => .error e
      | .ok mlen =>
        match fingerprint b mlen.toNat false with
        | .error e => .error e
        | .ok fpr =>
          match wrBytes b ptr (be32Bytes fpr) with
          | .error e => .error e
          | .ok b => .ok (some { m with buf := b })
  else .ok (some m)

/-- `stun_agent_finish_message (agent, msg, key, key_len)` : (return value, agent, message) -/
def finishMessage (H : Hashes) (ag : Agent) (msg : Msg) (keyArg : Option Bytes) : M (Nat × Agent × Msg) :=
  let c := ag.cfg
  match getClass msg.buf, getMethod msg.buf with
  | .ok cls, .ok method =>
    let remember := cls == STUN_REQUEST && !(c.compat == STUN_COMPATIBILITY_OC2007 && method == STUN_SEND_METHOD)
    let slot : Option Nat :=
      if remember then (List.range ag.sent.size).find? fun i => !(ag.sent.getD i {}).valid else some 0
    match slot with
    | none => .ok (0, ag, msg)               -- "Saved IDs full"
    | some savedIdx =>
      let key := pickKey msg.key keyArg
      match finishMI H c msg key with
      | .error e => .error e
      | .ok (false, m) => .ok (0, ag, m)
      | .ok (true, m) =>
        match finishFPR c m with
        | .error e => .error e
        | .ok none => .ok (0, ag, m)        -- M-I already appended, buffer keeps it
        | .ok (some m) =>
          match messageId m.buf, messageLength m.buf with
          | .ok id, .ok len =>
            let saved : SavedId :=
              { id := id, method := method, key := key, ltKey := m.ltKey, ltValid := m.ltValid, valid := true }
            let ag' := if remember then { ag with sent := ag.sent.setIfInBounds savedIdx saved } else ag
            .ok (len.toNat, ag', { m with key := key })
          | .error e, _ => .error e
          | _, .error e => .error e
  | .error e, _ => .error e
  | _, .error e => .error e

/-! ### message initialisers -/

def cookieBytes : Bytes := be32Bytes (UInt32.ofNat STUN_MAGIC_COOKIE)

/-- `(compat 5389 | MSICE2) && (software_attribute != NULL || ADD_SOFTWARE)` → append SOFTWARE
    (its return value is ignored by the callers) -/
def maybeSoftware (ag : Agent) (buf : Bytes) : M Bytes :=
  if isRfc5389ish ag.cfg && (ag.software.isSome || ag.cfg.has STUN_AGENT_USAGE_ADD_SOFTWARE) then
    match appendSoftware (some ag.cfg) buf ag.software with
    | .error e => .error e
    | .ok (_, b) => .ok b
  else .ok buf

/-- `stun_agent_init_request (agent, msg, buffer, buffer_len, m)`; `id` = what stun_make_transid
    produced.  Returns (ret, message). -/
def initRequest (ag : Agent) (buf : Bytes) (m : Nat) (id : Bytes) : M (Bool × Msg) :=
  match messageInit buf STUN_REQUEST m id with
  | .error e => .error e
  | .ok none => .ok (false, { buf := buf, agent := some ag.cfg })
  | .ok (some b) =>
    let bR : M Bytes := if isRfc5389ish ag.cfg then wrBytes b STUN_MESSAGE_TRANS_ID_POS cookieBytes else .ok b
    match bR with
    | .error e => .error e
    | .ok b =>
      match maybeSoftware ag b with
      | .error e => .error e
      | .ok b => .ok (true, { buf := b, agent := some ag.cfg })

/-- `stun_agent_init_indication` -/
def initIndication (ag : Agent) (buf : Bytes) (m : Nat) (id : Bytes) : M (Bool × Msg) :=
  match messageInit buf STUN_INDICATION m id with
  | .error e => .error e
  | .ok none => .ok (false, { buf := buf, agent := some ag.cfg })
  | .ok (some b) =>
    let bR : M Bytes := if isRfc5389ish ag.cfg then wrBytes b STUN_MESSAGE_TRANS_ID_POS cookieBytes else .ok b
    match bR with
    | .error e => .error e
    | .ok b => .ok (true, { buf := b, agent := some ag.cfg })

/-- `stun_agent_init_response (agent, msg, buffer, buffer_len, request)`; the message fields are
    assigned only when the request's class is REQUEST -/
def initResponse (ag : Agent) (old : Msg) (buf : Bytes) (req : Msg) : M (Bool × Msg) :=
  match getClass req.buf, getMethod req.buf, messageId req.buf with
  | .ok cls, .ok method, .ok id =>
    if cls != STUN_REQUEST then .ok (false, old)
    else
      let m0 : Msg := { buf := buf, agent := some ag.cfg, key := req.key, ltKey := req.ltKey, ltValid := req.ltValid }
      match messageInit buf STUN_RESPONSE method id with
      | .error e => .error e
      | .ok none => .ok (false, m0)
      | .ok (some b) =>
        match maybeSoftware ag b with
        | .error e => .error e
        | .ok b => .ok (true, { m0 with buf := b })
  | .error e, _, _ => .error e
  | _, .error e, _ => .error e
  | _, _, .error e => .error e

/-- `stun_agent_init_error (agent, msg, buffer, buffer_len, request, err)` -/
def initError (ag : Agent) (old : Msg) (buf : Bytes) (req : Msg) (err : Nat) : M (Bool × Msg) :=
  match getClass req.buf, getMethod req.buf, messageId req.buf with
  | .ok cls, .ok method, .ok id =>
    if cls != STUN_REQUEST then .ok (false, old)
    else
      let m0 : Msg := { buf := buf, agent := some ag.cfg, key := req.key, ltKey := req.ltKey, ltValid := req.ltValid }
      match messageInit buf STUN_ERROR method id with
      | .error e => .error e
      | .ok none => .ok (false, m0)
      | .ok (some b) =>
        match maybeSoftware ag b with
        | .error e => .error e
        | .ok b =>
          match appendError (some ag.cfg) b err with
          | .error e => .error e
          | .ok (.success, b) => .ok (true, { m0 with buf := b })
          | .ok (_, b) => .ok (false, { m0 with buf := b })
  | .error e, _, _ => .error e
  | _, .error e, _ => .error e
  | _, _, .error e => .error e

/-- `stun_agent_build_unknown_attributes_error (agent, msg, buffer, buffer_len, request)` -/
def buildUnknownAttributesError (H : Hashes) (ag : Agent) (old : Msg) (buf : Bytes) (req : Msg) :
    M (Nat × Agent × Msg) :=
  match findUnknowns ag req.buf STUN_AGENT_MAX_UNKNOWN_ATTRIBUTES with
  | .error e => .error e
  | .ok ids =>
    match initError ag old buf req STUN_ERROR_UNKNOWN_ATTRIBUTE with
    | .error e => .error e
    | .ok (false, m) => .ok (0, ag, m)
    | .ok (true, m) =>
      match hasCookie req.buf with
      | .error e => .error e
      | .ok cookie =>
        -- RFC 3489: when the count is odd, duplicate one value for 32-bit padding
        let ids := if !cookie && ids.size % 2 == 1 then ids.push (ids.getD 0 0) else ids
        let data : Bytes := ids.foldl (fun acc (t : UInt16) => acc ++ #[(t >>> 8).toUInt8, t.toUInt8]) #[]
        match appendBytes (some ag.cfg) m.buf (UInt16.ofNat STUN_ATTRIBUTE_UNKNOWN_ATTRIBUTES) data with
        | .error e => .error e
        | .ok (.success, b) => finishMessage H ag { m with buf := b } req.key
        | .ok (_, b) => .ok (0, ag, { m with buf := b })

end Nice.Stun
