/-
  SHA-1 (FIPS 180-4), HMAC (RFC 2104) and MD5 (RFC 1321), executable, core Lean only.
  libnice delegates these to GnuTLS; the executable model has its own so that outputs compare byte
  for byte (the harness validates them against GnuTLS on RFC vectors and random inputs on every run).
  Theorems never look inside: they take `hmac` / `md5` as parameters.
-/
import Nice.Model.Stun.Basic
namespace Nice.Stun.Hash

def rotl (x : UInt32) (n : UInt32) : UInt32 := (x <<< n) ||| (x >>> (32 - n))

def be32At (b : Bytes) (i : Nat) : UInt32 :=
  ((b.getD i 0).toUInt32 <<< 24) ||| ((b.getD (i + 1) 0).toUInt32 <<< 16) |||
  ((b.getD (i + 2) 0).toUInt32 <<< 8) ||| (b.getD (i + 3) 0).toUInt32

def le32At (b : Bytes) (i : Nat) : UInt32 :=
  ((b.getD (i + 3) 0).toUInt32 <<< 24) ||| ((b.getD (i + 2) 0).toUInt32 <<< 16) |||
  ((b.getD (i + 1) 0).toUInt32 <<< 8) ||| (b.getD i 0).toUInt32

def be32Out (v : UInt32) : Bytes := #[(v >>> 24).toUInt8, (v >>> 16).toUInt8, (v >>> 8).toUInt8, v.toUInt8]
def le32Out (v : UInt32) : Bytes := #[v.toUInt8, (v >>> 8).toUInt8, (v >>> 16).toUInt8, (v >>> 24).toUInt8]

/-- message ++ 0x80 ++ zeros ++ 64-bit bit length (big or little endian), multiple of 64 bytes -/
def padMsg (msg : Bytes) (bigEndian : Bool) : Bytes :=
  let bits := msg.size * 8
  let k := (55 + 64 - msg.size % 64) % 64
  let lenBytes : Bytes := Array.ofFn (n := 8) fun i =>
    UInt8.ofNat (bits / 2 ^ (8 * (if bigEndian then 7 - i.val else i.val)))
  msg ++ #[0x80] ++ Array.replicate k 0 ++ lenBytes

structure S5 where
  a : UInt32
  b : UInt32
  c : UInt32
  d : UInt32
  e : UInt32

def sha1Schedule (blk : Bytes) (off : Nat) : Array UInt32 := Id.run do
  let mut w : Array UInt32 := Array.replicate 80 0
  for t in [0:16] do
    w := w.set! t (be32At blk (off + 4 * t))
  for t in [16:80] do
    w := w.set! t (rotl (w[t - 3]! ^^^ w[t - 8]! ^^^ w[t - 14]! ^^^ w[t - 16]!) 1)
  return w

def sha1Block (h : S5) (blk : Bytes) (off : Nat) : S5 := Id.run do
  let w := sha1Schedule blk off
  let mut s := h
  for t in [0:80] do
    let (f, k) : UInt32 × UInt32 :=
      if t < 20 then ((s.b &&& s.c) ||| ((~~~ s.b) &&& s.d), 0x5a827999)
      else if t < 40 then (s.b ^^^ s.c ^^^ s.d, 0x6ed9eba1)
      else if t < 60 then ((s.b &&& s.c) ||| (s.b &&& s.d) ||| (s.c &&& s.d), 0x8f1bbcdc)
      else (s.b ^^^ s.c ^^^ s.d, 0xca62c1d6)
    let tmp := rotl s.a 5 + f + s.e + k + w[t]!
    s := ⟨tmp, s.a, rotl s.b 30, s.c, s.d⟩
  return ⟨h.a + s.a, h.b + s.b, h.c + s.c, h.d + s.d, h.e + s.e⟩

def sha1 (msg : Bytes) : Bytes := Id.run do
  let p := padMsg msg true
  let mut h : S5 := ⟨0x67452301, 0xefcdab89, 0x98badcfe, 0x10325476, 0xc3d2e1f0⟩
  for i in [0:p.size / 64] do
    h := sha1Block h p (64 * i)
  return be32Out h.a ++ be32Out h.b ++ be32Out h.c ++ be32Out h.d ++ be32Out h.e

/-- HMAC-SHA1 (RFC 2104, block size 64) -/
def hmacSha1 (key msg : Bytes) : Bytes :=
  let k0 := if key.size > 64 then sha1 key else key
  let k : Bytes := Array.ofFn (n := 64) fun i => k0.getD i.val 0
  let ipad := k.map (· ^^^ 0x36)
  let opad := k.map (· ^^^ 0x5c)
  sha1 (opad ++ sha1 (ipad ++ msg))

def md5K : Array UInt32 := #[0xd76aa478, 0xe8c7b756, 0x242070db, 0xc1bdceee, 0xf57c0faf, 0x4787c62a, 0xa8304613, 0xfd469501, 0x698098d8, 0x8b44f7af, 0xffff5bb1, 0x895cd7be, 0x6b901122, 0xfd987193, 0xa679438e, 0x49b40821, 0xf61e2562, 0xc040b340, 0x265e5a51, 0xe9b6c7aa, 0xd62f105d, 0x02441453, 0xd8a1e681, 0xe7d3fbc8, 0x21e1cde6, 0xc33707d6, 0xf4d50d87, 0x455a14ed, 0xa9e3e905, 0xfcefa3f8, 0x676f02d9, 0x8d2a4c8a, 0xfffa3942, 0x8771f681, 0x6d9d6122, 0xfde5380c, 0xa4beea44, 0x4bdecfa9, 0xf6bb4b60, 0xbebfbc70, 0x289b7ec6, 0xeaa127fa, 0xd4ef3085, 0x04881d05, 0xd9d4d039, 0xe6db99e5, 0x1fa27cf8, 0xc4ac5665, 0xf4292244, 0x432aff97, 0xab9423a7, 0xfc93a039, 0x655b59c3, 0x8f0ccc92, 0xffeff47d, 0x85845dd1, 0x6fa87e4f, 0xfe2ce6e0, 0xa3014314, 0x4e0811a1, 0xf7537e82, 0xbd3af235, 0x2ad7d2bb, 0xeb86d391]
def md5S : Array UInt32 := #[7, 12, 17, 22, 7, 12, 17, 22, 7, 12, 17, 22, 7, 12, 17, 22, 5, 9, 14, 20, 5, 9, 14, 20, 5, 9, 14, 20, 5, 9, 14, 20, 4, 11, 16, 23, 4, 11, 16, 23, 4, 11, 16, 23, 4, 11, 16, 23, 6, 10, 15, 21, 6, 10, 15, 21, 6, 10, 15, 21, 6, 10, 15, 21]

structure S4 where
  a : UInt32
  b : UInt32
  c : UInt32
  d : UInt32

def md5Block (h : S4) (blk : Bytes) (off : Nat) : S4 := Id.run do
  let mut s := h
  for i in [0:64] do
    let (f, g) : UInt32 × Nat :=
      if i < 16 then ((s.b &&& s.c) ||| ((~~~ s.b) &&& s.d), i)
      else if i < 32 then ((s.d &&& s.b) ||| ((~~~ s.d) &&& s.c), (5 * i + 1) % 16)
      else if i < 48 then (s.b ^^^ s.c ^^^ s.d, (3 * i + 5) % 16)
      else (s.c ^^^ (s.b ||| (~~~ s.d)), (7 * i) % 16)
    let f2 := f + s.a + md5K[i]! + le32At blk (off + 4 * g)
    s := ⟨s.d, s.b + rotl f2 md5S[i]!, s.b, s.c⟩
  return ⟨h.a + s.a, h.b + s.b, h.c + s.c, h.d + s.d⟩

def md5 (msg : Bytes) : Bytes := Id.run do
  let p := padMsg msg false
  let mut h : S4 := ⟨0x67452301, 0xefcdab89, 0x98badcfe, 0x10325476⟩
  for i in [0:p.size / 64] do
    h := md5Block h p (64 * i)
  return le32Out h.a ++ le32Out h.b ++ le32Out h.c ++ le32Out h.d

end Nice.Stun.Hash
