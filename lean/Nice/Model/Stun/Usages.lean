/-
  STUN usages (stun/usages/ice.c, stun/usages/bind.c as they are at /repo HEAD 8b6e9d4):
  stun_usage_ice_conncheck_create / _process / _create_reply (with the RFC 5245 §7.2.1.1 role
  conflict logic), stun_usage_bind_create / _process / _keepalive.
  Return codes are the C enum values (Nat), see Nice.Gen.Consts.
-/
import Nice.Model.Stun.Agent
namespace Nice.Stun
open Nice.Gen

def BIND_RETURN_SUCCESS : Nat := 0
def BIND_RETURN_ERROR : Nat := 1
def BIND_RETURN_INVALID : Nat := 2
def BIND_RETURN_ALTERNATE_SERVER : Nat := 3

/-- attribute code as the 16-bit type the message layer takes -/
def attrT (n : Nat) : UInt16 := UInt16.ofNat n

abbrev BuildR := M (Nat × Agent × Msg)

/-- `if (append… != STUN_MESSAGE_RETURN_SUCCESS) return 0;` then continue with the new buffer -/
def tryApp (ag : Agent) (msg : Msg) (r : M (Ret × Bytes)) (k : Msg → BuildR) : BuildR :=
  match r with
  | .error e => .error e
  | .ok (.success, b) => k { msg with buf := b }
  | .ok (_, b) => .ok (0, ag, { msg with buf := b })

/-- conncheck_create, last part: MS-ICE2 candidate identifier (zero padded to a multiple of 4) and
    implementation version, then finish with the password -/
def ccStep3 (H : Hashes) (ag : Agent) (password candidateId : Option Bytes) (compat : Nat) (m : Msg) : BuildR :=
  let a := some ag.cfg
  match candidateId with
  | some cid =>
    if compat == STUN_USAGE_ICE_COMPATIBILITY_MSICE2 then
      let idb := cstr cid
      let alen := if idb.size % 4 != 0 then idb.size + (4 - idb.size % 4) else idb.size
      tryApp ag m (appendBytes a m.buf (attrT STUN_ATTRIBUTE_CANDIDATE_IDENTIFIER) (takeZ idb alen)) fun m =>
      tryApp ag m (append32 a m.buf (attrT STUN_ATTRIBUTE_MS_IMPLEMENTATION_VERSION) 2) fun m =>
      finishMessage H ag m password
    else finishMessage H ag m password
  | none => finishMessage H ag m password

/-- conncheck_create, middle part: USERNAME -/
def ccStep2 (H : Hashes) (ag : Agent) (username password candidateId : Option Bytes) (compat : Nat) (m : Msg) : BuildR :=
  match username with
  | some u =>
    if u.size > 0 then
      tryApp ag m (appendBytes (some ag.cfg) m.buf (attrT STUN_ATTRIBUTE_USERNAME) u) (ccStep3 H ag password candidateId compat)
    else ccStep3 H ag password candidateId compat m
  | none => ccStep3 H ag password candidateId compat m

/-- conncheck_create: PRIORITY and ICE-CONTROLLING / ICE-CONTROLLED -/
def ccPrio (H : Hashes) (ag : Agent) (username password candidateId : Option Bytes) (controlling : Bool)
    (priority : UInt32) (tie : UInt64) (compat : Nat) (m : Msg) : BuildR :=
  let a := some ag.cfg
  tryApp ag m (append32 a m.buf (attrT STUN_ATTRIBUTE_PRIORITY) priority) fun m =>
  tryApp ag m (append64 a m.buf
    (attrT (if controlling then STUN_ATTRIBUTE_ICE_CONTROLLING else STUN_ATTRIBUTE_ICE_CONTROLLED)) tie)
    (ccStep2 H ag username password candidateId compat)

/-- conncheck_create, first part: USE-CANDIDATE (RFC 5245 / MS-ICE2 dialects only) -/
def ccStep1 (H : Hashes) (ag : Agent) (username password candidateId : Option Bytes) (candUse controlling : Bool)
    (priority : UInt32) (tie : UInt64) (compat : Nat) (m : Msg) : BuildR :=
  if compat == STUN_USAGE_ICE_COMPATIBILITY_RFC5245 || compat == STUN_USAGE_ICE_COMPATIBILITY_MSICE2 then
    if candUse then
      tryApp ag m (appendFlag (some ag.cfg) m.buf (attrT STUN_ATTRIBUTE_USE_CANDIDATE))
        (ccPrio H ag username password candidateId controlling priority tie compat)
    else ccPrio H ag username password candidateId controlling priority tie compat m
  else ccStep2 H ag username password candidateId compat m

/-- `stun_usage_ice_conncheck_create` (returns 0 when the message cannot be initialised, fix 8b6e9d4) -/
def iceConncheckCreate (H : Hashes) (ag : Agent) (buf : Bytes) (id : Bytes)
    (username password : Option Bytes) (candUse controlling : Bool) (priority : UInt32) (tie : UInt64)
    (candidateId : Option Bytes) (compat : Nat) : BuildR :=
  match initRequest ag buf STUN_BINDING id with
  | .error e => .error e
  | .ok (false, msg) => .ok (0, ag, msg)
  | .ok (true, msg) => ccStep1 H ag username password candidateId candUse controlling priority tie compat msg

/-- cookie used by the MSN dialect: the first four bytes of the transaction id (`htonl` of them
    read as a host-order word, i.e. their big-endian value) -/
def msnCookie (buf : Bytes) : M UInt32 :=
  match messageId buf with
  | .error e => .error e
  | .ok id => .ok (be32 id)

/-- `stun_usage_ice_conncheck_process (msg, addr, &addrlen, compatibility)` : (return, address,
    *addrlen) -/
def iceConncheckProcess (msg : Msg) (addrlen : Nat) (compat : Nat) : M (Nat × Option SockAddr × Nat) :=
  let a := msg.agent
  match getMethod msg.buf, getClass msg.buf with
  | .ok method, .ok cls =>
    if method != STUN_BINDING then .ok (STUN_USAGE_ICE_RETURN_INVALID, none, addrlen)
    else if cls == STUN_REQUEST || cls == STUN_INDICATION then .ok (STUN_USAGE_ICE_RETURN_INVALID, none, addrlen)
    else if cls != STUN_RESPONSE then
      match findError a msg.buf with
      | .error e => .error e
      | .ok (.success, code) =>
        if code == STUN_ERROR_ROLE_CONFLICT then .ok (STUN_USAGE_ICE_RETURN_ROLE_CONFLICT, none, addrlen)
        else .ok (STUN_USAGE_ICE_RETURN_ERROR, none, addrlen)
      | .ok _ => .ok (STUN_USAGE_ICE_RETURN_INVALID, none, addrlen)
    else
      let xr : M (Ret × Option SockAddr × Nat) :=
        if compat == STUN_USAGE_ICE_COMPATIBILITY_MSN then
          match msnCookie msg.buf with
          | .error e => .error e
          | .ok ck => findXorAddrFull a msg.buf (attrT STUN_ATTRIBUTE_XOR_MAPPED_ADDRESS) addrlen ck
        else findXorAddr a msg.buf (attrT STUN_ATTRIBUTE_XOR_MAPPED_ADDRESS) addrlen
      match xr with
      | .error e => .error e
      | .ok (.success, ad, al) => .ok (STUN_USAGE_ICE_RETURN_SUCCESS, ad, al)
      | .ok (_, _, al) =>
        match findAddr a msg.buf (attrT STUN_ATTRIBUTE_MAPPED_ADDRESS) al with
        | .error e => .error e
        | .ok (.success, ad, al) => .ok (STUN_USAGE_ICE_RETURN_SUCCESS, ad, al)
        | .ok (_, _, al) => .ok (STUN_USAGE_ICE_RETURN_NO_MAPPED_ADDRESS, none, al)
  | .error e, _ => .error e
  | _, .error e => .error e

/-- `stun_bind_error` : (new `len`, agent, message) -/
def bindError (H : Hashes) (ag : Agent) (old : Msg) (buf : Bytes) (req : Msg) (code : Nat) :
    M (Nat × Agent × Msg) :=
  match initError ag old buf req code with
  | .error e => .error e
  | .ok (false, m) => .ok (0, ag, m)
  | .ok (true, m) => finishMessage H ag m none

/-- the role-conflict decision of `stun_usage_ice_conncheck_create_reply` (RFC 5245 §7.2.1.1):
    given our role, our tie-breaker and the peer's tie-breaker found under the attribute that
    conflicts with our role: `some control'` = switch (or keep) role and answer normally,
    `none` = answer 487 -/
def roleConflict (control : Bool) (tie q : UInt64) : Option Bool :=
  if (tie < q && control) || (tie >= q && !control) then some (!control) else none

structure ReplyResult where
  ret : Nat
  plen : Nat
  control : Bool
  deriving Repr, Inhabited

/-- the `failure:` label of create_reply: map the last append result to the return code
    (`assert (0)` if it were SUCCESS) -/
def replyFailure (ag : Agent) (control' : Bool) (val : Ret) (m : Msg) : M (ReplyResult × Agent × Msg) :=
  match val with
  | .noSpace => .ok (⟨STUN_USAGE_ICE_RETURN_MEMORY_ERROR, 0, control'⟩, ag, m)
  | .invalid => .ok (⟨STUN_USAGE_ICE_RETURN_INVALID_ADDRESS, 0, control'⟩, ag, m)
  | .unsupported => .ok (⟨STUN_USAGE_ICE_RETURN_INVALID_ADDRESS, 0, control'⟩, ag, m)
  | .success => .error .assertFailed        -- assert (0)
  | .notFound => .ok (⟨STUN_USAGE_ICE_RETURN_ERROR, 0, control'⟩, ag, m)

/-- the mapped-address attribute of the reply, per dialect -/
def replyMapped (ag : Agent) (buf : Bytes) (src : SockAddr) (srclen : Nat) (compat : Nat) : M (Ret × Bytes) :=
  let a := some ag.cfg
  if compat == STUN_USAGE_ICE_COMPATIBILITY_MSN then
    match msnCookie buf with
    | .error e => .error e
    | .ok ck => appendXorAddrFull a buf (attrT STUN_ATTRIBUTE_XOR_MAPPED_ADDRESS) src srclen ck
  else
    match hasCookie buf with
    | .error e => .error e
    | .ok hc =>
      if hc && compat != STUN_USAGE_ICE_COMPATIBILITY_GOOGLE then
        appendXorAddr a buf (attrT STUN_ATTRIBUTE_XOR_MAPPED_ADDRESS) src srclen
      else appendAddr a buf (attrT STUN_ATTRIBUTE_MAPPED_ADDRESS) src srclen

/-- copy of the request's USERNAME into the reply (SUCCESS when the request has none) -/
def replyUsername (ag : Agent) (buf : Bytes) (req : Msg) : M (Ret × Bytes) :=
  match find req.agent req.buf tUSERNAME with
  | .error e => .error e
  | .ok (some (off, len)) =>
    match rdBytes req.buf off len.toNat with
    | .error e => .error e
    | .ok uname => appendBytes (some ag.cfg) buf tUSERNAME uname
  | .ok none => .ok (.success, buf)

/-- create_reply after stun_agent_init_response succeeded -/
def replyBody (H : Hashes) (ag : Agent) (req : Msg) (m : Msg) (src : SockAddr) (srclen : Nat) (compat : Nat)
    (control' : Bool) (ret : Nat) : M (ReplyResult × Agent × Msg) :=
  match replyMapped ag m.buf src srclen compat with
  | .error e => .error e
  | .ok (.success, b) =>
    let m := { m with buf := b }
    match replyUsername ag m.buf req with
    | .error e => .error e
    | .ok (.success, b) =>
      let m := { m with buf := b }
      let ir : M (Ret × Bytes) :=
        if compat == STUN_USAGE_ICE_COMPATIBILITY_MSICE2 then
          append32 (some ag.cfg) m.buf (attrT STUN_ATTRIBUTE_MS_IMPLEMENTATION_VERSION) 2
        else .ok (.success, m.buf)
      match ir with
      | .error e => .error e
      | .ok (.success, b) =>
        match finishMessage H ag { m with buf := b } none with
        | .error e => .error e
        | .ok (0, ag', m') =>
          match replyFailure ag control' .noSpace m' with
          | .error e => .error e
          | .ok (r, _, m'') => .ok (r, ag', m'')
        | .ok (len, ag', m') => .ok (⟨ret, len, control'⟩, ag', m')
      | .ok (v, b) => replyFailure ag control' v { m with buf := b }
    | .ok (v, b) => replyFailure ag control' v { m with buf := b }
  | .ok (v, b) => replyFailure ag control' v { m with buf := b }

/-- `stun_usage_ice_conncheck_create_reply (agent, req, msg, buf, &len, src, srclen, &control, tie,
    compatibility)`; `buf.size` is the incoming `*plen` -/
def iceCreateReply (H : Hashes) (ag : Agent) (req : Msg) (old : Msg) (buf : Bytes) (src : SockAddr)
    (srclen : Nat) (control : Bool) (tie : UInt64) (compat : Nat) : M (ReplyResult × Agent × Msg) :=
  match getClass req.buf, getMethod req.buf with
  | .ok cls, .ok method =>
    if cls != STUN_REQUEST then .ok (⟨STUN_USAGE_ICE_RETURN_INVALID_REQUEST, 0, control⟩, ag, old)
    else if method != STUN_BINDING then
      match bindError H ag old buf req STUN_ERROR_BAD_REQUEST with
      | .error e => .error e
      | .ok (len, ag', m) => .ok (⟨STUN_USAGE_ICE_RETURN_INVALID_METHOD, len, control⟩, ag', m)
    else
      -- role conflict handling
      match find64 req.agent req.buf
          (attrT (if control then STUN_ATTRIBUTE_ICE_CONTROLLING else STUN_ATTRIBUTE_ICE_CONTROLLED)),
        find64 req.agent req.buf
          (attrT (if control then STUN_ATTRIBUTE_ICE_CONTROLLED else STUN_ATTRIBUTE_ICE_CONTROLLING)) with
      | .ok (r1, q), .ok _ =>
        let decision : Option (Bool × Nat) :=      -- none = answer 487
          if r1 == .success then
            match roleConflict control tie q with
            | some c' => some (c', STUN_USAGE_ICE_RETURN_ROLE_CONFLICT)
            | none => none
          else some (control, STUN_USAGE_ICE_RETURN_SUCCESS)
        match decision with
        | none =>
          match bindError H ag old buf req STUN_ERROR_ROLE_CONFLICT with
          | .error e => .error e
          | .ok (len, ag', m) => .ok (⟨STUN_USAGE_ICE_RETURN_ROLE_CONFLICT, len, control⟩, ag', m)
        | some (control', ret) =>
          match initResponse ag old buf req with
          | .error e => .error e
          | .ok (false, m) => replyFailure ag control' .noSpace m
          | .ok (true, m) => replyBody H ag req m src srclen compat control' ret
      | .error e, _ => .error e
      | _, .error e => .error e
  | .error e, _ => .error e
  | _, .error e => .error e

/-- `stun_usage_bind_create` -/
def bindCreate (H : Hashes) (ag : Agent) (buf : Bytes) (id : Bytes) : M (Nat × Agent × Msg) :=
  match initRequest ag buf STUN_BINDING id with
  | .error e => .error e
  | .ok (false, msg) => .ok (0, ag, msg)
  | .ok (true, msg) => finishMessage H ag msg none

/-- `stun_usage_bind_keepalive` -/
def bindKeepalive (H : Hashes) (ag : Agent) (buf : Bytes) (id : Bytes) : M (Nat × Agent × Msg) :=
  match initIndication ag buf STUN_BINDING id with
  | .error e => .error e
  | .ok (false, msg) => .ok (0, ag, msg)
  | .ok (true, msg) => finishMessage H ag msg none

/-- `stun_usage_bind_process (msg, addr, &addrlen, alternate_server, &alternate_server_len)`;
    `altLen = none` : NULL alternate-server pointers.
    Result: (return, mapped address, *addrlen, alternate server, *alternate_server_len) -/
def bindProcess (msg : Msg) (addrlen : Nat) (altLen : Option Nat) :
    M (Nat × Option SockAddr × Nat × Option SockAddr × Option Nat) :=
  let a := msg.agent
  match getMethod msg.buf, getClass msg.buf with
  | .ok method, .ok cls =>
    if method != STUN_BINDING then .ok (BIND_RETURN_INVALID, none, addrlen, none, altLen)
    else if cls == STUN_REQUEST || cls == STUN_INDICATION then .ok (BIND_RETURN_INVALID, none, addrlen, none, altLen)
    else if cls == STUN_ERROR then
      match findError a msg.buf with
      | .error e => .error e
      | .ok (.success, code) =>
        if code / 100 == 3 then
          match altLen with
          | some al =>
            match findAddr a msg.buf (attrT STUN_ATTRIBUTE_ALTERNATE_SERVER) al with
            | .error e => .error e
            | .ok (.success, ad, al') => .ok (BIND_RETURN_ALTERNATE_SERVER, none, addrlen, ad, some al')
            | .ok (_, _, al') => .ok (BIND_RETURN_ERROR, none, addrlen, none, some al')
          | none =>
            match hasAttribute a msg.buf (attrT STUN_ATTRIBUTE_ALTERNATE_SERVER) with
            | .error e => .error e
            | .ok true => .ok (BIND_RETURN_ALTERNATE_SERVER, none, addrlen, none, none)
            | .ok false => .ok (BIND_RETURN_ERROR, none, addrlen, none, none)
        else .ok (BIND_RETURN_ERROR, none, addrlen, none, altLen)
      | .ok _ => .ok (BIND_RETURN_INVALID, none, addrlen, none, altLen)
    else
      match findXorAddr a msg.buf (attrT STUN_ATTRIBUTE_XOR_MAPPED_ADDRESS) addrlen with
      | .error e => .error e
      | .ok (.success, ad, al) => .ok (BIND_RETURN_SUCCESS, ad, al, none, altLen)
      | .ok (_, _, al) =>
        match findAddr a msg.buf (attrT STUN_ATTRIBUTE_MAPPED_ADDRESS) al with
        | .error e => .error e
        | .ok (.success, ad, al) => .ok (BIND_RETURN_SUCCESS, ad, al, none, altLen)
        | .ok (_, _, al) => .ok (BIND_RETURN_ERROR, none, al, none, altLen)
  | .error e, _ => .error e
  | _, .error e => .error e

end Nice.Stun

/-! ### TURN usage (stun/usages/turn.c) -/

namespace Nice.Stun
open Nice.Gen


def isTurnStd (compat : Nat) : Bool :=
  compat == STUN_USAGE_TURN_COMPATIBILITY_DRAFT9 || compat == STUN_USAGE_TURN_COMPATIBILITY_RFC5766

/-- copy an attribute of `previous_response` (if present) into the message -/
def copyPrevAttr (ag : Agent) (msg : Msg) (prev : Msg) (type : UInt16) (k : Msg → BuildR) : BuildR :=
  match find prev.agent prev.buf type with
  | .error e => .error e
  | .ok none => k msg
  | .ok (some (off, len)) =>
    match rdBytes prev.buf off len.toNat with
    | .error e => .error e
    | .ok v => tryApp ag msg (appendBytes (some ag.cfg) msg.buf type v) k

/-- the USERNAME rule shared by allocate and refresh -/
def turnUsername (ag : Agent) (msg : Msg) (hasPrev : Bool) (username : Option Bytes) (k : Msg → BuildR) : BuildR :=
  match username with
  | some u =>
    if u.size > 0 && (ag.cfg.has STUN_AGENT_USAGE_SHORT_TERM_CREDENTIALS || hasPrev) then
      tryApp ag msg (appendBytes (some ag.cfg) msg.buf tUSERNAME u) k
    else k msg
  | none => k msg

/-- `stun_usage_turn_create` -/
def turnCreate (H : Hashes) (ag : Agent) (buf id : Bytes) (prev : Option Msg) (requestProps : Nat)
    (bandwidth lifetime : Int) (username password : Option Bytes) (compat : Nat) : BuildR :=
  match initRequest ag buf STUN_ALLOCATE id with
  | .error e => .error e
  | .ok (false, msg) => .ok (0, ag, msg)
  | .ok (true, msg) =>
    let a := some ag.cfg
    let s1 (k : Msg → BuildR) : BuildR :=
      if isTurnStd compat then
        tryApp ag msg (append32 a msg.buf (attrT STUN_ATTRIBUTE_REQUESTED_TRANSPORT) (UInt32.ofNat TURN_REQUESTED_TRANSPORT_UDP))
          fun m => if bandwidth >= 0 then
              tryApp ag m (append32 a m.buf (attrT STUN_ATTRIBUTE_BANDWIDTH) (UInt32.ofNat bandwidth.toNat)) k
            else k m
      else tryApp ag msg (append32 a msg.buf (attrT STUN_ATTRIBUTE_MAGIC_COOKIE) (UInt32.ofNat TURN_MAGIC_COOKIE)) k
    s1 fun m =>
    let s2 (k : Msg → BuildR) : BuildR :=
      if compat == STUN_USAGE_TURN_COMPATIBILITY_OC2007 then
        tryApp ag m (append32 a m.buf (attrT STUN_ATTRIBUTE_MS_VERSION) 1) k
      else k m
    s2 fun m =>
    let s3 (k : Msg → BuildR) : BuildR :=
      if lifetime >= 0 then tryApp ag m (append32 a m.buf (attrT STUN_ATTRIBUTE_LIFETIME) (UInt32.ofNat lifetime.toNat)) k
      else k m
    s3 fun m =>
    let s4 (k : Msg → BuildR) : BuildR :=
      if isTurnStd compat && requestProps != STUN_USAGE_TURN_REQUEST_PORT_NORMAL then
        let req : Nat :=
          if requestProps &&& STUN_USAGE_TURN_REQUEST_PORT_EVEN_AND_RESERVE != 0 then REQUESTED_PROPS_R ||| REQUESTED_PROPS_E
          else if requestProps &&& STUN_USAGE_TURN_REQUEST_PORT_EVEN != 0 then REQUESTED_PROPS_E else 0
        tryApp ag m (append32 a m.buf (attrT STUN_ATTRIBUTE_REQUESTED_PORT_PROPS) (UInt32.ofNat req)) k
      else k m
    s4 fun m =>
    let s5 (k : Msg → BuildR) : BuildR :=
      match prev with
      | some p =>
        copyPrevAttr ag m p tREALM fun m =>
        copyPrevAttr ag m p tNONCE fun m =>
        match find64 p.agent p.buf (attrT STUN_ATTRIBUTE_RESERVATION_TOKEN) with
        | .error e => .error e
        | .ok (.success, tok) => tryApp ag m (append64 a m.buf (attrT STUN_ATTRIBUTE_RESERVATION_TOKEN) tok) k
        | .ok _ => k m
      | none => k m
    s5 fun m =>
    turnUsername ag m prev.isSome username fun m => finishMessage H ag m password

/-- `stun_usage_turn_create_refresh` -/
def turnCreateRefresh (H : Hashes) (ag : Agent) (buf id : Bytes) (prev : Option Msg) (lifetime : Int)
    (username password : Option Bytes) (compat : Nat) : BuildR :=
  if !isTurnStd compat then
    turnCreate H ag buf id prev STUN_USAGE_TURN_REQUEST_PORT_NORMAL 0 lifetime username password compat
  else
  match initRequest ag buf STUN_REFRESH id with
  | .error e => .error e
  | .ok (false, msg) => .ok (0, ag, msg)
  | .ok (true, msg) =>
    let a := some ag.cfg
    let s1 (k : Msg → BuildR) : BuildR :=
      if lifetime >= 0 then tryApp ag msg (append32 a msg.buf (attrT STUN_ATTRIBUTE_LIFETIME) (UInt32.ofNat lifetime.toNat)) k
      else k msg
    s1 fun m =>
    let s2 (k : Msg → BuildR) : BuildR :=
      match prev with
      | some p => copyPrevAttr ag m p tREALM fun m => copyPrevAttr ag m p tNONCE k
      | none => k m
    s2 fun m =>
    turnUsername ag m prev.isSome username fun m => finishMessage H ag m password

/-- `stun_usage_turn_create_permission` (`peer = none` : NULL, returns 0 without touching `msg`) -/
def turnCreatePermission (H : Hashes) (ag : Agent) (old : Msg) (buf id : Bytes)
    (username password realm nonce : Option Bytes) (peer : Option SockAddr) (compat : Nat) : BuildR :=
  let _ := compat
  match peer with
  | none => .ok (0, ag, old)
  | some peer =>
  match initRequest ag buf STUN_CREATEPERMISSION id with
  | .error e => .error e
  | .ok (false, msg) => .ok (0, ag, msg)
  | .ok (true, msg) =>
    let a := some ag.cfg
    tryApp ag msg (appendXorAddr a msg.buf (attrT STUN_ATTRIBUTE_XOR_PEER_ADDRESS) peer sizeofStorage) fun m =>
    let s1 (k : Msg → BuildR) : BuildR :=
      match nonce with
      | some n => tryApp ag m (appendBytes a m.buf tNONCE n) k
      | none => k m
    s1 fun m =>
    let s2 (k : Msg → BuildR) : BuildR :=
      match realm with
      | some r => tryApp ag m (appendBytes a m.buf tREALM r) k
      | none => k m
    s2 fun m =>
    let s3 (k : Msg → BuildR) : BuildR :=
      match username with
      | some u =>
        if ag.cfg.has STUN_AGENT_USAGE_SHORT_TERM_CREDENTIALS || (nonce.isSome && realm.isSome) then
          tryApp ag m (appendBytes a m.buf tUSERNAME u) k
        else k m
      | none => k m
    s3 fun m => finishMessage H ag m password

/-- out-parameters of `stun_usage_turn_process` as far as they were written -/
structure TurnOut where
  ret : Nat
  relay : Option SockAddr := none
  relayLen : Nat
  addr : Option SockAddr := none
  addrLen : Nat
  alt : Option SockAddr := none
  altLen : Option Nat
  bandwidth : Option UInt32 := none
  lifetime : Option UInt32 := none
  deriving Repr, Inhabited

/-- `stun_usage_turn_process` -/
def turnProcess (msg : Msg) (relayLen addrLen : Nat) (altLen : Option Nat) (compat : Nat) : M TurnOut :=
  let a := msg.agent
  let o0 : TurnOut := { ret := STUN_USAGE_TURN_RETURN_RELAY_SUCCESS, relayLen := relayLen, addrLen := addrLen, altLen := altLen }
  match getMethod msg.buf, getClass msg.buf with
  | .ok method, .ok cls =>
    if method != STUN_ALLOCATE then .ok { o0 with ret := STUN_USAGE_TURN_RETURN_INVALID }
    else if cls == STUN_REQUEST || cls == STUN_INDICATION then .ok { o0 with ret := STUN_USAGE_TURN_RETURN_INVALID }
    else if cls == STUN_ERROR then
      match findError a msg.buf with
      | .error e => .error e
      | .ok (.success, code) =>
        -- MS alternate server (result only logged)
        let o1R : M TurnOut :=
          match altLen with
          | some al =>
            if compat == STUN_USAGE_TURN_COMPATIBILITY_OC2007 then
              match findAddr a msg.buf (attrT STUN_ATTRIBUTE_MS_ALTERNATE_SERVER) al with
              | .error e => .error e
              | .ok (_, ad, al') => .ok { o0 with alt := ad, altLen := some al' }
            else .ok o0
          | none => .ok o0
        match o1R with
        | .error e => .error e
        | .ok o1 =>
          if code / 100 == 3 then
            match o1.altLen with
            | some al =>
              match findAddr a msg.buf (attrT STUN_ATTRIBUTE_ALTERNATE_SERVER) al with
              | .error e => .error e
              | .ok (.success, ad, al') =>
                .ok { o1 with alt := ad, altLen := some al', ret := STUN_USAGE_TURN_RETURN_ALTERNATE_SERVER }
              | .ok (_, _, al') => .ok { o1 with altLen := some al', ret := STUN_USAGE_TURN_RETURN_ERROR }
            | none =>
              match hasAttribute a msg.buf (attrT STUN_ATTRIBUTE_ALTERNATE_SERVER) with
              | .error e => .error e
              | .ok true => .ok { o1 with ret := STUN_USAGE_TURN_RETURN_ALTERNATE_SERVER }
              | .ok false => .ok { o1 with ret := STUN_USAGE_TURN_RETURN_ERROR }
          else .ok { o1 with ret := STUN_USAGE_TURN_RETURN_ERROR }
      | .ok _ => .ok { o0 with ret := STUN_USAGE_TURN_RETURN_INVALID }
    else
      -- mapped (reflexive) address, then the relayed address; per dialect
      let mappedR : M (Ret × Option SockAddr × Nat) :=
        if isTurnStd compat then findXorAddr a msg.buf (attrT STUN_ATTRIBUTE_XOR_MAPPED_ADDRESS) addrLen
        else if compat == STUN_USAGE_TURN_COMPATIBILITY_MSN then
          findAddr a msg.buf (attrT STUN_ATTRIBUTE_MSN_MAPPED_ADDRESS) addrLen
        else if compat == STUN_USAGE_TURN_COMPATIBILITY_OC2007 then
          match msnCookie msg.buf with
          | .error e => .error e
          | .ok ck => findXorAddrFull a msg.buf (attrT STUN_ATTRIBUTE_MS_XOR_MAPPED_ADDRESS) addrLen ck
        else .ok (.notFound, none, addrLen)        -- GOOGLE: no mapped address lookup
      match mappedR with
      | .error e => .error e
      | .ok (mr, mad, mal) =>
        let isDialect := isTurnStd compat || compat == STUN_USAGE_TURN_COMPATIBILITY_GOOGLE ||
          compat == STUN_USAGE_TURN_COMPATIBILITY_MSN || compat == STUN_USAGE_TURN_COMPATIBILITY_OC2007
        let r1 := if mr == .success then STUN_USAGE_TURN_RETURN_MAPPED_SUCCESS else STUN_USAGE_TURN_RETURN_RELAY_SUCCESS
        let o1 : TurnOut := { o0 with addr := mad, addrLen := mal, ret := r1 }
        let relayR : M (Ret × Option SockAddr × Nat) :=
          if isTurnStd compat then findXorAddr a msg.buf (attrT STUN_ATTRIBUTE_RELAY_ADDRESS) relayLen
          else if isDialect then findAddr a msg.buf (attrT STUN_ATTRIBUTE_MAPPED_ADDRESS) relayLen
          else .ok (.success, none, relayLen)       -- unknown compatibility value: no lookup at all
        match relayR with
        | .error e => .error e
        | .ok (.success, rad, ral) =>
          match find32 a msg.buf (attrT STUN_ATTRIBUTE_LIFETIME), find32 a msg.buf (attrT STUN_ATTRIBUTE_BANDWIDTH) with
          | .ok (lr, lv), .ok (br, bv) =>
            let o2 : TurnOut := { o1 with relay := rad, relayLen := ral }
            let o3 : TurnOut := { o2 with lifetime := if lr == .success then some lv else none }
            .ok { o3 with bandwidth := if br == .success then some bv else none }
          | .error e, _ => .error e
          | _, .error e => .error e
        | .ok (_, rad, ral) => .ok { o1 with relay := rad, relayLen := ral, ret := STUN_USAGE_TURN_RETURN_ERROR }
  | .error e, _ => .error e
  | _, .error e => .error e

/-- `stun_usage_turn_refresh_process` : (return, lifetime if written) -/
def turnRefreshProcess (msg : Msg) (compat : Nat) : M (Nat × Option UInt32) :=
  let a := msg.agent
  match getMethod msg.buf, getClass msg.buf with
  | .ok method, .ok cls =>
    if method != (if isTurnStd compat then STUN_REFRESH else STUN_ALLOCATE) then .ok (STUN_USAGE_TURN_RETURN_INVALID, none)
    else if cls == STUN_REQUEST || cls == STUN_INDICATION then .ok (STUN_USAGE_TURN_RETURN_INVALID, none)
    else if cls == STUN_ERROR then
      match findError a msg.buf with
      | .error e => .error e
      | .ok (.success, _) => .ok (STUN_USAGE_TURN_RETURN_ERROR, none)
      | .ok _ => .ok (STUN_USAGE_TURN_RETURN_INVALID, none)
    else
      match find32 a msg.buf (attrT STUN_ATTRIBUTE_LIFETIME) with
      | .error e => .error e
      | .ok (.success, v) => .ok (STUN_USAGE_TURN_RETURN_RELAY_SUCCESS, some v)
      | .ok _ => .ok (STUN_USAGE_TURN_RETURN_RELAY_SUCCESS, none)
  | .error e, _ => .error e
  | _, .error e => .error e

end Nice.Stun
