/-
  Scatter/gather copy helpers of agent/agent.c and the ICE-TCP framing split of
  nice_agent_send_messages_nonblocking_internal (messages larger than 0xF800 bytes given as several
  buffers).  Buffers are lists of bytes; a message is a list of buffers.
-/
import Nice.Gen.Consts
namespace Nice.Copy

abbrev Buf := List UInt8

/-- `compact_message (message, buffer_length)`: the loop copies MIN (buffer_length - offset, size)
    bytes of every buffer; the result has `buffer_length` bytes of which the first `offset` are defined
    (we return the defined prefix) -/
def compact : List Buf → Nat → Buf
  | [], _ => []
  | b :: bs, n => let len := min n b.length; b.take len ++ compact bs (n - len)

/-- `memcpy_buffer_to_input_message`: fill the message's buffers (given by their sizes) in order with
    `data`; returns the buffers' new contents (only the written prefix of each) and message->length -/
def scatter : List Nat → Buf → List Buf × Nat
  | [], _ => ([], 0)
  | sz :: szs, data =>
    if data.isEmpty then ([], 0)          -- loop condition `buffer_length > 0`
    else
      let len := min sz data.length
      let (rest, n) := scatter szs (data.drop len)
      (data.take len :: rest, len + n)

/-- `output_message_get_size` / `input_message_get_size` -/
def totalSize (m : List Buf) : Nat := (m.map List.length).sum

/-- bytes taken for one frame: skip whole buffers while `size <= offset - current_offset`, start inside
    the first remaining one at `offset_in_buffer`, then MIN (size - offset_in_buffer, packet_len) from
    each following buffer -/
def gather : List Buf → Nat → Nat → Buf
  | [], _, _ => []
  | b :: bs, o, n =>
    if b.length ≤ o then gather bs (o - b.length) n
    else
      let sz := min (b.length - o) n
      (b.drop o).take sz ++ gather bs 0 (n - sz)

def frameLimit : Nat := 0xF800

/-- the `while (message_len > 0)` loop: frames of at most 0xF800 bytes, in order.
    `fuel` bounds the recursion; `splitFrames` supplies enough. -/
def splitLoop (m : List Buf) : Nat → Nat → Nat → List Buf
  | 0, _, _ => []
  | fuel + 1, offset, remaining =>
    if remaining = 0 then []
    else
      let packetLen := min remaining frameLimit
      gather m offset packetLen :: splitLoop m fuel (offset + packetLen) (remaining - packetLen)

def splitFrames (m : List Buf) : List Buf := splitLoop m (totalSize m + 1) 0 (totalSize m)

end Nice.Copy
