/-
  An executable reading of the skeleton language of `Nice.Model.Flow`: `run` resolves every nondeterministic choice of `Exec`
  (outcome of an untracked condition, value stored by a havoc, whether a loop goes round again) from an explicit list of
  choices, and `run_exec` proves that whatever it computes IS an execution in the sense of `Exec`.  Used for the non-vacuity
  examples of the property files (a concrete path through the regenerated skeleton is exhibited by evaluation) — the
  theorems themselves quantify over `Exec`, i.e. over all choices.
-/
import Nice.Model.Flow
namespace Nice.Flow

/-- the value of a condition under the next choices (`orc` consumes one: 0 = false, anything else = true); `none` when the
    choices run out -/
def cevalC : Cond → St → List Nat → Option (Bool × List Nat)
  | .eq r k, s, cs => some (Nat.beq (s.get r) k, cs)
  | .orc _, _, c :: cs => some (c != 0, cs)
  | .orc _, _, [] => none
  | .not c, s, cs => (cevalC c s cs).map fun p => (!p.1, p.2)
  | .and a b, s, cs =>
    match cevalC a s cs with
    | some (true, cs1) => cevalC b s cs1
    | some (false, cs1) => some (false, cs1)
    | none => none
  | .or a b, s, cs =>
    match cevalC a s cs with
    | some (true, cs1) => some (true, cs1)
    | some (false, cs1) => cevalC b s cs1
    | none => none

theorem cevalC_sound : ∀ (c : Cond) (s : St) (cs : List Nat) (b : Bool) (cs' : List Nat),
    cevalC c s cs = some (b, cs') → (if b then canT c s else canF c s) = true := by
  intro c
  induction c with
  | eq r k =>
    intro s cs b cs' h
    simp only [cevalC, Option.some.injEq, Prod.mk.injEq] at h
    obtain ⟨hb, _⟩ := h
    subst hb
    cases hh : Nat.beq (s.get r) k <;> simp [canT, canT.canF, hh]
  | orc site =>
    intro s cs b cs' h
    cases b <;> simp [canT, canT.canF]
  | not c ih =>
    intro s cs b cs' h
    simp only [cevalC, Option.map_eq_some_iff] at h
    obtain ⟨⟨b1, cs1⟩, h1, h2⟩ := h
    have := ih s cs b1 cs1 h1
    simp only [Prod.mk.injEq] at h2
    obtain ⟨hb, _⟩ := h2
    subst hb
    cases b1 <;> simpa [canT, canT.canF] using this
  | and a b iha ihb =>
    intro s cs v cs' h
    simp only [cevalC] at h
    cases ha : cevalC a s cs with
    | none => rw [ha] at h; cases h
    | some p =>
      obtain ⟨va, cs1⟩ := p
      rw [ha] at h
      have h1 := iha s cs va cs1 ha
      cases va with
      | true =>
        simp only at h
        have h2 := ihb s cs1 v cs' h
        simp only [if_true] at h1
        cases v
        · simp only [Bool.false_eq_true, if_false] at h2 ⊢
          simp [canT.canF, h1, h2]
        · simp only [if_true] at h2 ⊢
          simp [canT, h1, h2]
      | false =>
        simp only [Option.some.injEq, Prod.mk.injEq] at h
        obtain ⟨hv, _⟩ := h
        subst hv
        simp only [Bool.false_eq_true, if_false] at h1 ⊢
        simp [canT.canF, h1]
  | or a b iha ihb =>
    intro s cs v cs' h
    simp only [cevalC] at h
    cases ha : cevalC a s cs with
    | none => rw [ha] at h; cases h
    | some p =>
      obtain ⟨va, cs1⟩ := p
      rw [ha] at h
      have h1 := iha s cs va cs1 ha
      cases va with
      | true =>
        simp only [Option.some.injEq, Prod.mk.injEq] at h
        obtain ⟨hv, _⟩ := h
        subst hv
        simp only [if_true] at h1 ⊢
        simp [canT, h1]
      | false =>
        simp only at h
        have h2 := ihb s cs1 v cs' h
        simp only [Bool.false_eq_true, if_false] at h1
        cases v
        · simp only [Bool.false_eq_true, if_false] at h2 ⊢
          simp [canT.canF, h1, h2]
        · simp only [if_true] at h2 ⊢
          simp [canT, h1, h2]

structure RunRes where
  tr : List Ev
  st : St
  out : Out
  rest : List Nat

/-- run `p` from `s`; every statement visited costs one unit of `fuel` (so the recursion is structural and the kernel
    can evaluate it) -/
def run (H : Havoc) : Nat → Stmt → St → List Nat → Option RunRes
  | 0, _, _, _ => none
  | _ + 1, .skip, s, cs => some ⟨[], s, .norm, cs⟩
  | f + 1, .seq a b, s, cs =>
    match run H f a s cs with
    | some ⟨t1, s1, .norm, cs1⟩ =>
      (match run H f b s1 cs1 with
       | some ⟨t2, s2, o, cs2⟩ => some ⟨t1 ++ t2, s2, o, cs2⟩
       | none => none)
    | r => r
  | f + 1, .ite c t e, s, cs =>
    match cevalC c s cs with
    | some (true, cs1) => run H f t s cs1
    | some (false, cs1) => run H f e s cs1
    | none => none
  | _ + 1, .set r k, s, cs => some ⟨[], s.set r k, .norm, cs⟩
  | _ + 1, .havoc r site, s, c :: cs =>
    match (H site s)[c]? with
    | some v => some ⟨[], s.set r v, .norm, cs⟩
    | none => none
  | _ + 1, .havoc _ _, _, [] => none
  | _ + 1, .ev site kind, s, cs => some ⟨[⟨site, kind, s⟩], s, .norm, cs⟩
  | _ + 1, .ret v, s, cs => some ⟨[], s, .ret v, cs⟩
  | _ + 1, .brk, s, cs => some ⟨[], s, .brk, cs⟩
  | _ + 1, .cont, s, cs => some ⟨[], s, .cont, cs⟩
  | _ + 1, .abort, s, cs => some ⟨[], s, .abort, cs⟩
  | _ + 1, .jmp, s, cs => some ⟨[], s, .jmp, cs⟩
  | f + 1, .block b, s, cs =>
    match run H f b s cs with
    | some ⟨t, s1, .jmp, cs1⟩ => some ⟨t, s1, .norm, cs1⟩
    | r => r
  | f + 1, .loop b, s, c :: cs =>
    if c == 0 then some ⟨[], s, .norm, cs⟩ else
    match run H f b s cs with
    | some ⟨t1, s1, .norm, cs1⟩ | some ⟨t1, s1, .cont, cs1⟩ =>
      (match run H f (.loop b) s1 cs1 with
       | some ⟨t2, s2, o, cs2⟩ => some ⟨t1 ++ t2, s2, o, cs2⟩
       | none => none)
    | some ⟨t1, s1, .brk, cs1⟩ => some ⟨t1, s1, .norm, cs1⟩
    | r => r
  | _ + 1, .loop _, _, [] => none

end Nice.Flow

namespace Nice.Flow

theorem run_exec (H : Havoc) : ∀ (f : Nat) (p : Stmt) (s : St) (cs : List Nat) (r : RunRes),
    run H f p s cs = some r → Exec H p s r.tr r.st r.out := by
  intro f p s cs
  fun_induction run H f p s cs <;> intro r h
  all_goals try (simp only [Option.some.injEq] at h; subst h)
  all_goals try (first | exact Exec.skip _ | exact Exec.set _ _ _ | exact Exec.ev _ _ _ | exact Exec.ret _ _ | exact Exec.brk _
                       | exact Exec.cont _ | exact Exec.abort _ | exact Exec.jmp _ | exact Exec.loopExit _ _)
  all_goals try (cases h; done)
  case case3 x1 _ _ _ _ x2 ih2 ih1 => exact Exec.seqN (ih2 _ x1) (ih1 _ x2)
  case case5 hno ih1 =>
    refine Exec.seqX (ih1 r h) ?_
    intro ho
    obtain ⟨t, s1, o', cs1⟩ := r
    simp only at ho
    subst ho
    exact hno t s1 cs1 h
  case case6 x ih1 => exact Exec.iteT (by simpa using cevalC_sound _ _ _ _ _ x) (ih1 r h)
  case case7 x ih1 => exact Exec.iteF (by simpa using cevalC_sound _ _ _ _ _ x) (ih1 r h)
  case case10 x => exact Exec.havoc (List.mem_of_getElem? x)
  case case19 x ih1 => exact Exec.blockJ (ih1 _ x)
  case case20 hno ih1 =>
    refine Exec.blockN (ih1 r h) ?_
    intro ho
    obtain ⟨t, s1, o', cs1⟩ := r
    simp only at ho
    subst ho
    exact hno t s1 cs1 h
  case case22 _ _ _ _ x1 _ _ _ _ x2 ih2 ih1 => exact Exec.loopIter (ih2 _ x1) (Or.inl rfl) (ih1 _ x2)
  case case24 _ _ _ _ x1 _ _ _ _ x2 ih2 ih1 => exact Exec.loopIter (ih2 _ x1) (Or.inr rfl) (ih1 _ x2)
  case case26 _ _ _ _ x ih1 => exact Exec.loopBrk (ih1 _ x)
  case case27 _ hn hc hb ih1 =>
    refine Exec.loopOut (ih1 r h) ⟨?_, ?_, ?_⟩
    · intro ho
      obtain ⟨t, s1, o', cs1⟩ := r
      simp only at ho
      subst ho
      exact hn t s1 cs1 h
    · intro ho
      obtain ⟨t, s1, o', cs1⟩ := r
      simp only at ho
      subst ho
      exact hc t s1 cs1 h
    · intro ho
      obtain ⟨t, s1, o', cs1⟩ := r
      simp only at ho
      subst ho
      exact hb t s1 cs1 h

end Nice.Flow

namespace Nice.Flow
/-! a small fixed program: validate, gate, effect — the run with choices [0] (validation returns the first allowed value) is an
    execution, and it emits the effect in a state whose register 0 is that value -/
def demo : Stmt := .seq (.havoc 0 1) (.seq (.ite (.not (.eq 0 7)) (.ret 0) .skip) (.ev 9 0))
example : (run (fun _ _ => [7, 3]) 8 demo {} [0]).map (fun r => (r.tr.map (·.st.r0), r.out)) = some ([7], .norm) := by decide
example : ∃ tr σ o, Exec (fun _ _ => [7, 3]) demo {} tr σ o ∧ tr.length = 1 :=
  ⟨_, _, _, run_exec _ 8 demo {} [0] _ rfl, rfl⟩
end Nice.Flow
