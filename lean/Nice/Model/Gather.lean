/-
  Candidate gathering kernels (agent/discovery.c priv_discovery_tick_unlocked, agent/conncheck.c
  priv_map_reply_to_discovery_request / priv_map_reply_to_relay_request, agent/agent.c
  agent_gathering_done), abstracted per discovery item:

  a discovery item runs *rounds*; in each round it sends one request (retransmitted per the STUN
  timer of C19) and the server's behaviour for that round is one of `Beh`.  `silent`, `success` and
  `hardError` finish the item; `reauth` (401 with a new realm / 438 stale nonce) and `alternate`
  (300) make the code clear `pending` and schedule a NEW request: another round.
-/
import Nice.Model.Timer
namespace Nice.Gather

inductive Beh where
  | silent                     -- no transaction-matched answer: timer runs to TIMEOUT
  | success (addr : Nat)       -- matched success carrying an address
  | hardError                  -- matched error other than re-authentication / redirect
  | reauth                     -- 401 (realm differs from the one sent) or 438: retry with new credentials
  | alternate                  -- 300 Try Alternate: retry at the other server
  | foreign                    -- answer to another transaction id / garbage: ignored
  deriving DecidableEq, Repr

structure Item where
  done   : Bool := false
  rounds : Nat := 0            -- requests started so far
  deriving DecidableEq, Repr

structure St where
  item  : Item := {}
  cands : List Nat := []       -- addresses of the local candidates created from answers
  deriving Repr

/-- one round of one item -/
def round (s : St) (b : Beh) : St :=
  if s.item.done then s else
  let it := { s.item with rounds := s.item.rounds + 1 }
  match b with
  | .silent | .foreign => { s with item := { it with done := true } }   -- foreign answers do not stop the timer
  | .hardError => { s with item := { it with done := true } }
  | .success a =>
    { item := { it with done := true },
      cands := if s.cands.contains a then s.cands else s.cands ++ [a] }  -- redundancy elimination
  | .reauth | .alternate => { s with item := it }                        -- pending := FALSE, rescheduled

def run (s : St) (bs : List Beh) : St := bs.foldl round s

/-- per-stream `gathering` flag of agent_gathering_done: the signal is emitted only for streams
    whose flag is set, and the flag is cleared -/
def gatheringDone (flags : List Bool) : List Bool × List Nat :=
  (flags.map fun _ => false, (flags.zipIdx.filter (·.1)).map (·.2))

end Nice.Gather
