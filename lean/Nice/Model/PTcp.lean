/-
  Model of agent/pseudotcp.c (pseudo-TCP socket): an executable, total, line-by-line mirror.

  Conventions
  * `R α = Except Fault α`.  Every `g_assert` / `g_assert_not_reached` is `Fault.assert`, C undefined
    behaviour (shift ≥ width, signed-shift overflow, `% 0`, `/ 0`) is `Fault.ub`, every memory
    access outside a buffer (fifo ring, packet bytes, PACKET_MAXIMUMS, NULL segment) is `Fault.oob`,
    a C loop that does not terminate is `Fault.loop` (fuel exhausted).
  * The socket is threaded explicitly (`Sock → … → R (result × Sock)`).  Callbacks and `WritePacket`
    calls are appended to `Sock.out` in call order; the value `WritePacket` returns is the input
    field `Sock.wres`.
  * `guint32`/`guint8`/`guint16` fields are `UInt32`/`UInt8`/`UInt16` (wrap-around).  `gsize` values of
    the fifo are `Nat`; a `gsize` subtraction is `gsub` (wraps modulo 2^64 like the C).
  * Time: `get_current_time` = `current_time` if non-zero, else the monotonic clock in ms (`clk`
    argument of every operation).
  * `slist` / `unsent_slist`: the C keeps two queues of pointers to the same `SSegment`s; every
    insertion into `unsent_slist` is made next to the same neighbour as in `slist`, so
    `unsent_slist` is the subsequence of `slist` marked `unsent = true` (cases where the C would
    break that — inserting after a segment that is not in the queue, freeing a segment that is still
    queued — are faults).
  * The fifo buffer comes from `g_slice_alloc` (uninitialised in C); the harness zero-fills it, the
    model starts with zeros.
-/
import Nice.Gen.Consts
import Nice.Gen.Tables
import Nice.Gen.Kernels

namespace Nice.PTcp
open Nice.Gen

inductive Fault where
  | assert (site : String)
  | ub (site : String)
  | oob (site : String)
  | loop (site : String)
  deriving Repr, DecidableEq

abbrev R := Except Fault

/-- a fault value (`throw`) -/
def fault {α : Type} (f : Fault) : R α := .error f

/-! ### constants (all from Nice.Gen, i.e. regenerated from the source) -/
def cHEADER_SIZE : UInt32 := UInt32.ofNat HEADER_SIZE
def cMAX_PACKET : UInt32 := UInt32.ofNat MAX_PACKET
def cPACKET_OVERHEAD : UInt32 := UInt32.ofNat PACKET_OVERHEAD
def cMIN_RTO : UInt32 := UInt32.ofNat MIN_RTO
def cDEF_RTO : UInt32 := UInt32.ofNat DEF_RTO
def cMAX_RTO : UInt32 := UInt32.ofNat MAX_RTO
def cFLAG_FIN : UInt8 := UInt8.ofNat FLAG_FIN
def cFLAG_CTL : UInt8 := UInt8.ofNat FLAG_CTL
def cFLAG_RST : UInt8 := UInt8.ofNat FLAG_RST
def cFLAG_NONE : UInt8 := UInt8.ofNat FLAG_NONE

inductive TcpState where
  | listen | synSent | synReceived | established | closed | finWait1 | finWait2 | closing
  | timeWait | closeWait | lastAck
  deriving DecidableEq, Repr

def TcpState.toNat : TcpState → Nat
  | .listen => PSEUDO_TCP_LISTEN | .synSent => PSEUDO_TCP_SYN_SENT
  | .synReceived => PSEUDO_TCP_SYN_RECEIVED | .established => PSEUDO_TCP_ESTABLISHED
  | .closed => PSEUDO_TCP_CLOSED | .finWait1 => PSEUDO_TCP_FIN_WAIT_1
  | .finWait2 => PSEUDO_TCP_FIN_WAIT_2 | .closing => PSEUDO_TCP_CLOSING
  | .timeWait => PSEUDO_TCP_TIME_WAIT | .closeWait => PSEUDO_TCP_CLOSE_WAIT
  | .lastAck => PSEUDO_TCP_LAST_ACK

/-- errno values the code uses (`none` = 0) -/
inductive Err where
  | none | EINVAL | EMSGSIZE | ENOTCONN | EWOULDBLOCK | EPIPE | ECONNABORTED | ECONNRESET | ETIMEDOUT
  deriving DecidableEq, Repr

inductive Shutdown where
  | none | graceful | forceful
  deriving DecidableEq, Repr

inductive SendFlags where
  | sfNone | sfDelayedAck | sfImmediateAck | sfFin | sfRst | sfDuplicateAck
  deriving DecidableEq, Repr

inductive WriteResult where
  | success | tooLarge | fail
  deriving DecidableEq, Repr

inductive ShutdownHow where
  | rd | wr | rdwr
  deriving DecidableEq, Repr

inductive Event where
  | packet (bytes : Array UInt8)
  | opened | readable | writable
  | closed (err : Err)
  deriving DecidableEq, Repr

/-! ### PseudoTcpFifo -/

/-- `buffer_length` is `buf.size` -/
structure Fifo where
  buf : Array UInt8
  data : Nat    -- data_length
  rpos : Nat    -- read_position
  deriving DecidableEq, Repr

/-- `gsize` subtraction (wraps modulo 2^64) -/
def gsub (a b : Nat) : Nat := (a + 2 ^ 64 - b % 2 ^ 64) % 2 ^ 64

namespace Fifo

def cap (b : Fifo) : Nat := b.buf.size

def init (size : Nat) : Fifo := { buf := Array.replicate size 0, data := 0, rpos := 0 }

def getBuffered (b : Fifo) : Nat := b.data

def getWriteRemaining (b : Fifo) : Nat := gsub b.cap b.data

/-- copy `n` bytes `src[so..]` to `dst[d0..]` (callers have checked the bounds) -/
def blit (src : Array UInt8) (so : Nat) (dst : Array UInt8) (d0 : Nat) : Nat → Array UInt8
  | 0 => dst
  | n + 1 => blit src (so + 1) (dst.setIfInBounds d0 (src.getD so 0)) (d0 + 1) n

/-- `memcpy (dst + d0, src + s0, n)` with both ranges checked -/
def memcpy (site : String) (dst : Array UInt8) (d0 : Nat) (src : Array UInt8) (s0 n : Nat) :
    R (Array UInt8) :=
  if n = 0 then pure dst
  else if s0 + n ≤ src.size ∧ d0 + n ≤ dst.size then pure (blit src s0 dst d0 n)
  else fault (.oob site)

/-- `pseudo_tcp_fifo_set_capacity` -/
def setCapacity (b : Fifo) (size : Nat) : R (Bool × Fifo) :=
  if b.data > size then pure (false, b)
  else if size != b.data then do
    let copy := b.data
    let tail_copy := min copy (gsub b.cap b.rpos)
    let buffer := Array.replicate size (0 : UInt8)
    let buffer ← memcpy "fifo_set_capacity" buffer 0 b.buf b.rpos tail_copy
    let buffer ← memcpy "fifo_set_capacity" buffer tail_copy b.buf 0 (copy - tail_copy)
    pure (true, { buf := buffer, data := b.data, rpos := 0 })
  else pure (true, b)

/-- `pseudo_tcp_fifo_consume_read_data` -/
def consumeReadData (b : Fifo) (size : Nat) : R Fifo :=
  if ¬ (size ≤ b.data) then fault (.assert "fifo_consume_read_data: size <= data_length")
  else if b.cap = 0 then fault (.ub "fifo_consume_read_data: % 0")
  else pure { b with rpos := (b.rpos + size) % b.cap, data := b.data - size }

/-- `pseudo_tcp_fifo_consume_write_buffer` -/
def consumeWriteBuffer (b : Fifo) (size : Nat) : R Fifo :=
  if ¬ (size ≤ gsub b.cap b.data) then
    fault (.assert "fifo_consume_write_buffer: size <= buffer_length - data_length")
  else pure { b with data := b.data + size }

/-- `pseudo_tcp_fifo_read_offset`: returns the bytes copied to the caller's buffer (their number is
    the C return value); `dstCap` is the room in the caller's buffer -/
def readOffset (b : Fifo) (bytes offset dstCap : Nat) : R (Array UInt8) :=
  if b.cap = 0 then fault (.ub "fifo_read_offset: % 0")
  else
    let available := gsub b.data offset
    let read_position := (b.rpos + offset) % b.cap
    let copy := min bytes available
    let tail_copy := min copy (gsub b.cap read_position)
    if offset ≥ b.data then pure #[]
    else if copy > dstCap then fault (.oob "fifo_read_offset: destination")
    else if read_position + tail_copy ≤ b.cap ∧ copy - tail_copy ≤ b.cap then
      pure (b.buf.extract read_position (read_position + tail_copy) ++ b.buf.extract 0 (copy - tail_copy))
    else fault (.oob "fifo_read_offset")

/-- `pseudo_tcp_fifo_write_offset`: source is `src[srcOff .. srcOff+bytes)` -/
def writeOffset (b : Fifo) (src : Array UInt8) (srcOff bytes offset : Nat) : R (Nat × Fifo) :=
  if b.cap = 0 then fault (.ub "fifo_write_offset: % 0")
  else
    let available := gsub (gsub b.cap b.data) offset
    let write_position := (b.rpos + b.data + offset) % b.cap
    let copy := min bytes available
    let tail_copy := min copy (gsub b.cap write_position)
    if b.data + offset ≥ b.cap then pure (0, b)
    else do
      let buf ← memcpy "fifo_write_offset" b.buf write_position src srcOff tail_copy
      let buf ← memcpy "fifo_write_offset" buf 0 src (srcOff + tail_copy) (copy - tail_copy)
      pure (copy, { b with buf := buf })

/-- `pseudo_tcp_fifo_read` -/
def read (b : Fifo) (bytes : Nat) : R (Array UInt8 × Fifo) := do
  let out ← readOffset b bytes 0 bytes
  let copy := out.size
  pure (out, { b with rpos := (b.rpos + copy) % b.cap, data := gsub b.data copy })

/-- `pseudo_tcp_fifo_write` -/
def write (b : Fifo) (src : Array UInt8) (bytes : Nat) : R (Nat × Fifo) := do
  let (copy, b) ← writeOffset b src 0 bytes 0
  pure (copy, { b with data := b.data + copy })

end Fifo

/-! ### PseudoTcpSocketPrivate -/

structure SSeg where
  seq : UInt32
  len : UInt32
  xmit : UInt8
  flags : UInt8
  unsent : Bool      -- member of `unsent_slist`
  deriving DecidableEq, Repr

structure RSeg where
  seq : UInt32
  len : UInt32
  deriving DecidableEq, Repr

structure Sock where
  shutdown : Shutdown
  shutdown_reads : Bool
  error : Err
  state : TcpState
  conv : UInt32
  bReadEnable : Bool
  bWriteEnable : Bool
  bOutgoing : Bool
  last_traffic : UInt32
  rlist : List RSeg
  rbuf_len : UInt32
  rcv_nxt : UInt32
  rcv_wnd : UInt32
  lastrecv : UInt32
  rwnd_scale : UInt8
  rbuf : Fifo
  rcv_fin : UInt32
  slist : List SSeg
  sbuf_len : UInt32
  snd_nxt : UInt32
  snd_wnd : UInt32
  lastsend : UInt32
  snd_una : UInt32
  swnd_scale : UInt8
  sbuf : Fifo
  mss : UInt32
  msslevel : UInt32
  largest : UInt32
  mtu_advise : UInt32
  rto_base : UInt32
  ts_recent : UInt32
  ts_lastack : UInt32
  rx_rttvar : UInt32
  rx_srtt : UInt32
  rx_rto : UInt32
  ssthresh : UInt32
  cwnd : UInt32
  dup_acks : UInt8
  recover : UInt32
  fast_recovery : Bool
  t_ack : UInt32
  last_acked_ts : UInt32
  use_nagling : Bool
  ack_delay : UInt32
  support_wnd_scale : Bool
  current_time : UInt32
  support_fin_ack : Bool
  /-- value the `WritePacket` callback returns (input of the model) -/
  wres : WriteResult
  /-- callbacks fired and packets written, in call order -/
  out : Array Event
  deriving DecidableEq, Repr

def emit (s : Sock) (e : Event) : Sock := { s with out := s.out.push e }

/-- `if (c) callback (...)` -/
def emitIf (c : Bool) (s : Sock) (e : Event) : Sock := { s with out := if c then s.out.push e else s.out }

/-- `pseudo_tcp_socket_init` (+ `conversation` construct property) -/
def Sock.init (conv : UInt32) : Sock :=
  let mss := UInt32.ofNat MIN_PACKET - cPACKET_OVERHEAD
  { shutdown := .none, shutdown_reads := false, error := .none, state := .listen, conv := conv,
    bReadEnable := true, bWriteEnable := false, bOutgoing := false, last_traffic := 0,
    rlist := [], rbuf_len := UInt32.ofNat DEFAULT_RCV_BUF_SIZE, rcv_nxt := 0,
    rcv_wnd := UInt32.ofNat DEFAULT_RCV_BUF_SIZE, lastrecv := 0, rwnd_scale := 0,
    rbuf := Fifo.init DEFAULT_RCV_BUF_SIZE, rcv_fin := 0, slist := [],
    sbuf_len := UInt32.ofNat DEFAULT_SND_BUF_SIZE, snd_nxt := 0, snd_wnd := 1, lastsend := 0,
    snd_una := 0, swnd_scale := 0, sbuf := Fifo.init DEFAULT_SND_BUF_SIZE, mss := mss, msslevel := 0,
    largest := 0, mtu_advise := UInt32.ofNat DEF_MTU, rto_base := 0, ts_recent := 0, ts_lastack := 0,
    rx_rttvar := 0, rx_srtt := 0, rx_rto := cDEF_RTO, ssthresh := UInt32.ofNat DEFAULT_RCV_BUF_SIZE,
    cwnd := 2 * mss, dup_acks := 0, recover := 0, fast_recovery := false, t_ack := 0,
    last_acked_ts := 0, use_nagling := !(DEFAULT_NO_DELAY != 0), ack_delay := UInt32.ofNat DEFAULT_ACK_DELAY,
    support_wnd_scale := true, current_time := 0, support_fin_ack := true,
    wres := .success, out := #[] }

/-- `now ? now : 1` (0 means "timer not armed") -/
def armed (now : UInt32) : UInt32 := if now != 0 then now else 1

/-- `get_current_time` -/
def getCurrentTime (s : Sock) (clk : UInt32) : UInt32 :=
  if s.current_time != 0 then s.current_time else clk

/-- `pseudo_tcp_socket_set_time` -/
def setTime (s : Sock) (t : UInt32) : Sock := { s with current_time := t }

def hasSentFin : TcpState → Bool
  | .listen | .synSent | .synReceived | .established | .closeWait => false
  | .closed | .finWait1 | .finWait2 | .closing | .timeWait | .lastAck => true

def hasReceivedFin : TcpState → Bool
  | .listen | .synSent | .synReceived | .established | .finWait1 | .finWait2 => false
  | .closed | .closing | .timeWait | .closeWait | .lastAck => true

def hasReceivedFinAck : TcpState → Bool
  | .closed | .timeWait => true
  | _ => false

/-- `set_state`: the whitelist is the table regenerated from the source -/
def setState (s : Sock) (new : TcpState) : R Sock :=
  if new = s.state then pure s
  else if ptcpTransitions.contains (s.state.toNat, new.toNat) then pure { s with state := new }
  else fault (.assert "set_state: invalid transition")

/-- `set_state_closed` -/
def setStateClosed (s : Sock) (err : Err) : R Sock := do
  let s ← setState s .closed
  pure (emitIf (err != .none) s (.closed err))

/-- `PACKET_MAXIMUMS[i]` -/
def pktMax (i : Nat) : R UInt32 :=
  match PACKET_MAXIMUMS[i]? with
  | some v => pure v
  | none => fault (.oob "PACKET_MAXIMUMS")

def adjustMTULevel (mtu : UInt32) : Nat → Nat → R Nat
  | _, 0 => fault (.loop "adjustMTU")
  | lvl, fuel + 1 => do
    let nxt ← pktMax (lvl + 1)
    if nxt > 0 then
      let cur ← pktMax lvl
      if cur ≤ mtu then pure lvl else adjustMTULevel mtu (lvl + 1) fuel
    else pure lvl

/-- `adjustMTU` -/
def adjustMTU (s : Sock) : R Sock := do
  let lvl ← adjustMTULevel s.mtu_advise 0 (PACKET_MAXIMUMS.length + 1)
  let mss := s.mtu_advise - cPACKET_OVERHEAD
  pure { s with msslevel := UInt32.ofNat lvl, mss := mss,
                ssthresh := max s.ssthresh (2 * mss), cwnd := max s.cwnd mss }

/-- `set_state_established` -/
def setStateEstablished (s : Sock) : R Sock := do
  let s ← setState s .established
  let s ← adjustMTU s
  pure (emit s .opened)

/-- `resize_send_buffer` -/
def resizeSendBuffer (s : Sock) (new_size : UInt32) : R Sock := do
  let (_, sb) ← s.sbuf.setCapacity new_size.toNat
  pure { s with sbuf_len := new_size, sbuf := sb }

def scaleLoop : Nat → UInt32 → UInt8 → UInt32 × UInt8
  | 0, n, sc => (n, sc)
  | fuel + 1, n, sc => if n > 0xFFFF then scaleLoop fuel (n >>> 1) (sc + 1) else (n, sc)

/-- `resize_receive_buffer` -/
def resizeReceiveBuffer (s : Sock) (new_size : UInt32) : R Sock :=
  if s.rbuf_len == new_size then pure s
  else do
    let (n, scale_factor) := scaleLoop 33 new_size 0
    if scale_factor ≥ 32 then fault (.ub "resize_receive_buffer: shift")
    let new_size := n <<< scale_factor.toUInt32
    let (result, rb) ← s.rbuf.setCapacity new_size.toNat
    -- keep the current buffer if the unread data does not fit
    if !result then pure s else
    pure { s with rbuf := rb, rbuf_len := new_size, rwnd_scale := scale_factor, ssthresh := new_size,
                  rcv_wnd := UInt32.ofNat rb.getWriteRemaining }

/-- `first` element of `unsent_slist`, as an index into `slist` -/
def firstUnsent (l : List SSeg) : Option Nat := l.findIdx? (·.unsent)

/-- `queue` -/
def queue (s : Sock) (data : Array UInt8) (len : UInt32) (flags : UInt8) : R (UInt32 × Sock) := do
  let available_space := s.sbuf.getWriteRemaining
  let len ← (if len.toNat > available_space then
      (if flags != cFLAG_NONE then fault (Fault.assert "queue: flags == FLAG_NONE")
       else pure (UInt32.ofNat available_space))
    else pure len : R UInt32)
  let slist :=
    match s.slist.getLast? with
    | some t =>
      if t.flags == flags && t.xmit == 0 then s.slist.dropLast ++ [{ t with len := t.len + len }]
      else s.slist ++ [{ seq := s.snd_una + UInt32.ofNat s.sbuf.getBuffered, len := len, xmit := 0,
                          flags := flags, unsent := true }]
    | none => [{ seq := s.snd_una + UInt32.ofNat s.sbuf.getBuffered, len := len, xmit := 0,
                 flags := flags, unsent := true }]
  let (copy, sb) ← s.sbuf.write data len.toNat
  pure (UInt32.ofNat copy, { s with slist := slist, sbuf := sb })

/-- `queue_connect_message` -/
def queueConnectMessage (s : Sock) : R Sock := do
  let buf : Array UInt8 := #[UInt8.ofNat CTL_CONNECT]
  let buf := if s.support_wnd_scale then buf ++ #[UInt8.ofNat TCP_OPT_WND_SCALE, 1, s.rwnd_scale] else buf
  let buf := if s.support_fin_ack then buf ++ #[UInt8.ofNat TCP_OPT_FIN_ACK, 1, 0] else buf
  let s := { s with snd_wnd := UInt32.ofNat buf.size }
  let (_, s) ← queue s buf (UInt32.ofNat buf.size) cFLAG_CTL
  pure s

/-- `queue_fin_message` -/
def queueFinMessage (s : Sock) : R Sock :=
  if !s.support_fin_ack then fault (.assert "queue_fin_message: support_fin_ack")
  else do let (_, s) ← queue s #[] 0 cFLAG_FIN; pure s

/-- `queue_rst_message` -/
def queueRstMessage (s : Sock) : R Sock :=
  if !s.support_fin_ack then fault (.assert "queue_rst_message: support_fin_ack")
  else do let (_, s) ← queue s #[] 0 cFLAG_RST; pure s

def push32 (a : Array UInt8) (v : UInt32) : Array UInt8 :=
  (((a.push (v >>> 24).toUInt8).push (v >>> 16).toUInt8).push (v >>> 8).toUInt8).push v.toUInt8

def push16 (a : Array UInt8) (v : UInt16) : Array UInt8 :=
  (a.push (v >>> 8).toUInt8).push v.toUInt8

/-- the 24-byte header `packet` writes -/
def buildHeader (s : Sock) (seq : UInt32) (flags : UInt8) (wnd : UInt16) (now : UInt32) : Array UInt8 :=
  let a : Array UInt8 := Array.mkEmpty 32
  let a := push32 a s.conv
  let a := push32 a seq
  let a := push32 a s.rcv_nxt
  let a := (a.push 0).push flags
  let a := push16 a wnd
  let a := push32 a now
  push32 a s.ts_recent

/-- the window as the peer is told: `rcv_wnd >> rwnd_scale` (the header field is its low 16 bits) -/
abbrev advWnd (rcv_wnd : UInt32) (sc : UInt8) : UInt32 := rcv_wnd >>> sc.toUInt32

/-- what `packet` writes into the 16-bit window field -/
abbrev advField (rcv_wnd : UInt32) (sc : UInt8) : UInt16 := (advWnd rcv_wnd sc).toUInt16

/-- `packet` -/
def packet (s : Sock) (seq : UInt32) (flags : UInt8) (offset len now : UInt32) : R (WriteResult × Sock) :=
  if ¬ (cHEADER_SIZE + len ≤ cMAX_PACKET) then fault (.assert "packet: HEADER_SIZE + len <= MAX_PACKET")
  else if s.rwnd_scale ≥ 32 then fault (.ub "packet: rcv_wnd >> rwnd_scale")
  else do
    let wnd : UInt16 := advField s.rcv_wnd s.rwnd_scale
    let hdr := buildHeader s seq flags wnd now
    let s := { s with ts_lastack := s.rcv_nxt }
    let buffer ← (if len != 0 then do
        let bytes ← s.sbuf.readOffset len.toNat offset.toNat (MAX_PACKET - HEADER_SIZE)
        if bytes.size != len.toNat then fault (Fault.assert "packet: bytes_read == len")
        pure (hdr ++ bytes)
      else pure hdr : R (Array UInt8))
    let s := emit s (.packet buffer)
    let wres := s.wres
    if wres != .success && len != 0 then pure (wres, s)
    else
      pure (.success, { s with t_ack := 0, lastsend := if len > 0 then now else s.lastsend,
                               last_traffic := now, bOutgoing := true })

/-- inner `while (TRUE)` of `transmit`: step down the MTU table.
    Returns `(EMSGSIZE?, sock, nTransmit)` -/
def mssDownLoop : Nat → Sock → UInt32 → R (Err × Sock × UInt32)
  | 0, _, _ => fault (.loop "transmit: mss loop")
  | fuel + 1, s, nTransmit => do
    let nxt ← pktMax (s.msslevel.toNat + 1)
    if nxt == 0 then pure (.EMSGSIZE, s, nTransmit)
    else
      let lvl := s.msslevel + 1
      let v ← pktMax lvl.toNat
      let mss := v - cPACKET_OVERHEAD
      let s := { s with msslevel := lvl, mss := mss, cwnd := 2 * mss }
      if mss < nTransmit then pure (.none, s, mss)
      else mssDownLoop fuel s nTransmit

/-- outer `while (TRUE)` of `transmit` for the segment at index `idx` of `slist` -/
def transmitLoop (idx : Nat) (now : UInt32) : Nat → Sock → UInt32 → R (Err × Sock × UInt32)
  | 0, _, _ => fault (.loop "transmit")
  | fuel + 1, s, nTransmit =>
    match s.slist[idx]? with
    | none => fault (.oob "transmit: segment")
    | some seg =>
      if ¬ (seg.seq - s.snd_una ≤ 1024 * 1024 * 64) then
        fault (.assert "transmit: segment->seq - snd_una <= 64M")
      else do
        let (wres, s) ← packet s seg.seq seg.flags (seg.seq - s.snd_una) nTransmit now
        match wres with
        | .success => pure (.none, s, nTransmit)
        | .fail => pure (.ECONNABORTED, s, nTransmit)
        | .tooLarge =>
          let (e, s, nTransmit) ← mssDownLoop (PACKET_MAXIMUMS.length + 1) s nTransmit
          if e != .none then pure (e, s, nTransmit)
          else transmitLoop idx now fuel s nTransmit

def insertAfter (l : List SSeg) (idx : Nat) (x : SSeg) : List SSeg :=
  l.take (idx + 1) ++ x :: l.drop (idx + 1)

/-- `transmit` of the segment at index `idx` of `slist`; returns the C return value (`none` = 0) -/
def transmit (s : Sock) (idx : Nat) (now : UInt32) : R (Err × Sock) :=
  match s.slist[idx]? with
  | none => fault (.oob "transmit: NULL segment")
  | some seg0 =>
    let nTransmit := min seg0.len s.mss
    if seg0.xmit ≥ (if s.state = .established then 15 else 30) then pure (.ETIMEDOUT, s)
    else do
      let (e, s, nTransmit) ← transmitLoop idx now (PACKET_MAXIMUMS.length + 2) s nTransmit
      if e != .none then pure (e, s)
      else
        match s.slist[idx]? with
        | none => fault (.oob "transmit: segment")
        | some seg => do
          -- split
          let (s, seg) ← (if nTransmit < seg.len then
              (if seg.xmit == 0 && !seg.unsent then
                 fault (Fault.assert "transmit: segment with xmit == 0 is not in unsent_slist")
               else
                 let subseg : SSeg := { seq := seg.seq + nTransmit, len := seg.len - nTransmit,
                                        flags := seg.flags, xmit := seg.xmit, unsent := seg.xmit == 0 }
                 let seg := { seg with len := nTransmit }
                 pure ({ s with slist := insertAfter (s.slist.set idx seg) idx subseg }, seg))
            else pure (s, seg) : R (Sock × SSeg))
          let (s, seg) ← (if seg.xmit == 0 then
              (if firstUnsent s.slist != some idx then
                 fault (Fault.assert "transmit: head of unsent_slist == segment")
               else
                 let seg := { seg with unsent := false }
                 let snd_nxt := s.snd_nxt + seg.len
                 -- the FIN occupies one sequence number however many FIN segments get queued
                 let snd_nxt := if seg.len == 0 && (seg.flags &&& cFLAG_FIN) != 0 && snd_nxt == seg.seq
                   then snd_nxt + 1 else snd_nxt
                 pure ({ s with snd_nxt := snd_nxt }, seg))
            else pure (s, seg) : R (Sock × SSeg))
          let seg := { seg with xmit := seg.xmit + 1 }
          let s := { s with slist := s.slist.set idx seg }
          let s := { s with rto_base := if s.rto_base == 0 then armed now else s.rto_base }
          pure (.none, s)

/-- the state navigation + `set_state_closed` at the end of `closedown` -/
def closedownNav (s : Sock) (err : Err) : R Sock := do
  let s ← (match s.state with
    | .listen | .synSent => pure s
    | .synReceived | .established => do
      let s ← setState s .finWait1
      let s ← setState s .finWait2
      setState s .timeWait
    | .finWait1 => do
      let s ← setState s .finWait2
      setState s .timeWait
    | .finWait2 | .closing => setState s .timeWait
    | .closeWait => setState s .lastAck
    | .lastAck | .timeWait | .closed => pure s : R Sock)
  setStateClosed s err

/-- head of the `attempt_send` loop: how many new bytes may be sent now (`nAvailable`), from the congestion window
    (with Limited Transmit), the peer's window, the bytes in flight and silly-window avoidance -/
def nAvailableOf (s : Sock) : UInt32 :=
  let cwnd := if s.dup_acks == 1 || s.dup_acks == 2 then s.cwnd + s.dup_acks.toUInt32 * s.mss else s.cwnd
  let nWindow := min s.snd_wnd cwnd
  let nInFlight := s.snd_nxt - s.snd_una
  let nUseable := if nInFlight < nWindow then nWindow - nInFlight else 0
  let snd_buffered := s.sbuf.getBuffered
  let nAvailable : UInt32 :=
    if snd_buffered < nInFlight.toNat then 0
    else UInt32.ofNat (min (gsub snd_buffered nInFlight.toNat) s.mss.toNat)
  if nAvailable > nUseable then (if nUseable * 4 < nWindow then 0 else nUseable) else nAvailable

def slistFuel (l : List SSeg) : Nat := l.foldl (fun a g => a + g.len.toNat + 1) 8

/-- the `while (TRUE)` loop of `attempt_send` -/
def attemptSendLoop (now : UInt32) : Nat → Sock → SendFlags → R Sock
  | 0, _, _ => fault (.loop "attempt_send")
  | fuel + 1, s, sflags =>
    let nAvailable := nAvailableOf s
    if sflags = .sfDuplicateAck then do
      let (_, s) ← packet s s.snd_nxt 0 0 0 now
      attemptSendLoop now fuel s .sfNone
    else if nAvailable == 0 && sflags != .sfFin && sflags != .sfRst then
      if sflags = .sfNone then pure s
      else if sflags = .sfImmediateAck || sflags = .sfDuplicateAck || s.t_ack != 0 then do
        let (_, s) ← packet s s.snd_nxt 0 0 0 now
        pure s
      else pure { s with t_ack := armed now }
    else if s.use_nagling && sflags != .sfFin && sflags != .sfRst && s.snd_nxt > s.snd_una
            && nAvailable < s.mss then pure s
    else
      match firstUnsent s.slist with
      | none => pure s
      | some idx =>
        match s.slist[idx]? with
        | none => fault (.oob "attempt_send: segment")
        | some sseg => do
          let subseg : SSeg := { seq := sseg.seq + nAvailable, len := sseg.len - nAvailable,
                                 flags := sseg.flags, xmit := 0, unsent := true }
          let slist := if sseg.len > nAvailable && sflags != .sfFin && sflags != .sfRst then
              insertAfter (s.slist.set idx { sseg with len := nAvailable }) idx subseg
            else s.slist
          let s := { s with slist := slist }
          let (st, s) ← transmit s idx now
          if st != .none then
            -- closedown (self, transmit_status, CLOSEDOWN_REMOTE)
            closedownNav s st
          else
            let sflags := if sflags = .sfImmediateAck || sflags = .sfDelayedAck then .sfNone else sflags
            attemptSendLoop now fuel s sflags

/-- `attempt_send` -/
def attemptSend (s : Sock) (sflags : SendFlags) (clk : UInt32) : R Sock :=
  let now := getCurrentTime s clk
  let s := { s with cwnd := if (time_diff now s.lastsend).toInt > (s.rx_rto.toNat : Int) then s.mss else s.cwnd }
  attemptSendLoop now (slistFuel s.slist) s sflags

inductive ClosedownSource where
  | loc | remote
  deriving DecidableEq, Repr

/-- `closedown` -/
def closedown (s : Sock) (err : Err) (source : ClosedownSource) (clk : UInt32) : R Sock := do
  let s ← (if source = .loc && s.support_fin_ack then do
      let s ← queueRstMessage s
      attemptSend s .sfRst clk
    else if source = .loc then pure { s with shutdown := .forceful }
    else pure s : R Sock)
  closedownNav s err

/-! ### option parsing -/

/-- bounds-checked read of caller memory -/
def rd (p : Array UInt8) (i : Nat) : R UInt8 :=
  if h : i < p.size then pure p[i] else fault (.oob "packet byte")

/-- `apply_option`; `data` is `p[off .. off+len)` -/
def applyOption (s : Sock) (kind : UInt8) (p : Array UInt8) (off len : Nat) : R Sock :=
  if kind.toNat = TCP_OPT_MSS then pure s
  else if kind.toNat = TCP_OPT_WND_SCALE then
    if len ≠ 1 then pure s
    else do
      let v ← rd p off
      -- apply_window_scale_option: MIN (scale_factor, 14)
      pure { s with swnd_scale := min v 14 }
  else if kind.toNat = TCP_OPT_FIN_ACK then pure { s with support_fin_ack := true }
  else pure s

/-- the `while (pos < len)` loop of `parse_options` over `p[base .. base+len)`.
    Second component `none` = the function returned from inside the loop (the code after the loop is
    skipped; options applied before that stay applied), `some (hasWs, hasFa)` = loop left normally.
    `pos`, `len` are `guint32` in C; `len ≤ MAX_PACKET` here, so no addition wraps. -/
def parseOptionsLoop (s : Sock) (p : Array UInt8) (base len pos : Nat) (hasWs hasFa : Bool) :
    R (Sock × Option (Bool × Bool)) :=
  if _h : pos < len then
    if len < pos + 1 then pure (s, none)
    else do
      let kind ← rd p (base + pos)
      let pos1 := pos + 1
      if kind.toNat = TCP_OPT_EOL then pure (s, some (hasWs, hasFa))
      else if kind.toNat = TCP_OPT_NOOP then parseOptionsLoop s p base len pos1 hasWs hasFa
      else if len < pos1 + 1 then pure (s, none)
      else do
        let opt_len ← rd p (base + pos1)
        let pos2 := pos1 + 1
        if len < pos2 + opt_len.toNat then pure (s, none)
        else if opt_len.toNat ≤ len - pos2 then do
          let s ← applyOption s kind p (base + pos2) opt_len.toNat
          let pos3 := pos2 + opt_len.toNat
          let hasWs := hasWs || kind.toNat = TCP_OPT_WND_SCALE
          let hasFa := hasFa || (kind.toNat ≠ TCP_OPT_WND_SCALE && kind.toNat = TCP_OPT_FIN_ACK)
          parseOptionsLoop s p base len pos3 hasWs hasFa
        else pure (s, none)
  else pure (s, some (hasWs, hasFa))
termination_by len - pos
decreasing_by all_goals omega

/-- `parse_options` -/
def parseOptions (s : Sock) (p : Array UInt8) (base len : Nat) : R Sock := do
  let (s, r) ← parseOptionsLoop s p base len 0 false false
  match r with
  | none => pure s
  | some (hasWs, hasFa) =>
    let s ← (if !hasWs then
        (if s.rwnd_scale > 0 then do
           let s ← resizeReceiveBuffer s (UInt32.ofNat DEFAULT_RCV_BUF_SIZE)
           pure { s with swnd_scale := 0 }
         else pure s)
      else pure s : R Sock)
    pure { s with support_fin_ack := if !hasFa then false else s.support_fin_ack }

/-! ### process -/

structure Segment where
  conv : UInt32
  seq : UInt32
  ack : UInt32
  flags : UInt8
  wnd : UInt16
  dataOff : Nat     -- `data` pointer, as an offset into the packet
  len : UInt32
  tsval : UInt32
  tsecr : UInt32
  deriving DecidableEq, Repr

def lt? (x : Int32) : Bool := x != 0

/-- RTT estimator update (RFC 6298), C integer types spelled out: `long rtt`, `guint32` fields -/
def updateRtt (s : Sock) (rtt : Int) : Sock :=
  let s :=
    if s.rx_srtt == 0 then
      { s with rx_srtt := UInt32.ofNat rtt.toNat, rx_rttvar := UInt32.ofNat (rtt.toNat / 2) }
    else
      let absd : Nat := (rtt - (s.rx_srtt.toNat : Int)).natAbs
      let rttvar := UInt32.ofNat (((3 * s.rx_rttvar).toNat + absd) / 4)
      let srtt := UInt32.ofNat (((7 * s.rx_srtt).toNat + rtt.toNat) / 8)
      { s with rx_rttvar := rttvar, rx_srtt := srtt }
  { s with rx_rto := bound cMIN_RTO (UInt32.ofNat (s.rx_srtt.toNat + max 1 (4 * s.rx_rttvar).toNat)) cMAX_RTO }

/-- the RTT sample of a valuable ACK: `if (seg->tsecr) { ...; priv->last_acked_ts = seg->tsecr; }` (`rtt >= 0` here) -/
def rttSample (s : Sock) (tsecr : UInt32) (rtt : Int) : R Sock :=
  pure (if tsecr != 0 then { updateRtt s rtt with last_acked_ts := tsecr } else s)

/-- `seg->wnd << priv->swnd_scale` (`int` shift) -/
def shiftWnd (wnd : UInt16) (scale : UInt8) : R UInt32 :=
  if scale.toNat ≥ 32 ∨ wnd.toNat * 2 ^ scale.toNat ≥ 2 ^ 31 then fault (.ub "seg->wnd << swnd_scale")
  else pure (wnd.toUInt32 <<< scale.toUInt32)

/-- the `for (nFree = nAcked; nFree > 0; )` loop: returns the new `slist` and `largest` -/
def ackLoop (largest : UInt32) (nFree : UInt32) : List SSeg → R (List SSeg × UInt32)
  | [] => if nFree > 0 then fault (.assert "process: slist not empty") else pure ([], largest)
  | d :: rest =>
    if nFree > 0 then
      if nFree < d.len then pure ({ d with len := d.len - nFree, seq := d.seq + nFree } :: rest, largest)
      else if d.unsent then fault (.oob "process: freed segment is still in unsent_slist")
      else ackLoop (if d.len > largest then d.len else largest) (nFree - d.len) rest
    else pure (d :: rest, largest)

/-- the rlist recovery loop after an in-order segment -/
def rlistRecover : List RSeg → Fifo → UInt32 → UInt32 → SendFlags → R (List RSeg × Fifo × UInt32 × UInt32 × SendFlags)
  | [], rb, rcv_nxt, rcv_wnd, sf => pure ([], rb, rcv_nxt, rcv_wnd, sf)
  | d :: rest, rb, rcv_nxt, rcv_wnd, sf =>
    if lt? (ptcp_smaller_or_equal d.seq rcv_nxt) then
      if lt? (ptcp_larger (d.seq + d.len) rcv_nxt) then do
        let nAdjust := (d.seq + d.len) - rcv_nxt
        let rb ← rb.consumeWriteBuffer nAdjust.toNat
        rlistRecover rest rb (rcv_nxt + nAdjust) (rcv_wnd - nAdjust) .sfImmediateAck
      else rlistRecover rest rb rcv_nxt rcv_wnd sf
    else pure (d :: rest, rb, rcv_nxt, rcv_wnd, sf)

/-- `g_list_insert_before (rlist, first element not SMALLER than rseg, rseg)` -/
def rlistInsert (r : RSeg) : List RSeg → List RSeg
  | [] => [r]
  | d :: rest => if lt? (ptcp_smaller d.seq r.seq) then d :: rlistInsert r rest else r :: d :: rest

/-- last part of `process`: trimming, data, FIN, ACK generation -/
def processData (s : Sock) (seg : Segment) (p : Array UInt8) (received_fin : Bool) (clk : UInt32) :
    R (Bool × Sock) := do
  -- If we make room in the send queue, notify the user
  let kIdealRefillSize := (s.sbuf_len + s.rbuf_len) / 2
  let snd_buffered := s.sbuf.getBuffered
  let wr := s.bWriteEnable && snd_buffered < kIdealRefillSize.toNat
  let s := emitIf wr { s with bWriteEnable := if wr then false else s.bWriteEnable } .writable
  let sflags : SendFlags :=
    if seg.seq != s.rcv_nxt then .sfDuplicateAck
    else if seg.len != 0 then (if s.ack_delay == 0 then .sfImmediateAck else .sfDelayedAck)
    else if received_fin then .sfImmediateAck
    else .sfNone
  -- Adjust the incoming segment to fit our receive buffer
  let seg :=
    if lt? (ptcp_smaller seg.seq s.rcv_nxt) then
      let nAdjust := s.rcv_nxt - seg.seq
      if nAdjust < seg.len then
        { seg with seq := seg.seq + nAdjust, dataOff := seg.dataOff + nAdjust.toNat, len := seg.len - nAdjust }
      else { seg with len := 0 }
    else seg
  let available_space := s.rbuf.getWriteRemaining
  let seg :=
    if (seg.seq + seg.len - s.rcv_nxt).toNat > available_space then
      let nAdjust := UInt32.ofNat (gsub (seg.seq + seg.len - s.rcv_nxt).toNat available_space)
      if nAdjust < seg.len then { seg with len := seg.len - nAdjust } else { seg with len := 0 }
    else seg
  let bIgnoreData := (seg.flags &&& cFLAG_CTL) != 0 || (!s.support_fin_ack && s.shutdown != .none)
  -- until the peer's connect message has been received rcv_nxt is not synchronised: drop overtaking data
  let seg := if (seg.flags &&& cFLAG_CTL) == 0 && (s.state = .listen || s.state = .synSent) then { seg with len := 0 } else seg
  let (s, sflags, bNewData) ← (if seg.len > 0 then
      (if bIgnoreData then
         pure ({ s with rcv_nxt := if seg.seq == s.rcv_nxt then s.rcv_nxt + seg.len else s.rcv_nxt }, sflags, false)
       else do
         let nOffset := seg.seq - s.rcv_nxt
         let (res, rb) ← s.rbuf.writeOffset p seg.dataOff seg.len.toNat nOffset.toNat
         if res != seg.len.toNat then fault (Fault.assert "process: res == seg->len")
         let s := { s with rbuf := rb }
         if seg.seq == s.rcv_nxt then do
           let rb ← s.rbuf.consumeWriteBuffer seg.len.toNat
           let (rl, rb, rcv_nxt, rcv_wnd, sflags) ←
             rlistRecover s.rlist rb (s.rcv_nxt + seg.len) (s.rcv_wnd - seg.len) sflags
           pure ({ s with rbuf := rb, rcv_nxt := rcv_nxt, rcv_wnd := rcv_wnd, rlist := rl }, sflags, true)
         else
           pure ({ s with rlist := rlistInsert { seq := seg.seq, len := seg.len } s.rlist }, sflags, false))
    else pure (s, sflags, false) : R (Sock × SendFlags × Bool))
  let s := { s with rcv_nxt := if received_fin then s.rcv_nxt + 1 else s.rcv_nxt }
  let s ← attemptSend s sflags clk
  let s := emitIf (bNewData && s.bReadEnable) s .readable
  pure (true, s)

/-- FIN / FIN-ACK state machine part of `process` -/
def processFin (s : Sock) (seg : Segment) (p : Array UInt8) (bConnect is_fin_ack : Bool) (clk : UInt32) :
    R (Bool × Sock) := do
  -- !?! A bit hacky
  let s ← (if s.state = .synReceived && !bConnect then setStateEstablished s else pure s : R Sock)
  if s.support_fin_ack then
    let s := { s with rcv_fin := if (seg.flags &&& cFLAG_FIN) != 0 then seg.seq else s.rcv_fin }
    if (seg.flags &&& cFLAG_FIN) != 0 && seg.len != 0 then pure (false, s)
    else
      let received_fin := s.rcv_nxt != 0 && seg.seq == s.rcv_nxt && s.rcv_nxt + seg.len == s.rcv_fin &&
        decide (seg.len.toNat ≤ s.rbuf.getWriteRemaining)
      let s ← (match s.state with
        | .established => if received_fin then setState s .closeWait else pure s
        | .closing => if is_fin_ack then setState s .timeWait else pure s
        | .lastAck => if is_fin_ack then setStateClosed s .none else pure s
        | .finWait1 =>
          if is_fin_ack && received_fin then setState s .timeWait
          else if is_fin_ack then setState s .finWait2
          else if received_fin then setState s .closing
          else pure s
        | .finWait2 => if received_fin then setState s .timeWait else pure s
        | .listen | .synSent | .synReceived | .timeWait | .closed | .closeWait => pure s : R Sock)
      processData s seg p received_fin clk
  else processData s seg p false clk

/-- ACK processing part of `process` -/
def processAck (s : Sock) (seg : Segment) (p : Array UInt8) (bConnect : Bool) (now clk : UInt32) :
    R (Bool × Sock) := do
  -- Update timestamp
  let ts_recent := if lt? (ptcp_smaller_or_equal seg.seq s.ts_lastack) &&
              lt? (ptcp_smaller s.ts_lastack (seg.seq + seg.len)) then seg.tsval else s.ts_recent
  let s := { s with ts_recent := ts_recent }
  -- FIN segments must not contain data: ignored entirely, before the acknowledgement number has any effect
  if s.support_fin_ack && (seg.flags &&& cFLAG_FIN) != 0 && seg.len != 0 then pure (false, s) else
  let is_valuable_ack := lt? (ptcp_larger seg.ack s.snd_una) && lt? (ptcp_smaller_or_equal seg.ack s.snd_nxt)
  let is_duplicate_ack := seg.ack == s.snd_una
  if is_valuable_ack then
    -- Calculate round-trip time
    let rtt : Int := (time_diff now seg.tsecr).toInt
    if seg.tsecr != 0 && rtt < 0 then pure (false, s)
    else do
      let s ← rttSample s seg.tsecr rtt
      let wnd ← shiftWnd seg.wnd s.swnd_scale
      let s := { s with snd_wnd := wnd }
      let nAcked := seg.ack - s.snd_una
      let s := { s with snd_una := seg.ack }
      let s := { s with rto_base := if s.snd_una == s.snd_nxt then 0 else armed now }
      let (is_fin_ack, nAcked) :=
        if nAcked.toNat == s.sbuf.data + 1 && hasSentFin s.state then (true, nAcked - 1) else (false, nAcked)
      let sb ← s.sbuf.consumeReadData nAcked.toNat
      let s := { s with sbuf := sb }
      let (sl, largest) ← ackLoop s.largest nAcked s.slist
      let s := { s with slist := sl, largest := largest }
      if s.dup_acks ≥ 3 then
        if lt? (ptcp_larger_or_equal s.snd_una s.recover) then
          let nInFlight := s.snd_nxt - s.snd_una
          let s := { s with cwnd := min s.ssthresh (max nInFlight s.mss + s.mss), fast_recovery := false,
                            dup_acks := 0 }
          processFin s seg p bConnect is_fin_ack clk
        else do
          let (st, s) ← transmit s 0 now
          if st != .none then do
            let s ← closedown s st .loc clk
            pure (false, s)
          else
            let s := { s with cwnd := s.cwnd + ((if nAcked > s.mss then s.mss else 0) - min nAcked s.cwnd) }
            processFin s seg p bConnect is_fin_ack clk
      else
        let s : Sock := { s with dup_acks := 0 }
        if s.cwnd < s.ssthresh then
          processFin { s with cwnd := s.cwnd + s.mss } seg p bConnect is_fin_ack clk
        else if s.cwnd == (0 : UInt32) then fault (.ub "process: mss * mss / cwnd")
        else
          let q : UInt32 := (s.mss * s.mss) / s.cwnd
          let inc : Nat := max 1 q.toNat
          processFin { s with cwnd := s.cwnd + UInt32.ofNat inc } seg p bConnect is_fin_ack clk
  else if is_duplicate_ack then do
    let wnd ← shiftWnd seg.wnd s.swnd_scale
    let s := { s with snd_wnd := wnd }
    if seg.len > 0 then processFin s seg p bConnect false clk
    else if s.snd_una != s.snd_nxt then
      let s := { s with dup_acks := s.dup_acks + 1 }
      if s.dup_acks == 3 then
        if lt? (ptcp_larger_or_equal s.snd_una s.recover) || seg.tsecr == s.last_acked_ts then do
          let (st, s) ← transmit s 0 now
          if st != .none then do
            let s ← closedown s st .loc clk
            pure (false, s)
          else
            let nInFlight := s.snd_nxt - s.snd_una
            let ssthresh := max (nInFlight / 2) (2 * s.mss)
            let s := { s with recover := s.snd_nxt, ssthresh := ssthresh, cwnd := ssthresh + 3 * s.mss,
                              fast_recovery := true }
            processFin s seg p bConnect false clk
        else processFin s seg p bConnect false clk
      else if s.dup_acks > 3 then
        processFin { s with cwnd := if s.fast_recovery then s.cwnd + s.mss else s.cwnd } seg p bConnect false clk
      else processFin s seg p bConnect false clk
    else processFin { s with dup_acks := 0 } seg p bConnect false clk
  else processFin s seg p bConnect false clk

/-- `process`, after the conversation check -/
def processBody (s : Sock) (seg : Segment) (p : Array UInt8) (clk : UInt32) : R (Bool × Sock) := do
  let now := getCurrentTime s clk
  let s := { s with last_traffic := now, lastrecv := now, bOutgoing := false }
  if s.state = .closed || (hasReceivedFinAck s.state && seg.len > 0) then
    if (seg.flags &&& cFLAG_RST) == 0 then do
      let s ← closedown s .none .loc clk
      pure (false, s)
    else pure (false, s)
  else if (seg.flags &&& cFLAG_RST) != 0 then do
    let s ← closedown s .ECONNRESET .remote clk
    pure (false, s)
  else if (seg.flags &&& cFLAG_CTL) != 0 then
    if seg.len == 0 then pure (false, s)
    else do
      let c ← rd p seg.dataOff
      if c.toNat = CTL_CONNECT then do
        -- options are negotiated during the handshake only
        let s ← (if s.state = .listen || s.state = .synSent then
            parseOptions s p (seg.dataOff + 1) (seg.len - 1).toNat else pure s : R Sock)
        let s ← (if s.state = .listen then do
            let s ← setState s .synReceived
            queueConnectMessage s
          else if s.state = .synSent then setStateEstablished s
          else pure s : R Sock)
        processAck s seg p true now clk
      else pure (false, s)
  else processAck s seg p false now clk

/-- `process` -/
def process (s : Sock) (seg : Segment) (p : Array UInt8) (clk : UInt32) : R (Bool × Sock) :=
  if seg.conv != s.conv then pure (false, s)
  else processBody s seg p clk

def rd32 (p : Array UInt8) (o : Nat) : R UInt32 := do
  let a ← rd p o; let b ← rd p (o + 1); let c ← rd p (o + 2); let d ← rd p (o + 3)
  pure ((a.toUInt32 <<< 24) ||| (b.toUInt32 <<< 16) ||| (c.toUInt32 <<< 8) ||| d.toUInt32)

def rd16 (p : Array UInt8) (o : Nat) : R UInt16 := do
  let a ← rd p o; let b ← rd p (o + 1)
  pure ((a.toUInt16 <<< 8) ||| b.toUInt16)

/-- `parse` (header in `p[0..24)`, data in `p[24..)`) -/
def parse (s : Sock) (p : Array UInt8) (clk : UInt32) : R (Bool × Sock) := do
  let conv ← rd32 p 0
  let seq ← rd32 p 4
  let ack ← rd32 p 8
  let flags ← rd p 13
  let wnd ← rd16 p 14
  let tsval ← rd32 p 16
  let tsecr ← rd32 p 20
  let seg : Segment := { conv := conv, seq := seq, ack := ack, flags := flags, wnd := wnd,
                         dataOff := HEADER_SIZE, len := UInt32.ofNat (p.size - HEADER_SIZE),
                         tsval := tsval, tsecr := tsecr }
  process s seg p clk

/-! ### public API -/

/-- `pseudo_tcp_socket_notify_packet` -/
def notifyPacket (s : Sock) (p : Array UInt8) (clk : UInt32) : R (Bool × Sock) :=
  if p.size > MAX_PACKET then pure (false, { s with error := .EMSGSIZE })
  else if p.size < HEADER_SIZE then pure (false, { s with error := .EINVAL })
  else parse s p clk

/-- `pseudo_tcp_socket_notify_message` with a 24-byte header buffer and a body buffer (the entry point the agent
    uses for every datagram): the same parse as `notifyPacket`; a datagram shorter than the header or longer than
    MAX_PACKET is refused WITHOUT recording an error code -/
def notifyMessage (s : Sock) (p : Array UInt8) (clk : UInt32) : R (Bool × Sock) :=
  if p.size > MAX_PACKET then pure (false, s)
  else if p.size < HEADER_SIZE then pure (false, s)
  else parse s p clk

/-- `pseudo_tcp_socket_connect` -/
def connect (s : Sock) (clk : UInt32) : R (Bool × Sock) :=
  if s.state ≠ .listen then pure (false, { s with error := .EINVAL })
  else do
    let s ← setState s .synSent
    let s ← queueConnectMessage s
    let s ← attemptSend s .sfNone clk
    pure (true, s)

/-- `pseudo_tcp_socket_notify_mtu` -/
def notifyMtu (s : Sock) (mtu : UInt16) : R Sock :=
  let s := { s with mtu_advise := mtu.toUInt32 }
  if s.state = .established then adjustMTU s else pure s

/-- `notify_clock`, "Check if it's time to retransmit a segment"; the flag says that the function returned -/
def clockRetransmit (s : Sock) (now clk : UInt32) : R (Bool × Sock) :=
  if s.rto_base != 0 && (time_diff (s.rto_base + s.rx_rto) now).toInt ≤ 0 then
    (if s.slist.length == 0 then fault (Fault.assert "notify_clock: g_assert_not_reached")
     else do
       let (st, s) ← transmit s 0 now
       if st != .none then do
         let s ← closedown s st .loc clk
         pure (true, s)
       else
         let nInFlight := s.snd_nxt - s.snd_una
         let rto_limit := if s.state.toNat < PSEUDO_TCP_ESTABLISHED then cDEF_RTO else cMAX_RTO
         pure (false, { s with ssthresh := max (nInFlight / 2) (2 * s.mss), cwnd := s.mss,
                               rx_rto := min rto_limit (s.rx_rto * 2), rto_base := armed now, recover := s.snd_nxt,
                               dup_acks := if s.dup_acks ≥ 3 then 0 else s.dup_acks,
                               fast_recovery := if s.dup_acks ≥ 3 then false else s.fast_recovery }))
  else pure (false, s)

/-- `notify_clock`, "Check if it's time to probe closed windows" -/
def clockProbe (s : Sock) (now clk : UInt32) : R (Bool × Sock) :=
  if s.snd_wnd == 0 && (time_diff (s.lastsend + s.rx_rto) now).toInt ≤ 0 then
    (if (time_diff now s.lastrecv).toInt ≥ 15000 then do
       let s ← closedown s .ECONNABORTED .loc clk
       pure (true, s)
     else do
       let (_, s) ← packet s (s.snd_nxt - 1) 0 0 0 now
       pure (false, { s with lastsend := now, rx_rto := min cMAX_RTO (s.rx_rto * 2) }))
  else pure (false, s)

/-- `notify_clock`, "Check if it's time to send delayed acks" -/
def clockDelayedAck (s : Sock) (now : UInt32) : R Sock :=
  if s.t_ack != 0 && (time_diff (s.t_ack + s.ack_delay) now).toInt ≤ 0 then do
    let (_, s) ← packet s s.snd_nxt 0 0 0 now
    pure s
  else pure s

/-- `notify_clock`, the TIME-WAIT and LAST-ACK blocks -/
def clockFinStates (s : Sock) (clk : UInt32) : R Sock := do
  let s ← (if s.support_fin_ack && s.state = .timeWait then setStateClosed s .none else pure s : R Sock)
  if s.support_fin_ack && s.state = .lastAck then do
    let s ← queueFinMessage s
    attemptSend s .sfFin clk
  else pure s

/-- `pseudo_tcp_socket_notify_clock` -/
def notifyClock (s : Sock) (clk : UInt32) : R Sock := do
  let now := getCurrentTime s clk
  if s.state = .closed then pure s
  else do
    let s ← clockFinStates s clk
    let (done, s) ← clockRetransmit s now clk
    if done then pure s
    else do
      let (done, s) ← clockProbe s now clk
      if done then pure s
      else clockDelayedAck s now

/-- `pseudo_tcp_socket_get_next_clock` (`timeout` is the in/out `guint64`) -/
def getNextClock (s : Sock) (timeout : UInt64) (clk : UInt32) : R (Bool × UInt64 × Sock) := do
  let now := getCurrentTime s clk
  if s.shutdown = .forceful then do
    let s ← closedown s .none .remote clk
    pure (false, timeout, s)
  else
    let snd_buffered := s.sbuf.getBuffered
    if s.shutdown = .graceful && (s.state ≠ .established || (snd_buffered == 0 && s.t_ack == 0)) then do
      let s ← closedown s .none .remote clk
      pure (false, timeout, s)
    else
      let closed_timeout : UInt32 :=
        if s.support_fin_ack && s.state = .timeWait then UInt32.ofNat TIME_WAIT_TIMEOUT
        else UInt32.ofNat CLOSED_TIMEOUT
      if s.support_fin_ack && s.state = .closed then pure (false, timeout, s)
      else
        let timeout := if timeout == 0 || timeout < now.toUInt64 then (now + closed_timeout).toUInt64 else timeout
        if s.support_fin_ack && s.state = .timeWait then
          pure (true, min timeout (now + UInt32.ofNat TIME_WAIT_TIMEOUT).toUInt64, s)
        else if s.state = .closed && !s.support_fin_ack then
          pure (true, min timeout (now + UInt32.ofNat CLOSED_TIMEOUT).toUInt64, s)
        else
          let timeout := min timeout (now + UInt32.ofNat DEFAULT_TIMEOUT).toUInt64
          let timeout := if s.t_ack != 0 then min timeout (s.t_ack + s.ack_delay).toUInt64 else timeout
          let timeout := if s.rto_base != 0 then min timeout (s.rto_base + s.rx_rto).toUInt64 else timeout
          let timeout := if s.snd_wnd == 0 then min timeout (s.lastsend + s.rx_rto).toUInt64 else timeout
          pure (true, timeout, s)

/-- `pseudo_tcp_socket_is_closed` -/
def isClosed (s : Sock) : Bool := s.state = .closed

/-- `pseudo_tcp_socket_is_closed_remotely` -/
def isClosedRemotely (s : Sock) : Bool := hasReceivedFin s.state

/-- `pseudo_tcp_socket_get_available_bytes` (gint) -/
def getAvailableBytes (s : Sock) : Nat := s.rbuf.getBuffered

/-- `pseudo_tcp_socket_get_available_send_space` -/
def getAvailableSendSpace (s : Sock) : Nat × Sock :=
  let ret := if !hasSentFin s.state then s.sbuf.getWriteRemaining else 0
  (ret, { s with bWriteEnable := if ret == 0 then true else s.bWriteEnable })

/-- `pseudo_tcp_socket_can_send` -/
def canSend (s : Sock) : Bool × Sock :=
  let (r, s) := getAvailableSendSpace s
  (r > 0, s)

/-- `pseudo_tcp_socket_recv`: returns (return value, bytes copied) -/
def recv (s : Sock) (len : Nat) (clk : UInt32) : R (Int × Array UInt8 × Sock) :=
  if s.support_fin_ack && s.shutdown_reads then pure (0, #[], s)
  else if !s.support_fin_ack && isClosed s then pure (0, #[], s)
  else if !s.support_fin_ack && s.state ≠ .established then pure (-1, #[], { s with error := .ENOTCONN })
  else if len == 0 then pure (0, #[], s)
  else do
    let (bytes, rb) ← s.rbuf.read len
    let s := { s with rbuf := rb }
    let bytesread := bytes.size
    if bytesread == 0 && !(hasReceivedFin s.state || hasReceivedFinAck s.state) then
      pure (-1, #[], { s with bReadEnable := true, error := .EWOULDBLOCK })
    else
      let available_space := s.rbuf.getWriteRemaining
      if gsub available_space s.rcv_wnd.toNat ≥ (min (s.rbuf_len / 2) s.mss).toNat then do
        -- closed = what the peer was told: the advertised (scaled) window (fix: a window below 2^scale is advertised as 0)
        let bWasClosed := advWnd s.rcv_wnd s.rwnd_scale == 0
        let s := { s with rcv_wnd := UInt32.ofNat available_space }
        let s ← (if bWasClosed then attemptSend s .sfImmediateAck clk else pure s : R Sock)
        pure ((bytesread : Int), bytes, s)
      else pure ((bytesread : Int), bytes, s)

/-- `pseudo_tcp_socket_send` -/
def send (s : Sock) (data : Array UInt8) (clk : UInt32) : R (Int × Sock) :=
  let len := UInt32.ofNat data.size
  if s.state ≠ .established then
    pure (-1, { s with error := if hasSentFin s.state then .EPIPE else .ENOTCONN })
  else
    let available_space := s.sbuf.getWriteRemaining
    if available_space == 0 then pure (-1, { s with bWriteEnable := true, error := .EWOULDBLOCK })
    else do
      let (w, s) ← queue s data len cFLAG_NONE
      let written : Int := w.toInt32.toInt
      let s ← attemptSend s .sfNone clk
      let s := { s with bWriteEnable := if written > 0 && w < len then true else s.bWriteEnable }
      pure (written, s)

/-- `pseudo_tcp_socket_shutdown` -/
def shutdown (s : Sock) (how : ShutdownHow) (clk : UInt32) : R Sock :=
  if !s.support_fin_ack then
    pure { s with shutdown := if s.shutdown = .none then .graceful else s.shutdown }
  else
    let s := { s with shutdown_reads := if how = .rd || how = .rdwr then true else s.shutdown_reads }
    if how = .rd then pure s
    else
      match s.state with
      | .listen | .synSent => setStateClosed s .none
      | .synReceived | .established =>
        if getAvailableBytes s > 0 then closedown s .ECONNABORTED .loc clk
        else do
          let s ← queueFinMessage s
          let s ← attemptSend s .sfFin clk
          -- sending may have failed and closed the socket already
          if s.state ≠ .closed then setState s .finWait1 else pure s
      | .closeWait => do
        let s ← queueFinMessage s
        let s ← attemptSend s .sfFin clk
        if s.state ≠ .closed then setState s .lastAck else pure s
      | .closing | .closed | .finWait1 | .finWait2 | .timeWait | .lastAck => pure s

/-- `pseudo_tcp_socket_close` -/
def close (s : Sock) (force : Bool) (clk : UInt32) : R Sock :=
  if force && s.state ≠ .closed then closedown s .ECONNABORTED .loc clk
  else shutdown s .rdwr clk

/-- property setters used by the driver (`g_object_set`) -/
def setRcvBuf (s : Sock) (v : UInt32) : R Sock :=
  if s.state ≠ .listen then pure s else resizeReceiveBuffer s v

def setSndBuf (s : Sock) (v : UInt32) : R Sock :=
  if s.state ≠ .listen then pure s else resizeSendBuffer s v

end Nice.PTcp
