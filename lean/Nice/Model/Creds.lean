/-
  Local ICE credentials (agent/stream.c nice_stream_initialize_credentials, random/random.c
  nice_rng_generate_bytes_print) and the "forgetting" part of nice_stream_restart.
  The alphabet and the lengths are regenerated from the source (Nice.Gen).
-/
import Nice.Gen.Consts
import Nice.Gen.Tables
namespace Nice.Creds
open Nice.Gen

def alphabet : List Char := rng_print_chars.toList

/-- `nice_rng_generate_bytes_print (rng, len, buf)`: `draw i` is the i-th result of
    nice_rng_generate_int (rng, 0, strlen (chars)) -/
def genPrint (draw : Nat → Nat) (len : Nat) : List Char :=
  (List.range len).map fun i => alphabet.getD (draw i % alphabet.length) 'A'

structure Credentials where
  ufrag : List Char
  pwd   : List Char
  deriving DecidableEq, Repr

/-- `nice_stream_initialize_credentials`: ufrag first, then password, consecutive draws -/
def initCredentials (draw : Nat → Nat) : Credentials :=
  let nu := NICE_STREAM_DEF_UFRAG - 1
  let np := NICE_STREAM_DEF_PWD - 1
  { ufrag := genPrint draw nu, pwd := genPrint (fun i => draw (nu + i)) np }

/-- ICE `ice-char` = ALPHA / DIGIT / "+" / "/" (RFC 8839 §5.4) -/
def isIceChar (c : Char) : Bool :=
  ('A' ≤ c && c ≤ 'Z') || ('a' ≤ c && c ≤ 'z') || ('0' ≤ c && c ≤ '9') || c == '+' || c == '/'

/-- what a stream remembers about its peer and its checks -/
structure StreamSt where
  local_      : Credentials
  remoteUfrag : List Char
  remotePwd   : List Char
  remoteCands : List Nat          -- per component lists flattened; only emptiness matters here
  checkList   : List Nat
  compStates  : List Nat          -- NiceComponentState per component
  deriving Repr

/-- `nice_stream_restart` (+ nice_component_restart): prune checks, new local credentials, forget
    remote credentials and candidates, every component back to GATHERING -/
def restart (s : StreamSt) (draw : Nat → Nat) : StreamSt :=
  { local_ := initCredentials draw, remoteUfrag := [], remotePwd := [], remoteCands := [], checkList := [],
    compStates := s.compStates.map fun _ => NICE_COMPONENT_STATE_GATHERING }

end Nice.Creds
