/-
  Candidate / pair priorities (agent/candidate.c, agent/agent.c:agent_candidate_pair_priority,
  agent/conncheck.c: conn_check_compare, g_slist_insert_sorted, recalculate_pair_priorities).

  The arithmetic formulas are NOT written here: they are the translated kernels in `Nice.Gen`
  (`nice_candidate_ice_priority_full`, `nice_candidate_ice_local_preference_full`,
  `nice_candidate_ms_ice_local_preference_full`, `nice_candidate_pair_priority`), regenerated from
  the C source on every run.  Hand-modelled here: the type/transport `switch`es (they dereference
  `candidate->turn`) and the check-list operations.
-/
import Nice.Gen.Consts
import Nice.Gen.Kernels
namespace Nice.Prio
open Nice.Gen

structure Cand where
  type        : Nat      -- NiceCandidateType
  transport   : Nat      -- NiceCandidateTransport
  componentId : UInt32
  turnIsUdp   : Bool     -- c->turn->type == NICE_RELAY_TYPE_TURN_UDP (relayed candidates only)
  turnPref    : UInt32   -- c->turn->preference
  ipPref      : UInt32   -- nice_candidate_ip_local_preference (index of the address in the local list)
  deriving Repr, DecidableEq

/-- `nice_candidate_ice_type_preference` (guint8 arithmetic) -/
def typePreference (c : Cand) (reliable natAssisted : Bool) : UInt8 :=
  let tp : UInt8 :=
    if c.type = NICE_CANDIDATE_TYPE_HOST then UInt8.ofNat NICE_CANDIDATE_TYPE_PREF_HOST
    else if c.type = NICE_CANDIDATE_TYPE_PEER_REFLEXIVE then UInt8.ofNat NICE_CANDIDATE_TYPE_PREF_PEER_REFLEXIVE
    else if c.type = NICE_CANDIDATE_TYPE_SERVER_REFLEXIVE then
      (if natAssisted then UInt8.ofNat NICE_CANDIDATE_TYPE_PREF_NAT_ASSISTED
       else UInt8.ofNat NICE_CANDIDATE_TYPE_PREF_SERVER_REFLEXIVE)
    else if c.type = NICE_CANDIDATE_TYPE_RELAYED then
      (if c.turnIsUdp then UInt8.ofNat NICE_CANDIDATE_TYPE_PREF_RELAYED_UDP
       else UInt8.ofNat NICE_CANDIDATE_TYPE_PREF_RELAYED)
    else 0
  if (reliable && c.transport = NICE_CANDIDATE_TRANSPORT_UDP) ||
     (!reliable && c.transport ≠ NICE_CANDIDATE_TRANSPORT_UDP) then tp / 2 else tp

def isSrflxOrHost (c : Cand) : Bool :=
  c.type = NICE_CANDIDATE_TYPE_SERVER_REFLEXIVE || c.type = NICE_CANDIDATE_TYPE_HOST

/-- the `switch (candidate->transport)` of `nice_candidate_ice_local_preference` -/
def directionPreference (c : Cand) : UInt32 :=
  if c.transport = NICE_CANDIDATE_TRANSPORT_TCP_ACTIVE then (if isSrflxOrHost c then 4 else 6)
  else if c.transport = NICE_CANDIDATE_TRANSPORT_TCP_PASSIVE then (if isSrflxOrHost c then 2 else 4)
  else if c.transport = NICE_CANDIDATE_TRANSPORT_TCP_SO then (if isSrflxOrHost c then 6 else 2)
  else 1

def turnPreference (c : Cand) : UInt32 :=
  if c.type = NICE_CANDIDATE_TYPE_RELAYED then c.turnPref else 0

/-- `nice_candidate_ice_local_preference`; `none` = a `g_assert` of the `_full` kernel fails -/
def localPreference (c : Cand) : Option UInt16 :=
  if nice_candidate_ice_local_preference_full_pre (directionPreference c) (turnPreference c) c.ipPref
  then some (nice_candidate_ice_local_preference_full (directionPreference c) (turnPreference c) c.ipPref)
  else none

/-- `nice_candidate_ice_priority` -/
def icePriority (c : Cand) (reliable natAssisted : Bool) : Option UInt32 :=
  (localPreference c).map fun lp =>
    nice_candidate_ice_priority_full (typePreference c reliable natAssisted).toUInt32 lp.toUInt32 c.componentId

/-- `nice_candidate_ms_ice_local_preference` -/
def msLocalPreference (c : Cand) : Option UInt16 :=
  let (tp, dp) : UInt32 × UInt32 :=
    if c.transport = NICE_CANDIDATE_TRANSPORT_TCP_SO || c.transport = NICE_CANDIDATE_TRANSPORT_TCP_ACTIVE then
      (UInt32.ofNat NICE_CANDIDATE_TRANSPORT_MS_PREF_TCP, UInt32.ofNat NICE_CANDIDATE_DIRECTION_MS_PREF_ACTIVE)
    else if c.transport = NICE_CANDIDATE_TRANSPORT_TCP_PASSIVE then
      (UInt32.ofNat NICE_CANDIDATE_TRANSPORT_MS_PREF_TCP, UInt32.ofNat NICE_CANDIDATE_DIRECTION_MS_PREF_PASSIVE)
    else (UInt32.ofNat NICE_CANDIDATE_TRANSPORT_MS_PREF_UDP, 0)
  if nice_candidate_ms_ice_local_preference_full_pre tp dp (turnPreference c) c.ipPref
  then some (nice_candidate_ms_ice_local_preference_full tp dp (turnPreference c) c.ipPref) else none

def msIcePriority (c : Cand) (reliable natAssisted : Bool) : Option UInt32 :=
  (msLocalPreference c).map fun lp =>
    nice_candidate_ice_priority_full (typePreference c reliable natAssisted).toUInt32 lp.toUInt32 c.componentId

/-- `agent_candidate_pair_priority` -/
def agentPairPriority (controlling : Bool) (localPrio remotePrio : UInt32) : UInt64 :=
  if controlling then nice_candidate_pair_priority localPrio remotePrio
  else nice_candidate_pair_priority remotePrio localPrio

/-! check list: a list of pairs, highest priority first -/

structure Pair where
  localPrio  : UInt32
  remotePrio : UInt32
  priority   : UInt64
  deriving Repr, DecidableEq

/-- `g_slist_insert_sorted (list, pair, conn_check_compare)`: walk while cmp(new, elem) > 0,
    i.e. while elem.priority > new.priority; insert before the first other element. -/
def insertSorted (p : Pair) : List Pair → List Pair
  | [] => [p]
  | x :: xs => if x.priority > p.priority then x :: insertSorted p xs else p :: x :: xs

/-- `recalculate_pair_priorities`: recompute every priority for the (new) role, then
    `g_slist_sort` (a stable merge sort) with `conn_check_compare` -/
def recalc (controlling : Bool) (l : List Pair) : List Pair :=
  (l.map fun p => { p with priority := agentPairPriority controlling p.localPrio p.remotePrio }).mergeSort
    (fun a b => a.priority ≥ b.priority)

def addPair (controlling : Bool) (lp rp : UInt32) (l : List Pair) : List Pair :=
  insertSorted { localPrio := lp, remotePrio := rp, priority := agentPairPriority controlling lp rp } l

end Nice.Prio
