/-
  Model of socket/udp-turn-over-tcp.c (TURN framing over a TCP byte stream), as the code is NOW
  (with the capacity check `expecting_len + padlen > sizeof (recv_buf)` -> -1, and the payload read
  skipped when nothing remains to be read).

  State: `buf` = recv_buf.u8[0 .. recv_buf_len) (so `buf.length` is `recv_buf_len`), `expecting` =
  `expecting_len`.  The 65536-byte union `recv_buf` is a capacity: every read hands the base a
  window `[recv_buf_len, recv_buf_len + cap)`; if that window does not fit (or the unsigned
  subtraction computing `cap` wraps) the model sets `fault`.
-/
import Nice.Model.SockBase
namespace Nice.TurnTcp
open Nice.Sock

inductive Compat where
  | draft9 | google | msn | oc2007 | rfc5766
  deriving DecidableEq, Repr

/-- `sizeof (priv->recv_buf)` -/
def BUFSZ : Nat := 65536
def MS_TURN_CONTROL_MESSAGE : UInt8 := 2
def MS_TURN_END_TO_END_DATA : UInt8 := 3
def TURN_MAGIC_COOKIE : Nat := 0x72c64bc6
/-- STUN_MESSAGE_HEADER_LENGTH + TYPE_LEN + LENGTH_LEN + sizeof (guint16) -/
def MAGIC_COOKIE_OFFSET : Nat := 20 + 2 + 2 + 2

structure St where
  compat    : Compat
  buf       : Bytes := []
  expecting : Nat := 0
  fault     : Bool := false
  deriving Repr, DecidableEq

def isStd (c : Compat) : Bool := c == .draft9 || c == .rfc5766

def headerLen : Compat → Option Nat
  | .draft9 | .rfc5766 | .oc2007 => some 4
  | .google => some 2
  | .msn => none

def padLen (c : Compat) (expecting : Nat) : Nat :=
  if isStd c then (if expecting % 4 != 0 then 4 - expecting % 4 else 0) else 0

/-- second half of `socket_recv_message`: padding, capacity check, payload read, delivery.
    Returns (ret, delivered message) -/
def recvPayload (s : St) (b : Base) : (Int × Option Bytes) × St × Base :=
  let padlen := padLen s.compat s.expecting
  if s.expecting + padlen > BUFSZ then ((-1, none), s, b)
  else
    -- local_recv_buf.size = expecting_len + padlen - recv_buf_len   (unsigned)
    let s := if s.buf.length > s.expecting + padlen then { s with fault := true } else s
    let cap := s.expecting + padlen - s.buf.length
    let s := if s.buf.length + cap > BUFSZ then { s with fault := true } else s
    -- a frame without payload is complete once its header is read: no zero-length read is issued
    let ((ret, bytes), b) := if cap > 0 then b.read cap else ((0, []), b)
    if ret < 0 then ((ret, none), s, b)
    else
      let s := { s with buf := s.buf ++ bytes }
      if s.buf.length == s.expecting + padlen then
        -- memcpy_buffer_to_input_message: the caller's buffer (65536) always holds the frame
        let msg := s.buf
        (((msg.length : Nat), some msg), { s with expecting := 0, buf := [] }, b)
      else ((0, none), s, b)

/-- `socket_recv_message` -/
def recvMessage (s : St) (b : Base) : (Int × Option Bytes) × St × Base :=
  if s.expecting == 0 then
    match headerLen s.compat with
    | none => ((-1, none), s, b)
    | some headerlen =>
      let s := if s.buf.length > headerlen then { s with fault := true } else s
      let cap := headerlen - s.buf.length
      let ((ret, bytes), b) := b.read cap
      if ret < 0 then ((ret, none), s, b)
      else
        let s := { s with buf := s.buf ++ bytes }
        if s.buf.length < headerlen then ((0, none), s, b)
        else
          match s.compat with
          | .draft9 | .rfc5766 =>
            let magic := be16 (s.buf.getD 0 0) (s.buf.getD 1 0)
            let packetlen := be16 (s.buf.getD 2 0) (s.buf.getD 3 0)
            let s := { s with expecting := if magic < 0x4000 then 20 + packetlen else 4 + packetlen }
            recvPayload s b
          | .google =>
            let compatLen := be16 (s.buf.getD 0 0) (s.buf.getD 1 0)
            recvPayload { s with expecting := compatLen, buf := [] } b
          | .oc2007 =>
            let pt := s.buf.getD 0 0
            let packetlen := be16 (s.buf.getD 2 0) (s.buf.getD 3 0)
            if pt != MS_TURN_CONTROL_MESSAGE && pt != MS_TURN_END_TO_END_DATA then ((-1, none), s, b)
            else
              -- keep the RFC 4571 length prefix: u16[0] = u16[1], recv_buf_len = 2
              recvPayload { s with expecting := packetlen + 2, buf := [s.buf.getD 2 0, s.buf.getD 3 0] } b
          | .msn => ((-1, none), s, b)
  else recvPayload s b

/-- `socket_recv_messages` with one message -/
def recv (s : St) (b : Base) : Res × St × Base :=
  let ((len, msg), s, b) := recvMessage s b
  if len < 0 then ({ ret := -1 }, s, b)
  else if len == 0 then ({ ret := 0 }, s, b)
  else match msg with
    | some m => ({ ret := 1, up := [{ data := m }] }, s, b)
    | none => ({ ret := 1 }, s, b)

/-! ### send side: `socket_send_message` builds the local buffer array -/

def totalLen (bufs : List Bytes) : Nat := (bufs.map List.length).sum

/-- the OC2007 cookie sniffing: find the 4 bytes at message offset 26 if they lie inside ONE buffer -/
def oc2007Cookie : List Bytes → Nat → Nat
  | [], _ => 0
  | b :: rest, bufOffset =>
    if b.length > MAGIC_COOKIE_OFFSET - bufOffset then
      if b.length > 4 + MAGIC_COOKIE_OFFSET - bufOffset then
        let o := MAGIC_COOKIE_OFFSET - bufOffset
        ((b.getD o 0).toNat * 256 + (b.getD (o+1) 0).toNat) * 65536 + (b.getD (o+2) 0).toNat * 256 + (b.getD (o+3) 0).toNat
      else 0
    else oc2007Cookie rest ((bufOffset + b.length) % 65536)

/-- the buffers handed to the base socket for one message -/
def frame (c : Compat) (bufs : List Bytes) : List Bytes :=
  let len := totalLen bufs
  match c with
  | .google => [UInt8.ofNat ((len % 65536) / 256), UInt8.ofNat (len % 256)] :: bufs
  | .draft9 | .rfc5766 =>
    let padlen := if len % 4 != 0 then 4 - len % 4 else 0
    bufs ++ [List.replicate padlen 0]
  | .oc2007 =>
    let len16 := len % 65536
    let cookie := if len16 > 4 + MAGIC_COOKIE_OFFSET then oc2007Cookie bufs 0 else 0
    let pt := if cookie == TURN_MAGIC_COOKIE then MS_TURN_CONTROL_MESSAGE else MS_TURN_END_TO_END_DATA
    [pt, 0] :: bufs
  | .msn => bufs

/-- `socket_send_messages` / `socket_send_messages_reliable` with one message over the scripted base -/
def send (s : St) (b : Base) (bufs : List Bytes) (reliable : Bool) : Res :=
  let lbufs := frame s.compat bufs
  let r := b.sendRet
  if r < 0 then { ret := -1 }
  else
    let wire := lbufs.flatten
    let len := wire.length
    -- unreliable: len == 0 is reported as "would block" (0 messages sent)
    { ret := if len == 0 && !reliable then 0 else 1, down := [wire] }

end Nice.TurnTcp
