/-
  Shared pieces of the stream-socket layer models (C17, C16).

  `Base` is the layer below: a TCP byte stream as seen through socket/tcp-bsd.c
  `socket_recv_messages` (one message, buffers of total capacity `cap`):
    * sticky `err` flag (`priv->error`): once set every call returns -1;
    * nothing pending and not shut down: recvmsg = EAGAIN -> return 0 (would block);
    * otherwise recvmsg returns min(cap, pending) bytes — which is 0 when `cap = 0` *and data is
      pending* or when the peer has shut down — and tcp-bsd.c treats a 0 return as end of stream:
      sets the error flag and returns -1.  (Checked against Linux for AF_UNIX and TCP sockets:
      a zero-capacity recvmsg returns EAGAIN on an empty queue and 0 on a non-empty one.)
  `freed` records that the layer called nice_socket_free on its base socket (base_socket = NULL).

  Uninitialised memory is modelled by the two fill bytes the harness build fixes:
  heap 0xBE (ASan malloc fill), automatic variables 0xAA (-ftrivial-auto-var-init=pattern).
-/
namespace Nice.Sock

abbrev Bytes := List UInt8

def heapJunk : UInt8 := 0xBE
def stackJunk : UInt8 := 0xAA

structure Base where
  pend  : Bytes := []
  err   : Bool := false
  eof   : Bool := false
  freed : Bool := false
  deriving Repr, DecidableEq

/-- result of one `nice_socket_recv_messages (base, &msg, 1)`: return value and the bytes stored -/
def Base.read (b : Base) (cap : Nat) : (Int × Bytes) × Base :=
  if b.err then ((-1, []), b)
  else if b.pend.isEmpty && !b.eof then ((0, []), b)
  else
    let n := min cap b.pend.length
    if n == 0 then ((-1, []), { b with err := true })
    else ((1, b.pend.take n), { b with pend := b.pend.drop n })

/-- bytes arrive from the network -/
def Base.push (b : Base) (bs : Bytes) : Base := { b with pend := b.pend ++ bs }

/-- `nice_socket_send_messages*(base, 1 message)` on the scripted base: everything is accepted
    unless the error flag is set -/
def Base.sendRet (b : Base) : Int := if b.err then -1 else 1

/-- what one receive call reports upward -/
structure Up where
  data : Bytes                 -- NiceInputMessage.length bytes of the caller's buffer
  clob : Option Bytes := none  -- http.c quirk: buffers[0].size overwritten, these bytes were copied
  deriving Repr, DecidableEq

structure Res where
  ret  : Int
  up   : List Up := []
  down : List Bytes := []
  deriving Repr, DecidableEq

def be16 (a b : UInt8) : Nat := a.toNat * 256 + b.toNat

def Bytes.get (bs : Bytes) (i : Nat) (dflt : UInt8) : UInt8 := bs.getD i dflt

/-- pad / truncate to exactly `n` bytes (a fixed-size C array whose tail was never written) -/
def fixedBuf (bs : Bytes) (n : Nat) (junk : UInt8) : Bytes :=
  (bs.take n) ++ List.replicate (n - bs.length) junk

/-- `nice_socket_queue_send` (socket.c) for one message: the buffers are compacted into one block;
    empty messages are skipped -/
def queueSend (q : List Bytes) (bufs : List Bytes) : List Bytes :=
  let m := bufs.flatten
  if m.isEmpty then q else q ++ [m]

/-- `nice_socket_flush_send_queue`: every queued block goes to the base with
    nice_socket_send_reliable (return value ignored) -/
def flushDown (b : Base) (q : List Bytes) : List Bytes := if b.err then [] else q

end Nice.Sock
