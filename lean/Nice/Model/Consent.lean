/-
  Consent freshness / keepalive timing kernels (agent/conncheck.c):
  `priv_conn_remote_consent_tick_agent_locked`, the consent keepalive interval of
  `priv_conn_keepalive_tick_unlocked`, the send gate of `nice_agent_send_messages_nonblocking_internal`
  (agent/agent.c), the 403 handling of `conn_check_handle_inbound_stun`.
  Times are microseconds (g_get_monotonic_time); constants come from Nice.Gen (regenerated).
-/
import Nice.Gen.Consts
namespace Nice.Consent
open Nice.Gen

structure Pair where
  have_ : Bool          -- remote_consent.have
  last  : Nat           -- remote_consent.last_received (µs)
  deriving DecidableEq, Repr

/-- consent_timeout in µs -/
def timeoutUs (consentFreshness : Bool) : Nat :=
  (if consentFreshness then NICE_AGENT_TIMER_CONSENT_TIMEOUT else NICE_AGENT_TIMER_KEEPALIVE_TIMEOUT) * 1000

inductive TickOut where
  | failed                 -- have := FALSE, component announced FAILED
  | rearm (delayMs : Nat)  -- timer re-armed with this interval
  deriving DecidableEq, Repr

/-- `priv_conn_remote_consent_tick_agent_locked` (guint64 arithmetic; now ≥ last in every reachable
    state because last_received is only ever assigned g_get_monotonic_time()) -/
def tick (cf : Bool) (p : Pair) (now : Nat) : Pair × TickOut :=
  if now - p.last > timeoutUs cf then ({ p with have_ := false }, .failed)
  else (p, .rearm ((timeoutUs cf - (now - p.last)) / 1000))

/-- `priv_map_reply_to_keepalive_conncheck`: an authenticated answer on the selected pair -/
def onAnswer (p : Pair) (now : Nat) : Pair := { p with last := now }

/-- 403 Forbidden from the selected pair's remote address -/
def on403 (p : Pair) : Pair := { p with have_ := false }

/-- send gate: `selected_pair.local != NULL && !remote_consent.have` → G_IO_ERROR_PERMISSION_DENIED -/
def sendDenied (selected : Bool) (p : Pair) : Bool := selected && !p.have_

/-- interval to the next consent check in ms: `MAX ((guint64)(CONSENT_DEFAULT * modifier), MIN_CONSENT_INTERVAL)`
    where modifier = g_random_double()*0.4+0.8 ∈ [0.8,1.2); `scaled` = ⌊CONSENT_DEFAULT·modifier⌋ -/
def consentIntervalMs (scaled : Nat) : Nat := max scaled NICE_AGENT_TIMER_MIN_CONSENT_INTERVAL

end Nice.Consent
