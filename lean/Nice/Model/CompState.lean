/-
  Component state choke point: `agent_signal_component_state_change` (agent/agent.c).
  The whitelist is NOT written here: `Nice.Gen.stateTransitions` is produced on every run by compiling
  the `g_assert (...)` expression of the current source and evaluating it on all (old,new) pairs;
  `Nice.Gen.documentedEdges` is parsed from docs/reference/libnice/states.gv.
-/
import Nice.Gen.Consts
import Nice.Gen.Tables
namespace Nice.CompState
open Nice.Gen

/-- states are the NiceComponentState numbers 0..5 -/
abbrev State := Nat

def allowed (o n : State) : Bool := stateTransitions.contains (o, n)

inductive Out where
  | none                 -- new == old: early return, nothing announced
  | announced (s : State)
  | assertFailed         -- g_assert fires: the process aborts
  deriving DecidableEq, Repr

/-- one call of agent_signal_component_state_change on a component in state `cur` -/
def signal (cur : State) (new : State) : State × Out :=
  if new = cur then (cur, .none)
  else if allowed cur new then (new, .announced new)
  else (cur, .assertFailed)

/-- run a sequence of requested states; returns final state, announced sequence (oldest first), and
    whether an assertion fired (processing stops there, as the process aborts) -/
def run (cur : State) : List State → State × List State × Bool
  | [] => (cur, [], false)
  | n :: ns =>
    match signal cur n with
    | (c, .none) => run c ns
    | (c, .announced s) => let (f, l, b) := run c ns; (f, s :: l, b)
    | (c, .assertFailed) => (c, [], true)

/-- the documented machine: the edges of states.gv plus the transitions the source comments of the
    assertion document explicitly (restart: anything → GATHERING; socket loss: CONNECTED → CONNECTING) -/
def documented (o n : State) : Bool :=
  o ≠ n && o < NICE_COMPONENT_STATE_LAST && n < NICE_COMPONENT_STATE_LAST &&
  (documentedEdges.contains (o, n) ||
   n = NICE_COMPONENT_STATE_GATHERING ||
   (o = NICE_COMPONENT_STATE_CONNECTED && n = NICE_COMPONENT_STATE_CONNECTING))

end Nice.CompState
