/-
  Model of the TURN client socket, socket/udp-turn.c, for the two standards-based compatibility
  modes (DRAFT9, RFC5766) over an unreliable (UDP) base socket.

  Carried: channels / current_binding / pending_bindings, permissions / sent_permissions /
  pending_permissions, the per-peer queues of data held until the CreatePermission answer, the
  outgoing wrap (ChannelData when a channel is bound, Send indication otherwise), the incoming
  unwrap (`nice_udp_turn_socket_parse_recv`: Data indication, ChannelData, pass-through), the
  handling of CreatePermission / ChannelBind answers incl. the 401 / 438 re-authentication round.

  STUN: the Send indication is encoded here byte for byte (header, XOR-PEER-ADDRESS, DATA; the
  transaction id is a parameter — the harness prints it as zero).  CreatePermission and ChannelBind
  requests are abstract (`Down.cp`, `Down.cb`: sequence number, peer, channel, whether credentials
  were attached); the STUN agent's transaction table is the `valid` flag of those records, and the
  validation outcome of an answer is derived from it as stun_agent_validate does for the answers
  the harness crafts (success answers carry MESSAGE-INTEGRITY iff the request did).
  Request timers (stun/usages/timer.c via Nice.Model.Timer: 500 ms, 3 transmissions) drive the
  retransmissions and the time-out of CreatePermission (permission assumed, held data flushed) and
  ChannelBind (binding dropped); `now` is the virtual clock in microseconds.
  GOOGLE mode: the Send request encoding and pass-through receive are modelled; the Send response
  (channel lock) and the old-style Data indication are not.
  Not modelled: MSN / OC2007 encodings (HMAC over the long/short-term key), reliable base (RFC 4571 re-framing), the
  second-granularity timers (permission / binding refresh and expiry after 240 / 540 s).
-/
import Nice.Model.SockBase
import Nice.Model.Timer
namespace Nice.Turn
open Nice.Sock

inductive Compat where
  | draft9 | rfc5766 | google
  deriving DecidableEq, Repr

structure PeerAddr where
  ipv6 : Bool
  addr : Bytes      -- 4 or 16 bytes, network order
  port : Nat
  deriving DecidableEq, Repr

/-- `STUN_MAX_MESSAGE_SIZE` -/
def STUN_MAX_MESSAGE_SIZE : Nat := 65552
def STUN_MAGIC_COOKIE : Bytes := [0x21, 0x12, 0xA4, 0x42]

/-- a CreatePermission / ChannelBind request that went out -/
structure Req where
  seq   : Nat
  peer  : Nat
  chan  : Nat := 0
  auth  : Bool          -- USERNAME / REALM / NONCE / MESSAGE-INTEGRITY attached
  valid : Bool := true  -- still in the STUN agent's table of sent transactions
  timer : Nice.Timer.Timer := { dlSec := 0, dlUsec := 0, delay := 0, retrans := 0, maxRetrans := 0 }
  deriving DecidableEq, Repr

inductive Down where
  | raw (b : Bytes)
  | cp (seq peer : Nat) (auth : Bool)
  | cb (seq chan peer : Nat) (auth : Bool)
  | rcp (seq : Nat)      -- retransmission of the seq-th CreatePermission request
  | rcb (seq : Nat)
  deriving DecidableEq, Repr

structure St where
  compat    : Compat
  peers     : List PeerAddr                      -- the peer table (index = peer id)
  username  : Bytes := [117, 115, 101, 114]       -- "user"
  channels  : List (Nat × Nat) := []              -- (peer, channel), in binding order
  cur       : Option (Nat × Nat) := none          -- current_binding
  curMsg    : Option Nat := none                  -- seq of current_binding_msg
  pendB     : List Nat := []                      -- pending_bindings
  perms     : List Nat := []
  sentPerms : List Nat := []
  pendPerms : List Nat := []                      -- pending_permissions (seq of the CreatePermission requests)
  queues    : List (Nat × List (Bytes × Bool)) := []   -- send_data_queues: peer -> FIFO of (wrapped message, reliable)
  cached    : Bool := false                       -- realm + nonce cached
  cpReqs    : List Req := []
  cbReqs    : List Req := []
  now       : Nat := 0                            -- virtual monotonic clock, microseconds
  cbSrc     : Option Nat := none                  -- tick_source_channel_bind: expiry (us)
  cpSrc     : Option Nat := none                  -- tick_source_create_permission: expiry (us)
  permSrc   : Option Nat := none                  -- permission_timeout_source (240 s, periodic): expiry (us)
  cbNewer   : Bool := false                       -- tick_source_channel_bind was (re)created after the permission timer
  cpNewer   : Bool := false                       -- tick_source_create_permission was (re)created after it
                                                  -- (GLib dispatches ready sources of one priority in attachment order)
  fault     : Bool := false
  deriving Repr, DecidableEq

structure Out where
  ret  : Int
  up   : List (Option Nat × Bytes) := []   -- (source: some peer | none = server address, data)
  down : List Down := []
  deriving Repr, DecidableEq

/-! ### STUN encoding of the Send indication -/

def be16b (n : Nat) : Bytes := [UInt8.ofNat ((n / 256) % 256), UInt8.ofNat (n % 256)]

def xorBytes : Bytes → Bytes → Bytes
  | a :: as, b :: bs => (a ^^^ b) :: xorBytes as bs
  | as, [] => as
  | [], _ => []

/-- XOR-PEER-ADDRESS value: family, port ^ cookie[0..2], address ^ (cookie ++ transaction id) -/
def xorPeerValue (p : PeerAddr) (txid : Bytes) : Bytes :=
  [0, if p.ipv6 then 2 else 1] ++ xorBytes (be16b p.port) STUN_MAGIC_COOKIE ++ xorBytes p.addr (STUN_MAGIC_COOKIE ++ txid)

def attr (type : Nat) (value : Bytes) : Bytes :=
  be16b type ++ be16b value.length ++ value ++ List.replicate ((4 - value.length % 4) % 4) 0

/-- `stun_agent_init_indication (STUN_IND_SEND)` + XOR-PEER-ADDRESS + DATA + finish: `none` when the
    data does not fit the 65552-byte send buffer (stun_message_append_bytes fails) -/
def sendIndication (p : PeerAddr) (data txid : Bytes) : Option Bytes :=
  let body := attr 0x0012 (xorPeerValue p txid) ++ attr 0x0013 data
  -- stun_message_append: `mlen + 4 + length > buffer_len` refuses (checked before padding is added)
  let afterAddr := 20 + (attr 0x0012 (xorPeerValue p txid)).length
  if afterAddr + 4 + data.length > STUN_MAX_MESSAGE_SIZE then none
  else some ([0x00, 0x16] ++ be16b body.length ++ STUN_MAGIC_COOKIE ++ txid ++ body)

/-- an attribute as the RFC 3489 compatible agent writes it: the value is zero-padded to a multiple of
    4 and the length field COUNTS the padding (stunmessage.c: "for compatibility with old RFC3489") -/
def attr3489 (type : Nat) (value : Bytes) : Bytes :=
  let padded := value ++ List.replicate ((4 - value.length % 4) % 4) 0
  be16b type ++ be16b padded.length ++ padded

/-- GOOGLE mode, no channel locked: `stun_agent_init_request (STUN_SEND)` + MAGIC-COOKIE + USERNAME +
    DESTINATION-ADDRESS (+ OPTIONS = 1 when the peer is the one being locked) + DATA; 16-byte transaction
    id, no MESSAGE-INTEGRITY (the GOOGLE socket has no password) -/
def sendRequestGoogle (user : Bytes) (p : PeerAddr) (lock : Bool) (data txid16 : Bytes) : Option Bytes :=
  let body := attr3489 0x000f [0x72, 0xc6, 0x4b, 0xc6] ++ (if user.isEmpty then [] else attr3489 0x0006 user) ++
    attr3489 0x0011 ([0, if p.ipv6 then 2 else 1] ++ be16b p.port ++ p.addr) ++
    (if lock then attr3489 0x8001 [0, 0, 0, 1] else []) ++ attr3489 0x0013 data
  if 20 + body.length > STUN_MAX_MESSAGE_SIZE then none
  else some ([0x00, 0x04] ++ be16b body.length ++ txid16 ++ body)

/-- ChannelData: channel, (uint16) length, payload (no padding over UDP) -/
def channelData (chan : Nat) (data : Bytes) : Bytes := be16b chan ++ be16b (data.length % 65536) ++ data

/-! ### queues, permissions -/

def enqueue (q : List (Nat × List (Bytes × Bool))) (peer : Nat) (m : Bytes) (rel : Bool) : List (Nat × List (Bytes × Bool)) :=
  if q.any (·.1 == peer) then q.map (fun e => if e.1 == peer then (e.1, e.2 ++ [(m, rel)]) else e)
  else q ++ [(peer, [(m, rel)])]

/-- `_socket_send_wrapped (base, server, …, reliable)` on a UDP base: reliable sends are refused -/
def baseSend (m : Bytes) (rel : Bool) : Int × List Down := if rel then (-1, []) else (1, [.raw m])

/-- `socket_dequeue_all_data` -/
def dequeueAll (s : St) (peer : Nat) : St × List Down :=
  match s.queues.find? (·.1 == peer) with
  | none => (s, [])
  | some (_, items) =>
    ({ s with queues := s.queues.filter (·.1 != peer) }, (items.map fun (m, rel) => (baseSend m rel).2).flatten)

def markUsed (rs : List Req) (seq : Nat) : List Req := rs.map fun r => if r.seq == seq then { r with valid := false } else r


/-! ### request timers and the two tick sources -/

def setTimer (rs : List Req) (seq : Nat) (t : Nice.Timer.Timer) : List Req :=
  rs.map fun r => if r.seq == seq then { r with timer := t } else r

/-- the CreatePermission request `seq` timed out: the permission is assumed, held data goes out -/
def cpTimeout (s : St) (seq peer : Nat) : St × List Down :=
  let s := { s with cpReqs := markUsed s.cpReqs seq, sentPerms := s.sentPerms.filter (· != peer), pendPerms := s.pendPerms.filter (· != seq), perms := s.perms ++ [peer] }
  dequeueAll s peer

/-- the pending-permission loop of `priv_schedule_tick`: requests whose timer has run out are
    retransmitted or timed out (`priv_retransmissions_create_permission_tick_unlocked`), the others
    give the minimum remaining time.  Returns the new state, the output and that minimum (ms). -/
def tickCps : List Nat → St → List Down → Option Nat → St × List Down × Option Nat
  | [], s, d, m => (s, d, m)
  | seq :: rest, s, d, m =>
    match s.cpReqs.find? (·.seq == seq) with
    | none => tickCps rest s d m
    | some r =>
      let rem := (Nice.Timer.remainder r.timer s.now).toNat
      if rem != 0 then tickCps rest s d (some (match m with | some x => min x rem | none => rem))
      else
        match Nice.Timer.refresh r.timer s.now with
        | (_, .timeout) => let (s, d') := cpTimeout s seq r.peer; tickCps rest s (d ++ d') m
        | (t, .retransmit) =>
          -- the list scan resumes AT the refreshed element: its new remaining time counts for the minimum
          let rem' := (Nice.Timer.remainder t s.now).toNat
          tickCps rest { s with cpReqs := setTimer s.cpReqs seq t } (d ++ [.rcp seq])
            (if rem' != 0 then some (match m with | some x => min x rem' | none => rem') else m)
        | (_, .success) => tickCps rest s d m

/-- second half of `priv_schedule_tick`: one timeout source for the smallest remaining time -/
def scheduleCp (s : St) : St × List Down :=
  let (s, d, m) := tickCps s.pendPerms s [] none
  ({ s with cpSrc := m.map (fun ms => s.now + ms * 1000), cpNewer := m.isSome || s.cpNewer }, d)

/-! ### channel binding -/

/-- the channel number search of `priv_add_channel_binding` (after a hit the scan restarts from the
    SECOND element: the `continue` runs the loop increment) -/
def allocChannel (chans : List Nat) : Nat → List Nat → Nat → Nat
  | 0, _, ch => ch
  | _ + 1, [], ch => ch
  | fuel + 1, c :: rest, ch => if ch == c then allocChannel chans fuel (chans.drop 1) (ch + 1) else allocChannel chans fuel rest ch

/-- `priv_send_channel_bind` + `priv_send_turn_message` (which ends in `priv_schedule_tick`: the
    fresh request arms the channel-bind tick source) -/
def sendChannelBind (s : St) (chan peer : Nat) : St × List Down :=
  let seq := s.cbReqs.length
  let t := Nice.Timer.start s.now 500 3
  let s := { s with cbReqs := s.cbReqs ++ [{ seq := seq, peer := peer, chan := chan, auth := s.cached, timer := t }], curMsg := some seq, cbSrc := some (s.now + (Nice.Timer.remainder t s.now).toNat * 1000), cbNewer := true }
  let (s, d) := scheduleCp s
  (s, [.cb seq chan peer s.cached] ++ d)

/-- `priv_add_channel_binding` -/
def addChannelBinding (s : St) (peer : Nat) : Bool × St × List Down :=
  if s.cur.isSome then (false, { s with pendB := s.pendB ++ [peer] }, [])
  else if s.compat == .google then (true, { s with cur := some (peer, 0) }, [])    -- locked by the next Send response
  else
    let chans := s.channels.map (·.2)
    let ch := allocChannel chans (chans.length * chans.length + chans.length + 1) chans 0x4000
    if ch ≥ 0x4000 && ch < 0xffff then
      let (s, d) := sendChannelBind s ch peer
      (true, { s with cur := some (peer, ch) }, d)
    else (false, s, [])

/-- `priv_process_pending_bindings` (no binding is flagged for renewal in this model) -/
def processPending : Nat → St → List Down → St × List Down
  | 0, s, d => (s, d)
  | fuel + 1, s, d =>
    match s.pendB with
    | [] => (s, d)
    | peer :: rest =>
      let (ret, s, d') := addChannelBinding { s with pendB := rest } peer
      -- the element processed is removed after the call (it may have been re-appended at the end)
      if ret then (s, d ++ d') else processPending fuel s (d ++ d')

/-- `priv_retransmissions_tick_unlocked`: the outstanding ChannelBind request, when its timer has run
    out.  Returns the `ret` flag (TRUE = still running). -/
def tickCbUnlocked (s : St) : St × List Down × Bool :=
  match s.curMsg with
  | none => (s, [], false)
  | some seq =>
    match s.cbReqs.find? (·.seq == seq) with
    | none => (s, [], false)
    | some r =>
      match Nice.Timer.refresh r.timer s.now with
      | (_, .timeout) =>
        -- forget the transaction, drop the binding, start the next pending one
        let s := { s with cbReqs := markUsed s.cbReqs seq, cur := none, curMsg := none }
        let (s, d) := processPending (s.pendB.length + 1) s []
        (s, d, false)
      | (t, .retransmit) =>
        let s := { s with cbReqs := setTimer s.cbReqs seq t }
        -- `if (ret) priv_schedule_tick (priv)`: the request's new timer is armed
        let s := { s with cbSrc := some (s.now + (Nice.Timer.remainder t s.now).toNat * 1000), cbNewer := true }
        let (s, d) := scheduleCp s
        (s, [.rcb seq] ++ d, true)
      | (_, .success) =>
        let s := { s with cbSrc := some (s.now + (Nice.Timer.remainder r.timer s.now).toNat * 1000), cbNewer := true }
        let (s, d) := scheduleCp s
        (s, d, true)

/-- `priv_schedule_tick` -/
def scheduleTick (s : St) : St × List Down :=
  let s := { s with cbSrc := none }
  let (s, d1) : St × List Down :=
    match s.curMsg with
    | none => (s, [])
    | some seq =>
      match s.cbReqs.find? (·.seq == seq) with
      | none => (s, [])
      | some r =>
        let rem := (Nice.Timer.remainder r.timer s.now).toNat
        if rem > 0 then ({ s with cbSrc := some (s.now + rem * 1000), cbNewer := true }, [])
        else let (s, d, _) := tickCbUnlocked s; (s, d)
  let (s, d2) := scheduleCp s
  (s, d1 ++ d2)

/-- `priv_send_create_permission`: returns (sent?, new state, output) -/
def sendCreatePermission (s : St) (peer : Nat) : Bool × St × List Down :=
  let s := if s.sentPerms.contains peer then s else { s with sentPerms := s.sentPerms ++ [peer] }
  let seq := s.cpReqs.length
  -- the reliable attempt fails on UDP, the unreliable retry goes out; then `priv_schedule_tick`
  let s := { s with cpReqs := s.cpReqs ++ [{ seq := seq, peer := peer, auth := s.cached, timer := Nice.Timer.start s.now 500 3 }], pendPerms := s.pendPerms ++ [seq] }
  let (s, d) := scheduleTick s
  (true, s, [.cp seq peer s.cached] ++ d)

/-! ### outgoing wrap: `socket_send_message` -/

def sendMessage (s : St) (peer : Nat) (bufs : List Bytes) (rel : Bool) (txid : Bytes := List.replicate 12 0) : Int × St × List Down :=
  let data := bufs.flatten
  match s.peers[peer]? with
  | none => (-1, s, [])
  | some pa =>
    let wrapped : Option Bytes :=
      match s.compat, s.channels.find? (·.1 == peer) with
      | .google, some _ => some data          -- locked channel: the payload goes to the relay as it is
      | .google, none => sendRequestGoogle s.username pa (match s.cur with | some (p, _) => p == peer | none => false) data (List.replicate 16 0)
      | _, some (_, chan) => if data.length + 4 ≤ STUN_MAX_MESSAGE_SIZE then some (channelData chan data) else none
      | _, none => sendIndication pa data txid
    match wrapped with
    | none => (-1, s, [])
    | some m =>
      if s.compat == .rfc5766 && !s.perms.contains peer then
        -- no permission yet: ask for one (once) and hold the data
        let (ok, s, d) := if s.sentPerms.contains peer then (true, s, []) else sendCreatePermission s peer
        if !ok then (-1, s, d)
        else ((m.length : Nat), { s with queues := enqueue s.queues peer m rel }, d)
      else
        let (r, d) := baseSend m rel
        ((if r == 1 then (m.length : Int) else r), s, d)

/-- `socket_send_messages` / `_reliable` with one message -/
def send (s : St) (peer : Nat) (bufs : List Bytes) (rel : Bool) : Out × St :=
  let (len, s, d) := sendMessage s peer bufs rel
  ({ ret := if len < 0 then -1 else if len == 0 then 0 else 1, down := d }, s)

def setPeer (s : St) (peer : Nat) : Out × St :=
  let (ret, s, d) := addChannelBinding s peer
  ({ ret := if ret then 1 else 0, down := d }, s)

/-! ### answers to CreatePermission / ChannelBind -/

inductive Code where
  | ok | e400 | e401 | e438 | e403
  deriving DecidableEq, Repr

def Code.num : Code → Nat
  | .ok => 0 | .e400 => 400 | .e401 => 401 | .e438 => 438 | .e403 => 403

/-- the answer the harness crafts (transaction id zeroed as printed): header, ERROR-CODE, and REALM
    "realm" + NONCE "nonce" for 401 / 438.  Success answers to authenticated requests carry
    MESSAGE-INTEGRITY (printed zeroed by the harness when such an answer is handed up as data). -/
def replyBytes (cp : Bool) (c : Code) (auth : Bool := false) : Bytes :=
  let body : Bytes :=
    if c == .ok then (if auth then [0, 8, 0, 20] ++ List.replicate 20 0 else [])
    else [0, 9, 0, 4, 0, 0, UInt8.ofNat (c.num / 100), UInt8.ofNat (c.num % 100)] ++
      (if c == .e401 || c == .e438 then
        [0, 0x14, 0, 5, 114, 101, 97, 108, 109, 0, 0, 0, 0, 0x15, 0, 5, 110, 111, 110, 99, 101, 0, 0, 0] else [])
  [if c == .ok then 0x01 else 0x01, (if cp then 0x08 else 0x09) + (if c == .ok then 0x00 else 0x10)] ++
    be16b body.length ++ STUN_MAGIC_COOKIE ++ List.replicate 12 0 ++ body

/-- does stun_agent_validate accept the crafted answer?  (matching live transaction; error codes
    400 / 401 / 438 are exempt from credentials; otherwise MESSAGE-INTEGRITY is required because
    every request was saved with the password as key — present iff the request was authenticated) -/
def validates (r : Req) (c : Code) : Bool :=
  r.valid && (match c with
    | .ok => r.auth
    | .e400 | .e401 | .e438 => true
    | .e403 => false)

/-- "unauthorized, try again with realm and nonce": 438, or 401 unless the realm we sent is the one
    received (the crafted answers always carry realm "realm", requests carry it iff authenticated) -/
def retryWithAuth (r : Req) (c : Code) : Bool := c == .e438 || (c == .e401 && !r.auth)

/-- the `recv:` tail of `nice_udp_turn_socket_parse_recv` for a packet `b`: ChannelData of a bound
    channel is unwrapped, anything else passes through.  `src` = the peer the base socket reported
    (none = the server).  Every read of the packet is bounds-checked (`fault`). -/
def unwrapData (s : St) (b : Bytes) (src : Option Nat) : (Option Nat × Bytes) × St :=
  -- `recv_len >= sizeof (uint32_t) && b->channel == ntohs (recv_buf.u16[0])`: shorter packets match no binding
  if s.compat == .google then
    -- old modes: everything that is not a TURN message comes from the (single) locked peer, unframed
    match s.channels with
    | [] => ((src, b), s)
    | (peer, _) :: _ => ((some peer, b), s)
  else if s.channels.isEmpty || b.length < 4 then ((src, b), s)
  else
    let chan := be16 (b.getD 0 0) (b.getD 1 0)
    match s.channels.find? (·.2 == chan) with
    | none => ((src, b), s)
    | some (peer, _) =>
      -- recv_len = MIN (ntohs (length field), recv_len - 4): never beyond the received datagram
      let n := min (be16 (b.getD 2 0) (b.getD 3 0)) (b.length - 4)
      -- memmove (buf, recv_buf.u8 + 4, MIN (len, n)): reads [4, 4 + n) of a packet of b.length bytes
      let s := if 4 + n > b.length then { s with fault := true } else s
      ((some peer, (b.drop 4).take n), s)

/-- a packet that is not a STUN message the agent validates goes to `recv:` -/
def recvPlain (s : St) (b : Bytes) (src : Option Nat) : Out × St :=
  if b.length == 0 then ({ ret := 0 }, s)    -- message->length == 0: `continue`, not counted
  else
    let (fd, s) := unwrapData s b src
    -- `*message->from = from` only when something was parsed; otherwise the base socket's source stays
    ({ ret := 1, up := [if fd.2.isEmpty then (src, []) else fd] }, s)

/-- the Data indications the model accepts from the relay: `0017 len cookie txid`, then exactly
    XOR-PEER-ADDRESS (naming a peer of the table) and DATA.  Returns (peer index, payload). -/
def parseDataIndication (peers : List PeerAddr) (b : Bytes) : Option (Nat × Bytes) :=
  let txid := (b.drop 8).take 12
  if b.take 2 != [0x00, 0x17] || (b.drop 4).take 4 != STUN_MAGIC_COOKIE then none
  else
    let body := b.drop 20
    if be16 (b.getD 2 0) (b.getD 3 0) != body.length then none
    else
      (List.range peers.length).findSome? fun i =>
        match peers[i]? with
        | none => none
        | some pa =>
          let a1 := attr 0x0012 (xorPeerValue pa txid)
          if body.take a1.length != a1 then none
          else
            let rest := body.drop a1.length
            if rest.take 2 != [0x00, 0x13] then none
            else
              let dl := be16 (rest.getD 2 0) (rest.getD 3 0)
              let data := (rest.drop 4).take dl
              if rest == attr 0x0013 data && data.length == dl then some (i, data) else none

/-- a well-formed Data indication from the server: XOR-PEER-ADDRESS = peer, DATA = data -/
def recvDataIndication (s : St) (peer : Nat) (data : Bytes) : Out × St :=
  let (s, d) :=
    if s.compat == .rfc5766 && !s.perms.contains peer && !s.sentPerms.contains peer then
      let (_, s, d) := sendCreatePermission s peer; (s, d)
    else (s, [])
  ({ ret := 1, up := [if data.isEmpty then (none, []) else (some peer, data)], down := d }, s)

/-- answer to the `seq`-th CreatePermission request -/
def replyCp (s : St) (seq : Nat) (c : Code) : Out × St :=
  match s.cpReqs.find? (·.seq == seq) with
  | none => ({ ret := 0 }, s)
  | some r =>
    if !validates r c then recvPlain s (replyBytes true c r.auth) none
    else
      let s := { s with cpReqs := markUsed s.cpReqs seq }
      if !s.pendPerms.contains seq then ({ ret := 1, up := [(none, [])] }, s)
      else if retryWithAuth r c then
        let s := { s with pendPerms := s.pendPerms.filter (· != seq), cached := true }
        let (_, s, d) := sendCreatePermission s r.peer
        ({ ret := 1, up := [(none, [])], down := d }, s)
      else
        -- success, or an error we pretend is a success: install the permission, flush the held data
        let s := { s with sentPerms := s.sentPerms.filter (· != r.peer), perms := s.perms ++ [r.peer] }
        -- a real success answer arms the periodic 240 s timer that forgets every permission (priv_permission_timeout)
        let s := if c == .ok && s.permSrc.isNone then { s with permSrc := some (s.now + 240000000), cbNewer := false, cpNewer := false } else s
        let (s, d) := dequeueAll s r.peer
        ({ ret := 1, up := [(none, [])], down := d }, { s with pendPerms := s.pendPerms.filter (· != seq) })

/-- answer to the `seq`-th ChannelBind request -/
def replyCb (s : St) (seq : Nat) (c : Code) : Out × St :=
  match s.cbReqs.find? (·.seq == seq) with
  | none => ({ ret := 0 }, s)
  | some r =>
    if !validates r c then recvPlain s (replyBytes false c r.auth) none
    else
      let s := { s with cbReqs := markUsed s.cbReqs seq }
      if s.curMsg != some seq then ({ ret := 1, up := [(none, [])] }, s)
      else
        -- the binding concerned: the new one, or (refresh) the existing binding of the request's peer
        let binding : Option (Nat × Nat) := match s.cur with
          | some b => some b
          | none => s.channels.find? (·.1 == r.peer)
        if c != .ok then
          if retryWithAuth r c then
            let s := { s with curMsg := none, cached := true }
            match binding with
            | some (peer, chan) => let (s, d) := sendChannelBind s chan peer; ({ ret := 1, up := [(none, [])], down := d }, s)
            | none => ({ ret := 1, up := [(none, [])] }, s)
          else
            let (s, d) := processPending (s.pendB.length + 1) { s with cur := none, curMsg := none } []
            ({ ret := 1, up := [(none, [])], down := d }, s)
        else
          let s := { s with curMsg := none, channels := match s.cur with | some b => s.channels ++ [b] | none => s.channels, cur := none }
          let (s, d) := processPending (s.pendB.length + 1) s []
          ({ ret := 1, up := [(none, [])], down := d }, s)


/-! ### the clock -/

/-- the virtual clock advances by `ms` milliseconds and the socket's main context runs: the
    channel-bind tick source (`priv_retransmissions_tick`: when the tick reports "nothing left" the
    source — also one just created for the next pending binding — is destroyed) and the
    create-permission tick source (`priv_retransmissions_create_permission_tick` = `priv_schedule_tick`) -/
def advanceCb (s : St) : St × List Down :=
  match s.cbSrc with
  | some e =>
    if e ≤ s.now then
      let (s, d, ret) := tickCbUnlocked s
      (if ret then s else { s with cbSrc := none }, d)
    else (s, [])
  | none => (s, [])

def advanceCp (s : St) : St × List Down :=
  match s.cpSrc with
  | some e => if e ≤ s.now then scheduleTick s else (s, [])
  | none => (s, [])

def advance (s : St) (ms : Nat) : Out × St :=
  let s := { s with now := s.now + ms * 1000 }
  let permDue := match s.permSrc with | some e => decide (e ≤ s.now) | none => false
  if !permDue then
    let (s, d1) := advanceCb s
    let (s, d2) := advanceCp s
    ({ ret := 0, down := d1 ++ d2 }, s)
  else
    -- the ready sources are dispatched in the order they were attached: those older than the permission timer first
    let cbN := s.cbNewer
    let cpN := s.cpNewer
    let (s, d1) := if !cbN then advanceCb s else (s, [])
    let (s, d2) := if !cpN then advanceCp s else (s, [])
    let s := { s with perms := [], permSrc := some (s.now + 240000000) }
    let (s, d3) := if cbN then advanceCb s else (s, [])
    let (s, d4) := if cpN then advanceCp s else (s, [])
    ({ ret := 0, down := d1 ++ d2 ++ d3 ++ d4 }, s)

end Nice.Turn
