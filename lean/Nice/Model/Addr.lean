/-
  Model of agent/address.c (NiceAddress) and of the libc text conversions it calls
  (`inet_ntop`, `getaddrinfo (AI_NUMERICHOST)` = glibc `__inet_aton_exact`, `inet_pton (AF_INET6)`,
  `__inet6_scopeid_pton`).  Core Lean only.

  * A `NiceAddress` is the union of a `sockaddr_in` and a `sockaddr_in6`; the model keeps the
    family, the address bytes in network order (4 or 16), the port as the host-order value of
    `sin_port` and the IPv6 `sin6_scope_id`.
  * Text is a list of bytes (a C string without its terminating NUL).
  * `g_return_val_if_reached` paths return the C value (FALSE / 0) and are reported separately by the
    `…Reached` predicates (one GLib critical each).
  * Interface *names* as IPv6 scope (`fe80::1%eth0`) depend on the host and are not modelled: a
    non-numeric scope is a parse failure (the generators never produce an existing interface name).
-/
import Nice.Gen.Kernels
namespace Nice.Addr
open Nice.Gen

abbrev Text := List UInt8

inductive Family where
  | none | v4 | v6
  deriving DecidableEq, Repr, Inhabited

structure Address where
  family : Family := .none
  /-- `sin_addr` (4 bytes) or `sin6_addr` (16 bytes), network order -/
  bytes : List UInt8 := []
  /-- host-order value of `sin_port` / `sin6_port` -/
  port : UInt16 := 0
  /-- `sin6_scope_id` (IPv6 only) -/
  scope : UInt32 := 0
  deriving DecidableEq, Repr, Inhabited

/-- `nice_address_init` / a zeroed `NiceAddress` (AF_UNSPEC) -/
def Address.unset : Address := {}

/-! ## address.c -/

def isValid (a : Address) : Bool :=
  match a.family with
  | .v4 => true
  | .v6 => true
  | .none => false

def ipVersion (a : Address) : Nat :=
  match a.family with
  | .v4 => 4
  | .v6 => 6
  | .none => 0

/-- `nice_address_set_port (addr, guint port)`: `htons (port)` truncates to 16 bits; other families
    hit `g_return_if_reached` and leave the address alone -/
def setPort (a : Address) (port : UInt32) : Address :=
  match a.family with
  | .v4 => { a with port := port.toUInt16 }
  | .v6 => { a with port := port.toUInt16 }
  | .none => a

def getPort (a : Address) : UInt32 :=
  match a.family with
  | .v4 => a.port.toUInt32
  | .v6 => a.port.toUInt32
  | .none => 0

/-- `s_addr` as the little-endian host loads the four network-order bytes -/
def sAddr (b : List UInt8) : UInt32 :=
  (b.getD 0 0).toUInt32 ||| ((b.getD 1 0).toUInt32 <<< 8) ||| ((b.getD 2 0).toUInt32 <<< 16) |||
    ((b.getD 3 0).toUInt32 <<< 24)

def bytePtr (b : List UInt8) : Nat → UInt8 := fun i => b.getD i 0

/-- `nice_address_equal` -/
def equal (a b : Address) : Bool :=
  if a.family != b.family then false else
  match a.family with
  | .v4 => a.bytes == b.bytes && a.port == b.port
  | .v6 => a.bytes == b.bytes && a.port == b.port &&
           (a.scope == 0 || b.scope == 0 || a.scope == b.scope)
  | .none => false

/-- `nice_address_equal_no_port` -/
def equalNoPort (a b : Address) : Bool :=
  if a.family != b.family then false else
  match a.family with
  | .v4 => a.bytes == b.bytes
  | .v6 => a.bytes == b.bytes && (a.scope == 0 || b.scope == 0 || a.scope == b.scope)
  | .none => false

/-- both families are AF_UNSPEC: `g_return_val_if_reached (FALSE)` -/
def equalReached (a b : Address) : Bool := a.family == .none && b.family == .none

/-- `nice_address_is_private` (calls the translated kernels) -/
def isPrivate (a : Address) : Bool :=
  match a.family with
  | .v4 => ipv4_address_is_private (sAddr a.bytes) != 0
  | .v6 => ipv6_address_is_private (bytePtr a.bytes) != 0
  | .none => false

/-- `nice_address_is_linklocal` -/
def isLinklocal (a : Address) : Bool :=
  match a.family with
  | .v4 => ipv4_address_is_linklocal (sAddr a.bytes) != 0
  | .v6 => ipv6_address_is_linklocal (bytePtr a.bytes) != 0
  | .none => false

/-! ## number formatting (printf `%d`, `%u`, `%x`) -/

def digit (n : Nat) : UInt8 := (48 + n).toUInt8

def decAux : Nat → Nat → Text → Text
  | 0, _, acc => acc
  | f + 1, n, acc => if n < 10 then digit n :: acc else decAux f (n / 10) (digit (n % 10) :: acc)

/-- decimal digits of `n`, no leading zeros, "0" for 0 -/
def decDigits (n : Nat) : Text := decAux (n + 1) n []

def hexDigit (n : Nat) : UInt8 := if n < 10 then (48 + n).toUInt8 else (87 + n).toUInt8

def hexAux : Nat → Nat → Text → Text
  | 0, _, acc => acc
  | f + 1, n, acc => if n < 16 then hexDigit n :: acc else hexAux f (n / 16) (hexDigit (n % 16) :: acc)

/-- printf `%x` -/
def hexDigits (n : Nat) : Text := hexAux (n + 1) n []

/-- printf `%d` of a C `int` value -/
def fmtD (x : Int) : Text := if x < 0 then 45 :: decDigits x.natAbs else decDigits x.toNat

/-! ## inet_ntop -/

/-- `inet_ntop (AF_INET)`: "%u.%u.%u.%u" -/
def ntop4 (b : List UInt8) : Text :=
  decDigits (b.getD 0 0).toNat ++ 46 :: decDigits (b.getD 1 0).toNat ++ 46 ::
    decDigits (b.getD 2 0).toNat ++ 46 :: decDigits (b.getD 3 0).toNat

def words6 (b : List UInt8) : List Nat :=
  (List.range 8).map fun i => (b.getD (2 * i) 0).toNat * 256 + (b.getD (2 * i + 1) 0).toNat

/-- the run search of glibc `inet_ntop6`: longest run of zero words, leftmost on ties -/
def bestRunAux : List Nat → Nat → Option (Nat × Nat) → Option (Nat × Nat) → Option (Nat × Nat)
  | [], _, cur, best =>
    match cur with
    | some (cb, cl) =>
      (match best with
       | none => some (cb, cl)
       | some (bb, bl) => if cl > bl then some (cb, cl) else some (bb, bl))
    | none => best
  | w :: ws, i, cur, best =>
    if w == 0 then
      match cur with
      | none => bestRunAux ws (i + 1) (some (i, 1)) best
      | some (cb, cl) => bestRunAux ws (i + 1) (some (cb, cl + 1)) best
    else
      match cur with
      | some (cb, cl) =>
        let best' := match best with
          | none => some (cb, cl)
          | some (bb, bl) => if cl > bl then some (cb, cl) else some (bb, bl)
        bestRunAux ws (i + 1) none best'
      | none => bestRunAux ws (i + 1) none best

def bestRun (ws : List Nat) : Option (Nat × Nat) :=
  match bestRunAux ws 0 none none with
  | some (b, l) => if l < 2 then none else some (b, l)
  | none => none

def ntop6Aux (src : List UInt8) (ws : List Nat) (best : Option (Nat × Nat)) : Nat → Nat → Text → Text
  | 0, _, acc => acc
  | f + 1, i, acc =>
    if i ≥ 8 then acc else
    let inRun := match best with
      | some (b, l) => b ≤ i && i < b + l
      | none => false
    if inRun then
      let acc := if (match best with | some (b, _) => i == b | none => false) then acc ++ [58] else acc
      ntop6Aux src ws best f (i + 1) acc
    else
      let acc := if i != 0 then acc ++ [58] else acc
      let v4 := match best with
        | some (b, l) => i == 6 && b == 0 && (l == 6 || (l == 5 && ws.getD 5 0 == 0xffff))
        | none => false
      if v4 then acc ++ ntop4 (src.drop 12)
      else ntop6Aux src ws best f (i + 1) (acc ++ hexDigits (ws.getD i 0))

/-- `inet_ntop (AF_INET6)` as implemented by glibc -/
def ntop6 (b : List UInt8) : Text :=
  let ws := words6 b
  let best := bestRun ws
  let body := ntop6Aux b ws best 9 0 []
  match best with
  | some (bb, l) => if bb + l == 8 then body ++ [58] else body
  | none => body

/-- `nice_address_to_string`; for AF_UNSPEC the destination buffer is left untouched (`[]` here) -/
def toString (a : Address) : Text :=
  match a.family with
  | .v4 => ntop4 a.bytes
  | .v6 => ntop6 a.bytes
  | .none => []

/-! ## getaddrinfo (AI_NUMERICHOST) -/

def isDigit (c : UInt8) : Bool := 48 ≤ c && c ≤ 57

/-- value of an alphanumeric character as a digit (`strtoul`): 0-9, a-z / A-Z = 10… -/
def alnumVal (c : UInt8) : Option Nat :=
  if 48 ≤ c && c ≤ 57 then some (c.toNat - 48)
  else if 97 ≤ c && c ≤ 122 then some (c.toNat - 87)
  else if 65 ≤ c && c ≤ 90 then some (c.toNat - 55)
  else none

def hexVal (c : UInt8) : Option Nat :=
  match alnumVal c with
  | some v => if v < 16 then some v else none
  | none => none

/-- consume the digits of base `b`; exact (unbounded) value and the rest -/
def digitsBase (b : Nat) : Text → Nat → Nat × Text
  | [], acc => (acc, [])
  | c :: rest, acc =>
    match alnumVal c with
    | some v => if v < b then digitsBase b rest (acc * b + v) else (acc, c :: rest)
    | none => (acc, c :: rest)

/-- `strtoul (cp, &end, 0)` when `cp[0]` is a digit: exact value and the rest of the string -/
def strtoul0 (s : Text) : Nat × Text :=
  match s with
  | 48 :: x :: h :: rest =>
    if (x == 120 || x == 88) && (hexVal h).isSome then digitsBase 16 (h :: rest) 0
    else digitsBase 8 s 0
  | 48 :: _ => digitsBase 8 s 0
  | _ => digitsBase 10 s 0

def beBytes : Nat → Nat → List UInt8
  | 0, _ => []
  | n + 1, v => (v / 256 ^ n % 256).toUInt8 :: beBytes n v

def atonMax (n : Nat) : Nat :=
  match n with
  | 0 => 0xffffffff
  | 1 => 0xffffff
  | 2 => 0xffff
  | _ => 0xff

/-- glibc `inet_aton_end` + the `*endp == 0` test of `__inet_aton_exact` -/
def atonLoop : Nat → Text → List UInt8 → Option (List UInt8)
  | 0, _, _ => none
  | f + 1, s, pp =>
    match s with
    | [] => none
    | c :: _ =>
      if !isDigit c then none else
      let (val, rest) := strtoul0 s
      if val > 0xffffffff then none else
      match rest with
      | 46 :: rest' =>
        if pp.length > 2 || val > 0xff then none else atonLoop f rest' (pp ++ [val.toUInt8])
      | [] => if val > atonMax pp.length then none else some (pp ++ beBytes (4 - pp.length) val)
      | _ => none

def aton (s : Text) : Option (List UInt8) := atonLoop (s.length + 1) s []

/-- glibc `inet_pton4` (strict dotted quad, no leading zeros) -/
def pton4Loop : Text → List UInt8 → Nat → Bool → Nat → Option (List UInt8)
  | [], fin, cur, _, octets => if octets < 4 then none else some (fin ++ [cur.toUInt8])
  | ch :: rest, fin, cur, saw, octets =>
    if isDigit ch then
      let new := cur * 10 + (ch.toNat - 48)
      if saw && cur == 0 then none
      else if new > 255 then none
      else if !saw then (if octets + 1 > 4 then none else pton4Loop rest fin new true (octets + 1))
      else pton4Loop rest fin new true octets
    else if ch == 46 && saw then
      if octets == 4 then none else pton4Loop rest (fin ++ [cur.toUInt8]) 0 false octets
    else none

def pton4 (s : Text) : Option (List UInt8) := pton4Loop s [] 0 false 0

structure P6 where
  tp : List UInt8 := []
  colonp : Option Nat := none
  seen : Nat := 0
  val : Nat := 0

/-- main loop of glibc `inet_pton6`; second argument is `curtok` -/
def pton6Loop : Text → Text → P6 → Option P6
  | [], _, st => some st
  | ch :: rest, curtok, st =>
    match hexVal ch with
    | some d =>
      if st.seen == 4 then none else
      let val := st.val * 16 + d
      if val > 0xffff then none else pton6Loop rest curtok { st with val := val, seen := st.seen + 1 }
    | none =>
      if ch == 58 then
        if st.seen == 0 then
          if st.colonp.isSome then none
          else pton6Loop rest rest { st with colonp := some st.tp.length }
        else if rest.isEmpty then none
        else if st.tp.length + 2 > 16 then none
        else pton6Loop rest rest
          { st with tp := st.tp ++ [(st.val / 256 % 256).toUInt8, (st.val % 256).toUInt8], seen := 0, val := 0 }
      else if ch == 46 && st.tp.length + 4 ≤ 16 then
        match pton4 curtok with
        | some b => some { st with tp := st.tp ++ b, seen := 0 }
        | none => none
      else none

def pton6 (s : Text) : Option (List UInt8) :=
  match s with
  | [] => none
  | c :: rest =>
    let src? : Option Text :=
      if c == 58 then
        (match rest with
         | 58 :: _ => some rest
         | _ => none)
      else some s
    match src? with
    | none => none
    | some src =>
      match pton6Loop src src {} with
      | none => none
      | some st =>
        let tp? : Option (List UInt8) :=
          if st.seen > 0 then
            (if st.tp.length + 2 > 16 then none
             else some (st.tp ++ [(st.val / 256 % 256).toUInt8, (st.val % 256).toUInt8]))
          else some st.tp
        match tp? with
        | none => none
        | some tp =>
          match st.colonp with
          | some c =>
            if tp.length == 16 then none
            else some (tp.take c ++ List.replicate (16 - tp.length) 0 ++ tp.drop c)
          | none => if tp.length != 16 then none else some tp

/-- glibc `__inet6_scopeid_pton`, numeric branch (interface names are not modelled) -/
def scopeidPton (s : Text) : Option UInt32 :=
  match s with
  | [] => none
  | c :: _ =>
    if !isDigit c then none else
    let (v, rest) := digitsBase 10 s 0
    if rest.isEmpty && v ≤ 0xffffffff then some (UInt32.ofNat v) else none

def splitPercent : Text → Text × Option Text
  | [] => ([], none)
  | c :: rest =>
    if c == 37 then ([], some rest) else
    let (h, sc) := splitPercent rest
    (c :: h, sc)

/-- `nice_address_set_from_string`: `getaddrinfo (str, NULL, {AF_UNSPEC, AI_NUMERICHOST})`,
    result copied whole (port 0) -/
def fromString (s : Text) : Option Address :=
  match aton s with
  | some b => some { family := .v4, bytes := b, port := 0, scope := 0 }
  | none =>
    let (host, sc) := splitPercent s
    match pton6 host with
    | none => none
    | some b =>
      match sc with
      | none => some { family := .v6, bytes := b, port := 0, scope := 0 }
      | some t =>
        match scopeidPton t with
        | some id => some { family := .v6, bytes := b, port := 0, scope := id }
        | none => none

end Nice.Addr
