/-
  Model of socket/http.c (HTTP CONNECT client).

  The reply is parsed out of a ring buffer `recv_buf` (`ring`, physical contents incl. stale and
  never-written bytes = `heapJunk`), `recv_buf_length` = `ring.size`, `recv_buf_pos` = `pos`,
  `recv_buf_fill` = `fill`.  Mirrored quirks:
   * the ring is grown with g_realloc (contents kept at the same physical offsets, new tail
     uninitialised) even when it is wrapped, which breaks the logical order;
   * the Content-Length digit loop reads GET_BYTE(pos) with pos == fill (one byte past the data
     received so far: stale or uninitialised);
   * the end-of-line scan stops when byte(pos) == '\r' OR byte(pos+1) == '\n';
   * once CONNECTED, bytes left in the ring are copied into the caller's buffer by overwriting
     `buffers[j].size`; `NiceInputMessage.length` is NOT set although 1 is returned.
  Every g_assert of assert_ring_buffer_valid and every ring index is checked: `fault`.
-/
import Nice.Model.SockBase
namespace Nice.Http
open Nice.Sock

inductive State where
  | init | headers | body | connected | error
  deriving DecidableEq, Repr

structure St where
  state : State := .init
  ring  : Array UInt8 := #[]
  pos   : Nat := 0
  fill  : Nat := 0
  contentLength : Nat := 0
  queue : List Bytes := []
  fault : Bool := false
  deriving Repr, DecidableEq

def G_MAXSIZE : Nat := 2^64 - 1
/-- initial size of the receive ring (`MAX (recv_buf_length * 2, 1024)`) -/
def RING_MIN : Nat := 1024

def b64char (n : Nat) : UInt8 :=
  UInt8.ofNat (if n < 26 then 65 + n else if n < 52 then 97 + (n - 26) else if n < 62 then 48 + (n - 52)
               else if n == 62 then 43 else 47)

/-- g_base64_encode -/
def base64 : Bytes → Bytes
  | [] => []
  | [a] => [b64char (a.toNat / 4), b64char ((a.toNat % 4) * 16), 61, 61]
  | [a, b] => [b64char (a.toNat / 4), b64char ((a.toNat % 4) * 16 + b.toNat / 16), b64char ((b.toNat % 16) * 4), 61]
  | a :: b :: c :: rest =>
    [b64char (a.toNat / 4), b64char ((a.toNat % 4) * 16 + b.toNat / 16),
     b64char ((b.toNat % 16) * 4 + c.toNat / 64), b64char (c.toNat % 64)] ++ base64 rest

def str (s : String) : Bytes := s.toUTF8.toList

/-- the CONNECT request written by `nice_http_socket_new` (no extra headers) -/
def request (host : String) (port : Nat) (user pass : Option Bytes) : Bytes :=
  str s!"CONNECT {host}:{port} HTTP/1.0\r\nHost: {host}\r\nUser-Agent: libnice\r\nContent-Length: 0\r\nProxy-Connection: Keep-Alive\r\nConnection: Keep-Alive\r\nCache-Control: no-cache\r\nPragma: no-cache\r\n"
  ++ (match user with
      | some u => str "Proxy-Authorization: Basic " ++ base64 (u ++ [58] ++ pass.getD []) ++ str "\r\n"
      | none => [])
  ++ str "\r\n"

def new (host : String) (port : Nat) (user pass : Option Bytes) (b : Base) : Res × St :=
  ({ ret := 0, down := flushDown b [request host port user pass] }, {})

/-- `assert_ring_buffer_valid` -/
def ringValid (s : St) : Bool :=
  s.fill ≤ s.ring.size && (s.pos == 0 || s.pos < s.ring.size)

/-- GET_BYTE (p): `recv_buf[(p + recv_buf_pos) % recv_buf_length]` -/
def getByte (s : St) (p : Nat) : UInt8 := s.ring.getD ((p + s.pos) % s.ring.size) 0

/-- scatter `bs` into the ring starting at physical offset `off` (no wrap inside one vector) -/
def writeAt (ring : Array UInt8) (off : Nat) : Bytes → Array UInt8
  | [] => ring
  | x :: xs => writeAt (ring.setIfInBounds off x) (off + 1) xs

/-- EAT_WHITESPACE: returns the new pos -/
def eatWs (s : St) : Nat → Nat → Nat
  | 0, p => p
  | fuel + 1, p => if p < s.fill && getByte s p == 32 then eatWs s fuel (p + 1) else p

/-- `while (pos + 1 < fill && GET_BYTE (pos) != '\r' && GET_BYTE (pos + 1) != '\n') pos++` -/
def skipLine (s : St) : Nat → Nat → Nat
  | 0, p => p
  | fuel + 1, p =>
    if p + 1 < s.fill && getByte s p != 13 && getByte s (p + 1) != 10 then skipLine s fuel (p + 1) else p

def isCL (s : St) : Bool :=
  let g (i : Nat) (a b : Nat) : Bool := (getByte s i).toNat == a || (getByte s i).toNat == b
  15 < s.fill && g 0 67 99 && g 1 111 79 && g 2 110 78 && g 3 116 84 && g 4 101 69 && g 5 110 78 &&
  g 6 116 84 && (getByte s 7).toNat == 45 && g 8 76 108 && g 9 101 69 && g 10 110 78 && g 11 103 71 &&
  g 12 116 84 && g 13 104 72 && (getByte s 14).toNat == 58

inductive ClRes where
  | done (pos : Nat) (cl : Nat)   -- fell out of the loop
  | notEnough (cl : Nat)
  | err

/-- the strtoul-on-a-ring loop -/
def clLoop (s : St) : Nat → Nat → Nat → ClRes
  | 0, p, cl => .done p cl
  | fuel + 1, p, cl =>
    let byte := getByte s p
    if byte == 13 then .done p cl
    else if !(48 ≤ byte.toNat && byte.toNat ≤ 57) then .err
    else
      let val := byte.toNat - 48
      if cl > G_MAXSIZE / 10 || cl * 10 > G_MAXSIZE - val then .done p 0
      else
        let cl := cl * 10 + val
        if p + 1 > s.fill then .notEnough cl else clLoop s fuel (p + 1) cl

inductive HdrRes where
  | goOn (pos : Nat) (s : St)
  | notEnough (s : St)
  | err (s : St)

def consume (s : St) (n : Nat) : St :=
  { s with pos := (s.pos + n) % s.ring.size, fill := s.fill - n }

/-- label `error:` -/
def fail (s : St) (b : Base) : Res × St × Base :=
  ({ ret := -1 }, { s with state := .error }, { b with freed := true })

/-- `memcpy_ring_buffer_to_buffer` into a buffer of `cap` bytes: returns the bytes and the new state -/
def ringPop (s : St) (cap : Nat) : Bytes × St :=
  let n := min s.fill cap
  let bytes := (List.range n).map (fun i => getByte s i)
  (bytes, consume s n)

/-- the `switch (priv->state)` with its `goto retry`s -/
def parse (ucap : Nat) : Nat → St → Base → Res × St × Base
  | 0, s, b => ({ ret := 0 }, { s with fault := true }, b)
  | fuel + 1, s, b =>
    match s.state with
    | .init =>
      let p := eatWs s (s.fill + 1) 0
      if p ≥ s.fill then ({ ret := 0 }, s, b)
      else if p + 7 > s.fill then ({ ret := 0 }, s, b)
      else if getByte s p != 72 || getByte s (p+1) != 84 || getByte s (p+2) != 84 || getByte s (p+3) != 80 ||
              getByte s (p+4) != 47 || getByte s (p+5) != 49 || getByte s (p+6) != 46 then fail s b
      else
        let p := p + 7
        if p ≥ s.fill then ({ ret := 0 }, s, b)
        else if getByte s p != 48 && getByte s p != 49 then fail s b
        else
          let p := p + 1
          if p ≥ s.fill then ({ ret := 0 }, s, b)
          else if getByte s p != 32 then fail s b
          else
            let p := eatWs s (s.fill + 1) p
            if p ≥ s.fill then ({ ret := 0 }, s, b)
            else if p + 3 > s.fill then ({ ret := 0 }, s, b)
            else if getByte s p != 50 || (getByte s (p+1)).toNat < 48 || (getByte s (p+1)).toNat > 57 ||
                    (getByte s (p+2)).toNat < 48 || (getByte s (p+2)).toNat > 57 then fail s b
            else
              let p := skipLine s (s.fill + 1) p
              if p + 1 ≥ s.fill then ({ ret := 0 }, s, b)
              else
                let p := p + 2
                parse ucap fuel { consume s p with contentLength := 0, state := .headers } b
    | .headers =>
      let r : HdrRes :=
        if isCL s then
          let p := eatWs s (s.fill + 1) 15
          if p ≥ s.fill then .notEnough s
          else match clLoop s (s.fill + 2) p 0 with
            | .done p cl => .goOn p { s with contentLength := cl }
            | .notEnough cl => .notEnough { s with contentLength := cl }
            | .err => .err { s with contentLength := 0 }
        else .goOn 0 s
      match r with
      | .notEnough s => ({ ret := 0 }, s, b)
      | .err s => fail s b
      | .goOn p s =>
        let p := skipLine s (s.fill + 1) p
        if p + 1 ≥ s.fill then ({ ret := 0 }, s, b)
        else
          let p := p + 2
          let s := consume s p
          parse ucap fuel (if p == 2 then { s with state := .body } else s) b
    | .body =>
      if s.contentLength == 0 then parse ucap fuel { s with state := .connected } b
      else if s.fill == 0 then ({ ret := 0 }, s, b)
      else
        let n := min s.contentLength s.fill
        parse ucap fuel { consume s n with contentLength := s.contentLength - n } b
    | .connected =>
      -- memcpy_ring_buffer_to_input_messages with one message of one buffer, then flush the queue
      if s.fill > 0 then
        let (bytes, s) := ringPop s ucap
        ({ ret := 1, up := [{ data := [], clob := some bytes }], down := flushDown b s.queue },
         { s with queue := [] }, b)
      else ({ ret := 0, down := flushDown b s.queue }, { s with queue := [] }, b)
    | .error => fail s b

/-- the two GInputVectors handed to the base socket: vector 0 = (physical offset, size), vector 1 starts
    at physical offset 0 with the returned size -/
def window (s : St) : Nat × Nat × Nat :=
  let len := s.ring.size
  let wrapped := s.pos + s.fill > len
  (if wrapped then (s.pos + s.fill) % len else s.pos + s.fill,
   if wrapped then len - s.fill else len - (s.pos + s.fill),
   if wrapped then 0 else s.pos)

/-- `socket_recv_messages` (one message, one caller buffer of `ucap` bytes) -/
def recv (s : St) (b : Base) (ucap : Nat := 65536) (ringMin : Nat := RING_MIN) : Res × St × Base :=
  if s.state == .connected then
    if b.freed then ({ ret := -1 }, s, b)
    else
      let ((ret, bytes), b) := b.read ucap
      if ret ≤ 0 then ({ ret := ret }, s, b) else ({ ret := ret, up := [{ data := bytes }] }, s, b)
  else
    -- grow the ring when full (g_realloc keeps physical contents; new bytes are uninitialised)
    let s := if s.fill == s.ring.size then
               let newLen := max (s.ring.size * 2) ringMin
               { s with ring := s.ring ++ Array.replicate (newLen - s.ring.size) heapJunk }
             else s
    let s := if ringValid s then s else { s with fault := true }
    let len := s.ring.size
    let (v0off, v0sz, v1sz) := window s
    if b.freed then ({ ret := -1 }, s, b)
    else
      let ((ret, bytes), b) := b.read (v0sz + v1sz)
      if ret ≤ 0 then ({ ret := ret }, s, b)
      else
        let s := if v0off + v0sz > len then { s with fault := true } else s
        let ring := writeAt s.ring v0off (bytes.take v0sz)
        let ring := writeAt ring 0 (bytes.drop v0sz)
        let s := { s with ring := ring, fill := s.fill + bytes.length }
        let s := if ringValid s then s else { s with fault := true }
        parse ucap (s.fill + 4) s b

def send (s : St) (b : Base) (bufs : List Bytes) (reliable : Bool) : Res × St :=
  match s.state with
  | .connected =>
    if b.freed then ({ ret := -1 }, s)
    else if b.sendRet < 0 then ({ ret := -1 }, s)
    else ({ ret := 1, down := [bufs.flatten] }, s)
  | .error => ({ ret := -1 }, s)
  | _ => if reliable then ({ ret := 1 }, { s with queue := queueSend s.queue bufs }) else ({ ret := 0 }, s)

end Nice.Http
