/-
  Model of the agent-level ICE-TCP (RFC 4571) framing in agent/agent.c.

  Receive: `agent_recv_message_unlocked`, reliable / TCP_BSD branch, with the component's
  `rfc4571_*` fields, and `agent_consume_next_rfc4571_chunk` (non-bytestream agent: a frame is
  handed to the caller whole).  `buf` = rfc4571_buffer[0 .. rfc4571_buffer_offset) (so `buf.length`
  is `rfc4571_buffer_offset`); capacity `BUFSIZE` = sizeof (guint16) + G_MAXUINT16.
  `handled payload` abstracts what happens to a frame after it has been extracted (a frame that
  passes the STUN length test goes to conn_check_handle_inbound_stun and may be consumed
  out-of-band); the framing logic does not depend on it.

  Send: `nice_agent_send_messages_nonblocking_internal`, reliable-socket branch: messages are cut
  into packets of at most 0xF800 bytes, each prefixed with a 2-byte length and handed to the TCP
  socket (first packet unreliably, the following ones reliably).  As fixed in a5ed163 the scatter
  entry for the buffer in which a packet starts is MIN (size - offset_in_buffer, packet_len) bytes
  long; `fault` records any entry that would leave its buffer.
-/
import Nice.Model.SendQueue
namespace Nice.Rfc4571
open Nice.Sock

def BUFSIZE : Nat := 2 + 65535
def MAX_PACKET : Nat := 0xF800

def RECV_ERROR : Int := -2
def RECV_WOULD_BLOCK : Int := -1
def RECV_OOB : Int := 0
def RECV_SUCCESS : Int := 1

structure St where
  buf   : Bytes := []
  fo    : Nat := 0     -- rfc4571_frame_offset
  fs    : Nat := 0     -- rfc4571_frame_size
  cs    : Nat := 0     -- rfc4571_consumed_size
  wk    : Bool := false
  fault : Bool := false
  deriving Repr, DecidableEq

/-- `nice_component_compute_rfc4571_headroom` (guint subtraction) -/
def headroom (s : St) : Nat := s.buf.length - s.fo

def frameSizeAt (s : St) : Nat := 2 + be16 (s.buf.getD s.fo 0) (s.buf.getD (s.fo + 1) 0)

/-- `agent_consume_next_rfc4571_chunk` when the frame is fully consumed -/
def advance (s : St) : St :=
  let s := { s with fo := s.fo + s.fs, fs := 0, cs := 0 }
  let s := if s.fo > s.buf.length then { s with fault := true } else s
  if headroom s ≥ 2 then
    let s := { s with fs := frameSizeAt s }
    { s with wk := headroom s ≥ s.fs }
  else { s with wk := false }

/-- the `have_whole_frame` branch followed by `agent_consume_next_rfc4571_chunk`: the cached frame at
    `frame_offset` is handed to the caller (or consumed out-of-band) and the offsets advance -/
def deliver (handled : Bytes → Bool) (s : St) (b : Base) (ucap : Nat := 65536) : Res × St × Base :=
  let payload := (s.buf.drop (s.fo + 2)).take (s.fs - 2)
  let s := if s.fo + s.fs > s.buf.length then { s with fault := true } else s
  if payload.length == 0 then ({ ret := RECV_OOB }, advance s, b)
  else if handled payload then ({ ret := RECV_OOB }, advance s, b)
  else
    -- agent_consume_next_rfc4571_chunk (provided_message): not bytestream -> always fully consumed
    ({ ret := RECV_SUCCESS, up := [{ data := payload.take ucap }] },
     advance { s with cs := s.cs + (payload.take ucap).length }, b)

/-- the `missing_cached_data` branch with bytes available: memmove the unconsumed bytes to the front
    and read behind them; then learn the frame size if it was unknown.  Returns (sockret, state, base) -/
def refill (s : St) (b : Base) : Int × St × Base :=
  let hr := headroom s
  let s1 : St := { s with buf := s.buf.drop s.fo, fo := 0 }
  let s1 := if hr > BUFSIZE then { s1 with fault := true } else s1
  let r := b.read (BUFSIZE - hr)
  let s2 : St := if r.1.1 == 1 then { s1 with buf := s1.buf ++ r.1.2 } else s1
  let s3 := if s2.fs == 0 && headroom s2 ≥ 2 then { s2 with fs := frameSizeAt s2 } else s2
  (r.1.1, s3, r.2)

/-- `agent_recv_message_unlocked` on a reliable TCP_BSD socket; caller buffer of `ucap` bytes -/
def recv (handled : Bytes → Bool) (s : St) (b : Base) (ucap : Nat := 65536) : Res × St × Base :=
  let s := if s.fo > s.buf.length then { s with fault := true } else s
  let missing := s.fs == 0 || headroom s < s.fs
  let x : Int × St × Base :=
    if missing then
      if b.pend.length == 0 then
        -- g_socket_get_available_bytes <= 0: nothing read; a closed peer is detected by a peek
        ((if b.eof then -1 else 0),
         (if s.fs == 0 && headroom s ≥ 2 then { s with fs := frameSizeAt s } else s), b)
      else refill s b
    else (0, s, b)
  let sockret := x.1
  let s := x.2.1
  let b := x.2.2
  if s.fs != 0 && headroom s ≥ s.fs then deliver handled s b ucap
  else
    let sockret := if sockret == 1 then 0 else sockret
    if sockret == 0 then ({ ret := RECV_WOULD_BLOCK }, s, b)
    else ({ ret := RECV_ERROR }, s, b)

/-! ### send -/

/-- first loop: which buffer does the packet start in.  Returns (j, offset_in_buffer, current_offset) -/
def findStart : List Bytes → (j offset currentOffset : Nat) → Nat × Nat × Nat
  | [], j, _, cur => (j, 0, cur)
  | b :: rest, j, offset, cur =>
    if b.length ≤ offset - cur then findStart rest (j + 1) offset (cur + b.length)
    else (j, offset - cur, offset)

/-- second loop: scatter entries from buffer j on. Returns (entries, over-read?, bytes added to offset) -/
def gather : List Bytes → (oib packetLen : Nat) → List Bytes × Bool × Nat
  | [], _, _ => ([], false, 0)
  | b :: rest, oib, packetLen =>
    let size := min (b.length - oib) packetLen
    let entry := (b.drop oib).take size
    let over := oib + size > b.length
    let (es, o, n) := gather rest 0 (packetLen - size)
    (entry :: es, over || o, size + n)

structure SendSt where
  q     : SendQueue.St := {}
  k     : SendQueue.Kernel := {}
  fault : Bool := false
  deriving Repr, DecidableEq

/-- the `while (message_len > 0)` loop -/
def sendLoop (bufs : List Bytes) : Nat → (messageLen offset : Nat) → (nSent : Int) → SendSt → List Bytes →
    Int × SendSt × List Bytes
  | 0, _, _, nSent, st, w => (nSent, st, w)
  | fuel + 1, messageLen, offset, nSent, st, w =>
    if messageLen == 0 then (nSent, st, w)
    else
      let packetLen := if messageLen > MAX_PACKET then MAX_PACKET else messageLen
      let messageLen := messageLen - packetLen
      let hdr : Bytes := [UInt8.ofNat (packetLen / 256), UInt8.ofNat (packetLen % 256)]
      let (j, oib, cur) := findStart bufs 0 offset 0
      let (entries, over, added) := gather (bufs.drop j) oib packetLen
      let st := if over then { st with fault := true } else st
      let offset := offset + added
      let (r, q, k) := if cur == 0 then SendQueue.send st.q st.k (hdr :: entries)
                       else SendQueue.sendReliable st.q st.k (hdr :: entries)
      let st := { st with q := q, k := k }
      let w := w ++ r.down
      let nSent := if r.ret < 0 && nSent == 0 then r.ret else nSent
      if r.ret != 1 then (nSent, st, w)
      else
        let nSent := if messageLen == 0 then nSent + 1 else nSent
        sendLoop bufs fuel messageLen offset nSent st w

/-- `nice_agent_send_messages_nonblocking` with one message on the selected reliable socket -/
def send (st : SendSt) (bufs : List Bytes) : Res × SendSt :=
  let total := (bufs.map List.length).sum
  let (nSent, st, w) := sendLoop bufs (total / MAX_PACKET + 2) total 0 0 st []
  ({ ret := if nSent ≤ 0 then -1 else nSent, down := w }, st)

end Nice.Rfc4571
