/-
  Resource bookkeeping of the agent (agent/agent.c nice_agent_remove_stream, conncheck.c
  conn_check_prune_stream, discovery.c discovery_prune_stream / refresh_prune_stream_async) and the
  re-arm intervals of its periodic timers.  A resource is tagged with the stream id that owns it.
-/
import Nice.Gen.Consts
import Nice.Model.Consent
namespace Nice.Lifecycle
open Nice.Gen

structure Agent where
  streams     : List Nat := []          -- live stream ids
  discovery   : List Nat := []          -- stream id of every pending discovery item
  refreshes   : List Nat := []          -- stream id of every TURN refresh
  triggered   : List Nat := []          -- stream id of every pair in the triggered-check queue
  checkLists  : List (Nat × Nat) := []  -- (stream id, number of pairs)
  keepalive   : Bool := false           -- keepalive timer armed
  nextId      : Nat := 1
  deriving Repr

def addStream (a : Agent) : Agent × Nat :=
  ({ a with streams := a.streams ++ [a.nextId], nextId := a.nextId + 1 }, a.nextId)

/-- nice_agent_remove_stream: unknown ids are ignored; everything tagged with the id is pruned; the
    keepalive timer is removed with the last stream -/
def removeStream (a : Agent) (sid : Nat) : Agent :=
  if a.streams.contains sid then
    let streams := a.streams.filter (· != sid)
    { a with streams := streams,
             discovery := a.discovery.filter (· != sid),
             refreshes := a.refreshes.filter (· != sid),
             triggered := a.triggered.filter (· != sid),
             checkLists := a.checkLists.filter (·.1 != sid),
             keepalive := a.keepalive && !streams.isEmpty }
  else a

def mentions (a : Agent) (sid : Nat) : Bool :=
  a.streams.contains sid || a.discovery.contains sid || a.refreshes.contains sid ||
  a.triggered.contains sid || a.checkLists.any (·.1 == sid)

/-- interval (ms) with which the keepalive timer is re-armed when nothing is due:
    `(min_next_tick - now) / 1000` where every next_tick is at most TR (resp. the consent interval) ahead -/
def keepaliveRearmMs (consent : Bool) (remainingUs : Nat) : Nat :=
  min remainingUs ((if consent then NICE_AGENT_TIMER_MIN_CONSENT_INTERVAL else NICE_AGENT_TIMER_TR_DEFAULT) * 1000) / 1000

end Nice.Lifecycle
