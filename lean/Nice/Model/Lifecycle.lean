/-
  Resource bookkeeping of the agent (agent/agent.c nice_agent_add_stream / nice_agent_remove_stream /
  on_stream_refreshes_pruned, conncheck.c conn_check_prune_stream, discovery.c discovery_prune_stream /
  refresh_prune_stream_async / refresh_prune_async / refresh_free) and the re-arm intervals of its
  periodic timers.  A resource is tagged with the stream id that owns it.

  TURN refreshes are the one container that is NOT emptied synchronously: nice_agent_remove_stream marks
  the stream's refreshes `disposing`, parks the stream object on `pruning_streams` and closes it only when
  the last of them has been freed (TURN de-allocation answered or timed out).  A refresh can also be
  disposed on its own (nice_agent_forget_relays), in which case its stream stays live.
-/
import Nice.Gen.Consts
import Nice.Model.Consent
namespace Nice.Lifecycle
open Nice.Gen

/-- `live`: refreshing an allocation; `forgetting`: being disposed by forget_relays (stream stays);
    `removing`: being disposed because its stream was removed (the stream object waits for it) -/
inductive RState | live | forgetting | removing
  deriving DecidableEq, Repr

structure Refresh where
  sid : Nat
  st  : RState
  deriving DecidableEq, Repr

structure Agent where
  streams     : List Nat := []          -- agent->streams (ids)
  discovery   : List Nat := []          -- stream id of every pending discovery item
  refreshes   : List Refresh := []      -- agent->refresh_list
  triggered   : List Nat := []          -- stream id of every pair in the triggered-check queue
  checkLists  : List (Nat × Nat) := []  -- (stream id, number of pairs), one per live stream
  pruning     : List Nat := []          -- agent->pruning_streams (ids): removed, not yet closed
  keepalive   : Bool := false           -- keepalive timer armed
  nextId      : Nat := 1                -- agent->next_stream_id
  unsched     : Nat := 0                -- agent->discovery_unsched_items (items still waiting for their pacing slot)
  discTimer   : Bool := false           -- agent->discovery_timer_source != NULL
  deriving Repr

/-- nice_agent_add_stream -/
def addStream (a : Agent) : Agent × Nat :=
  ({ a with streams := a.streams ++ [a.nextId], checkLists := a.checkLists ++ [(a.nextId, 0)],
            nextId := a.nextId + 1 }, a.nextId)

/-- on_stream_refreshes_pruned → nice_stream_close: the stream object goes away, and with its sockets
    every refresh that still used them (refresh_prune_socket) -/
def closeStream (a : Agent) (sid : Nat) : Agent :=
  { a with refreshes := a.refreshes.filter (·.sid != sid), pruning := a.pruning.filter (· != sid) }

def isLiveOf (sid : Nat) (r : Refresh) : Bool := r.sid == sid && r.st == .live
def isRemovingOf (sid : Nat) (r : Refresh) : Bool := r.sid == sid && r.st == .removing

/-- discovery_free resets the counter of unscheduled items when (and only when) the discovery list becomes empty -/
def unschedAfter (disc : List Nat) (u : Nat) : Nat := if disc.isEmpty then 0 else u

/-- nice_agent_remove_stream: unknown ids are ignored; discovery items, triggered checks and the check
    list are pruned at once; live refreshes become `removing` and the stream waits on `pruning`
    — unless there is none, in which case the stream is closed before the call returns; the
    keepalive timer is removed with the last stream -/
def removeStream (a : Agent) (sid : Nat) : Agent :=
  if a.streams.contains sid then
    let streams := a.streams.filter (· != sid)
    let base : Agent :=
      { a with streams := streams,
               discovery := a.discovery.filter (· != sid),
               -- discovery_prune_stream: the counter is reset (discovery_free) only when the list becomes empty
               unsched := unschedAfter (a.discovery.filter (· != sid)) a.unsched,
               discTimer := a.discTimer && !(a.discovery.filter (· != sid)).isEmpty,
               triggered := a.triggered.filter (· != sid),
               checkLists := a.checkLists.filter (·.1 != sid),
               keepalive := a.keepalive && !streams.isEmpty }
    if a.refreshes.any (isLiveOf sid) then
      { base with refreshes := a.refreshes.map (fun r => if isLiveOf sid r then { r with st := .removing } else r),
                  pruning := sid :: a.pruning }
    else closeStream base sid
  else a

/-- refresh_free of a disposing refresh (de-allocation answered or timed out); the last `removing`
    refresh of a stream closes that stream -/
def dropRefresh (a : Agent) (r : Refresh) : Agent := { a with refreshes := a.refreshes.erase r }

def refreshFreed (a : Agent) (sid : Nat) (st : RState) : Agent :=
  if st = .live then a else
  if (⟨sid, st⟩ : Refresh) ∈ a.refreshes then
    if st = .removing ∧ !((dropRefresh a ⟨sid, st⟩).refreshes.any (isRemovingOf sid)) then
      closeStream (dropRefresh a ⟨sid, st⟩) sid
    else dropRefresh a ⟨sid, st⟩
  else a

/-- what an application can see of a stream id after the call returned: the live containers -/
def mentions (a : Agent) (sid : Nat) : Bool :=
  a.streams.contains sid || a.discovery.contains sid || a.refreshes.any (isLiveOf sid) ||
  a.triggered.contains sid || a.checkLists.any (·.1 == sid)

inductive Op
  | add
  | remove (sid : Nat)
  | gather (sid k : Nat)        -- k discovery items created for a stream (each counted as unscheduled)
  | discDone (sid : Nat)        -- one discovery item pruned (discovery_prune_socket)
  | sched                       -- the discovery tick gives one item its pacing slot
  | discFinished                -- the discovery tick found every item done: discovery_free
  | alloc (sid : Nat)           -- TURN allocation succeeded: a refresh is created
  | refreshDropped (sid : Nat)  -- refresh_prune_candidate / refresh failure: a live refresh is freed
  | forget (sid : Nat)          -- forget_relays: one live refresh starts being disposed
  | freed (sid : Nat) (st : RState)
  | pairs (sid n : Nat)         -- the check list of a stream now has n pairs
  | trigger (sid : Nat)
  | popTrigger
  | keepaliveStart
  deriving Repr

def step (a : Agent) : Op → Agent
  | .add => (addStream a).1
  | .remove sid => removeStream a sid
  | .gather sid k =>
      if a.streams.contains sid && k != 0 then
        { a with discovery := a.discovery ++ List.replicate k sid, unsched := a.unsched + k, discTimer := true } else a
  | .discDone sid =>
      { a with discovery := a.discovery.erase sid,
               unsched := unschedAfter (a.discovery.erase sid) a.unsched,
               discTimer := a.discTimer && !(a.discovery.erase sid).isEmpty }
  | .sched => { a with unsched := a.unsched - 1 }
  | .discFinished => { a with discovery := [], unsched := 0, discTimer := false }
  | .alloc sid => if a.streams.contains sid then { a with refreshes := a.refreshes ++ [⟨sid, .live⟩] } else a
  | .refreshDropped sid => { a with refreshes := a.refreshes.erase ⟨sid, .live⟩ }
  | .forget sid =>
      if (⟨sid, .live⟩ : Refresh) ∈ a.refreshes then
        { a with refreshes := a.refreshes.erase ⟨sid, .live⟩ ++ [⟨sid, .forgetting⟩] }
      else a
  | .freed sid st => refreshFreed a sid st
  | .pairs sid n => { a with checkLists := a.checkLists.map (fun p => if p.1 == sid then (sid, n) else p) }
  | .trigger sid => if a.streams.contains sid then { a with triggered := a.triggered ++ [sid] } else a
  | .popTrigger => { a with triggered := a.triggered.tail }
  | .keepaliveStart => if a.streams.isEmpty then a else { a with keepalive := true }

/-- executable form of `WF`, evaluated by the driver on every snapshot of the real agent -/
def wfb (a : Agent) : Bool :=
  a.discovery.all (a.streams.contains ·) && a.triggered.all (a.streams.contains ·) &&
  a.checkLists.all (fun p => a.streams.contains p.1) &&
  a.refreshes.all (fun r => match r.st with
    | .live => a.streams.contains r.sid
    | .removing => a.pruning.contains r.sid
    | .forgetting => a.streams.contains r.sid || a.pruning.contains r.sid) &&
  a.pruning.all (fun s => a.refreshes.contains ⟨s, .removing⟩) &&
  a.streams.all (· < a.nextId) && a.pruning.all (· < a.nextId) &&
  a.pruning.all (fun s => !a.streams.contains s) &&
  (!a.keepalive || !a.streams.isEmpty) &&
  (a.unsched == 0 || !a.discovery.isEmpty) &&
  (!a.discTimer || !a.discovery.isEmpty)

def run (ops : List Op) : Agent := ops.foldl step {}

/-- interval (ms) with which the keepalive timer is re-armed when nothing is due:
    `(min_next_tick - now) / 1000` where every next_tick is at most TR (resp. the consent interval) ahead -/
def keepaliveRearmMs (consent : Bool) (remainingUs : Nat) : Nat :=
  min remainingUs ((if consent then NICE_AGENT_TIMER_MIN_CONSENT_INTERVAL else NICE_AGENT_TIMER_TR_DEFAULT) * 1000) / 1000

end Nice.Lifecycle
