/-
  Effect-dominance skeletons (deep embedding) and a VERIFIED reachability analysis over their finite tracked state.

  `tools/extract_flow.py` turns a C function into a `Stmt`: the few tracked locals become registers of `St`, every
  condition over untracked data becomes `Cond.orc` (either outcome possible), every call that is not on the
  translator's list of pure helpers becomes an event `Stmt.ev site kind`, a call whose result is stored in a tracked
  register becomes `Stmt.havoc` (any value the oracle `H site σ` allows), loops run zero or more times.

  `Exec` is the nondeterministic big-step semantics: it contains every execution of the C function for every outcome
  of the untracked code.  `reach` is the collecting semantics over SETS of tracked states, computable because the
  tracked state is finite; `reach_sound` proves once and for all that whenever `(reach H P p S).ok`, every event of
  every execution from a state of `S` satisfies the policy `P`.  A property of a regenerated skeleton is then one
  kernel computation (`decide +kernel`), independent of the shape of the function: a harmless edit does not break
  it, an edit that lets an event escape the policy does.

  Hand-written; part of the trusted base as far as `Exec` is the meaning of the generated term.
-/
namespace Nice.Flow

/-- four tracked registers -/
structure St where
  r0 : Nat := 0
  r1 : Nat := 0
  r2 : Nat := 0
  r3 : Nat := 0
  deriving DecidableEq, Repr

/-- Boolean equality through `Nat.beq` (evaluated natively by the kernel: the analysis below is run by
    `decide +kernel`) -/
def St.beq (a b : St) : Bool := Nat.beq a.r0 b.r0 && Nat.beq a.r1 b.r1 && Nat.beq a.r2 b.r2 && Nat.beq a.r3 b.r3

theorem nbeq_iff {a b : Nat} : Nat.beq a b = true ↔ a = b :=
  ⟨Nat.eq_of_beq_eq_true, fun h => h ▸ Nat.beq_refl a⟩

theorem St.beq_iff {a b : St} : St.beq a b = true ↔ a = b := by
  cases a; cases b
  simp only [St.beq, Bool.and_eq_true, nbeq_iff, St.mk.injEq, and_assoc]

def St.get (s : St) : Nat → Nat
  | 0 => s.r0 | 1 => s.r1 | 2 => s.r2 | _ => s.r3

def St.set (s : St) (r k : Nat) : St :=
  match r with
  | 0 => { s with r0 := k } | 1 => { s with r1 := k } | 2 => { s with r2 := k } | _ => { s with r3 := k }

inductive Cond where
  | eq (r k : Nat)           -- register r == constant k
  | orc (site : Nat)         -- condition over untracked data: both outcomes possible
  | not (c : Cond)
  | and (a b : Cond)         -- short-circuit
  | or (a b : Cond)
  deriving Repr

inductive Stmt where
  | skip
  | seq (a b : Stmt)
  | ite (c : Cond) (t e : Stmt)
  | set (r k : Nat)              -- register := constant
  | havoc (r site : Nat)         -- register := result of the call at `site` (any value `H site σ` allows)
  | ev (site kind : Nat)         -- a call / store that may have a side effect
  | ret (v : Nat)                -- return (v = the constant returned, 2 = not a constant)
  | brk
  | cont
  | loop (body : Stmt)           -- zero or more iterations; the loop condition is over untracked data
  | abort                        -- noreturn call
  | jmp                          -- `goto L` for the one label L that closes the enclosing `block`
  | block (b : Stmt)             -- `{ b } L:` : a `jmp` inside ends the block normally
  deriving Repr

inductive Out where
  | norm | brk | cont | ret (v : Nat) | abort | jmp
  deriving DecidableEq, Repr

def Out.code : Out → Nat
  | .norm => 0 | .brk => 1 | .cont => 2 | .abort => 3 | .jmp => 4 | .ret v => 5 + v

def Out.beq (a b : Out) : Bool := Nat.beq a.code b.code

theorem Out.beq_iff {a b : Out} : Out.beq a b = true ↔ a = b := by
  unfold Out.beq
  rw [nbeq_iff]
  cases a <;> cases b <;> simp [Out.code] <;> omega

def peq (a b : St × Out) : Bool := St.beq a.1 b.1 && Out.beq a.2 b.2

theorem peq_iff {a b : St × Out} : peq a b = true ↔ a = b := by
  obtain ⟨a1, a2⟩ := a; obtain ⟨b1, b2⟩ := b
  simp only [peq, Bool.and_eq_true, St.beq_iff, Out.beq_iff, Prod.mk.injEq]

structure Ev where
  site : Nat
  kind : Nat
  st : St
  deriving DecidableEq, Repr

/-- can the condition evaluate to true / to false in tracked state `s` (short-circuit `&&`, `||`) -/
def canT : Cond → St → Bool
  | .eq r k, s => Nat.beq (s.get r) k
  | .orc _, _ => true
  | .not c, s => canF c s
  | .and a b, s => canT a s && canT b s
  | .or a b, s => canT a s || (canF a s && canT b s)
where canF : Cond → St → Bool
  | .eq r k, s => !Nat.beq (s.get r) k
  | .orc _, _ => true
  | .not c, s => canT c s
  | .and a b, s => canF a s || (canT a s && canF b s)
  | .or a b, s => canF a s && canF b s

abbrev canF := @canT.canF

abbrev Havoc := Nat → St → List Nat

/-- every execution of the skeleton, for every outcome of the untracked code -/
inductive Exec (H : Havoc) : Stmt → St → List Ev → St → Out → Prop where
  | skip (s) : Exec H .skip s [] s .norm
  | seqN {a b s t1 s1 t2 s2 o} : Exec H a s t1 s1 .norm → Exec H b s1 t2 s2 o → Exec H (.seq a b) s (t1 ++ t2) s2 o
  | seqX {a b s t1 s1 o} : Exec H a s t1 s1 o → o ≠ .norm → Exec H (.seq a b) s t1 s1 o
  | iteT {c t e s tr s1 o} : canT c s = true → Exec H t s tr s1 o → Exec H (.ite c t e) s tr s1 o
  | iteF {c t e s tr s1 o} : canF c s = true → Exec H e s tr s1 o → Exec H (.ite c t e) s tr s1 o
  | set (r k s) : Exec H (.set r k) s [] (s.set r k) .norm
  | havoc {r site s v} : v ∈ H site s → Exec H (.havoc r site) s [] (s.set r v) .norm
  | ev (site kind s) : Exec H (.ev site kind) s [⟨site, kind, s⟩] s .norm
  | ret (v s) : Exec H (.ret v) s [] s (.ret v)
  | brk (s) : Exec H .brk s [] s .brk
  | cont (s) : Exec H .cont s [] s .cont
  | abort (s) : Exec H .abort s [] s .abort
  | jmp (s) : Exec H .jmp s [] s .jmp
  | blockJ {b s t s1} : Exec H b s t s1 .jmp → Exec H (.block b) s t s1 .norm
  | blockN {b s t s1 o} : Exec H b s t s1 o → o ≠ .jmp → Exec H (.block b) s t s1 o
  | loopExit (b s) : Exec H (.loop b) s [] s .norm
  | loopIter {b s t1 s1 o1 t2 s2 o2} : Exec H b s t1 s1 o1 → (o1 = .norm ∨ o1 = .cont) →
      Exec H (.loop b) s1 t2 s2 o2 → Exec H (.loop b) s (t1 ++ t2) s2 o2
  | loopBrk {b s t s1} : Exec H b s t s1 .brk → Exec H (.loop b) s t s1 .norm
  | loopOut {b s t s1 o} : Exec H b s t s1 o → (o ≠ .norm ∧ o ≠ .cont ∧ o ≠ .brk) → Exec H (.loop b) s t s1 o

/-! ### collecting semantics over sets of tracked states -/

def elemBy {α} (eq : α → α → Bool) (a : α) : List α → Bool
  | [] => false
  | x :: xs => eq a x || elemBy eq a xs

theorem elemBy_iff {α} {eq : α → α → Bool} (heq : ∀ {a b}, eq a b = true ↔ a = b) {a : α} {l : List α} :
    elemBy eq a l = true ↔ a ∈ l := by
  induction l with
  | nil => simp [elemBy]
  | cons x xs ih => simp only [elemBy, Bool.or_eq_true, heq, ih, List.mem_cons]

def dedupBy {α} (eq : α → α → Bool) : List α → List α
  | [] => []
  | x :: xs => if elemBy eq x xs then dedupBy eq xs else x :: dedupBy eq xs

theorem mem_dedupBy {α} {eq : α → α → Bool} (heq : ∀ {a b}, eq a b = true ↔ a = b) {a : α} {l : List α} :
    a ∈ dedupBy eq l ↔ a ∈ l := by
  induction l with
  | nil => simp [dedupBy]
  | cons x xs ih =>
    unfold dedupBy
    by_cases h : elemBy eq x xs = true
    · rw [if_pos h, ih]
      have hx := (elemBy_iff heq).mp h
      constructor
      · intro h1; exact List.mem_cons_of_mem _ h1
      · intro h1
        rcases List.mem_cons.mp h1 with rfl | h2
        · exact hx
        · exact h2
    · rw [if_neg h, List.mem_cons, ih, List.mem_cons]

def dedupS : List St → List St := dedupBy St.beq
def dedupP : List (St × Out) → List (St × Out) := dedupBy peq
def memS (s : St) (l : List St) : Bool := elemBy St.beq s l

theorem mem_dedupS {a : St} {l} : a ∈ dedupS l ↔ a ∈ l := mem_dedupBy St.beq_iff
theorem mem_dedupP {a : St × Out} {l} : a ∈ dedupP l ↔ a ∈ l := mem_dedupBy peq_iff
theorem memS_iff {a : St} {l} : memS a l = true ↔ a ∈ l := elemBy_iff St.beq_iff

structure Res where
  outs : List (St × Out) := []
  ok : Bool := true

def isJmp (o : Out) : Bool := Nat.beq o.code 4

theorem isJmp_iff {o : Out} : isJmp o = true ↔ o = .jmp := by
  cases o <;> simp [isJmp, Out.code] <;> omega

def unJmp (p : St × Out) : St × Out := if isJmp p.2 then (p.1, .norm) else p

def isNorm (o : Out) : Bool := Nat.beq o.code 0
def isNormOrCont (o : Out) : Bool := Nat.beq o.code 0 || Nat.beq o.code 2

theorem isNorm_iff {o : Out} : isNorm o = true ↔ o = .norm := by
  cases o <;> simp [isNorm, Out.code]

theorem isNormOrCont_iff {o : Out} : isNormOrCont o = true ↔ (o = .norm ∨ o = .cont) := by
  cases o <;> simp [isNormOrCont, Out.code] <;> omega

def normOf (l : List (St × Out)) : List St :=
  dedupS (l.filterMap fun p => if isNorm p.2 then some p.1 else none)

def contOf (l : List (St × Out)) : List St :=
  dedupS (l.filterMap fun p => if isNormOrCont p.2 then some p.1 else none)

theorem mem_normOf {l : List (St × Out)} {s : St} : s ∈ normOf l ↔ (s, Out.norm) ∈ l := by
  unfold normOf
  rw [mem_dedupS, List.mem_filterMap]
  constructor
  · rintro ⟨⟨s1, o⟩, hm, hf⟩
    by_cases ho : isNorm o = true
    · simp only [ho, if_true, Option.some.injEq] at hf
      subst hf
      rw [isNorm_iff] at ho; subst ho; exact hm
    · simp [ho] at hf
  · intro h; exact ⟨(s, .norm), h, by simp [isNorm, Out.code]⟩

theorem mem_contOf {l : List (St × Out)} {s : St} :
    s ∈ contOf l ↔ ((s, Out.norm) ∈ l ∨ (s, Out.cont) ∈ l) := by
  unfold contOf
  rw [mem_dedupS, List.mem_filterMap]
  constructor
  · rintro ⟨⟨s1, o⟩, hm, hf⟩
    by_cases ho : isNormOrCont o = true
    · simp only [ho, if_true, Option.some.injEq] at hf
      subst hf
      rcases isNormOrCont_iff.mp ho with rfl | rfl
      · exact Or.inl hm
      · exact Or.inr hm
    · simp [ho] at hf
  · rintro (h | h)
    · exact ⟨(s, .norm), h, by simp [isNormOrCont, Out.code]⟩
    · exact ⟨(s, .cont), h, by simp [isNormOrCont, Out.code]⟩

/-- how a loop turns the outcome of its body into its own outcome -/
def loopOut : St × Out → List (St × Out)
  | (s, .brk) => [(s, .norm)]
  | (_, .norm) => []
  | (_, .cont) => []
  | (s, o) => [(s, o)]

/-- the loop head states: closure of `S` under "one more iteration", `n` rounds (closedness is CHECKED, so the
    number of rounds only has to be large enough) -/
def closure (body : List St → Res) : Nat → List St → List St
  | 0, I => I
  | n + 1, I => closure body n (dedupS (I ++ contOf (body I).outs))

abbrev Policy := Nat → Nat → St → Bool

def rounds : Nat := 4

/-- collecting semantics: from the set `S` of tracked states, the possible (state, outcome) pairs, and whether
    every event met along the way satisfies the policy (and every loop's head set is closed) -/
def reach (H : Havoc) (P : Policy) : Stmt → List St → Res
  | .skip, S => { outs := S.map (·, .norm) }
  | .seq a b, S =>
    let ra := reach H P a S
    let rb := reach H P b (normOf ra.outs)
    { outs := dedupP (ra.outs.filter (fun p => !isNorm p.2) ++ rb.outs), ok := ra.ok && rb.ok }
  | .ite c t e, S =>
    let rt := reach H P t (S.filter fun s => canT c s)
    let re := reach H P e (S.filter fun s => canF c s)
    { outs := dedupP (rt.outs ++ re.outs), ok := rt.ok && re.ok }
  | .set r k, S => { outs := dedupP (S.map fun s => (s.set r k, .norm)) }
  | .havoc r site, S => { outs := dedupP (S.flatMap fun s => (H site s).map fun v => (s.set r v, .norm)) }
  | .ev site kind, S => { outs := S.map (·, .norm), ok := S.all fun s => P site kind s }
  | .ret v, S => { outs := S.map (·, .ret v) }
  | .brk, S => { outs := S.map (·, .brk) }
  | .cont, S => { outs := S.map (·, .cont) }
  | .abort, S => { outs := S.map (·, .abort) }
  | .jmp, S => { outs := S.map (·, .jmp) }
  | .block b, S =>
    let rb := reach H P b S
    { outs := dedupP (rb.outs.map unJmp), ok := rb.ok }
  | .loop b, S =>
    let I := closure (reach H P b) rounds S
    let rb := reach H P b I
    { outs := dedupP (I.map (·, .norm) ++ rb.outs.flatMap loopOut),
      ok := rb.ok && (contOf rb.outs).all (fun s => memS s I) && S.all (fun s => memS s I) }

/-! ### soundness -/

theorem loop_sound {H : Havoc} {P : Policy} {b : Stmt} {I : List St}
    (ihb : ∀ {S s tr s1 o}, Exec H b s tr s1 o → s ∈ S → (reach H P b S).ok = true →
        (s1, o) ∈ (reach H P b S).outs ∧ ∀ e ∈ tr, P e.site e.kind e.st = true)
    (hok : (reach H P b I).ok = true)
    (hclosed : ∀ s, s ∈ contOf (reach H P b I).outs → s ∈ I)
    {p s tr s1 o} (hx : Exec H p s tr s1 o) (hp : p = .loop b) (hs : s ∈ I) :
    ((s1, o) ∈ I.map (·, Out.norm) ∨ (s1, o) ∈ (reach H P b I).outs.flatMap loopOut) ∧
      ∀ e ∈ tr, P e.site e.kind e.st = true := by
  induction hx with
  | loopExit b' s =>
    refine ⟨Or.inl ?_, by intro e he; cases he⟩
    exact List.mem_map.mpr ⟨s, hs, rfl⟩
  | @loopIter b' s t1 s1 o1 t2 s2 o2 h1 ho h2 _ ih2 =>
    cases hp
    have hb := ihb h1 hs hok
    have hs1 : s1 ∈ I := by
      apply hclosed
      rw [mem_contOf]
      rcases ho with rfl | rfl
      · exact Or.inl hb.1
      · exact Or.inr hb.1
    have h3 := ih2 rfl hs1
    refine ⟨h3.1, ?_⟩
    intro e he
    rcases List.mem_append.mp he with he | he
    · exact hb.2 e he
    · exact h3.2 e he
  | @loopBrk b' s t s1 h1 _ =>
    cases hp
    have hb := ihb h1 hs hok
    refine ⟨Or.inr ?_, hb.2⟩
    exact List.mem_flatMap.mpr ⟨(s1, .brk), hb.1, by simp [loopOut]⟩
  | @loopOut b' s t s1 o h1 ho _ =>
    cases hp
    have hb := ihb h1 hs hok
    refine ⟨Or.inr ?_, hb.2⟩
    refine List.mem_flatMap.mpr ⟨(s1, o), hb.1, ?_⟩
    cases o with
    | norm => exact absurd rfl ho.1
    | cont => exact absurd rfl ho.2.1
    | brk => exact absurd rfl ho.2.2
    | ret v => simp [loopOut]
    | abort => simp [loopOut]
    | jmp => simp [loopOut]
  | _ => cases hp

/-- **Soundness of the analysis.**  If `reach` reports ok for the set `S`, then every execution of `p` from a
    state of `S` ends in one of the computed (state, outcome) pairs and every event it emits satisfies `P`. -/
theorem reach_sound {H : Havoc} {P : Policy} (p : Stmt) :
    ∀ {S s tr s1 o}, Exec H p s tr s1 o → s ∈ S → (reach H P p S).ok = true →
      (s1, o) ∈ (reach H P p S).outs ∧ ∀ e ∈ tr, P e.site e.kind e.st = true := by
  induction p with
  | skip =>
    intro S s tr s1 o hx hs _
    cases hx
    exact ⟨List.mem_map.mpr ⟨s, hs, rfl⟩, by intro e he; cases he⟩
  | seq a b iha ihb =>
    intro S s tr s1 o hx hs hok
    simp only [reach, Bool.and_eq_true] at hok
    cases hx with
    | seqN h1 h2 =>
      have ha := iha h1 hs hok.1
      have hb := ihb h2 (mem_normOf.mpr ha.1) hok.2
      refine ⟨?_, ?_⟩
      · simp only [reach]
        rw [mem_dedupP]
        exact List.mem_append.mpr (Or.inr hb.1)
      · intro e he
        rcases List.mem_append.mp he with he | he
        · exact ha.2 e he
        · exact hb.2 e he
    | seqX h1 ho =>
      have ha := iha h1 hs hok.1
      refine ⟨?_, ha.2⟩
      simp only [reach]
      rw [mem_dedupP]
      refine List.mem_append.mpr (Or.inl ?_)
      refine List.mem_filter.mpr ⟨ha.1, ?_⟩
      cases hn : isNorm o
      · rfl
      · exact absurd (isNorm_iff.mp hn) ho
  | ite c t e iht ihe =>
    intro S s tr s1 o hx hs hok
    simp only [reach, Bool.and_eq_true] at hok
    cases hx with
    | iteT hc h1 =>
      have ht := iht h1 (List.mem_filter.mpr ⟨hs, hc⟩) hok.1
      refine ⟨?_, ht.2⟩
      simp only [reach]
      rw [mem_dedupP]
      exact List.mem_append.mpr (Or.inl ht.1)
    | iteF hc h1 =>
      have he := ihe h1 (List.mem_filter.mpr ⟨hs, hc⟩) hok.2
      refine ⟨?_, he.2⟩
      simp only [reach]
      rw [mem_dedupP]
      exact List.mem_append.mpr (Or.inr he.1)
  | set r k =>
    intro S s tr s1 o hx hs _
    cases hx
    refine ⟨?_, by intro e he; cases he⟩
    simp only [reach]
    rw [mem_dedupP]
    exact List.mem_map.mpr ⟨s, hs, rfl⟩
  | havoc r site =>
    intro S s tr s1 o hx hs _
    cases hx with
    | havoc hv =>
      refine ⟨?_, by intro e he; cases he⟩
      simp only [reach]
      rw [mem_dedupP]
      exact List.mem_flatMap.mpr ⟨s, hs, List.mem_map.mpr ⟨_, hv, rfl⟩⟩
  | ev site kind =>
    intro S s tr s1 o hx hs hok
    cases hx
    simp only [reach] at hok
    refine ⟨List.mem_map.mpr ⟨s, hs, rfl⟩, ?_⟩
    intro e he
    have : e = ⟨site, kind, s⟩ := by simpa using he
    subst this
    exact List.all_eq_true.mp hok s hs
  | ret v =>
    intro S s tr s1 o hx hs _
    cases hx
    exact ⟨List.mem_map.mpr ⟨s, hs, rfl⟩, by intro e he; cases he⟩
  | brk =>
    intro S s tr s1 o hx hs _
    cases hx
    exact ⟨List.mem_map.mpr ⟨s, hs, rfl⟩, by intro e he; cases he⟩
  | cont =>
    intro S s tr s1 o hx hs _
    cases hx
    exact ⟨List.mem_map.mpr ⟨s, hs, rfl⟩, by intro e he; cases he⟩
  | abort =>
    intro S s tr s1 o hx hs _
    cases hx
    exact ⟨List.mem_map.mpr ⟨s, hs, rfl⟩, by intro e he; cases he⟩
  | jmp =>
    intro S s tr s1 o hx hs _
    cases hx
    exact ⟨List.mem_map.mpr ⟨s, hs, rfl⟩, by intro e he; cases he⟩
  | block b ihb =>
    intro S s tr s1 o hx hs hok
    simp only [reach] at hok
    cases hx with
    | blockJ h1 =>
      have hb := ihb h1 hs hok
      refine ⟨?_, hb.2⟩
      simp only [reach]
      rw [mem_dedupP]
      exact List.mem_map.mpr ⟨(s1, .jmp), hb.1, by simp [unJmp, isJmp, Out.code]⟩
    | blockN h1 ho =>
      have hb := ihb h1 hs hok
      refine ⟨?_, hb.2⟩
      simp only [reach]
      rw [mem_dedupP]
      refine List.mem_map.mpr ⟨(s1, o), hb.1, ?_⟩
      unfold unJmp
      cases hj : isJmp o
      · rfl
      · exact absurd (isJmp_iff.mp hj) ho
  | loop b ihb =>
    intro S s tr s1 o hx hs hok
    simp only [reach, Bool.and_eq_true] at hok
    obtain ⟨⟨hokb, hcl⟩, hin⟩ := hok
    have hsI : s ∈ closure (reach H P b) rounds S := memS_iff.mp (List.all_eq_true.mp hin s hs)
    have hclosed : ∀ s, s ∈ contOf (reach H P b (closure (reach H P b) rounds S)).outs →
        s ∈ closure (reach H P b) rounds S := by
      intro s' hs'
      exact memS_iff.mp (List.all_eq_true.mp hcl s' hs')
    have h := loop_sound (I := closure (reach H P b) rounds S) (fun hx hs hok => ihb hx hs hok) hokb hclosed hx rfl hsI
    refine ⟨?_, h.2⟩
    simp only [reach]
    rw [mem_dedupP]
    exact List.mem_append.mpr h.1

/-- the form used by the property theorems: the analysis is run once, from the function's initial states -/
theorem events_satisfy_policy {H : Havoc} {P : Policy} {p : Stmt} {S : List St}
    (hok : (reach H P p S).ok = true) {s tr s1 o} (hs : s ∈ S) (hx : Exec H p s tr s1 o) :
    ∀ e ∈ tr, P e.site e.kind e.st = true :=
  (reach_sound p hx hs hok).2

theorem outcomes_computed {H : Havoc} {P : Policy} {p : Stmt} {S : List St}
    (hok : (reach H P p S).ok = true) {s tr s1 o} (hs : s ∈ S) (hx : Exec H p s tr s1 o) :
    (s1, o) ∈ (reach H P p S).outs :=
  (reach_sound p hx hs hok).1

end Nice.Flow
