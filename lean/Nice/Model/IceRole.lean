/-
  ICE role-conflict resolution kernels.

  * `onRequest` mirrors the role-conflict block of `stun_usage_ice_conncheck_create_reply`
    (stun/usages/ice.c): the receiver has role `control` and tie-breaker `tie`; the request carries
    ICE-CONTROLLING or ICE-CONTROLLED (`reqControlling`) with the sender's tie-breaker `q`.
  * `on487` mirrors conncheck.c (`STUN_USAGE_ICE_RETURN_ROLE_CONFLICT` branch of
    priv_map_reply_to_conn_check_request + priv_check_for_role_conflict): the new role is
    "controlling iff the request we sent carried ICE-CONTROLLED".
  * `Sys` is the abstract two-agent system over a monotone message history: any message ever sent
    may be delivered any number of times, in any order, at any time (loss = never delivered).
-/
import Nice.Gen.RoleConflict
namespace Nice.IceRole

inductive Reply where
  | success        -- no conflict
  | switched       -- conflict, receiver switched role, success response
  | err487         -- conflict, receiver keeps its role, 487 Role Conflict
  deriving DecidableEq, Repr

/-- receiver side: returns (new role, reply). `none` for `reqControlling` = request carries neither
    attribute (no conflict detection possible). -/
def onRequest (control : Bool) (tie : UInt64) (reqControlling : Option Bool) (q : UInt64) : Bool × Reply :=
  match reqControlling with
  | none => (control, .success)
  | some rc =>
    if rc == control then
      -- role conflict
      -- the guard is REGENERATED from stun/usages/ice.c on every run (Nice.Gen.RoleConflict.switches)
      if Nice.Gen.RoleConflict.switches tie q control then (!control, .switched)
      else (control, .err487)
    else (control, .success)

/-- sender side on a 487 for a request it sent with role attribute `sentControlling` -/
def on487 (sentControlling : Bool) : Bool := !sentControlling

/-! ### abstract two-agent system -/

inductive Ag where | a | b
  deriving DecidableEq, Repr

def Ag.other : Ag → Ag | .a => .b | .b => .a

structure Msg where
  sender : Ag
  controlling : Bool          -- role attribute carried by the request
  deriving DecidableEq, Repr

structure Sys where
  roleA : Bool
  roleB : Bool
  tieA  : UInt64
  tieB  : UInt64
  reqs  : List Msg            -- every request ever sent
  errs  : List Msg            -- every 487 ever sent: `sender` = the agent the 487 is addressed to,
                              -- `controlling` = role attribute of the request it answers
  deriving Repr

def Sys.role (s : Sys) : Ag → Bool | .a => s.roleA | .b => s.roleB
def Sys.tie (s : Sys) : Ag → UInt64 | .a => s.tieA | .b => s.tieB
def Sys.setRole (s : Sys) (x : Ag) (r : Bool) : Sys :=
  match x with | .a => { s with roleA := r } | .b => { s with roleB := r }

def Sys.addErr (s : Sys) (m : Msg) : Sys := { s with errs := m :: s.errs }

inductive Step where
  | send (x : Ag)                 -- x sends a check with its current role
  | deliverReq (m : Msg)          -- a request from history reaches the other agent
  | deliver487 (m : Msg)          -- a 487 from history reaches its addressee
  deriving Repr

def step (s : Sys) : Step → Sys
  | .send x => { s with reqs := { sender := x, controlling := s.role x } :: s.reqs }
  | .deliverReq m =>
    if m ∈ s.reqs then
      let y := m.sender.other
      let d := onRequest (s.role y) (s.tie y) (some m.controlling) (s.tie m.sender)
      let s' := s.setRole y d.1
      if d.2 = .err487 then s'.addErr { sender := m.sender, controlling := m.controlling } else s'
    else s
  | .deliver487 m =>
    if m ∈ s.errs then s.setRole m.sender (on487 m.controlling) else s

def run (s : Sys) (steps : List Step) : Sys := steps.foldl step s

end Nice.IceRole
